// C11: byte-level behaviour of the real cvm::memory_stream.
#include "common.h"
#include "colvars_memstream.h"
#include "colvarvalue.h"

static cvm::memory_stream *W = nullptr;
static cvm::memory_stream *R = nullptr;
static std::vector<unsigned char> rbuf;

static std::vector<unsigned char> unhex(std::string const &h)
{
  std::vector<unsigned char> r;
  if (h == "-") return r;
  for (size_t i = 0; i + 1 < h.size(); i += 2) r.push_back((unsigned char) std::strtol(h.substr(i, 2).c_str(), nullptr, 16));
  return r;
}
static std::string hex(unsigned char const *p, size_t n)
{
  static const char *d = "0123456789abcdef";
  std::string r;
  for (size_t i = 0; i < n; i++) { r += d[p[i] >> 4]; r += d[p[i] & 15]; }
  return r.empty() ? "-" : r;
}

template <typename T> static void wvec(std::vector<unsigned char> const &b)
{
  std::vector<T> v(b.size() / sizeof(T));
  if (!v.empty()) std::memcpy(v.data(), b.data(), v.size() * sizeof(T));
  *W << v;
}
template <typename T> static void wobj(std::vector<unsigned char> const &b)
{
  T v; std::memcpy(&v, b.data(), sizeof(T)); *W << v;
}
template <typename T> static std::string rvec(Ctx &c)
{
  // the destination is reused from one read to the next, as the library's own callers do (member vectors read again at every restart):
  // what it held before must not survive a successful read
  static std::vector<T> v;
  if (v.empty()) v.assign(3, T(7));
  *R >> v;
  if (!*R) return "sfail";
  return "i" + std::to_string(v.size()) + " s" + hex((unsigned char const *) v.data(), v.size() * sizeof(T));
}
template <typename T> static std::string robj(Ctx &c)
{
  T v; std::memset(&v, 0, sizeof(T));
  *R >> v;
  if (!*R) return "sfail";
  return "s" + hex((unsigned char const *) &v, sizeof(T));
}

bool ops_c11(Ctx &c, Toks const &t)
{
  if (t[0].compare(0, 3, "ms.") != 0) return false;
  if (!c.proxy) c.fresh(2);
  if (t[0] == "ms.new") {
    if (W) delete W;
    W = new cvm::memory_stream((size_t) i_of(t[1]));
    return true;
  }
  if (t[0] == "ms.w" && W) {
    std::string const &k = t[1];
    if (k == "obj") {
      std::vector<unsigned char> b = unhex(t[3]);
      switch (i_of(t[2])) {
      case 1: wobj<unsigned char>(b); break;
      case 2: wobj<short>(b); break;
      case 4: wobj<int>(b); break;
      default: wobj<double>(b); break;
      }
    } else if (k == "vec") {
      std::vector<unsigned char> b = unhex(t[3]);
      switch (i_of(t[2])) {
      case 1: wvec<unsigned char>(b); break;
      case 2: wvec<short>(b); break;
      case 4: wvec<int>(b); break;
      default: wvec<double>(b); break;
      }
    } else if (k == "str") {
      std::vector<unsigned char> b = unhex(t[2]);
      *W << std::string(b.begin(), b.end());
    }
    c.out("len", itok((long long) W->length()));
    c.out("state", itok((long long) W->rdstate()));
    c.out("bytes", stok(hex(W->output_buffer(), W->length())));
    return true;
  }
  if (t[0] == "ms.load") {
    if (R) delete R;
    rbuf = unhex(t[1]);
    R = new cvm::memory_stream(rbuf.size(), rbuf.data());
    return true;
  }
  if (t[0] == "ms.loadw" && W) {   // read back what the writer produced
    if (R) delete R;
    rbuf.assign(W->output_buffer(), W->output_buffer() + W->length());
    R = new cvm::memory_stream(rbuf.size(), rbuf.data());
    return true;
  }
  if (t[0] == "ms.r" && R) {
    std::string const &k = t[1];
    std::string v;
    if (k == "obj") {
      switch (i_of(t[2])) {
      case 1: v = robj<unsigned char>(c); break;
      case 2: v = robj<short>(c); break;
      case 4: v = robj<int>(c); break;
      default: v = robj<double>(c); break;
      }
    } else if (k == "vec") {
      switch (i_of(t[2])) {
      case 1: v = rvec<unsigned char>(c); break;
      case 2: v = rvec<short>(c); break;
      case 4: v = rvec<int>(c); break;
      default: v = rvec<double>(c); break;
      }
    } else if (k == "str") {
      static std::string s;
      if (s.empty()) s = "junk";
      *R >> s;
      v = (!*R) ? std::string("sfail") : ("i" + std::to_string(s.size()) + " s" + hex((unsigned char const *) s.data(), s.size()));
    }
    c.out("val", v);
    c.out("state", itok((long long) R->rdstate()));
    c.out("rpos", itok((long long) R->tellg()));
    return true;
  }
  return true;
}
