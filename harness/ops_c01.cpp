// C01 / C02 / C07: atomic gradients of a variable, by engine atom id.
#include "common.h"
#include "colvar.h"

bool ops_c01(Ctx &c, Toks const &t)
{
  if (t[0].compare(0, 2, "g.") != 0) return false;
  if (t[0] != "g.collect" && t[0] != "g.grad" && t[0] != "g.tfset") return false;     // the other g.* ops belong to the grid section
  if (!c.proxy) return true;
  colvar *cv = cvm::colvar_by_name(t[1]);
  if (!cv) { c.out("g", "snone"); return true; }
  if (t[0] == "g.collect") {
    cvm::clear_error();
    cv->enable(colvardeps::f_cv_collect_gradient);
    c.out("rc", itok(cvm::get_error() != COLVARS_OK ? 1 : 0));
    cvm::clear_error();
    return true;
  }
  if (t[0] == "g.tfset") {
    // g.tfset <cv> <f> [add]: the engine's forces on the atoms of the variable become f x (atomic gradient of the variable),
    // i.e. what applying the force f on the variable produces; with "add" they are added to what is there
    double const f = f_of(t[2]);
    bool const add = t.size() > 3 && t[3] == "add";
    for (size_t i = 0; i < cv->atom_ids.size() && i < cv->atomic_gradients.size(); i++) {
      int const id = cv->atom_ids[i];
      if (id < 0 || id >= c.proxy->n_natoms) continue;
      cvm::rvector const v = f * cv->atomic_gradients[i];
      c.proxy->engine_tf[id] = add ? (c.proxy->engine_tf[id] + v) : v;
    }
    return true;
  }
  // g.grad: after a step
  for (size_t i = 0; i < cv->atom_ids.size() && i < cv->atomic_gradients.size(); i++) {
    cvm::rvector const &g = cv->atomic_gradients[i];
    c.out("g" + std::to_string(cv->atom_ids[i]), ftok(g.x) + " " + ftok(g.y) + " " + ftok(g.z));
  }
  return true;
}
