#include <iostream>
#include <cmath>
#include <cstring>
#include <thread>
#include <mutex>
#include <cstdio>
#include <unistd.h>

#include "colvarmodule.h"
#include "colvarscript.h"
#include "colvaratoms.h"
#include "colvarbias.h"
#include "colvarproxy.h"
#include "proxy_verif.h"

#define COLVARPROXY_VERSION COLVARS_VERSION

colvarproxy_verif::colvarproxy_verif()
{
  engine_name_ = "verif";
  version_int = get_version_from_string(COLVARPROXY_VERSION);
  b_simulation_running = true;
  b_simulation_continuing = false;
  updated_masses_ = updated_charges_ = true;
  angstrom_value_ = 1.;
  kcal_mol_value_ = 1.;
  units = "real";
  set_integration_timestep(1.0);
  set_target_temperature(300.0);

  boundaries_type = boundaries_non_periodic;
  reset_pbc_lattice();

  colvars = new colvarmodule(this);
  colvars->cv_traj_freq = 0;
  colvars->restart_out_freq = 0;
  cvm::rotation::monitor_crossings = false;
  colvars->setup_input();
  colvars->setup_output();
  colvarproxy_verif::setup();
}

colvarproxy_verif::~colvarproxy_verif() {}

int colvarproxy_verif::setup()
{
  if (colvars) return colvars->update_engine_parameters();
  return COLVARS_OK;
}

void colvarproxy_verif::set_cell(double lx, double ly, double lz)
{
  if (lx == 0.0 && ly == 0.0 && lz == 0.0) {
    boundaries_type = boundaries_non_periodic;
    reset_pbc_lattice();
  } else {
    unit_cell_x.set(lx, 0.0, 0.0);
    unit_cell_y.set(0.0, ly, 0.0);
    unit_cell_z.set(0.0, 0.0, lz);
    boundaries_type = boundaries_pbc_ortho;
    colvarproxy_system::update_pbc_lattice();
  }
}

void colvarproxy_verif::set_natoms(int n)
{
  n_natoms = n;
  engine_mass.assign(n, 1.0);
  engine_charge.assign(n, 0.0);
  engine_pos.assign(n, cvm::rvector(0., 0., 0.));
  engine_tf.assign(n, cvm::rvector(0., 0., 0.));
  last_applied.assign(n, cvm::rvector(0., 0., 0.));
}

void colvarproxy_verif::log(std::string const &message)
{
  last_log = message;
  if (message.find("dA/dLambda=") != std::string::npos) ti_log.push_back(message);
  if (!quiet) std::cerr << "colvars: " << message;
}

void colvarproxy_verif::error(std::string const &message)
{
  add_error_msg(message);
  all_errors += message;
  if (!quiet) std::cerr << "colvars(E): " << message;
}

int colvarproxy_verif::set_unit_system(std::string const &units_in, bool check_only)
{
  if (check_only) {
    if (units_in != units) {
      cvm::error("Specified unit system \"" + units_in + "\" is incompatible with previous setting \""
                 + units + "\".\n");
      return COLVARS_ERROR;
    }
    return COLVARS_OK;
  }
  if (units_in != "real") {
    cvm::error("Unit system not supported by the verif engine.\n");
    return COLVARS_ERROR;
  }
  units = units_in;
  return COLVARS_OK;
}

int colvarproxy_verif::check_atom_id(int atom_number)
{
  int const aid = atom_number - 1;
  if (aid < 0 || aid >= n_natoms) {
    cvm::error("Error: invalid atom number specified, " + cvm::to_str(atom_number) + "\n",
               COLVARS_INPUT_ERROR);
    return COLVARS_INPUT_ERROR;
  }
  return aid;
}

int colvarproxy_verif::init_atom(int atom_number)
{
  int aid = atom_number - 1;
  for (size_t i = 0; i < atoms_ids.size(); i++) {
    if (atoms_ids[i] == aid) {
      atoms_refcount[i] += 1;
      return i;
    }
  }
  aid = check_atom_id(atom_number);
  if (aid < 0) return COLVARS_INPUT_ERROR;
  int const index = add_atom_slot(aid);
  atoms_masses[index] = engine_mass[aid];
  atoms_charges[index] = engine_charge[aid];
  return index;
}

// SplitMix64 -> Box-Muller; deterministic, seeded by the scenario
static inline uint64_t splitmix64(uint64_t &s)
{
  uint64_t z = (s += 0x9E3779B97F4A7C15ULL);
  z = (z ^ (z >> 30)) * 0xBF58476D1CE4E5B9ULL;
  z = (z ^ (z >> 27)) * 0x94D049BB133111EBULL;
  return z ^ (z >> 31);
}

extern "C" int run_colvarscript_command(int objc, unsigned char *const objv[]);

int colvarproxy_verif::run_force_callback()
{
  int rc = COLVARS_OK;
  for (auto const &cmd : callback_cmds) {
    std::vector<unsigned char *> argv;
    for (auto const &a : cmd) argv.push_back((unsigned char *) a.c_str());
    if (run_colvarscript_command((int) argv.size(), argv.data()) != COLVARS_OK) rc = COLVARS_ERROR;
  }
  return rc;
}

cvm::real colvarproxy_verif::rand_gaussian()
{
  double u1 = ((splitmix64(rng_state) >> 11) + 1.0) / 9007199254740993.0;
  double u2 = (splitmix64(rng_state) >> 11) / 9007199254740992.0;
  double const g = std::sqrt(-2.0 * std::log(u1)) * std::cos(2.0 * M_PI * u2);
  drawn.push_back(g);
  return g;
}

static thread_local int tl_thread = -1;
static std::mutex g_smp_mutex;

int colvarproxy_verif::smp_thread_id() { return (real_threads && tl_thread >= 0) ? tl_thread : cur_thread; }
int colvarproxy_verif::smp_lock() { if (real_threads) g_smp_mutex.lock(); return COLVARS_OK; }
int colvarproxy_verif::smp_trylock() { if (real_threads) return g_smp_mutex.try_lock() ? COLVARS_OK : COLVARS_ERROR; return COLVARS_OK; }
int colvarproxy_verif::smp_unlock() { if (real_threads) g_smp_mutex.unlock(); return COLVARS_OK; }

// the order in which the n items are taken: the relative order of the entries < n of `perm` (identity when too short)
std::vector<int> colvarproxy_verif::order_of(int n) const
{
  std::vector<int> o;
  if ((int) perm.size() >= n) {
    for (size_t j = 0; j < perm.size(); j++) if (perm[j] < n && perm[j] >= 0) o.push_back(perm[j]);
  }
  if ((int) o.size() != n) { o.clear(); for (int i = 0; i < n; i++) o.push_back(i); }
  return o;
}

int colvarproxy_verif::smp_loop(int n_items, std::function<int (int)> const &worker)
{
  int error_code = COLVARS_OK;
  std::vector<int> const order = order_of(n_items);
  cvm::increase_depth();
  if (real_threads && n_threads > 1) {
    std::vector<int> codes(n_threads, COLVARS_OK);
    std::vector<std::thread> th;
    for (int t = 0; t < n_threads; t++) {
      th.emplace_back([&, t]() {
        tl_thread = t;
        for (int k = 0; k < n_items; k++) {
          int const i = order[k];
          int const owner = (i < (int) thread_of.size()) ? (thread_of[i] % n_threads) : (i % n_threads);
          if (owner == t) codes[t] |= worker(i);
        }
        tl_thread = -1;
      });
    }
    for (auto &x : th) x.join();
    for (int t = 0; t < n_threads; t++) error_code |= codes[t];
  } else {
    for (int k = 0; k < n_items; k++) {
      int const i = order[k];
      cur_thread = (i < (int) thread_of.size()) ? (thread_of[i] % n_threads) : 0;
      error_code |= worker(i);
    }
    cur_thread = 0;
  }
  cvm::decrease_depth();
  return error_code;
}

int colvarproxy_verif::smp_biases_loop()
{
  colvarmodule *cv = cvm::main();
  int const n = static_cast<int>(cv->biases_active()->size());
  std::vector<int> const order = order_of(n);
  if (real_threads && n_threads > 1) {
    std::vector<std::thread> th;
    for (int t = 0; t < n_threads; t++) {
      th.emplace_back([&, t]() {
        tl_thread = t;
        for (int k = 0; k < n; k++) {
          int const i = order[k];
          int const owner = (i < (int) thread_of.size()) ? (thread_of[i] % n_threads) : (i % n_threads);
          if (owner == t) (*(cv->biases_active()))[i]->update();
        }
        tl_thread = -1;
      });
    }
    for (auto &x : th) x.join();
  } else {
    for (int k = 0; k < n; k++) {
      int const i = order[k];
      cur_thread = (i < (int) thread_of.size()) ? (thread_of[i] % n_threads) : 0;
      (*(cv->biases_active()))[i]->update();
    }
    cur_thread = 0;
  }
  return cvm::get_error();
}

// biases and the scripted-force task as work items of one loop (`omp single nowait` + `omp for` in the library's own version)
int colvarproxy_verif::smp_biases_script_loop()
{
  colvarmodule *cv = cvm::main();
  if (real_threads && n_threads > 1) {
    std::thread ts([&]() { tl_thread = n_threads - 1; cv->calc_scripted_forces(); tl_thread = -1; });
    smp_biases_loop();
    ts.join();
  } else {
    if (!script_last) { cur_thread = 0; cv->calc_scripted_forces(); }
    smp_biases_loop();
    if (script_last) { cur_thread = n_threads > 1 ? 1 : 0; cv->calc_scripted_forces(); cur_thread = 0; }
  }
  return cvm::get_error();
}

// message sequence numbers survive a stop / resume of this walker (same process, new proxy)
static std::map<std::string, long> g_seq;

int colvarproxy_verif::replica_comm_recv(char *msg_data, int buf_len, int src_rep)
{
  if (!comm_dir.empty()) {
    long const q = g_seq[comm_dir + "/r" + std::to_string(src_rep) + "_" + std::to_string(replica_id)]++;
    std::string const path = comm_dir + "/m_" + std::to_string(src_rep) + "_" + std::to_string(replica_id) + "_" + std::to_string(q);
    for (long waited = 0; waited < 120000; waited++) {      // up to two minutes
      FILE *f = std::fopen(path.c_str(), "rb");
      if (f) {
        int n = (int) std::fread(msg_data, 1, buf_len, f);
        std::fclose(f);
        std::remove(path.c_str());
        comm_received++;
        return n;
      }
      usleep(1000);
    }
    return 0;
  }
  if (!mailbox) return 0;
  std::string &m = (*mailbox)[replica_id][src_rep];
  int n = (int) m.size();
  if (n > buf_len) n = buf_len;
  std::memcpy(msg_data, m.data(), n);
  m.clear();
  return n;
}

int colvarproxy_verif::replica_comm_send(char *msg_data, int msg_len, int dest_rep)
{
  if (!comm_dir.empty()) {
    long const q = g_seq[comm_dir + "/s" + std::to_string(replica_id) + "_" + std::to_string(dest_rep)]++;
    std::string const path = comm_dir + "/m_" + std::to_string(replica_id) + "_" + std::to_string(dest_rep) + "_" + std::to_string(q);
    std::string const tmp = path + ".tmp";
    FILE *f = std::fopen(tmp.c_str(), "wb");
    if (!f) return 0;
    std::fwrite(msg_data, 1, msg_len, f);
    std::fclose(f);
    std::rename(tmp.c_str(), path.c_str());
    comm_sent++;
    return msg_len;
  }
  if (!mailbox) return 0;
  (*mailbox)[dest_rep][replica_id].assign(msg_data, msg_len);
  return msg_len;
}

void colvarproxy_verif::push_engine_data()
{
  for (size_t i = 0; i < atoms_ids.size(); i++) {
    int const aid = atoms_ids[i];
    if (aid >= 0 && aid < n_natoms) {
      atoms_positions[i] = engine_pos[aid];
      atoms_total_forces[i] = engine_tf[aid];
      if (tf_loop && !tf_same_step) atoms_total_forces[i] += last_applied[aid];
      atoms_masses[i] = engine_mass[aid];
      atoms_charges[i] = engine_charge[aid];
    }
  }
}

void colvarproxy_verif::begin_run()
{
  b_simulation_running = true;
  if (!first_step) b_simulation_continuing = true;
}

void colvarproxy_verif::end_run()
{
  post_run();
}

int colvarproxy_verif::do_step(bool continuing)
{
  if (first_step) {
    first_step = false;
    b_simulation_continuing = false;
  } else if (continuing) {
    b_simulation_continuing = true;
  } else {
    colvarmodule::it++;
    b_simulation_continuing = false;
  }
  drawn.clear();
  for (size_t i = 0; i < atoms_new_colvar_forces.size(); i++) {
    atoms_new_colvar_forces[i].reset();
  }
  bias_energy = 0.0;
  push_engine_data();
  int rc = colvars->calc();
  for (size_t a = 0; a < last_applied.size(); a++) last_applied[a].reset();
  for (size_t i = 0; i < atoms_ids.size(); i++) {
    int const aid = atoms_ids[i];
    if (aid >= 0 && aid < n_natoms) last_applied[aid] += atoms_new_colvar_forces[i];
  }
  return rc;
}
