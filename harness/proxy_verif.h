// Engine simulator used by the correspondence harness.
// Stands in for NAMD/LAMMPS/GROMACS: the scenario dictates positions, masses,
// charges, total forces, cell, step numbering and run segmentation; everything
// Colvars hands back (energy, atomic forces) is recorded.
#ifndef PROXY_VERIF_H
#define PROXY_VERIF_H

#include <map>
#include <string>
#include <vector>
#include <functional>
#include <cstdint>

#include "colvarmodule.h"
#include "colvarproxy.h"

class colvarproxy_verif : public colvarproxy {
public:
  colvarproxy_verif();
  ~colvarproxy_verif() override;

  int setup() override;

  void request_total_force(bool yesno) override { total_force_requested = yesno; }
  bool total_forces_enabled() const override { return total_force_requested; }
  bool total_forces_same_step() const override { return tf_same_step; }

  void log(std::string const &message) override;
  void error(std::string const &message) override;

  int set_unit_system(std::string const &units_in, bool check_only) override;

  int init_atom(int atom_number) override;
  int check_atom_id(int atom_number) override;

  cvm::real rand_gaussian() override;

  // the user's force callback (what a Tcl-enabled engine runs as `calc_colvar_forces`): a list of script commands, run through
  // the same entry point as every other script command
  std::vector<std::vector<std::string>> callback_cmds;
  int run_force_callback() override;
  void add_energy(cvm::real e) override { bias_energy += e; }
  cvm::real bias_energy = 0.0;

  // SMP: scripted schedule
  smp_mode_t get_smp_mode() const override { return smp_mode_v; }
  int set_smp_mode(smp_mode_t mode) override { smp_mode_v = mode; return COLVARS_OK; }
  int smp_loop(int n_items, std::function<int (int)> const &worker) override;
  int smp_biases_loop() override;
  int smp_biases_script_loop() override;
  bool script_last = false;       // the scripted-force task runs after the biases' items instead of before (m.opt scriptlast 1)
  int smp_thread_id() override;
  int smp_num_threads() override { return n_threads; }
  int smp_lock() override;
  int smp_trylock() override;
  int smp_unlock() override;
  bool real_threads = false;      // run the work items of the smp loops on std::thread workers
  std::vector<int> order_of(int n) const;

  // replicas (in-process, lock-step simulated by the harness)
  int check_replicas_enabled() override { return n_replicas > 1 ? COLVARS_OK : COLVARS_NOT_IMPLEMENTED; }
  int replica_index() override { return replica_id; }
  int num_replicas() override { return n_replicas; }
  void replica_comm_barrier() override {}
  int replica_comm_recv(char *msg_data, int buf_len, int src_rep) override;
  int replica_comm_send(char *msg_data, int msg_len, int dest_rep) override;

  // --- scenario controls -------------------------------------------------
  bool tf_same_step = false;
  bool tf_loop = false;           // engine total forces include Colvars' own forces of the step they refer to
  std::vector<cvm::rvector> last_applied;  // by engine atom id
  bool quiet = true;
  int n_natoms = 0;               // atoms the engine knows about (ids 0..n-1)
  std::vector<double> engine_mass, engine_charge;
  std::vector<cvm::rvector> engine_pos, engine_tf;
  uint64_t rng_state = 0x9E3779B97F4A7C15ULL;
  std::vector<double> drawn;      // Gaussian numbers handed out during the current step (oracle of C17)
  smp_mode_t smp_mode_v = smp_mode_t::none;
  int n_threads = 1, cur_thread = 0;
  std::vector<int> perm;          // permutation applied to items of the next smp loops (empty = identity)
  std::vector<int> thread_of;     // thread assignment per item (empty = 0)
  int replica_id = 0, n_replicas = 1;
  std::vector<std::vector<std::string> > *mailbox = nullptr; // [dest][src] message
  // replicas as separate processes: messages are files <comm_dir>/m_<src>_<dst>_<seq>
  std::string comm_dir;
  std::map<int, long> seq_send, seq_recv;
  long comm_sent = 0, comm_received = 0;
  std::string last_log, all_errors;
  std::vector<std::string> ti_log;   // log lines carrying staged-TI output
  bool first_step = true;

  void set_cell(double lx, double ly, double lz);  // 0 = non periodic
  void set_natoms(int n);
  void push_engine_data();       // copy engine arrays into the slots Colvars requested
  int do_step(bool continuing);  // one engine step (it++ unless first or continuing)
  void begin_run();              // start of a "run" segment
  void end_run();                // post_run()
};

#endif
