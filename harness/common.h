// Shared helpers for the harness op interpreter.
#ifndef HARNESS_COMMON_H
#define HARNESS_COMMON_H

#include <string>
#include <vector>
#include <cstdint>
#include <cstring>
#include <cstdio>
#include <sstream>
#include <iostream>

#include "colvarmodule.h"
#include "proxy_verif.h"

typedef std::vector<std::string> Toks;

inline double f_of(std::string const &s)
{
  uint64_t u = std::strtoull(s.c_str(), nullptr, 10);
  double d; std::memcpy(&d, &u, 8); return d;
}
inline long long i_of(std::string const &s) { return std::strtoll(s.c_str(), nullptr, 10); }

inline std::string ftok(double d)
{
  uint64_t u; std::memcpy(&u, &d, 8);
  return "f" + std::to_string(u);
}
inline std::string itok(long long i) { return "i" + std::to_string(i); }
inline std::string stok(std::string const &s) { return "s" + s; }

inline std::string num17(double d)
{
  char buf[64]; std::snprintf(buf, sizeof(buf), "%.17g", d); return std::string(buf);
}

// un-escape "\n" "\s" "\\" in config text passed on one line
inline std::string unescape(std::string const &s)
{
  std::string r;
  for (size_t i = 0; i < s.size(); i++) {
    if (s[i] == '\\' && i + 1 < s.size()) {
      char c = s[++i];
      if (c == 'n') r += '\n';
      else if (c == 's') r += ' ';
      else if (c == 't') r += '\t';
      else if (c == 'r') r += '\r';
      else if (c == 'e') { /* empty word marker */ }
      else if (c == 'x' && i + 2 < s.size()) {
        r += (char) std::strtol(s.substr(i + 1, 2).c_str(), nullptr, 16); i += 2;
      }
      else r += c;
    } else r += s[i];
  }
  return r;
}

struct Ctx {
  long lineno = 0;
  long generation = 0;  // bumped by every fresh()/drop()
  colvarproxy_verif *proxy = nullptr;
  void out(std::string const &tag, std::string const &body = "")
  {
    std::cout << "> " << lineno << " " << tag;
    if (!body.empty()) std::cout << " " << body;
    std::cout << "\n";
  }
  void fresh(int natoms);
  void drop();
};

inline std::string join(std::vector<std::string> const &v)
{
  std::string r;
  for (size_t i = 0; i < v.size(); i++) { if (i) r += " "; r += v[i]; }
  return r;
}

// each section returns true when it handled the op
bool ops_module(Ctx &c, Toks const &t, std::string const &rest);
bool ops_c18(Ctx &c, Toks const &t);
bool ops_c15(Ctx &c, Toks const &t);
bool ops_c11(Ctx &c, Toks const &t);
bool ops_bias(Ctx &c, Toks const &t);
bool ops_c13(Ctx &c, Toks const &t);
bool ops_c09(Ctx &c, Toks const &t);
bool ops_c10(Ctx &c, Toks const &t);
bool ops_c16(Ctx &c, Toks const &t);
bool ops_c01(Ctx &c, Toks const &t);
bool ops_c14(Ctx &c, Toks const &t);

#endif
