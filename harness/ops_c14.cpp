// C14: several walkers as separate harness processes; cross-process ordering by token files.
#include "common.h"
#include <unistd.h>
#include <sys/stat.h>
#include <cstdio>

bool ops_c14(Ctx &c, Toks const &t)
{
  if (t[0].compare(0, 2, "x.") != 0) return false;
  if (t[0] == "x.wait") {        // x.wait <path>: block until the file exists (two minutes at most)
    struct stat st;
    long waited = 0;
    while (stat(t[1].c_str(), &st) != 0 && waited < 120000) { usleep(1000); waited++; }
    c.out("waited", itok(stat(t[1].c_str(), &st) == 0 ? 1 : 0));
    return true;
  }
  if (t[0] == "x.touch") {
    std::string const tmp = t[1] + ".tmp";
    FILE *f = std::fopen(tmp.c_str(), "w");
    if (f) { std::fputs("1\n", f); std::fclose(f); std::rename(tmp.c_str(), t[1].c_str()); }
    return true;
  }
  if (t[0] == "x.truncate") {    // x.truncate <path> <nbytes>: cut a file (a peer's partially written file)
    long long n = i_of(t[2]);
    if (n < 0) {                 // relative to the end of the file
      struct stat st;
      if (stat(t[1].c_str(), &st) != 0) { c.out("trunc", itok(-1)); return true; }
      n = (long long) st.st_size + n;
      if (n < 0) n = 0;
    }
    if (truncate(t[1].c_str(), (off_t) n) != 0) c.out("trunc", itok(-1)); else c.out("trunc", itok(n));
    return true;
  }
  if (t[0] == "x.size") {
    struct stat st;
    c.out("size", itok(stat(t[1].c_str(), &st) == 0 ? (long long) st.st_size : -1));
    return true;
  }
  return true;
}
