// C09: the real parser core (colvarparse::key_lookup, check_braces) on arbitrary strings.
#include "common.h"
#include "colvarparse.h"

static std::string unhexs(std::string const &h)
{
  std::string r;
  if (h == "-") return r;
  for (size_t i = 0; i + 1 < h.size(); i += 2) r += (char) std::strtol(h.substr(i, 2).c_str(), nullptr, 16);
  return r;
}
static std::string hexs(std::string const &s)
{
  static const char *d = "0123456789abcdef";
  std::string r;
  for (unsigned char c : s) { r += d[c >> 4]; r += d[c & 15]; }
  return r.empty() ? "-" : r;
}

bool ops_c09(Ctx &c, Toks const &t)
{
  if (t[0].compare(0, 2, "p.") != 0) return false;
  if (!c.proxy) c.fresh(2);
  if (t[0] == "p.lookup") {
    std::string const conf = unhexs(t[1]), key = unhexs(t[2]);
    size_t save = (size_t) i_of(t[3]);
    std::string data;
    colvarparse P;
    cvm::clear_error();
    bool found = P.key_lookup(conf, key.c_str(), &data, &save);
    bool err = cvm::get_error() != COLVARS_OK;
    cvm::clear_error();
    c.out("res", stok(err ? "error" : (found ? "found" : "notfound")));
    if (found && !err) { c.out("data", stok(hexs(data))); c.out("save", itok((long long) save)); }
    return true;
  }
  if (t[0] == "p.braces") {
    std::string const conf = unhexs(t[1]);
    c.out("ok", itok(colvarparse::check_braces(conf, (size_t) i_of(t[2])) == COLVARS_OK ? 1 : 0));
    return true;
  }
  return true;
}
