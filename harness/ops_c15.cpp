// C15: index arithmetic of the real colvar_grid<T>.
#include "common.h"
#include "colvargrid.h"

struct grid_access : public colvar_grid_scalar {
  size_t addr(std::vector<int> const &ix) const { return this->address(ix); }
  size_t nt_() const { return nt; }
};

static grid_access *G = nullptr;

bool ops_c15(Ctx &c, Toks const &t)
{
  if (t[0].compare(0, 2, "g.") != 0) return false;
  if (!c.proxy) c.fresh(2);
  if (t[0] == "g.new") {
    if (G) { delete G; G = nullptr; }
    int mult = (int) i_of(t[1]); int nd = (int) i_of(t[2]);
    size_t k = 3;
    std::vector<int> nx(nd);
    for (int i = 0; i < nd; i++) nx[i] = (int) i_of(t[k++]);
    G = new grid_access();
    G->setup(nx, 0.0, mult);
    G->lower_boundaries.resize(nd); G->upper_boundaries.resize(nd); G->widths.resize(nd); G->periodic.resize(nd);
    for (int i = 0; i < nd; i++) G->lower_boundaries[i] = colvarvalue(f_of(t[k++]));
    for (int i = 0; i < nd; i++) G->widths[i] = f_of(t[k++]);
    for (int i = 0; i < nd; i++) G->periodic[i] = i_of(t[k++]) != 0;
    for (int i = 0; i < nd; i++) G->upper_boundaries[i] = colvarvalue(G->lower_boundaries[i].real_value + nx[i] * G->widths[i]);
    c.out("nt", itok((long long) G->nt_()));
    std::vector<std::string> o; for (int i = 0; i < nd; i++) o.push_back(itok(G->nxc[i]));
    c.out("nxc", join(o));
    return true;
  }
  if (t[0] == "g.sizes") {
    // init_from_boundaries on a 1-D grid attached to a throw-away scalar colvar
    double lo = f_of(t[1]), hi = f_of(t[2]), w = f_of(t[3]);
    static long n = 0;
    std::string name = "gsz" + std::to_string(n++);
    std::string conf = "colvar {\n name " + name + "\n lowerBoundary " + num17(lo) + "\n upperBoundary " + num17(hi) +
      "\n width " + num17(w) + "\n distanceZ {\n main { atomNumbers 1 }\n ref { dummyAtom (0.0, 0.0, 0.0) }\n axis (0.0, 0.0, 1.0)\n }\n}\n";
    c.proxy->colvars->read_config_string(conf);
    cvm::clear_error();
    colvar *cv = cvm::colvar_by_name(name);
    if (!cv) { c.out("nx", "snocv"); return true; }
    std::vector<colvar *> cvs(1, cv);
    colvar_grid_scalar g(cvs);
    c.out("nx", itok(g.nx[0]));
    c.out("hi", ftok(g.upper_boundaries[0].real_value));
    cvm::clear_error();
    return true;
  }
  if (!G) return true;
  int nd = (int) G->nd;
  if (t[0] == "g.bin") { c.out("bin", itok(G->value_to_bin_scalar(colvarvalue(f_of(t[2])), (int) i_of(t[1])))); return true; }
  if (t[0] == "g.binb") { c.out("binb", itok(G->value_to_bin_scalar_bound(colvarvalue(f_of(t[2])), (int) i_of(t[1])))); return true; }
  if (t[0] == "g.val") { c.out("val", ftok(G->bin_to_value_scalar((int) i_of(t[2]), (int) i_of(t[1])).real_value)); return true; }
  std::vector<int> ix;
  for (size_t i = 1; i < t.size() && (int) ix.size() < nd; i++) ix.push_back((int) i_of(t[i]));
  if (t[0] == "g.addr") {
    bool ok = G->index_ok(ix);
    c.out("ok", itok(ok));
    c.out("addr", ok ? itok((long long) G->addr(ix)) : std::string("sna"));
    return true;
  }
  if (t[0] == "g.incr") {
    G->incr(ix);
    std::vector<std::string> o; for (int v : ix) o.push_back(itok(v));
    c.out("ix", join(o));
    return true;
  }
  if (t[0] == "g.wrap") {
    cvm::clear_error();
    G->wrap(ix);
    cvm::clear_error();
    std::vector<std::string> o; for (int v : ix) o.push_back(itok(v));
    c.out("ix", join(o));
    return true;
  }
  if (t[0] == "g.enum") {
    std::vector<std::string> o; long long n = 0;
    for (std::vector<int> jx = G->new_index(); G->index_ok(jx); G->incr(jx)) { o.push_back(itok((long long) G->addr(jx))); n++; }
    c.out("count", itok(n));
    c.out("addrs", join(o));
    return true;
  }
  return true;
}
