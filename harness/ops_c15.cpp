// C15: index arithmetic of the real colvar_grid<T>.
#include "common.h"
#include "colvargrid.h"
#include "colvars_memstream.h"
#include <fstream>
#include <sstream>
#include <unistd.h>

struct grid_access : public colvar_grid_scalar {
  size_t addr(std::vector<int> const &ix) const { return this->address(ix); }
  size_t nt_() const { return nt; }
};

static grid_access *G = nullptr;
static std::vector<size_t> Gcounts;   // g.counts: one count per grid point (for gradient grids linked to a count grid)

bool ops_c15(Ctx &c, Toks const &t)
{
  if (t[0].compare(0, 2, "g.") != 0) return false;
  if (!c.proxy) c.fresh(2);
  if (t[0] == "g.new") {
    if (G) { delete G; G = nullptr; }
    int mult = (int) i_of(t[1]); int nd = (int) i_of(t[2]);
    size_t k = 3;
    std::vector<int> nx(nd);
    for (int i = 0; i < nd; i++) nx[i] = (int) i_of(t[k++]);
    G = new grid_access();
    G->setup(nx, 0.0, mult);
    G->lower_boundaries.resize(nd); G->upper_boundaries.resize(nd); G->widths.resize(nd); G->periodic.resize(nd);
    for (int i = 0; i < nd; i++) G->lower_boundaries[i] = colvarvalue(f_of(t[k++]));
    for (int i = 0; i < nd; i++) G->widths[i] = f_of(t[k++]);
    for (int i = 0; i < nd; i++) G->periodic[i] = i_of(t[k++]) != 0;
    for (int i = 0; i < nd; i++) G->upper_boundaries[i] = colvarvalue(G->lower_boundaries[i].real_value + nx[i] * G->widths[i]);
    c.out("nt", itok((long long) G->nt_()));
    std::vector<std::string> o; for (int i = 0; i < nd; i++) o.push_back(itok(G->nxc[i]));
    c.out("nxc", join(o));
    return true;
  }
  if (t[0] == "g.sizes") {
    // init_from_boundaries on a 1-D grid attached to a throw-away scalar colvar
    double lo = f_of(t[1]), hi = f_of(t[2]), w = f_of(t[3]);
    static long n = 0;
    std::string name = "gsz" + std::to_string(n++);
    std::string conf = "colvar {\n name " + name + "\n lowerBoundary " + num17(lo) + "\n upperBoundary " + num17(hi) +
      "\n width " + num17(w) + "\n distanceZ {\n main { atomNumbers 1 }\n ref { dummyAtom (0.0, 0.0, 0.0) }\n axis (0.0, 0.0, 1.0)\n }\n}\n";
    c.proxy->colvars->read_config_string(conf);
    cvm::clear_error();
    colvar *cv = cvm::colvar_by_name(name);
    if (!cv) { c.out("nx", "snocv"); return true; }
    std::vector<colvar *> cvs(1, cv);
    colvar_grid_scalar g(cvs);
    c.out("nx", itok(g.nx[0]));
    c.out("hi", ftok(g.upper_boundaries[0].real_value));
    cvm::clear_error();
    return true;
  }
  if (t[0] == "g.rtx") {        // g.rtx restart|restartbin P cvw w loW hiW loR hiR
    cvm::clear_error();
    std::string const kind = t[1];
    double const P = f_of(t[2]), cvw = f_of(t[3]), w = f_of(t[4]), loW = f_of(t[5]), hiW = f_of(t[6]), loR = f_of(t[7]), hiR = f_of(t[8]);
    static long nrx = 0;
    std::string const nw = "rxw" + std::to_string(nrx), nr = "rxr" + std::to_string(nrx); nrx++;
    auto mk = [&](std::string const &name, double lo, double hi) {
      return "colvar {\n name " + name + "\n lowerBoundary " + num17(lo) + "\n upperBoundary " + num17(hi) + "\n width " + num17(cvw) +
        "\n distanceZ {\n main { atomNumbers 1 }\n ref { dummyAtom (0.0, 0.0, 0.0) }\n axis (0.0, 0.0, 1.0)\n period " + num17(P) + "\n }\n}\n";
    };
    c.proxy->colvars->read_config_string(mk(nw, loW, hiW) + mk(nr, loR, hiR));
    cvm::clear_error();
    colvar *cw = cvm::colvar_by_name(nw), *cr = cvm::colvar_by_name(nr);
    if (!cw || !cr) { c.out("ok", "snocv"); return true; }
    bool ok = true;
    {
      std::vector<colvar *> vw(1, cw), vr(1, cr);
      colvar_grid_scalar A(vw), B(vr);
      // the grids' own width is that of the variable; a different bin width comes from a parameter block
      if (w != cvw) {
        A.parse_params("width " + num17(w) + "\n", colvarparse::parse_silent);
        B.parse_params("width " + num17(w) + "\n", colvarparse::parse_silent);
      }
      for (size_t i = 0; i < A.data.size(); i++) A.data[i] = (double) (i + 1);
      A.has_data = true;
      if (kind == "restart") {
        std::ostringstream os; os.precision(17); A.write_restart(os);
        std::istringstream is(os.str()); ok = (bool) B.read_restart(is);
      } else {
        cvm::memory_stream os; A.write_restart(os);
        cvm::memory_stream is(os.length(), os.output_buffer()); ok = (bool) B.read_restart(is);
      }
      c.out("ok", itok(ok && cvm::get_error() == COLVARS_OK ? 1 : 0));
      cvm::clear_error();
      std::vector<std::string> o;
      for (size_t i = 0; i < B.nx.size(); i++) o.push_back(itok(B.nx[i]));
      c.out("nx", join(o));
      o.clear(); for (size_t i = 0; i < B.lower_boundaries.size(); i++) o.push_back(ftok(B.lower_boundaries[i].real_value));
      c.out("lo", join(o));
      o.clear(); for (size_t i = 0; i < B.widths.size(); i++) o.push_back(ftok(B.widths[i]));
      c.out("w", join(o));
      o.clear(); for (size_t i = 0; i < A.periodic.size(); i++) o.push_back(itok(A.periodic[i] ? 1 : 0));
      c.out("perw", join(o));
      o.clear(); for (size_t i = 0; i < B.periodic.size(); i++) o.push_back(itok(B.periodic[i] ? 1 : 0));
      c.out("per", join(o));
      o.clear(); for (size_t i = 0; i < B.data.size(); i++) o.push_back(ftok(B.data[i]));
      c.out("data", join(o));
    }
    delete cw; delete cr;
    return true;
  }
  if (!G) return true;
  int nd = (int) G->nd;
  if (t[0] == "g.bin") { c.out("bin", itok(G->value_to_bin_scalar(colvarvalue(f_of(t[2])), (int) i_of(t[1])))); return true; }
  if (t[0] == "g.binb") { c.out("binb", itok(G->value_to_bin_scalar_bound(colvarvalue(f_of(t[2])), (int) i_of(t[1])))); return true; }
  if (t[0] == "g.val") { c.out("val", ftok(G->bin_to_value_scalar((int) i_of(t[2]), (int) i_of(t[1])).real_value)); return true; }
  std::vector<int> ix;
  for (size_t i = 1; i < t.size() && (int) ix.size() < nd; i++) ix.push_back((int) i_of(t[i]));
  if (t[0] == "g.addr") {
    bool ok = G->index_ok(ix);
    c.out("ok", itok(ok));
    c.out("addr", ok ? itok((long long) G->addr(ix)) : std::string("sna"));
    return true;
  }
  if (t[0] == "g.incr") {
    G->incr(ix);
    std::vector<std::string> o; for (int v : ix) o.push_back(itok(v));
    c.out("ix", join(o));
    return true;
  }
  if (t[0] == "g.wrap") {
    cvm::clear_error();
    G->wrap(ix);
    cvm::clear_error();
    std::vector<std::string> o; for (int v : ix) o.push_back(itok(v));
    c.out("ix", join(o));
    return true;
  }
  if (t[0] == "g.fill") {       // g.fill v0 v1 ... : the data array, in address order
    for (size_t i = 1; i < t.size() && i - 1 < G->data.size(); i++) G->data[i - 1] = f_of(t[i]);
    G->has_data = true;
    return true;
  }
  if (t[0] == "g.counts") {     // g.counts c0 c1 ... : number of samples per grid point, in address order
    Gcounts.clear();
    for (size_t i = 1; i < t.size(); i++) Gcounts.push_back((size_t) i_of(t[i]));
    return true;
  }
  if (t[0] == "g.rtgrad") {     // g.rtgrad multicol|multicoladd|restart|restartbin|raw|rawbin [nocount]
    // G (multiplicity = number of variables) holds gradient sums; a colvar_grid_gradient with (or without) its count grid is
    // written and read back into a fresh pair of grids built on the same variables.  "multicoladd" reads with add = true into grids
    // that already hold `pre` times the written data (the inputPrefix path of ABF).
    cvm::clear_error();
    std::string const kind = t[1];
    bool const with_count = !(t.size() > 2 && t[2] == "nocount");
    bool ok = true;
    static long nrg = 0;
    std::vector<colvar *> cvs;
    std::string conf;
    for (size_t i = 0; i < G->nd; i++) {
      std::string const name = "rg" + std::to_string(nrg) + "_" + std::to_string(i);
      conf += "colvar {\n name " + name + "\n lowerBoundary " + num17(G->lower_boundaries[i].real_value) + "\n upperBoundary " +
        num17(G->lower_boundaries[i].real_value + G->nx[i] * G->widths[i]) + "\n width " + num17(G->widths[i]) +
        "\n distanceZ {\n main { atomNumbers 1 }\n ref { dummyAtom (0.0, 0.0, 0.0) }\n axis (0.0, 0.0, 1.0)\n }\n}\n";
    }
    c.proxy->colvars->read_config_string(conf);
    cvm::clear_error();
    for (size_t i = 0; i < G->nd; i++) {
      colvar *cv = cvm::colvar_by_name("rg" + std::to_string(nrg) + "_" + std::to_string(i));
      if (cv) cvs.push_back(cv);
    }
    nrg++;
    std::vector<cvm::real> rdata; std::vector<size_t> rcnt; std::vector<int> rnx;
    if (cvs.size() == G->nd && G->mult == G->nd) {
      std::shared_ptr<colvar_grid_count> cA, cB;
      if (with_count) { cA.reset(new colvar_grid_count(cvs)); cB.reset(new colvar_grid_count(cvs)); }
      colvar_grid_gradient A(cvs, cA), B(cvs, cB);
      if (A.data.size() == G->data.size() && (!with_count || cA->data.size() == Gcounts.size())) {
        A.data = G->data; A.has_data = true;
        if (with_count) { cA->data = Gcounts; cA->has_data = true; }
        std::string const dir = std::string(getenv("CV_SCRATCH") ? getenv("CV_SCRATCH") : "/tmp");
        std::string const fg = dir + "/c15_rg_" + std::to_string((long) getpid()) + ".grad", fc = dir + "/c15_rg_" + std::to_string((long) getpid()) + ".count";
        if (kind == "multicol" || kind == "multicoladd") {
          bool const add = (kind == "multicoladd");
          if (add) {   // the reading grids already hold the same data once
            B.data = G->data; B.has_data = true;
            if (with_count) { cB->data = Gcounts; cB->has_data = true; }
          }
          { std::ofstream os(fg.c_str()); os.precision(17); A.write_multicol(os); }
          if (with_count) { std::ofstream os(fc.c_str()); cA->write_multicol(os); }
          if (with_count) ok = ok && (cB->read_multicol(fc, "count file", add) == COLVARS_OK);
          ok = ok && (B.read_multicol(fg, "gradient file", add) == COLVARS_OK);
          std::remove(fg.c_str()); std::remove(fc.c_str());
        } else if (kind == "restart") {     // (counts first: a gradient read is multiplied by the count of its point)
          if (with_count) { std::ostringstream oc; cA->write_restart(oc); std::istringstream ic(oc.str()); ok = ok && (bool) cB->read_restart(ic); }
          std::ostringstream os; os.precision(17); A.write_restart(os);
          std::istringstream is(os.str()); ok = ok && (bool) B.read_restart(is);
        } else if (kind == "restartbin") {
          if (with_count) { cvm::memory_stream oc; cA->write_restart(oc); cvm::memory_stream ic(oc.length(), oc.output_buffer()); ok = ok && (bool) cB->read_restart(ic); }
          cvm::memory_stream os; A.write_restart(os);
          cvm::memory_stream is(os.length(), os.output_buffer()); ok = ok && (bool) B.read_restart(is);
        } else if (kind == "raw") {
          if (with_count) { std::ostringstream oc; cA->write_raw(oc, 3); std::istringstream ic(oc.str()); ok = ok && (bool) cB->read_raw(ic); }
          std::ostringstream os; os.precision(17); A.write_raw(os, 3);
          std::istringstream is(os.str()); ok = ok && (bool) B.read_raw(is);
        } else {
          if (with_count) { cvm::memory_stream oc; cA->write_raw(oc); cvm::memory_stream ic(oc.length(), oc.output_buffer()); ok = ok && (bool) cB->read_raw(ic); }
          cvm::memory_stream os; A.write_raw(os);
          cvm::memory_stream is(os.length(), os.output_buffer()); ok = ok && (bool) B.read_raw(is);
        }
        rdata = B.data; rnx = B.nx;
        if (with_count) rcnt = cB->data;
      } else ok = false;
    } else ok = false;
    for (size_t i = 0; i < cvs.size(); i++) delete cvs[i];
    c.out("ok", itok(ok && cvm::get_error() == COLVARS_OK ? 1 : 0));
    cvm::clear_error();
    std::vector<std::string> o;
    for (size_t i = 0; i < rnx.size(); i++) o.push_back(itok(rnx[i]));
    c.out("nx", join(o));
    o.clear(); for (size_t i = 0; i < rdata.size(); i++) o.push_back(ftok(rdata[i]));
    c.out("data", join(o));
    o.clear(); for (size_t i = 0; i < rcnt.size(); i++) o.push_back(itok((long long) rcnt[i]));
    c.out("cnt", join(o));
    return true;
  }
  if (t[0] == "g.rt") {         // g.rt multicol|restart|raw|restartbin|rawbin : write, read back into a fresh grid, report it
    cvm::clear_error();
    grid_access H;
    bool ok = true;
    std::string const kind = t[1];
    if (kind == "multicol") {
      std::string const fn = std::string(getenv("CV_SCRATCH") ? getenv("CV_SCRATCH") : "/tmp") + "/c15_rt_" + std::to_string((long) getpid()) + ".dat";
      { std::ofstream os(fn.c_str()); G->write_multicol(os); }
      // the constructor from a file takes sizes, boundaries, widths and periodicity from the header
      colvar_grid_scalar *F = new colvar_grid_scalar(fn);
      std::remove(fn.c_str());
      ok = (cvm::get_error() == COLVARS_OK);
      H.nd = F->nd; H.nx = F->nx; H.mult = F->mult; H.lower_boundaries = F->lower_boundaries; H.widths = F->widths; H.periodic = F->periodic; H.data = F->data;
      delete F;
    } else {
      // the reader is configured like the writer (same number of variables, periodicity, multiplicity)
      H.setup(G->nx, 0.0, G->mult);
      H.lower_boundaries = G->lower_boundaries; H.upper_boundaries = G->upper_boundaries; H.widths = G->widths; H.periodic = G->periodic;
      if (kind == "raw") {
        std::ostringstream os; os.precision(17); G->write_raw(os, 3);
        std::istringstream is(os.str()); ok = (bool) H.read_raw(is);
      } else if (kind == "rawbin") {
        cvm::memory_stream os; G->write_raw(os);
        cvm::memory_stream is(os.length(), os.output_buffer()); ok = (bool) H.read_raw(is);
      } else {
        // restart form: the parameter block is compared with the variables' own boundaries, so both grids are built on
        // throw-away variables with the grid's boundaries and widths
        static long nrt = 0;
        std::vector<colvar *> cvs;
        std::string conf;
        for (size_t i = 0; i < G->nd; i++) {
          std::string const name = "rt" + std::to_string(nrt) + "_" + std::to_string(i);
          conf += "colvar {\n name " + name + "\n lowerBoundary " + num17(G->lower_boundaries[i].real_value) + "\n upperBoundary " +
            num17(G->lower_boundaries[i].real_value + G->nx[i] * G->widths[i]) + "\n width " + num17(G->widths[i]) +
            "\n distanceZ {\n main { atomNumbers 1 }\n ref { dummyAtom (0.0, 0.0, 0.0) }\n axis (0.0, 0.0, 1.0)\n }\n}\n";
        }
        c.proxy->colvars->read_config_string(conf);
        cvm::clear_error();
        for (size_t i = 0; i < G->nd; i++) {
          colvar *cv = cvm::colvar_by_name("rt" + std::to_string(nrt) + "_" + std::to_string(i));
          if (cv) cvs.push_back(cv);
        }
        nrt++;
        if (cvs.size() == G->nd) {
          colvar_grid_scalar A(cvs), B(cvs);
          if (A.data.size() == G->data.size()) {
            A.data = G->data; A.has_data = true;
            if (kind == "restart") {
              std::ostringstream os; os.precision(17); A.write_restart(os);
              std::istringstream is(os.str()); ok = (bool) B.read_restart(is);
            } else {
              cvm::memory_stream os; A.write_restart(os);
              cvm::memory_stream is(os.length(), os.output_buffer()); ok = (bool) B.read_restart(is);
            }
            H.nd = B.nd; H.nx = B.nx; H.mult = B.mult; H.lower_boundaries = B.lower_boundaries; H.widths = B.widths; H.periodic = B.periodic; H.data = B.data;
          } else ok = false;
        } else ok = false;
        for (size_t i = 0; i < cvs.size(); i++) delete cvs[i];
      }
    }
    c.out("ok", itok(ok && cvm::get_error() == COLVARS_OK ? 1 : 0));
    cvm::clear_error();
    std::vector<std::string> o;
    for (size_t i = 0; i < H.nx.size(); i++) o.push_back(itok(H.nx[i]));
    c.out("nx", join(o));
    o.clear(); for (size_t i = 0; i < H.lower_boundaries.size(); i++) o.push_back(ftok(H.lower_boundaries[i].real_value));
    c.out("lo", join(o));
    o.clear(); for (size_t i = 0; i < H.widths.size(); i++) o.push_back(ftok(H.widths[i]));
    c.out("w", join(o));
    o.clear(); for (size_t i = 0; i < H.periodic.size(); i++) o.push_back(itok(H.periodic[i] ? 1 : 0));
    c.out("per", join(o));
    o.clear(); for (size_t i = 0; i < H.data.size(); i++) o.push_back(ftok(H.data[i]));
    c.out("data", join(o));
    return true;
  }
  if (t[0] == "g.enum") {
    std::vector<std::string> o; long long n = 0;
    for (std::vector<int> jx = G->new_index(); G->index_ok(jx); G->incr(jx)) { o.push_back(itok((long long) G->addr(jx))); n++; }
    c.out("count", itok(n));
    c.out("addrs", join(o));
    return true;
  }
  return true;
}
