// C18: metric on variable values, evaluated on the real colvarvalue / colvar objects.
#include <map>
#include "common.h"
#include "colvar.h"
#include "colvarvalue.h"

std::string cvval_toks_pub(colvarvalue const &v);

static colvarvalue mk(colvarvalue::Type ty, Toks const &t, size_t &k, int n)
{
  switch (ty) {
  case colvarvalue::type_scalar: { double x = f_of(t[k]); k += 1; return colvarvalue(x); }
  case colvarvalue::type_3vector: case colvarvalue::type_unit3vector: {
    cvm::rvector v(f_of(t[k]), f_of(t[k+1]), f_of(t[k+2])); k += 3; return colvarvalue(v, ty); }
  case colvarvalue::type_quaternion: {
    cvm::quaternion q(f_of(t[k]), f_of(t[k+1]), f_of(t[k+2]), f_of(t[k+3])); k += 4; return colvarvalue(q, ty); }
  default: {
    cvm::vector1d<cvm::real> v(n);
    for (int i = 0; i < n; i++) v[i] = f_of(t[k+i]);
    k += n; return colvarvalue(v, colvarvalue::type_vector); }
  }
}

// a periodic scalar variable with the requested period/centre, created on demand in the module
static colvar *periodic_cv(Ctx &c, double period, double center)
{
  static std::map<std::pair<uint64_t,uint64_t>, std::string> names;
  static long owner = -1;
  if (owner != c.generation) { names.clear(); owner = c.generation; }
  uint64_t a, b; std::memcpy(&a, &period, 8); std::memcpy(&b, &center, 8);
  auto key = std::make_pair(a, b);
  auto it = names.find(key);
  if (it == names.end()) {
    std::string name = "pcv" + std::to_string(names.size());
    std::string conf = "colvar {\n name " + name + "\n distanceZ {\n main { atomNumbers 1 }\n ref { dummyAtom (0.0, 0.0, 0.0) }\n axis (0.0, 0.0, 1.0)\n period " +
      num17(period) + "\n" + (center != 0.0 ? (" wrapAround " + num17(center) + "\n") : std::string()) + " }\n}\n";
    c.proxy->colvars->read_config_string(conf);
    cvm::clear_error();
    it = names.insert(std::make_pair(key, name)).first;
  }
  return cvm::colvar_by_name(it->second);
}

bool ops_c18(Ctx &c, Toks const &t)
{
  if (t[0] != "v.dist2" && t[0] != "v.wrap" && t[0] != "v.interp") return false;
  if (!c.proxy) c.fresh(2);
  if (t[0] == "v.wrap") {
    colvar *cv = periodic_cv(c, f_of(t[1]), f_of(t[2]));
    if (!cv) { c.out("w", "snocv"); return true; }
    colvarvalue x(f_of(t[3]));
    cv->wrap(x);
    c.out("w", ftok(x.real_value));
    return true;
  }
  std::string const &ty = t[1];
  if (t[0] == "v.dist2") {
    if (ty == "p") {
      colvar *cv = periodic_cv(c, f_of(t[2]), f_of(t[3]));
      if (!cv) { c.out("d2", "snocv"); return true; }
      colvarvalue x1(f_of(t[4])), x2(f_of(t[5]));
      c.out("d2", ftok(cv->dist2(x1, x2)));
      c.out("g", cvval_toks_pub(cv->dist2_lgrad(x1, x2)));
      return true;
    }
    size_t k = 2; int n = 0;
    colvarvalue::Type T = colvarvalue::type_scalar;
    if (ty == "v") { n = (int) i_of(t[2]); k = 3; T = (n == 3) ? colvarvalue::type_3vector : colvarvalue::type_vector; }
    else if (ty == "u") T = colvarvalue::type_unit3vector;
    else if (ty == "q") T = colvarvalue::type_quaternion;
    colvarvalue x1 = mk(T, t, k, n), x2 = mk(T, t, k, n);
    c.out("d2", ftok(x1.dist2(x2)));
    c.out("g", cvval_toks_pub(x1.dist2_grad(x2)));
    return true;
  }
  // v.interp
  size_t k = 2; int n = 0;
  colvarvalue::Type T = colvarvalue::type_scalar;
  if (ty == "v") { n = (int) i_of(t[2]); k = 3; T = (n == 3) ? colvarvalue::type_3vector : colvarvalue::type_vector; }
  else if (ty == "u") T = colvarvalue::type_unit3vector;
  else if (ty == "q") T = colvarvalue::type_quaternion;
  colvarvalue x1 = mk(T, t, k, n), x2 = mk(T, t, k, n);
  double l = f_of(t[k]);
  cvm::clear_error();
  colvarvalue r = colvarvalue::interpolate(x1, x2, l);
  if (cvm::get_error() != COLVARS_OK) c.out("ip", "sundef");
  else c.out("ip", cvval_toks_pub(r));
  cvm::clear_error();
  return true;
}
