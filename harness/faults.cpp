// Fault injection below the library: libc entry points used when Colvars replaces a file are
// interposed (the executable's definitions win over libc's for calls coming from libstdc++ and
// libcolvars).  Inactive unless CV_FAULT_PREFIX is set.
//   CV_FAULT_PREFIX  only operations on paths starting with this prefix are counted
//   CV_FAULT_AT      die (as by SIGKILL: _exit(77), nothing flushed) at the k-th counted operation ...
//   CV_FAULT_FRAC    ... after writing this fraction (0..1) of the bytes when that operation is a write
//   CV_FAULT_LOG     append one line per counted operation to this file
#include <dlfcn.h>
#include <unistd.h>
#include <sys/uio.h>
#include <cstdio>
#include <cstdlib>
#include <cstring>
#include <string>
#include <fcntl.h>

static long op_count = 0;
static bool in_hook = false;

static const char *prefix() { static const char *p = getenv("CV_FAULT_PREFIX"); return p; }
static long fault_at() { static long k = getenv("CV_FAULT_AT") ? atol(getenv("CV_FAULT_AT")) : -1; return k; }
static double fault_frac() { static double f = getenv("CV_FAULT_FRAC") ? atof(getenv("CV_FAULT_FRAC")) : 0.0; return f; }

static bool watched_path(const char *path) { return prefix() && path && strncmp(path, prefix(), strlen(prefix())) == 0; }

static bool watched_fd(int fd, char *buf, size_t n)
{
  if (!prefix()) return false;
  char link[64]; snprintf(link, sizeof(link), "/proc/self/fd/%d", fd);
  ssize_t k = readlink(link, buf, n - 1);
  if (k <= 0) return false;
  buf[k] = 0;
  return watched_path(buf);
}

static void log_op(const char *what, const char *a, const char *b, long n)
{
  const char *lf = getenv("CV_FAULT_LOG");
  if (!lf) return;
  static int (*real_open)(const char *, int, ...) = (int (*)(const char *, int, ...)) dlsym(RTLD_NEXT, "open");
  static ssize_t (*real_write)(int, const void *, size_t) = (ssize_t (*)(int, const void *, size_t)) dlsym(RTLD_NEXT, "write");
  int fd = real_open(lf, O_WRONLY | O_APPEND | O_CREAT, 0644);
  if (fd < 0) return;
  char line[1024];
  int len = snprintf(line, sizeof(line), "%ld %s %s %s %ld\n", op_count, what, a ? a : "-", b ? b : "-", n);
  real_write(fd, line, len);
  close(fd);
}

// returns true when the process must die at this operation
static bool count_op(const char *what, const char *a, const char *b, long n)
{
  op_count++;
  log_op(what, a, b, n);
  return op_count == fault_at();
}

extern "C" int rename(const char *oldp, const char *newp)
{
  static int (*real)(const char *, const char *) = (int (*)(const char *, const char *)) dlsym(RTLD_NEXT, "rename");
  if (!in_hook && (watched_path(oldp) || watched_path(newp))) {
    if (count_op("rename", oldp, newp, 0)) _exit(77);
  }
  return real(oldp, newp);
}

extern "C" FILE *fopen64(const char *path, const char *mode)
{
  static FILE *(*real)(const char *, const char *) = (FILE * (*)(const char *, const char *)) dlsym(RTLD_NEXT, "fopen64");
  if (!in_hook && watched_path(path) && mode && (mode[0] == 'w' || mode[0] == 'a')) {
    if (count_op("open", path, mode, 0)) _exit(77);
  }
  return real(path, mode);
}

extern "C" FILE *fopen(const char *path, const char *mode)
{
  static FILE *(*real)(const char *, const char *) = (FILE * (*)(const char *, const char *)) dlsym(RTLD_NEXT, "fopen");
  if (!in_hook && watched_path(path) && mode && (mode[0] == 'w' || mode[0] == 'a')) {
    if (count_op("open", path, mode, 0)) _exit(77);
  }
  return real(path, mode);
}

extern "C" ssize_t write(int fd, const void *buf, size_t n)
{
  static ssize_t (*real)(int, const void *, size_t) = (ssize_t (*)(int, const void *, size_t)) dlsym(RTLD_NEXT, "write");
  char path[512];
  if (!in_hook && fd > 2 && watched_fd(fd, path, sizeof(path))) {
    if (count_op("write", path, nullptr, (long) n)) {
      size_t part = (size_t) (fault_frac() * n);
      if (part > 0) real(fd, buf, part);
      _exit(77);
    }
  }
  return real(fd, buf, n);
}

extern "C" ssize_t writev(int fd, const struct iovec *iov, int cnt)
{
  static ssize_t (*real)(int, const struct iovec *, int) = (ssize_t (*)(int, const struct iovec *, int)) dlsym(RTLD_NEXT, "writev");
  static ssize_t (*real_write)(int, const void *, size_t) = (ssize_t (*)(int, const void *, size_t)) dlsym(RTLD_NEXT, "write");
  char path[512];
  if (!in_hook && fd > 2 && watched_fd(fd, path, sizeof(path))) {
    long n = 0;
    for (int i = 0; i < cnt; i++) n += iov[i].iov_len;
    if (count_op("write", path, nullptr, n)) {
      size_t part = (size_t) (fault_frac() * n);
      for (int i = 0; i < cnt && part > 0; i++) {
        size_t k = iov[i].iov_len < part ? iov[i].iov_len : part;
        real_write(fd, iov[i].iov_base, k);
        part -= k;
      }
      _exit(77);
    }
  }
  return real(fd, iov, cnt);
}

extern "C" int fclose(FILE *f)
{
  static int (*real)(FILE *) = (int (*)(FILE *)) dlsym(RTLD_NEXT, "fclose");
  char path[512];
  if (!in_hook && f && prefix()) {
    int fd = fileno(f);
    if (fd > 2 && (fcntl(fd, F_GETFL) & O_ACCMODE) != O_RDONLY && watched_fd(fd, path, sizeof(path))) {
      // the buffered bytes are written by the library before fclose; dying here loses nothing more
      if (count_op("close", path, nullptr, 0)) _exit(77);
    }
  }
  return real(f);
}

// Removal of a watched file: counted only on request (CV_FAULT_AT_REMOVE = die at the n-th removal, before it is done),
// so that the numbering of the other operations stays what it was.
static long remove_count = 0;
static long fault_at_remove() { static long k = getenv("CV_FAULT_AT_REMOVE") ? atol(getenv("CV_FAULT_AT_REMOVE")) : -1; return k; }

extern "C" int remove(const char *path)
{
  static int (*real)(const char *) = (int (*)(const char *)) dlsym(RTLD_NEXT, "remove");
  if (fault_at_remove() > 0 && watched_path(path)) {
    remove_count++;
    log_op("remove", path, nullptr, remove_count);
    if (remove_count == fault_at_remove()) _exit(77);
  }
  return real(path);
}

extern "C" int unlink(const char *path)
{
  static int (*real)(const char *) = (int (*)(const char *)) dlsym(RTLD_NEXT, "unlink");
  if (fault_at_remove() > 0 && watched_path(path)) {
    remove_count++;
    log_op("unlink", path, nullptr, remove_count);
    if (remove_count == fault_at_remove()) _exit(77);
  }
  return real(path);
}
