// C10: a configuration with given parameter values: accepted or rejected, and what it left behind.
#include "common.h"
#include "colvarbias_meta.h"

bool ops_c10(Ctx &c, Toks const &t)
{
  if (t[0].compare(0, 2, "v.") != 0) return false;
  if (!c.proxy) return true;
  auto *p = c.proxy;
  if (t[0] == "v.cfg") {
    long long ncv = (long long) p->colvars->variables()->size(), nb = (long long) p->colvars->biases.size();
    cvm::clear_error();
    p->clear_error_msgs();
    int rc = p->colvars->read_config_string(unescape(t.back()));
    bool rejected = (rc != COLVARS_OK) || (cvm::get_error() != COLVARS_OK);
    cvm::clear_error();
    c.out("v", itok(rejected ? 0 : 1) + " " + itok((long long) p->colvars->variables()->size() - ncv) + " " + itok((long long) p->colvars->biases.size() - nb));
    return true;
  }
  if (t[0] == "v.hills") {
    colvarbias_meta *m = dynamic_cast<colvarbias_meta *>(cvm::bias_by_name("vb"));
    c.out("nh", itok(m ? (long long) m->hills.size() : -1));
    return true;
  }
  return true;
}
