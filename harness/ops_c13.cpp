// C13: the dependency graph of the real objects, read through -fno-access-control (no hook in /repo).
#include <map>
#include <set>
#include "common.h"
#include "colvar.h"
#include "colvarbias.h"
#include "colvarcomp.h"
#include "colvaratoms.h"
#include "colvardeps.h"

struct Node { colvardeps *o; int cls; };   // cls: 0 bias, 1 colvar, 2 cvc, 3 atom group

static void collect(std::vector<Node> &nodes, std::map<colvardeps *, int> &id)
{
  colvarmodule *cv = cvm::main();
  std::set<colvardeps *> seen;
  std::vector<Node> todo;
  for (auto *b : cv->biases) todo.push_back({b, 0});
  for (auto *v : *(cv->variables())) todo.push_back({v, 1});
  while (!todo.empty()) {
    Node n = todo.front(); todo.erase(todo.begin());
    if (seen.count(n.o)) continue;
    seen.insert(n.o);
    id[n.o] = (int) nodes.size();
    nodes.push_back(n);
    for (auto *c : n.o->children) todo.push_back({c, std::min(n.cls + 1, 3)});
  }
}

static int class_of(colvardeps *o, int hint)
{
  if (dynamic_cast<colvarbias *>(o)) return 0;
  if (dynamic_cast<colvar *>(o)) return 1;
  if (dynamic_cast<colvar::cvc *>(o)) return 2;
  if (dynamic_cast<cvm::atom_group *>(o)) return 3;
  return hint;
}

static void dump(Ctx &c)
{
  std::vector<Node> nodes; std::map<colvardeps *, int> id;
  collect(nodes, id);
  c.out("nobj", itok((long long) nodes.size()));
  for (size_t i = 0; i < nodes.size(); i++) {
    colvardeps *o = nodes[i].o;
    std::vector<std::string> t;
    t.push_back(itok(class_of(o, nodes[i].cls)));
    t.push_back(itok((long long) o->children.size()));
    for (auto *ch : o->children) t.push_back(itok(id.count(ch) ? id[ch] : -1));
    t.push_back(itok((long long) o->feature_states.size()));
    for (auto const &fs : o->feature_states) {
      t.push_back(itok(fs.available)); t.push_back(itok(fs.enabled)); t.push_back(itok(fs.ref_count));
      t.push_back(itok((long long) fs.alternate_refs.size()));
      for (int a : fs.alternate_refs) t.push_back(itok(a));
    }
    c.out("obj", join(t));
  }
}

// the invariants of the property, evaluated on the real graph
static void check(Ctx &c)
{
  std::vector<Node> nodes; std::map<colvardeps *, int> id;
  collect(nodes, id);
  std::vector<std::string> bad;
  for (size_t i = 0; i < nodes.size(); i++) {
    colvardeps *o = nodes[i].o;
    size_t const nf = o->feature_states.size();
    for (size_t f = 0; f < nf; f++) {
      if (!o->feature_states[f].enabled) continue;
      colvardeps::feature *ft = o->features()[f];
      for (int g : ft->requires_self)
        if (!o->feature_states[g].enabled) bad.push_back("prereq:" + o->description + ":" + ft->description + "->" + o->features()[g]->description);
      for (auto const &alt : ft->requires_alt) {
        bool ok = false; for (int g : alt) ok = ok || o->feature_states[g].enabled;
        if (!ok) bad.push_back("alt:" + o->description + ":" + ft->description);
      }
      for (int g : ft->requires_exclude)
        if (o->feature_states[g].enabled) bad.push_back("excl:" + o->description + ":" + ft->description + "x" + o->features()[g]->description);
      if (o->feature_states[0].enabled) {
        for (int g : ft->requires_children)
          for (auto *ch : o->children)
            if (!ch->feature_states[g].enabled) bad.push_back("child:" + o->description + ":" + ft->description + "->" + ch->description + ":" + ch->features()[g]->description);
      }
    }
    // parents/children are mutual
    for (auto *ch : o->children) {
      bool found = false; for (auto *p : ch->parents) found = found || (p == o);
      if (!found) bad.push_back("link:" + o->description + "->" + ch->description);
    }
    for (auto *p : o->parents) {
      if (!id.count(p)) { bad.push_back("dangling-parent:" + o->description); continue; }
      bool found = false; for (auto *ch : p->children) found = found || (ch == o);
      if (!found) bad.push_back("link-up:" + o->description);
    }
  }
  c.out("nbad", itok((long long) bad.size()));
  std::string all;
  for (size_t i = 0; i < bad.size() && i < 5; i++) { std::string s = bad[i]; for (auto &ch : s) if (ch == ' ') ch = '_'; all += (i ? " s" : "s") + s; }
  if (!bad.empty()) c.out("bad", all);
  // engine-side bookkeeping: atoms requested and their reference counts
  colvarproxy_verif *p = c.proxy;
  std::vector<std::string> t;
  for (size_t i = 0; i < p->atoms_ids.size(); i++) { t.push_back(itok(p->atoms_ids[i])); t.push_back(itok((long long) p->atoms_refcount[i])); }
  c.out("atoms", join(t));
  // every atom slot is referenced once per membership in a live atom group: the engine must keep exactly those atoms
  std::vector<size_t> expect(p->atoms_ids.size(), 0);
  for (auto &n : nodes) {
    cvm::atom_group *ag = dynamic_cast<cvm::atom_group *>(n.o);
    if (!ag || ag->b_dummy || ag->is_enabled(colvardeps::f_ag_scalable)) continue;
    for (size_t i = 0; i < ag->atoms.size(); i++) {
      int const idx = ag->atoms[i].index;
      if (idx >= 0 && (size_t) idx < expect.size()) expect[idx]++;
    }
  }
  long nbadatoms = 0; std::string first;
  for (size_t i = 0; i < expect.size(); i++) {
    if (expect[i] != p->atoms_refcount[i]) {
      if (!nbadatoms) first = "atom_id_" + std::to_string(p->atoms_ids[i]) + "_refcount_" + std::to_string(p->atoms_refcount[i]) + "_memberships_" + std::to_string(expect[i]);
      nbadatoms++;
    }
  }
  c.out("natombad", itok(nbadatoms));
  if (nbadatoms) c.out("atombad", stok(first));
}

static void tables(Ctx &c)
{
  // static feature tables of the running library (for the translator cross-check): need one object of each class
  std::vector<Node> nodes; std::map<colvardeps *, int> id;
  collect(nodes, id);
  bool done[4] = {false, false, false, false};
  for (auto &n : nodes) {
    int k = class_of(n.o, n.cls);
    if (done[k]) continue;
    done[k] = true;
    auto const &F = n.o->features();
    for (size_t f = 0; f < F.size(); f++) {
      std::vector<std::string> t;
      t.push_back(itok(k)); t.push_back(itok((long long) f));
      t.push_back(itok(F[f]->type == colvardeps::f_type_dynamic ? 0 : (F[f]->type == colvardeps::f_type_user ? 1 : (F[f]->type == colvardeps::f_type_static ? 2 : 3))));
      auto put = [&](std::vector<int> const &v) { t.push_back(itok((long long) v.size())); for (int x : v) t.push_back(itok(x)); };
      put(F[f]->requires_self);
      t.push_back(itok((long long) F[f]->requires_alt.size()));
      for (auto const &a : F[f]->requires_alt) put(a);
      put(F[f]->requires_children);
      put(F[f]->requires_exclude);
      c.out("feat", join(t));
    }
  }
}

bool ops_c13(Ctx &c, Toks const &t)
{
  if (t[0].compare(0, 2, "d.") != 0) return false;
  if (!c.proxy) return true;
  if (t[0] == "d.dump") { dump(c); return true; }
  if (t[0] == "d.check") { check(c); return true; }
  if (t[0] == "d.tables") { tables(c); return true; }
  if (t[0] == "d.enable" || t[0] == "d.disable") {
    std::vector<Node> nodes; std::map<colvardeps *, int> id;
    collect(nodes, id);
    size_t oi = (size_t) i_of(t[1]); int f = (int) i_of(t[2]);
    if (oi < nodes.size() && f >= 0 && f < (int) nodes[oi].o->feature_states.size()) {
      cvm::clear_error();
      int rc = (t[0] == "d.enable") ? nodes[oi].o->enable(f) : nodes[oi].o->disable(f);
      c.out("rc", itok(rc != COLVARS_OK ? 1 : 0));
      cvm::clear_error();
    } else c.out("rc", "sna");
    dump(c);
    return true;
  }
  return true;
}
