// C16: the real integrate_potential on gradient grids built directly (no variables needed).
#include "common.h"
#include "colvargrid.h"
#include <memory>

static std::shared_ptr<colvar_grid_count> IC;
static std::shared_ptr<colvar_grid_gradient> IG;
static std::shared_ptr<integrate_potential> IP;

static void meta_(colvar_grid_params *g, std::vector<int> const &nx, std::vector<double> const &w, std::vector<int> const &per)
{
  size_t nd = nx.size();
  g->lower_boundaries.resize(nd); g->upper_boundaries.resize(nd); g->widths.resize(nd);
  for (size_t i = 0; i < nd; i++) {
    double const lo = -1.25 - 0.5 * (double) i;       // (the same constants are in the Lean driver and in the oracle)
    g->lower_boundaries[i] = colvarvalue(lo); g->widths[i] = w[i];
    g->upper_boundaries[i] = colvarvalue(lo + nx[i] * w[i]);
  }
}

static std::string dump(std::vector<cvm::real> const &v)
{
  std::vector<std::string> o; for (double x : v) o.push_back(ftok(x));
  return join(o);
}

bool ops_c16(Ctx &c, Toks const &t)
{
  if (t[0].compare(0, 2, "i.") != 0) return false;
  if (!c.proxy) c.fresh(2);
  if (t[0] == "i.new") {
    int nd = (int) i_of(t[1]); size_t k = 2;
    std::vector<int> nx(nd), per(nd); std::vector<double> w(nd);
    for (int i = 0; i < nd; i++) nx[i] = (int) i_of(t[k++]);
    for (int i = 0; i < nd; i++) w[i] = f_of(t[k++]);
    for (int i = 0; i < nd; i++) per[i] = (int) i_of(t[k++]);
    int minS = (int) i_of(t[k++]), fullS = (int) i_of(t[k++]); bool sm = i_of(t[k++]) != 0;
    IP.reset(); IG.reset(); IC.reset();
    IC = std::make_shared<colvar_grid_count>();
    IC->setup(nx, 0, 1);
    meta_(IC.get(), nx, w, per);
    IC->periodic.resize(nd); for (int i = 0; i < nd; i++) IC->periodic[i] = per[i] != 0;
    IG = std::make_shared<colvar_grid_gradient>();
    IG->setup(nx, 0.0, nd);
    meta_(IG.get(), nx, w, per);
    IG->periodic.resize(nd); for (int i = 0; i < nd; i++) IG->periodic[i] = per[i] != 0;
    IG->samples = IC;
    IG->min_samples = minS; IG->full_samples = fullS;
    IP = std::make_shared<integrate_potential>(IG);
    IP->b_smoothed = sm;
    IP->set_div();
    std::vector<std::string> o; for (int v : IP->nx) o.push_back(itok(v));
    c.out("pnx", join(o));
    c.out("npts", itok((long long) IP->nt));
    // where the surface's points sit: coordinate of the first and of the last point of every dimension
    o.clear();
    for (int i = 0; i < nd; i++) { o.push_back(ftok(IP->bin_to_value_scalar(0, i))); o.push_back(ftok(IP->bin_to_value_scalar(IP->nx[i] - 1, i))); }
    c.out("pcoord", join(o));
    return true;
  }
  if (!IP) return true;
  int nd = (int) IG->nd;
  if (t[0] == "i.acc") {
    std::vector<int> ix(nd); std::vector<double> f(nd);
    for (int i = 0; i < nd; i++) ix[i] = (int) i_of(t[1 + i]);
    for (int i = 0; i < nd; i++) f[i] = f_of(t[1 + nd + i]);
    IG->acc_force(ix, f.data());
    IP->update_div_neighbors(ix);
    return true;
  }
  if (t[0] == "i.set") {
    std::vector<int> ix(nd);
    for (int i = 0; i < nd; i++) ix[i] = (int) i_of(t[1 + i]);
    IC->set_value(ix, (size_t) i_of(t[1 + nd]));
    for (int i = 0; i < nd; i++) IG->data[IG->address(ix) + i] = f_of(t[2 + nd + i]);
    return true;
  }
  if (t[0] == "i.div") { c.out("div", dump(IP->divergence)); return true; }
  if (t[0] == "i.setdiv") { IP->set_div(); c.out("div", dump(IP->divergence)); return true; }
  if (t[0] == "i.int1") {
    cvm::real err = 0.0;
    IP->integrate(100, 1e-6, err, false);
    c.out("F", dump(IP->data));
    return true;
  }
  if (t[0] == "i.atimes") {
    std::vector<cvm::real> A, LA(IP->nt, 0.0);
    for (size_t i = 1; i < t.size(); i++) A.push_back(f_of(t[i]));
    if (A.size() != IP->nt) return true;
    IP->atimes(A, LA);
    c.out("LA", dump(LA));
    return true;
  }
  if (t[0] == "i.cg") {
    std::vector<cvm::real> b, x(IP->nt, 0.0);
    for (size_t i = 3; i < t.size(); i++) b.push_back(f_of(t[i]));
    if (b.size() != IP->nt) return true;
    int iter = 0; cvm::real err = 0.0;
    IP->nr_linbcg_sym(b, x, f_of(t[1]), (int) i_of(t[2]), iter, err);
    c.out("iter", itok(iter));
    c.out("x", dump(x));
    return true;
  }
  if (t[0] == "i.integrate") {   // i.integrate <tol> <itmax>: the solver on the current divergence, from a zero guess
    std::fill(IP->data.begin(), IP->data.end(), 0.0);
    cvm::real err = 0.0;
    int iter = IP->integrate((int) i_of(t[2]), f_of(t[1]), err, false);
    c.out("it", itok(iter));
    c.out("err", ftok(err));
    c.out("pmf", dump(IP->data));
    c.out("rhs", dump(IP->divergence));
    return true;
  }
  return true;
}
