// cvharness: interprets an op file (one op per line) against the real Colvars library built
// from /repo's working tree, printing observable outputs as "> <lineno> <tag> <tokens>".
// The same file is replayed by the Lean driver (lean/Main.lean) through the model.
#include <fstream>
#include <csignal>
#include <unistd.h>

#include "common.h"
#include "colvar.h"
#include "colvarbias.h"
#include "colvarscript.h"
#include "colvarscript_commands.h"
#include "colvars_memstream.h"

void Ctx::drop()
{
  generation++;
  if (proxy) {
    if (proxy->colvars) { delete proxy->colvars; proxy->colvars = nullptr; }
    delete proxy;
    proxy = nullptr;
  }
}

void Ctx::fresh(int natoms)
{
  drop();
  proxy = new colvarproxy_verif();
  proxy->set_natoms(natoms);
}

static Toks split(std::string const &line)
{
  Toks t; std::istringstream is(line); std::string w;
  while (is >> w) t.push_back(w);
  return t;
}

static std::string escape_out(std::string const &s)
{
  std::string r;
  for (char c : s) {
    if (c == ' ') r += "\\s"; else if (c == '\n') r += "\\n"; else if (c == '\\') r += "\\\\";
    else if (c == '\t') r += "\\t"; else if (c == '\r') r += "\\r"; else r += c;
  }
  return r;
}

static std::string cvval_toks(colvarvalue const &v)
{
  std::vector<std::string> o;
  switch (v.type()) {
  case colvarvalue::type_scalar: o.push_back(ftok(v.real_value)); break;
  case colvarvalue::type_3vector: case colvarvalue::type_unit3vector: case colvarvalue::type_unit3vectorderiv:
    o.push_back(ftok(v.rvector_value.x)); o.push_back(ftok(v.rvector_value.y)); o.push_back(ftok(v.rvector_value.z)); break;
  case colvarvalue::type_quaternion: case colvarvalue::type_quaternionderiv:
    o.push_back(ftok(v.quaternion_value.q0)); o.push_back(ftok(v.quaternion_value.q1));
    o.push_back(ftok(v.quaternion_value.q2)); o.push_back(ftok(v.quaternion_value.q3)); break;
  case colvarvalue::type_vector:
    for (size_t i = 0; i < v.vector1d_value.size(); i++) o.push_back(ftok(v.vector1d_value[i])); break;
  default: o.push_back("snotset");
  }
  return join(o);
}
std::string cvval_toks_pub(colvarvalue const &v) { return cvval_toks(v); }

bool ops_module(Ctx &c, Toks const &t, std::string const &rest)
{
  std::string const &op = t[0];
  if (op == "m.new") { c.fresh((int) i_of(t[1])); return true; }
  if (op == "m.drop") { c.drop(); return true; }
  if (!c.proxy) return false;
  colvarproxy_verif *p = c.proxy;
  if (op == "m.opt") {
    std::string const &k = t[1];
    if (k == "tf_same") p->tf_same_step = i_of(t[2]) != 0;
    else if (k == "tfloop") p->tf_loop = i_of(t[2]) != 0;
    else if (k == "cell") p->set_cell(f_of(t[2]), f_of(t[3]), f_of(t[4]));
    else if (k == "temp") p->set_target_temperature(f_of(t[2]));
    else if (k == "dt") p->set_integration_timestep(f_of(t[2]));
    else if (k == "smp") p->smp_mode_v = (t[2] == "cvcs") ? colvarproxy::smp_mode_t::cvcs :
                         ((t[2] == "inner") ? colvarproxy::smp_mode_t::inner_loop : colvarproxy::smp_mode_t::none);
    else if (k == "replicas") { p->replica_id = (int) i_of(t[2]); p->n_replicas = (int) i_of(t[3]); p->comm_dir = t[4]; }   // m.opt replicas <id> <n> <dir>
    else if (k == "threads") p->n_threads = (int) i_of(t[2]);
    else if (k == "realthreads") p->real_threads = i_of(t[2]) != 0;
    else if (k == "scriptlast") p->script_last = i_of(t[2]) != 0;
    else if (k == "perm") { p->perm.clear(); for (size_t i = 2; i < t.size(); i++) p->perm.push_back((int) i_of(t[i])); }
    else if (k == "threadof") { p->thread_of.clear(); for (size_t i = 2; i < t.size(); i++) p->thread_of.push_back((int) i_of(t[i])); }
    else if (k == "rng") p->rng_state = std::strtoull(t[2].c_str(), nullptr, 10);
    else if (k == "trajfreq") p->colvars->cv_traj_freq = i_of(t[2]);
    else if (k == "restartfreq") p->colvars->restart_out_freq = i_of(t[2]);
    else if (k == "prefix") { p->set_output_prefix(t[2]); p->colvars->setup_output(); }
    else if (k == "quiet") p->quiet = i_of(t[2]) != 0;
    else if (k == "it") { colvarmodule::it = colvarmodule::it_restart = i_of(t[2]); }
    else return false;
    p->setup();
    return true;
  }
  if (op == "m.chdir") {        // m.chdir <dir>: create the directory and make it the working directory (walker files are named <cwd>/<prefix>...)
    // a fresh directory every time (scratch directories only): files left by an earlier run would be read as another walker's
    std::string const cmd = (t[1].find("/.cache/") != std::string::npos ? "rm -rf '" + t[1] + "' && " : std::string("")) + "mkdir -p '" + t[1] + "'";
    if (std::system(cmd.c_str()) != 0 || chdir(t[1].c_str()) != 0) { c.out("rc", itok(1)); return true; }
    return true;
  }
  if (op == "m.callback") {     // m.callback <script command> ; <script command> ... : what the force callback runs at every step
    p->callback_cmds.clear();
    std::vector<std::string> cur;
    for (size_t i = 1; i < t.size(); i++) {
      if (t[i] == ";") { if (!cur.empty()) p->callback_cmds.push_back(cur); cur.clear(); }
      else cur.push_back(t[i]);
    }
    if (!cur.empty()) p->callback_cmds.push_back(cur);
    p->have_scripts = true;
    return true;
  }
  if (op == "m.mass") { p->engine_mass[i_of(t[1])] = f_of(t[2]); return true; }
  if (op == "m.charge") { p->engine_charge[i_of(t[1])] = f_of(t[2]); return true; }
  if (op == "m.pos") { p->engine_pos[i_of(t[1])] = cvm::rvector(f_of(t[2]), f_of(t[3]), f_of(t[4])); return true; }
  if (op == "m.tf") { p->engine_tf[i_of(t[1])] = cvm::rvector(f_of(t[2]), f_of(t[3]), f_of(t[4])); return true; }
  if (op == "m.cfg") {
    cvm::clear_error();
    p->clear_error_msgs();
    int rc = p->colvars->read_config_string(unescape(rest));
    c.out("rc", itok(rc != COLVARS_OK ? 1 : 0));
    cvm::clear_error();
    return true;
  }
  if (op == "m.setupout") { int rc = p->colvars->setup_output(); c.out("rc", itok(rc != COLVARS_OK ? 1 : 0)); cvm::clear_error(); return true; }
  if (op == "m.run") { p->begin_run(); return true; }
  if (op == "m.endrun") { p->end_run(); return true; }
  if (op == "m.step") {
    bool cont = t.size() > 1 && t[1] == "cont";
    int rc = p->do_step(cont);
    c.out("rc", itok(rc != COLVARS_OK ? 1 : 0));
    c.out("it", itok(cvm::step_absolute()));
    c.out("energy", ftok(p->bias_energy));
    cvm::clear_error();
    return true;
  }
  if (op == "m.endstep") { p->end_of_step(); return true; }
  if (op == "m.forces") {
    // by engine atom id
    std::vector<cvm::rvector> f(p->n_natoms, cvm::rvector(0., 0., 0.));
    std::vector<int> const &ids = *(p->get_atom_ids());
    for (size_t i = 0; i < ids.size(); i++) {
      if (ids[i] >= 0 && ids[i] < p->n_natoms) f[ids[i]] += (*(p->modify_atom_applied_forces()))[i];
    }
    for (int a = 0; a < p->n_natoms; a++) {
      c.out("f" + std::to_string(a), ftok(f[a].x) + " " + ftok(f[a].y) + " " + ftok(f[a].z));
    }
    return true;
  }
  if (op == "m.cv") {
    colvar *cv = cvm::colvar_by_name(t[1]);
    if (!cv) { c.out("cv", "snone"); return true; }
    c.out("x", cvval_toks(cv->value()));
    for (size_t i = 2; i < t.size(); i++) {
      if (t[i] == "ft") c.out("ft", cvval_toks(cv->total_force()));
      else if (t[i] == "fa") c.out("fa", cvval_toks(cv->applied_force()));
      else if (t[i] == "v") c.out("v", cvval_toks(cv->velocity()));
      else if (t[i] == "ax") c.out("ax", cvval_toks(cv->actual_value()));
      else if (t[i] == "ra") c.out("ra", cvval_toks(cv->run_ave()));
    }
    return true;
  }
  if (op == "m.bias") {
    colvarbias *b = cvm::bias_by_name(t[1]);
    if (!b) { c.out("bias", "snone"); return true; }
    c.out("e", ftok(b->get_energy()));
    return true;
  }
  if (op == "m.counts") {
    c.out("ncv", itok((long long) p->colvars->variables()->size()));
    c.out("nb", itok((long long) p->colvars->biases.size()));
    c.out("natoms", itok((long long) p->get_atom_ids()->size()));
    return true;
  }
  if (op == "m.save") {   // m.save <prefix> [bin]
    cvm::clear_error();
    p->colvars->binary_restart = (t.size() > 2 && t[2] == "bin");
    int rc = p->colvars->write_restart_file(t[1] + ".colvars.state");
    c.out("rc", itok((rc != COLVARS_OK || cvm::get_error() != COLVARS_OK) ? 1 : 0));
    cvm::clear_error();
    return true;
  }
  if (op == "m.load") {   // m.load <prefix>
    cvm::clear_error();
    p->set_input_prefix(t[1]);
    int rc = p->colvars->setup_input();
    c.out("rc", itok((rc != COLVARS_OK || cvm::get_error() != COLVARS_OK) ? 1 : 0));
    c.out("it", itok(cvm::step_absolute()));
    cvm::clear_error();
    p->first_step = true;   // the engine starts a new run from the loaded state
    return true;
  }
  if (op == "m.loadhex") {   // m.loadhex <scratch prefix> <hex bytes of a state file>
    std::string const path = t[1] + ".colvars.state";
    {
      std::ofstream o(path.c_str(), std::ios::binary);
      std::string const &h = t[2];
      if (h != "-") for (size_t i = 0; i + 1 < h.size(); i += 2) o.put((char) std::strtol(h.substr(i, 2).c_str(), nullptr, 16));
    }
    cvm::clear_error();
    p->set_input_prefix(t[1]);
    int rc = p->colvars->setup_input();
    c.out("rc", itok((rc != COLVARS_OK || cvm::get_error() != COLVARS_OK) ? 1 : 0));
    cvm::clear_error();
    std::remove(path.c_str());
    p->first_step = true;
    return true;
  }
  if (op == "m.savestr") {
    std::string st;
    cvm::clear_error();
    int rc = p->colvars->write_restart_string(st);
    c.out("rc", itok(rc != COLVARS_OK ? 1 : 0));
    c.out("state", stok(escape_out(st)));
    cvm::clear_error();
    return true;
  }
  if (op == "t.dump") {   // t.dump <file>: flush output streams, then report every line of a text output file
    p->flush_output_streams();
    std::ifstream tf(t[1].c_str());
    std::string ln;
    long nl = 0, nlabels = -1, nlabel_lines = 0;
    while (std::getline(tf, ln)) {
      std::istringstream is(ln); std::string w; std::vector<std::string> toks;
      while (is >> w) toks.push_back(w);
      if (toks.empty()) continue;
      nl++;
      if (toks[0] == "#") {
        std::vector<std::string> o; for (size_t i = 1; i < toks.size(); i++) o.push_back(stok(toks[i]));
        c.out("tl", join(o));
        nlabels = (long) toks.size() - 2;   // without "#" and "step"
        nlabel_lines++;
      } else {
        // columns: a parenthesised group "( a , b , c )" is one column
        std::vector<std::string> vals; long ncols = 0; bool in = false;
        for (size_t i = 1; i < toks.size(); i++) {
          if (toks[i] == "(") { in = true; ncols++; continue; }
          if (toks[i] == ")") { in = false; continue; }
          if (toks[i] == ",") continue;
          if (!in) ncols++;
          vals.push_back(ftok(std::strtod(toks[i].c_str(), nullptr)));
        }
        c.out("td", itok(std::strtoll(toks[0].c_str(), nullptr, 10)) + " " + itok(ncols));
        c.out("tc", itok(ncols) + " " + itok(nlabels));   // columns of this line vs labels of the preceding label line
        c.out("tli", itok(nlabel_lines));                 // which label line (1-based occurrence) precedes this data line
        c.out("tv", join(vals));
      }
    }
    c.out("tn", itok(nl));
    return true;
  }
  if (op == "m.scriptq") {   // same call, only the return code is reported (scenarios that are not about the dispatcher)
    std::vector<std::string> args;
    for (size_t i = 1; i < t.size(); i++) args.push_back(unescape(t[i]));
    std::vector<unsigned char *> argv;
    for (auto &a : args) argv.push_back((unsigned char *) a.c_str());
    cvm::clear_error();
    int rc = run_colvarscript_command((int) argv.size(), argv.data());
    c.out("rc", itok(rc != COLVARS_OK ? 1 : 0));
    cvm::clear_error();
    return true;
  }
  if (op == "m.script") {
    std::vector<std::string> args;
    for (size_t i = 1; i < t.size(); i++) args.push_back(unescape(t[i]));
    std::vector<unsigned char *> argv;
    for (auto &a : args) argv.push_back((unsigned char *) a.c_str());
    cvm::clear_error();
    int rc = run_colvarscript_command((int) argv.size(), argv.data());
    c.out("rc", itok(rc != COLVARS_OK ? 1 : 0));
    std::string const res(get_colvarscript_result());
    c.out("res", stok(escape_out(res)));
    // outcome class, from the dispatcher's own messages
    std::string cls = "run";
    if (rc != COLVARS_OK) {
      if (res.find("No commands given") == 0) cls = "nocommand";
      else if (res.find("Missing parameters") == 0) cls = "missing";
      else if (res.find("Colvar not found") == 0 || res.find("Bias not found") == 0) cls = "notfound";
      else if (res.find("Syntax error") == 0) cls = "syntax";
      else if (res.find("Insufficient number of arguments") == 0) cls = "toofew";
      else if (res.find("Too many arguments") == 0) cls = "toomany";
    }
    c.out("cls", stok(cls));
    cvm::clear_error();
    return true;
  }
  if (op == "o.delvar" || op == "o.delbias") {   // delete an object by script and list what is left (names, module order)
    std::vector<std::string> args = {"cv", op == "o.delvar" ? "colvar" : "bias", t[1], "delete"};
    std::vector<unsigned char *> argv;
    for (auto &a : args) argv.push_back((unsigned char *) a.c_str());
    cvm::clear_error();
    run_colvarscript_command((int) argv.size(), argv.data());
    cvm::clear_error();
    std::string s;
    for (size_t i = 0; i < p->colvars->variables()->size(); i++) s += (i ? "," : "") + (*p->colvars->variables())[i]->name;
    s += "|";
    for (size_t i = 0; i < p->colvars->biases.size(); i++) s += (i ? "," : "") + p->colvars->biases[i]->name;
    c.out("objs", stok(s));
    return true;
  }
  if (op == "s.table") {
    int const n = cvscript_n_commands();
    char const **names = cvscript_command_names();
    std::vector<std::string> o;
    for (int i = 0; i < n; i++) {
      o.push_back(stok(std::string(names[i]) + ":" + std::to_string(cvscript_command_n_args_min(names[i])) + ":" +
                       std::to_string(cvscript_command_n_args_max(names[i]))));
    }
    c.out("ncmd", itok(n));
    c.out("table", join(o));
    return true;
  }
  return false;
}

int main(int argc, char **argv)
{
  std::ios::sync_with_stdio(false);
  std::istream *in = &std::cin;
  std::ifstream f;
  if (argc > 1) { f.open(argv[1]); in = &f; }
  Ctx c;
  std::string line;
  while (std::getline(*in, line)) {
    c.lineno++;
    Toks t = split(line);
    if (t.empty() || t[0][0] == '#') continue;
    std::string rest;
    size_t pos = line.find(t[0]);
    if (pos != std::string::npos) {
      rest = line.substr(pos + t[0].size());
      size_t b = rest.find_first_not_of(" ");
      rest = (b == std::string::npos) ? "" : rest.substr(b);
    }
    bool ok = ops_c01(c, t) || ops_c18(c, t) || ops_c15(c, t) || ops_c11(c, t) || ops_bias(c, t) || ops_c13(c, t) || ops_c09(c, t) || ops_c10(c, t) || ops_c16(c, t) || ops_c14(c, t) || ops_module(c, t, rest);
    (void) ok;
    std::cout.flush();
  }
  c.drop();
  return 0;
}
