// Read-only views of bias internals (compiled with -fno-access-control; no hook in /repo needed).
#include "common.h"
#include "colvar.h"
#include "colvarbias.h"
#include "colvarbias_histogram.h"
#include "colvarbias_abf.h"
#include "colvarbias_restraint.h"
#include "colvarbias_meta.h"
#include "colvargrid.h"

template <typename G> static void dump_grid(Ctx &c, G *g, char const *tag)
{
  std::vector<std::string> o;
  for (size_t i = 0; i < g->nx.size(); i++) o.push_back(itok(g->nx[i]));
  c.out(std::string(tag) + "nx", join(o));
  o.clear();
  for (size_t i = 0; i < g->data.size(); i++) o.push_back(ftok((double) g->data[i]));
  c.out(tag, join(o));
}

bool ops_bias(Ctx &c, Toks const &t)
{
  if (!c.proxy) return false;
  if (t[0] == "h.dump") {
    colvarbias_histogram *h = dynamic_cast<colvarbias_histogram *>(cvm::bias_by_name(t[1]));
    if (!h || !h->grid) { c.out("data", "snone"); return true; }
    std::vector<std::string> o;
    for (size_t i = 0; i < h->grid->nx.size(); i++) o.push_back(itok(h->grid->nx[i]));
    c.out("nx", join(o));
    o.clear();
    for (size_t i = 0; i < h->grid->data.size(); i++) o.push_back(ftok(h->grid->data[i]));
    c.out("data", join(o));
    return true;
  }
  if (t[0] == "e.dump") {
    colvar *cv = cvm::colvar_by_name(t[1]);
    if (!cv) { c.out("xr", "snone"); return true; }
    c.out("xr", ftok(cv->value().real_value));
    c.out("vr", ftok(cv->velocity().real_value));
    c.out("ek", ftok(cv->kinetic_energy));
    c.out("ep", ftok(cv->potential_energy));
    c.out("fr", ftok(cv->fr.real_value));
    c.out("fa", ftok(cv->f.real_value));
    c.out("xnext", ftok(cv->x_ext.real_value));
    c.out("vnext", ftok(cv->v_ext.real_value));
    { std::vector<std::string> o; for (double g : c.proxy->drawn) o.push_back(ftok(g)); c.out("rnd", o.empty() ? std::string("snone") : join(o)); }
    c.out("err", itok(c.proxy->all_errors.find("still outside boundaries") != std::string::npos ? 1 : 0));
    return true;
  }
  if (t[0] == "v.force") {      // v.force <variable>: value, force on the variable, z-force the engine got for the variable's first atom
    colvar *cv = cvm::colvar_by_name(t[1]);
    if (!cv) { c.out("vx", "snone"); return true; }
    c.out("vx", ftok(cv->value().real_value));
    c.out("vf", ftok(cv->applied_force().real_value));
    double fz = 0.0;
    std::vector<int> const &ids = *(c.proxy->get_atom_ids());
    int const aid = (int) i_of(t.size() > 2 ? t[2] : std::string("0"));
    for (size_t i = 0; i < ids.size(); i++) if (ids[i] == aid) fz += (*(c.proxy->modify_atom_applied_forces()))[i].z;
    c.out("vfz", ftok(fz));
    return true;
  }
  if (t[0] == "b.force") {      // b.force <bias>: the force of this bias on each of its variables (scalar components)
    colvarbias *b = cvm::bias_by_name(t[1]);
    if (!b) { c.out("bf", "snone"); return true; }
    std::vector<std::string> o;
    for (size_t i = 0; i < b->colvar_forces.size(); i++) {
      colvarvalue const &f = b->colvar_forces[i];
      if (f.type() == colvarvalue::type_scalar) o.push_back(ftok(f.real_value));
      else for (size_t k = 0; k < f.size(); k++) o.push_back(ftok(f[k]));
    }
    c.out("bf", join(o));
    return true;
  }
  if (t[0] == "mt.mirror") {     // the hills this walker holds of each peer, by the step at which they were deposited
    colvarbias_meta *m = dynamic_cast<colvarbias_meta *>(cvm::bias_by_name(t[1]));
    if (!m) return true;
    for (size_t ir = 1; ir < m->replicas.size(); ir++) {
      std::vector<std::string> o;
      for (auto const &h : m->replicas[ir]->hills) o.push_back(itok((long long) h.it));
      c.out("mir_" + m->replicas[ir]->replica_id, join(o));
    }
    return true;
  }
  if (t[0] == "mt.dump") {
    colvarbias_meta *m = dynamic_cast<colvarbias_meta *>(cvm::bias_by_name(t[1]));
    if (!m) { c.out("nhills", "snone"); return true; }
    std::vector<std::string> o;
    if (m->use_grids && m->hills_energy) for (size_t i = 0; i < m->hills_energy->nx.size(); i++) o.push_back(itok(m->hills_energy->nx[i]));
    c.out("nx", join(o));
    c.out("nhills", itok((long long) m->hills.size()));
    if (m->replicas.size() > 1) {
      // mirrors of the peers: hills held, and how many of them count as not yet tabulated
      std::vector<std::string> pr;
      for (size_t ir = 1; ir < m->replicas.size(); ir++) {
        pr.push_back(stok(m->replicas[ir]->replica_id));
        pr.push_back(itok((long long) m->replicas[ir]->hills.size()));
        pr.push_back(itok((long long) std::distance(m->replicas[ir]->new_hills_begin, m->replicas[ir]->hills.end())));
      }
      c.out("peers", join(pr));
    }
    c.out("noff", itok((long long) m->hills_off_grid.size()));
    if (m->use_grids && m->hills_energy) {
      o.clear(); for (size_t i = 0; i < m->hills_energy->data.size(); i++) o.push_back(ftok(m->hills_energy->data[i]));
      c.out("gridE", join(o));
      o.clear(); for (size_t i = 0; i < m->hills_energy_gradients->data.size(); i++) o.push_back(ftok(m->hills_energy_gradients->data[i]));
      c.out("gridG", join(o));
    }
    o.clear(); for (auto const &h : m->hills) o.push_back(ftok(h.W));
    c.out("hillw", join(o));
    return true;
  }
  if (t[0] == "r.dump") {
    colvarbias *b = cvm::bias_by_name(t[1]);
    colvarbias_restraint_k *rk = dynamic_cast<colvarbias_restraint_k *>(b);
    colvarbias_restraint_centers *rc = dynamic_cast<colvarbias_restraint_centers *>(b);
    colvarbias_restraint_moving *rm = dynamic_cast<colvarbias_restraint_moving *>(b);
    if (!rk) { c.out("k", "snone"); return true; }
    std::vector<std::string> o;
    if (rc) for (size_t i = 0; i < rc->colvar_centers.size(); i++) o.push_back(ftok(rc->colvar_centers[i].real_value));
    c.out("centers", join(o));
    c.out("k", ftok(rk->force_k));
    c.out("stage", itok(rm ? rm->stage : 0));
    c.out("work", ftok(rm ? rm->acc_work : 0.0));
    // staged-TI lines of this bias, parsed from the log: "Restraint <name> Lambda= <l> dA/dLambda= <v>"
    o.clear(); long n = 0;
    for (auto const &l : c.proxy->ti_log) {
      if (l.find("Restraint " + t[1] + " Lambda=") == std::string::npos) continue;
      double lam = 0, v = 0;
      size_t p1 = l.find("Lambda= "), p2 = l.find("dA/dLambda= ");
      if (p1 == std::string::npos || p2 == std::string::npos) continue;
      lam = std::strtod(l.c_str() + p1 + 8, nullptr); v = std::strtod(l.c_str() + p2 + 12, nullptr);
      o.push_back(ftok(lam)); o.push_back(ftok(v)); n++;
    }
    c.out("nti", itok(n));
    c.out("ti", join(o));
    return true;
  }
  if (t[0] == "a.dump") {
    colvarbias_abf *a = dynamic_cast<colvarbias_abf *>(cvm::bias_by_name(t[1]));
    if (!a || !a->samples) { c.out("samples", "snone"); return true; }
    std::vector<std::string> o;
    for (size_t i = 0; i < a->samples->nx.size(); i++) o.push_back(itok(a->samples->nx[i]));
    c.out("nx", join(o));
    o.clear();
    for (size_t i = 0; i < a->samples->data.size(); i++) o.push_back(itok((long long) a->samples->data[i]));
    c.out("samples", join(o));
    o.clear();
    for (size_t i = 0; i < a->gradients->data.size(); i++) o.push_back(ftok(a->gradients->data[i]));
    c.out("grad", join(o));
    if (a->local_samples) {
      // shared ABF: this walker's own contribution
      o.clear();
      for (size_t i = 0; i < a->local_samples->data.size(); i++) o.push_back(itok((long long) a->local_samples->data[i]));
      c.out("lsamples", join(o));
      o.clear();
      for (size_t i = 0; i < a->local_gradients->data.size(); i++) o.push_back(ftok(a->local_gradients->data[i]));
      c.out("lgrad", join(o));
    }
    if (a->pmf && a->pmf->nd > 1) {
      // on-the-fly integration: the divergence kept up to date sample by sample
      o.clear();
      for (size_t i = 0; i < a->pmf->divergence.size(); i++) o.push_back(ftok(a->pmf->divergence[i]));
      c.out("pmfdiv", join(o));
    }
    return true;
  }
  return false;
}
