// Read-only views of bias internals (compiled with -fno-access-control; no hook in /repo needed).
#include "common.h"
#include "colvar.h"
#include "colvarbias.h"
#include "colvarbias_histogram.h"
#include "colvarbias_abf.h"
#include "colvargrid.h"

template <typename G> static void dump_grid(Ctx &c, G *g, char const *tag)
{
  std::vector<std::string> o;
  for (size_t i = 0; i < g->nx.size(); i++) o.push_back(itok(g->nx[i]));
  c.out(std::string(tag) + "nx", join(o));
  o.clear();
  for (size_t i = 0; i < g->data.size(); i++) o.push_back(ftok((double) g->data[i]));
  c.out(tag, join(o));
}

bool ops_bias(Ctx &c, Toks const &t)
{
  if (!c.proxy) return false;
  if (t[0] == "h.dump") {
    colvarbias_histogram *h = dynamic_cast<colvarbias_histogram *>(cvm::bias_by_name(t[1]));
    if (!h || !h->grid) { c.out("data", "snone"); return true; }
    std::vector<std::string> o;
    for (size_t i = 0; i < h->grid->nx.size(); i++) o.push_back(itok(h->grid->nx[i]));
    c.out("nx", join(o));
    o.clear();
    for (size_t i = 0; i < h->grid->data.size(); i++) o.push_back(ftok(h->grid->data[i]));
    c.out("data", join(o));
    return true;
  }
  if (t[0] == "a.dump") {
    colvarbias_abf *a = dynamic_cast<colvarbias_abf *>(cvm::bias_by_name(t[1]));
    if (!a || !a->samples) { c.out("samples", "snone"); return true; }
    std::vector<std::string> o;
    for (size_t i = 0; i < a->samples->nx.size(); i++) o.push_back(itok(a->samples->nx[i]));
    c.out("nx", join(o));
    o.clear();
    for (size_t i = 0; i < a->samples->data.size(); i++) o.push_back(itok((long long) a->samples->data[i]));
    c.out("samples", join(o));
    o.clear();
    for (size_t i = 0; i < a->gradients->data.size(); i++) o.push_back(ftok(a->gradients->data[i]));
    c.out("grad", join(o));
    return true;
  }
  return false;
}
