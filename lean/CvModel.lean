import CvModel.Scalar
import CvModel.Value
import CvModel.Grid
import CvModel.Engine
import CvModel.Abf
import CvModel.Module
import CvModel.MemStream
import CvModel.FileSys
