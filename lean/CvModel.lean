import CvModel.Scalar
import CvModel.Value
import CvModel.Grid
import CvModel.MemStream
