import CvDriver.Base
import CvDriver.C18
import CvDriver.C15
import CvDriver.C11
import CvDriver.Mod
import CvDriver.C20
import CvDriver.C13
import CvDriver.C19
import CvDriver.C09
import CvDriver.C10
import CvDriver.C16
import CvDriver.C14
import CvDriver.C01
import CvDriver.C06b
import CvDriver.C19b
import CvDriver.C14b
import CvDriver.C08b
import CvDriver.C20b
open Drv

structure DState where
  grid : GridSt := {}
  ms : MsSt := {}
  mod : ModSt := {}
  script : ScriptSt := {}
  outp : OutSt := {}
  integ : IntSt := {}
  shared : SharedSt := {}
  geom : GeomSt := {}
  ratchet : RatchetSt := {}
  acf : AcfSt := {}
  walkers : WalkersSt := {}
  vars : VarSt := {}
  comb : CombSt := {}

def stepLine (s : DState) (ln : Nat) (line : String) : DState × List String :=
  let t := toks line
  let s := { s with geom := geomObserve s.geom t, ratchet := ratchetObserve s.ratchet t, acf := acfObserve s.acf t, vars := varObserve s.vars t, comb := combObserve s.comb t }
  match t with
  | [] => (s, [])
  | _ =>
    match c01 s.geom ln t with
    | some o => (s, o)
    | none =>
    match c06b s.ratchet ln t with
    | some o => (s, o)
    | none =>
    match c08b s.vars ln t with
    | some o => (s, o)
    | none =>
    match c20b s.comb ln t with
    | some o => (s, o)
    | none =>
    match c19b s.acf ln t with
    | some o => (s, o)
    | none =>
    match c14b s.walkers ln t with
    | some (m, o) => ({ s with walkers := m }, o)
    | none =>
    match c18 ln t with
    | some o => (s, o)
    | none =>
    match c15 s.grid ln t with
    | some (g, o) => ({ s with grid := g }, o)
    | none =>
    match c11 s.ms ln t with
    | some (m, o) => ({ s with ms := m }, o)
    | none =>
    match c13 ln t with
    | some o => (s, o)
    | none =>
    match c09 ln t with
    | some o => (s, o)
    | none =>
    match c10 ln t with
    | some o => (s, o)
    | none =>
    match c16 s.integ ln t with
    | some (m, o) => ({ s with integ := m }, o)
    | none =>
    match c14 s.shared ln t with
    | some (m, o) => ({ s with shared := m }, o)
    | none =>
    match c20 s.script ln t with
    | some (m, o) => ({ s with script := m }, o)
    | none =>
    match c19 s.outp ln t with
    | some (m, o) => ({ s with outp := m }, o)
    | none =>
    match modOps s.mod ln t with
    | some (m, o) =>
      -- output files follow every engine step
      let outp := if t.head? == some "m.step" then
          outStep s.outp m.m.clock (fun a => (m.posz.lookup a).getD 0.0)
        else if t.head? == some "m.new" then {} else s.outp
      ({ s with mod := m, outp := outp }, o)
    | none => (s, [])

partial def loop (h : IO.FS.Stream) (s : DState) (ln : Nat) : IO Unit := do
  let line ← h.getLine
  if line.isEmpty then return ()
  let (s', outs) := stepLine s ln line
  for o in outs do IO.println o
  loop h s' (ln + 1)

def main (args : List String) : IO Unit := do
  match args with
  | [path] =>
    let h ← IO.FS.Handle.mk path IO.FS.Mode.read
    loop (IO.FS.Stream.ofHandle h) {} 1
  | _ => loop (← IO.getStdin) {} 1
