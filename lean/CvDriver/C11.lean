import CvDriver.Base
namespace Drv
open Cv Cv.MS

def hexVal (c : Char) : Nat :=
  if c.isDigit then c.toNat - '0'.toNat else if 'a' ≤ c ∧ c ≤ 'f' then c.toNat - 'a'.toNat + 10 else 0

def unhex (s : String) : List UInt8 :=
  if s == "-" then [] else
  let rec go : List Char → List UInt8
    | a :: b :: r => UInt8.ofNat (hexVal a * 16 + hexVal b) :: go r
    | _ => []
  go s.toList

def hexDigit (n : Nat) : Char := if n < 10 then Char.ofNat (n + '0'.toNat) else Char.ofNat (n - 10 + 'a'.toNat)

def hex (bs : List UInt8) : String :=
  if bs.isEmpty then "-" else
  String.ofList (bs.flatMap fun b => [hexDigit (b.toNat / 16), hexDigit (b.toNat % 16)])

structure MsSt where
  w : St := {}
  r : St := {}

def c11 (m : MsSt) (ln : Nat) (t : List String) : Option (MsSt × List String) :=
  let wout (w : St) := [out ln "len" (iTok w.len), out ln "state" (iTok w.state), out ln "bytes" (sTok (hex (written w)))]
  let rout {β} (r : Rd β) (old : St) (show_ : β → String) : St × List String :=
    match r with
    | .ok s v => (s, [out ln "val" (show_ v), out ln "state" (iTok s.state), out ln "rpos" (iTok s.rpos)])
    | .fail s => (s, [out ln "val" "sfail", out ln "state" (iTok s.state), out ln "rpos" (iTok s.rpos)])
    | .oob _ => (old, [out ln "val" "soob"])
  match t with
  | ["ms.new", mx] => some ({ m with w := { maxLen := nOfTok mx } }, [])
  | ["ms.w", "obj", _sz, h] => let w := writeObj m.w (unhex h); some ({ m with w := w }, wout w)
  | ["ms.w", "vec", sz, h] =>
    let b := unhex h; let n := b.length / nOfTok sz
    let w := writeVec m.w n (b.take (n * nOfTok sz)); some ({ m with w := w }, wout w)
  | ["ms.w", "str", h] => let b := unhex h; let w := writeVec m.w b.length b; some ({ m with w := w }, wout w)
  | ["ms.load", h] => some ({ m with r := ofBytes (unhex h) }, [])
  | ["ms.loadw"] => some ({ m with r := ofBytes (written m.w) }, [])
  | ["ms.r", "obj", sz] =>
    let (r, o) := rout (readObj m.r (nOfTok sz)) m.r (fun v => sTok (hex v)); some ({ m with r := r }, o)
  | ["ms.r", "vec", sz] =>
    let (r, o) := rout (readVec m.r (nOfTok sz)) m.r (fun v => iTok v.1 ++ " " ++ sTok (hex v.2)); some ({ m with r := r }, o)
  | ["ms.r", "str"] =>
    let (r, o) := rout (readVec m.r 1) m.r (fun v => iTok v.1 ++ " " ++ sTok (hex v.2)); some ({ m with r := r }, o)
  | "fs.crash" :: oldlen :: k :: j :: ws =>
    -- the replacement protocol with abstract contents: old state = `oldlen` bytes of 1, new = chunks of 2
    let sOld : List UInt8 := List.replicate (nOfTok oldlen) 1
    let chunks : List (List UInt8) := ws.map fun w => List.replicate (nOfTok w) 2
    let sNew := chunks.flatten
    let d := FS.crashAt { f := some sOld, old := none } (FS.replaceOps chunks) (nOfTok k) (nOfTok j)
    let cls (x : Option (List UInt8)) : String :=
      match x with
      | none => "sabsent i0"
      | some b => if b == sNew then "snew " ++ iTok b.length else if b == sOld then "sold " ++ iTok b.length
                  else if b.isPrefixOf sNew then "spartial " ++ iTok b.length else "sother " ++ iTok b.length
    some (m, [out ln "f" (cls d.f), out ln "old" (cls d.old)])
  | "fs.pcrash" :: oldlen :: k :: j :: ws =>
    -- the publish protocol (temporary file + rename): previous state = `oldlen` bytes of 1, new = chunks of 2
    let sOld : List UInt8 := List.replicate (nOfTok oldlen) 1
    let chunks : List (List UInt8) := ws.map fun w => List.replicate (nOfTok w) 2
    let sNew := chunks.flatten
    let d := FS.pcrashAt { pub := some sOld, tmp := none } (FS.publishOps chunks) (nOfTok k) (nOfTok j)
    let cls (x : Option (List UInt8)) : String :=
      match x with
      | none => "sabsent i0"
      | some b => if b == sNew then "snew " ++ iTok b.length else if b == sOld then "sold " ++ iTok b.length
                  else if b.isPrefixOf sNew then "spartial " ++ iTok b.length else "sother " ++ iTok b.length
    some (m, [out ln "pub" (cls d.pub), out ln "tmp" (cls d.tmp)])
  | _ => none

end Drv
