import CvModel
/-! Line-protocol helpers shared by all driver sections (core Lean only). -/
namespace Drv
open Cv

def toks (line : String) : List String :=
  (line.trimAscii.toString.splitOn " ").filter (· ≠ "")

def fOfTok (s : String) : Float := Float.ofBits (UInt64.ofNat s.toNat!)
def iOfTok (s : String) : Int := s.toInt!
def nOfTok (s : String) : Nat := s.toNat!

def fTok (x : Float) : String := "f" ++ toString x.toBits.toNat
def iTok (i : Int) : String := "i" ++ toString i
def sTok (s : String) : String := "s" ++ s
def bTok (b : Bool) : String := if b then "i1" else "i0"

def fsTok (l : List Float) : String := " ".intercalate (l.map fTok)
def isTok (l : List Int) : String := " ".intercalate (l.map iTok)

/-- take `n` tokens as floats, return the rest -/
def takeF (n : Nat) (l : List String) : List Float × List String :=
  ((l.take n).map fOfTok, l.drop n)
def takeI (n : Nat) (l : List String) : List Int × List String :=
  ((l.take n).map iOfTok, l.drop n)

/-- an output line: `> <lineno> <tag> <tokens>` -/
def out (ln : Nat) (tag : String) (body : String) : String :=
  "> " ++ toString ln ++ " " ++ tag ++ (if body.isEmpty then "" else " " ++ body)

end Drv
