import CvDriver.Base
namespace Drv
open Cv

/-- `V.radial <name> <atom> kT=.. tsf=.. jac=0/1 hide=0/1 k=.. c=.. w=..`: a `distance` variable between one atom on the z axis and
    the origin, under one harmonic restraint sharing its time-step factor (C08, second family) -/
structure RadialDecl where
  name : String
  atom : Nat
  p : VarP Float
  k : Float
  c : Float
  w : Float

structure VarSt where
  posz : List (Nat × Float) := []
  clock : Clock := {}
  decls : List RadialDecl := []
  last : List (String × Bool × Float × Float × Float) := []     -- awake, value, force on the variable, z-force on the atom

def varObserve (s : VarSt) (t : List String) : VarSt :=
  match t with
  | "m.new" :: _ => {}
  | ["m.pos", a, _, _, z] => { s with posz := (nOfTok a, fOfTok z) :: s.posz.filter (·.1 != nOfTok a) }
  | ["m.opt", "it", n] => { s with clock := { s.clock with it := iOfTok n, itRestart := iOfTok n } }
  | "V.radial" :: name :: atom :: kv =>
    let get (k : String) : Option String := (kv.find? (fun t => t.startsWith (k ++ "="))).map (fun t => (t.drop (k.length + 1)).toString)
    let getF (k : String) (d : Float) : Float := ((get k).map fOfTok).getD d
    let getI (k : String) (d : Int) : Int := ((get k).map iOfTok).getD d
    let p : VarP Float := { tsf := getI "tsf" 1, jacobian := getI "jac" 0 != 0, hide := getI "hide" 0 != 0, kT := getF "kT" 0.0 }
    { s with decls := s.decls ++ [{ name := name, atom := nOfTok atom, p := p, k := getF "k" 0.0, c := getF "c" 0.0, w := getF "w" 1.0 }] }
  | "m.step" :: r =>
    let c := s.clock.tick (r == ["cont"])
    let z := fun a => (s.posz.lookup a).getD 0.0
    let last := s.decls.map fun d =>
      let r := radialHarmStep d.p c (z d.atom) d.k d.c d.w
      (d.name, awake c d.p.tsf, r.1, r.2.1, r.2.2)
    { s with clock := c, last := last }
  | _ => s

/-- `v.force <name>`: force on the variable and z-force on its atom at the last step -/
def c08b (s : VarSt) (ln : Nat) (t : List String) : Option (List String) :=
  match t with
  | ["v.force", name, _] =>
    match s.last.lookup name with
    | some (aw, d, f, fz) =>
      -- a sleeping variable is not evaluated (its value and force members are stale): only the force on the atom is predicted
      some ((if aw then [out ln "vx" (fTok d), out ln "vf" (fTok f)] else []) ++ [out ln "vfz" (fTok fz)])
    | none => none
  | _ => none

end Drv
