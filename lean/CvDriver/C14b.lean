import CvDriver.Base
import CvModel.Walkers
namespace Drv
open Cv Cv.Walkers

structure WalkerSt where
  w : Writer := {}
  registered : Bool := false
  known : List Nat := []                 -- peers whose files this walker reads (in the order of the registry)
  readers : List (Nat × Reader) := []    -- peer ↦ what this walker holds about it

structure WalkersSt where
  n : Nat := 0
  f : Nat := 1
  u : Nat := 1
  rfreq : Nat := 0
  ws : List WalkerSt := []
  registry : List Nat := []

def WalkersSt.get (s : WalkersSt) (i : Nat) : WalkerSt := s.ws.getD i {}
def WalkersSt.set (s : WalkersSt) (i : Nat) (x : WalkerSt) : WalkersSt := { s with ws := s.ws.set i x }

/-- one engine step of walker `i` at absolute step `st`; `kill` = the process dies inside the state write, after the new state
    file is in place and the hills file has been closed, before the hills file is started again -/
def walkerStep (s : WalkersSt) (i st : Nat) (kill : Bool) : WalkersSt :=
  let me := s.get i
  -- update_bias: a hill at every multiple of the frequency after the first step of the run
  let me := if st > 0 && st % s.f == 0 then { me with w := me.w.deposit st } else me
  -- replica_share
  let me := if st % s.u == 0 then
      let me := { me with w := me.w.flush, known := s.registry.filter (· != i) }
      let rs := me.known.map fun p =>
        let r := (me.readers.lookup p).getD {}
        (p, r.sync (if p == i then me.w else (s.get p).w))
      { me with readers := rs }
    else me
  -- the module's restart frequency: state to the replicas
  let me := if s.rfreq > 0 && st > 0 && st % s.rfreq == 0 then
      let w1 := me.w.publish st
      let w2 := if kill then w1.flush else w1.restart
      { me with w := w2, readers := if kill then me.readers else me.readers.map fun pr => (pr.1, pr.2.ownWrite) }
    else me
  s.set i me

def c14b (s : WalkersSt) (ln : Nat) (t : List String) : Option (WalkersSt × List String) :=
  match t with
  | ["K.new", n, f, u, r] =>
    some ({ n := nOfTok n, f := nOfTok f, u := nOfTok u, rfreq := nOfTok r, ws := List.replicate (nOfTok n) {} }, [])
  | ["K.setup", i] =>
    -- setup_output: a fresh hills file, a first state file, then the registry entry
    let i := nOfTok i
    let me := s.get i
    let w := (me.w.restart).publish 0
    some ({ (s.set i { me with w := w, registered := true }) with registry := s.registry ++ [i] }, [])
  | ["K.step", i, st] => some (walkerStep s (nOfTok i) (nOfTok st) false, [])
  | ["K.step", i, st, "kill"] => some (walkerStep s (nOfTok i) (nOfTok st) true, [])
  | ["K.end", i] =>
    let i := nOfTok i
    let me := s.get i
    some (s.set i { me with w := me.w.flush }, [])
  | ["K.truncate", p, k] =>
    let p := nOfTok p
    let me := s.get p
    some (s.set p { me with w := me.w.truncate (nOfTok k) }, [])
  | ["K.mirror", i] =>
    let me := s.get (nOfTok i)
    some (s, me.readers.map fun pr => out ln ("mir_w" ++ toString pr.1) (isTok (pr.2.mirror.map fun (h : Nat) => (h : Int))))
  | _ => none

end Drv
