import CvDriver.Base
import CvDriver.C11
namespace Drv
open Cv Cv.Parse

def strOfHex (h : String) : Str := (unhex h).map fun b => Char.ofNat b.toNat
def hexOfStr (s : Str) : String := hex (s.map fun c => UInt8.ofNat c.toNat)

def c09 (ln : Nat) (t : List String) : Option (List String) :=
  match t with
  | ["p.lookup", conf, key, start] =>
    match keyLookup (strOfHex conf) (strOfHex key) (nOfTok start) with
    | .notFound => some [out ln "res" "snotfound"]
    | .found _ data save => some [out ln "res" "sfound", out ln "data" (sTok (hexOfStr data)), out ln "save" (iTok save)]
    | .parseError => some [out ln "res" "serror"]
    | .outOfFuel => some [out ln "res" "sfuel"]
  | ["p.braces", conf, start] => some [out ln "ok" (bTok (checkBraces (strOfHex conf) (nOfTok start)))]
  | _ => none

end Drv
