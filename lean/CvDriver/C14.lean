import CvDriver.Base
namespace Drv
open Cv Cv.Shared

structure SharedSt where
  ws : List (Walker Float) := []

/-- C14 ops: `W.new n nbins`, `W.sample w bin f`, `W.exchange`, `W.restart w`, `W.dump w` -/
def c14 (s : SharedSt) (ln : Nat) (t : List String) : Option (SharedSt × List String) :=
  match t with
  | ["W.new", n, nb] => some ({ ws := initAll (nOfTok n) (nOfTok nb) }, [])
  | ["W.sample", w, bin, f] => some ({ ws := apply s.ws (.sample (nOfTok w) (nOfTok bin) (fOfTok f)) }, [])
  | ["W.exchange"] => some ({ ws := apply s.ws .exchange }, [])
  | ["W.restart", w] => some ({ ws := apply s.ws (.restart (nOfTok w)) }, [])
  | ["W.dump", w] =>
    match s.ws[nOfTok w]? with
    | some x => some (s, [out ln "samples" (isTok x.samples), out ln "grad" (fsTok x.grad),
                          out ln "lsamples" (isTok x.locS), out ln "lgrad" (fsTok x.locG)])
    | none => some (s, [out ln "samples" "snone"])
  | _ => none

end Drv
