import CvDriver.Base
namespace Drv
open Cv Cv.Geom

structure CompDef where
  kind : String
  coeff : Float := 1.0
  exp : Nat := 1
  oneSite : Bool := false
  axis : V3 Float := ⟨0.0, 0.0, 1.0⟩
  groups : List (List Nat) := []
  iexp : Nat := 6               -- distanceInv exponent
  sw : SwParams Float := { r0 := 4.0, en := 6, ed := 12, tol := 0.0 }   -- coordNum

structure GeomSt where
  pos : List (Nat × V3 Float) := []
  mass : List (Nat × Float) := []
  tf : List (Nat × V3 Float) := []
  defs : List (String × CompDef) := []

def assocSet {β : Type} (l : List (Nat × β)) (k : Nat) (v : β) : List (Nat × β) := (k, v) :: l.filter (·.1 != k)

/-- every line is shown to the geometry observer before it is dispatched -/
def geomObserve (g : GeomSt) (t : List String) : GeomSt :=
  match t with
  | "m.new" :: _ => {}
  | ["m.pos", a, x, y, z] => { g with pos := assocSet g.pos (nOfTok a) ⟨fOfTok x, fOfTok y, fOfTok z⟩ }
  | ["m.tf", a, x, y, z] => { g with tf := assocSet g.tf (nOfTok a) ⟨fOfTok x, fOfTok y, fOfTok z⟩ }
  | ["m.mass", a, m] => { g with mass := assocSet g.mass (nOfTok a) (fOfTok m) }
  | "G.def" :: name :: kind :: kv =>
    let get (k : String) : Option String := (kv.find? (fun s => s.startsWith (k ++ "="))).map (fun s => (s.drop (k.length + 1)).toString)
    let groups := (kv.filter (fun s => s.startsWith "g=")).map fun s => ((s.drop 2).toString.splitOn ",").map nOfTok
    let axis : V3 Float := match (get "axis").map (fun s => (s.splitOn ",").map fOfTok) with
      | some [x, y, z] => ⟨x, y, z⟩
      | _ => ⟨0.0, 0.0, 1.0⟩
    let d : CompDef := { kind := kind, coeff := ((get "c").map fOfTok).getD 1.0, exp := ((get "n").map nOfTok).getD 1,
                         oneSite := (get "one") == some "1", axis := axis, groups := groups,
                         iexp := ((get "exp").map nOfTok).getD 6,
                         sw := { r0 := ((get "r0").map fOfTok).getD 4.0, en := ((get "en").map nOfTok).getD 6,
                                 ed := ((get "ed").map nOfTok).getD 12, tol := ((get "tol").map fOfTok).getD 0.0 } }
    { g with defs := (name, d) :: g.defs.filter (·.1 != name) }
  | _ => g

def GeomSt.group (g : GeomSt) (ids : List Nat) : AGroup Float :=
  ids.map fun a => { m := (g.mass.lookup a).getD 1.0, r := (g.pos.lookup a).getD ⟨0.0, 0.0, 0.0⟩ }
def GeomSt.forces (g : GeomSt) (ids : List Nat) : List (V3 Float) := ids.map fun a => (g.tf.lookup a).getD ⟨0.0, 0.0, 0.0⟩

def compValue (g : GeomSt) (d : CompDef) : Float :=
  let G := fun i => g.group (d.groups.getD i [])
  match d.kind with
  | "distance" => distance (G 0) (G 1)
  | "distanceZ" => distanceZ (G 0) (G 1) d.axis
  | "distanceZ_ref2" => distanceZ2 (G 0) (G 1) (G 2)
  | "distanceXY" => distanceXY (G 0) (G 1) d.axis
  | "gyration" => gyration (G 0)
  | "angle" => angle (G 0) (G 1) (G 2)
  | "inertia" => inertia (G 0)
  | "inertiaZ" => inertiaZ (G 0) d.axis
  | "distanceInv" => distanceInv (G 0) (G 1) d.iexp
  | "coordNum" => coordNum (G 0) (G 1) d.sw
  | _ => 0.0

/-- gradient of the component on each of its atoms, by group -/
def compGrad (g : GeomSt) (d : CompDef) : List (List (V3 Float)) :=
  let G := fun i => g.group (d.groups.getD i [])
  match d.kind with
  | "distance" => let r := distanceGrad (G 0) (G 1); [r.1, r.2]
  | "distanceZ" => let r := distanceZGrad (G 0) (G 1) d.axis; [r.1, r.2]
  | "distanceZ_ref2" => let r := distanceZ2Grad (G 0) (G 1) (G 2); [r.1, r.2.1, r.2.2]
  | "distanceXY" => let r := distanceXYGrad (G 0) (G 1) d.axis; [r.1, r.2]
  | "gyration" => [gyrationGrad (G 0)]
  | "angle" => let r := angleGrad (G 0) (G 1) (G 2); [r.1, r.2.1, r.2.2]
  | "inertia" => [inertiaGrad (G 0)]
  | "inertiaZ" => [inertiaZGrad (G 0) d.axis]
  | "distanceInv" => let r := distanceInvGrad (G 0) (G 1) d.iexp; [r.1, r.2]
  | "coordNum" => let r := coordNumGrad (G 0) (G 1) d.sw; [r.1, r.2]
  | _ => []

def compTF (g : GeomSt) (d : CompDef) : Float :=
  let G := fun i => g.group (d.groups.getD i [])
  let F := fun i => g.forces (d.groups.getD i [])
  match d.kind with
  | "distance" => distanceTF (G 0) (G 1) (F 0) (F 1) d.oneSite
  | "distanceZ" => distanceZTF (G 0) (G 1) d.axis (F 0) (F 1) d.oneSite
  | "distanceXY" => distanceXYTF (G 0) (G 1) d.axis (F 0) (F 1) d.oneSite
  | "gyration" => gyrationTF (G 0) (F 0)
  | _ => 0.0

def v3Toks (v : V3 Float) : String := fsTok [v.x, v.y, v.z]

/-- `m.cv <declared name> …`, `g.grad <name>` -/
def c01 (g : GeomSt) (ln : Nat) (t : List String) : Option (List String) :=
  match t with
  | "m.cv" :: name :: rest =>
    match g.defs.lookup name with
    | none => none
    | some d =>
      let q := compValue g d
      let x := combine [({ c := d.coeff, n := d.exp, q := q } : Term Float)]
      let o := [out ln "x" (fTok x)]
      -- total force of the variable: the component's, times coefficient over squared norm of the coefficients
      let o := if rest.contains "ft" && d.exp == 1 && (d.kind != "angle") && (d.kind != "distanceZ_ref2")
               then o ++ [out ln "ft" (fTok (compTF g d * d.coeff / (d.coeff * d.coeff)))] else o
      some o
  | ["g.grad", name] =>
    match g.defs.lookup name with
    | none => none
    | some d =>
      let q := compValue g d
      let fac := termFactor ({ c := d.coeff, n := d.exp, q := q } : Term Float)
      -- accumulate per atom id (an atom may belong to several groups)
      let pairs : List (Nat × V3 Float) := (List.zip d.groups (compGrad g d)).flatMap fun (ids, gs) => List.zip ids gs
      let ids := (pairs.map (·.1)).eraseDups
      let sorted := ids.mergeSort (· ≤ ·)
      some (sorted.map fun a =>
        let tot := (pairs.filter (·.1 == a)).foldl (fun s p => V3.add s p.2) V3.zero
        out ln ("g" ++ toString a) (v3Toks (V3.smul fac tot)))
  | _ => none

end Drv
