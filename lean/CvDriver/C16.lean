import CvDriver.Base
namespace Drv
open Cv Cv.Integ

structure IntSt where
  g : GGrid Float := { shape := { nx := [], per := [] }, w := [], minS := 0, fullS := 0, sum := fun _ => [], cnt := fun _ => 0 }
  dv : DivF Float := fun _ => 0.0
  sm : Bool := false

def IntSt.pts (s : IntSt) : List Idx := points s.g.shape.pmfNx
def IntSt.divOut (s : IntSt) (ln : Nat) : String := out ln "div" (fsTok (s.pts.map s.dv))

/-- C16 ops on one current gradient grid + integrator -/
def c16 (s : IntSt) (ln : Nat) (t : List String) : Option (IntSt × List String) :=
  match t with
  | "i.new" :: nd :: r =>
    let nd := nOfTok nd
    let (nx, r) := takeI nd r; let (w, r) := takeF nd r; let (per, r) := takeI nd r
    let minS := nOfTok (r.getD 0 "0"); let fullS := nOfTok (r.getD 1 "0"); let sm := r.getD 2 "0" == "1"
    let g : GGrid Float := { shape := { nx := nx, per := per.map (· ≠ 0) }, w := w, minS := minS, fullS := fullS,
                             sum := fun _ => List.replicate nd 0.0, cnt := fun _ => 0 }
    let s' : IntSt := { g := g, dv := setDiv g sm, sm := sm }
    let coords : List Float := (List.range nd).flatMap fun i =>
      let lo : Float := -1.25 - 0.5 * Float.ofNat i
      [pmfCoord lo (w.getD i 1.0) 0, pmfCoord lo (w.getD i 1.0) ((g.shape.pmfNx.getD i 1) - 1)]
    some (s', [out ln "pnx" (isTok g.shape.pmfNx), out ln "npts" (iTok s'.pts.length), out ln "pcoord" (fsTok coords)])
  | "i.acc" :: r =>
    let nd := s.g.shape.nd
    let (ix, r) := takeI nd r; let (f, _) := takeF nd r
    let (g', dv') := sample s.sm (s.g, s.dv) (ix, f)
    some ({ s with g := g', dv := dv' }, [])
  | "i.set" :: r =>
    -- bin contents set directly (no divergence update)
    let nd := s.g.shape.nd
    let (ix, r) := takeI nd r
    let c := nOfTok (r.getD 0 "0"); let (v, _) := takeF nd (r.drop 1)
    let g := s.g
    let g' := { g with sum := fun j => if j = ix then v else g.sum j, cnt := fun j => if j = ix then c else g.cnt j }
    some ({ s with g := g' }, [])
  | ["i.div"] => some (s, [s.divOut ln])
  | ["i.setdiv"] =>
    let s' := { s with dv := setDiv s.g s.sm }
    some (s', [s'.divOut ln])
  | "i.int1" :: csm :: _ =>
    some (s, [out ln "F" (fsTok (integrate1D s.g s.sm (csm == "1")))])
  | "i.atimes" :: r =>
    let A := r.map fOfTok
    some (s, [out ln "LA" (fsTok (atimes s.g.shape.pmfNx s.g.shape.per s.g.w A))])
  | "i.cg" :: tol :: itmax :: r =>
    let b := r.map fOfTok
    let L := atimes s.g.shape.pmfNx s.g.shape.per s.g.w
    let res := cgSolve L b (b.map fun _ => 0.0) (fOfTok tol) (nOfTok itmax)
    some (s, [out ln "iter" (iTok res.iter), out ln "x" (fsTok res.x)])
  | _ => none

end Drv
