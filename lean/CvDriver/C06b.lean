import CvDriver.Base
namespace Drv
open Cv Cv.Ratchet

inductive RDecl where
  | abmd (atom : Nat) (p : AbmdParams Float)
  | histr (atoms : List Nat) (p : HistRParams Float)

structure RatchetSt where
  posz : List (Nat × Float) := []
  decls : List (String × RDecl) := []
  abmd : List (String × AbmdState Float) := []
  last : List (String × Float × List Float) := []      -- energy and forces of the last step

/-- shown every line: tracks z coordinates, declarations, and updates the declared biases at every engine step -/
def ratchetObserve (s : RatchetSt) (t : List String) : RatchetSt :=
  match t with
  | "m.new" :: _ => {}
  | ["m.pos", a, _, _, z] => { s with posz := (nOfTok a, fOfTok z) :: s.posz.filter (·.1 != nOfTok a) }
  | ["B.abmd", name, atom, k, stop, dec] =>
    { s with decls := s.decls ++ [(name, .abmd (nOfTok atom) { k := fOfTok k, stopping := fOfTok stop, decreasing := dec != "0" })] }
  | "B.histr" :: name :: lower :: width :: nb :: sigma :: k :: na :: r =>
    let atoms := (r.take (nOfTok na)).map nOfTok
    let ref := (r.drop (nOfTok na)).map fOfTok
    { s with decls := s.decls ++ [(name, .histr atoms { lower := fOfTok lower, width := fOfTok width, nbins := nOfTok nb, sigma := fOfTok sigma, k := fOfTok k, ref := ref })] }
  | "m.step" :: _ =>
    let z := fun a => (s.posz.lookup a).getD 0.0
    s.decls.foldl (fun st (nd : String × RDecl) =>
      match nd.2 with
      | .abmd atom p =>
        let cur := ((st.abmd.lookup nd.1).getD none)
        let r := abmdStep p cur (z atom)
        { st with abmd := (nd.1, r.1) :: st.abmd.filter (·.1 != nd.1), last := (nd.1, r.2.1, [r.2.2]) :: st.last.filter (·.1 != nd.1) }
      | .histr atoms p =>
        let xs := atoms.map z
        { st with last := (nd.1, histREnergy p xs, (List.range xs.length).map (histRForce p xs)) :: st.last.filter (·.1 != nd.1) }) s
  | _ => s

/-- `m.bias <declared name>`: energy; `b.force <name>`: force on each of its variables -/
def c06b (s : RatchetSt) (ln : Nat) (t : List String) : Option (List String) :=
  match t with
  | ["m.bias", name] =>
    match s.last.lookup name with
    | some (e, _) => some [out ln "e" (fTok e)]
    | none => none
  | ["b.force", name] =>
    match s.last.lookup name with
    | some (_, f) => some [out ln "bf" (fsTok f)]
    | none => none
  | _ => none

end Drv
