import CvDriver.Base
/-! Module-level driver state: the engine clock, the injected atom data, and the modelled objects. -/
namespace Drv
open Cv

structure V3 where
  x : Float := 0
  y : Float := 0
  z : Float := 0

/-- a histogram of injected scalar variables (value = z coordinate of `atoms[i]`) -/
structure HistObj where
  name : String
  atoms : List Nat
  per : List (Float × Float) := []   -- (period, wrapAround) per variable; period 0 = not periodic
  g : GridDef Float
  stepZero : Bool
  data : List Float

inductive Obj where
  | hist (h : HistObj)

structure ModSt where
  clock : Clock := {}
  tfSame : Bool := false
  clockKnown : Bool := true   -- false after loading a state the model does not interpret
  pos : List (Nat × V3) := []
  tf : List (Nat × V3) := []
  objs : List Obj := []

def ModSt.zOf (m : ModSt) (a : Nat) : Float := ((m.pos.lookup a).getD {}).z
def ModSt.fzOf (m : ModSt) (a : Nat) : Float := ((m.tf.lookup a).getD {}).z

def setAssoc {β} (l : List (Nat × β)) (k : Nat) (v : β) : List (Nat × β) :=
  (k, v) :: l.filter (·.1 ≠ k)

def stepObj (m : ModSt) : Obj → Obj
  | .hist h =>
    let xs := List.zipWith (fun a (pc : Float × Float) =>
      if pc.1 == 0.0 then m.zOf a else wrapS pc.1 pc.2 (m.zOf a)) h.atoms h.per
    .hist { h with data := histStepScalar h.g h.data (canAccumulate m.clock h.stepZero) xs }

def modOps (m : ModSt) (ln : Nat) (t : List String) : Option (ModSt × List String) :=
  match t with
  | "m.new" :: _ => some ({}, [])
  | ["m.opt", "it", n] => some ({ m with clock := { m.clock with it := iOfTok n, itRestart := iOfTok n } }, [])
  | ["m.opt", "tf_same", b] => some ({ m with tfSame := b != "0" }, [])
  | "m.opt" :: _ => some (m, [])
  | "m.loadhex" :: _ => some ({ m with clockKnown := false }, [])
  | "m.load" :: _ => some ({ m with clockKnown := false }, [])
  | ["m.pos", a, x, y, z] => some ({ m with pos := setAssoc m.pos (nOfTok a) ⟨fOfTok x, fOfTok y, fOfTok z⟩ }, [])
  | ["m.tf", a, x, y, z] => some ({ m with tf := setAssoc m.tf (nOfTok a) ⟨fOfTok x, fOfTok y, fOfTok z⟩ }, [])
  | "m.step" :: r =>
    let c := m.clock.tick (r == ["cont"])
    let m := { m with clock := c }
    let m := { m with objs := m.objs.map (stepObj m) }
    some (m, if m.clockKnown then [out ln "it" (iTok c.it)] else [])
  | "M.hist" :: name :: stepZero :: nd :: r =>
    -- M.hist <name> <stepZeroData> <nd> atoms.. lo.. hi.. w..
    let nd := nOfTok nd
    let atoms := (r.take nd).map nOfTok; let r := r.drop nd
    let (lo, r) := takeF nd r; let (hi, r) := takeF nd r; let (w, r) := takeF nd r
    let (pp, r) := takeF nd r; let (pc, _) := takeF nd r
    let nx := List.zipWith (fun (lh : Float × Float) w => nbinsRound lh.1 lh.2 w) (lo.zip hi) w
    let g : GridDef Float := { nx := nx, lo := lo, w := w }
    let nt := (ntOf 1 nx).toNat
    let h : HistObj := { name := name, atoms := atoms, g := g, per := pp.zip pc, stepZero := stepZero != "0", data := List.replicate nt 0.0 }
    some ({ m with objs := m.objs ++ [.hist h] }, [])
  | ["h.dump", name] =>
    let o := m.objs.filterMap fun | .hist h => if h.name == name then some h else none
    match o with
    | h :: _ => some (m, [out ln "nx" (isTok h.g.nx), out ln "data" (fsTok h.data)])
    | [] => some (m, [])
  | _ => none

end Drv
