import CvDriver.Base
/-! Module-level driver: engine clock, injected atom data and the modelled objects (`Cv.Sys Float`). -/
namespace Drv
open Cv

/-- an extended-Lagrangian variable with one harmonic bias acting on its extended coordinate (C17 scenarios) -/
structure ExtObj where
  name : String
  atom : Nat
  p : ExtParams Float
  s : ExtState Float
  kb : Float            -- harmonic bias on the extended coordinate: force constant (0 = none)
  cb : Float
  coef : Float := 1.0   -- `componentCoeff` of the single distanceZ component (the value is coef * z, wrapped when periodic)
  kw : Float := 0.0     -- harmonicWalls (bypasses the extended coordinate): force constant (0 = none)
  uw : Float := 0.0     -- upper wall
  xrep : Float := 0.0   -- value reported at the last step
  vrep : Float := 0.0
  ebias : Float := 0.0

/-- the engine simulator's Gaussian source: SplitMix64 + Box-Muller (harness/proxy_verif.cpp) -/
def splitmix (s : UInt64) : UInt64 × UInt64 :=
  let s' := s + 0x9E3779B97F4A7C15
  let z := s'
  let z := (z ^^^ (z >>> 30)) * 0xBF58476D1CE4E5B9
  let z := (z ^^^ (z >>> 27)) * 0x94D049BB133111EB
  (s', z ^^^ (z >>> 31))

def randGaussian (s : UInt64) : UInt64 × Float :=
  let (s1, a) := splitmix s
  let (s2, b) := splitmix s1
  let u1 := (Float.ofNat (a >>> 11).toNat + 1.0) / 9007199254740993.0
  let u2 := Float.ofNat (b >>> 11).toNat / 9007199254740992.0
  (s2, Float.sqrt (-2.0 * Float.log u1) * Float.cos (2.0 * 3.14159265358979323846 * u2))

structure ModSt where
  exts : List ExtObj := []
  rng : UInt64 := 0x9E3779B97F4A7C15
  m : Sys Float := {}
  names : List String := []            -- variable names, same order as `m.cvs`
  posz : List (Nat × Float) := []
  tfz : List (Nat × Float) := []
  natoms : Nat := 0
  modelled : Bool := false             -- at least one `M.` object: the model speaks for the whole module
  clockKnown : Bool := true            -- false after loading a state the model does not interpret
  saved : List (String × Sys Float) := []   -- states saved under a prefix (survive `m.new`)
  savedExt : List (String × List ExtObj) := []

def setAssoc {β} (l : List (Nat × β)) (k : Nat) (v : β) : List (Nat × β) :=
  (k, v) :: l.filter (·.1 ≠ k)

def ModSt.cvIdx (s : ModSt) (names : List String) : List Nat :=
  names.map fun n => (s.names.idxOf n)

def optF (x : Float) : Option Float := if x == 0.0 then none else some x

def findBias (s : ModSt) (name : String) : Option (Bias Float) :=
  (s.m.biases.find? (·.1 == name)).map (·.2)

def modOps (s : ModSt) (ln : Nat) (t : List String) : Option (ModSt × List String) :=
  match t with
  | "m.new" :: n :: _ => some ({ natoms := nOfTok n, saved := s.saved, savedExt := s.savedExt }, [])
  | "m.savestr" :: _ => some ({ s with m := sysFlush s.m }, [])
  | "m.save" :: prefix_ :: _ =>
    let s := { s with m := sysFlush s.m }
    some ({ s with saved := (prefix_, s.m) :: s.saved.filter (·.1 != prefix_),
                   savedExt := (prefix_, s.exts) :: s.savedExt.filter (·.1 != prefix_) }, [])
  -- M.checkpoint <prefix>: the module has just written its own checkpoint of this step under that prefix (colvarsRestartFrequency):
  -- for the model the same as a state saved after the step (no flush of pending hills: used for extended-Lagrangian scenarios only)
  | ["M.checkpoint", prefix_] =>
    some ({ s with saved := (prefix_, s.m) :: s.saved.filter (·.1 != prefix_),
                   savedExt := (prefix_, s.exts) :: s.savedExt.filter (·.1 != prefix_) }, [])
  | ["m.opt", "it", n] => some ({ s with m := { s.m with clock := { s.m.clock with it := iOfTok n, itRestart := iOfTok n } } }, [])
  | ["m.opt", "tf_same", b] => some ({ s with m := { s.m with tfSame := b != "0" } }, [])
  | ["m.opt", "tfloop", b] => some ({ s with m := { s.m with tfLoop := b != "0" } }, [])
  | ["m.opt", "rng", seed] => some ({ s with rng := UInt64.ofNat (nOfTok seed) }, [])
  | "m.opt" :: _ => some (s, [])
  | "m.loadhex" :: _ => some ({ s with clockKnown := false }, [])
  | "M.noclock" :: _ => some ({ s with clockKnown := false }, [])
  | "m.load" :: prefix_ :: _ =>
    match s.saved.lookup prefix_ with
    | some sv =>
      -- extended coordinates: the state carries the value and velocity reported at the last step
      let exts := s.exts.map fun e =>
        match ((s.savedExt.lookup prefix_).getD []).find? (·.name == e.name) with
        | some o => { e with s := { e.s with set := true, xExt := o.xrep, vExt := o.vrep, afterRestart := true } }
        | none => e
      some ({ s with m := sysLoad s.m sv, exts := exts }, [out ln "it" (iTok sv.clock.it)])
    | none => some ({ s with clockKnown := false }, [])
  | ["m.pos", a, _x, _y, z] => some ({ s with posz := setAssoc s.posz (nOfTok a) (fOfTok z) }, [])
  | ["m.tf", a, _x, _y, z] => some ({ s with tfz := setAssoc s.tfz (nOfTok a) (fOfTok z) }, [])
  | "m.step" :: r =>
    let inp : StepIn Float := { z := fun a => (s.posz.lookup a).getD 0.0, tfz := fun a => (s.tfz.lookup a).getD 0.0,
                                cont := r == ["cont"] }
    let (m', o) := modStep s.m inp
    -- extended-Lagrangian variables (their own little machines, same clock)
    let (exts', rng', eext) := s.exts.foldl (fun (acc : List ExtObj × UInt64 × Float) (e : ExtObj) =>
        let (es, rng, en) := acc
        -- a variable with time-step factor n sleeps unless the absolute step is a multiple of n (`calc_colvars`);
        -- its biases share the factor and hand over n times their force (`communicate_forces`)
        if e.p.tsf > 1 && m'.clock.it % e.p.tsf != 0 then (es ++ [e], rng, en) else
        let nF : Float := Float.ofInt e.p.tsf
        let x := match e.p.per with
          | none => e.coef * inp.z e.atom
          | some P => wrapS P e.p.wrapC (e.coef * inp.z e.atom)
        let s1 := extPrepare e.p m'.clock true e.s x
        let w := e.p.width
        let fb := (-0.5 * e.kb / (w * w) * dist2SGrad e.p.per s1.xExt e.cb) * nF
        let eb := 0.5 * e.kb / (w * w) * dist2S e.p.per s1.xExt e.cb
        -- walls act on the actual value (bypass), upper wall only, relative constant 1
        let dW := let g := dist2SGrad none x e.uw; if e.kw == 0.0 then 0.0 else (if g > 0.0 then 0.5 * g else 0.0)
        let fw := (-e.kw * 1.0 / (w * w) * dW) * nF
        let ew := 0.5 * e.kw * 1.0 / (w * w) * dW * dW
        let (rng1, rnd) := if e.p.langevin then randGaussian rng else (rng, 0.0)
        let s2 := extEnd m'.clock (extIntegrate e.p s1 x fb fw rnd) x
        (es ++ [{ e with s := s2, xrep := s1.xExt, vrep := s1.vExt, ebias := eb + ew }], rng1, en + (eb + ew) + (s2.ep + s2.ek)))
      ([], s.rng, 0.0)
    let s' := { s with m := m', exts := exts', rng := rng' }
    let energy := if s.exts.isEmpty then o.energy else o.energy + eext
    let outs := (if s.clockKnown then [out ln "it" (iTok m'.clock.it)] else []) ++
                (if s.modelled && s.clockKnown then [out ln "energy" (fTok energy)] else [])
    some (s', outs)
  | "m.forces" :: _ =>
    if !(s.modelled && s.clockKnown) then some (s, []) else
    some (s, (List.range s.natoms).map fun a =>
      out ln ("f" ++ toString a) (fsTok [0.0, 0.0, lookupF s.m.lastApplied a]))
  | "m.cv" :: name :: r =>
    if !(s.modelled && s.clockKnown) then some (s, []) else
    match (s.m.cvs[s.names.idxOf name]? : Option (CvSt Float)) with
    | none => some (s, [])
    | some v =>
      some (s, [out ln "x" (fTok v.x)] ++ r.filterMap fun k =>
        if k == "ft" then some (out ln "ft" (fTok v.ft)) else if k == "fa" then some (out ln "fa" (fTok v.f)) else none)
  -- M.cv <name> <atom> <width> <period|0> <wrapAround> <subtractAppliedForce>
  | ["M.cv", name, atom, w, p, c, sub] =>
    let v : CvSt Float := { atom := nOfTok atom, per := optF (fOfTok p), wrapC := fOfTok c, width := fOfTok w,
                            subtract := sub != "0", tfCalc := sub != "0", x := 0.0, ft := 0.0, fOld := 0.0, f := 0.0 }
    some ({ s with m := { s.m with cvs := s.m.cvs ++ [v] }, names := s.names ++ [name], modelled := true }, [])
  -- M.hist <name> <stepZeroData> <nd> cvnames.. lo.. hi.. w..
  | "M.hist" :: name :: stepZero :: nd :: r =>
    let nd := nOfTok nd
    let idx := s.cvIdx (r.take nd); let r := r.drop nd
    let (lo, r) := takeF nd r; let (hi, r) := takeF nd r; let (w, _) := takeF nd r
    let nx := List.zipWith (fun (lh : Float × Float) w => nbinsRound lh.1 lh.2 w) (lo.zip hi) w
    let g : GridDef Float := { nx := nx, lo := lo, w := w }
    let b : Bias Float := .hist idx g (stepZero != "0") (List.replicate (ntOf 1 nx).toNat 0.0)
    some ({ s with m := { s.m with biases := s.m.biases ++ [(name, b)] }, modelled := true }, [])
  -- M.abf <name> <nd> cvnames.. lo.. hi.. w.. full min applyBias updateBias periodic1D stepZeroData hasMax maxForce..
  | "M.abf" :: name :: nd :: r =>
    let nd := nOfTok nd
    let idx := s.cvIdx (r.take nd); let r := r.drop nd
    let (lo, r) := takeF nd r; let (hi, r) := takeF nd r; let (w, r) := takeF nd r
    match r with
    | full :: mn :: ab :: ub :: p1 :: sz :: hasMax :: r =>
      let (mf, _) := takeF nd r
      let nx := List.zipWith (fun (lh : Float × Float) w => nbinsRound lh.1 lh.2 w) (lo.zip hi) w
      let g : GridDef Float := { nx := nx, lo := lo, w := w }
      let subs := idx.map fun i => ((s.m.cvs[i]?).map (fun (v : CvSt Float) => v.subtract)).getD false
      let p : AbfParams Float := { g := g, periodic1D := p1 != "0", fullSamples := iOfTok full, minSamples := iOfTok mn,
                                   applyBias := ab != "0", updateBias := ub != "0",
                                   maxForce := if hasMax != "0" then some mf else none,
                                   subtract := subs, tfCurrent := s.m.tfSame, stepZeroData := sz != "0" }
      let b : Bias Float := .abf idx p (AbfState.init p)
      let cvs := (List.range s.m.cvs.length).zip s.m.cvs |>.map fun (iv : Nat × CvSt Float) =>
        if p.updateBias && idx.contains iv.1 then { iv.2 with tfCalc := true } else iv.2
      some ({ s with m := { s.m with biases := s.m.biases ++ [(name, b)], cvs := cvs }, modelled := true }, [])
    | _ => none
  -- M.harm <name> <nd> cvnames.. k centers..
  | "M.harm" :: name :: nd :: r =>
    let nd := nOfTok nd
    let idx := s.cvIdx (r.take nd); let r := r.drop nd
    match r with
    | k :: r =>
      let (cs, _) := takeF nd r
      some ({ s with m := { s.m with biases := s.m.biases ++ [(name, .harm idx (fOfTok k) cs)] }, modelled := true }, [])
    | _ => none
  -- M.restr <name> <harmonic|walls|linear> <nd> cvnames.. key=value...   (lists comma-separated, floats as bit patterns)
  | "M.restr" :: name :: kind :: nd :: r =>
    let nd := nOfTok nd
    let idx := s.cvIdx (r.take nd); let kv := r.drop nd
    let get (k : String) : Option String := (kv.find? (fun t => t.startsWith (k ++ "="))).map (fun t => (t.drop (k.length + 1)).toString)
    let getF (k : String) (d : Float) : Float := ((get k).map fOfTok).getD d
    let getI (k : String) (d : Int) : Int := ((get k).map iOfTok).getD d
    let getL (k : String) : Option (List Float) := (get k).map fun v => ((v.splitOn ",").filter (· ≠ "")).map fOfTok
    let vs : List (CvSt Float) := getCvs s.m.cvs idx
    let sched := (getL "sched").getD []
    let k0 := getF "k" 1.0
    let p : RParams Float := {
      kind := if kind == "walls" then .walls else if kind == "linear" then .linear else .harmonic,
      widths := vs.map (·.width), per := vs.map (·.per), wrapC := vs.map (·.wrapC),
      centers0 := (getL "centers").getD [], targetCenters := getL "target",
      chgK := getI "chgk" 0 != 0, startK := getF "startk" k0, targetK := getF "targetk" k0,
      decoupling := getI "decoupling" 0 != 0, lambdaExp := getF "lexp" 1.0, lambdaSchedule := sched,
      nsteps := getI "nsteps" 0, nstages := if sched.length > 0 then (sched.length : Int) - 1 else getI "nstages" 0,
      equil := getI "equil" 0, firstStep := getI "first" s.m.clock.it, outputWork := getI "work" 0 != 0,
      lowerWalls := getL "lw", upperWalls := getL "uw", lowerK := getF "lk" 1.0, upperK := getF "uk" 1.0 }
    let st : RState Float := { centers := p.centers0, centersIncr := List.replicate nd 0.0, k := k0, kIncr := 0.0,
                               stage := 0, accWork := 0.0, restraintFE := 0.0 }
    some ({ s with m := { s.m with biases := s.m.biases ++ [(name, .restr idx p st)] }, modelled := true }, [])
  -- M.meta <name> <nd> cvnames.. key=value...
  | "M.meta" :: name :: nd :: r =>
    let nd := nOfTok nd
    let idx := s.cvIdx (r.take nd); let kv := r.drop nd
    let get (k : String) : Option String := (kv.find? (fun t => t.startsWith (k ++ "="))).map (fun t => (t.drop (k.length + 1)).toString)
    let getF (k : String) (d : Float) : Float := ((get k).map fOfTok).getD d
    let getI (k : String) (d : Int) : Int := ((get k).map iOfTok).getD d
    let getL (k : String) : List Float := ((get k).map fun v => ((v.splitOn ",").filter (· ≠ "")).map fOfTok).getD []
    let getB (k : String) : List Bool := ((get k).map fun v => ((v.splitOn ",").filter (· ≠ "")).map (· != "0")).getD (List.replicate nd false)
    let vs : List (CvSt Float) := getCvs s.m.cvs idx
    let lo := getL "lo"; let hi := getL "hi"; let w := vs.map (·.width)
    let useGrids := getI "grids" 1 != 0
    let nx := if useGrids then List.zipWith (fun (lh : Float × Float) w => nbinsRound lh.1 lh.2 w) (lo.zip hi) w else []
    let freq := getI "freq" 1
    let gf := getI "gridsfreq" 0
    let p : MetaParams Float := {
      per := vs.map (·.per), cvWidth := w, hillWeight := getF "weight" 0.01, freq := freq,
      sigmas := getL "sigmas", hillWidth := getF "hillwidth" 0.0, useGrids := useGrids,
      gridsFreq := if gf == 0 then freq else gf, keepHills := getI "keephills" 0 != 0,
      wellTempered := getI "wt" 0 != 0, biasTempKB := getF "tkb" 1.0, expand := getB "expand",
      gridPeriodic := getB "gper" }
    let nt := (ntOf 1 nx).toNat
    let st : MetaState Float := { hills := [], nNew := 0, offGrid := [], g := { nx := nx, lo := lo, w := w },
                                  gridE := if useGrids then List.replicate nt 0.0 else [],
                                  gridG := if useGrids then List.replicate (nt * nd) 0.0 else [] }
    some ({ s with m := { s.m with biases := s.m.biases ++ [(name, .mtd idx p st)] }, modelled := true }, [])
  | ["mt.dump", name] =>
    match findBias s name with
    | some (.mtd _ p st) =>
      some (s, [out ln "nx" (isTok st.g.nx), out ln "nhills" (iTok st.hills.length), out ln "noff" (iTok st.offGrid.length)]
               ++ (if p.useGrids then [out ln "gridE" (fsTok st.gridE), out ln "gridG" (fsTok st.gridG)] else [])
               ++ [out ln "hillw" (fsTok (st.hills.map (·.w)))])
    | _ => some (s, [])
  | ["r.dump", name] =>
    match findBias s name with
    | some (.restr _ _ st) =>
      some (s, [out ln "centers" (fsTok st.centers), out ln "k" (fTok st.k), out ln "stage" (iTok st.stage),
                out ln "work" (fTok st.accWork), out ln "nti" (iTok st.tiOut.length),
                out ln "ti" (fsTok (st.tiOut.flatMap fun x => [x.1, x.2]))])
    | _ => some (s, [])
  -- M.ext <name> <atom> k=.. mass=.. dt=.. gamma=.. sigma=.. langevin=0/1 width=.. rl=.. ru=.. haslo=0/1 hasup=0/1 kb=.. cb=.. kw=.. uw=.. tsf=..
  | "M.ext" :: name :: atom :: kv =>
    let get (k : String) : Option String := (kv.find? (fun t => t.startsWith (k ++ "="))).map (fun t => (t.drop (k.length + 1)).toString)
    let getF (k : String) (d : Float) : Float := ((get k).map fOfTok).getD d
    let getI (k : String) (d : Int) : Int := ((get k).map iOfTok).getD d
    let tsfv : Int := getI "tsf" 1
    let p : ExtParams Float := {
      k := getF "k" 1.0
      mass := getF "mass" 1.0
      dt := getF "dt" 1.0
      tsf := tsfv
      gamma := getF "gamma" 0.0
      sigma := getF "sigma" 0.0
      langevin := getI "langevin" 0 != 0
      per := if getF "per" 0.0 > 0.0 then some (getF "per" 0.0) else none
      wrapC := getF "wrapc" 0.0
      width := getF "width" 1.0
      reflLower := if getI "haslo" 0 != 0 then some (getF "rl" 0.0) else none
      reflUpper := if getI "hasup" 0 != 0 then some (getF "ru" 0.0) else none
      subtract := getI "sub" 0 != 0 }
    let st : ExtState Float := { xExt := 0.0, vExt := 0.0, prevX := 0.0, prevV := 0.0, xOld := 0.0, ek := 0.0, ep := 0.0,
                                 fr := 0.0, ftReported := 0.0, fAtoms := 0.0 }
    let e : ExtObj := { name := name, atom := nOfTok atom, p := p, s := st, coef := getF "coef" 1.0, kb := getF "kb" 0.0, cb := getF "cb" 0.0,
                        kw := getF "kw" 0.0, uw := getF "uw" 0.0 }
    some ({ s with exts := s.exts ++ [e], modelled := true }, [])
  | ["e.dump", name] =>
    match s.exts.find? (·.name == name) with
    | some e => some (s, [out ln "xr" (fTok e.xrep), out ln "vr" (fTok e.vrep), out ln "ek" (fTok e.s.ek), out ln "ep" (fTok e.s.ep),
                          out ln "fr" (fTok e.s.fr), out ln "fa" (fTok e.s.fAtoms), out ln "xnext" (fTok e.s.xExt),
                          out ln "vnext" (fTok e.s.vExt), out ln "err" (bTok e.s.err)])
    | none => some (s, [])
  | ["M.tsf", name, n] => some ({ s with m := { s.m with tsf := (name, iOfTok n) :: s.m.tsf } }, [])
  | ["h.dump", name] =>
    match findBias s name with
    | some (.hist _ g _ data) => some (s, [out ln "nx" (isTok g.nx), out ln "data" (fsTok data)])
    | _ => some (s, [])
  | ["a.dump", name] =>
    match findBias s name with
    | some (.abf _ p st) => some (s, [out ln "nx" (isTok p.g.nx), out ln "samples" (isTok st.samples), out ln "grad" (fsTok st.grad)])
    | _ => some (s, [])
  | ["m.bias", name] =>
    if !(s.modelled && s.clockKnown) then some (s, []) else
    match findBias s name with
    | some (.harm idx k cs) => some (s, [out ln "e" (fTok (harmEnergy (getCvs s.m.cvs idx) k cs))])
    | some (.restr idx p st) =>
      let xs := (getCvs s.m.cvs idx).map (·.x)
      let e := ((List.range xs.length).map fun i => rPotential p st.k st.centers i (xs.getD i 0.0)).foldl (· + ·) 0.0
      some (s, [out ln "e" (fTok e)])
    | _ => some (s, [])
  | _ => none

end Drv
