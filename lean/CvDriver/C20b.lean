import CvDriver.Base
namespace Drv
open Cv Cv.Combine

/-- `V.comb <name> <c0> <c1> …`: a variable that is the linear combination of distanceZ components on atoms 0, 1, … with these
    coefficients (current-step total forces); its flags follow the `cv colvar <name> cvcflags` commands of the op file -/
structure CombSt where
  posz : List (Nat × Float) := []
  tfz : List (Nat × Float) := []
  decl : Option (String × List Float) := none
  flags : List Bool := []          -- as last sent by script (applied at the next evaluation)
  last : Option (Float × Float) := none

def combObserve (s : CombSt) (t : List String) : CombSt :=
  match t with
  | "m.new" :: _ => {}
  | ["m.pos", a, _, _, z] => { s with posz := (nOfTok a, fOfTok z) :: s.posz.filter (·.1 != nOfTok a) }
  | ["m.tf", a, _, _, z] => { s with tfz := (nOfTok a, fOfTok z) :: s.tfz.filter (·.1 != nOfTok a) }
  | "V.comb" :: name :: cs => { s with decl := some (name, cs.map fOfTok), flags := cs.map fun _ => true }
  | ["m.script", "cv", "colvar", name, "cvcflags", fl] =>
    match s.decl with
    | some (n, cs) =>
      if n == name then
        let fs := (fl.splitOn "\\s").filter (· != "") |>.map (fun w => w != "0")
        if fs.length == cs.length then { s with flags := fs } else s
      else s
    | none => s
  | "m.step" :: _ =>
    match s.decl with
    | some (_, cs) =>
      let comps : Comps Float := cs.zip s.flags
      let qs := (List.range cs.length).map fun a => (s.posz.lookup a).getD 0.0
      let fs := (List.range cs.length).map fun a => (s.tfz.lookup a).getD 0.0
      { s with last := some (value comps qs, totalForce comps fs) }
    | none => s
  | _ => s

def c20b (s : CombSt) (ln : Nat) (t : List String) : Option (List String) :=
  match t, s.decl, s.last with
  | ["m.cv", name, "ft"], some (n, _), some (x, ft) =>
    if n == name then some [out ln "x" (fTok x), out ln "ft" (fTok ft)] else none
  | _, _, _ => none

end Drv
