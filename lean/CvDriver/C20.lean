import CvDriver.Base
import CvModel.Objects
namespace Drv
open Cv Cv.Script

structure ScriptSt where
  cvs : List String := []
  biases : List String := []
  objs : Cv.Objects.Objs := { vars := [], biases := [], refs := fun _ => [] }

def unescTok (s : String) : String :=
  let rec go : List Char → List Char
    | '\\' :: 'e' :: r => go r
    | '\\' :: 's' :: r => ' ' :: go r
    | '\\' :: 'n' :: r => '\n' :: go r
    | '\\' :: 't' :: r => '\t' :: go r
    | '\\' :: '\\' :: r => '\\' :: go r
    | c :: r => c :: go r
    | [] => []
  String.ofList (go s.toList)

def clsOf : Outcome → String
  | .noCommand => "snocommand"
  | .missingParams => "smissing"
  | .notFound => "snotfound"
  | .syntaxError => "ssyntax"
  | .tooFew => "stoofew"
  | .tooMany => "stoomany"
  | .run _ _ _ => "srun"

def objsOut (ln : Nat) (o : Cv.Objects.Objs) : String :=
  out ln "objs" (sTok (",".intercalate o.vars ++ "|" ++ ",".intercalate (o.biases.map (·.1))))

def c20 (st : ScriptSt) (ln : Nat) (t : List String) : Option (ScriptSt × List String) :=
  match t with
  | "S.names" :: r =>
    let get (k : String) : List String :=
      ((r.find? (fun x => x.startsWith (k ++ "="))).map fun x => ((x.drop (k.length + 1)).toString.splitOn ",").filter (· ≠ "")).getD []
    some ({ st with cvs := get "cvs", biases := get "biases" }, [])
  | "m.script" :: args =>
    let o := dispatch Gen.commands st.cvs st.biases (args.map unescTok)
    some (st, [out ln "cls" (clsOf o)])
  | "O.objs" :: r =>
    -- the object graph as configured: `cvs=a,b,c deps=h:a+b,k:c`
    let get (k : String) : List String :=
      ((r.find? (fun x => x.startsWith (k ++ "="))).map fun x => ((x.drop (k.length + 1)).toString.splitOn ",").filter (· ≠ "")).getD []
    let bs : List (String × List String) := (get "deps").map fun d =>
      match d.splitOn ":" with
      | [b, vs] => (b, (vs.splitOn "+").filter (· ≠ ""))
      | _ => (d, [])
    some ({ st with objs := Cv.Objects.ofConfig (get "cvs") bs }, [])
  | ["o.delvar", v] =>
    let o := if st.objs.vars.contains v then Cv.Objects.deleteVar st.objs v else st.objs
    some ({ st with objs := o }, [objsOut ln o])
  | ["o.delbias", b] =>
    let o := Cv.Objects.deleteBias st.objs b
    some ({ st with objs := o }, [objsOut ln o])
  | ["s.table"] =>
    some (st, [out ln "ncmd" (iTok Gen.commands.length),
               out ln "table" (" ".intercalate (Gen.commands.map fun c => sTok (c.1 ++ ":" ++ toString c.2.1 ++ ":" ++ toString c.2.2)))])
  | _ => none

end Drv
