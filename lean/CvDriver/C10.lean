import CvDriver.Base
import CvModel.Validate
namespace Drv
open Cv Cv.Validate

def vOut (ln : Nat) (v : Verdict) (isCv : Bool) : List String :=
  let objs : List Nat := addObject [] 0 v
  let d := objs.length
  [out ln "v" ((bTok (v == .ok)) ++ " " ++ iTok (if isCv then d else 0) ++ " " ++ iTok (if isCv then 0 else d))]

/-- `v.cfg <kind> <params…> <config text>`: the model's verdict and the change in the number of objects -/
def c10 (ln : Nat) (t : List String) : Option (List String) :=
  match t with
  | ["v.cfg", "analysis", ra, ral, ras, co, al, as_, _] =>
    some (vOut ln (analysisValidate (ra == "1") (nOfTok ral) (nOfTok ras) (co == "1") (nOfTok al) (nOfTok as_)) true)
  | ["v.cfg", "abf", full, mn, nv, mf, _] =>
    let mfl : Option (List Int) := if mf == "-1" then none else some (List.replicate (nOfTok mf) 1)
    some (vOut ln (abfValidate (iOfTok full) (iOfTok mn) (nOfTok nv) mfl).1 false)
  | ["v.cfg", "abfhist", hf, of_, _] => some (vOut ln (abfHistoryValidate (iOfTok hf) (iOfTok of_)).1 false)
  | ["v.cfg", "metarep", u, _] => some (vOut ln (metaReplicaValidate (iOfTok u)) false)
  | ["v.cfg", "moving", ch, n, _] => some (vOut ln (movingValidate (ch == "1") (iOfTok n)) false)
  | ["v.cfg", "meta", _, _, _] => some (vOut ln .ok false)
  | ["v.cfg", "rejected", k, _] => some (vOut ln .rejected (k == "cv"))
  | ["v.hills", nhf, guf, its] =>
    -- number of hills deposited over steps 1..its (step 0 deposits none: can_accumulate_data is false there)
    let (hd, _) := metaInit (iOfTok nhf) (iOfTok guf)
    let n := (List.range (nOfTok its)).foldl (fun acc i =>
      match metaDeposit hd (iOfTok nhf) (Int.ofNat (i + 1)) true with
      | some true => acc + 1
      | _ => acc) 0
    some [out ln "nh" (iTok (Int.ofNat n))]
  | _ => none

end Drv
