import CvDriver.Base
namespace Drv
open Cv

structure OutCv where
  name : String
  atom : Nat
  flags : CvFlags
  raLen : Nat := 0            -- runAveLength (0 = off)
  raStride : Int := 1
  ra : RunAve Float := {}
  raLines : List (Int × Float × Float) := []

structure OutBias where
  name : String
  flags : BiasFlags
  cvNames : List String := []     -- the bias's variables: centre columns are labelled with their names

structure OutSt where
  active : Bool := false
  freq : Int := 0
  cvs : List OutCv := []
  biases : List OutBias := []
  flag : Bool := true                 -- `cv_traj_write_labels`
  changed : Bool := false             -- configuration parsed since the last step
  lines : List (String × String) := []  -- (tag, tokens) of every line of the trajectory file (model side)
  prevRel : Int := -1                 -- `prev_timestep` of the variables
  files : List (String × String) := []   -- file name ↦ owner ("traj" or variable name)

def labelTokens (s : OutSt) : List String :=
  "step" :: (s.cvs.flatMap fun c => (cvLabels c.flags).map fun l => l.1 ++ c.name) ++
            (s.biases.flatMap fun b => (biasLabels b.flags).map fun l =>
              match l.2 with
              | .biasCenter i => l.1 ++ b.cvNames.getD i ""
              | _ => l.1 ++ b.name)

def ncols (s : OutSt) : Nat :=
  (s.cvs.foldl (fun n c => n + (cvFields c.flags).length) 0) + (s.biases.foldl (fun n b => n + (biasFields b.flags).length) 0)

/-- called by the module driver after every engine step -/
def outStep (s : OutSt) (c : Clock) (z : Nat → Float) : OutSt :=
  if !s.active then s else
  -- running averages (colvarmodule::analyze, before the trajectory is written)
  let cvs := s.cvs.map fun v =>
    if v.raLen == 0 then v else
    if !v.ra.started then { v with ra := { started := true, hist := [] } } else
    if Int.tmod c.stepRelative v.raStride == 0 && decide (c.stepRelative > s.prevRel) then
      let (ra', o) := runAveStep v.raLen none v.ra (z v.atom)
      match o with
      | some (m, sd) => { v with ra := ra', raLines := v.raLines ++ [(c.it, m, sd)] }
      | none => { v with ra := ra' }
    else v
  let s := { s with cvs := cvs }
  let s := if s.freq == 0 then s else
    let (ls, fl) := trajStep s.freq c (s.flag || s.changed)
    let rendered := ls.map fun l => match l with
      | .label => ("tl", " ".intercalate ((labelTokens s).map sTok))
      | .data it => ("td", iTok it ++ " " ++ iTok (ncols s))
    { s with lines := s.lines ++ rendered, flag := fl, changed := false }
  { s with prevRel := c.stepRelative }

def c19 (s : OutSt) (ln : Nat) (t : List String) : Option (OutSt × List String) :=
  match t with
  | ["O.traj", freq] => some ({ s with active := true, freq := iOfTok freq }, [])
  -- O.cv <name> <atom> value velocity energy totalForce appliedForce extended runAveLength runAveStride
  | ["O.cv", name, atom, a, b, c, d, e, f, ral, ras] =>
    let fl : CvFlags := { value := a != "0", velocity := b != "0", energy := c != "0", totalForce := d != "0",
                          appliedForce := e != "0", extended := f != "0" }
    some ({ s with cvs := s.cvs ++ [{ name := name, atom := nOfTok atom, flags := fl, raLen := nOfTok ral, raStride := iOfTok ras }], changed := true }, [])
  | "O.bias" :: name :: e :: nc :: w :: cvn =>
    some ({ s with biases := s.biases ++ [{ name := name, flags := { energy := e != "0", centers := nOfTok nc, work := w != "0" }, cvNames := cvn }], changed := true }, [])
  | ["O.delcv", name] => some ({ s with cvs := s.cvs.filter (·.name != name), changed := true }, [])
  | ["O.delbias", name] => some ({ s with biases := s.biases.filter (·.name != name), changed := true }, [])
  | ["O.file", path, owner] => some ({ s with files := (path, owner) :: s.files }, [])
  | ["t.dump", path] =>
    if !s.active then none else
    match s.files.lookup path with
    | some "traj" =>
      some (s, s.lines.map (fun l => out ln l.1 l.2) ++ [out ln "tn" (iTok s.lines.length)])
    | some owner =>
      match s.cvs.find? (·.name == owner) with
      | some v =>
        let hdr := out ln "tl" (" ".intercalate (["step", "running", "average", "running", "stddev"].map sTok))
        let body := v.raLines.flatMap fun (r : Int × Float × Float) =>
          [out ln "td" (iTok r.1 ++ " " ++ iTok 2), out ln "tv" (fsTok [r.2.1, r.2.2])]
        some (s, (if v.raLines.isEmpty then [] else [hdr]) ++ body ++ [out ln "tn" (iTok (if v.raLines.isEmpty then 0 else v.raLines.length + 1))])
      | none => none
    | none => none
  | _ => none

end Drv
