import CvDriver.Base
namespace Drv
open Cv

structure GridSt where
  mult : Int := 1
  nx : List Int := []
  lo : List Float := []
  w : List Float := []
  per : List Bool := []
  data : List Float := []
  counts : List Nat := []

/-- C15 ops on one current grid. -/
def c15 (g : GridSt) (ln : Nat) (t : List String) : Option (GridSt × List String) :=
  match t with
  | "g.new" :: mult :: nd :: r =>
    let nd := nOfTok nd
    let (nx, r) := takeI nd r; let (lo, r) := takeF nd r; let (w, r) := takeF nd r
    let (per, _) := takeI nd r
    let g : GridSt := { mult := iOfTok mult, nx := nx, lo := lo, w := w, per := per.map (· ≠ 0) }
    some (g, [out ln "nt" (iTok (ntOf g.mult g.nx)), out ln "nxc" (isTok (nxcOf g.mult g.nx))])
  | "g.bin" :: i :: x :: _ =>
    let i := nOfTok i
    some (g, [out ln "bin" (iTok (valueToBin (g.lo.getD i 0) (g.w.getD i 1) (fOfTok x)))])
  | "g.binb" :: i :: x :: _ =>
    let i := nOfTok i
    some (g, [out ln "binb" (iTok (valueToBinBound (g.lo.getD i 0) (g.w.getD i 1) (g.nx.getD i 1)
                (g.per.getD i false) (fOfTok x)))])
  | "g.val" :: i :: b :: _ =>
    let i := nOfTok i
    some (g, [out ln "val" (fTok (binToValue (g.lo.getD i 0) (g.w.getD i 1) (iOfTok b)))])
  | "g.addr" :: r =>
    let ix := r.map iOfTok
    some (g, [out ln "ok" (bTok (indexOk g.nx ix)),
              out ln "addr" (if indexOk g.nx ix then iTok (address g.mult g.nx ix) else "sna")])
  | "g.incr" :: r =>
    let ix := r.map iOfTok
    some (g, [out ln "ix" (isTok (incr g.nx ix))])
  | "g.wrap" :: r =>
    let ix := r.map iOfTok
    some (g, [out ln "ix" (isTok (wrapIdx g.nx g.per ix))])
  | "g.enum" :: _ =>
    let all := enumerate g.nx ((ntOf 1 g.nx).toNat + 2) (g.nx.map (fun _ => 0))
    some (g, [out ln "count" (iTok all.length),
              out ln "addrs" (isTok (all.map (address g.mult g.nx)))])
  | "g.fill" :: r => some ({ g with data := r.map fOfTok }, [])
  | ["g.rt", kind] =>
    let file : Cv.GridIO.GridFile Float := { nx := g.nx, lo := g.lo, w := g.w, per := g.per, mult := g.mult.toNat, data := g.data }
    let back : Option (Cv.GridIO.GridFile Float) :=
      match kind with
      | "multicol" => Cv.GridIO.decodeMulticol file.mult (Cv.GridIO.encodeMulticol file)
      | "raw" => Cv.GridIO.decodeRaw { file with data := [] } (Cv.GridIO.encodeRaw file)
      | "rawbin" => Cv.GridIO.decodeRaw { file with data := [] } (Cv.GridIO.encodeRaw file)
      | _ => Cv.GridIO.decodeRestart (file.per.map fun _ => false) file.mult (Cv.GridIO.encodeRestart file)
    match back with
    | none => some (g, [out ln "ok" (bTok false)])
    | some b => some (g, [out ln "ok" (bTok true), out ln "nx" (isTok b.nx), out ln "lo" (fsTok b.lo), out ln "w" (fsTok b.w),
                          out ln "per" (isTok (b.per.map fun x => if x then 1 else 0)), out ln "data" (fsTok b.data)])
  -- g.rtx <kind> P cvw w loW hiW loR hiR : a grid on a periodic variable over [loW, hiW) written in restart form and read by a
  -- grid of the same variable set up over [loR, hiR)
  | ["g.rtx", _kind, pP, cvw, w, loW, hiW, _loR, _hiR] =>
    let P := fOfTok pP; let cvw := fOfTok cvw; let w := fOfTok w; let loW := fOfTok loW; let hiW := fOfTok hiW
    let n := nbinsRound loW hiW w
    let data : List Float := (List.range n.toNat).map fun i => Float.ofNat (i + 1)
    let wfile : Cv.GridIO.GridFile Float :=
      { nx := [n], lo := [loW], w := [w], per := [Cv.GridIO.periodicFlag (some P) cvw loW hiW], mult := 1, data := data }
    match Cv.GridIO.decodeRestartOn [some P] [cvw] 1 (Cv.GridIO.encodeRestart wfile) with
    | none => some (g, [out ln "ok" (bTok false)])
    | some b => some (g, [out ln "ok" (bTok true), out ln "nx" (isTok b.nx), out ln "lo" (fsTok b.lo), out ln "w" (fsTok b.w),
                          out ln "perw" (isTok (wfile.per.map fun x => if x then 1 else 0)),
                          out ln "per" (isTok (b.per.map fun x => if x then 1 else 0)), out ln "data" (fsTok b.data)])
  | "g.counts" :: r => some ({ g with counts := r.map nOfTok }, [])
  | "g.rtgrad" :: kind :: opt =>
    let withCount := !(opt.contains "nocount")
    let file : Cv.GridIO.GridFile Float := { nx := g.nx, lo := g.lo, w := g.w, per := g.per, mult := g.mult.toNat, data := g.data }
    let cnt : Option (List Nat) := if withCount then some g.counts else none
    let back : Option (List Float × List Nat) :=
      match kind with
      | "multicol" => Cv.GridIO.gradMulticolRoundTrip file cnt false
      | "multicoladd" => Cv.GridIO.gradMulticolRoundTrip file cnt true
      | "raw" | "rawbin" => Cv.GridIO.gradRawRoundTrip file cnt false
      | _ => Cv.GridIO.gradRawRoundTrip file cnt true
    match back with
    | none => some (g, [out ln "ok" (bTok false)])
    | some (d, c) => some (g, [out ln "ok" (bTok true), out ln "nx" (isTok g.nx), out ln "data" (fsTok d),
                               out ln "cnt" (isTok (c.map fun (n : Nat) => (n : Int)))])
  | "g.sizes" :: lo :: hi :: w :: _ =>
    let lo := fOfTok lo; let hi := fOfTok hi; let w := fOfTok w
    some (g, [out ln "nx" (iTok (nbinsRound lo hi w)), out ln "hi" (fTok (adjustedUpper lo hi w))])
  | _ => none

end Drv
