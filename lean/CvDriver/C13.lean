import CvDriver.Base
namespace Drv
open Cv Cv.Deps

/-- parse `n` objects from a flat list of integers (format of the harness's `d.dump`) -/
partial def parseObjs : Nat → List Int → List Obj
  | 0, _ => []
  | n + 1, l =>
    match l with
    | cls :: nch :: r =>
      let nch := nch.toNat
      let ch := (r.take nch).map Int.toNat; let r := r.drop nch
      match r with
      | nf :: r =>
        let rec feats : Nat → List Int → List FState × List Int
          | 0, r => ([], r)
          | k + 1, r =>
            match r with
            | av :: en :: rc :: na :: r =>
              let alts := (r.take na.toNat).map Int.toNat
              let (fs, rest) := feats k (r.drop na.toNat)
              ({ available := av != 0, enabled := en != 0, refCount := rc, altRefs := alts } :: fs, rest)
            | _ => ([], [])
        let (fs, rest) := feats nf.toNat r
        { cls := cls.toNat, children := ch, feats := fs } :: parseObjs n rest
      | _ => []
    | _ => []

def showObj (o : Obj) : String :=
  let feats := o.feats.flatMap fun s =>
    [iTok (if s.available then 1 else 0), iTok (if s.enabled then 1 else 0), iTok s.refCount, iTok s.altRefs.length] ++ s.altRefs.map (fun (a : Nat) => iTok (a : Int))
  " ".intercalate ([iTok o.cls, iTok o.children.length] ++ o.children.map (fun (c : Nat) => iTok (c : Int)) ++ [iTok o.feats.length] ++ feats)

def c13 (ln : Nat) (t : List String) : Option (List String) :=
  match t with
  | "dm.apply" :: op :: o :: f :: nobj :: r =>
    let F := parseObjs (nOfTok nobj) (r.map iOfTok)
    let (F', ok) := if op == "enable" then enable bigFuel F (nOfTok o) (nOfTok f) false true false
                    else disable bigFuel F (nOfTok o) (nOfTok f)
    some ([out ln "rc" (iTok (if ok then 0 else 1)), out ln "nobj" (iTok F'.length)] ++ F'.map (fun ob => out ln "obj" (showObj ob))
          ++ [out ln "consistent" (bTok (consistent F'))])
  | "dm.check" :: nobj :: r =>
    let F := parseObjs (nOfTok nobj) (r.map iOfTok)
    some [out ln "consistent" (bTok (consistent F))]
  | _ => none

end Drv
