import CvDriver.Base
import CvModel.Acf
namespace Drv
open Cv Cv.Acf

structure AcfDecl where
  name : String
  withName : String
  p : Params
  a : Nat
  b : Nat

structure AcfSt where
  pos : List (Nat × (Float × Float × Float)) := []
  dt : Float := 1.0
  restartFreq : Int := 0
  it : Int := 0
  first : Bool := true
  decls : List AcfDecl := []
  xold : List (String × List Float) := []
  st : List (String × State Float) := []
  snap : List (String × (List (Nat × Float) × Nat)) := []       -- rows and announced samples as last written
  files : List (String × String) := []

def AcfSt.value (s : AcfSt) (d : AcfDecl) : List Float :=
  let P := fun a => (s.pos.lookup a).getD (0.0, 0.0, 0.0)
  match d.p.vtype with
  | .scalar => [(P d.a).2.2]
  | .vec3 => let pa := P d.a; let pb := P d.b; [pb.1 - pa.1, pb.2.1 - pa.2.1, pb.2.2 - pa.2.2]
  | .unit =>
    let pa := P d.a; let pb := P d.b
    let v := [pb.1 - pa.1, pb.2.1 - pa.2.1, pb.2.2 - pa.2.2]
    let n := Acf.norm v
    v.map fun x => x / n

/-- shown every line -/
def acfObserve (s : AcfSt) (t : List String) : AcfSt :=
  match t with
  | "m.new" :: _ => {}
  | ["m.pos", a, x, y, z] => { s with pos := (nOfTok a, (fOfTok x, fOfTok y, fOfTok z)) :: s.pos.filter (·.1 != nOfTok a) }
  | ["m.opt", "dt", v] => { s with dt := fOfTok v }
  | ["m.opt", "restartfreq", k] => { s with restartFreq := iOfTok k }
  | ["m.opt", "it", n] => { s with it := iOfTok n }
  -- A.acf <name> <with> <kind> <vtype> <length> <stride> <offset> <normalize> <atom a> <atom b>
  | ["A.acf", name, w, kind, vt, l, st, o, nz, a, b] =>
    let k : Kind := if kind == "vel" then .vel else if kind == "p2" then .p2 else .coor
    let v : VType := if vt == "v" then .vec3 else if vt == "u" then .unit else .scalar
    { s with decls := s.decls ++ [{ name := name, withName := w, a := nOfTok a, b := nOfTok b,
                                    p := { kind := k, vtype := v, length := nOfTok l, stride := nOfTok st, offset := nOfTok o, normalize := nz != "0" } }] }
  | ["A.file", path, name] => { s with files := (path, name) :: s.files }
  | ["m.step"] =>
    if s.decls.isEmpty then s else
    let it := if s.first then s.it else s.it + 1
    let s := { s with it := it }
    -- values and finite-difference velocities of every declared variable
    let vals := s.decls.map fun d => (d.name, s.value d)
    let vels := s.decls.map fun d =>
      let x := s.value d
      (d.name, if s.first then x.map (fun _ => 0.0) else
        match s.xold.lookup d.name with
        | some xo => List.zipWith (fun a b => (a - b) / s.dt) x xo
        | none => x.map (fun _ => 0.0))
    let st := s.decls.map fun d =>
      let cur := (s.st.lookup d.name).getD {}
      let src := if d.p.kind == Kind.vel then vels else vals
      let own := (src.lookup d.name).getD []
      let other := (src.lookup d.withName).getD []
      (d.name, step d.p cur own other)
    let s := { s with st := st, xold := vals }
    let s := if !s.first && decide (s.restartFreq > (0 : Int)) && Int.tmod s.it s.restartFreq == (0 : Int) then
        { s with snap := s.decls.map fun d =>
            let c := (s.st.lookup d.name).getD {}
            (d.name, (rows d.p c, samplesShown d.p c)) }
      else s
    { s with first := false }
  | _ => s

def c19b (s : AcfSt) (ln : Nat) (t : List String) : Option (List String) :=
  match t with
  | ["t.dump", path] =>
    match s.files.lookup path with
    | none => none
    | some name =>
      match s.decls.find? (·.name == name), s.snap.lookup name with
      | some d, some (rws, shown) =>
        if rws.isEmpty then some [out ln "tn" (iTok 0)] else
        let kindW := match d.p.kind with
          | .vel => ["Velocity"]
          | .coor => ["Coordinate"]
          | .p2 => ["Coordinate", "(2nd", "Legendre", "poly)"]
        let l1 := if d.withName == d.name then kindW ++ ["autocorrelation", "function", "for", "variable", "\"" ++ d.name ++ "\""]
                  else kindW ++ ["correlation", "function", "between", "variables", "\"" ++ d.name ++ "\"", "and", "\"" ++ d.withName ++ "\""]
        let l2 := ["Number", "of", "samples", "=", toString shown] ++
                  (if d.p.normalize then ["(one", "DoF", "is", "used", "for", "normalization)"] else [])
        let l3 := ["step", "corrfunc(step)"]
        let hdr := [l1, l2, l3].map fun l => out ln "tl" (" ".intercalate (l.map sTok))
        let body := rws.flatMap fun (r : Nat × Float) => [out ln "td" (iTok (r.1 : Int) ++ " " ++ iTok 1), out ln "tv" (fsTok [r.2])]
        some (hdr ++ body ++ [out ln "tn" (iTok ((3 + rws.length : Nat) : Int))])
      | _, _ => some [out ln "tn" (iTok 0)]
  | _ => none

end Drv
