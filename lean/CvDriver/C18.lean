import CvDriver.Base
namespace Drv
open Cv

/-- C18 ops.  `ty` ∈ s (scalar), p (periodic scalar), v3, vec, u (unit vector), q (quaternion). -/
def c18 (ln : Nat) (t : List String) : Option (List String) :=
  match t with
  | "v.dist2" :: "s" :: a :: b :: _ =>
    let x1 := fOfTok a; let x2 := fOfTok b
    some [out ln "d2" (fTok (dist2S none x1 x2)), out ln "g" (fTok (dist2SGrad none x1 x2))]
  | "v.dist2" :: "p" :: p :: _c :: a :: b :: _ =>
    let x1 := fOfTok a; let x2 := fOfTok b; let per := fOfTok p
    some [out ln "d2" (fTok (dist2S (some per) x1 x2)), out ln "g" (fTok (dist2SGrad (some per) x1 x2))]
  | "v.wrap" :: p :: c :: a :: _ =>
    some [out ln "w" (fTok (wrapS (fOfTok p) (fOfTok c) (fOfTok a)))]
  | "v.dist2" :: "v" :: n :: r =>
    let n := nOfTok n
    let (a, r) := takeF n r; let (b, _) := takeF n r
    some [out ln "d2" (fTok (dist2V a b)), out ln "g" (fsTok (dist2VGrad a b))]
  | "v.dist2" :: "u" :: r =>
    let (a, r) := takeF 3 r; let (b, _) := takeF 3 r
    some [out ln "d2" (fTok (dist2U a b)), out ln "g" (fsTok (dist2UGrad a b))]
  | "v.dist2" :: "q" :: r =>
    let (a, r) := takeF 4 r; let (b, _) := takeF 4 r
    some [out ln "d2" (fTok (dist2Q piC a b)), out ln "g" (fsTok (dist2QGrad piC a b))]
  | "v.interp" :: "s" :: a :: b :: l :: _ =>
    some [out ln "ip" (fTok (lerpS (fOfTok a) (fOfTok b) (fOfTok l)))]
  | "v.interp" :: "v" :: n :: r =>
    let n := nOfTok n
    let (a, r) := takeF n r; let (b, r) := takeF n r; let (l, _) := takeF 1 r
    some [out ln "ip" (fsTok (lerpV a b l.head!))]
  | "v.interp" :: "u" :: r =>
    let (a, r) := takeF 3 r; let (b, r) := takeF 3 r; let (l, _) := takeF 1 r
    match interpManifold (dist2U a b) a b l.head! with
    | some v => some [out ln "ip" (fsTok v)]
    | none => some [out ln "ip" "sundef"]
  | "v.interp" :: "q" :: r =>
    let (a, r) := takeF 4 r; let (b, r) := takeF 4 r; let (l, _) := takeF 1 r
    match interpQ piC a b l.head! with
    | some v => some [out ln "ip" (fsTok v)]
    | none => some [out ln "ip" "sundef"]
  | _ => none

end Drv
