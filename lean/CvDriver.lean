import CvDriver.Base
import CvDriver.C18
import CvDriver.C15
import CvDriver.C11
import CvDriver.Mod
import CvDriver.C20
import CvDriver.C13
import CvDriver.C19
