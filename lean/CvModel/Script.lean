import CvModel.Gen.Commands
/-
  C20 — dispatch of the scripting interface: `colvarscript::run` (colvarscript.cpp 347–449) followed by the
  argument-count check every command function starts with (`check_cmd_nargs`, colvarscript.h 379–398).
  The command table is regenerated from the source on every run (CvModel/Gen/Commands.lean).
-/
namespace Cv.Script

inductive ObjKind where
  | module | colvar | bias
deriving Repr, DecidableEq

inductive Outcome where
  | noCommand                       -- fewer than two words
  | missingParams                   -- "cv colvar" / "cv bias" without name and subcommand
  | notFound                        -- no such variable / bias (and not asking for help)
  | syntaxError                     -- no such command
  | tooFew | tooMany                -- rejected by the argument-count check before the body runs
  | run (fn : String) (k : ObjKind) (nargs : Nat)   -- the body of `fn` runs with `nargs` arguments
deriving Repr, DecidableEq

def isError : Outcome → Bool
  | .run _ _ _ => false
  | _ => true

abbrev Table := List (String × Nat × Nat)

def lookupCmd (t : Table) (fn : String) : Option (Nat × Nat) := (t.find? (·.1 == fn)).map (·.2)

/-- positional words before the arguments: "cv CMD" or "cv colvar NAME CMD" -/
def shift : ObjKind → Nat
  | .module => 2
  | _ => 4

def checked (t : Table) (fn : String) (k : ObjKind) (objc : Nat) : Outcome :=
  match lookupCmd t fn with
  | none => .syntaxError
  | some (mn, mx) =>
    if objc < shift k + mn then .tooFew
    else if objc > shift k + mx then .tooMany
    else .run fn k (objc - shift k)

/-- `args` are all words including the leading "cv"; `cvs`/`biases` the names of the objects defined -/
def dispatch (t : Table) (cvs biases : List String) (args : List String) : Outcome :=
  let objc := args.length
  if objc < 2 then .noCommand else
  let cmd := args.getD 1 ""
  if cmd == "colvar" then
    if objc < 4 then .missingParams else
    let name := args.getD 2 ""; let sub := args.getD 3 ""
    if !cvs.contains name && sub != "help" then .notFound
    else checked t ("colvar_" ++ sub) .colvar objc
  else if cmd == "bias" then
    if objc < 4 then .missingParams else
    let name := args.getD 2 ""; let sub := args.getD 3 ""
    if !biases.contains name && (sub == "" || sub != "help") then .notFound
    else checked t ("bias_" ++ sub) .bias objc
  else checked t ("cv_" ++ cmd) .module objc

end Cv.Script
