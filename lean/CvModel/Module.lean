import CvModel.Value
import CvModel.Abf
import CvModel.Restraint
import CvModel.Meta
/-
  The per-step machine of the module for value-injected scalar variables
  (`colvarmodule::calc`: `calc_colvars`, `calc_biases`, `update_colvar_forces`, `end_of_step`;
  `colvar::collect_cvc_total_forces`, `calc_colvar_properties`, `update_forces_energy`, `end_of_step`).
  A variable is `distanceZ` of one atom against a dummy atom along z: its value is the atom's z
  coordinate (wrapped if periodic), its gradient is the unit vector z, its total force is the z
  component of the atom's total force, its Jacobian term is zero.
-/
namespace Cv
variable {α : Type} [Sc α]

structure CvSt (α : Type) where
  atom : Nat
  per : Option α := none
  wrapC : α
  width : α
  subtract : Bool := false      -- `subtractAppliedForce`
  tfCalc : Bool := false        -- some bias requested the total force (`f_cv_total_force_calc`)
  x : α
  ft : α                        -- total force as reported to biases
  fOld : α                      -- applied force of the previous step (kept only with `subtract`)
  f : α                         -- applied force of this step

inductive Bias (α : Type) where
  | hist (cvs : List Nat) (g : GridDef α) (stepZero : Bool) (data : List α)
  | abf (cvs : List Nat) (p : AbfParams α) (s : AbfState α)
  | harm (cvs : List Nat) (k : α) (centers : List α)
  | restr (cvs : List Nat) (p : RParams α) (s : RState α)
  | mtd (cvs : List Nat) (p : MetaParams α) (s : MetaState α)

/-- `f_cvb_apply_force`: only a bias that applies forces adds its energy to the energy the engine is told
    (`colvarmodule::calc_biases`); `applyBias off` exists for ABF (and OPES, not modelled) -/
def Bias.applies : Bias α → Bool
  | .abf _ p _ => p.applyBias
  | _ => true

structure Sys (α : Type) where
  clock : Clock := {}
  tfSame : Bool := false          -- `total_forces_same_step()`
  tfLoop : Bool := false          -- the engine's total force includes Colvars' own force of the step it refers to
  cvs : List (CvSt α) := []
  biases : List (String × Bias α) := []
  tsf : List (String × Int) := []      -- `timeStepFactor` of each bias (absent = 1)
  lastApplied : List (Nat × α) := []   -- atom ↦ z-force applied by Colvars at the previous step

structure StepIn (α : Type) where
  z : Nat → α          -- z coordinate of each atom
  tfz : Nat → α        -- z component of the engine's total force on each atom (without Colvars' part)
  cont : Bool          -- repeated step 0 of a new run

def lookupF (l : List (Nat × α)) (a : Nat) : α := (l.lookup a).getD 0.0

/-- value and total force of one variable at this step -/
def cvUpdate (m : Sys α) (c : Clock) (i : StepIn α) (v : CvSt α) : CvSt α :=
  let x := match v.per with
    | none => i.z v.atom
    | some p => wrapS p v.wrapC (i.z v.atom)
  let tfEff := if m.tfLoop && !m.tfSame then i.tfz v.atom + lookupF m.lastApplied v.atom else i.tfz v.atom
  let ft := if !v.tfCalc then v.ft else if m.tfSame then tfEff else if c.stepRelative > 0 then tfEff else v.ft
  let ft := if v.subtract && !m.tfSame && ft * ft > 0.0 then ft - v.fOld else ft
  { v with x := x, ft := ft }

def getCvs (cvs : List (CvSt α)) (idx : List Nat) : List (CvSt α) := idx.filterMap (cvs[·]?)

/-- harmonic restraint on scalar (possibly periodic) variables: `½ k/w² · dist2`, force `-½ k/w² · dist2_lgrad` -/
def harmEnergy (vs : List (CvSt α)) (k : α) (centers : List α) : α :=
  sumL (List.zipWith (fun v c => 0.5 * k / (v.width * v.width) * dist2S v.per v.x c) vs centers)

def harmForces (vs : List (CvSt α)) (k : α) (centers : List α) : List α :=
  List.zipWith (fun v c => -0.5 * k / (v.width * v.width) * dist2SGrad v.per v.x c) vs centers

/-- one bias update: new bias, its energy, its force on each of its variables -/
def biasUpdate (m : Sys α) (c : Clock) (cvs : List (CvSt α)) : Bias α → Bias α × α × List (Nat × α)
  | .hist idx g sz data =>
    let xs := (getCvs cvs idx).map (·.x)
    (.hist idx g sz (histStepScalar g data (canAccumulate c sz) xs), 0.0, [])
  | .abf idx p s =>
    let vs := getCvs cvs idx
    let inp : AbfIn α := { xs := vs.map (·.x), ft := vs.map (·.ft),
                           elig := canAccumulate c p.stepZeroData,
                           timingOk := decide (c.stepRelative > 0) || m.tfSame }
    let (s', f) := abfStep p s inp
    let e := if vs.length = 1 then abfEnergy1D p s' ((vs.map (·.x)).getD 0 0.0) else 0.0
    (.abf idx p s', e, idx.zip f)
  | .harm idx k centers =>
    let vs := getCvs cvs idx
    (.harm idx k centers, harmEnergy vs k centers, idx.zip (harmForces vs k centers))
  | .restr idx p s =>
    let xs := (getCvs cvs idx).map (·.x)
    let (s', o) := restraintStep p c s xs
    (.restr idx p s', o.energy, idx.zip o.forces)
  | .mtd idx p s =>
    let xs := (getCvs cvs idx).map (·.x)
    let (s', e, f) := metaStep p c s xs
    (.mtd idx p s', e, idx.zip f)

def tsfOf (m : Sys α) (name : String) : Int := (m.tsf.lookup name).getD 1

/-- `step_absolute() % time_step_factor == 0` (always awake for factor 1) -/
def awake (c : Clock) (n : Int) : Bool := decide (n ≤ 1) || decide (Int.tmod c.it n = 0)

structure StepOut (α : Type) where
  energy : α
  atomF : List (Nat × α)     -- z-force on each atom that carries a variable

def addAssoc (l : List (Nat × α)) (k : Nat) (v : α) : List (Nat × α) :=
  match l with
  | [] => [(k, v)]
  | (k', v') :: r => if k' = k then (k', v' + v) :: r else (k', v') :: addAssoc r k v

/-- one call of `colvarmodule::calc()` -/
def modStep (m : Sys α) (i : StepIn α) : Sys α × StepOut α :=
  let c := m.clock.tick i.cont
  let cvs := m.cvs.map (cvUpdate m c i)
  -- biases in order; energies and forces summed
  -- a bias with time-step factor n is awake on steps that are multiples of n; asleep it is not updated and
  -- contributes neither energy nor force; awake it applies n times its instantaneous force
  let upd := m.biases.map fun (nb : String × Bias α) =>
    let n := tsfOf m nb.1
    if awake c n then
      let r := biasUpdate m c cvs nb.2
      (nb.1, (r.1, r.2.1, r.2.2.map fun (kv : Nat × α) => (kv.1, (n : α) * kv.2)))
    else (nb.1, (nb.2, 0.0, []))
  let biases := upd.map fun x => (x.1, x.2.1)
  let energy := sumL (upd.map fun x => if x.2.1.applies then x.2.2.1 else 0.0)
  let fb : List (Nat × α) := upd.foldl (fun acc x => x.2.2.2.foldl (fun a (kv : Nat × α) => addAssoc a kv.1 kv.2) acc) []
  let cvs := (List.range cvs.length).zip cvs |>.map fun (iv : Nat × CvSt α) =>
    let f := lookupF fb iv.1
    { iv.2 with f := f }
  let atomF : List (Nat × α) := cvs.foldl (fun acc v => addAssoc acc v.atom v.f) []
  -- end of step
  let cvs := cvs.map fun v => if v.subtract then { v with fOld := v.f } else v
  ({ m with clock := c, cvs := cvs, biases := biases, lastApplied := atomF }, { energy := energy, atomF := atomF })

end Cv

/-! ### saving and loading (what the state file carries for each object) -/
namespace Cv
variable {α : Type} [Sc α]

/-- state of a freshly configured bias overwritten by what a saved state of the same bias carries
    (`get_state_params`/`write_state_data` of each bias type) -/
def loadBias (fresh saved : Bias α) : Bias α :=
  match fresh, saved with
  | .hist idx g sz _, .hist _ _ _ data => .hist idx g sz data
  | .abf idx p s0, .abf _ _ s => .abf idx p { s0 with samples := s.samples, grad := s.grad }
  | .harm idx k c, _ => .harm idx k c
  | .restr idx p s0, .restr _ ps s =>
    -- firstStep is a state parameter; centres, force constant, stage and work only when they can change
    let p' := if p.targetCenters.isSome || p.chgK then { p with firstStep := ps.firstStep } else p
    .restr idx p' { s0 with
      centers := if p.targetCenters.isSome then s.centers else s0.centers,
      k := if p.chgK then s.k else s0.k,
      stage := if (p.targetCenters.isSome || p.chgK) && p.nstages ≠ 0 then s.stage else s0.stage,
      accWork := if p.outputWork then s.accWork else s0.accWork,
      restraintFE := if p.chgK && p.nstages ≠ 0 then s.restraintFE else s0.restraintFE }
  | .mtd idx p _, .mtd _ _ s => .mtd idx p (metaLoaded p s)
  | f, _ => f

/-- writing a state has a side effect on running metadynamics biases: pending hills are projected onto the grids -/
def sysFlush (m : Sys α) : Sys α :=
  { m with biases := m.biases.map fun (nb : String × Bias α) =>
      match nb.2 with
      | .mtd idx p s => (nb.1, .mtd idx p (metaFlush p s))
      | b => (nb.1, b) }

/-- a fresh instance configured like `fresh` resumes from `saved`: step counter and per-bias data -/
def sysLoad (fresh saved : Sys α) : Sys α :=
  { fresh with
    clock := { it := saved.clock.it, itRestart := saved.clock.it, first := true, cont := false },
    biases := fresh.biases.map fun (nb : String × Bias α) =>
      match saved.biases.find? (·.1 == nb.1) with
      | some sb => (nb.1, loadBias nb.2 sb.2)
      | none => nb }

end Cv
