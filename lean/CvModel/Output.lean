import CvModel.Value
import CvModel.Engine
/-
  C19 — what is written: columns of the trajectory file (`colvar::write_traj_label` / `write_traj`, colvar.cpp
  2606–2706; `colvarbias::write_traj_label` / `write_traj`), when lines are written
  (`colvarmodule::write_traj_files`, colvarmodule.cpp 1210–1252), and the running average / deviation
  (`colvar::calc_runave`, colvar.cpp 2995–3073).
-/
namespace Cv
variable {α : Type} [Sc α]

/-! ### columns -/

structure CvFlags where
  value : Bool := true          -- outputValue
  velocity : Bool := false      -- outputVelocity
  energy : Bool := false        -- outputEnergy
  totalForce : Bool := false    -- outputTotalForce
  appliedForce : Bool := false  -- outputAppliedForce
  extended : Bool := false      -- extended Lagrangian (and not an external parameter)
deriving Repr, DecidableEq

/-- what a column holds -/
inductive Col where
  | x | xExt | v | vExt | ep | ek | ft | fa
  | biasE | biasCenter (i : Nat) | biasWork
deriving Repr, DecidableEq

/-- the labels announced for one variable (prefix of the label, column kind), in order -/
def cvLabels (f : CvFlags) : List (String × Col) :=
  (if f.value then [("", Col.x)] ++ (if f.extended then [("r_", Col.xExt)] else []) else []) ++
  (if f.velocity then [("v_", Col.v)] ++ (if f.extended then [("vr_", Col.vExt)] else []) else []) ++
  (if f.energy then [("Ep_", Col.ep), ("Ek_", Col.ek)] else []) ++
  (if f.totalForce then [("ft_", Col.ft)] else []) ++
  (if f.appliedForce then [("fa_", Col.fa)] else [])

/-- the fields written for one variable, in order -/
def cvFields (f : CvFlags) : List Col :=
  (if f.value then (if f.extended then [Col.x] else []) ++ [if f.extended then Col.xExt else Col.x] else []) ++
  (if f.velocity then (if f.extended then [Col.v] else []) ++ [if f.extended then Col.vExt else Col.v] else []) ++
  (if f.energy then [Col.ep, Col.ek] else []) ++
  (if f.totalForce then [Col.ft] else []) ++
  (if f.appliedForce then [Col.fa] else [])

structure BiasFlags where
  energy : Bool := false        -- outputEnergy
  centers : Nat := 0            -- number of restraint centres written (outputCenters / moving centres), 0 = none
  work : Bool := false          -- outputAccumulatedWork with a moving restraint
deriving Repr, DecidableEq

def biasLabels (f : BiasFlags) : List (String × Col) :=
  (if f.energy then [("E_", Col.biasE)] else []) ++
  ((List.range f.centers).map fun i => ("x0_", Col.biasCenter i)) ++
  (if f.work then [("W_", Col.biasWork)] else [])

def biasFields (f : BiasFlags) : List Col :=
  (if f.energy then [Col.biasE] else []) ++ ((List.range f.centers).map Col.biasCenter) ++ (if f.work then [Col.biasWork] else [])

/-! ### line schedule -/

inductive TrajLine where
  | label
  | data (step : Int)
deriving Repr, DecidableEq

/-- what one call of `write_traj_files` appends, and the new value of the "write labels" flag -/
def trajStep (freq : Int) (c : Clock) (flag : Bool) : List TrajLine × Bool :=
  let lab := decide (c.stepRelative = 0) || flag || decide (Int.tmod c.it (freq * 1000) = 0)
  let dat := decide (Int.tmod c.it freq = 0)
  ((if lab then [TrajLine.label] else []) ++ (if dat then [TrajLine.data c.it] else []), if lab then false else flag)

/-- a run: each step comes with its clock and whether the set of columns changed before it (configuration added) -/
def trajRun (freq : Int) : Bool → List (Clock × Bool) → List TrajLine
  | _, [] => []
  | flag, (c, changed) :: rest =>
    let r := trajStep freq c (flag || changed)
    r.1 ++ trajRun freq r.2 rest

/-! ### running average -/

structure RunAve (α : Type) where
  started : Bool := false
  hist : List α := []           -- most recent first; at most `length - 1` values

/-- one call of `calc_runave` on an eligible step; returns the new state and, when a line is written,
    (running average, running standard deviation) -/
def runAveStep (length : Nat) (per : Option α) (s : RunAve α) (x : α) : RunAve α × Option (α × α) :=
  if !s.started then ({ started := true, hist := [] }, none) else
  let out := if s.hist.length + 1 ≥ length then
      let mean := (s.hist.foldl (· + ·) x) * (1.0 / (length : α))
      let var := (s.hist.foldl (fun a xi => a + dist2S per xi mean) (0.0 + dist2S per x mean)) * (1.0 / ((length - 1 : Nat) : α))
      some (mean, Prim.sqrt var)
    else none
  ({ s with hist := (x :: s.hist).take (length - 1) }, out)

end Cv
