import CvModel.Scalar
/-
  C06 (remaining restraint types) — `colvarbias_abmd::update` (colvarbias_abmd.cpp) and
  `colvarbias_restraint_histogram::update` (colvarbias_restraint.cpp 1455–1545).

  ABMD ratchet on one scalar variable: a reference value follows the variable whenever it advances (in the chosen
  direction) and has not passed the stopping value; behind the reference the variable feels a harmonic spring.

  Histogram restraint: the variables' values are smeared into a histogram on a fixed grid with Gaussian kernels; the
  energy is half the force constant times the squared deviation from a reference histogram.
-/
namespace Cv.Ratchet
variable {α : Type} [Sc α]

structure AbmdParams (α : Type) where
  k : α
  stopping : α
  decreasing : Bool

/-- reference value (`none` before the first update) -/
abbrev AbmdState (α : Type) := Option α

/-- one `update()`: new reference, energy, force on the variable -/
def abmdStep (p : AbmdParams α) (s : AbmdState α) (x : α) : AbmdState α × α × α :=
  let r := match s with
    | none => x
    | some r => r
  let sign : α := if p.decreasing then -1.0 else 1.0
  let diff := (x - r) * sign
  if diff > 0.0 then
    (some (if (r - p.stopping) * sign ≤ 0.0 then x else r), 0.0, 0.0)
  else
    (some r, 0.5 * p.k * diff * diff, Neg.neg sign * p.k * diff)

def abmdRun (p : AbmdParams α) (s : AbmdState α) : List α → AbmdState α × List (α × α)
  | [] => (s, [])
  | x :: xs =>
    let r := abmdStep p s x
    let rest := abmdRun p r.1 xs
    (rest.1, r.2 :: rest.2)

/-! ### histogram restraint -/

structure HistRParams (α : Type) where
  lower : α
  width : α
  nbins : Nat
  sigma : α          -- `gaussian_width`
  k : α              -- `force_k`
  ref : List α       -- reference histogram, one entry per bin

def sqrt2pi : α := Prim.sqrt (2.0 * 3.14159265358979323846)

def gridPoint (p : HistRParams α) (i : Nat) : α := p.lower + ((i : α) + 0.5) * p.width

/-- contribution of one value to bin `i` -/
def kernel (p : HistRParams α) (n : Nat) (x : α) (i : Nat) : α :=
  (1.0 / (sqrt2pi * p.sigma * (n : α))) *
    Prim.exp (-1.0 * (gridPoint p i - x) * (gridPoint p i - x) / (2.0 * p.sigma * p.sigma))

/-- the histogram of the current values -/
def histogram (p : HistRParams α) (xs : List α) : List α :=
  (List.range p.nbins).map fun i => xs.foldl (fun s x => s + kernel p xs.length x i) 0.0

def histREnergy (p : HistRParams α) (xs : List α) : α :=
  let d := List.zipWith (· - ·) (histogram p xs) p.ref
  0.5 * (p.k * (xs.length : α)) * d.foldl (fun s v => s + v * v) 0.0

/-- force on the j-th value -/
def histRForce (p : HistRParams α) (xs : List α) (j : Nat) : α :=
  let d := List.zipWith (· - ·) (histogram p xs) p.ref
  let x := xs.getD j 0.0
  (List.range p.nbins).foldl (fun f i =>
    f + (p.k * (xs.length : α)) * d.getD i 0.0 * kernel p xs.length x i *
        (-1.0 * (gridPoint p i - x) / (p.sigma * p.sigma))) 0.0

end Cv.Ratchet
