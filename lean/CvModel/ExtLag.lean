import CvModel.Value
import CvModel.Engine
/-
  C17 — the extended-Lagrangian coordinate of a scalar variable:
  `colvar::calc_colvar_properties` (colvar.cpp 1756–1795: initialisation, reversion of a repeated step),
  `colvar::update_forces_energy` (1822–1865), `colvar::update_extended_Lagrangian` (1868–2005),
  `colvar::end_of_step` (2008–2023), `init_extended_Lagrangian` (693–775: k and m from fluctuation / time constant).
-/
namespace Cv
variable {α : Type} [Sc α]

structure ExtParams (α : Type) where
  k : α                      -- `ext_force_k`
  mass : α                   -- `ext_mass`
  dt : α                     -- engine time step
  tsf : Int := 1             -- `time_step_factor` of the variable
  gamma : α                  -- `ext_gamma` (already in 1/fs)
  sigma : α                  -- `ext_sigma`
  langevin : Bool := false
  per : Option α := none
  wrapC : α
  width : α
  reflLower : Option α := none
  reflUpper : Option α := none
  subtract : Bool := false   -- `subtractAppliedForce`

structure ExtState (α : Type) where
  set : Bool := false        -- `x_ext` has a value
  xExt : α
  vExt : α
  prevX : α
  prevV : α
  xOld : α                   -- value of the variable at the previous step (jump detection)
  prevTimestep : Int := -1
  afterRestart : Bool := false
  ek : α
  ep : α
  fr : α                     -- bias force on the extended coordinate (as reported)
  ftReported : α
  fAtoms : α                 -- force handed to the atoms at this step
  err : Bool := false        -- "still outside boundaries after reflection"

/-- `init_extended_Lagrangian`: force constant and mass from tolerance and time constant -/
def extForceK (kB temp tol : α) : α := kB * temp / (tol * tol)
def extMass (kB temp tol period pi : α) : α := (kB * temp * period * period) / (4.0 * pi * pi * tol * tol)
def extSigma (gamma dt kB temp mass : α) (tsf : Int) : α :=
  Prim.sqrt ((1.0 - Prim.exp (-2.0 * gamma * dt * (tsf : α))) * mass * kB * temp)

/-- `calc_colvar_properties`, extended-Lagrangian branch: what the variable reports at this step -/
def extPrepare (p : ExtParams α) (c : Clock) (running : Bool) (s : ExtState α) (x : α) : ExtState α :=
  let s1 := if (decide (c.stepRelative = 0) && !s.afterRestart) || !s.set || !running then
      let x0 := match p.reflLower with
        | some lb => if x < lb then lb else x
        | none => x
      let x1 := match p.reflUpper with
        | some ub => if x1gt x0 ub then ub else x0
        | none => x0
      { s with set := true, xExt := x1, vExt := 0.0 }
    else s
  let s2 := if running && decide (c.stepRelative = s1.prevTimestep) then
      let jump2 := dist2S p.per x s1.xOld / (p.width * p.width)
      if jump2 > 0.25 then { s1 with xExt := x } else { s1 with xExt := s1.prevX, vExt := s1.prevV }
    else s1
  { s2 with afterRestart := false }
where x1gt (a b : α) : Bool := decide (a > b)

/-- `update_forces_energy` + `update_extended_Lagrangian`: `fb` is the summed bias force on the extended coordinate,
    `fbActual` the force of biases that bypass it, `rnd` the Gaussian number drawn when Langevin is on -/
def extIntegrate (p : ExtParams α) (s : ExtState α) (x fb fbActual rnd : α) : ExtState α :=
  let n : α := (p.tsf : α)
  let dt := p.dt * n
  let fExt0 := fb / n
  let fSystem := (-0.5 * p.k) * dist2SGrad p.per s.xExt x
  let fAt := (-1.0 * fSystem) * n
  let fExt := fExt0 + fSystem
  let ftRep := if p.subtract then fSystem else fExt
  let v1 := s.vExt + 0.5 * dt * fExt / p.mass
  let ek := 0.5 * p.mass * v1 * v1
  let ep := 0.5 * p.k * dist2S p.per s.xExt x
  let v2 := v1 + 0.5 * dt * fExt / p.mass
  let x1 := s.xExt + dt * v2 / 2.0
  let v3 := if p.langevin then Prim.exp (-1.0 * dt * p.gamma) * v2 + p.sigma * rnd / p.mass else v2
  let x2 := x1 + dt * v3 / 2.0
  -- reflecting boundaries
  let dl : Option α := p.reflLower.bind fun lb => if x2 - lb < 0.0 then some (x2 - lb) else none
  let du : Option α := p.reflUpper.bind fun ub => if x2 - ub > 0.0 then some (x2 - ub) else none
  let delta : Option α := match dl with | some d => some d | none => du
  let (x3, v4, err) := match delta with
    | none => (x2, v3, false)
    | some d =>
      let xr := x2 - 2.0 * d
      let vr := -0.5 * (s.vExt + v3)
      let bad := (match p.reflLower with | some lb => decide (xr - lb < 0.0) | none => false) ||
                 (match p.reflUpper with | some ub => decide (xr - ub > 0.0) | none => false)
      (xr, vr, bad)
  let x4 := match p.per with
    | none => x3
    | some P => wrapS P p.wrapC x3
  { s with prevX := s.xExt, prevV := s.vExt, xExt := x4, vExt := v4, ek := ek, ep := ep, fr := fExt0,
           ftReported := ftRep, fAtoms := fAt + fbActual, err := s.err || err }

/-- `end_of_step` -/
def extEnd (c : Clock) (s : ExtState α) (x : α) : ExtState α := { s with xOld := x, prevTimestep := c.stepRelative }

/-- one whole step for the variable: returns the new state; the value reported to biases at this step is
    `(extPrepare ...).xExt` -/
def extStep (p : ExtParams α) (c : Clock) (s : ExtState α) (x : α) (fbOf : α → α) (fbActual rnd : α) : ExtState α :=
  let s1 := extPrepare p c true s x
  let s2 := extIntegrate p s1 x (fbOf s1.xExt) fbActual rnd
  extEnd c s2 x

end Cv
