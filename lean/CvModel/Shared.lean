import CvModel.Scalar
/-
  C14 — multiple-walker sharing.

  Shared ABF (`colvarbias_abf::replica_share`, colvarbias_abf.cpp 549–670; state reading 1036–1042):
  every walker keeps the grids it uses (`samples`, `gradients`), the snapshot taken at the previous exchange
  (`last_*`) and its own accumulation (`local_*`).  At an exchange each walker forms delta = current − last, adds it to
  its local grids; walker 0 adds the deltas of the others (in rank order) to its own current grids and sends the result
  to everyone; all walkers then use it and remember it as `last`.

  Multiple-walker metadynamics (`colvarbias_meta::read_replica_files`, `read_hill`): every walker appends its hills to
  its own file; a walker mirrors each peer by reading that peer's file from a cursor, complete records only.
-/
namespace Cv.Shared
variable {α : Type} [Sc α]

def vaddI (a b : List Int) : List Int := List.zipWith (· + ·) a b
def vsubI (a b : List Int) : List Int := List.zipWith (· - ·) a b
def vadd (a b : List α) : List α := List.zipWith (· + ·) a b
def vsub (a b : List α) : List α := List.zipWith (· - ·) a b

structure Walker (α : Type) where
  samples : List Int
  grad : List α
  lastS : List Int
  lastG : List α
  locS : List Int
  locG : List α

def Walker.init (nbins : Nat) : Walker α :=
  { samples := List.replicate nbins 0, grad := List.replicate nbins 0.0, lastS := List.replicate nbins 0,
    lastG := List.replicate nbins 0.0, locS := List.replicate nbins 0, locG := List.replicate nbins 0.0 }

/-- `acc_force` on a 1-D grid: count the sample, subtract the force -/
def Walker.sample (w : Walker α) (bin : Nat) (f : α) : Walker α :=
  { w with samples := w.samples.modify bin (· + 1), grad := w.grad.modify bin (· - f) }

def Walker.deltaS (w : Walker α) : List Int := vsubI w.samples w.lastS
def Walker.deltaG (w : Walker α) : List α := vsub w.grad w.lastG

/-- one exchange among all walkers (rank = position in the list) -/
def exchange (ws : List (Walker α)) : List (Walker α) :=
  match ws with
  | [] => []
  | w0 :: rest =>
    -- walker 0's current grids plus the deltas of the others, in rank order
    let totS := rest.foldl (fun t w => vaddI t w.deltaS) w0.samples
    let totG := rest.foldl (fun t w => vadd t w.deltaG) w0.grad
    ws.map fun w =>
      { samples := totS, grad := totG, lastS := totS, lastG := totG,
        locS := vaddI w.locS w.deltaS, locG := vadd w.locG w.deltaG }

/-- a walker stopped and resumed from its state: the grids in use and the local grids are in the state, the snapshot
    is re-created from the grids in use -/
def Walker.restart (w : Walker α) : Walker α := { w with lastS := w.samples, lastG := w.grad }

inductive Ev (α : Type) where
  | sample (w : Nat) (bin : Nat) (f : α)
  | exchange
  | restart (w : Nat)

def apply (ws : List (Walker α)) : Ev α → List (Walker α)
  | .sample w bin f => ws.modify w (·.sample bin f)
  | .exchange => exchange ws
  | .restart w => ws.modify w (·.restart)

def run (ws : List (Walker α)) (evs : List (Ev α)) : List (Walker α) := evs.foldl apply ws

def initAll (n nbins : Nat) : List (Walker α) := List.replicate n (Walker.init nbins)

/-! ### ghost: what has been sampled -/

/-- the grids obtained by recording exactly these (bin, force) samples once each -/
def tally (nbins : Nat) (l : List (Nat × α)) : List Int × List α :=
  l.foldl (fun t bf => (t.1.modify bf.1 (· + 1), t.2.modify bf.1 (· - bf.2))) (List.replicate nbins 0, List.replicate nbins 0.0)

/-- the samples of walker `w` in an event list (all walkers when `w = none`) -/
def samplesOf (w : Option Nat) : List (Ev α) → List (Nat × α)
  | [] => []
  | .sample v bin f :: r => if w = none ∨ w = some v then (bin, f) :: samplesOf w r else samplesOf w r
  | _ :: r => samplesOf w r

/-! ### multiple-walker metadynamics: mirrors of the peers' hill files -/

/-- a walker's view of one peer: how many complete records of the peer's file it has consumed, and the hills it holds -/
structure Mirror (H : Type) where
  pos : Nat
  hills : List H

/-- read what is new in the peer's file; `complete` = number of complete records currently in the file
    (a record being written is not counted) -/
def Mirror.read {H : Type} (m : Mirror H) (file : List H) (complete : Nat) : Mirror H :=
  let upto := min complete file.length
  if upto ≤ m.pos then m else { pos := upto, hills := m.hills ++ (file.drop m.pos).take (upto - m.pos) }

end Cv.Shared
