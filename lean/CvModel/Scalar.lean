/-
  Scalar abstraction: every numeric model definition is written once, generically over
  `[Sc α]`.  `α := Float` makes it executable in the compiled driver (core Lean only);
  `α := ℝ` (instance in `CvProps/RealInst.lean`, Mathlib) is what the theorems are about.
  Decimal literals only (`0.5`, `2.0`): no `OfNat` instance of ours competes with Mathlib's.
-/

namespace Cv

/-- Non-algebraic primitives the C++ takes from libm. -/
class Prim (α : Type) where
  sqrt : α → α
  exp : α → α
  log : α → α
  acos : α → α
  sin : α → α
  cos : α → α
  atan2 : α → α → α
  pow : α → α → α      -- C `pow(x, y)` with a real exponent
  floorI : α → Int

class Sc (α : Type) extends Add α, Sub α, Mul α, Div α, Neg α, LT α, LE α,
    OfScientific α, NatCast α, IntCast α, Prim α where
  decLt : DecidableLT α
  decLe : DecidableLE α

instance {α} [Sc α] : DecidableLT α := Sc.decLt
instance {α} [Sc α] : DecidableLE α := Sc.decLe

/-- C `floor` returning a double then cast to `int`: the driver saturates like x86 would not;
    generators keep |x| < 2^31 except in the dedicated C10 stream. -/
def floatFloorI (x : Float) : Int :=
  let f := x.floor
  if f ≥ 0 then Int.ofNat f.toUInt64.toNat else - Int.ofNat (-f).toUInt64.toNat

def floatOfInt (i : Int) : Float :=
  match i with
  | .ofNat n => Float.ofNat n
  | .negSucc n => - Float.ofNat (n + 1)

instance : NatCast Float := ⟨Float.ofNat⟩
instance : IntCast Float := ⟨floatOfInt⟩

instance : Prim Float where
  sqrt := Float.sqrt
  exp := Float.exp
  log := Float.log
  acos := Float.acos
  sin := Float.sin
  cos := Float.cos
  atan2 := Float.atan2
  pow := Float.pow
  floorI := floatFloorI

instance : Sc Float := { decLt := inferInstance, decLe := inferInstance }

variable {α : Type} [Sc α]

@[inline] def sq (x : α) : α := x * x

/-- `floor` as a scalar (what `cvm::floor` returns before any cast). -/
@[inline] def floorS (x : α) : α := ((Prim.floorI x : Int) : α)

def sumL (l : List α) : α := l.foldl (· + ·) 0.0

end Cv
