/-
  C12 — work items of one step evaluated in any order, on any threads.

  `colvarmodule::calc_colvars` (colvarmodule.cpp 960–996): one work item per active component; item k computes its
  component from the atomic data (read-only during the loop) and stores value and gradients in the component's own
  fields; afterwards, serially, every variable collects its components.  `calc_biases` (1040–1075): one work item per
  active bias; item j reads the variables' values and total forces (read-only during the loop) and updates that bias's
  own state, energy and forces; afterwards, serially, energies and forces are summed in the fixed order of the lists.
  `colvarproxy::smp_loop` gives no guarantee about which thread takes which item, nor in which order.

  The model: memory is a map from locations to values; a work item is a sequence of atomic actions, each reading a
  declared set of locations and writing one location; a schedule is any interleaving of the items' actions that keeps
  each item's own order.
-/
namespace Cv.Sched

abbrev Mem (V : Type) := Nat → V

/-- one atomic action of a work item -/
structure Act (V : Type) where
  item : Nat
  reads : List Nat
  write : Nat
  f : Mem V → V

variable {V : Type}

def Act.run (a : Act V) (m : Mem V) : Mem V := fun l => if l = a.write then a.f m else m l

def exec (m : Mem V) (as : List (Act V)) : Mem V := as.foldl (fun m a => a.run m) m

/-- the action reads only what it declares -/
def Act.Honest (a : Act V) : Prop := ∀ m m' : Mem V, (∀ l ∈ a.reads, m l = m' l) → a.f m = a.f m'

/-- no conflict: neither writes a location the other reads or writes -/
def Independent (a b : Act V) : Prop := a.write ≠ b.write ∧ a.write ∉ b.reads ∧ b.write ∉ a.reads

/-- the actions of item `i`, in schedule order -/
def ofItem (i : Nat) (as : List (Act V)) : List (Act V) := as.filter (·.item == i)

/-- the parallel loop over `n` items: item `i` computes `g i` from the locations `inputs` and stores it in slot `base + i` -/
def loopActs (n : Nat) (g : Nat → Mem V → V) (inputs : List Nat) (base : Nat) : List (Act V) :=
  (List.range n).map fun i => { item := i, reads := inputs, write := base + i, f := g i }

end Cv.Sched
