/-
  C11 — byte-level model of `cvm::memory_stream` (colvars_memstream.h / .cpp).
  `size_t` arithmetic is modelled modulo 2^64 where the C++ can wrap; buffers are `List UInt8`.
  iostate bits as in libstdc++: badbit = 1, eofbit = 2, failbit = 4.
-/
namespace Cv.MS

def two64 : Nat := 2 ^ 64

structure St where
  buf : List UInt8 := []     -- the output/input buffer (`buffer.size()` = `buf.length`)
  len : Nat := 0             -- `data_length_`
  rpos : Nat := 0            -- `read_pos_`
  maxLen : Nat := 2 ^ 36     -- `max_length_`
  state : Nat := 0
deriving Repr

def good (s : St) : Bool := s.state == 0

/-- little-endian image of a `size_t` -/
def le64 (n : Nat) : List UInt8 := (List.range 8).map fun i => UInt8.ofNat ((n / 256 ^ i) % 256)

def fromLe (bs : List UInt8) : Nat := bs.foldr (fun b acc => b.toNat + 256 * acc) 0

/-- `memcpy(buf + pos, bytes, |bytes|)` inside the allocated buffer -/
def writeAt (buf : List UInt8) (pos : Nat) (bytes : List UInt8) : List UInt8 :=
  buf.take pos ++ bytes ++ buf.drop (pos + bytes.length)

/-- `expand_output_buffer`: grows the buffer (zero-filled) unless that would exceed `max_length_`;
    returns `bool(*this)` -/
def expand (s : St) (add : Nat) : St × Bool :=
  if s.buf.length + add ≤ s.maxLen then
    let s' := { s with buf := s.buf ++ List.replicate add 0 }
    (s', good s')
  else
    let s' := { s with state := s.state ||| 1 }
    (s', false)

/-- `write_object<T>` for a trivially copyable `T` whose object representation is `bytes` -/
def writeObj (s : St) (bytes : List UInt8) : St :=
  let (s', ok) := expand s bytes.length
  if ok then { s' with buf := writeAt s'.buf s'.len bytes, len := s'.len + bytes.length } else s'

/-- `write_vector<T>` / `write_object<std::string>`: 8-byte length prefix, then the elements.
    `adv` is the amount the cursor advances after the prefix (`sizeof(size_t)` = 8 in the code). -/
def writeVecAdv (adv : Nat) (s : St) (n : Nat) (bytes : List UInt8) : St :=
  let (s', ok) := expand s (8 + bytes.length)
  if ok then
    let b1 := writeAt s'.buf s'.len (le64 n)
    let l1 := s'.len + adv
    { s' with buf := writeAt b1 l1 bytes, len := l1 + bytes.length }
  else s'

def writeVec (s : St) (n : Nat) (bytes : List UInt8) : St := writeVecAdv 8 s n bytes

/-- `has_remaining(c)`: `c <= data_length_ - read_pos_` in `size_t` -/
def remaining (s : St) : Nat := (s.len + two64 - s.rpos % two64) % two64
def hasRemaining (s : St) (c : Nat) : Bool := c ≤ remaining s

inductive Rd (β : Type) where
  | ok (s : St) (v : β)      -- value read, state cleared
  | fail (s : St)            -- stream left in a failed state, nothing read
  | oob (s : St)             -- the C++ would touch memory outside the buffer / allocate from a wrapped size
deriving Repr

def slice (s : St) (n : Nat) : List UInt8 := (s.buf.drop s.rpos).take n

/-- `read_object<T>`, `sizeof(T) = size` -/
def readObj (s : St) (size : Nat) : Rd (List UInt8) :=
  let s := { s with state := s.state ||| 2 }
  if hasRemaining s size then
    if s.rpos + size ≤ s.buf.length then
      .ok { s with rpos := s.rpos + size, state := 0 } (slice s size)
    else .oob s
  else .fail s

/-- `read_vector<T>` with `sizeof(T) = esz` (and `read_object<std::string>` with `esz = 1`).
    The guard is the code's: the element count must fit in what remains (`count ≤ remaining / esz`,
    no wrapped product) -/
def readVec (s : St) (esz : Nat) : Rd (Nat × List UInt8) :=
  let s := { s with state := s.state ||| 2 }
  if hasRemaining s 8 then
    if s.rpos + 8 ≤ s.buf.length then
      let n := fromLe (slice s 8)
      let s := { s with rpos := s.rpos + 8 }
      if n ≤ remaining s / esz ∧ hasRemaining s ((n * esz) % two64) then
        if s.rpos + n * esz ≤ s.buf.length then
          .ok { s with rpos := s.rpos + n * esz, state := 0 } (n, slice s (n * esz))
        else .oob s
      else .fail { s with state := s.state ||| 4 }
    else .oob s
  else .fail s

/-- the unguarded variant (`has_remaining(n * sizeof(T))` with a product that can wrap): kept to state
    what the guard is for -/
def readVecUnguarded (s : St) (esz : Nat) : Rd (Nat × List UInt8) :=
  let s := { s with state := s.state ||| 2 }
  if hasRemaining s 8 then
    if s.rpos + 8 ≤ s.buf.length then
      let n := fromLe (slice s 8)
      let s := { s with rpos := s.rpos + 8 }
      if hasRemaining s ((n * esz) % two64) then
        if s.rpos + n * esz ≤ s.buf.length then
          .ok { s with rpos := s.rpos + n * esz, state := 0 } (n, slice s (n * esz))
        else .oob s
      else .fail { s with state := s.state ||| 4 }
    else .oob s
  else .fail s

/-- a stream opened for reading on `n` bytes: `memory_stream(n, buf)` -/
def ofBytes (bs : List UInt8) : St := { buf := bs, len := bs.length, rpos := 0, maxLen := bs.length, state := 0 }

/-- the bytes written so far, as a reader would see them -/
def written (s : St) : List UInt8 := s.buf.take s.len

end Cv.MS
