import CvModel.Scalar
/-
  C18 — model of the metric on variable values:
  `colvar::cvc::dist2/dist2_lgrad/wrap` (colvarcomp.cpp 674–709),
  `colvarvalue::dist2/dist2_grad/interpolate` (colvarvalue.cpp 626–745),
  `cvm::quaternion::dist2/dist2_grad` (colvartypes.h 1284–1324).
-/
namespace Cv
variable {α : Type} [Sc α]

/-- `diff -= floor(diff/period + 0.5) * period` -/
def pshift (p d : α) : α := d - floorS (d / p + 0.5) * p

/-- scalar difference used by `cvc::dist2`; `none` = not periodic -/
def pdiff (per : Option α) (x1 x2 : α) : α :=
  match per with
  | none => x1 - x2
  | some p => pshift p (x1 - x2)

def dist2S (per : Option α) (x1 x2 : α) : α := sq (pdiff per x1 x2)
def dist2SGrad (per : Option α) (x1 x2 : α) : α := 2.0 * pdiff per x1 x2

/-- `cvc::wrap`: `x -= floor((x - c)/p + 0.5) * p` -/
def wrapS (p c x : α) : α := x - floorS ((x - c) / p + 0.5) * p

/-! vectors are lists of components (3-vector: length 3, quaternion: length 4) -/
def vsub (a b : List α) : List α := List.zipWith (· - ·) a b
def vadd (a b : List α) : List α := List.zipWith (· + ·) a b
def vscale (c : α) (a : List α) : List α := a.map (c * ·)
def dot (a b : List α) : α := sumL (List.zipWith (· * ·) a b)
def norm2 (a : List α) : α := dot a a

/-- 3-vector / generic vector -/
def dist2V (a b : List α) : α := norm2 (vsub a b)
def dist2VGrad (a b : List α) : List α := vscale 2.0 (vsub a b)

def clampCos (c : α) : α := if c > 1.0 then 1.0 else if c < -1.0 then -1.0 else c

/-- unit vector: `acos(v1·v2)^2`, the product clamped to [-1, 1] (rounding can push it outside) -/
def dist2U (a b : List α) : α := sq (Prim.acos (clampCos (dot a b)))
/-- `2 acos(c) * (-1)/sqrt(1-c^2) * v2`; a null vector for equal or opposite directions (as for quaternions) -/
def dist2UGrad (a b : List α) : List α :=
  let c := dot a b
  if 1.0 - c * c ≤ 0.0 then [0.0, 0.0, 0.0] else
  vscale (2.0 * Prim.acos c * (-1.0) / Prim.sqrt (1.0 - c * c)) b

/-- the constant `PI` of colvarmodule.h (a decimal literal: the double nearest to π when run on `Float`).
    The quaternion functions take the constant as a parameter; theorems instantiate it with `Real.pi`. -/
def piC : α := 3.14159265358979323846

/-- quaternion geodesic distance, insensitive to the sign of either argument -/
def dist2Q (pi : α) (a b : List α) : α :=
  let c := dot a b
  let om := Prim.acos (clampCos c)
  if c > 0.0 then om * om else (pi - om) * (pi - om)

def dist2QGrad (pi : α) (a b : List α) : List α :=
  let c := dot a b
  let om := Prim.acos (clampCos c)
  let s := Prim.sin om
  if (if s < 0.0 then -s else s) < 1.0E-14 then [0.0, 0.0, 0.0, 0.0] else
  let g := List.zipWith (fun ai bi => (-1.0) * s * bi + c * (ai - c * bi) / s) a b
  if c > 0.0 then vscale (2.0 * om) g else vscale (-2.0 * (pi - om)) g

/-- linear interpolation `(1-λ) x1 + λ x2` -/
def lerpS (x1 x2 l : α) : α := (1.0 - l) * x1 + l * x2
def lerpV (a b : List α) (l : α) : List α := vadd (vscale (1.0 - l) a) (vscale l b)

/-- `apply_constraints` for unit vectors and quaternions: divide by the norm -/
def normalize (a : List α) : List α :=
  let n := Prim.sqrt (norm2 a)
  a.map (· / n)

/-- interpolate on a manifold type: `none` = the code's own "undefined" error -/
def interpManifold (d2 : α) (a b : List α) (l : α) : Option (List α) :=
  let i := lerpV a b l
  -- IEEE: with `d2 = 0` the quotient is `+inf` (or NaN), never `< 1e-6`; stated explicitly because
  -- division by zero is totalised differently over the reals
  if Prim.sqrt d2 ≤ 0.0 then some (normalize i)
  else if Prim.sqrt (norm2 i) / Prim.sqrt d2 < 1.0e-6 then none else some (normalize i)

/-- quaternions: `q` and `-q` are the same rotation; the interpolation goes to the representative of `b` closest to `a` -/
def matchSign (a b : List α) : List α := if dot a b < 0.0 then b.map (fun x => -1.0 * x) else b

def interpQ (pi : α) (a b : List α) (l : α) : Option (List α) :=
  interpManifold (dist2Q pi a b) a (matchSign a b) l

end Cv
