import CvModel.Module
/-
  C03 — what a state file carries for each modelled object and how a run continues from it
  (`colvarmodule::write_state / read_state`, `colvarbias::get_state_params / set_state_params`,
  `write_state_data / read_state_data` of histogram, ABF and the restraints; `sysLoad` in Module.lean is the reader).
  The engine convention: the stop step K is evaluated again as step 0 of the resumed run (`Clock.first`).
-/
namespace Cv
variable {α : Type} [Sc α]

/-- the data of one bias in the state file -/
inductive BiasData (α : Type) where
  | hist (data : List α)
  | abf (samples : List Int) (grad : List α)
  | harm
  | restr (firstStep : Option Int) (centers : Option (List α)) (k : Option α) (stage : Option Int) (accWork : Option α)
          (fe : Option α)
  | mtd (s : MetaState α)

/-- `get_state_params` + `write_state_data`: restraints write centres / force constant / stage / work only when they
    can change -/
def saveBias : Bias α → BiasData α
  | .hist _ _ _ data => .hist data
  | .abf _ _ s => .abf s.samples s.grad
  | .harm _ _ _ => .harm
  | .restr _ p s =>
    let moving := p.targetCenters.isSome || p.chgK
    .restr (if moving then some p.firstStep else none)
           (if p.targetCenters.isSome then some s.centers else none)
           (if p.chgK then some s.k else none)
           (if moving && p.nstages ≠ 0 then some s.stage else none)
           (if p.outputWork then some s.accWork else none)
           (if p.chgK && p.nstages ≠ 0 then some s.restraintFE else none)
  | .mtd _ p s => .mtd (metaLoaded p s)

/-- the state file: the step number and one block per bias -/
def persist (s : Sys α) : Int × List (String × BiasData α) :=
  (s.clock.it, s.biases.map fun nb => (nb.1, saveBias nb.2))

/-- a run: the outputs of every step and the final state -/
def sysRun (s : Sys α) : List (StepIn α) → Sys α × List (StepOut α)
  | [] => (s, [])
  | i :: is =>
    let r := modStep s i
    let rest := sysRun r.1 is
    (rest.1, r.2 :: rest.2)

end Cv
