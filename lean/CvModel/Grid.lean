import CvModel.Scalar
/-
  C15 — index arithmetic of `colvar_grid<T>` (colvargrid.h):
  `value_to_bin_scalar` (504), `bin_to_value_scalar` (546), `setup` (159–198: `nxc`),
  `address` (77), `index_ok` (861), `incr` (872), `wrap` (418), `init_from_boundaries` (376).
-/
namespace Cv

/-! ### pure index arithmetic (no scalars) -/

/-- `nxc[i] = mult * Π_{j>i} nx[j]` and `nt = mult * Π nx`, as computed by `setup` (loop from the last dimension). -/
def strides (mult : Int) : List Int → List Int × Int
  | [] => ([], mult)
  | n :: ns =>
    let (cs, t) := strides mult ns
    (t :: cs, t * n)

def nxcOf (mult : Int) (nx : List Int) : List Int := (strides mult nx).1
def ntOf (mult : Int) (nx : List Int) : Int := (strides mult nx).2

/-- `address(ix) = Σ ix[i] * nxc[i]` -/
def addressWith : List Int → List Int → Int
  | c :: cs, i :: is => i * c + addressWith cs is
  | _, _ => 0

def address (mult : Int) (nx ix : List Int) : Int := addressWith (nxcOf mult nx) ix

/-- `index_ok`: `0 ≤ ix[i] < nx[i]` for every dimension -/
def indexOk : List Int → List Int → Bool
  | n :: ns, i :: is => decide (0 ≤ i) && decide (i < n) && indexOk ns is
  | [], [] => true
  | _, _ => false

/-- `incr`, as a carry chain from the last dimension; the boolean is the carry out of this suffix.
    The outermost dimension does not reset: it is left at `nx[0]`, which `index_ok` rejects. -/
def incrAux : List Int → List Int → List Int × Bool
  | [], _ => ([], true)
  | _, [] => ([], true)
  | n :: ns, i :: is =>
    let (is', carry) := incrAux ns is
    if carry then
      if i + 1 ≥ n then (0 :: is', true) else ((i + 1) :: is', false)
    else (i :: is', false)

def incr (nx ix : List Int) : List Int :=
  match nx, ix with
  | n :: ns, i :: is =>
    let (is', carry) := incrAux ns is
    if carry then
      if i + 1 ≥ n then (n :: is') else ((i + 1) :: is')
    else (i :: is')
  | _, _ => ix

/-- `wrap`: periodic dimensions are reduced `(i + n) % n` (C remainder, truncating) -/
def wrapIdx : List Int → List Bool → List Int → List Int
  | n :: ns, p :: ps, i :: is => (if p then Int.tmod (i + n) n else i) :: wrapIdx ns ps is
  | _, _, _ => []

/-- enumerate with `incr` from `new_index` while `index_ok`, with fuel -/
def enumerate (nx : List Int) : Nat → List Int → List (List Int)
  | 0, _ => []
  | fuel + 1, ix => if indexOk nx ix then ix :: enumerate nx fuel (incr nx ix) else []

/-! ### scalar part -/
variable {α : Type} [Sc α]

/-- `(int) floor((x - lower)/width)` -/
def valueToBin (lo w x : α) : Int := Prim.floorI ((x - lo) / w)

/-- `lower + width * (0.5 + i)` -/
def binToValue (lo w : α) (i : Int) : α := lo + w * (0.5 + (i : α))

/-- `value_to_bin_scalar_bound` -/
def valueToBinBound (lo w : α) (nx : Int) (periodic : Bool) (x : α) : Int :=
  let b := Prim.floorI ((x - lo) / w)
  let b := if periodic then Int.tmod b nx else b
  if b < 0 then 0 else if b ≥ nx then nx - 1 else b

/-- `init_from_boundaries`: `nbins_round = (int)(nbins + 0.5)`; upper boundary adjusted when not commensurate.
    `(int)` truncates toward zero; for `nbins + 0.5 ≥ 0` that is `floor`. -/
def nbinsRound (lo hi w : α) : Int :=
  let y := (hi - lo) / w + 0.5
  if y < 0.0 then - Prim.floorI (-y) else Prim.floorI y

def absS (x : α) : α := if x < 0.0 then -x else x

def adjustedUpper (lo hi w : α) : α :=
  let nb := (hi - lo) / w
  let nr := nbinsRound lo hi w
  if absS (nb - (nr : α)) > 1.0E-10 then lo + (nr : α) * w else hi

end Cv

/-! ### histogram accumulation (colvarbias_histogram.cpp `update`, 120–160) -/
namespace Cv
variable {α : Type} [Sc α]

structure GridDef (α : Type) where
  nx : List Int
  lo : List α
  w : List α

/-- bins of one sample (one value per variable) -/
def binsOf (g : GridDef α) (xs : List α) : List Int :=
  List.zipWith (fun (lw : α × α) x => valueToBin lw.1 lw.2 x) (List.zip g.lo g.w) xs

/-- add `wt` to the element at `addr` -/
def accAt (data : List α) (addr : Int) (wt : α) : List α :=
  if addr < 0 then data else data.modify addr.toNat (· + wt)

/-- one element of one step: counted iff its bin vector is inside the grid -/
def histAcc (g : GridDef α) (data : List α) (xs : List α) (wt : α) : List α :=
  let b := binsOf g xs
  if indexOk g.nx b then accAt data (address 1 g.nx b) wt else data

/-- one step of a histogram of scalar variables: `can_accumulate_data()` gates the sample -/
def histStepScalar (g : GridDef α) (data : List α) (eligible : Bool) (xs : List α) : List α :=
  if eligible then histAcc g data xs 1.0 else data

/-- one step for vector variables gathered into one histogram: element `iv` of every variable forms one
    sample with weight `weights[iv]`.  `gate` = whether the code consults `can_accumulate_data()` on this
    path (the harness tells the model which; see known findings). -/
def histStepVector (g : GridDef α) (data : List α) (eligible : Bool) (elems : List (List α × α)) : List α :=
  if eligible then elems.foldl (fun d e => histAcc g d e.1 e.2) data else data

end Cv
