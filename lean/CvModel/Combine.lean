import CvModel.Scalar
/-
  A variable as a linear combination of components some of which are switched off
  (`colvar::set_cvc_flags` / `update_cvc_flags`, colvar.cpp 2120–2180: the flags sent by `cv colvar <name> cvcflags` are applied at the
  next evaluation and `active_cvc_square_norm = Σ_active c_i²` is recomputed; `colvar::collect_cvc_values` (sum over enabled
  components of `c_i q_i`), `colvar::collect_cvc_total_forces` (`Σ_active c_i f_i / active_cvc_square_norm`)), and the work items of
  the component-parallel evaluation (`colvarmodule::calc_colvars`, colvarmodule.cpp 973–986: one item per enabled component,
  carrying the component's index; `colvar::calc_cvcs(first, 1)` starts at component `first`, skips disabled ones and computes one).
-/
namespace Cv.Combine
variable {α : Type} [Sc α]

/-- (coefficient, enabled) of every component -/
abbrev Comps (α : Type) := List (α × Bool)

def sumActive (cs : Comps α) (xs : List α) (f : α → α → α) : α :=
  (List.zipWith (fun (cb : α × Bool) x => if cb.2 then f cb.1 x else 0.0) cs xs).foldl (· + ·) 0.0

/-- `collect_cvc_values` for exponent 1 -/
def value (cs : Comps α) (qs : List α) : α := sumActive cs qs (fun c q => c * q)

/-- `active_cvc_square_norm` -/
def activeNorm (cs : Comps α) : α := (cs.map fun cb => if cb.2 then cb.1 * cb.1 else 0.0).foldl (· + ·) 0.0

/-- `collect_cvc_total_forces` (without the Jacobian term) -/
def totalForce (cs : Comps α) (fs : List α) : α := sumActive cs fs (fun c f => c * f) / activeNorm cs

/-- the configuration that only contains the components that are on -/
def onlyActive (cs : Comps α) (xs : List α) : Comps α × List α :=
  let z := (cs.zip xs).filter (fun p => p.1.2)
  (z.map (·.1), z.map (·.2))

/-! ### work items of the component-parallel loop -/

/-- `calc_colvars`: the items of one variable — the indices of its enabled components -/
def workItems (flags : List Bool) : List Nat := (List.range flags.length).filter fun i => flags.getD i false

/-- the numbering used before repair 99e8a6f9: 0 .. (number of enabled components − 1) -/
def workItemsByRank (flags : List Bool) : List Nat := List.range (flags.filter id).length

/-- `calc_cvcs(first, 1)`: the component actually computed by the item that starts at `first` (skips disabled ones) -/
def computedBy (flags : List Bool) (first : Nat) : Option Nat :=
  ((List.range flags.length).filter fun i => first ≤ i && flags.getD i false).head?

end Cv.Combine
