import CvModel.Gen.Deps
/-
  C13 — the dependency engine `colvardeps::enable / disable / decr_ref_count / free_children_deps /
  restore_children_deps` (colvardeps.cpp 122–381) over a forest of objects.  The feature tables are
  regenerated from the source on every run (CvModel/Gen/Deps.lean).  Recursion is by fuel.
-/
namespace Cv.Deps
open Cv.Gen

structure FState where
  available : Bool
  enabled : Bool
  refCount : Int
  altRefs : List Nat
deriving Repr, DecidableEq

structure Obj where
  cls : Nat                  -- 0 bias, 1 colvar, 2 component, 3 atom group
  children : List Nat        -- object ids
  feats : List FState
deriving Repr, DecidableEq

abbrev Forest := List Obj

def tableOf (cls : Nat) : List FeatureDecl :=
  match cls with
  | 0 => biasFeatures
  | 1 => colvarFeatures
  | 2 => cvcFeatures
  | _ => agFeatures

def decl (cls f : Nat) : FeatureDecl :=
  (tableOf cls).getD f { name := "", ftype := 3, self := [], alt := [], children := [], excl := [] }

def getF (F : Forest) (o f : Nat) : FState :=
  ((F[o]?).bind (·.feats[f]?)).getD { available := false, enabled := false, refCount := 0, altRefs := [] }

def setF (F : Forest) (o f : Nat) (s : FState) : Forest :=
  F.modify o fun ob => { ob with feats := ob.feats.modify f fun _ => s }

def clsOf (F : Forest) (o : Nat) : Nat := ((F[o]?).map (·.cls)).getD 3
def childrenOf (F : Forest) (o : Nat) : List Nat := ((F[o]?).map (·.children)).getD []
def isEnabled (F : Forest) (o f : Nat) : Bool := (getF F o f).enabled
/-- `is_enabled()` without argument: the "active" feature (id 0) -/
def isActive (F : Forest) (o : Nat) : Bool := isEnabled F o 0

mutual
/-- `disable(feature_id)`; the boolean is `== COLVARS_OK` -/
def disable (fuel : Nat) (F : Forest) (o f : Nat) : Forest × Bool :=
  match fuel with
  | 0 => (F, false)
  | fuel + 1 =>
    let fs := getF F o f
    if !fs.enabled then (F, true) else
    if fs.refCount > 1 then (F, false) else
    let d := decl (clsOf F o) f
    let F1 := d.self.foldl (fun F g => decr fuel F o g) F
    let F2 := (getF F1 o f).altRefs.foldl (fun F g => decr fuel F o g) F1
    let F3 := setF F2 o f { (getF F2 o f) with altRefs := [] }
    let F4 := if isActive F3 o then
        d.children.foldl (fun F g => (childrenOf F o).foldl (fun F ch => decr fuel F ch g) F) F3
      else F3
    let F5 := setF F4 o f { (getF F4 o f) with enabled := false, refCount := 0 }
    let F6 := if f = 0 then freeChildren fuel F5 o else F5
    (F6, true)

/-- `decr_ref_count(feature_id)` -/
def decr (fuel : Nat) (F : Forest) (o g : Nat) : Forest :=
  match fuel with
  | 0 => F
  | fuel + 1 =>
    let fs := getF F o g
    if fs.refCount ≤ 0 then F else
    let F1 := setF F o g { fs with refCount := fs.refCount - 1 }
    if fs.refCount - 1 = 0 ∧ (decl (clsOf F o) g).ftype = 0 then (disable fuel F1 o g).1 else F1

/-- `free_children_deps()`: dereference the children requirements of every enabled feature -/
def freeChildren (fuel : Nat) (F : Forest) (o : Nat) : Forest :=
  match fuel with
  | 0 => F
  | fuel + 1 =>
    let nf := ((F[o]?).map (·.feats.length)).getD 0
    (List.range nf).foldl (fun F fid =>
      if isEnabled F o fid then
        (decl (clsOf F o) fid).children.foldl (fun F g => (childrenOf F o).foldl (fun F ch => decr fuel F ch g) F) F
      else F) F
end

mutual
/-- `enable(feature_id, dry_run, toplevel)`; the boolean is `== COLVARS_OK` -/
def enable (fuel : Nat) (F : Forest) (o f : Nat) (dry toplevel err : Bool) : Forest × Bool :=
  match fuel with
  | 0 => (F, false)
  | fuel + 1 =>
    let fs := getF F o f
    if fs.enabled then
      (if !(dry || toplevel) then setF F o f { fs with refCount := fs.refCount + 1 } else F, true)
    else if !fs.available then (F, false)
    else
    let d := decl (clsOf F o) f
    if !toplevel && d.ftype ≠ 0 then (F, false) else
    if d.excl.any (isEnabled F o) then (F, false) else
    -- requires_self
    let r1 := d.self.foldl (fun (acc : Forest × Bool) g =>
        if !acc.2 then acc else enable fuel acc.1 o g dry false err) (F, true)
    if !r1.2 then r1 else
    -- requires_alt: the alternatives are tested in turn with a dry run (which, inside an error report, is not free of
    -- side effects: `err` makes the nested alternatives be enabled for real); the first that passes is enabled
    let r2 := d.alt.foldl (fun (acc : Forest × Bool) alts =>
        if !acc.2 then acc else
        let tested := alts.foldl (fun (t : Forest × Option Nat) g =>
            match t.2 with
            | some _ => t
            | none =>
              let r := enable fuel t.1 o g true false err
              (r.1, if r.2 then some g else none)) (acc.1, none)
        match tested.2 with
        | none =>
          -- "just for printing error output": every alternative is enabled again for real with `err` set, and whatever
          -- that changes before failing stays changed
          if !dry then (alts.foldl (fun F g => (enable fuel F o g false false true).1) tested.1, false) else (tested.1, false)
        | some g =>
          if !dry || err then
            let F' := (enable fuel tested.1 o g false false err).1
            (setF F' o f { (getF F' o f) with altRefs := (getF F' o f).altRefs ++ [g] }, true)
          else (tested.1, true)) r1
    if !r2.2 then r2 else
    -- requires_children
    let r3 := d.children.foldl (fun (acc : Forest × Bool) g =>
        (childrenOf acc.1 o).foldl (fun (acc : Forest × Bool) ch =>
          if !acc.2 then acc else enable fuel acc.1 ch g (dry || !isActive acc.1 o) false err) acc) r2
    if !r3.2 then r3 else
    if dry then (r3.1, true) else
    let F1 := r3.1
    let s1 := getF F1 o f
    let F2 := setF F1 o f { s1 with enabled := true, refCount := if !toplevel then 1 else s1.refCount }
    let F3 := if f = 0 then restoreChildren fuel F2 o else F2
    (F3, true)

/-- `restore_children_deps()` -/
def restoreChildren (fuel : Nat) (F : Forest) (o : Nat) : Forest :=
  match fuel with
  | 0 => F
  | fuel + 1 =>
    let nf := ((F[o]?).map (·.feats.length)).getD 0
    (List.range nf).foldl (fun F fid =>
      if isEnabled F o fid then
        (decl (clsOf F o) fid).children.foldl (fun F g =>
          (childrenOf F o).foldl (fun F ch => (enable fuel F ch g false false false).1) F) F
      else F) F
end

/-- fuel sufficient for every forest the harness builds (the depth of the recursion is bounded by the number of
    features along a dependency chain times the depth of the forest) -/
def bigFuel : Nat := 64

/-! ### the consistency conditions of the property, as a checkable predicate -/

def prereqOk (F : Forest) (o : Nat) : Bool :=
  let nf := ((F[o]?).map (·.feats.length)).getD 0
  (List.range nf).all fun f =>
    !isEnabled F o f ||
      ((decl (clsOf F o) f).self.all (isEnabled F o) &&
       (decl (clsOf F o) f).alt.all (fun a => a.any (isEnabled F o)) &&
       (decl (clsOf F o) f).excl.all (fun g => !isEnabled F o g) &&
       (!isActive F o || (decl (clsOf F o) f).children.all fun g => (childrenOf F o).all fun ch => isEnabled F ch g))

def consistent (F : Forest) : Bool := (List.range F.length).all (prereqOk F)

end Cv.Deps
