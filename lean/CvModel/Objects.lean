/-!
# Object bookkeeping of the module: variables, biases and the back-references between them

`colvarbias::init` registers the bias with every variable it names (`colvar::biases`, via `add_colvar`); `colvarbias::clear()`
(run by the destructor) takes the bias out of the module's list and out of every variable's back-reference list;
`colvar::~colvar()` deletes the biases registered with it, last first, in a `while (biases.size() > 0)` loop that only ends
because each deleted bias removes itself from that list, and then takes the variable out of the module's list.
Names stand for the objects (the module refuses duplicates).
-/
namespace Cv.Objects

structure Objs where
  vars : List String
  biases : List (String × List String)       -- name, the variables it was configured on
  refs : String → List String                 -- per variable: names of the biases registered with it, in registration order

/-- the state after reading a configuration -/
def ofConfig (vars : List String) (biases : List (String × List String)) : Objs :=
  { vars := vars, biases := biases, refs := fun v => (biases.filter (fun p => p.2.contains v)).map (·.1) }

/-- `delete bias` (`colvarbias::clear`) -/
def deleteBias (o : Objs) (b : String) : Objs :=
  { o with biases := o.biases.filter (fun p => p.1 != b), refs := fun v => (o.refs v).filter (· != b) }

/-- the `while (biases.size() > 0) delete biases[size-1]` loop of `colvar::~colvar`, with explicit fuel -/
def delLoop : Nat → Objs → String → Objs
  | 0, o, _ => o
  | n + 1, o, v =>
    match (o.refs v).getLast? with
    | none => o
    | some b => delLoop n (deleteBias o b) v

/-- `delete colvar` -/
def deleteVar (o : Objs) (v : String) : Objs :=
  let o1 := delLoop (o.refs v).length o v
  { o1 with vars := o1.vars.filter (· != v) }

/-- every bias is registered with each variable it depends on -/
def Registered (o : Objs) (v : String) : Prop := ∀ p ∈ o.biases, v ∈ p.2 → p.1 ∈ o.refs v

/-- a deletion requested through the script -/
inductive DelOp where
  | var (v : String)
  | bias (b : String)

def applyDel (o : Objs) : DelOp → Objs
  | .var v => deleteVar o v
  | .bias b => deleteBias o b

end Cv.Objects
