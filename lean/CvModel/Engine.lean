import CvModel.Scalar
/-
  Step numbering and eligibility as every bias sees them:
  `colvarmodule::it / it_restart`, `colvarproxy::simulation_continuing()`,
  `colvarbias::can_accumulate_data()` (colvarbias.cpp 359–367).
  The engine convention (LAMMPS/NAMD proxies, mirrored by the harness simulator):
  the first step of the first run does not advance `it`; step 0 of a later run repeats the
  last step with `simulation_continuing() = true`; every other step advances `it` by one.
-/
namespace Cv

structure Clock where
  it : Int := 0
  itRestart : Int := 0
  first : Bool := true
  cont : Bool := false
deriving Repr

/-- one engine step; `contReq` = this is the repeated step 0 of a new run -/
def Clock.tick (c : Clock) (contReq : Bool) : Clock :=
  if c.first then { c with first := false, cont := false }
  else if contReq then { c with cont := true }
  else { c with it := c.it + 1, cont := false }

def Clock.stepRelative (c : Clock) : Int := c.it - c.itRestart

/-- `can_accumulate_data()` -/
def canAccumulate (c : Clock) (stepZeroData : Bool) : Bool :=
  (decide (c.stepRelative > 0) && !c.cont) || stepZeroData

end Cv
