import CvModel.Value
import CvModel.Grid
import CvModel.Engine
/-
  C05 — metadynamics on scalar (possibly periodic) variables: colvarbias_meta.cpp
  `update` (410–441), `update_grid_params` (444–535, grid expansion + `map_grid`), `update_bias` (538–600),
  `update_grid_data` (603–624), `calc_energy`/`calc_forces` (627–738), `calc_hills`/`calc_hills_force`
  (742–851), `project_hills` (858–932), `add_hill` (337–368).
-/
namespace Cv
variable {α : Type} [Sc α]

structure Hill (α : Type) where
  it : Int
  w : α                     -- weight (hillWeight × scale)
  centers : List α
  sigmas : List α

structure MetaParams (α : Type) where
  per : List (Option α)     -- period of each variable
  cvWidth : List α          -- `colvar::width`
  hillWeight : α
  freq : Int                -- `new_hill_freq`
  sigmas : List α           -- `colvar_sigmas`
  hillWidth : α             -- `hill_width` (0 when gaussianSigmas was given)
  useGrids : Bool
  gridsFreq : Int
  keepHills : Bool
  wellTempered : Bool := false
  biasTempKB : α            -- `bias_temperature * boltzmann()`
  expand : List Bool        -- `expand_boundaries` of each variable
  gridPeriodic : List Bool  -- `hills_energy->periodic`
  stepZeroData : Bool := false

structure MetaState (α : Type) where
  hills : List (Hill α)        -- `hills`
  nNew : Nat                   -- number of trailing hills not yet projected (`new_hills_begin` .. end)
  offGrid : List (Hill α)      -- `hills_off_grid`
  g : GridDef α                -- current grid definition (changes when expanded)
  gridE : List α               -- `hills_energy->data`
  gridG : List α               -- `hills_energy_gradients->data`, `nd` per bin

/-- the truncated Gaussian of `calc_hills`: zero when the exponent sum exceeds 23 -/
def hillValue (p : MetaParams α) (h : Hill α) (xs : List α) : α :=
  let sq := (List.zipWith (fun (pc : Option α × α) (cs : α × α) =>
      dist2S pc.1 pc.2 cs.1 / (cs.2 * cs.2)) (p.per.zip xs) (h.centers.zip h.sigmas)).foldl (· + ·) 0.0
  if sq > 23.0 then 0.0 else Prim.exp (-0.5 * sq)

def hillsEnergy (p : MetaParams α) (hs : List (Hill α)) (xs : List α) : α :=
  hs.foldl (fun e h => e + h.w * hillValue p h xs) 0.0

/-- `calc_hills_force` for variable `i`: `Σ W g (0.5/σ²) dist2_lgrad(x, c)` -/
def hillsForce (p : MetaParams α) (hs : List (Hill α)) (xs : List α) (i : Nat) : α :=
  hs.foldl (fun f h =>
    let v := hillValue p h xs
    let s := h.sigmas.getD i 1.0
    f + h.w * v * (0.5 / (s * s)) * dist2SGrad (p.per.getD i none) (xs.getD i 0.0) (h.centers.getD i 0.0)) 0.0

def binCenters (g : GridDef α) (ix : List Int) : List α :=
  List.zipWith (fun (lw : α × α) i => binToValue lw.1 lw.2 i) (g.lo.zip g.w) ix

/-- all index vectors of a grid in address order -/
def allIndices (nx : List Int) : List (List Int) :=
  enumerate nx ((ntOf 1 nx).toNat + 1) (nx.map fun _ => 0)

/-- `project_hills`: add the analytic value and gradient of the hills at every bin centre -/
def projectHills (p : MetaParams α) (s : MetaState α) (hs : List (Hill α)) : MetaState α :=
  let idx := allIndices s.g.nx
  let nd := s.g.nx.length
  let addE := idx.map fun ix => hillsEnergy p hs (binCenters s.g ix)
  let addG := idx.flatMap fun ix =>
    (List.range nd).map fun i => hillsForce p hs (binCenters s.g ix) i
  { s with gridE := List.zipWith (· + ·) s.gridE addE,
           gridG := List.zipWith (fun g f => g - f) s.gridG addG }

/-- `bin_distance_from_boundaries(values, true)` with no hard boundaries: signed distance in bins to the nearest
    non-periodic boundary -/
def binDistance (p : MetaParams α) (g : GridDef α) (xs : List α) : α :=
  let nd := g.nx.length
  (List.range nd).foldl (fun m i =>
    if p.gridPeriodic.getD i false then m else
    let x := xs.getD i 0.0; let lo := g.lo.getD i 0.0; let w := g.w.getD i 1.0
    let hi := lo + ((g.nx.getD i 0 : Int) : α) * w
    let per := p.per.getD i none
    let dl0 := Prim.sqrt (dist2S per x lo) / w
    let du0 := Prim.sqrt (dist2S per x hi) / w
    let dl := if x < lo then dl0 * -1.0 else dl0
    let du := if x > hi then du0 * -1.0 else du0
    let m := if dl < m then dl else m
    if du < m then du else m) 1.0E+16

def minBuffer (p : MetaParams α) : Int := 3 * Prim.floorI p.hillWidth + 1

/-- insert `k` zero bins below / above along dimension 0 of a 1-D grid, or generally re-index: data of the
    old grid are copied to the bins of the new grid that have the same centre -/
def remapGrid (mult : Nat) (oldNx newNx shift : List Int) (old : List α) : List α :=
  (allIndices newNx).flatMap fun ix =>
    let oix := List.zipWith (· - ·) ix shift
    (List.range mult).map fun im =>
      if indexOk oldNx oix then old.getD ((address 1 oldNx oix).toNat * mult + im) 0.0 else 0.0

/-- `update_grid_params`: expand the grid when the current bin is within `min_buffer` of an expandable boundary -/
def expandGrids (p : MetaParams α) (s : MetaState α) (xs : List α) : MetaState α :=
  if !p.useGrids || !(p.expand.any id) then s else
  let cur := binsOf s.g xs
  let mb := minBuffer p
  let nd := s.g.nx.length
  -- per dimension: (extra bins below, extra bins above)
  let ext := (List.range nd).map fun i =>
    if !(p.expand.getD i false) then ((0 : Int), (0 : Int)) else
    let c := cur.getD i 0; let n := s.g.nx.getD i 0
    let below := if c < mb then mb - c else 0
    let c' := c + below; let n' := n + below
    let above := if c' > n' - mb - 1 then c' - (n' - 1) + mb else 0
    (below, above)
  if ext.all (fun e => e.1 == 0 && e.2 == 0) then s else
  let newNx := List.zipWith (fun n (e : Int × Int) => n + e.1 + e.2) s.g.nx ext
  let newLo := List.zipWith (fun (lw : α × α) (e : Int × Int) => lw.1 - (e.1 : α) * lw.2) (s.g.lo.zip p.cvWidth) ext
  let shift := ext.map (·.1)
  { s with g := { s.g with nx := newNx, lo := newLo },
           gridE := remapGrid 1 s.g.nx newNx shift s.gridE,
           gridG := remapGrid nd s.g.nx newNx shift s.gridG }

/-- the hills not yet projected -/
def newHills (s : MetaState α) : List (Hill α) := s.hills.drop (s.hills.length - s.nNew)

/-- bias energy at `xs` (`calc_energy`) -/
def metaEnergy (p : MetaParams α) (s : MetaState α) (xs : List α) : α :=
  let bin := binsOf s.g xs
  let base := if p.useGrids then
      (if indexOk s.g.nx bin then s.gridE.getD (address 1 s.g.nx bin).toNat 0.0
       else hillsEnergy p s.offGrid xs)
    else 0.0
  -- hills not yet projected: `calc_hills` accumulates into the same variable, hill after hill;
  -- off the grid those that matter are already part of `hills_off_grid`
  if p.useGrids && !(indexOk s.g.nx bin) then base else
  (newHills s).foldl (fun e h => e + h.w * hillValue p h xs) base

def metaForce (p : MetaParams α) (s : MetaState α) (xs : List α) (i : Nat) : α :=
  let bin := binsOf s.g xs
  let nd := s.g.nx.length
  let base := if p.useGrids then
      (if indexOk s.g.nx bin then 0.0 + -1.0 * s.gridG.getD ((address 1 s.g.nx bin).toNat * nd + i) 0.0
       else hillsForce p s.offGrid xs i)
    else 0.0
  if p.useGrids && !(indexOk s.g.nx bin) then base else
  (newHills s).foldl (fun f h =>
    let v := hillValue p h xs
    let sg := h.sigmas.getD i 1.0
    f + h.w * v * (0.5 / (sg * sg)) * dist2SGrad (p.per.getD i none) (xs.getD i 0.0) (h.centers.getD i 0.0)) base

/-- the energy used by the well-tempered scaling at the deposition point (`update_bias`) -/
def wtEnergyHere (p : MetaParams α) (s : MetaState α) (xs : List α) : α :=
  if p.useGrids then
    let bin := binsOf s.g xs
    -- inside the grid: tabulated value at the current bin plus the hills not yet tabulated; outside: analytic edge hills
    if indexOk s.g.nx bin then
      (newHills s).foldl (fun e h => e + h.w * hillValue p h xs) (s.gridE.getD (address 1 s.g.nx bin).toNat 0.0)
    else hillsEnergy p s.offGrid xs
  else (newHills s).foldl (fun e h => e + h.w * hillValue p h xs) 0.0

/-- is a hill deposited at this step? -/
def depositNow (p : MetaParams α) (c : Clock) : Bool :=
  decide (p.freq > 0) && decide (Int.tmod c.it p.freq = 0) && canAccumulate c p.stepZeroData

/-- one `update()`; returns the new state, the energy and the force on each variable -/
def metaStep (p : MetaParams α) (c : Clock) (s : MetaState α) (xs : List α) : MetaState α × α × List α :=
  let s1 := expandGrids p s xs
  -- update_bias
  let s2 := if depositNow p c then
      let scale : α := if p.wellTempered then 1.0 * Prim.exp (-1.0 * wtEnergyHere p s1 xs / p.biasTempKB) else 1.0
      let h : Hill α := { it := c.it, w := p.hillWeight * scale, centers := xs, sigmas := p.sigmas }
      let off := if p.useGrids && decide (binDistance p s1.g xs < ((3 * Prim.floorI p.hillWidth : Int) : α) + 1.0)
                 then s1.offGrid ++ [h] else s1.offGrid
      { s1 with hills := s1.hills ++ [h], nNew := s1.nNew + 1, offGrid := off }
    else s1
  -- update_grid_data
  let s3 := if p.useGrids && decide (p.gridsFreq > 0) && decide (Int.tmod c.it p.gridsFreq = 0) then
      let s' := projectHills p s2 (newHills s2)
      { s' with nNew := 0, hills := if p.keepHills then s'.hills else [] }
    else s2
  let nd := xs.length
  (s3, metaEnergy p s3 xs, (List.range nd).map (metaForce p s3 xs))

end Cv

namespace Cv
variable {α : Type} [Sc α]

/-- a history: the clock and the variable values seen by each `update()` -/
abbrev MetaHist (α : Type) := List (Clock × List α)

structure MetaTrace (α : Type) where
  s : MetaState α
  energies : List α := []
  forces : List (List α) := []
  deposited : List (Hill α) := []     -- ghost: every hill deposited so far, oldest first
  projected : List (Hill α) := []     -- ghost: those already added to the grids

/-- run a history, recording energies, forces and (as ghost data) which hills exist and which are tabulated -/
def metaRun (p : MetaParams α) (t : MetaTrace α) : MetaHist α → MetaTrace α
  | [] => t
  | (c, xs) :: rest =>
    let (s', e, f) := metaStep p c t.s xs
    let s1 := expandGrids p t.s xs
    let dep := if depositNow p c then
        let scale : α := if p.wellTempered then 1.0 * Prim.exp (-1.0 * wtEnergyHere p s1 xs / p.biasTempKB) else 1.0
        t.deposited ++ [({ it := c.it, w := p.hillWeight * scale, centers := xs, sigmas := p.sigmas } : Hill α)]
      else t.deposited
    let proj := if p.useGrids && decide (p.gridsFreq > 0) && decide (Int.tmod c.it p.gridsFreq = 0) then dep else t.projected
    metaRun p { s := s', energies := t.energies ++ [e], forces := t.forces ++ [f], deposited := dep, projected := proj } rest

def MetaState.empty (g : GridDef α) (useGrids : Bool) : MetaState α :=
  let nt := (ntOf 1 g.nx).toNat
  { hills := [], nNew := 0, offGrid := [], g := g,
    gridE := if useGrids then List.replicate nt 0.0 else [],
    gridG := if useGrids then List.replicate (nt * g.nx.length) 0.0 else [] }

end Cv

/-! ### the state file (`write_state_data` / `read_state_data`) -/
namespace Cv
variable {α : Type} [Sc α]

/-- `write_state_data` first projects the hills not yet tabulated onto the live grids ("a very good time to project
    hills"): this changes the running bias as well -/
def metaFlush (p : MetaParams α) (s : MetaState α) : MetaState α :=
  if p.useGrids then
    -- (`project_hills` also discards the explicit hills unless keepHills is set)
    { projectHills p s (newHills s) with nNew := 0, hills := if p.keepHills then s.hills else [] }
  else s

/-- what a fresh instance holds after reading the state written from `s`: the grids, and as explicit hills all of
    them (no grids, or keepHills) or those near the grid boundaries -/
def metaLoaded (p : MetaParams α) (s : MetaState α) : MetaState α :=
  let f := metaFlush p s
  let hs := if !p.useGrids || p.keepHills then f.hills else f.offGrid
  { f with hills := hs, nNew := if p.useGrids then 0 else hs.length }

end Cv

/-! ### rebinning from kept hills after a restart (`rebin_grids_after_restart`, colvarbias_meta.cpp) -/
namespace Cv
variable {α : Type} [Sc α]

/-- the grids of a bias set up over the grid `g'` (which may differ from the one in the state) rebuilt from the hills the state
    kept (`keepHills on`, `rebinGrids on`): new empty grids, every kept hill projected onto them -/
def metaRebin (p : MetaParams α) (g' : GridDef α) (s : MetaState α) : MetaState α :=
  { projectHills p (MetaState.empty g' true) s.hills with hills := s.hills, nNew := 0, offGrid := s.hills }

end Cv
