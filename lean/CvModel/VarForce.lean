import CvModel.Module
/-
  The force a variable hands to its atoms when it has a Jacobian term and its own time-step factor
  (not an extended-Lagrangian variable):
  `colvarmodule::calc_colvars` (colvarmodule.cpp 943–958: a variable with factor n > 1 is awake only at absolute steps that
  are multiples of n), `colvar::collect_cvc_Jacobians` (colvar.cpp 1728–1746: `fj = kB·T · Σ c_i·jd_i`),
  `colvar::collect_cvc_total_forces` (1673–1703: the Jacobian force is added to the reported total force unless it is both
  hidden and the applied force is subtracted), `colvar::update_forces_energy` (1832–1856: `f = fb`, and with
  `hideJacobian` `f -= fj · timeStepFactor` — the bias forces arrive scaled by each bias, the variable's own force is
  scaled here), `distance::calc_Jacobian_derivative` (colvarcomp_distances.cpp: `2/d`).
-/
namespace Cv
variable {α : Type} [Sc α]

structure VarP (α : Type) where
  tsf : Int := 1             -- `time_step_factor` of the variable
  jacobian : Bool := false   -- `f_cv_Jacobian` (switched on by a bias that needs total forces)
  hide : Bool := false       -- `f_cv_hide_Jacobian` (`hideJacobian on` in an ABF bias)
  subtract : Bool := false   -- `f_cv_subtract_applied_force`
  kT : α                     -- `boltzmann() * target_temperature()`

/-- `distance::calc_Jacobian_derivative` -/
def jdDistance (d : α) : α := if d > 0.0 || d < 0.0 then 2.0 / d else 0.0

/-- `collect_cvc_Jacobians` for a one-component variable with coefficient 1 -/
def jacForce (p : VarP α) (jd : α) : α := if p.jacobian then p.kT * jd else 0.0

/-- `collect_cvc_total_forces`: what the biases are told -/
def varTotalForce (p : VarP α) (ftCvc fj : α) : α := if p.hide && p.subtract then ftCvc else ftCvc + fj

/-- `update_forces_energy`: `fb` is the sum of the bias forces as handed over (each already times its bias' factor) -/
def varApplied (p : VarP α) (fb fj : α) : α := if p.jacobian && p.hide then fb - fj * (p.tsf : α) else fb

/-- force on the variable during one engine step, for biases that share the variable's factor and have the instantaneous
    summed force `fbInst`: nothing while asleep, `n·fbInst` and the scaled Jacobian compensation when awake -/
def varStepForce (p : VarP α) (c : Clock) (fbInst fj : α) : α :=
  if awake c p.tsf then varApplied p ((p.tsf : α) * fbInst) fj else 0.0

/-- a `distance` variable between one atom on the z axis and the origin, under one harmonic restraint:
    value `|z|`, gradient `sign z`, Jacobian force `kT·2/|z|`; returns (value, force on the variable, z-force on the atom) -/
def radialHarmStep (p : VarP α) (c : Clock) (z k center width : α) : α × α × α :=
  let d := if z < 0.0 then -z else z
  let s : α := if z < 0.0 then -1.0 else 1.0
  let fbInst := -0.5 * k / (width * width) * dist2SGrad none d center
  let f := varStepForce p c fbInst (jacForce p (jdDistance d))
  (d, f, f * s)

end Cv
