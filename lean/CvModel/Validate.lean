/-
  C10 — where the code divides, takes remainders or indexes by configuration parameters, and what guards it.
  Integer `%` by zero is a hardware trap (SIGFPE) in the C++; here `safeMod` returns `none` for it, so that
  "never fatal" is "never none".  Mirrors, after the repairs recorded in known_findings.json:
  `colvarbias_meta::update_bias` / `update_grid_data` (frequencies), `colvar::parse_analysis` (strides, window
  lengths), `colvarbias_abf::init` (minSamples < fullSamples, maxForce one per variable),
  `colvarbias_restraint_moving::init` (targetNumSteps non-zero), `colvarmodule::calc` (restart / trajectory frequencies),
  `colvar_grid::setup` (positive sizes).
-/
namespace Cv.Validate

/-- C `a % b`: a trap when `b = 0` -/
def safeMod (a b : Int) : Option Int := if b = 0 then none else some (Int.tmod a b)

/-- `update_bias`: is a hill deposited at step `it`?  `none` = the process would be killed -/
def metaDeposit (historyDependent : Bool) (freq it : Int) (canAcc : Bool) : Option Bool :=
  if historyDependent && decide (freq > 0) then (safeMod it freq).map fun r => r == 0 && canAcc else some false

/-- `update_grid_data` -/
def metaGridUpdate (gridsFreq it : Int) : Option Bool :=
  if gridsFreq > 0 then (safeMod it gridsFreq).map (· == 0) else some false

/-- `init`: history_dependent is enabled only for a positive frequency; the default grid frequency is the hill frequency -/
def metaInit (newHillFreq gridsFreq : Int) : Bool × Int :=
  (decide (newHillFreq > 0), if newHillFreq > 0 ∧ gridsFreq = 0 then newHillFreq else gridsFreq)

inductive Verdict where
  | ok | rejected
deriving Repr, DecidableEq

/-- `parse_analysis`: window lengths and strides (read into `size_t`) -/
def analysisValidate (runAve : Bool) (runAveLength runAveStride : Nat) (corrFunc : Bool) (acfLength acfStride : Nat) : Verdict :=
  if runAve && (decide (runAveLength < 2) || decide (runAveStride < 1)) then .rejected
  else if corrFunc && (decide (acfLength < 1) || decide (acfStride < 1)) then .rejected
  else .ok

/-- the remainders evaluated at parse time and at every step once the analysis is accepted -/
def analysisRemainders (restartFreq stepRel : Int) (runAve : Bool) (runAveStride : Nat) (corrFunc : Bool) (acfStride : Nat) : List (Option Int) :=
  (if runAve then [safeMod restartFreq runAveStride, safeMod stepRel runAveStride] else []) ++
  (if corrFunc then [safeMod restartFreq acfStride] else [])

/-- the deviation divides by `runAveLength - 1` -/
def runAveDivisor (runAveLength : Nat) : Int := (runAveLength : Int) - 1

/-- `colvarbias_abf::init` -/
def abfValidate (fullSamples minSamples : Int) (nvars : Nat) (maxForce : Option (List Int)) : Verdict × Int × Int :=
  let (f, m) := if fullSamples ≤ 1 then ((1 : Int), (0 : Int)) else (fullSamples, minSamples)
  if m ≥ f then (.rejected, f, m)
  else match maxForce with
    | some l => if l.length ≠ nvars then (.rejected, f, m) else (.ok, f, m)
    | none => (.ok, f, m)

/-- `colvarbias_meta::init`, multiple replicas: `replicaUpdateFrequency` must be positive -/
def metaReplicaValidate (replicaUpdateFreq : Int) : Verdict := if replicaUpdateFreq = 0 then .rejected else .ok

/-- `colvarbias_meta::update_bias` / `read_replica_files`: the "time to look at the other replicas?" test and the number of silent
    periods (`replicaUpdateFrequency / newHillFrequency + 1`) after which a warning is printed; `none` = division by zero -/
def metaReplicaFlush (replicaUpdateFreq newHillFreq : Nat) : Option Nat :=
  if newHillFreq > 0 then (if newHillFreq = 0 then none else some (replicaUpdateFreq / newHillFreq + 1)) else some 1

def metaReplicaTest (replicaUpdateFreq it : Int) : Option Int := safeMod it replicaUpdateFreq

/-- `colvarbias_abf::init`, `historyFreq` against `outputFreq`: the verdict and the remainders evaluated on the way -/
def abfHistoryValidate (historyFreq outputFreq : Int) : Verdict × List (Option Int) :=
  if historyFreq ≠ 0 then
    if outputFreq = 0 then (.rejected, [])
    else
      let r := safeMod historyFreq outputFreq
      (if r ≠ some 0 then .rejected else .ok, [r])
  else (.ok, [])

/-- `colvarbias_abf::init`, `sharedFreq` against `outputFreq` (only read for shared ABF) -/
def abfSharedValidate (sharedFreq outputFreq : Int) : Verdict × List (Option Int) :=
  if sharedFreq ≠ 0 then
    let r := safeMod outputFreq sharedFreq
    (if r ≠ some 0 then .rejected else .ok, [r])
  else (.ok, [])

/-- `colvarbias_abf::write_gradients_samples`: whether the history files are written at step `it` -/
def abfHistoryWrite (historyFreq it : Int) : Option Bool :=
  if historyFreq > 0 then (safeMod it historyFreq).map (· == 0) else some false

/-- `colvarbias_restraint_moving::init` and the staged / continuous schedules that divide by targetNumSteps -/
def movingValidate (changing : Bool) (targetNumSteps : Int) : Verdict :=
  if changing && decide (targetNumSteps = 0) then .rejected else .ok

/-- `colvarmodule::calc`: restart and trajectory output schedules -/
def moduleSchedules (restartFreq trajFreq it : Int) : List (Option Int) :=
  (if restartFreq ≠ 0 then [safeMod it restartFreq] else []) ++ (if trajFreq ≠ 0 then [safeMod it trajFreq, safeMod it (trajFreq * 1000)] else [])

/-- `colvar_grid::setup`: every size must be positive; the allocation is their product times the multiplicity -/
def gridSetup (nx : List Int) (mult : Nat) : Option Nat :=
  if nx.all (· > 0) then some (nx.foldl (fun t n => t * n.toNat) mult) else none

/-- the module keeps a new object only when its initialisation reported no error -/
def addObject {β : Type} (objs : List β) (new : β) (v : Verdict) : List β :=
  match v with
  | .ok => objs ++ [new]
  | .rejected => objs

end Cv.Validate
