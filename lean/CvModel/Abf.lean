import CvModel.Grid
import CvModel.Engine
/-
  C04 — model of `colvarbias_abf::update` (colvarbias_abf.cpp 333–462), `update_system_force` (469–487),
  `calc_biasing_force` (503–540) and of the gradient grid's `acc_force`, `smooth_inverse_weight`,
  `vector_value_smoothed`, `average` (colvargrid.h 1724–1853).
-/
namespace Cv
variable {α : Type} [Sc α]

structure AbfParams (α : Type) where
  g : GridDef α
  periodic1D : Bool := false      -- one variable and `gradients->periodic[0]`
  fullSamples : Int := 200
  minSamples : Int := 100
  applyBias : Bool := true
  updateBias : Bool := true       -- `f_cvb_history_dependent`
  maxForce : Option (List α) := none
  subtract : List Bool := []      -- per variable: `f_cv_subtract_applied_force`
  tfCurrent : Bool := false       -- `f_cv_total_force_current_step` (engine gives same-step total forces)
  stepZeroData : Bool := false

structure AbfState (α : Type) where
  samples : List Int              -- count grid (one entry per bin)
  grad : List α                   -- gradient grid data, `nd` entries per bin: minus the sum of force samples
  forceBin : List Int             -- bin to which the next late total force will be attributed
  lastForce : List α              -- `colvar_forces`: the ABF force applied at the previous update

def nvars (p : AbfParams α) : Nat := p.g.nx.length

def AbfState.init (p : AbfParams α) : AbfState α :=
  let nt := (ntOf 1 p.g.nx).toNat
  { samples := List.replicate nt 0, grad := List.replicate (nt * nvars p) 0.0,
    forceBin := List.replicate (nvars p) 0, lastForce := List.replicate (nvars p) 0.0 }

/-- what one step hands to the bias -/
structure AbfIn (α : Type) where
  xs : List α        -- variable values at this step
  ft : List α        -- `colvar::total_force()` of each variable as reported at this step
  elig : Bool        -- `can_accumulate_data()`
  timingOk : Bool    -- `step_relative() > 0 || total_forces_same_step()`

/-- `update_system_force`: the force sample, with the ABF force applied when it was exerted removed -/
def systemForce (p : AbfParams α) (s : AbfState α) (ft : List α) : List α :=
  (List.zip (List.zip ft s.lastForce) p.subtract).map fun ((f, l), sub) =>
    if sub || p.tfCurrent then f else f - l

/-- subtract `fs[i]` from entry `base + i` -/
def subAt (data : List α) (base : Nat) : List α → List α
  | [] => data
  | f :: fs => subAt (data.modify base (· - f)) (base + 1) fs

/-- `acc_force(ix, forces)`: `data[address + i] -= forces[i]`, `count++` -/
def accForce (p : AbfParams α) (s : AbfState α) (ix : List Int) (forces : List α) : AbfState α :=
  let a := (address 1 p.g.nx ix).toNat
  { s with grad := subAt s.grad (a * nvars p) forces, samples := s.samples.modify a (· + 1) }

/-- the documented ramp between minSamples and fullSamples -/
def ramp (p : AbfParams α) (n : Int) : α :=
  if n < p.fullSamples then
    if n < p.minSamples then 0.0 else ((n - p.minSamples : Int) : α) / ((p.fullSamples - p.minSamples : Int) : α)
  else 1.0

/-- `smooth_inverse_weight(weight)` -/
def smoothInvWeight (p : AbfParams α) (n : Int) : α :=
  if n ≤ p.minSamples then 0.0
  else if n < p.fullSamples then ((n - p.minSamples : Int) : α) / ((n : α) * ((p.fullSamples - p.minSamples : Int) : α))
  else 1.0 / (n : α)

/-- `average()`: unsmoothed mean over all bins of a 1-D gradient grid -/
def gridAverage (s : AbfState α) (nx0 : Int) : α :=
  let vals := List.zipWith (fun (d : α) (n : Int) => if n > 0 then (1.0 / (n : α)) * d else 0.0 * d) s.grad s.samples
  sumL vals / (nx0 : α)

def capForce (mf : Option (List α)) (f : List α) : List α :=
  match mf with
  | none => f
  | some m => List.zipWith (fun fi mi => if fi * fi > mi * mi then (if fi > 0.0 then mi else -1.0 * mi) else fi) f m

/-- `calc_biasing_force` for plain ABF at a bin inside the grid -/
def biasingForce (p : AbfParams α) (s : AbfState α) (bin : List Int) : List α :=
  let a := (address 1 p.g.nx bin).toNat
  let n := s.samples.getD a 0
  let fact := smoothInvWeight p n
  let nd := nvars p
  let f := (List.range nd).map fun i => fact * s.grad.getD (a * nd + i) 0.0
  let f := if p.periodic1D then f.map (· - gridAverage s (p.g.nx.getD 0 1)) else f
  capForce p.maxForce f

/-- `calc_energy` for one variable: minus the integral of the smoothed gradient up to the current position
    (whole bins below the home bin, then the fraction of the home bin) -/
def abfEnergy1D (p : AbfParams α) (s : AbfState α) (x : α) : α :=
  let lo := p.g.lo.getD 0 0.0; let w := p.g.w.getD 0 1.0; let nx := p.g.nx.getD 0 1
  let home0 := valueToBin lo w x
  if home0 < 0 then 0.0 else
  let home := if home0 < nx then home0 else nx - 1
  let term (i : Nat) : α := smoothInvWeight p (s.samples.getD i 0) * s.grad.getD i 0.0 * w
  let whole := ((List.range home.toNat).map term).foldl (· + ·) 0.0
  let y := (x - lo) / w
  let frac := y - floorS y
  let sum := whole + term home.toNat * frac
  Neg.neg sum

/-- the sample recorded at a step, if any: (bin it is attributed to, force sample) -/
def abfEvent (p : AbfParams α) (s : AbfState α) (i : AbfIn α) : Option (List Int × List α) :=
  let bin := binsOf p.g i.xs
  let fbin := if p.tfCurrent then bin else s.forceBin
  if i.elig && p.updateBias && i.timingOk && indexOk p.g.nx fbin then some (fbin, systemForce p s i.ft) else none

/-- one `update()`; returns the new state and the biasing force applied at this step -/
def abfStep (p : AbfParams α) (s : AbfState α) (i : AbfIn α) : AbfState α × List α :=
  let bin := binsOf p.g i.xs
  let s1 := match abfEvent p s i with
    | some (fbin, sf) => accForce p s fbin sf
    | none => s
  let force := if p.applyBias && indexOk p.g.nx bin then biasingForce p s1 bin
               else List.replicate (nvars p) 0.0
  ({ s1 with forceBin := bin, lastForce := force }, force)

/-- run a history, collecting the applied forces -/
def abfRun (p : AbfParams α) (s : AbfState α) : List (AbfIn α) → AbfState α × List (List α)
  | [] => (s, [])
  | i :: is =>
    let (s1, f) := abfStep p s i
    let (s2, fs) := abfRun p s1 is
    (s2, f :: fs)

/-- the events (recorded samples) of a history -/
def abfEvents (p : AbfParams α) (s : AbfState α) : List (AbfIn α) → List (List Int × List α)
  | [] => []
  | i :: is =>
    let ev := abfEvent p s i
    let rest := abfEvents p (abfStep p s i).1 is
    match ev with
    | some e => e :: rest
    | none => rest

end Cv
