/-
  C09 — the core of the configuration parser, mirrored over lists of characters:
  `colvarparse::key_lookup` (colvarparse.cpp 663–853), `check_braces` (1023–1034),
  comment stripping of `getline_nocomments` (647–656), `to_lower_cppstr`.
  `std::string` searches return `npos`; here `none`.  The two loops of `key_lookup` take fuel
  (`|conf| + 2` always suffices: see CvProps/C09.lean).
-/
namespace Cv.Parse

abbrev Str := List Char

def whiteSpace : Str := [' ', '\t']
def delimLeft : Str := ['\n', ' ', '\t', '}']
def delimRight : Str := ['\n', ' ', '\t', '{']

def lowerC (c : Char) : Char := if 'A' ≤ c ∧ c ≤ 'Z' then Char.ofNat (c.toNat + 32) else c
def lower (s : Str) : Str := s.map lowerC

/-- `s.find(pat, pos)` -/
def findFrom (s pat : Str) (pos : Nat) : Option Nat :=
  let n := s.length; let m := pat.length
  if pos > n then none else
  (List.range (n + 1 - pos)).findSome? fun k =>
    let i := pos + k
    if i + m ≤ n ∧ (s.drop i).take m = pat then some i else none

/-- `s.rfind(c, pos)`: last index `≤ pos` holding `c` -/
def rfindChar (s : Str) (c : Char) (pos : Nat) : Option Nat :=
  ((List.range (min (pos + 1) s.length)).reverse).find? fun i => s[i]? = some c

/-- `s.find_first_of(set, pos)` -/
def findFirstOf (s set : Str) (pos : Nat) : Option Nat :=
  ((List.range s.length).drop pos).find? fun i => match s[i]? with | some c => set.contains c | none => false

/-- `s.find_first_not_of(set, pos)` -/
def findFirstNotOf (s set : Str) (pos : Nat) : Option Nat :=
  ((List.range s.length).drop pos).find? fun i => match s[i]? with | some c => !set.contains c | none => false

/-- `s.find_last_not_of(set)` -/
def findLastNotOf (s set : Str) (upto : Option Nat := none) : Option Nat :=
  let hi := match upto with | some p => min (p + 1) s.length | none => s.length
  ((List.range hi).reverse).find? fun i => match s[i]? with | some c => !set.contains c | none => false

def findLastOf (s : Str) (c : Char) : Option Nat :=
  ((List.range s.length).reverse).find? fun i => s[i]? = some c

/-- `check_braces(conf, start_pos)`: true = COLVARS_OK (as many `{` as `}` from `start_pos` on) -/
def checkBraces (conf : Str) (start : Nat) : Bool :=
  let r := (conf.drop start).foldl (fun (n : Int) c => if c = '{' then n + 1 else if c = '}' then n - 1 else n) 0
  r == 0

/-- comment stripping of one line -/
def stripComment (line : Str) : Str := line.takeWhile (· ≠ '#')

/-- is the occurrence of `key` at `pos` an isolated keyword? (lines 702–734) -/
def isolated (conf confLower key : Str) (pos : Nat) : Bool :=
  let left :=
    if pos > 0 then
      match conf[pos - 1]? with
      | some c =>
        if !delimLeft.contains c then false else
        let lineBegin := match rfindChar confLower '\n' pos with | some pl => pl + 1 | none => 0
        let firstText := match findFirstNotOf confLower delimLeft lineBegin with | some p => p | none => pos
        !(firstText < pos)
      | none => true
    else true
  -- `pos < conf.size() - key.size() - 1` in size_t arithmetic
  let bound := (conf.length + 2 ^ 64 - key.length - 1) % 2 ^ 64
  let right :=
    if pos < bound then
      match conf[pos + key.length]? with
      | some c => delimRight.contains c
      | none => false          -- `conf[size()]` is the terminating NUL: not a delimiter
    else true
  left && right && checkBraces conf pos

inductive Lookup where
  | notFound
  | found (pos : Nat) (data : Str) (savePos : Nat)   -- keyword position, its value, `*save_pos` on return
  | parseError                                        -- "reached the end while looking for closing brace"
  | outOfFuel
deriving Repr, DecidableEq

/-- the search loop (lines 688–743) -/
def searchKey (conf confLower key : Str) : Nat → Option Nat → Option (Option Nat)
  | 0, _ => none                                  -- out of fuel
  | _, none => some none
  | fuel + 1, some pos =>
    if isolated conf confLower key pos then some (some pos)
    else searchKey conf confLower key fuel (findFrom confLower key (pos + key.length))

/-- count braces of `line` from `from_` on, starting with `count`; returns the index where the count reaches 0 -/
def scanBraces (line : Str) : Nat → Int → Nat → Option Nat × Int × Option Nat
  -- (position where count hit 0, final count, last brace seen)
  | from_, count, fuel =>
    match fuel with
    | 0 => (none, count, none)
    | fuel + 1 =>
      match findFirstOf line ['{', '}'] from_ with
      | none => (none, count, none)
      | some b =>
        let count' := if line[b]? = some '{' then count + 1 else count - 1
        if count' = 0 then (some b, 0, some b)
        else
          let r := scanBraces line (b + 1) count' fuel
          (r.1, r.2.1, match r.2.2 with | some l => some l | none => some b)

/-- assemble the (possibly multi-line) value and extract the data (lines 751–850) -/
def extractData (conf key : Str) (pos : Nat) (fuel : Nat) : Lookup :=
  let lineBegin := match rfindChar conf '\n' pos with | some pl => pl + 1 | none => 0
  let lineEnd := match findFrom conf ['\n'] pos with | some nl => nl | none => conf.length
  let line := (conf.drop lineBegin).take (lineEnd - lineBegin)
  match findFrom (lower line) key 0 with
  | none => .found pos [] lineEnd
  | some k0 =>
    match findFirstNotOf line whiteSpace (k0 + key.length + 1) with
    | none => .found pos [] lineEnd
    | some dataBegin0 =>
      match findFirstOf line ['{'] dataBegin0 with
      | none =>
        let dataEnd := match findLastNotOf line whiteSpace with | some e => e + 1 | none => line.length
        let data := if dataEnd > dataBegin0 then (line.drop dataBegin0).take (dataEnd - dataBegin0) else []
        .found pos data lineEnd
      | some brace0 =>
        -- extend the line until braces match
        let rec grow (line : Str) (lineEnd : Nat) (from_ : Nat) (count : Int) : Nat → Option (Str × Nat)
          | 0 => none
          | f + 1 =>
            let r := scanBraces line from_ count (line.length + 1)
            match r.1 with
            | some _ => some (line, lineEnd)
            | none =>
              if lineEnd ≥ conf.length then none else
              let nl := match findFrom conf ['\n'] (lineEnd + 1) with | some p => p | none => conf.length
              let last := match r.2.2 with | some l => l + 1 | none => from_
              grow (line ++ (conf.drop lineEnd).take (nl - lineEnd)) nl last r.2.1 f
        match grow line lineEnd (brace0 + 1) 1 fuel with
        | none => .parseError
        | some (line', lineEnd') =>
          let db := match findFirstOf line' ['{'] 0 with | some b => b + 1 | none => 0
          let dataBegin := findFirstNotOf line' whiteSpace db
          let lastBrace := match findLastOf line' '}' with | some b => b | none => 0
          let dataEnd := match findLastNotOf line' whiteSpace (some (lastBrace - 1)) with | some e => e + 1 | none => 0
          match dataBegin with
          | none => .found pos [] lineEnd'
          | some dbeg =>
            let data := if dataEnd > dbeg then (line'.drop dbeg).take (dataEnd - dbeg) else []
            .found pos data lineEnd'

/-- `key_lookup(conf, key, &data, &save_pos)` starting the search at `start` -/
def keyLookup (conf keyIn : Str) (start : Nat := 0) : Lookup :=
  let key := lower keyIn
  let confLower := lower conf
  match searchKey conf confLower key (conf.length + 2) (findFrom confLower key start) with
  | none => .outOfFuel
  | some none => .notFound
  | some (some pos) => extractData conf key pos (conf.length + 2)

end Cv.Parse
