/-
  C14 (second half) — the file protocol of multiple-walker metadynamics without grids
  (`colvarbias_meta::setup_output`, `update_bias`, `replica_share`, `read_replica_files`, `write_state_to_replicas`,
  `write_replica_state_file`, `reopen_replica_buffer_file`, `read_hill`; colvarbias_meta.cpp).

  Every walker publishes two files: a *state file* (its step and all its hills at the time of writing, replaced
  atomically by rename) and a *hills file* (the hills deposited since the state file was written; removed and started
  again right after each state file).  Hills reach the hills file when the walker flushes its stream: at its own
  exchanges and when the file is closed.  A reader keeps, for every peer, a *mirror* (list of hills), the step of the
  state it read last, a read position in the peer's hills file and a flag saying whether the state it read is still
  current; the flag is cleared when the hills file is found shorter than the read position and after each of the
  reader's own state writes.

  A hill is identified by the step at which it was deposited (a walker deposits at most one hill per step); all hill
  records of a file have the same length, so read positions are counted in records.
-/
namespace Cv.Walkers

/-- what one walker has written -/
structure Writer where
  hills : List Nat := []                       -- everything deposited so far, in order
  pending : List Nat := []                     -- written to the stream, not yet in the hills file
  file : List Nat := []                        -- complete records of the hills file
  state : Option (Nat × List Nat) := none      -- the published state file: step and hills
  deriving Repr

/-- what one walker holds about one peer -/
structure Reader where
  mirror : List Nat := []
  stateStep : Nat := 0
  pos : Nat := 0
  inSync : Bool := false
  hasData : Bool := false
  deriving Repr

def Writer.deposit (w : Writer) (it : Nat) : Writer :=
  { w with hills := w.hills ++ [it], pending := w.pending ++ [it] }

def Writer.flush (w : Writer) : Writer := { w with file := w.file ++ w.pending, pending := [] }

/-- `write_replica_state_file`: temporary file renamed over the state file -/
def Writer.publish (w : Writer) (it : Nat) : Writer := { w with state := some (it, w.hills) }

/-- `reopen_replica_buffer_file`: close (which flushes), remove, create again -/
def Writer.restart (w : Writer) : Writer := { w with file := [], pending := [] }

/-- the end of a hills file is cut inside its last `k` records -/
def Writer.truncate (w : Writer) (k : Nat) : Writer := { w with file := w.file.take (w.file.length - k) }

/-- `read_replica_files` for one peer -/
def Reader.sync (r : Reader) (w : Writer) : Reader :=
  -- the hills file is shorter than what was read from it: the peer has started a new one
  let r1 : Reader := if r.pos > 0 && decide (w.file.length < r.pos) then { r with inSync := false } else r
  -- (re)read the state
  let r2 : Reader :=
    if !r1.hasData || !r1.inSync then
      match w.state with
      | some (st, hs) => { r1 with mirror := hs, stateStep := st, inSync := true, hasData := true, pos := 0 }
      | none => r1
    else r1
  let r3 : Reader := if !r2.inSync then { r2 with pos := 0 } else r2
  -- the hills added after the state was written: those not newer than the state are skipped
  let fresh := (w.file.drop r3.pos).filter fun h => decide (h > r3.stateStep)
  { r3 with mirror := r3.mirror ++ fresh, pos := w.file.length }

/-- after its own state write a walker schedules a re-read of every peer's state -/
def Reader.ownWrite (r : Reader) : Reader := { r with inSync := false }

/-! ### one writer and one reader under an arbitrary schedule -/

inductive Ev where
  | step (deposit : Bool)   -- the writer's clock advances; it may deposit a hill stamped with the new step
  | flush                   -- the writer's own exchange flushes its stream
  | publish                 -- first half of a state write
  | restart                 -- second half (a walker killed in between never does this)
  | sync                    -- the reader's exchange
  | ownWrite                -- the reader wrote its own state
  deriving Repr, DecidableEq

structure Pair where
  clock : Nat := 0
  w : Writer := { state := some (0, []) }      -- `setup_output` publishes a first state
  r : Reader := {}
  deriving Repr

def Pair.apply (p : Pair) : Ev → Pair
  | .step d => let c := p.clock + 1; { p with clock := c, w := if d then p.w.deposit c else p.w }
  | .flush => { p with w := p.w.flush }
  | .publish => { p with w := p.w.publish p.clock }
  | .restart => { p with w := p.w.restart }
  | .sync => { p with r := p.r.sync p.w }
  | .ownWrite => { p with r := p.r.ownWrite }

def run (evs : List Ev) : Pair := evs.foldl Pair.apply {}

/-- what a reader that reads the state and then the whole hills file obtains: the hills of the published state followed
    by the flushed hills newer than it -/
def Writer.visible (w : Writer) : List Nat :=
  match w.state with
  | some (st, hs) => hs ++ w.file.filter fun h => decide (h > st)
  | none => w.file

end Cv.Walkers
