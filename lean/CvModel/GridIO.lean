import CvModel.Grid
import CvModel.Value
/-
  C15 (second half) — a grid written in multicolumn, restart or raw form and read back
  (`colvar_grid<T>::write_multicol / read_multicol`, `write_restart / read_restart`, `write_raw / read_raw`,
  `get_state_params / parse_params`, colvargrid_def.h).

  Files are modelled as sequences of tokens (numbers are not formatted: 14-digit printing is outside the model):
  * multicolumn: `# nd`, then per dimension `# lower width npoints periodic`, then for every grid point in address
    order the coordinates of the bin centre followed by the `mult` values;
  * raw: the `mult` values of every grid point in address order;
  * restart: the parameter block (number of variables, lower / upper boundaries, widths, sizes) followed by raw.
-/
namespace Cv.GridIO
variable {α : Type} [Sc α]

inductive Tok (α : Type) where
  | hash
  | int (n : Int)
  | real (x : α)

/-- what a grid file describes -/
structure GridFile (α : Type) where
  nx : List Int
  lo : List α
  w : List α
  per : List Bool
  mult : Nat
  /-- `mult` values per grid point, in address order -/
  data : List α

def npoints (nx : List Int) : Nat := (ntOf 1 nx).toNat

/-- all index vectors in address order -/
def indices (nx : List Int) : List (List Int) := enumerate nx (npoints nx + 1) (nx.map fun _ => 0)

/-- `write_multicol` -/
def encodeMulticol (g : GridFile α) : List (Tok α) :=
  let header : List (Tok α) :=
    [Tok.hash, Tok.int g.nx.length] ++
    (List.range g.nx.length).flatMap fun i =>
      [Tok.hash, Tok.real (g.lo.getD i 0.0), Tok.real (g.w.getD i 1.0), Tok.int (g.nx.getD i 0),
       Tok.int (if g.per.getD i false then 1 else 0)]
  let body : List (Tok α) :=
    ((indices g.nx).zipIdx).flatMap fun (ix, k) =>
      ((List.range g.nx.length).map fun i => Tok.real (binToValue (g.lo.getD i 0.0) (g.w.getD i 1.0) (ix.getD i 0))) ++
      ((List.range g.mult).map fun m => Tok.real (g.data.getD (k * g.mult + m) 0.0))
  header ++ body

/-- read `n` reals -/
def takeReals : Nat → List (Tok α) → Option (List α × List (Tok α))
  | 0, ts => some ([], ts)
  | n + 1, Tok.real x :: ts => (takeReals n ts).map fun r => (x :: r.1, r.2)
  | _, _ => none

/-- the header of one dimension -/
def readDim : List (Tok α) → Option ((α × α × Int × Bool) × List (Tok α))
  | Tok.hash :: Tok.real lo :: Tok.real w :: Tok.int n :: Tok.int p :: ts => some ((lo, w, n, p != 0), ts)
  | _ => none

def readDims : Nat → List (Tok α) → Option (List (α × α × Int × Bool) × List (Tok α))
  | 0, ts => some ([], ts)
  | n + 1, ts =>
    match readDim ts with
    | none => none
    | some (d, ts') => (readDims n ts').map fun r => (d :: r.1, r.2)

/-- the body when the file's grid is the reader's grid: coordinates are skipped, values stored in address order -/
def readBody (nd mult : Nat) : Nat → List (Tok α) → Option (List α)
  | 0, _ => some []
  | n + 1, ts =>
    match takeReals nd ts with
    | none => none
    | some (_, ts1) =>
      match takeReals mult ts1 with
      | none => none
      | some (vals, ts2) => (readBody nd mult n ts2).map fun r => vals ++ r

/-- the constructor from a multicolumn file (sizes, boundaries, widths, periodicity from the header) followed by
    `read_multicol` on the same stream -/
def decodeMulticol (mult : Nat) : List (Tok α) → Option (GridFile α)
  | Tok.hash :: Tok.int nd :: ts =>
    match readDims nd.toNat ts with
    | none => none
    | some (dims, body) =>
      let nx := dims.map fun d => d.2.2.1
      match readBody nd.toNat mult (npoints nx) body with
      | none => none
      | some data => some { nx := nx, lo := dims.map (·.1), w := dims.map (·.2.1), per := dims.map (·.2.2.2), mult := mult, data := data }
  | _ => none

/-- `write_raw` / `read_raw` on a grid of known shape -/
def encodeRaw (g : GridFile α) : List (Tok α) := (g.data.take (npoints g.nx * g.mult)).map Tok.real
def decodeRaw (shape : GridFile α) (ts : List (Tok α)) : Option (GridFile α) :=
  (takeReals (npoints shape.nx * shape.mult) ts).map fun r => { shape with data := r.1 }

/-- `write_restart`: parameter block, then raw; `read_restart` re-creates the grid from the block -/
def encodeRestart (g : GridFile α) : List (Tok α) :=
  [Tok.int g.nx.length] ++ g.lo.map Tok.real ++
  (List.zipWith (fun (lw : α × α) (n : Int) => Tok.real (lw.1 + lw.2 * (n : α))) (g.lo.zip g.w) g.nx) ++
  g.w.map Tok.real ++ g.nx.map Tok.int ++ encodeRaw g

def takeInts : Nat → List (Tok α) → Option (List Int × List (Tok α))
  | 0, ts => some ([], ts)
  | n + 1, Tok.int x :: ts => (takeInts n ts).map fun r => (x :: r.1, r.2)
  | _, _ => none

/-- the reader knows the periodicity flags and the multiplicity from its configuration -/
def decodeRestart (per : List Bool) (mult : Nat) : List (Tok α) → Option (GridFile α)
  | Tok.int nd :: ts =>
    match takeReals nd.toNat ts with
    | none => none
    | some (lo, t1) =>
      match takeReals nd.toNat t1 with
      | none => none
      | some (_, t2) =>
        match takeReals nd.toNat t2 with
        | none => none
        | some (w, t3) =>
          match takeInts nd.toNat t3 with
          | none => none
          | some (nx, t4) => decodeRaw { nx := nx, lo := lo, w := w, per := per, mult := mult, data := [] } t4
  | _ => none

/-! ### periodicity flags of a grid whose boundaries are replaced by a restart block

  `colvar_grid<T>::parse_params` (colvargrid_def.h 236–312) replaces boundaries, widths and sizes by those of the block and, when
  anything changed, calls `init_from_boundaries()` (colvargrid.h 383–420), which **re-derives each dimension's periodicity flag
  from the boundaries just read**: `colvar::periodic_boundaries(lb, ub)` (colvar.cpp 2260) — the variable has a period and the
  (periodic) distance between the two boundaries is below `1e-10` of the variable's width, i.e. the interval is a whole
  number of periods.  The flags the reader had before play no role. -/

/-- `colvar::periodic_boundaries(lb, ub)` -/
def periodicFlag (period : Option α) (cvWidth lo hi : α) : Bool :=
  match period with
  | none => false
  | some P => decide (Prim.sqrt (Cv.dist2S (some P) lo hi) / cvWidth < 1.0e-10)

/-- flags of every dimension from its boundaries (`hi` as written in the block) -/
def flagsOf (periods : List (Option α)) (cvWidths lo hi : List α) : List Bool :=
  (List.range lo.length).map fun i =>
    periodicFlag (periods.getD i none) (cvWidths.getD i 1.0) (lo.getD i 0.0) (hi.getD i 0.0)

/-- `read_restart` into a grid on variables with the given periods: shape and data from the file, flags from the file's
    boundaries -/
def decodeRestartOn (periods : List (Option α)) (cvWidths : List α) (mult : Nat) : List (Tok α) → Option (GridFile α)
  | Tok.int nd :: ts =>
    match takeReals nd.toNat ts with
    | none => none
    | some (lo, t1) =>
      match takeReals nd.toNat t1 with
      | none => none
      | some (hi, t2) =>
        match takeReals nd.toNat t2 with
        | none => none
        | some (w, t3) =>
          match takeInts nd.toNat t3 with
          | none => none
          | some (nx, t4) =>
            decodeRaw { nx := nx, lo := lo, w := w, per := flagsOf periods cvWidths lo hi, mult := mult, data := [] } t4
  | _ => none

/-- upper boundaries as `write_restart` prints them -/
def uppers (g : GridFile α) : List α :=
  List.zipWith (fun (lw : α × α) (n : Int) => lw.1 + lw.2 * (n : α)) (g.lo.zip g.w) g.nx

/-! ### gradient grids linked to a count grid (`colvar_grid_gradient::value_output / value_input`)

  A gradient grid stores, per grid point and per variable, the *sum* of the samples; its count grid stores the number of
  samples of the point.  Multicolumn files carry the *average* (`value_output`: sum / count, 0 where the count is 0) and
  reading multiplies by the count again (`value_input`: plain read uses the count grid's value, which is read first; a read
  with `add = true` — the `inputPrefix` path of ABF — adds `value × newly read count` to what the grid holds and adds the
  counts).  Raw and restart forms go through the same `value_output` / `value_input` pair, so they carry averages too.
  Count files themselves are integer files and are taken as read back exactly. -/

def pointCount (mult : Nat) (cnt : List Nat) (a : Nat) : Nat := cnt.getD (a / mult) 0

def gradOut (mult : Nat) (data : List α) (cnt : List Nat) : List α :=
  data.zipIdx.map fun (da : α × Nat) =>
    if pointCount mult cnt da.2 > 0 then da.1 / ((pointCount mult cnt da.2 : Nat) : α) else 0.0

def gradIn (mult : Nat) (vals : List α) (cnt : List Nat) : List α :=
  vals.zipIdx.map fun (va : α × Nat) => va.1 * ((pointCount mult cnt va.2 : Nat) : α)

def gradInAdd (mult : Nat) (old vals : List α) (newCnt : List Nat) : List α :=
  List.zipWith (· + ·) old (gradIn mult vals newCnt)

def countInAdd (old new : List Nat) : List Nat := List.zipWith (· + ·) old new

/-- write a gradient grid (and its count grid, when there is one) as multicolumn files and read them into grids that hold
    `old` / `oldCnt` (`add = true`) or nothing (`add = false`); returns the data and the counts of the reading grids -/
def gradMulticolRoundTrip (g : GridFile α) (cnt : Option (List Nat)) (add : Bool) : Option (List α × List Nat) :=
  let out : List α := match cnt with
    | some c => gradOut g.mult g.data c
    | none => g.data
  match decodeMulticol g.mult (encodeMulticol { g with data := out }) with
  | none => none
  | some b =>
    match cnt with
    | some c =>
      if add then some (gradInAdd g.mult g.data b.data c, countInAdd c c)
      else some (gradIn g.mult b.data c, c)
    | none =>
      if add then some (List.zipWith (· + ·) g.data b.data, []) else some (b.data, [])

/-- the same through the raw form (`restart = true`: preceded by the parameter block) -/
def gradRawRoundTrip (g : GridFile α) (cnt : Option (List Nat)) (restart : Bool) : Option (List α × List Nat) :=
  let out : List α := match cnt with
    | some c => gradOut g.mult g.data c
    | none => g.data
  let back := if restart then decodeRestart (g.per.map fun _ => false) g.mult (encodeRestart { g with data := out })
              else decodeRaw { g with data := [] } (encodeRaw { g with data := out })
  match back with
  | none => none
  | some b =>
    match cnt with
    | some c => some (gradIn g.mult b.data c, c)
    | none => some (b.data, [])

end Cv.GridIO
