import CvModel.Value
import CvModel.Engine
/-
  C06 — restraints on scalar (possibly periodic) variables: colvarbias_restraint.cpp
  potentials (harmonic 809–827, walls 1063–1116, linear 1240–1259), moving centres (329–427),
  changing force constant with lambda schedule / decoupling / TI (585–691).
-/
namespace Cv
variable {α : Type} [Sc α]

inductive RKind where
  | harmonic | walls | linear
deriving Repr, DecidableEq, Inhabited

structure RParams (α : Type) where
  kind : RKind
  widths : List α
  per : List (Option α)                 -- period of each variable (none = not periodic)
  wrapC : List α
  centers0 : List α := []               -- `initial_centers` (harmonic, linear)
  targetCenters : Option (List α) := none      -- `b_chg_centers`
  chgK : Bool := false                   -- `b_chg_force_k`
  startK : α                             -- `starting_force_k`
  targetK : α                            -- `target_force_k`
  decoupling : Bool := false
  lambdaExp : α
  lambdaSchedule : List α := []
  nsteps : Int := 0                      -- `target_nsteps`
  nstages : Int := 0                     -- `target_nstages` (= |lambdaSchedule| - 1 when a schedule is given)
  equil : Int := 0                       -- `target_equil_steps`
  firstStep : Int := 0
  outputWork : Bool := false
  lowerWalls : Option (List α) := none
  upperWalls : Option (List α) := none
  lowerK : α                             -- relative constants after `init`
  upperK : α

structure RState (α : Type) where
  centers : List α
  centersIncr : List α
  k : α                                  -- `force_k`
  kIncr : α                              -- `force_k_incr`
  stage : Int := 0
  accWork : α
  restraintFE : α
  tiOut : List (α × α) := []             -- (lambda, dA/dLambda) lines printed so far

def nvarsR (p : RParams α) : Nat := p.widths.length

/-- `colvar::wrap` of a centre -/
def wrapVar (per : Option α) (c x : α) : α :=
  match per with
  | none => x
  | some p => wrapS p c x

/-- `update_centers(lambda)`: interpolate, record the increment, wrap -/
def updateCenters (p : RParams α) (s : RState α) (tgt : List α) (lam : α) : RState α :=
  let cnew := List.zipWith (fun c0 c1 => lerpS c0 c1 lam) p.centers0 tgt
  -- `0.5 * variables(i)->dist2_lgrad(c_new, colvar_centers[i])`: the shortest-image difference for periodic variables
  let incr := List.zipWith (fun (pc : Option α × α) co => 0.5 * dist2SGrad pc.1 pc.2 co) (p.per.zip cnew) s.centers
  let wrapped := List.zipWith (fun (pc : Option α × α) c => wrapVar pc.1 pc.2 c) (p.per.zip p.wrapC) cnew
  { s with centers := wrapped, centersIncr := incr }

def zeros (n : Nat) : List α := List.replicate n 0.0

/-- `colvarbias_restraint_centers_moving::update` -/
def centersMovingUpdate (p : RParams α) (c : Clock) (s : RState α) : RState α :=
  match p.targetCenters with
  | none => s
  | some tgt =>
    let s1 :=
      if p.nstages ≠ 0 then
        if s.stage ≤ p.nstages then
          if c.stepRelative > 0 ∧ c.cont = false ∧ Int.tmod (c.it - p.firstStep) p.nsteps = 1 then
            let lam : α := (s.stage : α) / (p.nstages : α)
            let s' := updateCenters p s tgt lam
            { s' with stage := s.stage + 1 }
          else { s with centersIncr := zeros (nvarsR p) }
        else s
      else
        if c.it - p.firstStep ≤ p.nsteps then
          let lam : α := ((c.it - p.firstStep : Int) : α) / (p.nsteps : α)
          updateCenters p s tgt lam
        else { s with centersIncr := zeros (nvarsR p) }
    if c.stepRelative = 0 then { s1 with centersIncr := zeros (nvarsR p) } else s1

/-- lambda of a stage -/
def stageLambda (p : RParams α) (stage : Int) : α :=
  if p.lambdaSchedule.length ≠ 0 then p.lambdaSchedule.getD stage.toNat 0.0
  else
    let l : α := (stage : α) / (p.nstages : α)
    if p.decoupling then 1.0 - l else l

def kOfLambda (p : RParams α) (lam : α) : α :=
  p.startK + (p.targetK - p.startK) * Prim.pow lam p.lambdaExp

/-- the scalar "distance" the wall potential acts on (`colvar_distance`) -/
def wallDistance (p : RParams α) (i : Nat) (x : α) : α :=
  let per := (p.per.getD i none)
  let lw := p.lowerWalls.map (·.getD i 0.0)
  let uw := p.upperWalls.map (·.getD i 0.0)
  match per with
  | some _ =>
    let l := lw.getD 0.0; let u := uw.getD 0.0
    if dist2S per x l < dist2S per x u then
      let g := dist2SGrad per x l
      if g < 0.0 then 0.5 * g else 0.0
    else
      let g := dist2SGrad per x u
      if g > 0.0 then 0.5 * g else 0.0
  | none =>
    let gl := lw.map (dist2SGrad none x ·)
    let gu := uw.map (dist2SGrad none x ·)
    match gl with
    | some g => if g < 0.0 then 0.5 * g else
        (match gu with | some g' => if g' > 0.0 then 0.5 * g' else 0.0 | none => 0.0)
    | none => (match gu with | some g' => if g' > 0.0 then 0.5 * g' else 0.0 | none => 0.0)

/-- `restraint_potential(i)`, `restraint_force(i)`, `d_restraint_potential_dk(i)` for force constant `k` -/
def rPotential (p : RParams α) (k : α) (centers : List α) (i : Nat) (x : α) : α :=
  let w := p.widths.getD i 1.0
  match p.kind with
  | .harmonic => 0.5 * k / (w * w) * dist2S (p.per.getD i none) x (centers.getD i 0.0)
  | .linear => k / w * (x - centers.getD i 0.0)
  | .walls =>
    let d := wallDistance p i x
    let scale := if d > 0.0 then p.upperK else p.lowerK
    0.5 * k * scale / (w * w) * d * d

def rForce (p : RParams α) (k : α) (centers : List α) (i : Nat) (x : α) : α :=
  let w := p.widths.getD i 1.0
  match p.kind with
  | .harmonic => -0.5 * k / (w * w) * dist2SGrad (p.per.getD i none) x (centers.getD i 0.0)
  | .linear => -1.0 * k / w * 1.0
  | .walls =>
    let d := wallDistance p i x
    let scale := if d > 0.0 then p.upperK else p.lowerK
    let r := -k * scale / (w * w) * d
    r

def rDUdk (p : RParams α) (centers : List α) (i : Nat) (x : α) : α :=
  let w := p.widths.getD i 1.0
  match p.kind with
  | .harmonic => 0.5 / (w * w) * dist2S (p.per.getD i none) x (centers.getD i 0.0)
  | .linear => 1.0 / w * (x - centers.getD i 0.0)
  | .walls =>
    let d := wallDistance p i x
    let scale := if d > 0.0 then p.upperK else p.lowerK
    0.5 * scale / (w * w) * d * d

def sumDUdk (p : RParams α) (centers : List α) (xs : List α) : α :=
  ((List.range xs.length).map fun i => rDUdk p centers i (xs.getD i 0.0)).foldl (· + ·) 0.0

/-- `colvarbias_restraint_k_moving::update` -/
def kMovingUpdate (p : RParams α) (c : Clock) (s : RState α) (xs : List α) : RState α :=
  if !p.chgK then s else
  if p.nstages ≠ 0 then
    -- first step of the schedule: set the initial force constant
    let s1 := if c.it = p.firstStep then
        let lam : α := if p.lambdaSchedule.length ≠ 0 then p.lambdaSchedule.getD 0 0.0
                       else (if p.decoupling then 1.0 else 0.0)
        { s with k := kOfLambda p lam }
      else s
    let lam := stageLambda p s1.stage
    -- a step that repeats the last step of the previous run was already accounted for
    let repeated : Bool := (decide (c.stepRelative = 0) && decide (c.it > p.firstStep)) || c.cont
    -- TI accumulation after the equilibration part of the stage
    let s2 := if repeated = false ∧ (c.it > p.firstStep ∨ p.equil > 0) ∧ (p.equil = 0 ∨ Int.tmod (c.it - p.firstStep) p.nsteps ≥ p.equil) then
        { s1 with restraintFE := s1.restraintFE +
            p.lambdaExp * Prim.pow lam (p.lambdaExp - 1.0) * (p.targetK - p.startK) * sumDUdk p s1.centers xs }
      else s1
    -- end of the stage
    if repeated = false ∧ Int.tmod (c.it - p.firstStep) p.nsteps = 0 ∧ c.it > p.firstStep then
      let s3 := { s2 with tiOut := s2.tiOut ++ [(lam, s2.restraintFE / ((p.nsteps - p.equil : Int) : α))] }
      let s3 := { s3 with restraintFE := 0.0 }
      if s3.stage < p.nstages then
        let st := s3.stage + 1
        { s3 with stage := st, k := kOfLambda p (stageLambda p st) }
      else s3
    else s2
  else if c.it - p.firstStep ≤ p.nsteps then
    let l0 : α := ((c.it - p.firstStep : Int) : α) / (p.nsteps : α)
    let lam := if p.decoupling then 1.0 - l0 else l0
    let knew := kOfLambda p lam
    { s with k := knew, kIncr := knew - s.k }
  else { s with kIncr := 0.0 }

structure ROut (α : Type) where
  energy : α
  forces : List α

/-- one `update()` of a harmonic / harmonicWalls / linear restraint (simulation running) -/
def restraintStep (p : RParams α) (c : Clock) (s : RState α) (xs : List α) : RState α × ROut α :=
  let s1 := if p.kind = .walls then s else centersMovingUpdate p c s
  let s2 := kMovingUpdate p c s1 xs
  let idx := List.range xs.length
  let energy := (idx.map fun i => rPotential p s2.k s2.centers i (xs.getD i 0.0)).foldl (· + ·) 0.0
  let forces := idx.map fun i => rForce p s2.k s2.centers i (xs.getD i 0.0)
  -- accumulated work: centres first, then force constant
  let w1 := if p.targetCenters.isSome ∧ p.kind ≠ .walls ∧ p.outputWork ∧ c.stepRelative > 0 ∧ c.it - p.firstStep ≤ p.nsteps then
      (List.zipWith (· * ·) forces s2.centersIncr).foldl (· + ·) s2.accWork
    else s2.accWork
  let w2 := if p.chgK ∧ p.outputWork ∧ c.stepRelative > 0 then w1 + sumDUdk p s2.centers xs * s2.kIncr else w1
  ({ s2 with accWork := w2 }, { energy := energy, forces := forces })

end Cv
