import CvModel.Scalar
/-
  C01 / C02 / C07 — components on real atom groups (colvarcomp_distances.cpp, colvarcomp_angles.cpp, colvaratoms.cpp):
  value (`calc_value`), gradient on every atom (`calc_gradients` + `set_weighted_gradient`: the centre-of-mass gradient
  times mass/total mass), total force (`calc_force_invgrads`: projection of the atomic forces on the inverse
  gradients), and the polynomial combination of components into a variable (`colvar::collect_cvc_values`,
  `communicate_forces`).

  Modelled: distance, distanceZ (fixed axis), distanceZ with the axis through ref and ref2, distanceXY (fixed axis),
  gyration (positions taken from the centre of geometry), angle.  No periodic cell here (minimum image: C02 oracle).
-/
namespace Cv.Geom
variable {α : Type} [Sc α]

structure V3 (α : Type) where
  x : α
  y : α
  z : α
deriving Repr

namespace V3
def add (a b : V3 α) : V3 α := ⟨a.x + b.x, a.y + b.y, a.z + b.z⟩
def sub (a b : V3 α) : V3 α := ⟨a.x - b.x, a.y - b.y, a.z - b.z⟩
def smul (k : α) (a : V3 α) : V3 α := ⟨k * a.x, k * a.y, k * a.z⟩
def dot (a b : V3 α) : α := a.x * b.x + a.y * b.y + a.z * b.z
def zero : V3 α := ⟨0.0, 0.0, 0.0⟩
def norm2 (a : V3 α) : α := dot a a
def norm (a : V3 α) : α := Prim.sqrt (norm2 a)
/-- `rvector::unit()`: the vector itself when its norm is zero -/
def unit (a : V3 α) : V3 α := let n := norm a; if n > 0.0 then smul (1.0 / n) a else a
end V3

/-- an atom of a group: mass and position -/
structure Atom (α : Type) where
  m : α
  r : V3 α

abbrev AGroup (α : Type) := List (Atom α)

def totalMass (g : AGroup α) : α := g.foldl (fun s a => s + a.m) 0.0

/-- `center_of_mass()` -/
def com (g : AGroup α) : V3 α :=
  V3.smul (1.0 / totalMass g) (g.foldl (fun s a => V3.add s (V3.smul a.m a.r)) V3.zero)

/-- `center_of_geometry()` -/
def cog (g : AGroup α) : V3 α :=
  V3.smul (1.0 / (g.length : α)) (g.foldl (fun s a => V3.add s a.r) V3.zero)

/-- `set_weighted_gradient(v)`: every atom receives `v` times its share of the mass -/
def weighted (g : AGroup α) (v : V3 α) : List (V3 α) := g.map fun a => V3.smul (a.m / totalMass g) v

/-- total force on a group: sum of the atomic forces -/
def groupForce (f : List (V3 α)) : V3 α := f.foldl V3.add V3.zero

/-! ### distance -/
def distVec (g1 g2 : AGroup α) : V3 α := V3.sub (com g2) (com g1)
def distance (g1 g2 : AGroup α) : α := V3.norm (distVec g1 g2)
/-- gradients on the atoms of group1 and of group2 -/
def distanceGrad (g1 g2 : AGroup α) : List (V3 α) × List (V3 α) :=
  let u := V3.unit (distVec g1 g2)
  (weighted g1 (V3.smul (-1.0) u), weighted g2 u)
/-- `calc_force_invgrads` -/
def distanceTF (g1 g2 : AGroup α) (f1 f2 : List (V3 α)) (oneSite : Bool) : α :=
  let u := V3.unit (distVec g1 g2)
  if oneSite then -1.0 * V3.dot (groupForce f1) u
  else 0.5 * V3.dot (V3.sub (groupForce f2) (groupForce f1)) u

/-! ### distanceZ, fixed axis (normalised at configuration time) -/
def distanceZ (main ref : AGroup α) (axis : V3 α) : α := V3.dot (V3.unit axis) (V3.sub (com main) (com ref))
def distanceZGrad (main ref : AGroup α) (axis : V3 α) : List (V3 α) × List (V3 α) :=
  let e := V3.unit axis
  (weighted main e, weighted ref (V3.smul (-1.0) e))
def distanceZTF (main ref : AGroup α) (axis : V3 α) (fm fr : List (V3 α)) (oneSite : Bool) : α :=
  let e := V3.unit axis
  if oneSite then V3.dot (groupForce fm) e
  else 0.5 * V3.dot (V3.sub (groupForce fm) (groupForce fr)) e

/-! ### distanceZ with the axis through ref and ref2 -/
def distanceZ2 (main r1 r2 : AGroup α) : α :=
  let a := V3.sub (com r2) (com r1)
  let d := V3.sub (com main) (V3.smul 0.5 (V3.add (com r1) (com r2)))
  V3.dot (V3.unit a) d
def distanceZ2Grad (main r1 r2 : AGroup α) : List (V3 α) × List (V3 α) × List (V3 α) :=
  let a := V3.sub (com r2) (com r1)
  let an := V3.norm a
  let e := V3.unit a
  let x := distanceZ2 main r1 r2
  (weighted main e,
   weighted r1 (V3.smul (1.0 / an) (V3.add (V3.sub (com r1) (com main)) (V3.smul x e))),
   weighted r2 (V3.smul (1.0 / an) (V3.sub (V3.sub (com main) (com r2)) (V3.smul x e))))

/-! ### distanceXY, fixed axis -/
def orthoPart (main ref : AGroup α) (axis : V3 α) : V3 α :=
  let e := V3.unit axis
  let d := V3.sub (com main) (com ref)
  V3.sub d (V3.smul (V3.dot d e) e)
def distanceXY (main ref : AGroup α) (axis : V3 α) : α := V3.norm (orthoPart main ref axis)
def distanceXYGrad (main ref : AGroup α) (axis : V3 α) : List (V3 α) × List (V3 α) :=
  let o := orthoPart main ref axis
  let xinv := 1.0 / V3.norm o
  (weighted main (V3.smul xinv o), weighted ref (V3.smul (-1.0 * xinv) o))
def distanceXYTF (main ref : AGroup α) (axis : V3 α) (fm fr : List (V3 α)) (oneSite : Bool) : α :=
  let o := orthoPart main ref axis
  let x := V3.norm o
  if oneSite then 1.0 / x * V3.dot (groupForce fm) o
  else 0.5 / x * V3.dot (V3.sub (groupForce fm) (groupForce fr)) o

/-! ### gyration (positions relative to the centre of geometry) -/
def centered (g : AGroup α) : List (V3 α) := g.map fun a => V3.sub a.r (cog g)
def gyration (g : AGroup α) : α :=
  Prim.sqrt ((centered g).foldl (fun s p => s + V3.norm2 p) 0.0 / (g.length : α))
def gyrationGrad (g : AGroup α) : List (V3 α) :=
  let k := 1.0 / ((g.length : α) * gyration g)
  (centered g).map (V3.smul k)
def gyrationTF (g : AGroup α) (f : List (V3 α)) : α :=
  let k := 1.0 / gyration g
  (List.zipWith (fun p fi => k * V3.dot p fi) (centered g) f).foldl (· + ·) 0.0

/-! ### angle (degrees) -/
def radToDeg : α := 180.0 / 3.14159265358979323846
def angleCos (g1 g2 g3 : AGroup α) : α :=
  let r21 := V3.sub (com g1) (com g2)
  let r23 := V3.sub (com g3) (com g2)
  V3.dot r21 r23 / (V3.norm r21 * V3.norm r23)
def angle (g1 g2 g3 : AGroup α) : α := radToDeg * Prim.acos (angleCos g1 g2 g3)
def angleGrad (g1 g2 g3 : AGroup α) : List (V3 α) × List (V3 α) × List (V3 α) :=
  let r21 := V3.sub (com g1) (com g2)
  let r23 := V3.sub (com g3) (com g2)
  let l21 := V3.norm r21
  let l23 := V3.norm r23
  let c := angleCos g1 g2 g3
  let s := Prim.sqrt (1.0 - c * c)
  let k := radToDeg * (-1.0 / s)
  let d1 := V3.smul (k / l21) (V3.sub (V3.smul (1.0 / l23) r23) (V3.smul (c / l21) r21))
  let d3 := V3.smul (k / l23) (V3.sub (V3.smul (1.0 / l21) r21) (V3.smul (c / l23) r23))
  (weighted g1 d1, weighted g2 (V3.smul (-1.0) (V3.add d1 d3)), weighted g3 d3)

/-! ### a variable as a polynomial combination of components -/

/-- coefficient, integer exponent, component value -/
structure Term (α : Type) where
  c : α
  n : Nat
  q : α

def ipow (x : α) : Nat → α
  | 0 => 1.0
  | n + 1 => x * ipow x n

/-! ### inertia, inertiaZ (positions relative to the centre of geometry, as for gyration) -/
def inertia (g : AGroup α) : α := (centered g).foldl (fun s p => s + V3.norm2 p) 0.0
def inertiaGrad (g : AGroup α) : List (V3 α) := (centered g).map (V3.smul 2.0)

/-- the axis is normalised when the configuration is read -/
def inertiaZ (g : AGroup α) (axis : V3 α) : α :=
  let u := V3.unit axis
  (centered g).foldl (fun s p => s + V3.dot p u * V3.dot p u) 0.0
def inertiaZGrad (g : AGroup α) (axis : V3 α) : List (V3 α) :=
  let u := V3.unit axis
  (centered g).map fun p => V3.smul (2.0 * V3.dot p u) u

/-! ### distanceInv: generalised mean of the inverse distances between the atoms of two groups -/

/-- `integer_power(x, -k)` -/
def invPow (x : α) (k : Nat) : α := 1.0 / ipow x k

/-- the pairs (atom of group 1, atom of group 2) in the order of the double loop -/
def pairs (g1 g2 : AGroup α) : List (Atom α × Atom α) := g1.flatMap fun a => g2.map fun b => (a, b)

/-- `(1/(N1 N2) Σ d_ij^-n)^(-1/n)` for an even exponent `n` -/
def distanceInv (g1 g2 : AGroup α) (n : Nat) : α :=
  let s := (pairs g1 g2).foldl (fun acc ab => acc + invPow (V3.norm2 (V3.sub ab.2.r ab.1.r)) (n / 2)) 0.0
  Prim.pow (s * (1.0 / ((g1.length * g2.length : Nat) : α))) (-1.0 / (n : α))

/-- what one pair adds to the gradient of the sum on the atom of group 2 (the atom of group 1 gets the opposite) -/
def distanceInvPair (n : Nat) (a b : Atom α) : V3 α :=
  let dv := V3.sub b.r a.r
  let d2 := V3.norm2 dv
  V3.smul (-1.0 * ((n / 2 : Nat) : α) * invPow d2 (n / 2) / d2 * 2.0) dv

def distanceInvGrad (g1 g2 : AGroup α) (n : Nat) : List (V3 α) × List (V3 α) :=
  let x := distanceInv g1 g2 n
  let dxdsum := (-1.0 / (n : α)) * ipow x (n + 1) / ((g1.length * g2.length : Nat) : α)
  (g1.map fun a => V3.smul dxdsum (g2.foldl (fun acc b => V3.sub acc (distanceInvPair n a b)) V3.zero),
   g2.map fun b => V3.smul dxdsum (g1.foldl (fun acc a => V3.add acc (distanceInvPair n a b)) V3.zero))

/-! ### coordNum: sum of a switching function over the pairs of two groups -/

structure SwParams (α : Type) where
  r0 : α
  en : Nat          -- even
  ed : Nat          -- even
  tol : α           -- pair-list tolerance (0 when there is no pair list)

/-- `(1 - l^(n/2)) / (1 - l^(m/2))` in the squared reduced distance `l = (d / r0)²`, shifted by the tolerance and rescaled
    to [0, 1]; pairs whose value would be negative contribute nothing -/
def swRaw (p : SwParams α) (l2 : α) : α := (1.0 - ipow l2 (p.en / 2)) / (1.0 - ipow l2 (p.ed / 2))
def swValue (p : SwParams α) (l2 : α) : α :=
  let f := (swRaw p l2 - p.tol) / (1.0 - p.tol)
  if f < 0.0 then 0.0 else f

/-- derivative with respect to `l` (as repaired: of the unshifted function, rescaled like the function itself) -/
def swDeriv (p : SwParams α) (l2 : α) : α :=
  let xn := ipow l2 (p.en / 2)
  let xd := ipow l2 (p.ed / 2)
  let f := (swRaw p l2 - p.tol) / (1.0 - p.tol)
  if f < 0.0 then 0.0 else
  swRaw p l2 / (1.0 - p.tol) * (((p.ed / 2 : Nat) : α) * xd / ((1.0 - xd) * l2) - ((p.en / 2 : Nat) : α) * xn / ((1.0 - xn) * l2))

def reducedDist2 (p : SwParams α) (a b : Atom α) : α :=
  let d := V3.sub b.r a.r
  (d.x / p.r0) * (d.x / p.r0) + (d.y / p.r0) * (d.y / p.r0) + (d.z / p.r0) * (d.z / p.r0)

def coordNum (g1 g2 : AGroup α) (p : SwParams α) : α :=
  (pairs g1 g2).foldl (fun acc ab => acc + swValue p (reducedDist2 p ab.1 ab.2)) 0.0

/-- gradient of one pair on the atom of group 2 -/
def coordNumPair (p : SwParams α) (a b : Atom α) : V3 α :=
  V3.smul (swDeriv p (reducedDist2 p a b) * (2.0 / (p.r0 * p.r0))) (V3.sub b.r a.r)

def coordNumGrad (g1 g2 : AGroup α) (p : SwParams α) : List (V3 α) × List (V3 α) :=
  (g1.map fun a => g2.foldl (fun acc b => V3.sub acc (coordNumPair p a b)) V3.zero,
   g2.map fun b => g1.foldl (fun acc a => V3.add acc (coordNumPair p a b)) V3.zero)

/-- `collect_cvc_values`: x = Σ c qⁿ -/
def combine (ts : List (Term α)) : α := ts.foldl (fun s t => s + t.c * ipow t.q t.n) 0.0

/-- `communicate_forces`: the factor by which a force on the variable is multiplied before it is applied through
    the component's gradients: c n qⁿ⁻¹ -/
def termFactor (t : Term α) : α := if t.n = 0 then 0.0 else t.c * (t.n : α) * ipow t.q (t.n - 1)

/-- `collect_cvc_total_forces`: ft = Σ ftᵢ cᵢ / Σ cᵢ² over the components (coefficient, component total force) -/
def combineTF (ts : List (α × α)) : α :=
  ts.foldl (fun s t => s + t.2 * t.1) 0.0 / ts.foldl (fun s t => s + t.1 * t.1) 0.0

end Cv.Geom
