import CvModel.Grid
/-
  C16 — `integrate_potential` (colvargrid.cpp 540–1230, colvargrid.h 1767–1937) and the ABF call site
  (colvarbias_abf.cpp 370–376: `acc_force` then `update_div_neighbors`).

  * gradient grid: per bin the accumulated vector (minus the summed forces) and the sample count;
    `vector_value_smoothed` / `value_output_smoothed` divide by the count (or by the ABF ramp weight);
  * `get_grad`: the bin's averaged gradient, zero beyond a non-periodic edge (`wrap_detect_edge`);
  * `update_div_local`, `update_div_neighbors`, `set_div`: divergence at the points of the PMF grid (one more point than
    bins in every non-periodic dimension);
  * `integrate` in one dimension: running sum of (gradient − correction) × width;
  * `atimes`: the symmetric Laplacian with halved terms on non-periodic edges; `nr_linbcg_sym`: conjugate gradients.
-/
namespace Cv.Integ
variable {α : Type} [Sc α]

abbrev Idx := List Int

/-- sizes of the gradient grid and which dimensions are periodic -/
structure Shape where
  nx : List Int
  per : List Bool
deriving Repr

def Shape.nd (s : Shape) : Nat := s.nx.length

/-- the PMF grid has one more point in each non-periodic dimension (`add_extra_bin`) -/
def Shape.pmfNx (s : Shape) : List Int := List.zipWith (fun n p => if p then n else n + 1) s.nx s.per

/-- lower boundary of the surface's grid (`integrate_potential` constructors: shifted by half a bin in **every** dimension,
    periodic or not — values sit on the edges of the gradient bins, not at their centres) -/
def pmfLower {α : Type} [Sc α] (lo w : α) : α := lo - 0.5 * w

/-- `bin_to_value_scalar(j)` on the surface's grid: the coordinate at which the `j`-th value of the surface is reported -/
def pmfCoord {α : Type} [Sc α] (lo w : α) (j : Int) : α := pmfLower lo w + w * ((j : α) + 0.5)

/-- `wrap_detect_edge` on the gradient grid: the wrapped index, or `none` when a non-periodic coordinate is outside -/
def wrapEdge : List Int → List Bool → Idx → Option Idx
  | n :: ns, p :: ps, i :: is =>
    match wrapEdge ns ps is with
    | none => none
    | some r =>
      if p then some (Int.tmod (i + n) n :: r)
      else if i < 0 ∨ i ≥ n then none else some (i :: r)
  | _, _, _ => some []

structure GGrid (α : Type) where
  shape : Shape
  w : List α
  minS : Nat
  fullS : Nat
  /-- accumulated vector of each bin -/
  sum : Idx → List α
  /-- number of samples of each bin -/
  cnt : Idx → Nat

/-- `smooth_inverse_weight` (smoothed) or `1/weight` guarded against an empty bin -/
def invWeight (sm : Bool) (minS fullS weight : Nat) : α :=
  if sm then
    if weight ≤ minS then 0.0
    else if weight < fullS then ((weight : α) - (minS : α)) / ((weight : α) * ((fullS : α) - (minS : α)))
    else 1.0 / (weight : α)
  else if weight > 0 then 1.0 / (weight : α) else 0.0

/-- `get_grad` -/
def gradAt (g : GGrid α) (sm : Bool) (ix : Idx) : List α :=
  match wrapEdge g.shape.nx g.shape.per ix with
  | none => List.replicate g.shape.nd 0.0
  | some j => (g.sum j).map fun x => invWeight sm g.minS g.fullS (g.cnt j) * x

/-- offsets `{-1,0}^nd` of the bins around a PMF grid point -/
def cornersDown : Nat → List Idx
  | 0 => [[]]
  | n + 1 => (cornersDown n).flatMap fun c => [(-1) :: c, 0 :: c]

/-- offsets `{0,1}^nd` of the PMF grid points around a bin -/
def cornersUp : Nat → List Idx
  | 0 => [[]]
  | n + 1 => (cornersUp n).flatMap fun c => [0 :: c, 1 :: c]

def addIdx (a b : Idx) : Idx := List.zipWith (· + ·) a b

def halfPow : Nat → α
  | 0 => 1.0
  | n + 1 => 0.5 * halfPow n

/-- the d-th term of `update_div_local`: differences of the d-th gradient component across the point, summed over the
    surrounding bins, divided by the width -/
def divTerm (g : GGrid α) (sm : Bool) (p : Idx) (d : Nat) : α :=
  ((cornersDown g.shape.nd).foldl (fun s c =>
      let v := (gradAt g sm (addIdx p c)).getD d 0.0
      if c.getD d 0 == 0 then s + v else s - v) 0.0) / g.w.getD d 1.0

/-- `update_div_local` (2-D: factor 1/2, 3-D: 1/4) -/
def divLocal (g : GGrid α) (sm : Bool) (p : Idx) : α :=
  ((List.range g.shape.nd).foldl (fun acc d => acc + divTerm g sm p d) 0.0) * halfPow (g.shape.nd - 1)

/-- the divergence array, as a function of the PMF grid point -/
abbrev DivF (α : Type) := Idx → α

def updateDivLocal (g : GGrid α) (sm : Bool) (dv : DivF α) (p : Idx) : DivF α :=
  fun q => if q = p then divLocal g sm p else dv q

/-- `update_div_neighbors(ix0)`: the 2^nd points around bin `ix0`, wrapped on the PMF grid -/
def updateDivNeighbors (g : GGrid α) (sm : Bool) (dv : DivF α) (ix0 : Idx) : DivF α :=
  (cornersUp g.shape.nd).foldl (fun d e => updateDivLocal g sm d (wrapIdx g.shape.pmfNx g.shape.per (addIdx ix0 e))) dv

/-- `set_div` -/
def setDiv (g : GGrid α) (sm : Bool) : DivF α := fun q => divLocal g sm q

/-- `acc_force`: subtract the force from the bin's vector and count the sample -/
def accForce (g : GGrid α) (b : Idx) (f : List α) : GGrid α :=
  { g with
    sum := fun j => if j = b then List.zipWith (· - ·) (g.sum j) f else g.sum j
    cnt := fun j => if j = b then g.cnt j + 1 else g.cnt j }

/-- one ABF sample with on-the-fly integration -/
def sample (sm : Bool) (st : GGrid α × DivF α) (bf : Idx × List α) : GGrid α × DivF α :=
  let g' := accForce st.1 bf.1 bf.2
  (g', updateDivNeighbors g' sm st.2 bf.1)

def samples (sm : Bool) (st : GGrid α × DivF α) (l : List (Idx × List α)) : GGrid α × DivF α := l.foldl (sample sm) st

/-! ### one dimension -/

/-- `value_output_smoothed` of bin `i` of a 1-D gradient grid -/
def valOut (g : GGrid α) (sm : Bool) (i : Nat) : α :=
  invWeight sm g.minS g.fullS (g.cnt [(i : Int)]) * (g.sum [(i : Int)]).getD 0 0.0

/-- `colvar_grid_gradient::average(smoothed)` -/
def average1D (g : GGrid α) (sm : Bool) (n : Nat) : α :=
  ((List.range n).foldl (fun s i => s + valOut g sm i) 0.0) / (n : α)

/-- running sums `[0, v0, v0+v1, …]` (length `vals.length + 1`) -/
def prefixSums (acc : α) : List α → List α
  | [] => [acc]
  | v :: vs => acc :: prefixSums (acc + v) vs

/-- `integrate()` for nd = 1: `corrSm` is the flag the correction (mean gradient) is computed with -/
def integrate1D (g : GGrid α) (sm corrSm : Bool) : List α :=
  let n := (g.shape.nx.getD 0 0).toNat
  let per := g.shape.per.getD 0 false
  let corr : α := if per then average1D g corrSm n else 0.0
  let vals := (List.range n).map fun i => (valOut g sm i - corr) * g.w.getD 0 1.0
  let all := prefixSums 0.0 vals
  if per then all.take n else all

/-! ### the Laplacian (`atimes`) on flat vectors -/

def vget (A : List α) (i : Int) : α := if i < 0 then 0.0 else A.getD i.toNat 0.0

def shiftIdx (p : Idx) (d : Nat) (k : Int) : Idx := p.set d (p.getD d 0 + k)

/-- product over the other non-periodic dimensions of 1/2 when the point is on their edge -/
def lapFact (pnx : List Int) (per : List Bool) (p : Idx) (d : Nat) : α :=
  (List.range pnx.length).foldl (fun f e =>
    if e ≠ d ∧ !(per.getD e false) ∧ (p.getD e 0 == 0 || p.getD e 0 == pnx.getD e 0 - 1) then f * 0.5 else f) 1.0

/-- second difference along `d` (wrapped if periodic, one-sided on a non-periodic edge) -/
def stencil (pnx : List Int) (per : List Bool) (A : Idx → α) (p : Idx) (d : Nat) : α :=
  let n := pnx.getD d 0
  let i := p.getD d 0
  if per.getD d false then
    A (wrapIdx pnx per (shiftIdx p d (-1))) + A (wrapIdx pnx per (shiftIdx p d 1)) - 2.0 * A p
  else if i == 0 then A (shiftIdx p d 1) - A p
  else if i == n - 1 then A (shiftIdx p d (-1)) - A p
  else A (shiftIdx p d (-1)) + A (shiftIdx p d 1) - 2.0 * A p

def lapAt (pnx : List Int) (per : List Bool) (w : List α) (A : Idx → α) (p : Idx) : α :=
  (List.range pnx.length).foldl (fun acc d =>
    acc + lapFact pnx per p d * (1.0 / (w.getD d 1.0 * w.getD d 1.0)) * stencil pnx per A p d) 0.0

/-- all points of the PMF grid in address order -/
def points (pnx : List Int) : List Idx :=
  enumerate pnx ((ntOf 1 pnx).toNat + 1) (List.replicate pnx.length 0)

/-- `atimes`: vector in, vector out -/
def atimes (pnx : List Int) (per : List Bool) (w : List α) (A : List α) : List α :=
  (points pnx).map fun q => lapAt pnx per w (fun q' => vget A (address 1 pnx q')) q

/-! ### conjugate gradients (`nr_linbcg_sym`) over an abstract operator -/

/-- the accumulation loops of the solver run from index 0 upwards -/
def dotAcc (acc : α) : List α → List α → α
  | a :: as, b :: bs => dotAcc (acc + a * b) as bs
  | _, _ => acc

def dotL (a b : List α) : α := dotAcc 0.0 a b

def l2norm (x : List α) : α := Prim.sqrt (dotL x x)

/-- `x + a·p` -/
def axpy (a : α) (p x : List α) : List α := List.zipWith (fun xi pi => xi + a * pi) x p

structure Cg (α : Type) where
  x : List α
  r : List α
  p : List α
  bkden : α
  iter : Nat
  err : α
  stop : Bool

/-- one pass of the `while` body -/
def cgIter (L : List α → List α) (bnrm tol : α) (s : Cg α) : Cg α :=
  let iter := s.iter + 1
  let bknum := dotL s.r s.r
  let p := if iter == 1 then s.r else axpy (bknum / s.bkden) s.p s.r
  let z := L p
  let akden := dotL z p
  let ak := bknum / akden
  let x := axpy ak p s.x
  let r := axpy (-ak) z s.r
  let err := l2norm r / bnrm
  { x := x, r := r, p := p, bkden := bknum, iter := iter, err := err, stop := decide (err ≤ tol) }

def cgLoop (L : List α → List α) (bnrm tol : α) : Nat → Cg α → Cg α
  | 0, s => s
  | fuel + 1, s => if s.stop then s else cgLoop L bnrm tol fuel (cgIter L bnrm tol s)

/-- `nr_linbcg_sym(b, x, tol, itmax, iter, err)` -/
def cgSolve (L : List α → List α) (b x0 : List α) (tol : α) (itmax : Nat) : Cg α :=
  let r0 := List.zipWith (· - ·) b (L x0)
  let bnrm := l2norm b
  let s0 : Cg α := { x := x0, r := r0, p := r0, bkden := 1.0, iter := 0, err := 0.0, stop := false }
  if bnrm < 1.0e-14 then s0 else cgLoop L bnrm tol itmax s0

end Cv.Integ
