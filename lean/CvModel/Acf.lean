import CvModel.Scalar
/-
  C19 (time-correlation functions) — `colvar::calc_acf`, `calc_coor_acf / calc_vel_acf / calc_p2coor_acf`,
  `colvarvalue::inner_opt / p2leg_opt`, `colvar::write_acf` (colvar.cpp, colvarvalue.cpp).

  A variable ξ_i with `corrFunc on` accumulates C_{i,j}(τ) = ⟨Π(ξ_i(t₀), ξ_j(t₀+τ))⟩ with another variable ξ_j
  (`corrFuncWithColvar`; itself by default): at every analysis step the *current* value of ξ_j is paired with the stored
  past values of ξ_i.  The past values are kept in `stride` lists used in turn (list k holds the values of the steps
  ≡ k mod stride, most recent first, at most `length + offset` of them); a row of `length` lags is added only when the
  list in turn is full.  Row 0 is the lag-0 term and is what the output is normalised by; row j ≥ 1 is the lag
  `(offset + j) * stride`.

  Values are lists of scalars (one entry for a scalar variable, three for a vector or a unit vector).
-/
namespace Cv.Acf
variable {α : Type} [Sc α]

inductive Kind where
  | coor | vel | p2
  deriving DecidableEq, Repr

inductive VType where
  | scalar | vec3 | unit
  deriving DecidableEq, Repr

structure Params where
  kind : Kind
  vtype : VType
  length : Nat
  stride : Nat
  offset : Nat
  normalize : Bool

def dot (a b : List α) : α := (List.zipWith (· * ·) a b).foldl (· + ·) 0.0
def norm (a : List α) : α := Prim.sqrt (dot a a)

/-- Π(past value of ξ_i, current value of ξ_j): scalar product, or the second Legendre polynomial of the cosine
    (vectors are normalised first; unit vectors are taken as they are) -/
def pairValue (p : Params) (past now : List α) : α :=
  match p.kind with
  | .p2 =>
    let c : α := match p.vtype with
      | .unit => dot past now
      | _ => dot past now / (norm past * norm now)
    1.5 * c * c - 0.5
  | _ => dot past now

/-- the lag-0 term: P2(1) = 1, otherwise the product of the two current values -/
def lagZero (p : Params) (own other : List α) : α :=
  match p.kind with
  | .p2 => 1.0
  | _ => dot own other

structure State (α : Type) where
  started : Bool := false
  hist : List (List (List α)) := []     -- `stride` lists, most recent value first
  cur : Nat := 0                        -- the list in turn
  acf : List α := []                    -- `length + 1` accumulators
  nframes : Nat := 0

def init (p : Params) : State α :=
  { started := true, hist := List.replicate p.stride [], cur := 0, acf := List.replicate (p.length + 1) 0.0, nframes := 0 }

/-- one analysis step (`step_relative() > prev_timestep`); the first call only allocates.
    `own` = value (or velocity) of this variable, `other` = that of the variable it is correlated with -/
def step (p : Params) (s : State α) (own other : List α) : State α :=
  if !s.started then init p else
  let l := s.hist.getD s.cur []
  let s1 : State α :=
    if l.length ≥ p.length + p.offset then
      let past := (l.drop p.offset).take p.length
      { s with acf := List.zipWith (· + ·) s.acf (lagZero p own other :: past.map fun q => pairValue p q other),
               nframes := s.nframes + 1 }
    else s
  let l' := (own :: l).take (p.length + p.offset)
  { s1 with hist := s1.hist.set s.cur l', cur := if s.cur + 1 ≥ p.stride then 0 else s.cur + 1 }

/-- `write_acf`: (label, value) of every row; nothing before the first complete row -/
def rows (p : Params) (s : State α) : List (Nat × α) :=
  if s.nframes = 0 then [] else
  let n : α := (s.nframes : α)
  let nrm : α := s.acf.headD 0.0 / n
  s.acf.zipIdx.map fun (aj : α × Nat) =>
    (p.stride * (p.offset + aj.2), if p.normalize then aj.1 / (nrm * n) else aj.1 / n)

/-- number of samples announced in the header -/
def samplesShown (p : Params) (s : State α) : Nat := if p.normalize then s.nframes - 1 else s.nframes

/-- a whole run: step 0 allocates, then one analysis step per pair of values -/
def run (p : Params) (vals : List (List α × List α)) : State α :=
  vals.foldl (fun s v => step p s v.1 v.2) (init p)

end Cv.Acf
