/-
  C11 — the file-replacement protocol of `colvarproxy_io::output_stream` + `backup_file` + `rename_file`
  (colvarproxy_io.cpp 137–236, 400–430) followed by `write_restart_file` (colvarmodule.cpp 1169–1195):

      access(f) ; [exists →] rename(f, f.old) ; open(f, truncate) ; write chunk* ; close

  A crash may happen between any two operations and after any prefix of the bytes of a write.
-/
namespace Cv.FS

abbrev Bytes := List UInt8

/-- the two names involved in replacing one state file -/
structure Disk where
  f : Option Bytes      -- `<prefix>.colvars.state`
  old : Option Bytes    -- `<prefix>.colvars.state.old`
deriving Repr, DecidableEq

inductive Op where
  | backup              -- `backup_file`: if `f` exists, `rename(f, f.old)` (atomic, replaces `f.old`)
  | openTrunc           -- `std::ofstream(f)`: create or truncate
  | write (b : Bytes)   -- append bytes that reached the disk
  | close
deriving Repr

def step (d : Disk) : Op → Disk
  | .backup => match d.f with
    | some b => { f := none, old := some b }
    | none => d
  | .openTrunc => { d with f := some [] }
  | .write b => { d with f := some ((d.f.getD []) ++ b) }
  | .close => d

def run (d : Disk) (ops : List Op) : Disk := ops.foldl step d

/-- the operations of one replacement that writes `s` in the given chunks -/
def replaceOps (chunks : List Bytes) : List Op :=
  [.backup, .openTrunc] ++ chunks.map .write ++ [.close]

/-- what is on disk if the process dies after `k` complete operations and `j` further bytes of the next
    operation when that is a write -/
def crashAt (d : Disk) (ops : List Op) (k j : Nat) : Disk :=
  let d' := run d (ops.take k)
  match ops[k]? with
  | some (.write b) => step d' (.write (b.take j))
  | _ => d'

/-- a file holds a complete state -/
def holds (complete : Bytes → Prop) (x : Option Bytes) : Prop := ∃ b, x = some b ∧ complete b

end Cv.FS
