/-
  C11 — the file-replacement protocol of `colvarproxy_io::output_stream` + `backup_file` + `rename_file`
  (colvarproxy_io.cpp 137–236, 400–430) followed by `write_restart_file` (colvarmodule.cpp 1169–1195):

      access(f) ; [exists →] rename(f, f.old) ; open(f, truncate) ; write chunk* ; close

  A crash may happen between any two operations and after any prefix of the bytes of a write.
-/
namespace Cv.FS

abbrev Bytes := List UInt8

/-- the two names involved in replacing one state file -/
structure Disk where
  f : Option Bytes      -- `<prefix>.colvars.state`
  old : Option Bytes    -- `<prefix>.colvars.state.old`
deriving Repr, DecidableEq

inductive Op where
  | backup              -- `backup_file`: if `f` exists, `rename(f, f.old)` (atomic, replaces `f.old`)
  | openTrunc           -- `std::ofstream(f)`: create or truncate
  | write (b : Bytes)   -- append bytes that reached the disk
  | close
deriving Repr

def step (d : Disk) : Op → Disk
  | .backup => match d.f with
    | some b => { f := none, old := some b }
    | none => d
  | .openTrunc => { d with f := some [] }
  | .write b => { d with f := some ((d.f.getD []) ++ b) }
  | .close => d

def run (d : Disk) (ops : List Op) : Disk := ops.foldl step d

/-- the operations of one replacement that writes `s` in the given chunks -/
def replaceOps (chunks : List Bytes) : List Op :=
  [.backup, .openTrunc] ++ chunks.map .write ++ [.close]

/-- what is on disk if the process dies after `k` complete operations and `j` further bytes of the next
    operation when that is a write -/
def crashAt (d : Disk) (ops : List Op) (k j : Nat) : Disk :=
  let d' := run d (ops.take k)
  match ops[k]? with
  | some (.write b) => step d' (.write (b.take j))
  | _ => d'

/-- a file holds a complete state -/
def holds (complete : Bytes → Prop) (x : Option Bytes) : Prop := ∃ b, x = some b ∧ complete b

end Cv.FS

/-
  The second replacement protocol: the state file a multiple-walker metadynamics bias publishes for its peers
  (`colvarbias_meta::write_replica_state_file`, colvarbias_meta.cpp 2019–2045) has no `.old` copy; it is written to
  `<file>.tmp` and renamed over the previous file **after** the temporary file is closed:

      remove(tmp) ; open(tmp, truncate) ; write chunk* ; close(tmp) ; rename(tmp, file)

  Bytes handed to the stream reach the disk at the latest when the stream is closed; the model writes them at the
  `write` operations, all of which precede `close`.
-/
namespace Cv.FS

/-- the published file and its temporary -/
structure PDisk where
  pub : Option Bytes
  tmp : Option Bytes
deriving Repr, DecidableEq

inductive POp where
  | removeTmp
  | openTmp
  | writeTmp (b : Bytes)
  | closeTmp
  | publish              -- `rename(tmp, file)`: atomic, replaces the file
deriving Repr

def pstep (d : PDisk) : POp → PDisk
  | .removeTmp => { d with tmp := none }
  | .openTmp => { d with tmp := some [] }
  | .writeTmp b => { d with tmp := some ((d.tmp.getD []) ++ b) }
  | .closeTmp => d
  | .publish => match d.tmp with
    | some b => { pub := some b, tmp := none }
    | none => d

def prun (d : PDisk) (ops : List POp) : PDisk := ops.foldl pstep d

def publishOps (chunks : List Bytes) : List POp :=
  [.removeTmp, .openTmp] ++ chunks.map .writeTmp ++ [.closeTmp, .publish]

def pcrashAt (d : PDisk) (ops : List POp) (k j : Nat) : PDisk :=
  let d' := prun d (ops.take k)
  match ops[k]? with
  | some (.writeTmp b) => pstep d' (.writeTmp (b.take j))
  | _ => d'

/-- the order a well-meant "rename only when written in full" produces when the rename is put before the close and the
    bytes are still in the stream's buffer: they reach the disk after the file has been published -/
def publishEarlyOps (chunks : List Bytes) : List POp :=
  [.removeTmp, .openTmp, .publish] ++ chunks.map .writeTmp ++ [.closeTmp]

end Cv.FS
