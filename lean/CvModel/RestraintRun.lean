import CvModel.Restraint
/-
  Histories of a restraint under arbitrary run segmentation.  Every operation performs one `update()`:
  `step`    — an ordinary step (the step counter advances, except for the very first call of the first run);
  `cont`    — step 0 of a new run in the same session: repeats the last step (`simulation_continuing()`);
  `restart` — the state is saved, a fresh instance is configured and loads it, and the engine repeats the
              last step as step 0 of the new run (`step_relative() = 0`).
  What survives a restart is what `get_state_params` writes: firstStep (a parameter here), centres,
  force constant, stage, accumulated work and the TI accumulator; increments are rebuilt.
-/
namespace Cv
variable {α : Type} [Sc α]

inductive ROp (α : Type) where
  | step (xs : List α)
  | cont (xs : List α)
  | restart (xs : List α)

structure RRun (α : Type) where
  clock : Clock
  s : RState α
  energies : List α := []        -- bias energy reported at every update, oldest first
  forces : List (List α) := []

/-- a fresh instance resumes from the saved state of `s` -/
def reloadR (p : RParams α) (s : RState α) : RState α :=
  { s with centersIncr := zeros (nvarsR p), kIncr := 0.0 }

def rApply (p : RParams α) (r : RRun α) : ROp α → RRun α
  | .step xs =>
    let c := r.clock.tick false
    let (s', o) := restraintStep p c r.s xs
    { clock := c, s := s', energies := r.energies ++ [o.energy], forces := r.forces ++ [o.forces] }
  | .cont xs =>
    let c := r.clock.tick true
    let (s', o) := restraintStep p c r.s xs
    { clock := c, s := s', energies := r.energies ++ [o.energy], forces := r.forces ++ [o.forces] }
  | .restart xs =>
    let c0 : Clock := { it := r.clock.it, itRestart := r.clock.it, first := true, cont := false }
    let c := c0.tick false
    let (s', o) := restraintStep p c (reloadR p r.s) xs
    { clock := c, s := s', energies := r.energies ++ [o.energy], forces := r.forces ++ [o.forces] }

def rRun (p : RParams α) (r : RRun α) (ops : List (ROp α)) : RRun α := ops.foldl (rApply p) r

/-- the state a freshly configured restraint starts from, at absolute step `p.firstStep` -/
def rInit (p : RParams α) (k0 : α) : RRun α :=
  { clock := { it := p.firstStep, itRestart := p.firstStep, first := true, cont := false },
    s := { centers := p.centers0, centersIncr := zeros (nvarsR p), k := k0, kIncr := 0.0, stage := 0,
           accWork := 0.0, restraintFE := 0.0, tiOut := [] } }

end Cv
