import CvModel.Deps
import CvProps.C13Lemmas
/-!
# C13 — the dependency engine: table obligations (regenerated from the source) and properties of enable / disable

Property theorems about `CvModel/Deps.lean` and the generated tables `CvModel/Gen/Deps.lean`; core Lean only.
-/
open Cv Cv.Deps Cv.Gen

namespace Cv.C13

/-! ## obligations about the feature tables regenerated from the source (re-decided whenever the source changes) -/

def tables : List (List FeatureDecl) := [biasFeatures, colvarFeatures, cvcFeatures, agFeatures]

/-- every feature has been given a type by `init_feature` -/
def allInitialised (t : List FeatureDecl) : Bool := t.all fun d => d.ftype < 3

/-- every index mentioned by a declaration exists (children requirements refer to the child class's table) -/
def inRange (t child : List FeatureDecl) : Bool :=
  t.all fun d => d.self.all (· < t.length) && d.alt.all (fun a => a.all (· < t.length)) &&
    d.excl.all (· < t.length) && d.children.all (· < child.length)

/-- exclusions are declared symmetrically, so whichever feature is enabled second fails -/
def exclSymmetric (t : List FeatureDecl) : Bool :=
  (List.range t.length).all fun f => ((t.getD f default).excl).all fun g => ((t.getD g default).excl).contains f
where default : FeatureDecl := { name := "", ftype := 3, self := [], alt := [], children := [], excl := [] }

/-- successors of a feature inside its own object: `requires_self` and every alternative of `requires_alt` -/
def succs (t : List FeatureDecl) (f : Nat) : List Nat :=
  match t[f]? with
  | some d => d.self ++ d.alt.flatten
  | none => []

/-- features reachable in at most `n` steps from a list of features -/
def reachN (t : List FeatureDecl) : Nat → List Nat → List Nat
  | 0, l => l
  | n + 1, l => l ++ reachN t n (l.flatMap (succs t))

/-- no feature depends on itself through `requires_self` / `requires_alt` chains: the recursion of `enable` inside one
    object terminates (the code's own comment notes there is no safety mechanism against such cycles) -/
def acyclic (t : List FeatureDecl) : Bool :=
  (List.range t.length).all fun f => !(reachN t t.length (succs t f)).contains f

theorem tables_initialised : tables.all allInitialised = true := by decide

theorem tables_in_range :
    (inRange biasFeatures colvarFeatures && inRange colvarFeatures cvcFeatures &&
     inRange cvcFeatures agFeatures && inRange agFeatures []) = true := by decide

theorem tables_excl_symmetric : tables.all exclSymmetric = true := by decide

theorem tables_acyclic : tables.all acyclic = true := by decide

/-- the first feature of every class is the dynamic "active" feature that `is_enabled()` tests -/
theorem tables_active_first : tables.all (fun t => (t.head?.map (·.ftype)) == some 0) = true := by decide

/-! ## the engine -/

/-- a dry run (outside an error report) never changes anything -/
theorem enable_dry_pure (fuel : Nat) (F : Forest) (o f : Nat) (tl : Bool) :
    (enable fuel F o f true tl false).1 = F := by
  exact enable_dry_fst fuel F o f tl

/-- enabling a feature that conflicts with an enabled one fails and leaves everything as it was:
    mutually exclusive capabilities are never enabled together by `enable` -/
theorem enable_excluded_fails (fuel : Nat) (F : Forest) (o f : Nat) (dry tl err : Bool)
    (hne : (getF F o f).enabled = false) (hav : (getF F o f).available = true)
    (hty : tl = true ∨ (decl (clsOf F o) f).ftype = 0)
    (hex : (decl (clsOf F o) f).excl.any (isEnabled F o) = true) :
    enable (fuel + 1) F o f dry tl err = (F, false) := by
  rw [enable]
  rcases hty with h | h <;> simp [hne, hav, h, hex]

/-- an unavailable feature cannot be enabled -/
theorem enable_unavailable_fails (fuel : Nat) (F : Forest) (o f : Nat) (dry tl err : Bool)
    (hne : (getF F o f).enabled = false) (hav : (getF F o f).available = false) :
    enable (fuel + 1) F o f dry tl err = (F, false) := by
  rw [enable]; simp [hne, hav]

/-- static and user features are never switched on as a side effect of a dependency -/
theorem enable_nondynamic_not_automatic (fuel : Nat) (F : Forest) (o f : Nat) (dry err : Bool)
    (hne : (getF F o f).enabled = false) (hav : (getF F o f).available = true)
    (hty : (decl (clsOf F o) f).ftype ≠ 0) :
    enable (fuel + 1) F o f dry false err = (F, false) := by
  rw [enable]; simp [hne, hav, hty]

/-- an already enabled feature requested by a dependant gains one reference -/
theorem enable_counts_reference (fuel : Nat) (F : Forest) (o f : Nat) (err : Bool) (he : (getF F o f).enabled = true) :
    enable (fuel + 1) F o f false false err = (setF F o f { (getF F o f) with refCount := (getF F o f).refCount + 1 }, true) := by
  rw [enable]; simp [he]

/-- no capability is switched off while more than one dependant still needs it -/
theorem disable_refuses_when_needed (fuel : Nat) (F : Forest) (o f : Nat)
    (he : (getF F o f).enabled = true) (hr : (getF F o f).refCount > 1) :
    disable (fuel + 1) F o f = (F, false) := by
  rw [disable]; simp [he, hr]

/-- releasing one of several references only decrements the count -/
theorem decr_keeps_enabled (fuel : Nat) (F : Forest) (o g : Nat) (hr : (getF F o g).refCount > 1) :
    decr (fuel + 1) F o g = setF F o g { (getF F o g) with refCount := (getF F o g).refCount - 1 } := by
  rw [decr]
  have h1 : ¬ (getF F o g).refCount ≤ 0 := by omega
  have h2 : ¬ (getF F o g).refCount - 1 = 0 := by omega
  simp [h1, h2]

/-- a static or user feature is never switched off by losing its last dependant -/
theorem decr_nondynamic_stays (fuel : Nat) (F : Forest) (o g : Nat) (hr : (getF F o g).refCount > 0)
    (hty : (decl (clsOf F o) g).ftype ≠ 0) :
    decr (fuel + 1) F o g = setF F o g { (getF F o g) with refCount := (getF F o g).refCount - 1 } := by
  rw [decr]
  have h1 : ¬ (getF F o g).refCount ≤ 0 := by omega
  simp [h1, hty]

/-! ## non-vacuity -/

example : (decl 0 5).name = "f_cvb_get_total_force" ∧ (decl 0 5).excl.contains 4 = true := by decide

/-! ## axiom audit -/


end Cv.C13
