import CvProps.RealInst
import Mathlib.Analysis.SpecialFunctions.Trigonometric.InverseDeriv
/-!
# Helper lemmas for C18 (metric on variable values), all over `ℝ`.
-/
open Cv

namespace Cv.C18

/-! ## lists over ℝ -/

theorem foldl_add_real (l : List ℝ) (x : ℝ) : l.foldl (· + ·) x = x + l.sum := by
  induction l generalizing x with
  | nil => simp
  | cons y l ih => simp [ih, add_assoc]

theorem sumL_eq_sum (l : List ℝ) : sumL l = l.sum := by
  unfold sumL
  rw [foldl_add_real]
  norm_num

@[simp] theorem sumL_nil : sumL ([] : List ℝ) = 0 := by simp [sumL_eq_sum]

@[simp] theorem sumL_cons (x : ℝ) (l : List ℝ) : sumL (x :: l) = x + sumL l := by
  simp [sumL_eq_sum]

@[simp] theorem dot_nil_left (b : List ℝ) : dot ([] : List ℝ) b = 0 := by simp [dot]
@[simp] theorem dot_nil_right (a : List ℝ) : dot a ([] : List ℝ) = 0 := by simp [dot]
@[simp] theorem dot_cons (x y : ℝ) (a b : List ℝ) :
    dot (x :: a) (y :: b) = x * y + dot a b := by simp [dot]

theorem dot_comm (a b : List ℝ) : dot a b = dot b a := by
  induction a generalizing b with
  | nil => simp
  | cons x a ih =>
    cases b with
    | nil => simp
    | cons y b => simp [ih b, mul_comm]

@[simp] theorem norm2_nil : norm2 ([] : List ℝ) = 0 := by simp [norm2]
@[simp] theorem norm2_cons (x : ℝ) (a : List ℝ) : norm2 (x :: a) = x * x + norm2 a := by
  simp [norm2]

theorem norm2_nonneg (a : List ℝ) : 0 ≤ norm2 a := by
  induction a with
  | nil => simp
  | cons x a ih => rw [norm2_cons]; nlinarith [mul_self_nonneg x]

theorem norm2_eq_zero (a : List ℝ) : norm2 a = 0 ↔ ∀ x ∈ a, x = 0 := by
  induction a with
  | nil => simp
  | cons x a ih =>
    rw [norm2_cons]
    have h1 := mul_self_nonneg x
    have h2 := norm2_nonneg a
    constructor
    · intro h
      have hx : x * x = 0 := by linarith
      have ha : norm2 a = 0 := by linarith
      intro y hy
      rcases List.mem_cons.1 hy with rfl | hy
      · exact mul_self_eq_zero.1 hx
      · exact ih.1 ha y hy
    · intro h
      have hx : x = 0 := h x (List.mem_cons_self)
      have ha : norm2 a = 0 := ih.2 (fun y hy => h y (List.mem_cons_of_mem _ hy))
      rw [hx, ha]; ring

@[simp] theorem vsub_nil_left (b : List ℝ) : vsub ([] : List ℝ) b = [] := by simp [vsub]
@[simp] theorem vsub_nil_right (a : List ℝ) : vsub a ([] : List ℝ) = [] := by simp [vsub]
@[simp] theorem vsub_cons (x y : ℝ) (a b : List ℝ) :
    vsub (x :: a) (y :: b) = (x - y) :: vsub a b := by simp [vsub]
@[simp] theorem vadd_nil_left (b : List ℝ) : vadd ([] : List ℝ) b = [] := by simp [vadd]
@[simp] theorem vadd_nil_right (a : List ℝ) : vadd a ([] : List ℝ) = [] := by simp [vadd]
@[simp] theorem vadd_cons (x y : ℝ) (a b : List ℝ) :
    vadd (x :: a) (y :: b) = (x + y) :: vadd a b := by simp [vadd]
@[simp] theorem vscale_nil (c : ℝ) : vscale c ([] : List ℝ) = [] := by simp [vscale]
@[simp] theorem vscale_cons (c x : ℝ) (a : List ℝ) :
    vscale c (x :: a) = (c * x) :: vscale c a := by simp [vscale]

/-! ## floor / periodic shift -/

theorem half_lit : (0.5 : ℝ) = 1 / 2 := by norm_num

/-- the reduced residue `u - ⌊u + 1/2⌋` lies in `[-1/2, 1/2)` -/
theorem resid_range (u : ℝ) : -(1/2) ≤ u - (⌊u + 1/2⌋ : ℝ) ∧ u - (⌊u + 1/2⌋ : ℝ) < 1/2 := by
  have h1 := Int.floor_le (u + 1/2)
  have h2 := Int.lt_floor_add_one (u + 1/2)
  constructor <;> linarith

theorem pshift_eq (p d : ℝ) : pshift p d = d - (⌊d / p + 1 / 2⌋ : ℝ) * p := by
  unfold pshift
  rw [floorS_real, half_lit]

theorem pshift_eq_mul (p d : ℝ) (hp : 0 < p) :
    pshift p d = (d / p - (⌊d / p + 1 / 2⌋ : ℝ)) * p := by
  rw [pshift_eq]
  field_simp

theorem pshift_range (p d : ℝ) (hp : 0 < p) : -(p / 2) ≤ pshift p d ∧ pshift p d < p / 2 := by
  rw [pshift_eq_mul p d hp]
  obtain ⟨h1, h2⟩ := resid_range (d / p)
  constructor <;> nlinarith

theorem pshift_add_int (p d : ℝ) (hp : 0 < p) (k : ℤ) : pshift p (d + k * p) = pshift p d := by
  rw [pshift_eq, pshift_eq]
  have : (d + k * p) / p + 1 / 2 = (d / p + 1 / 2) + k := by field_simp; ring
  rw [this, Int.floor_add_intCast]
  push_cast
  ring

theorem pshift_neg_sq (p d : ℝ) (hp : 0 < p) :
    pshift p (-d) * pshift p (-d) = pshift p d * pshift p d := by
  rw [pshift_eq_mul p d hp, pshift_eq_mul p (-d) hp]
  have hu : -d / p = -(d / p) := by ring
  rw [hu]
  set u := d / p with hu'
  have n1 := Int.floor_le (u + 1/2)
  have n2 := Int.lt_floor_add_one (u + 1/2)
  have m1 := Int.floor_le (-u + 1/2)
  have m2 := Int.lt_floor_add_one (-u + 1/2)
  set n := ⌊u + 1/2⌋
  set m := ⌊-u + 1/2⌋
  have hlo : (-1 : ℝ) < (n + m : ℤ) := by push_cast; linarith
  have hhi : ((n + m : ℤ) : ℝ) < 2 := by push_cast; linarith
  have hlo' : -1 < n + m := by exact_mod_cast hlo
  have hhi' : n + m < 2 := by exact_mod_cast hhi
  have hcases : n + m = 0 ∨ n + m = 1 := by omega
  rcases hcases with h | h
  · have hm : (m : ℝ) = -n := by
      have : ((n + m : ℤ) : ℝ) = 0 := by rw [h]; simp
      push_cast at this; linarith
    rw [hm]; ring
  · have hm : (m : ℝ) = 1 - n := by
      have : ((n + m : ℤ) : ℝ) = 1 := by rw [h]; simp
      push_cast at this; linarith
    have hu2 : u = n - 1/2 := by rw [hm] at m1; linarith
    rw [hm, hu2]; ring

theorem pshift_zero_iff (p d : ℝ) (hp : 0 < p) : pshift p d = 0 ↔ ∃ n : ℤ, d = n * p := by
  constructor
  · intro h
    refine ⟨⌊d / p + 1 / 2⌋, ?_⟩
    rw [pshift_eq] at h
    linarith
  · rintro ⟨n, rfl⟩
    have := pshift_add_int p 0 hp n
    rw [zero_add] at this
    rw [this, pshift_eq]
    have : ⌊(0:ℝ) / p + 1 / 2⌋ = 0 := by
      rw [Int.floor_eq_iff]; norm_num
    rw [this]; simp

/-- the floor is locally constant away from integers -/
theorem floor_eventually_const (f : ℝ → ℝ) (x : ℝ) (hf : ContinuousAt f x)
    (hcut : ∀ n : ℤ, f x ≠ n) : ∀ᶠ y in nhds x, ⌊f y⌋ = ⌊f x⌋ := by
  have h1 : (⌊f x⌋ : ℝ) < f x := lt_of_le_of_ne (Int.floor_le _) (Ne.symm (hcut _))
  have h2 : f x < (⌊f x⌋ : ℝ) + 1 := Int.lt_floor_add_one _
  have e1 := hf.eventually (lt_mem_nhds h1)
  have e2 := hf.eventually (gt_mem_nhds h2)
  filter_upwards [e1, e2] with y hy1 hy2
  rw [Int.floor_eq_iff]
  exact ⟨le_of_lt hy1, hy2⟩

/-! ## vectors -/

theorem dist2V_comm (a b : List ℝ) : dist2V a b = dist2V b a := by
  induction a generalizing b with
  | nil => simp [dist2V]
  | cons x a ih =>
    cases b with
    | nil => simp [dist2V]
    | cons y b =>
      have := ih b
      simp only [dist2V, vsub_cons, norm2_cons] at this ⊢
      rw [this]; ring

theorem dist2V_eq_zero (a b : List ℝ) (h : a.length = b.length) : dist2V a b = 0 ↔ a = b := by
  induction a generalizing b with
  | nil =>
    cases b with
    | nil => simp [dist2V]
    | cons y b => simp at h
  | cons x a ih =>
    cases b with
    | nil => simp at h
    | cons y b =>
      have h' : a.length = b.length := by simpa using h
      have ih' := ih b h'
      simp only [dist2V, vsub_cons, norm2_cons] at ih' ⊢
      have h1 := mul_self_nonneg (x - y)
      have h2 := norm2_nonneg (vsub a b)
      constructor
      · intro h0
        have hx : (x - y) * (x - y) = 0 := by linarith
        have ha : norm2 (vsub a b) = 0 := by linarith
        have hxy : x = y := sub_eq_zero.1 (mul_self_eq_zero.1 hx)
        rw [hxy, ih'.1 ha]
      · intro h0
        obtain ⟨rfl, rfl⟩ := List.cons_eq_cons.1 h0
        rw [ih'.2 rfl]; ring

theorem hasDerivAt_dist2V (a b v : List ℝ) (h : a.length = b.length) (hv : v.length = a.length) :
    HasDerivAt (fun t : ℝ => dist2V (vadd a (vscale t v)) b) (dot (dist2VGrad a b) v) 0 := by
  induction a generalizing b v with
  | nil => simpa [dist2V, dist2VGrad] using hasDerivAt_const (0:ℝ) (0:ℝ)
  | cons x a ih =>
    match b, v, h, hv with
    | y :: b, w :: v, h, hv =>
      have ih' := ih b v (by simpa using h) (by simpa using hv)
      simp only [dist2V, dist2VGrad, vscale_cons, vadd_cons, vsub_cons, norm2_cons, dot_cons]
        at ih' ⊢
      have hd : HasDerivAt (fun t : ℝ => x + t * w - y) w 0 := by
        simpa using (((hasDerivAt_id (0:ℝ)).mul_const w).const_add x).sub_const y
      have h1 : HasDerivAt (fun t : ℝ => (x + t * w - y) * (x + t * w - y))
          (2.0 * (x - y) * w) 0 := by
        have h2 : HasDerivAt (fun t : ℝ => (x + t * w - y) * (x + t * w - y))
            (w * (x + 0 * w - y) + (x + 0 * w - y) * w) 0 := hd.mul hd
        refine h2.congr_deriv ?_
        norm_num; ring
      exact h1.add ih'

theorem dot_vscale_left (k : ℝ) (a b : List ℝ) : dot (vscale k a) b = k * dot a b := by
  induction a generalizing b with
  | nil => simp
  | cons x a ih =>
    cases b with
    | nil => simp
    | cons y b => simp [ih b]; ring

theorem dot_vadd_vscale (a v b : List ℝ) (h : v.length = a.length) (t : ℝ) :
    dot (vadd a (vscale t v)) b = dot a b + t * dot v b := by
  induction a generalizing v b with
  | nil =>
    cases v with
    | nil => simp
    | cons w v => simp at h
  | cons x a ih =>
    match v, h with
    | w :: v, h =>
      cases b with
      | nil => simp
      | cons y b =>
        simp [ih v b (by simpa using h)]; ring

theorem dot_vneg_right (a b : List ℝ) : dot a (b.map (fun x => -x)) = - dot a b := by
  induction a generalizing b with
  | nil => simp
  | cons x a ih =>
    cases b with
    | nil => simp
    | cons y b => simp [ih b]; ring

theorem dot_vneg_left (a b : List ℝ) : dot (a.map (fun x => -x)) b = - dot a b := by
  rw [dot_comm, dot_vneg_right, dot_comm]

/-- `‖a - b‖² = ‖a‖² + ‖b‖² - 2 a·b` for equal lengths -/
theorem dist2V_expand (a b : List ℝ) (h : a.length = b.length) :
    dist2V a b = norm2 a + norm2 b - 2 * dot a b := by
  induction a generalizing b with
  | nil =>
    cases b with
    | nil => simp [dist2V]
    | cons y b => simp at h
  | cons x a ih =>
    cases b with
    | nil => simp at h
    | cons y b =>
      have ih' := ih b (by simpa using h)
      simp only [dist2V, vsub_cons, norm2_cons, dot_cons] at ih' ⊢
      rw [ih']; ring

/-- Cauchy–Schwarz consequence for unit vectors, with the equality case -/
theorem dot_le_one (a b : List ℝ) (h : a.length = b.length) (na : norm2 a = 1) (nb : norm2 b = 1) :
    dot a b ≤ 1 := by
  have h1 := dist2V_expand a b h
  have h2 : 0 ≤ dist2V a b := norm2_nonneg _
  rw [na, nb] at h1; linarith

theorem one_le_dot_iff (a b : List ℝ) (h : a.length = b.length) (na : norm2 a = 1)
    (nb : norm2 b = 1) : 1 ≤ dot a b ↔ a = b := by
  have h1 := dist2V_expand a b h
  have h2 : 0 ≤ dist2V a b := norm2_nonneg _
  rw [na, nb] at h1
  constructor
  · intro hc
    exact (dist2V_eq_zero a b h).1 (by linarith)
  · rintro rfl
    exact le_of_eq na.symm

theorem norm2_vneg (b : List ℝ) : norm2 (b.map (fun x => -x)) = norm2 b := by
  unfold norm2; rw [dot_vneg_left, dot_vneg_right]; ring

theorem dot_le_neg_one_iff (a b : List ℝ) (h : a.length = b.length) (na : norm2 a = 1)
    (nb : norm2 b = 1) : dot a b ≤ -1 ↔ a = b.map (fun x => -x) := by
  have := one_le_dot_iff a (b.map (fun x => -x)) (by simpa using h) na (by rw [norm2_vneg, nb])
  rw [dot_vneg_right] at this
  rw [← this]
  constructor <;> intro h <;> linarith

/-! ## arccos / clamp -/

theorem clampCos_eq (c : ℝ) : clampCos c = max (-1) (min c 1) := by
  unfold clampCos
  have e1 : (1.0 : ℝ) = 1 := by norm_num
  rw [e1]
  by_cases h1 : c > 1
  · rw [if_pos h1, min_eq_right (le_of_lt h1)]; norm_num
  · rw [if_neg h1]
    have h1' : c ≤ 1 := not_lt.1 h1
    rw [min_eq_left h1']
    by_cases h2 : c < -1
    · rw [if_pos h2, max_eq_left (le_of_lt h2)]
    · rw [if_neg h2, max_eq_right (not_lt.1 h2)]

theorem clampCos_neg (c : ℝ) : clampCos (-c) = - clampCos c := by
  rw [clampCos_eq, clampCos_eq]
  rcases le_total c 1 with h1 | h1 <;> rcases le_total c (-1) with h2 | h2 <;>
    simp [min_def, max_def] <;> split_ifs <;> linarith

theorem clampCos_pos {c : ℝ} (h : 0 < c) : 0 < clampCos c := by
  rw [clampCos_eq]; exact lt_max_of_lt_right (lt_min h one_pos)

theorem clampCos_nonpos {c : ℝ} (h : c ≤ 0) : clampCos c ≤ 0 := by
  rw [clampCos_eq]; exact max_le (by norm_num) (le_trans (min_le_left _ _) h)

theorem one_le_clampCos {c : ℝ} : 1 ≤ clampCos c ↔ 1 ≤ c := by
  rw [clampCos_eq]
  constructor
  · intro h
    rcases le_max_iff.1 h with h | h
    · norm_num at h
    · exact (le_min_iff.1 h).1
  · intro h; exact le_max_of_le_right (le_min h le_rfl)

theorem clampCos_le_neg_one {c : ℝ} : clampCos c ≤ -1 ↔ c ≤ -1 := by
  rw [clampCos_eq]
  constructor
  · intro h
    have := (max_le_iff.1 h).2
    rcases min_le_iff.1 this with h | h
    · exact h
    · norm_num at h
  · intro h; exact max_le le_rfl (le_trans (min_le_left _ _) h)

/-- `Real.arccos` already projects its argument to `[-1, 1]`, so the clamp is invisible at `ℝ` -/
theorem arccos_clampCos (c : ℝ) : Real.arccos (clampCos c) = Real.arccos c := by
  rw [clampCos_eq]
  rcases le_total c (-1) with h | h
  · rw [max_eq_left (le_trans (min_le_left _ _) h), Real.arccos_of_le_neg_one h,
      Real.arccos_neg_one]
  · rcases le_total c 1 with h1 | h1
    · rw [min_eq_left h1, max_eq_right h]
    · rw [min_eq_right h1, max_eq_right (by norm_num), Real.arccos_one,
        Real.arccos_eq_zero.2 h1]

theorem dist2U_eq (a b : List ℝ) :
    dist2U a b = Real.arccos (dot a b) * Real.arccos (dot a b) := by
  unfold dist2U
  rw [sq_real, prim_acos, arccos_clampCos]

/-- the guard `1 - c² ≤ 0` of the unit-vector gradient holds: null vector -/
theorem dist2UGrad_of_guard (a b : List ℝ) (h : 1 ≤ dot a b * dot a b) :
    dist2UGrad a b = [0.0, 0.0, 0.0] := by
  unfold dist2UGrad
  simp only []
  rw [if_pos (by norm_num; linarith)]

/-- the guard is false: the quotient formula -/
theorem dist2UGrad_of_lt (a b : List ℝ) (h : dot a b * dot a b < 1) :
    dist2UGrad a b =
      vscale (2.0 * Real.arccos (dot a b) * (-1.0) / √(1.0 - dot a b * dot a b)) b := by
  unfold dist2UGrad
  simp only [prim_acos, prim_sqrt]
  rw [if_neg (by norm_num; linarith)]

theorem dist2Q_eq (a b : List ℝ) :
    dist2Q Real.pi a b =
      if dot a b > 0 then Real.arccos (clampCos (dot a b)) * Real.arccos (clampCos (dot a b))
      else (Real.pi - Real.arccos (clampCos (dot a b))) * (Real.pi - Real.arccos (clampCos (dot a b))) := by
  unfold dist2Q
  have e0 : (0.0 : ℝ) = 0 := by norm_num
  simp only [prim_acos, e0]

/-! ## interpolation / normalisation -/

theorem lerpV_zero (a b : List ℝ) (h : a.length = b.length) : lerpV a b 0.0 = a := by
  induction a generalizing b with
  | nil => simp [lerpV]
  | cons x a ih =>
    cases b with
    | nil => simp at h
    | cons y b =>
      have ih' := ih b (by simpa using h)
      simp only [lerpV, vscale_cons, vadd_cons] at ih' ⊢
      rw [ih']; norm_num

theorem lerpV_one (a b : List ℝ) (h : a.length = b.length) : lerpV a b 1.0 = b := by
  induction a generalizing b with
  | nil =>
    cases b with
    | nil => simp [lerpV]
    | cons y b => simp at h
  | cons x a ih =>
    cases b with
    | nil => simp at h
    | cons y b =>
      have ih' := ih b (by simpa using h)
      simp only [lerpV, vscale_cons, vadd_cons] at ih' ⊢
      rw [ih']; norm_num

theorem norm2_map_div (a : List ℝ) (n : ℝ) : norm2 (a.map (· / n)) = norm2 a / (n * n) := by
  induction a with
  | nil => simp
  | cons x a ih =>
    simp only [List.map_cons, norm2_cons, ih]
    by_cases hn : n = 0
    · subst hn; simp
    · field_simp

theorem normalize_of_unit (a : List ℝ) (na : norm2 a = 1) : normalize a = a := by
  unfold normalize
  simp [na]

theorem norm2_normalize (a : List ℝ) (h : 0 < norm2 a) : norm2 (normalize a) = 1 := by
  unfold normalize
  simp only [prim_sqrt]
  rw [norm2_map_div, Real.mul_self_sqrt (le_of_lt h)]
  exact div_self (ne_of_gt h)

/-! ## quaternion interpolation: sign matching and the branch of `interpManifold` -/

theorem matchSign_eq (a b : List ℝ) :
    matchSign a b = if dot a b < 0 then b.map (fun x => -x) else b := by
  unfold matchSign
  have e0 : (0.0 : ℝ) = 0 := by norm_num
  have e1 : (fun x : ℝ => -1.0 * x) = (fun x => -x) := by funext x; norm_num
  rw [e0, e1]

theorem matchSign_length (a b : List ℝ) : (matchSign a b).length = b.length := by
  rw [matchSign_eq]; split_ifs <;> simp

theorem matchSign_norm2 (a b : List ℝ) : norm2 (matchSign a b) = norm2 b := by
  rw [matchSign_eq]; split_ifs
  · exact norm2_vneg b
  · rfl

theorem lerpV_self (a : List ℝ) (l : ℝ) : lerpV a a l = a := by
  induction a with
  | nil => simp [lerpV]
  | cons x a ih =>
    simp only [lerpV, vscale_cons, vadd_cons] at ih ⊢
    rw [ih]
    have e1 : (1.0 : ℝ) = 1 := by norm_num
    rw [e1]; congr 1; ring

/-- zero distance: the first branch (no quotient is formed) -/
theorem interpManifold_zero (a b : List ℝ) (l : ℝ) :
    interpManifold 0 a b l = some (normalize (lerpV a b l)) := by
  unfold interpManifold
  simp only [prim_sqrt]
  rw [if_pos (by rw [Real.sqrt_zero]; norm_num)]

/-- a unit mixture and a distance bounded by (π/2)²: the quotient is far above the `1e-6` threshold -/
theorem interpManifold_unit (d2 : ℝ) (a b : List ℝ) (l : ℝ) (hd : 0 < d2)
    (hle : d2 ≤ (Real.pi / 2) * (Real.pi / 2)) (hn : norm2 (lerpV a b l) = 1) :
    interpManifold d2 a b l = some (normalize (lerpV a b l)) := by
  unfold interpManifold
  simp only [prim_sqrt]
  have hs : 0 < √d2 := Real.sqrt_pos.2 hd
  have e0 : (0.0 : ℝ) = 0 := by norm_num
  rw [if_neg (by rw [e0]; exact not_le.2 hs)]
  have hs2 : √d2 ≤ 2 := by
    have h1 : √d2 ≤ √((Real.pi / 2) * (Real.pi / 2)) := Real.sqrt_le_sqrt hle
    rw [Real.sqrt_mul_self (by positivity)] at h1
    have := Real.pi_le_four
    linarith
  rw [if_neg]
  rw [hn, Real.sqrt_one, not_lt, le_div_iff₀ hs]
  norm_num
  linarith

end Cv.C18
