theorem c03_placeholder : True := trivial
