import CvProps.C03Lemmas
/-!
# C03 — a run resumed from a saved state is indistinguishable from an uninterrupted run

Property theorems about `CvModel/Resume.lean` and `CvModel/Module.lean` at `α := ℝ`
(module with value-injected scalar variables; biases: histogram, ABF, harmonic, restraints with schedules;
metadynamics is not covered here: its state is compared on the real code only).

The engine convention (NAMD / LAMMPS / GROMACS, mirrored by the harness): the stop step K is evaluated again, with
the same coordinates, as step 0 of the resumed run (`Clock.first`), and every later step advances the counter.
-/
open Cv

namespace Cv.C03

/-- same kind of bias, configured identically (`firstStep` of a moving restraint is a state parameter) -/
def Compatible : Bias ℝ → Bias ℝ → Prop
  | .hist i g z _, .hist i' g' z' _ => i = i' ∧ g = g' ∧ z = z'
  | .abf i p _, .abf i' p' _ => i = i' ∧ p = p'
  | .harm i k c, .harm i' k' c' => i = i' ∧ k = k' ∧ c = c'
  | .restr i p _, .restr i' p' _ => i = i' ∧ p' = { p with firstStep := p'.firstStep }
  | _, _ => False

/-! ## saving immediately after loading reproduces the state that was loaded -/

theorem save_after_load_bias (fresh saved : Bias ℝ) (h : Compatible fresh saved) :
    saveBias (loadBias fresh saved) = saveBias saved := by
  cases fresh <;> cases saved <;> simp only [Compatible] at h <;> try (simp [loadBias, saveBias]; done)
  rename_i i p s i' p' s'
  obtain ⟨_, hp⟩ := h
  have h1 : p'.targetCenters = p.targetCenters := by rw [hp]
  have h2 : p'.chgK = p.chgK := by rw [hp]
  have h3 : p'.nstages = p.nstages := by rw [hp]
  have h4 : p'.outputWork = p.outputWork := by rw [hp]
  cases hA : p.targetCenters.isSome <;> cases hB : p.chgK <;> cases hC : p.outputWork <;>
    by_cases h5 : p.nstages = 0 <;> simp [loadBias, saveBias, h1, h2, h3, h4, hA, hB, hC, h5]

theorem save_after_load (fresh saved : Sys ℝ)
    (hn : fresh.biases.map (·.1) = saved.biases.map (·.1)) (hnd : (saved.biases.map (·.1)).Nodup)
    (hc : ∀ pr ∈ fresh.biases.zip saved.biases, Compatible pr.1.2 pr.2.2) :
    persist (sysLoad fresh saved) = persist saved := by
  simp only [persist, sysLoad, List.map_map, Prod.mk.injEq, true_and]
  refine C03L.map_eq_map_of_zip _ _ _ _ (C03L.length_eq_of_map_fst _ _ hn) ?_
  intro pr hpr
  have hname : pr.1.1 = pr.2.1 := C03L.zip_fst_eq _ _ hn pr hpr
  have hmem : pr.2 ∈ saved.biases := (List.of_mem_zip hpr).2
  have hfind := C03L.find_of_mem_nodup saved.biases hnd pr.2 hmem
  simp only [Function.comp, hname, hfind]
  rw [save_after_load_bias _ _ (hc pr hpr)]

/-- the loaded instance holds the saved accumulated data: histogram counts, ABF counts and gradient sums -/
theorem load_restores_data (fresh saved : Bias ℝ) (h : Compatible fresh saved) :
    (∀ i g z d, saved = .hist i g z d → ∃ i' g' z', loadBias fresh saved = .hist i' g' z' d) ∧
    (∀ i p s, saved = .abf i p s → ∃ s', loadBias fresh saved = .abf i p s' ∧ s'.samples = s.samples ∧ s'.grad = s.grad) := by
  cases fresh <;> cases saved <;> simp only [Compatible] at h <;> simp [loadBias]
  exact h

/-! ## after the stop step has been re-evaluated, the two runs are step-for-step identical -/

/-- two instances in the same state up to run bookkeeping: everything equal except the step at which the current
    run started, and the stored total force of a variable whose total force is recomputed at every step -/
structure SameUpToRun (a b : Sys ℝ) : Prop where
  it : a.clock.it = b.clock.it
  running : a.clock.first = false ∧ b.clock.first = false
  rel : 0 ≤ a.clock.stepRelative ∧ 0 ≤ b.clock.stepRelative
  tfSame : a.tfSame = b.tfSame
  tfLoop : a.tfLoop = b.tfLoop
  tsf : a.tsf = b.tsf
  biases : a.biases = b.biases
  applied : a.lastApplied = b.lastApplied
  cvsLen : a.cvs.length = b.cvs.length
  cvs : ∀ (k : Nat) (va vb : CvSt ℝ), a.cvs[k]? = some va → b.cvs[k]? = some vb →
        va = { vb with ft := va.ft } ∧ (va.tfCalc = true ∨ va.ft = vb.ft)

/-- one ordinary step (not a repeated step 0) keeps the two instances together and gives the same energy and forces -/
theorem step_together (a b : Sys ℝ) (i : StepIn ℝ) (h : SameUpToRun a b) (hc : i.cont = false) :
    (modStep a i).2 = (modStep b i).2 ∧ SameUpToRun (modStep a i).1 (modStep b i).1 := by
  have hce := C03L.clockEq_tick a.clock b.clock h.running.1 h.running.2 h.it h.rel.1 h.rel.2
  rw [C03L.modStep_eq a i, C03L.modStep_eq b i, hc]
  rw [C03L.cvs_map_congr hce a b i h.tfSame h.tfLoop h.applied h.cvsLen h.cvs,
    C03L.updOf_congr hce a b h.tfSame h.tsf h.biases]
  refine ⟨rfl, ?_⟩
  have hta := C03L.tick_running a.clock h.running.1
  have htb := C03L.tick_running b.clock h.running.2
  constructor
  · exact hce.it
  · simpa [C03L.finish, hta, htb] using h.running
  · exact ⟨le_of_lt hce.pos, le_of_lt hce.pos'⟩
  · exact h.tfSame
  · exact h.tfLoop
  · exact h.tsf
  · rfl
  · rfl
  · rfl
  · intro k va vb h1 h2
    have : va = vb := Option.some.inj (h1.symm.trans h2)
    subst this
    exact ⟨rfl, Or.inr rfl⟩

/-- hence whole runs coincide: the same outputs at every step, and the same state file at the end -/
theorem runs_together (a b : Sys ℝ) (ins : List (StepIn ℝ)) (h : SameUpToRun a b) (hc : ∀ i ∈ ins, i.cont = false) :
    (sysRun a ins).2 = (sysRun b ins).2 ∧ persist (sysRun a ins).1 = persist (sysRun b ins).1 ∧
    SameUpToRun (sysRun a ins).1 (sysRun b ins).1 := by
  induction ins generalizing a b with
  | nil => exact ⟨rfl, by simp only [sysRun, persist, h.it, h.biases], h⟩
  | cons i is ih =>
    obtain ⟨h1, h2⟩ := step_together a b i h (hc i (by simp))
    obtain ⟨h3, h4, h5⟩ := ih _ _ h2 (fun j hj => hc j (by simp [hj]))
    exact ⟨by simp only [sysRun, h1, h3], h4, h5⟩

/-! ## re-evaluating the stop step from the loaded state reproduces the state of the uninterrupted run

  for modules whose biases are histograms, harmonic restraints and ABF -/

/-- a freshly configured instance of the same input: same static configuration, initial dynamic data -/
structure FreshOf (fresh s : Sys ℝ) : Prop where
  clock : fresh.clock = {}
  tfSame : fresh.tfSame = s.tfSame
  tfLoop : fresh.tfLoop = s.tfLoop
  tsf : fresh.tsf = s.tsf
  applied : fresh.lastApplied = []
  cvsLen : fresh.cvs.length = s.cvs.length
  cvs : ∀ (k : Nat) (vf vs : CvSt ℝ), fresh.cvs[k]? = some vf → s.cvs[k]? = some vs →
        vf = { vs with x := vf.x, ft := 0, fOld := 0, f := 0 }
  names : fresh.biases.map (·.1) = s.biases.map (·.1)
  nodup : (s.biases.map (·.1)).Nodup
  compat : ∀ pr ∈ fresh.biases.zip s.biases, Compatible pr.1.2 pr.2.2
  abfInit : ∀ n i p st, (n, Bias.abf i p st) ∈ fresh.biases → st = AbfState.init p

/-- only histograms, harmonic restraints and ABF; no bias sleeps (time-step factors 1); ABF biases act on variables
    that exist -/
def Simple (s : Sys ℝ) : Prop :=
  (∀ nb ∈ s.biases, (∃ i g z d, nb.2 = .hist i g z d) ∨ (∃ i k c, nb.2 = .harm i k c) ∨ (∃ i p st, nb.2 = .abf i p st)) ∧
  (∀ nb ∈ s.biases, tsfOf s nb.1 = 1) ∧
  -- `stepZeroData` asks for the first step of every run to be accumulated, the repeated stop step included
  (∀ nb ∈ s.biases, ∀ i g z d, nb.2 = .hist i g z d → z = false) ∧
  (∀ nb ∈ s.biases, ∀ i p st, nb.2 = .abf i p st → p.stepZeroData = false)

/-- fields that are never written keep their initial value 0 (true of every state reached from a configured one) -/
def Tidy (s : Sys ℝ) : Prop :=
  ∀ v ∈ s.cvs, (v.tfCalc = false → v.ft = 0) ∧ (v.subtract = false → v.fOld = 0)

/-- **the stop step, re-evaluated**: let `s` be the state after an ordinary step `i` of the uninterrupted run
    (`prev` was already running); a fresh instance that loads `s` and evaluates the same step `i` again gives the same
    energy and the same atomic forces, accumulates nothing twice, and ends up in the same state up to run bookkeeping -/
theorem stop_step_reproduced (prev fresh : Sys ℝ) (i : StepIn ℝ)
    (hrun : prev.clock.first = false) (hrel : 0 ≤ prev.clock.stepRelative) (hc : i.cont = false)
    (hsimple : Simple prev) (htidy : Tidy prev) (hf : FreshOf fresh (modStep prev i).1) :
    let s := (modStep prev i).1
    let r := modStep (sysLoad fresh s) i
    r.2 = (modStep prev i).2 ∧ persist r.1 = persist s ∧ SameUpToRun s r.1 := by
  intro s r
  obtain ⟨hkind, htsf1, hz1, hz2⟩ := hsimple
  have hcompat : ∀ a b, Compatible a b → C03L.Compat a b := by
    intro a b h; cases a <;> cases b <;> exact h
  -- the clocks of the two evaluations
  have hP : modStep prev i = C03L.stepAt prev (prev.clock.tick false) i := by rw [C03L.modStep_stepAt, hc]
  have hcP : prev.clock.tick false = { prev.clock with it := prev.clock.it + 1, cont := false } :=
    C03L.tick_running prev.clock hrun
  have hposP : 0 < (prev.clock.tick false).stepRelative := by
    rw [hcP]; simp only [Clock.stepRelative] at hrel ⊢; omega
  have hfirstP : (prev.clock.tick false).first = false := by rw [hcP]; exact hrun
  generalize prev.clock.tick false = cP at hP hposP hfirstP
  rw [hP] at hf
  have hs : s = (C03L.stepAt prev cP i).1 := by show (modStep prev i).1 = _; rw [hP]
  obtain ⟨cL, hcL⟩ : ∃ cL : Clock, cL = { it := s.clock.it, itRestart := s.clock.it, first := false, cont := false } :=
    ⟨_, rfl⟩
  have hr : r = C03L.stepAt (sysLoad fresh s) cL i := by
    show modStep (sysLoad fresh s) i = _
    rw [C03L.modStep_stepAt, hc, hcL]; rfl
  have hrelL : cL.stepRelative = 0 := by rw [hcL]; simp [Clock.stepRelative]
  have hitL : cL.it = s.clock.it := by rw [hcL]
  have hfirstL : cL.first = false := by rw [hcL]
  clear hcL
  clear_value s r
  subst hs hr
  rw [hP]
  have hsb : ∀ nb ∈ prev.biases, C03L.SimpleBias nb.2 := fun nb hnb =>
    ⟨hkind nb hnb, hz1 nb hnb, hz2 nb hnb⟩
  have hlen : fresh.cvs.length = prev.cvs.length := by
    rw [hf.cvsLen]
    show (C03L.finCvs _ _).length = _
    rw [C03L.finCvs_length, List.length_map]
  obtain ⟨h1, h2, h3, h4, h5⟩ := C03L.stepAt_reload prev fresh i cP cL hposP hrelL hsb htsf1 htidy
    hf.tfSame hf.tfLoop hf.tsf hf.applied hlen hf.cvs hf.names hf.nodup
    (fun pr hpr => hcompat _ _ (hf.compat pr hpr))
  refine ⟨h1, ?_, ?_⟩
  · simp only [persist, h2]
    exact congrArg (fun x => (x, _)) hitL
  · exact {
      it := hitL.symm
      running := ⟨hfirstP, hfirstL⟩
      rel := ⟨le_of_lt hposP, le_of_eq hrelL.symm⟩
      tfSame := hf.tfSame.symm
      tfLoop := hf.tfLoop.symm
      tsf := hf.tsf.symm
      biases := h2.symm
      applied := h3.symm
      cvsLen := h4.symm
      cvs := h5 }

/-- **resume ≡ uninterrupted** (histogram / harmonic / ABF modules): stop after step `i`, load into a fresh instance,
    re-evaluate `i`, continue with `rest`: every later output and the final state file equal those of the run that
    never stopped -/
theorem resume_equals_uninterrupted (prev fresh : Sys ℝ) (i : StepIn ℝ) (rest : List (StepIn ℝ))
    (hrun : prev.clock.first = false) (hrel : 0 ≤ prev.clock.stepRelative) (hc : i.cont = false)
    (hrest : ∀ j ∈ rest, j.cont = false)
    (hsimple : Simple prev) (htidy : Tidy prev) (hf : FreshOf fresh (modStep prev i).1) :
    let s := (modStep prev i).1
    let resumed := sysRun (sysLoad fresh s) (i :: rest)
    let straight := sysRun s rest
    resumed.2.tail = straight.2 ∧ persist resumed.1 = persist straight.1 := by
  intro s resumed straight
  obtain ⟨-, -, h3⟩ := stop_step_reproduced prev fresh i hrun hrel hc hsimple htidy hf
  obtain ⟨h4, h5, -⟩ := runs_together _ _ rest h3 hrest
  exact ⟨h4.symm, h5.symm⟩

end Cv.C03
