import CvProps.C03Lemmas
/-!
# C03 — a run resumed from a saved state is indistinguishable from an uninterrupted run

Property theorems about `CvModel/Resume.lean` and `CvModel/Module.lean` at `α := ℝ`
(module with value-injected scalar variables; biases: histogram, ABF, harmonic, restraints with schedules;
metadynamics is not covered here: its state is compared on the real code only).

The engine convention (NAMD / LAMMPS / GROMACS, mirrored by the harness): the stop step K is evaluated again, with
the same coordinates, as step 0 of the resumed run (`Clock.first`), and every later step advances the counter.
-/
open Cv

namespace Cv.C03

/-- same kind of bias, configured identically (`firstStep` of a moving restraint is a state parameter) -/
def Compatible : Bias ℝ → Bias ℝ → Prop
  | .hist i g z _, .hist i' g' z' _ => i = i' ∧ g = g' ∧ z = z'
  | .abf i p _, .abf i' p' _ => i = i' ∧ p = p'
  | .harm i k c, .harm i' k' c' => i = i' ∧ k = k' ∧ c = c'
  | .restr i p _, .restr i' p' _ => i = i' ∧ p' = { p with firstStep := p'.firstStep }
  | _, _ => False

/-! ## saving immediately after loading reproduces the state that was loaded -/

theorem save_after_load_bias (fresh saved : Bias ℝ) (h : Compatible fresh saved) :
    saveBias (loadBias fresh saved) = saveBias saved := by
  cases fresh <;> cases saved <;> simp only [Compatible] at h <;> try (simp [loadBias, saveBias]; done)
  rename_i i p s i' p' s'
  obtain ⟨_, hp⟩ := h
  have h1 : p'.targetCenters = p.targetCenters := by rw [hp]
  have h2 : p'.chgK = p.chgK := by rw [hp]
  have h3 : p'.nstages = p.nstages := by rw [hp]
  have h4 : p'.outputWork = p.outputWork := by rw [hp]
  cases hA : p.targetCenters.isSome <;> cases hB : p.chgK <;> cases hC : p.outputWork <;>
    by_cases h5 : p.nstages = 0 <;> simp [loadBias, saveBias, h1, h2, h3, h4, hA, hB, hC, h5]

theorem save_after_load (fresh saved : Sys ℝ)
    (hn : fresh.biases.map (·.1) = saved.biases.map (·.1)) (hnd : (saved.biases.map (·.1)).Nodup)
    (hc : ∀ pr ∈ fresh.biases.zip saved.biases, Compatible pr.1.2 pr.2.2) :
    persist (sysLoad fresh saved) = persist saved := by
  simp only [persist, sysLoad, List.map_map, Prod.mk.injEq, true_and]
  refine C03L.map_eq_map_of_zip _ _ _ _ (C03L.length_eq_of_map_fst _ _ hn) ?_
  intro pr hpr
  have hname : pr.1.1 = pr.2.1 := C03L.zip_fst_eq _ _ hn pr hpr
  have hmem : pr.2 ∈ saved.biases := (List.of_mem_zip hpr).2
  have hfind := C03L.find_of_mem_nodup saved.biases hnd pr.2 hmem
  simp only [Function.comp, hname, hfind]
  rw [save_after_load_bias _ _ (hc pr hpr)]

/-- the loaded instance holds the saved accumulated data: histogram counts, ABF counts and gradient sums -/
theorem load_restores_data (fresh saved : Bias ℝ) (h : Compatible fresh saved) :
    (∀ i g z d, saved = .hist i g z d → ∃ i' g' z', loadBias fresh saved = .hist i' g' z' d) ∧
    (∀ i p s, saved = .abf i p s → ∃ s', loadBias fresh saved = .abf i p s' ∧ s'.samples = s.samples ∧ s'.grad = s.grad) := by
  cases fresh <;> cases saved <;> simp only [Compatible] at h <;> simp [loadBias]
  exact h

/-! ## after the stop step has been re-evaluated, the two runs are step-for-step identical -/

/-- two instances in the same state up to run bookkeeping: everything equal except the step at which the current
    run started, and the stored total force of a variable whose total force is recomputed at every step -/
structure SameUpToRun (a b : Sys ℝ) : Prop where
  it : a.clock.it = b.clock.it
  running : a.clock.first = false ∧ b.clock.first = false
  rel : 0 ≤ a.clock.stepRelative ∧ 0 ≤ b.clock.stepRelative
  tfSame : a.tfSame = b.tfSame
  tfLoop : a.tfLoop = b.tfLoop
  tsf : a.tsf = b.tsf
  biases : a.biases = b.biases
  applied : a.lastApplied = b.lastApplied
  cvsLen : a.cvs.length = b.cvs.length
  cvs : ∀ (k : Nat) (va vb : CvSt ℝ), a.cvs[k]? = some va → b.cvs[k]? = some vb →
        va = { vb with ft := va.ft } ∧ (va.tfCalc = true ∨ va.ft = vb.ft)

/-- one ordinary step (not a repeated step 0) keeps the two instances together and gives the same energy and forces -/
theorem step_together (a b : Sys ℝ) (i : StepIn ℝ) (h : SameUpToRun a b) (hc : i.cont = false) :
    (modStep a i).2 = (modStep b i).2 ∧ SameUpToRun (modStep a i).1 (modStep b i).1 := by
  have hce := C03L.clockEq_tick a.clock b.clock h.running.1 h.running.2 h.it h.rel.1 h.rel.2
  rw [C03L.modStep_eq a i, C03L.modStep_eq b i, hc]
  rw [C03L.cvs_map_congr hce a b i h.tfSame h.tfLoop h.applied h.cvsLen h.cvs,
    C03L.updOf_congr hce a b h.tfSame h.tsf h.biases]
  refine ⟨rfl, ?_⟩
  have hta := C03L.tick_running a.clock h.running.1
  have htb := C03L.tick_running b.clock h.running.2
  constructor
  · exact hce.it
  · simpa [C03L.finish, hta, htb] using h.running
  · exact ⟨le_of_lt hce.pos, le_of_lt hce.pos'⟩
  · exact h.tfSame
  · exact h.tfLoop
  · exact h.tsf
  · rfl
  · rfl
  · rfl
  · intro k va vb h1 h2
    have : va = vb := Option.some.inj (h1.symm.trans h2)
    subst this
    exact ⟨rfl, Or.inr rfl⟩

/-- hence whole runs coincide: the same outputs at every step, and the same state file at the end -/
theorem runs_together (a b : Sys ℝ) (ins : List (StepIn ℝ)) (h : SameUpToRun a b) (hc : ∀ i ∈ ins, i.cont = false) :
    (sysRun a ins).2 = (sysRun b ins).2 ∧ persist (sysRun a ins).1 = persist (sysRun b ins).1 ∧
    SameUpToRun (sysRun a ins).1 (sysRun b ins).1 := by
  induction ins generalizing a b with
  | nil => exact ⟨rfl, by simp only [sysRun, persist, h.it, h.biases], h⟩
  | cons i is ih =>
    obtain ⟨h1, h2⟩ := step_together a b i h (hc i (by simp))
    obtain ⟨h3, h4, h5⟩ := ih _ _ h2 (fun j hj => hc j (by simp [hj]))
    exact ⟨by simp only [sysRun, h1, h3], h4, h5⟩

/-! ## re-evaluating the stop step from the loaded state reproduces the state of the uninterrupted run

  for modules whose biases are histograms, harmonic restraints and ABF -/

/-- a freshly configured instance of the same input: same static configuration, initial dynamic data -/
structure FreshOf (fresh s : Sys ℝ) : Prop where
  clock : fresh.clock = {}
  tfSame : fresh.tfSame = s.tfSame
  tfLoop : fresh.tfLoop = s.tfLoop
  tsf : fresh.tsf = s.tsf
  applied : fresh.lastApplied = []
  cvsLen : fresh.cvs.length = s.cvs.length
  cvs : ∀ (k : Nat) (vf vs : CvSt ℝ), fresh.cvs[k]? = some vf → s.cvs[k]? = some vs →
        vf = { vs with x := vf.x, ft := 0, fOld := 0, f := 0 }
  names : fresh.biases.map (·.1) = s.biases.map (·.1)
  nodup : (s.biases.map (·.1)).Nodup
  compat : ∀ pr ∈ fresh.biases.zip s.biases, Compatible pr.1.2 pr.2.2
  abfInit : ∀ n i p st, (n, Bias.abf i p st) ∈ fresh.biases → st = AbfState.init p

/-- only histograms, harmonic restraints and ABF; no bias sleeps (time-step factors 1); ABF biases act on variables
    that exist -/
def Simple (s : Sys ℝ) : Prop :=
  (∀ nb ∈ s.biases, (∃ i g z d, nb.2 = .hist i g z d) ∨ (∃ i k c, nb.2 = .harm i k c) ∨ (∃ i p st, nb.2 = .abf i p st)) ∧
  (∀ nb ∈ s.biases, tsfOf s nb.1 = 1) ∧
  -- `stepZeroData` asks for the first step of every run to be accumulated, the repeated stop step included
  (∀ nb ∈ s.biases, ∀ i g z d, nb.2 = .hist i g z d → z = false) ∧
  (∀ nb ∈ s.biases, ∀ i p st, nb.2 = .abf i p st → p.stepZeroData = false)

/-- fields that are never written keep their initial value 0 (true of every state reached from a configured one) -/
def Tidy (s : Sys ℝ) : Prop :=
  ∀ v ∈ s.cvs, (v.tfCalc = false → v.ft = 0) ∧ (v.subtract = false → v.fOld = 0)

/-- **the stop step, re-evaluated**: let `s` be the state after an ordinary step `i` of the uninterrupted run
    (`prev` was already running); a fresh instance that loads `s` and evaluates the same step `i` again gives the same
    energy and the same atomic forces, accumulates nothing twice, and ends up in the same state up to run bookkeeping -/
theorem stop_step_reproduced (prev fresh : Sys ℝ) (i : StepIn ℝ)
    (hrun : prev.clock.first = false) (hrel : 0 ≤ prev.clock.stepRelative) (hc : i.cont = false)
    (hsimple : Simple prev) (htidy : Tidy prev) (hf : FreshOf fresh (modStep prev i).1) :
    let s := (modStep prev i).1
    let r := modStep (sysLoad fresh s) i
    r.2 = (modStep prev i).2 ∧ persist r.1 = persist s ∧ SameUpToRun s r.1 := by
  intro s r
  obtain ⟨hkind, htsf1, hz1, hz2⟩ := hsimple
  have hcompat : ∀ a b, Compatible a b → C03L.Compat a b := by
    intro a b h; cases a <;> cases b <;> exact h
  -- the clocks of the two evaluations
  have hP : modStep prev i = C03L.stepAt prev (prev.clock.tick false) i := by rw [C03L.modStep_stepAt, hc]
  have hcP : prev.clock.tick false = { prev.clock with it := prev.clock.it + 1, cont := false } :=
    C03L.tick_running prev.clock hrun
  have hposP : 0 < (prev.clock.tick false).stepRelative := by
    rw [hcP]; simp only [Clock.stepRelative] at hrel ⊢; omega
  have hfirstP : (prev.clock.tick false).first = false := by rw [hcP]; exact hrun
  generalize prev.clock.tick false = cP at hP hposP hfirstP
  rw [hP] at hf
  have hs : s = (C03L.stepAt prev cP i).1 := by show (modStep prev i).1 = _; rw [hP]
  obtain ⟨cL, hcL⟩ : ∃ cL : Clock, cL = { it := s.clock.it, itRestart := s.clock.it, first := false, cont := false } :=
    ⟨_, rfl⟩
  have hr : r = C03L.stepAt (sysLoad fresh s) cL i := by
    show modStep (sysLoad fresh s) i = _
    rw [C03L.modStep_stepAt, hc, hcL]; rfl
  have hrelL : cL.stepRelative = 0 := by rw [hcL]; simp [Clock.stepRelative]
  have hitL : cL.it = s.clock.it := by rw [hcL]
  have hfirstL : cL.first = false := by rw [hcL]
  clear hcL
  clear_value s r
  subst hs hr
  rw [hP]
  have hsb : ∀ nb ∈ prev.biases, C03L.SimpleBias nb.2 := fun nb hnb =>
    ⟨hkind nb hnb, hz1 nb hnb, hz2 nb hnb⟩
  have hlen : fresh.cvs.length = prev.cvs.length := by
    rw [hf.cvsLen]
    show (C03L.finCvs _ _).length = _
    rw [C03L.finCvs_length, List.length_map]
  obtain ⟨h1, h2, h3, h4, h5⟩ := C03L.stepAt_reload prev fresh i cP cL hposP hrelL hsb htsf1 htidy
    hf.tfSame hf.tfLoop hf.tsf hf.applied hlen hf.cvs hf.names hf.nodup
    (fun pr hpr => hcompat _ _ (hf.compat pr hpr))
  refine ⟨h1, ?_, ?_⟩
  · simp only [persist, h2]
    exact congrArg (fun x => (x, _)) hitL
  · exact {
      it := hitL.symm
      running := ⟨hfirstP, hfirstL⟩
      rel := ⟨le_of_lt hposP, le_of_eq hrelL.symm⟩
      tfSame := hf.tfSame.symm
      tfLoop := hf.tfLoop.symm
      tsf := hf.tsf.symm
      biases := h2.symm
      applied := h3.symm
      cvsLen := h4.symm
      cvs := h5 }

/-- **resume ≡ uninterrupted** (histogram / harmonic / ABF modules): stop after step `i`, load into a fresh instance,
    re-evaluate `i`, continue with `rest`: every later output and the final state file equal those of the run that
    never stopped -/
theorem resume_equals_uninterrupted (prev fresh : Sys ℝ) (i : StepIn ℝ) (rest : List (StepIn ℝ))
    (hrun : prev.clock.first = false) (hrel : 0 ≤ prev.clock.stepRelative) (hc : i.cont = false)
    (hrest : ∀ j ∈ rest, j.cont = false)
    (hsimple : Simple prev) (htidy : Tidy prev) (hf : FreshOf fresh (modStep prev i).1) :
    let s := (modStep prev i).1
    let resumed := sysRun (sysLoad fresh s) (i :: rest)
    let straight := sysRun s rest
    resumed.2.tail = straight.2 ∧ persist resumed.1 = persist straight.1 := by
  intro s resumed straight
  obtain ⟨-, -, h3⟩ := stop_step_reproduced prev fresh i hrun hrel hc hsimple htidy hf
  obtain ⟨h4, h5, -⟩ := runs_together _ _ rest h3 hrest
  exact ⟨h4.symm, h5.symm⟩


/-! ## metadynamics: what is written, what is loaded, how the run continues

  `metaFlush` is the side effect of writing a state on the running bias (pending hills are projected onto the grids,
  explicit hills dropped unless kept), `metaLoaded` is what a fresh instance holds after reading that state. -/

/-- two metadynamics states that the bias cannot tell apart: same grid definition, tabulated energy and gradients,
    hills near the boundaries and hills not yet tabulated; the same explicit hills whenever these are used (no grids) or
    kept (keepHills) -/
structure MetaSame (p : MetaParams ℝ) (a b : MetaState ℝ) : Prop where
  g : a.g = b.g
  gridE : a.gridE = b.gridE
  gridG : a.gridG = b.gridG
  offGrid : a.offGrid = b.offGrid
  nNew : a.nNew = b.nNew
  newH : newHills a = newHills b
  le : a.nNew ≤ a.hills.length ∧ b.nNew ≤ b.hills.length
  hills : (p.useGrids = false ∨ p.keepHills = true) → a.hills = b.hills

/-- tabulated data have the size of the grid -/
def GridWF (s : MetaState ℝ) : Prop :=
  s.gridE.length = (allIndices s.g.nx).length ∧ s.gridG.length = (allIndices s.g.nx).length * s.g.nx.length

/-- the instance that loaded the state cannot be told apart from the running instance that wrote it -/
theorem meta_loaded_same_as_writer (p : MetaParams ℝ) (s : MetaState ℝ)
    (hng : p.useGrids = false → s.nNew = s.hills.length) (hle : s.nNew ≤ s.hills.length) :
    MetaSame p (metaLoaded p s) (metaFlush p s) := by
  cases hu : p.useGrids
  · have hn := hng hu
    refine ⟨?_, ?_, ?_, ?_, ?_, ?_, ⟨?_, ?_⟩, ?_⟩
    pick_goal 8
    · simpa [metaFlush, hu] using hle
    all_goals simp [metaLoaded, metaFlush, hu, newHills, hn]
  · constructor <;> simp [metaLoaded, metaFlush, hu, newHills]
    intro hk; simp [hk]

/-- indistinguishable states give the same energy and the same forces at every position -/
theorem meta_same_energy (p : MetaParams ℝ) (a b : MetaState ℝ) (h : MetaSame p a b) (xs : List ℝ) :
    metaEnergy p a xs = metaEnergy p b xs ∧ ∀ i, metaForce p a xs i = metaForce p b xs i := by
  refine ⟨?_, fun i => ?_⟩
  · simp only [metaEnergy, h.g, h.gridE, h.offGrid, h.newH]
  · simp only [metaForce, h.g, h.gridG, h.offGrid, h.newH]

private theorem expandGrids_off (p : MetaParams ℝ) (s : MetaState ℝ) (xs : List ℝ)
    (hexp : p.expand.any id = false) : expandGrids p s xs = s := by
  simp [expandGrids, hexp]

private theorem wtEnergyHere_same (p : MetaParams ℝ) (a b : MetaState ℝ) (h : MetaSame p a b) (xs : List ℝ) :
    wtEnergyHere p a xs = wtEnergyHere p b xs := by
  simp only [wtEnergyHere, h.g, h.gridE, h.offGrid, h.newH]

private theorem drop_append_one {β : Type} (l : List β) (x : β) (n : Nat) (hn : n ≤ l.length) :
    (l ++ [x]).drop ((l ++ [x]).length - (n + 1)) = l.drop (l.length - n) ++ [x] := by
  rw [List.length_append, List.length_singleton, Nat.add_sub_add_right,
    List.drop_append_of_le_length (by omega)]

/-- depositing the same hill on both -/
private def addHill (s : MetaState ℝ) (h : Hill ℝ) (far : Bool) : MetaState ℝ :=
  { s with hills := s.hills ++ [h], nNew := s.nNew + 1, offGrid := if far then s.offGrid ++ [h] else s.offGrid }

private theorem addHill_same (p : MetaParams ℝ) (a b : MetaState ℝ) (h : MetaSame p a b) (hl : Hill ℝ) (far : Bool) :
    MetaSame p (addHill a hl far) (addHill b hl far) where
  g := h.g
  gridE := h.gridE
  gridG := h.gridG
  offGrid := by simp only [addHill, h.offGrid]
  nNew := by simp only [addHill, h.nNew]
  newH := by
    have := h.newH
    simp only [newHills, addHill] at this ⊢
    rw [drop_append_one _ _ _ h.le.1, drop_append_one _ _ _ h.le.2, this]
  le := by simp only [addHill, List.length_append, List.length_singleton]; exact ⟨by have := h.le.1; omega, by have := h.le.2; omega⟩
  hills := fun hk => by simp only [addHill, h.hills hk]

private theorem projectHills_same (p : MetaParams ℝ) (a b : MetaState ℝ) (h : MetaSame p a b) :
    (projectHills p a (newHills a)).g = (projectHills p b (newHills b)).g ∧
    (projectHills p a (newHills a)).gridE = (projectHills p b (newHills b)).gridE ∧
    (projectHills p a (newHills a)).gridG = (projectHills p b (newHills b)).gridG ∧
    (projectHills p a (newHills a)).offGrid = (projectHills p b (newHills b)).offGrid ∧
    (projectHills p a (newHills a)).hills = a.hills ∧ (projectHills p b (newHills b)).hills = b.hills := by
  simp only [projectHills, h.g, h.gridE, h.gridG, h.offGrid, h.newH, and_self]

/-- the grid update of `metaStep` -/
private noncomputable def tabulate (p : MetaParams ℝ) (s : MetaState ℝ) : MetaState ℝ :=
  { projectHills p s (newHills s) with nNew := 0, hills := if p.keepHills then (projectHills p s (newHills s)).hills else [] }

private theorem tabulate_same (p : MetaParams ℝ) (a b : MetaState ℝ) (h : MetaSame p a b) :
    MetaSame p (tabulate p a) (tabulate p b) := by
  obtain ⟨h1, h2, h3, h4, h5, h6⟩ := projectHills_same p a b h
  exact {
    g := h1
    gridE := h2
    gridG := h3
    offGrid := h4
    nNew := rfl
    newH := by simp [newHills, tabulate]
    le := ⟨Nat.zero_le _, Nat.zero_le _⟩
    hills := fun hk => by
      show (if p.keepHills then _ else _) = (if p.keepHills then _ else _)
      rw [h5, h6]
      cases hkk : p.keepHills
      · rfl
      · simp only [if_true]; exact h.hills (Or.inr hkk) }

/-- and one update keeps them indistinguishable (grids that do not expand): same energy and forces now, and at every
    later step by induction -/
theorem meta_step_together (p : MetaParams ℝ) (c : Clock) (a b : MetaState ℝ) (xs : List ℝ)
    (h : MetaSame p a b) (hexp : p.expand.any id = false) :
    (metaStep p c a xs).2 = (metaStep p c b xs).2 ∧ MetaSame p (metaStep p c a xs).1 (metaStep p c b xs).1 := by
  -- the state after deposition
  have key : ∀ s : MetaState ℝ, metaStep p c s xs =
      (let s2 := if depositNow p c then
          addHill s { it := c.it, w := p.hillWeight * (if p.wellTempered then 1.0 * Prim.exp (-1.0 * wtEnergyHere p s xs / p.biasTempKB) else 1.0), centers := xs, sigmas := p.sigmas }
            (p.useGrids && decide (binDistance p s.g xs < ((3 * Prim.floorI p.hillWidth : Int) : ℝ) + 1.0))
        else s
       let s3 := if p.useGrids && decide (p.gridsFreq > 0) && decide (Int.tmod c.it p.gridsFreq = 0) then tabulate p s2 else s2
       (s3, metaEnergy p s3 xs, (List.range xs.length).map (metaForce p s3 xs))) := by
    intro s
    simp only [metaStep, expandGrids_off p s xs hexp, addHill, tabulate]
  rw [key a, key b]
  simp only [wtEnergyHere_same p a b h xs, h.g]
  generalize ({ it := c.it, w := _, centers := xs, sigmas := p.sigmas } : Hill ℝ) = hl
  generalize (p.useGrids && decide (binDistance p b.g xs < _)) = far
  have h2 : MetaSame p (if depositNow p c then addHill a hl far else a) (if depositNow p c then addHill b hl far else b) := by
    cases depositNow p c
    · exact h
    · exact addHill_same p a b h hl far
  revert h2
  generalize (if depositNow p c then addHill a hl far else a) = a2
  generalize (if depositNow p c then addHill b hl far else b) = b2
  intro h2
  have h3 : MetaSame p (if p.useGrids && decide (p.gridsFreq > 0) && decide (Int.tmod c.it p.gridsFreq = 0) then tabulate p a2 else a2)
      (if p.useGrids && decide (p.gridsFreq > 0) && decide (Int.tmod c.it p.gridsFreq = 0) then tabulate p b2 else b2) := by
    cases (p.useGrids && decide (p.gridsFreq > 0) && decide (Int.tmod c.it p.gridsFreq = 0))
    · exact h2
    · exact tabulate_same p a2 b2 h2
  revert h3
  generalize (if p.useGrids && decide (p.gridsFreq > 0) && decide (Int.tmod c.it p.gridsFreq = 0) then tabulate p a2 else a2) = a3
  generalize (if p.useGrids && decide (p.gridsFreq > 0) && decide (Int.tmod c.it p.gridsFreq = 0) then tabulate p b2 else b2) = b3
  intro h3
  obtain ⟨e1, e2⟩ := meta_same_energy p a3 b3 h3 xs
  refine ⟨?_, h3⟩
  show (metaEnergy p a3 xs, _) = (metaEnergy p b3 xs, _)
  rw [e1]
  congr 1
  exact List.map_congr_left (fun i _ => e2 i)


private theorem meta_run_together (p : MetaParams ℝ) (hexp : p.expand.any id = false) (hist : List (Clock × List ℝ)) :
    ∀ (a b : MetaState ℝ) (out : List (ℝ × List ℝ)), MetaSame p a b →
    (hist.foldl (fun (acc : MetaState ℝ × List (ℝ × List ℝ)) cx =>
        let r := metaStep p cx.1 acc.1 cx.2; (r.1, acc.2 ++ [r.2])) (a, out)).2 =
    (hist.foldl (fun (acc : MetaState ℝ × List (ℝ × List ℝ)) cx =>
        let r := metaStep p cx.1 acc.1 cx.2; (r.1, acc.2 ++ [r.2])) (b, out)).2 := by
  induction hist with
  | nil => intro a b out _; rfl
  | cons cx rest ih =>
    intro a b out h
    obtain ⟨h1, h2⟩ := meta_step_together p cx.1 a b cx.2 h hexp
    simp only [List.foldl_cons, h1]
    exact ih _ _ _ h2

/-- **resume ≡ the run that wrote the state**: from the loaded state and from the flushed running state, any further
    history of updates gives the same energies and forces -/
theorem meta_resume (p : MetaParams ℝ) (s : MetaState ℝ) (hist : List (Clock × List ℝ))
    (hng : p.useGrids = false → s.nNew = s.hills.length) (hle : s.nNew ≤ s.hills.length)
    (hexp : p.expand.any id = false) :
    let run := fun (s0 : MetaState ℝ) => (hist.foldl (fun (acc : MetaState ℝ × List (ℝ × List ℝ)) cx =>
        let r := metaStep p cx.1 acc.1 cx.2; (r.1, acc.2 ++ [r.2])) (s0, [])).2
    run (metaLoaded p s) = run (metaFlush p s) := by
  intro run
  exact meta_run_together p hexp hist _ _ [] (meta_loaded_same_as_writer p s hng hle)

private theorem zipWith_neutral {β γ : Type} (f : β → γ → β) (l : List β) (m : List γ)
    (hf : ∀ x, ∀ y ∈ m, f x y = x) (hlen : l.length ≤ m.length) : List.zipWith f l m = l := by
  induction l generalizing m with
  | nil => simp
  | cons x xs ih =>
    cases m with
    | nil => simp at hlen
    | cons y ys =>
      simp only [List.zipWith_cons_cons]
      rw [hf x y (by simp), ih ys (fun x y hy => hf x y (by simp [hy])) (by simpa using hlen)]

private theorem projectHills_nil (p : MetaParams ℝ) (s : MetaState ℝ) (hwf : GridWF s) :
    projectHills p s [] = s := by
  obtain ⟨h1, h2⟩ := hwf
  have e1 : List.zipWith (· + ·) s.gridE ((allIndices s.g.nx).map fun ix => hillsEnergy p [] (binCenters s.g ix)) = s.gridE := by
    apply zipWith_neutral
    · intro x y hy
      obtain ⟨ix, -, rfl⟩ := List.mem_map.1 hy
      show x + (0.0 : ℝ) = x
      norm_num
    · simp [h1]
  have e2 : List.zipWith (fun g f => g - f) s.gridG ((allIndices s.g.nx).flatMap fun ix =>
      (List.range s.g.nx.length).map fun i => hillsForce p [] (binCenters s.g ix) i) = s.gridG := by
    apply zipWith_neutral
    · intro x y hy
      obtain ⟨ix, -, hy⟩ := List.mem_flatMap.1 hy
      obtain ⟨i, -, rfl⟩ := List.mem_map.1 hy
      show x - (0.0 : ℝ) = x
      norm_num
    · simp [h2, List.length_flatMap]
  simp only [projectHills, e1, e2]

/-- writing a state twice in a row changes nothing the second time -/
theorem meta_flush_idempotent (p : MetaParams ℝ) (s : MetaState ℝ) (hwf : GridWF (metaFlush p s)) :
    metaFlush p (metaFlush p s) = metaFlush p s := by
  cases hu : p.useGrids
  · simp [metaFlush, hu]
  · have hn : newHills (metaFlush p s) = [] := by simp [newHills, metaFlush, hu]
    have := projectHills_nil p _ hwf
    conv_lhs => rw [metaFlush]
    simp only [hu, if_true, hn, this]
    cases hk : p.keepHills <;> simp [metaFlush, hu, hk]

/-- saving immediately after loading reproduces the state that was loaded -/
theorem meta_save_after_load (p : MetaParams ℝ) (s : MetaState ℝ) (hwf : GridWF (metaFlush p s)) :
    metaLoaded p (metaLoaded p s) = metaLoaded p s := by
  cases hu : p.useGrids
  · simp [metaLoaded, metaFlush, hu]
  · have hn : newHills (metaLoaded p s) = [] := by simp [newHills, metaLoaded, hu]
    have hwf' : GridWF (metaLoaded p s) := hwf
    have := projectHills_nil p _ hwf'
    have hf : metaFlush p (metaLoaded p s) = { metaLoaded p s with nNew := 0, hills := if p.keepHills then (metaLoaded p s).hills else [] } := by
      conv_lhs => rw [metaFlush]
      simp only [hu, if_true, hn, this]
    conv_lhs => rw [metaLoaded]
    simp only [hf]
    cases hk : p.keepHills <;> simp [metaLoaded, hu, hk]

end Cv.C03
