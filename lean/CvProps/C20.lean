import CvModel.Script
import CvProps.C20b
/-!
# C20 — the scripting interface is total; command bodies run only with an admissible number of arguments

Property theorems about `CvModel/Script.lean` and the command table regenerated from the source
(`CvModel/Gen/Commands.lean`); core Lean only.
-/
open Cv Cv.Script

namespace Cv.C20

/-- every argument list has an outcome (the dispatcher is a total function) -/
theorem total (t : Table) (cvs bs args : List String) : ∃ o, dispatch t cvs bs args = o := ⟨_, rfl⟩

theorem checked_run (t : Table) (fn : String) (k : ObjKind) (objc : Nat) (fn' : String) (k' : ObjKind) (n : Nat)
    (h : checked t fn k objc = .run fn' k' n) :
    fn' = fn ∧ k' = k ∧ ∃ mn mx, lookupCmd t fn = some (mn, mx) ∧ mn ≤ n ∧ n ≤ mx ∧ n + shift k = objc := by
  unfold checked at h
  split at h
  · simp at h
  · rename_i mn mx hl
    split at h
    · simp at h
    · split at h
      · simp at h
      · simp only [Outcome.run.injEq] at h
        obtain ⟨rfl, rfl, rfl⟩ := h
        refine ⟨rfl, rfl, mn, mx, hl, ?_, ?_, ?_⟩ <;> omega

/-- a command body runs only with a number of arguments between its declared minimum and maximum, and that number
    is exactly the number of words after the command words -/
theorem arity (t : Table) (cvs bs args : List String) (fn : String) (k : ObjKind) (n : Nat)
    (h : dispatch t cvs bs args = .run fn k n) :
    ∃ mn mx, lookupCmd t fn = some (mn, mx) ∧ mn ≤ n ∧ n ≤ mx ∧ n + shift k = args.length := by
  unfold dispatch at h
  simp only at h
  split at h
  · simp at h
  · split at h
    · split at h
      · simp at h
      · split at h
        · simp at h
        · obtain ⟨hf, rfl, r⟩ := checked_run _ _ _ _ _ _ _ h; subst hf; exact r
    · split at h
      · split at h
        · simp at h
        · split at h
          · simp at h
          · obtain ⟨hf, rfl, r⟩ := checked_run _ _ _ _ _ _ _ h; subst hf; exact r
      · obtain ⟨hf, rfl, r⟩ := checked_run _ _ _ _ _ _ _ h; subst hf; exact r

/-- hence every access `get_*_cmd_arg(i)` guarded by `i < nargs` stays inside the argument vector -/
theorem arg_in_range (t : Table) (cvs bs args : List String) (fn : String) (k : ObjKind) (n : Nat)
    (h : dispatch t cvs bs args = .run fn k n) (i : Nat) (hi : i < n) : shift k + i < args.length := by
  obtain ⟨_, _, _, _, _, hl⟩ := arity t cvs bs args fn k n h
  omega

/-- the function that runs is the one named by the command words, in the table -/
theorem runs_named (t : Table) (cvs bs args : List String) (fn : String) (k : ObjKind) (n : Nat)
    (h : dispatch t cvs bs args = .run fn k n) : (lookupCmd t fn).isSome = true := by
  obtain ⟨mn, mx, hl, _⟩ := arity t cvs bs args fn k n h
  simp [hl]

/-- a module-level command that is not in the table is an error, never silently accepted -/
theorem unknown_is_error (t : Table) (cvs bs args : List String)
    (hc : args.getD 1 "" ≠ "colvar") (hb : args.getD 1 "" ≠ "bias")
    (hu : lookupCmd t ("cv_" ++ args.getD 1 "") = none) : isError (dispatch t cvs bs args) = true := by
  unfold dispatch
  simp only
  split
  · rfl
  · have h1 : (args.getD 1 "" == "colvar") = false := by simpa using hc
    have h2 : (args.getD 1 "" == "bias") = false := by simpa using hb
    simp only [h1, h2, Bool.false_eq_true, ↓reduceIte, checked, hu, isError]

/-- a command on a variable that does not exist is rejected unless it asks for help -/
theorem missing_colvar_is_error (t : Table) (cvs bs args : List String) (h4 : 4 ≤ args.length)
    (hc : args.getD 1 "" = "colvar") (hn : cvs.contains (args.getD 2 "") = false) (hh : args.getD 3 "" ≠ "help") :
    dispatch t cvs bs args = .notFound := by
  unfold dispatch
  have h2 : ¬ args.length < 2 := by omega
  have h4' : ¬ args.length < 4 := by omega
  have hs : (args.getD 3 "" != "help") = true := by simpa using hh
  have hcond : (!cvs.contains (args.getD 2 "") && args.getD 3 "" != "help") = true := by
    rw [hn, hs]; rfl
  simp only [h2, h4', hc, ↓reduceIte, beq_self_eq_true, hcond]

/-- too few or too many arguments are rejected before the body runs -/
theorem wrong_arity_is_error (t : Table) (fn : String) (k : ObjKind) (objc mn mx : Nat)
    (hl : lookupCmd t fn = some (mn, mx)) (hw : objc < shift k + mn ∨ shift k + mx < objc) :
    isError (checked t fn k objc) = true := by
  unfold checked
  simp only [hl]
  rcases hw with h | h
  · simp [h, isError]
  · by_cases h' : objc < shift k + mn
    · simp [h', isError]
    · simp [h', h, isError]

/-! ## obligations about the table regenerated from the source (re-checked whenever the source changes) -/

theorem table_nonempty : Gen.commands ≠ [] := by decide

theorem table_min_le_max : ∀ c ∈ Gen.commands, c.2.1 ≤ c.2.2 := by decide

theorem table_names_distinct : (Gen.commands.map (·.1)).Nodup := by decide

/-- every function name carries one of the three object prefixes, so `dispatch` can reach it -/
theorem table_prefixes : ∀ c ∈ Gen.commands,
    ("cv_".toList.isPrefixOf c.1.toList || "colvar_".toList.isPrefixOf c.1.toList ||
     "bias_".toList.isPrefixOf c.1.toList) = true := by decide

/-! ## non-vacuity -/

example : dispatch Gen.commands ["d"] [] ["cv", "colvar", "d", "value"] = .run "colvar_value" .colvar 0 := by decide
example : dispatch Gen.commands ["d"] [] ["cv", "colvar", "d", "value", "x"] = .tooMany := by decide

end Cv.C20
