import CvProps.C04Lemmas
/-!
# C04 — ABF stores the mean force per bin and applies its smoothed negative

Property theorems about `CvModel/Abf.lean` at `α := ℝ`.
A *history* is a list of step inputs `AbfIn`; `abfEvents` lists the force samples recorded along it,
`abfRun` returns the final grids and the biasing force applied at every step.
-/
open Cv

namespace Cv.C04

/-- shape invariant of an ABF state -/
structure WF (p : AbfParams ℝ) (s : AbfState ℝ) : Prop where
  samples_len : (s.samples.length : Int) = ntOf 1 p.g.nx
  grad_len : s.grad.length = s.samples.length * nvars p
  last_len : s.lastForce.length = nvars p
  sub_len : p.subtract.length = nvars p
  dims : p.g.lo.length = nvars p ∧ p.g.w.length = nvars p

/-- inputs of the right shape -/
def InOk (p : AbfParams ℝ) (i : AbfIn ℝ) : Prop := i.xs.length = nvars p ∧ i.ft.length = nvars p

theorem wf_init (p : AbfParams ℝ) (hpos : ∀ n ∈ p.g.nx, 0 < n) (hs : p.subtract.length = nvars p)
    (hd : p.g.lo.length = nvars p ∧ p.g.w.length = nvars p) : WF p (AbfState.init p) := by
  have hnt := C15.ntOf_pos p.g.nx hpos
  refine ⟨?_, ?_, ?_, hs, hd⟩
  · show ((List.replicate (ntOf 1 p.g.nx).toNat (0 : Int)).length : Int) = _
    rw [List.length_replicate]; omega
  · show (List.replicate _ _).length = (List.replicate _ _).length * _
    simp only [List.length_replicate]
  · show (List.replicate _ _).length = _
    rw [List.length_replicate]

/- Original statement (false when `maxForce = some m` with `m.length < nvars p`: the capped force, hence
   `lastForce`, then has length `m.length`):
     theorem wf_step (p : AbfParams ℝ) (s : AbfState ℝ) (i : AbfIn ℝ) (h : WF p s) (hi : InOk p i) :
         WF p (abfStep p s i).1
   The hypothesis `hmf` (maxForce has at least one entry per variable) is added. -/
theorem wf_step (p : AbfParams ℝ) (s : AbfState ℝ) (i : AbfIn ℝ) (h : WF p s) (_hi : InOk p i)
    (hmf : ∀ m, p.maxForce = some m → nvars p ≤ m.length) :
    WF p (abfStep p s i).1 := by
  refine ⟨?_, ?_, ?_, h.sub_len, h.dims⟩
  · rw [abfStep_samples_length]; exact h.samples_len
  · rw [abfStep_grad_length, abfStep_samples_length]; exact h.grad_len
  · rw [abfStep_lastForce, abfStep_snd]
    split_ifs
    · exact biasingForce_length _ _ _ hmf
    · rw [List.length_replicate]

/-- the original `wf_step` (without `hmf`) is false: one variable, `maxForce` given as an empty list -/
theorem wf_step_original_false : ¬ ∀ (p : AbfParams ℝ) (s : AbfState ℝ) (i : AbfIn ℝ), WF p s → InOk p i →
    WF p (abfStep p s i).1 := by
  intro H
  let p : AbfParams ℝ :=
    { g := { nx := [4], lo := [0], w := [1] }, subtract := [false], maxForce := some [] }
  have hw : WF p (AbfState.init p) :=
    wf_init p (by intro n hn; simp [p] at hn; omega) rfl ⟨rfl, rfl⟩
  have h := (H p (AbfState.init p) ⟨[0], [0], false, false⟩ hw ⟨rfl, rfl⟩).last_len
  have hb : binsOf p.g [0] = [0] := by simp [binsOf, valueToBin, p]
  rw [abfStep_lastForce, abfStep_snd] at h
  simp only [hb] at h
  rw [if_pos (by simp [p, indexOk]), biasingForce_eq, show p.maxForce = some [] from rfl,
    capForce_some_length] at h
  simp [nvars, p] at h

/-- without any assumption on `maxForce`: every shape fact except the length of `lastForce` is preserved,
    and `lastForce` is never longer than the number of variables -/
theorem wf_step_partial (p : AbfParams ℝ) (s : AbfState ℝ) (i : AbfIn ℝ) (h : WF p s) :
    ((abfStep p s i).1.samples.length : Int) = ntOf 1 p.g.nx ∧
    (abfStep p s i).1.grad.length = (abfStep p s i).1.samples.length * nvars p ∧
    (abfStep p s i).1.lastForce.length ≤ nvars p := by
  refine ⟨?_, ?_, ?_⟩
  · rw [abfStep_samples_length]; exact h.samples_len
  · rw [abfStep_grad_length, abfStep_samples_length]; exact h.grad_len
  · rw [abfStep_lastForce, abfStep_snd]
    split_ifs
    · exact biasingForce_length_le _ _ _
    · rw [List.length_replicate]

/-! ## the stored count and gradient are exactly the recorded samples -/

/-- events attributed to the bin with address `a` -/
noncomputable def eventsAt (p : AbfParams ℝ) (a : Nat) (ev : List (List Int × List ℝ)) : List (List Int × List ℝ) :=
  ev.filter fun e => decide ((address 1 p.g.nx e.1).toNat = a)

/-- after any history, the count of every bin is its initial count plus the number of samples attributed to it -/
theorem count_eq (p : AbfParams ℝ) (s : AbfState ℝ) (h : List (AbfIn ℝ)) (hw : WF p s)
    (hin : ∀ i ∈ h, InOk p i) (a : Nat) (ha : a < s.samples.length) :
    (abfRun p s h).1.samples.getD a 0 = s.samples.getD a 0 + ((eventsAt p a (abfEvents p s h)).length : Int) := by
  have _ := hw; have _ := hin
  exact count_eq_aux p h s a ha

/-- ... and the stored gradient is the initial one minus the sum of those force samples, per variable -/
theorem grad_eq (p : AbfParams ℝ) (s : AbfState ℝ) (h : List (AbfIn ℝ)) (hw : WF p s)
    (hin : ∀ i ∈ h, InOk p i) (a : Nat) (ha : a < s.samples.length) (j : Nat) (hj : j < nvars p) :
    (abfRun p s h).1.grad.getD (a * nvars p + j) 0 =
      s.grad.getD (a * nvars p + j) 0 - ((eventsAt p a (abfEvents p s h)).map (fun e => e.2.getD j 0)).sum := by
  have _ := hin
  exact grad_eq_aux p (le_of_eq hw.sub_len) h s a j hw.grad_len ha hj

/-- hence, starting from empty grids, gradient / count is minus the arithmetic mean of the samples of the bin -/
theorem mean_eq (p : AbfParams ℝ) (h : List (AbfIn ℝ)) (hpos : ∀ n ∈ p.g.nx, 0 < n)
    (hs : p.subtract.length = nvars p) (hd : p.g.lo.length = nvars p ∧ p.g.w.length = nvars p)
    (hin : ∀ i ∈ h, InOk p i) (a : Nat) (ha : (a : Int) < ntOf 1 p.g.nx) (j : Nat) (hj : j < nvars p)
    (hn : 0 < (eventsAt p a (abfEvents p (AbfState.init p) h)).length) :
    let fin := (abfRun p (AbfState.init p) h).1
    let ev := eventsAt p a (abfEvents p (AbfState.init p) h)
    fin.samples.getD a 0 = (ev.length : Int) ∧
    fin.grad.getD (a * nvars p + j) 0 / (ev.length : ℝ) = - ((ev.map (fun e => e.2.getD j 0)).sum / (ev.length : ℝ)) := by
  intro fin ev
  have _ := hn
  have hw := wf_init p hpos hs hd
  have ha' : a < (AbfState.init p).samples.length := by
    show a < (List.replicate _ _).length
    rw [List.length_replicate]; omega
  have hc := count_eq p _ h hw hin a ha'
  have hg := grad_eq p _ h hw hin a ha' j hj
  have i1 : (AbfState.init p).samples.getD a 0 = 0 := getD_replicate_self _ _ _
  have i2 : (AbfState.init p).grad.getD (a * nvars p + j) 0 = 0 := by
    show (List.replicate _ (0.0 : ℝ)).getD _ 0 = 0
    rw [zero_lit]; exact getD_replicate_self _ _ _
  refine ⟨by rw [hc, i1, zero_add], ?_⟩
  rw [hg, i2]
  ring

/-! ## which sample is recorded: attributed to the bin occupied when the force acted, minus the ABF force applied then -/

/-- one-step-late total forces: the sample of step `t` goes to the bin occupied at step `t-1`, and the
    ABF force applied at step `t-1` is removed from it unless the variable already subtracts applied forces -/
theorem event_late (p : AbfParams ℝ) (s : AbfState ℝ) (prev cur : AbfIn ℝ) (hw : WF p s) (hp : InOk p prev) (hc : InOk p cur)
    (hl : p.tfCurrent = false) :
    let s1 := (abfStep p s prev).1
    let fprev := (abfStep p s prev).2
    abfEvent p s1 cur =
      if cur.elig && p.updateBias && cur.timingOk && indexOk p.g.nx (binsOf p.g prev.xs) then
        some (binsOf p.g prev.xs,
              (List.zip (List.zip cur.ft fprev) p.subtract).map fun ((f, l), sub) => if sub then f else f - l)
      else none := by
  have _ := hw; have _ := hp; have _ := hc
  intro s1 fprev
  rw [abfEvent_eq, systemForce_late p s1 cur.ft hl]
  simp only [hl, Bool.false_eq_true, if_false]
  rfl

/-- same-step total forces: the sample goes to the current bin and nothing is subtracted -/
theorem event_current (p : AbfParams ℝ) (s : AbfState ℝ) (cur : AbfIn ℝ) (hw : WF p s) (hc : InOk p cur)
    (hl : p.tfCurrent = true) :
    abfEvent p s cur =
      if cur.elig && p.updateBias && cur.timingOk && indexOk p.g.nx (binsOf p.g cur.xs) then
        some (binsOf p.g cur.xs, cur.ft) else none := by
  rw [abfEvent_eq, systemForce_current p s cur.ft hl (by rw [hw.last_len, hc.2]) (by rw [hw.sub_len, hc.2])]
  simp only [hl, if_true]

/-- nothing is recorded at ineligible steps, with `updateBias off`, or before a total force exists -/
theorem no_event (p : AbfParams ℝ) (s : AbfState ℝ) (i : AbfIn ℝ)
    (h : i.elig = false ∨ p.updateBias = false ∨ i.timingOk = false) : abfEvent p s i = none := by
  rw [abfEvent_eq]
  rcases h with h | h | h <;> simp [h]

/-! ## the applied force -/

/-- zero outside the grid or with `applyBias off` -/
theorem force_zero (p : AbfParams ℝ) (s : AbfState ℝ) (i : AbfIn ℝ)
    (h : p.applyBias = false ∨ indexOk p.g.nx (binsOf p.g i.xs) = false) :
    (abfStep p s i).2 = List.replicate (nvars p) 0 := by
  rw [abfStep_snd, zero_lit]
  rcases h with h | h <;> simp [h]

/-- the smoothing weight is the documented ramp divided by the count -/
theorem smooth_is_ramp (p : AbfParams ℝ) (n : Int) (hn : 0 < n) (hm : 0 ≤ p.minSamples) (hf : p.minSamples < p.fullSamples) :
    smoothInvWeight p n = ramp p n / (n : ℝ) :=
  smooth_is_ramp_aux p n hn hm hf

/-- the ramp is 0 up to minSamples, 1 from fullSamples, affine and increasing in between, always in [0, 1] -/
theorem ramp_props (p : AbfParams ℝ) (hm : 0 ≤ p.minSamples) (hf : p.minSamples < p.fullSamples) :
    (∀ n, n ≤ p.minSamples → ramp p n = 0) ∧ (∀ n, p.fullSamples ≤ n → ramp p n = 1) ∧
    (∀ n m, n ≤ m → ramp p n ≤ ramp p m) ∧ (∀ n, 0 ≤ ramp p n ∧ ramp p n ≤ 1) := by
  have _ := hm
  exact ⟨fun n h => ramp_zero p hf n h, fun n h => ramp_one p n h, ramp_mono p hf, ramp_bounds p hf⟩

/-- inside the grid, without the periodic correction and the cap, the force on variable `j` is
    ramp(count) times (stored gradient / count) of the current bin — i.e. minus the ramped mean force sample -/
theorem force_is_ramped_mean (p : AbfParams ℝ) (s : AbfState ℝ) (bin : List Int) (j : Nat) (hj : j < nvars p)
    (hp : p.periodic1D = false) (hc : p.maxForce = none) (hm : 0 ≤ p.minSamples) (hf : p.minSamples < p.fullSamples)
    (hn : 0 < s.samples.getD (address 1 p.g.nx bin).toNat 0) :
    let a := (address 1 p.g.nx bin).toNat
    (biasingForce p s bin).getD j 0 =
      ramp p (s.samples.getD a 0) * (s.grad.getD (a * nvars p + j) 0 / ((s.samples.getD a 0 : Int) : ℝ)) := by
  intro a
  exact force_is_ramped_mean_aux p s bin j hj hp hc hm hf hn

/-- with `maxForce` every component is capped -/
theorem force_capped (mf f : List ℝ) (hl : mf.length = f.length) (hpos : ∀ m ∈ mf, 0 ≤ m) (j : Nat) (hj : j < f.length) :
    |(capForce (some mf) f).getD j 0| ≤ mf.getD j 0 :=
  force_capped_aux mf f hl hpos j hj

/-- one periodic variable, every bin sampled at least fullSamples times: the biasing force has zero mean over the grid,
    i.e. the biasing potential is periodic -/
theorem periodic_zero_mean (p : AbfParams ℝ) (s : AbfState ℝ) (n : Nat) (hn : 0 < n)
    (hnx : p.g.nx = [(n : Int)]) (hp : p.periodic1D = true) (hc : p.maxForce = none)
    (hm : 0 ≤ p.minSamples) (hf : p.minSamples < p.fullSamples)
    (hs : s.samples.length = n) (hg : s.grad.length = n) (hfull : ∀ c ∈ s.samples, p.fullSamples ≤ c) :
    ((List.range n).map fun b => (biasingForce p s [(b : Int)]).getD 0 0).sum = 0 := by
  rw [bind_pure_cast, List.map_map]
  exact periodic_zero_mean_aux p s n hn hnx hp hc hm hf hs hg hfull

/-! ## non-vacuity -/

example : ∃ p : AbfParams ℝ, (∀ n ∈ p.g.nx, 0 < n) ∧ p.subtract.length = nvars p ∧
    (p.g.lo.length = nvars p ∧ p.g.w.length = nvars p) ∧ 0 ≤ p.minSamples ∧ p.minSamples < p.fullSamples :=
  ⟨{ g := { nx := [4], lo := [0], w := [1] }, subtract := [false] },
    by intro n hn; simp at hn; omega, rfl, ⟨rfl, rfl⟩, by decide, by decide⟩

end Cv.C04
