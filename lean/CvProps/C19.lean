import CvProps.RealInst
import CvProps.C19Lemmas
/-!
# C19 — written outputs: announced columns, line schedule, running average and deviation

Property theorems about `CvModel/Output.lean`.
-/
open Cv

namespace Cv.C19

/-! ## the fields of a line are exactly the columns announced by the label line, in the same order -/

theorem cv_columns_match (f : CvFlags) : (cvLabels f).map (·.2) = cvFields f := by
  rcases f with ⟨a, b, c, d, e, g⟩
  cases a <;> cases b <;> cases c <;> cases d <;> cases e <;> cases g <;> rfl

theorem bias_columns_match (f : BiasFlags) : (biasLabels f).map (·.2) = biasFields f := by
  rcases f with ⟨e, n, w⟩
  cases e <;> cases w <;> simp [biasLabels, biasFields, List.map_map, Function.comp_def]

/-- hence for any list of variables and biases the whole label line and the whole data line agree -/
theorem line_columns_match (cvs : List CvFlags) (bs : List BiasFlags) :
    (cvs.flatMap fun f => (cvLabels f).map (·.2)) ++ (bs.flatMap fun f => (biasLabels f).map (·.2)) =
    (cvs.flatMap cvFields) ++ (bs.flatMap biasFields) := by
  simp only [cv_columns_match, bias_columns_match]

/-! ## exactly one line per multiple of the output frequency, stamped with that step -/

def dataSteps : List TrajLine → List Int
  | [] => []
  | .data s :: r => s :: dataSteps r
  | .label :: r => dataSteps r

/-- the data lines of a run are the steps that are multiples of the frequency, in the order they were taken, each once
    per `update` call on that step -/
theorem one_line_per_multiple (freq : Int) (flag : Bool) (run : List (Clock × Bool)) :
    dataSteps (trajRun freq flag run) =
      (run.filter fun cb => decide (Int.tmod cb.1.it freq = 0)).map (·.1.it) := by
  have happ : ∀ a b : List TrajLine, dataSteps (a ++ b) = dataSteps a ++ dataSteps b := by
    intro a b
    induction a with
    | nil => rfl
    | cons x a ih => cases x <;> simp [dataSteps, ih]
  induction run generalizing flag with
  | nil => rfl
  | cons cb rest ih =>
    obtain ⟨c, changed⟩ := cb
    simp only [trajRun, happ, ih, trajStep_fst]
    cases labCond freq c (flag || changed) <;> by_cases hd : Int.tmod c.it freq = 0 <;>
      simp [hd, dataSteps]

/-! ## every data line is preceded by the label line of the current set of columns -/

/-- lines tagged with the version of the column set in force when they were written; the version grows whenever the
    configuration changed before a step -/
def trajRunV (freq : Int) : Bool → Nat → List (Clock × Bool) → List (TrajLine × Nat)
  | _, _, [] => []
  | flag, v, (c, changed) :: rest =>
    let v' := if changed then v + 1 else v
    let r := trajStep freq c (flag || changed)
    r.1.map (fun l => (l, v')) ++ trajRunV freq r.2 v' rest

/-- scanning a file: `cur` is the version announced by the last label line (none before any label) -/
def wellLabelled : Option Nat → List (TrajLine × Nat) → Bool
  | _, [] => true
  | _, (.label, v) :: r => wellLabelled (some v) r
  | cur, (.data _, v) :: r => (cur == some v) && wellLabelled cur r

/-- starting with the "write labels" flag raised (as after initialisation), every data line of every run follows a
    label line written for the very same set of columns -/
theorem labels_precede_data (freq : Int) (v : Nat) (run : List (Clock × Bool)) :
    wellLabelled none (trajRunV freq true v run) = true := by
  have key : ∀ (run : List (Clock × Bool)) (flag : Bool) (v : Nat) (cur : Option Nat),
      (flag = true ∨ cur = some v) → wellLabelled cur (trajRunV freq flag v run) = true := by
    intro run
    induction run with
    | nil => intros; rfl
    | cons cb rest ih =>
      intro flag v cur h
      obtain ⟨c, changed⟩ := cb
      simp only [trajRunV, trajStep_fst, trajStep_snd_false]
      cases hl : labCond freq c (flag || changed)
      · -- no label: the flag was down and nothing changed, so the last label carries the current version
        have hf := flag_of_not_labCond freq c _ hl
        simp only [Bool.or_eq_false_iff] at hf
        obtain ⟨hf1, hf2⟩ := hf
        subst hf1 hf2
        have hc : cur = some v := by simpa using h
        subst hc
        by_cases hd : Int.tmod c.it freq = 0
        · simp [hd, wellLabelled, ih false v (some v) (Or.inr rfl)]
        · simp [hd, ih false v (some v) (Or.inr rfl)]
      · by_cases hd : Int.tmod c.it freq = 0
        · simp [hd, wellLabelled, ih false _ _ (Or.inr rfl)]
        · simp [hd, wellLabelled, ih false _ _ (Or.inr rfl)]
  exact key run true v none (Or.inl rfl)

/-- the tagged run is the plain run with tags -/
theorem trajRunV_erase (freq : Int) (flag : Bool) (v : Nat) (run : List (Clock × Bool)) :
    (trajRunV freq flag v run).map (·.1) = trajRun freq flag run := by
  induction run generalizing flag v with
  | nil => rfl
  | cons cb rest ih =>
    obtain ⟨c, changed⟩ := cb
    simp [trajRunV, trajRun, ih, List.map_map, Function.comp_def]

/-! ## running average and standard deviation are the textbook ones over the last `length` values -/

/-- once started, the stored history is the last `length - 1` values seen, most recent first -/
theorem runave_window (length : Nat) (s : RunAve ℝ) (x : ℝ) (hs : s.started = true) :
    (runAveStep length none s x).1.hist = (x :: s.hist).take (length - 1) := by
  rw [runAveStep_started length none s x hs]

/-- with a full window the written average is the arithmetic mean of the current value and the `length - 1` previous ones,
    and the written deviation is the sample standard deviation of those same `length` values -/
theorem runave_textbook (length : Nat) (hl : 2 ≤ length) (s : RunAve ℝ) (x : ℝ) (hs : s.started = true)
    (hh : s.hist.length = length - 1) :
    let w := x :: s.hist
    let mean := w.sum / (length : ℝ)
    (runAveStep length none s x).2 =
      some (mean, Real.sqrt ((w.map fun v => (v - mean) ^ 2).sum / ((length : ℝ) - 1))) := by
  intro w mean
  have hfull : s.hist.length + 1 ≥ length := by omega
  have hcast : ((length - 1 : Nat) : ℝ) = (length : ℝ) - 1 := by
    rw [Nat.cast_sub (by omega : 1 ≤ length)]; simp
  have hmean : (s.hist.foldl (· + ·) x) * (1.0 / (length : ℝ)) = mean := by
    rw [foldl_add, one_lit]
    simp only [mean, w, List.sum_cons]
    ring
  have hsq : (s.hist.map fun xi => (xi - mean) * (xi - mean)) = s.hist.map fun v => (v - mean) ^ 2 := by
    apply List.map_congr_left; intro a _; ring
  have hvar : (s.hist.foldl (fun a xi => a + dist2S none xi mean) (0.0 + dist2S none x mean)) *
      (1.0 / ((length : ℝ) - 1)) = (w.map fun v => (v - mean) ^ 2).sum / ((length : ℝ) - 1) := by
    rw [foldl_add_map (fun xi => dist2S none xi mean), zero_lit, one_lit]
    simp only [w, List.map_cons, List.sum_cons, dist2S_none, zero_add, hsq]
    ring
  rw [runAveStep_started length none s x hs, if_pos hfull]
  simp only [hmean, prim_sqrt, hcast, hvar]

/-- no line is written before the window is full -/
theorem runave_silent_until_full (length : Nat) (s : RunAve ℝ) (x : ℝ) (hs : s.started = true)
    (hh : s.hist.length + 1 < length) : (runAveStep length none s x).2 = none := by
  rw [runAveStep_started length none s x hs, if_neg (by omega)]

/-! ## non-vacuity -/

example : (cvLabels { value := true, velocity := true, extended := true }).map (·.1) = ["", "r_", "v_", "vr_"] := by
  rfl

end Cv.C19
