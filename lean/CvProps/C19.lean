import CvProps.RealInst
import CvProps.C19Lemmas
/-!
# C19 — written outputs: announced columns, line schedule, running average and deviation

Property theorems about `CvModel/Output.lean`.
-/
open Cv

namespace Cv.C19

/-! ## the fields of a line are exactly the columns announced by the label line, in the same order -/

theorem cv_columns_match (f : CvFlags) : (cvLabels f).map (·.2) = cvFields f := by
  rcases f with ⟨a, b, c, d, e, g⟩
  cases a <;> cases b <;> cases c <;> cases d <;> cases e <;> cases g <;> rfl

theorem bias_columns_match (f : BiasFlags) : (biasLabels f).map (·.2) = biasFields f := by
  rcases f with ⟨e, n, w⟩
  cases e <;> cases w <;> simp [biasLabels, biasFields, List.map_map, Function.comp_def]

/-- hence for any list of variables and biases the whole label line and the whole data line agree -/
theorem line_columns_match (cvs : List CvFlags) (bs : List BiasFlags) :
    (cvs.flatMap fun f => (cvLabels f).map (·.2)) ++ (bs.flatMap fun f => (biasLabels f).map (·.2)) =
    (cvs.flatMap cvFields) ++ (bs.flatMap biasFields) := by
  simp only [cv_columns_match, bias_columns_match]

/-! ## exactly one line per multiple of the output frequency, stamped with that step -/

def dataSteps : List TrajLine → List Int
  | [] => []
  | .data s :: r => s :: dataSteps r
  | .label :: r => dataSteps r

/-- the data lines of a run are the steps that are multiples of the frequency, in the order they were taken, each once
    per `update` call on that step -/
theorem one_line_per_multiple (freq : Int) (flag : Bool) (run : List (Clock × Bool)) :
    dataSteps (trajRun freq flag run) =
      (run.filter fun cb => decide (Int.tmod cb.1.it freq = 0)).map (·.1.it) := by
  have happ : ∀ a b : List TrajLine, dataSteps (a ++ b) = dataSteps a ++ dataSteps b := by
    intro a b
    induction a with
    | nil => rfl
    | cons x a ih => cases x <;> simp [dataSteps, ih]
  induction run generalizing flag with
  | nil => rfl
  | cons cb rest ih =>
    obtain ⟨c, changed⟩ := cb
    simp only [trajRun, happ, ih, trajStep_fst]
    cases labCond freq c (flag || changed) <;> by_cases hd : Int.tmod c.it freq = 0 <;>
      simp [hd, dataSteps]

/-! ## every data line is preceded by the label line of the current set of columns -/

/-- lines tagged with the version of the column set in force when they were written; the version grows whenever the
    configuration changed before a step -/
def trajRunV (freq : Int) : Bool → Nat → List (Clock × Bool) → List (TrajLine × Nat)
  | _, _, [] => []
  | flag, v, (c, changed) :: rest =>
    let v' := if changed then v + 1 else v
    let r := trajStep freq c (flag || changed)
    r.1.map (fun l => (l, v')) ++ trajRunV freq r.2 v' rest

/-- scanning a file: `cur` is the version announced by the last label line (none before any label) -/
def wellLabelled : Option Nat → List (TrajLine × Nat) → Bool
  | _, [] => true
  | _, (.label, v) :: r => wellLabelled (some v) r
  | cur, (.data _, v) :: r => (cur == some v) && wellLabelled cur r

/-- starting with the "write labels" flag raised (as after initialisation), every data line of every run follows a
    label line written for the very same set of columns -/
theorem labels_precede_data (freq : Int) (v : Nat) (run : List (Clock × Bool)) :
    wellLabelled none (trajRunV freq true v run) = true := by
  have key : ∀ (run : List (Clock × Bool)) (flag : Bool) (v : Nat) (cur : Option Nat),
      (flag = true ∨ cur = some v) → wellLabelled cur (trajRunV freq flag v run) = true := by
    intro run
    induction run with
    | nil => intros; rfl
    | cons cb rest ih =>
      intro flag v cur h
      obtain ⟨c, changed⟩ := cb
      simp only [trajRunV, trajStep_fst, trajStep_snd_false]
      cases hl : labCond freq c (flag || changed)
      · -- no label: the flag was down and nothing changed, so the last label carries the current version
        have hf := flag_of_not_labCond freq c _ hl
        simp only [Bool.or_eq_false_iff] at hf
        obtain ⟨hf1, hf2⟩ := hf
        subst hf1 hf2
        have hc : cur = some v := by simpa using h
        subst hc
        by_cases hd : Int.tmod c.it freq = 0
        · simp [hd, wellLabelled, ih false v (some v) (Or.inr rfl)]
        · simp [hd, ih false v (some v) (Or.inr rfl)]
      · by_cases hd : Int.tmod c.it freq = 0
        · simp [hd, wellLabelled, ih false _ _ (Or.inr rfl)]
        · simp [hd, wellLabelled, ih false _ _ (Or.inr rfl)]
  exact key run true v none (Or.inl rfl)

/-- the tagged run is the plain run with tags -/
theorem trajRunV_erase (freq : Int) (flag : Bool) (v : Nat) (run : List (Clock × Bool)) :
    (trajRunV freq flag v run).map (·.1) = trajRun freq flag run := by
  induction run generalizing flag v with
  | nil => rfl
  | cons cb rest ih =>
    obtain ⟨c, changed⟩ := cb
    simp [trajRunV, trajRun, ih, List.map_map, Function.comp_def]

/-! ## running average and standard deviation are the textbook ones over the last `length` values -/

/-- once started, the stored history is the last `length - 1` values seen, most recent first -/
theorem runave_window (length : Nat) (s : RunAve ℝ) (x : ℝ) (hs : s.started = true) :
    (runAveStep length none s x).1.hist = (x :: s.hist).take (length - 1) := by
  rw [runAveStep_started length none s x hs]

/-- with a full window the written average is the arithmetic mean of the current value and the `length - 1` previous ones,
    and the written deviation is the sample standard deviation of those same `length` values -/
theorem runave_textbook (length : Nat) (hl : 2 ≤ length) (s : RunAve ℝ) (x : ℝ) (hs : s.started = true)
    (hh : s.hist.length = length - 1) :
    let w := x :: s.hist
    let mean := w.sum / (length : ℝ)
    (runAveStep length none s x).2 =
      some (mean, Real.sqrt ((w.map fun v => (v - mean) ^ 2).sum / ((length : ℝ) - 1))) := by
  intro w mean
  have hfull : s.hist.length + 1 ≥ length := by omega
  have hcast : ((length - 1 : Nat) : ℝ) = (length : ℝ) - 1 := by
    rw [Nat.cast_sub (by omega : 1 ≤ length)]; simp
  have hmean : (s.hist.foldl (· + ·) x) * (1.0 / (length : ℝ)) = mean := by
    rw [foldl_add, one_lit]
    simp only [mean, w, List.sum_cons]
    ring
  have hsq : (s.hist.map fun xi => (xi - mean) * (xi - mean)) = s.hist.map fun v => (v - mean) ^ 2 := by
    apply List.map_congr_left; intro a _; ring
  have hvar : (s.hist.foldl (fun a xi => a + dist2S none xi mean) (0.0 + dist2S none x mean)) *
      (1.0 / ((length : ℝ) - 1)) = (w.map fun v => (v - mean) ^ 2).sum / ((length : ℝ) - 1) := by
    rw [foldl_add_map (fun xi => dist2S none xi mean), zero_lit, one_lit]
    simp only [w, List.map_cons, List.sum_cons, dist2S_none, zero_add, hsq]
    ring
  rw [runAveStep_started length none s x hs, if_pos hfull]
  simp only [hmean, prim_sqrt, hcast, hvar]

/-- no line is written before the window is full -/
theorem runave_silent_until_full (length : Nat) (s : RunAve ℝ) (x : ℝ) (hs : s.started = true)
    (hh : s.hist.length + 1 < length) : (runAveStep length none s x).2 = none := by
  rw [runAveStep_started length none s x hs, if_neg (by omega)]

/-! ## time-correlation functions (`CvModel/Acf.lean`) -/

section ACF
open Cv.Acf

/-- the time origins for which a complete row of lags exists after `n` analysis steps (steps are numbered from 1; step 0
    of the run only allocates): `t - (offset + length) * stride ≥ 1` -/
def origins (p : Params) (n : Nat) : List Nat :=
  (List.range (n + 1)).filter fun t => decide ((p.offset + p.length) * p.stride + 1 ≤ t)

/-! ### helper lemmas: one step on a started state, the invariant carried by a run -/

/-- `step` on a started state, field by field -/
private theorem step_started (p : Params) (s : State ℝ) (own other : List ℝ) (hst : s.started = true) :
    step p s own other =
      { started := true
        hist := s.hist.set s.cur ((own :: s.hist.getD s.cur []).take (p.length + p.offset))
        cur := if s.cur + 1 ≥ p.stride then 0 else s.cur + 1
        acf := if (s.hist.getD s.cur []).length ≥ p.length + p.offset then
            List.zipWith (· + ·) s.acf (lagZero p own other ::
              (((s.hist.getD s.cur []).drop p.offset).take p.length).map fun q => pairValue p q other)
          else s.acf
        nframes := if (s.hist.getD s.cur []).length ≥ p.length + p.offset then s.nframes + 1 else s.nframes } := by
  obtain ⟨st, hist, cur, acf, nf⟩ := s
  simp only at hst
  subst hst
  unfold step
  simp only [Bool.not_true, Bool.false_eq_true, if_false]
  split <;> rfl

private theorem run_succ (p : Params) (own other : Nat → List ℝ) (n : Nat) :
    run p ((List.range (n + 1)).map fun i => (own (i + 1), other (i + 1))) =
      step p (run p ((List.range n).map fun i => (own (i + 1), other (i + 1)))) (own (n + 1)) (other (n + 1)) := by
  simp [run, List.range_succ, List.foldl_append]

private theorem origins_succ (p : Params) (n : Nat) :
    origins p (n + 1) = origins p n ++ (if (p.offset + p.length) * p.stride + 1 ≤ n + 1 then [n + 1] else []) := by
  unfold origins
  rw [List.range_succ (n := n + 1), List.filter_append]
  congr 1
  by_cases h : (p.offset + p.length) * p.stride + 1 ≤ n + 1 <;> simp [h] <;> omega

private theorem cons_take_range {β : Type} (f g : Nat → β) (x : β) (a K : Nat) (h0 : g 0 = x)
    (hsucc : ∀ i, g (i + 1) = f i) :
    (x :: (List.range (min a K)).map f).take K = (List.range (min (a + 1) K)).map g := by
  have h1 : x :: (List.range (min a K)).map f = (List.range (min a K + 1)).map g := by
    rw [List.range_succ_eq_map, List.map_cons, h0, List.map_map]
    congr 1
    apply List.map_congr_left
    intro i _
    simp [hsucc]
  rw [h1, ← List.map_take, List.take_range]
  congr 2
  omega

private theorem getD_zipWith_add (l1 l2 : List ℝ) (j : Nat) (h1 : j < l1.length) (h2 : j < l2.length) :
    (List.zipWith (· + ·) l1 l2).getD j 0 = l1.getD j 0 + l2.getD j 0 := by
  simp [List.getD_eq_getElem?_getD, h1, h2]

/-- what holds after `n` analysis steps -/
private structure Inv (p : Params) (own other : Nat → List ℝ) (n : Nat) (s : State ℝ) : Prop where
  started : s.started = true
  hlen : s.hist.length = p.stride
  cur : s.cur = n % p.stride
  alen : s.acf.length = p.length + 1
  hist : ∀ m, n ≤ m → m < n + p.stride →
    s.hist.getD (m % p.stride) [] =
      (List.range (min (m / p.stride) (p.length + p.offset))).map fun i => own (m + 1 - (i + 1) * p.stride)
  nfr : s.nframes = (origins p n).length
  acf0 : s.acf.getD 0 0 = ((origins p n).map fun t => lagZero p (own t) (other t)).sum
  acfj : ∀ j, 1 ≤ j → j ≤ p.length →
    s.acf.getD j 0 = ((origins p n).map fun t => pairValue p (own (t - (p.offset + j) * p.stride)) (other t)).sum

private theorem origins_zero_of (p : Params) : origins p 0 = [] := by
  simp [origins]

private theorem inv_init (p : Params) (own other : Nat → List ℝ) :
    Inv p own other 0 (init p) where
  started := rfl
  hlen := by simp [init]
  cur := by simp [init]
  alen := by simp [init]
  hist := by
    intro m _ hm
    have : m / p.stride = 0 := Nat.div_eq_of_lt (by omega)
    simp [init, this, List.getD_eq_getElem?_getD, List.getElem?_replicate]
    split <;> rfl
  nfr := by simp [init, origins_zero_of p]
  acf0 := by simp [init, origins_zero_of p, zero_lit]
  acfj := by
    intro j _ hj
    simp [init, origins_zero_of p, zero_lit, List.getD_eq_getElem?_getD, List.getElem?_replicate]
    split <;> rfl

private theorem mod_succ_turn (n k : Nat) (hk : 0 < k) :
    (if n % k + 1 ≥ k then 0 else n % k + 1) = (n + 1) % k := by
  have hlt := Nat.mod_lt n hk
  rw [← Nat.mod_add_mod n k 1]
  split
  · have : n % k + 1 = k := by omega
    rw [this, Nat.mod_self]
  · rw [Nat.mod_eq_of_lt (a := n % k + 1) (by omega)]

private theorem same_turn (n m k : Nat) (hk : 0 < k) (h1 : n + 1 ≤ m) (h2 : m < n + 1 + k)
    (h : m % k = n % k) : m = n + k := by
  have hd : k ∣ m - n := (Nat.modEq_iff_dvd' (by omega)).mp h.symm
  obtain ⟨c, hc⟩ := hd
  rcases c with _ | _ | c
  · omega
  · omega
  · have : k * (c + 1 + 1) = k * c + k + k := by ring
    omega

private theorem inv_step (p : Params) (hs : 0 < p.stride) (own other : Nat → List ℝ) (n : Nat) (s : State ℝ)
    (h : Inv p own other n s) : Inv p own other (n + 1) (step p s (own (n + 1)) (other (n + 1))) := by
  have hl : s.hist.getD s.cur [] =
      (List.range (min (n / p.stride) (p.length + p.offset))).map fun i => own (n + 1 - (i + 1) * p.stride) := by
    rw [h.cur]; exact h.hist n (le_refl _) (by omega)
  have hguard : ((s.hist.getD s.cur []).length ≥ p.length + p.offset) ↔
      (p.offset + p.length) * p.stride + 1 ≤ n + 1 := by
    rw [hl, List.length_map, List.length_range, ge_iff_le, le_min_iff, Nat.le_div_iff_mul_le hs]
    constructor
    · intro ⟨h1, _⟩; rw [add_comm p.offset]; omega
    · intro h1; rw [add_comm p.offset] at h1; exact ⟨by omega, le_refl _⟩
  rw [step_started p s _ _ h.started]
  simp only [hguard]
  simp only [hl]
  refine ⟨rfl, ?_, ?_, ?_, ?_, ?_, ?_, ?_⟩
  · simp [h.hlen]
  · simp only [h.cur]; exact mod_succ_turn n p.stride hs
  · simp only
    split
    · rename_i hg
      have : p.length + p.offset ≤ n / p.stride := by
        rw [Nat.le_div_iff_mul_le hs, add_comm p.length]; omega
      simp [h.alen, List.length_zipWith]
      omega
    · exact h.alen
  · intro m hm1 hm2
    by_cases hc : m % p.stride = n % p.stride
    · have hm : m = n + p.stride := same_turn n m p.stride hs hm1 hm2 hc
      subst hm
      have hlt : s.cur < s.hist.length := by rw [h.cur, h.hlen]; exact Nat.mod_lt _ hs
      rw [hc, ← h.cur, List.getD_eq_getElem?_getD, List.getElem?_set_self hlt, Option.getD_some,
        Nat.add_div_right n hs]
      apply cons_take_range
      · congr 1; simp only [zero_add, one_mul]; omega
      · intro i; congr 1
        have : (i + 1 + 1) * p.stride = (i + 1) * p.stride + p.stride := by ring
        omega
    · have hne : s.cur ≠ m % p.stride := by rw [h.cur]; exact fun e => hc e.symm
      have hm : m < n + p.stride := by
        rcases Nat.lt_or_ge m (n + p.stride) with h1 | h1
        · exact h1
        · exfalso; apply hc
          have : m = n + p.stride := by omega
          rw [this, Nat.add_mod_right]
      rw [List.getD_eq_getElem?_getD, List.getElem?_set_ne hne, ← List.getD_eq_getElem?_getD]
      exact h.hist m (by omega) hm
  · dsimp only
    rw [origins_succ, List.length_append, h.nfr]
    split <;> simp
  · dsimp only
    rw [origins_succ, List.map_append, List.sum_append, ← h.acf0]
    split
    · rw [getD_zipWith_add _ _ 0 (by rw [h.alen]; omega) (by simp)]
      simp
    · simp
  · intro j hj1 hj2
    dsimp only
    rw [origins_succ, List.map_append, List.sum_append, ← h.acfj j hj1 hj2]
    split
    · rename_i hg
      have hK : p.length + p.offset ≤ n / p.stride := by
        rw [Nat.le_div_iff_mul_le hs, add_comm p.length]; omega
      rw [getD_zipWith_add _ _ j (by rw [h.alen]; omega) (by simp [hK]; omega)]
      obtain ⟨j', rfl⟩ : ∃ j', j = j' + 1 := ⟨j - 1, by omega⟩
      have h1 : j' < p.length := by omega
      simp [List.getD_eq_getElem?_getD, hK, h1]
      rw [Nat.add_assoc]
    · simp

private theorem inv_run (p : Params) (hs : 0 < p.stride) (own other : Nat → List ℝ) (n : Nat) :
    Inv p own other n (run p ((List.range n).map fun i => (own (i + 1), other (i + 1)))) := by
  induction n with
  | zero => exact inv_init p own other
  | succ n ih => rw [run_succ]; exact inv_step p hs own other n _ ih

/-- **textbook definition**: after any number of analysis steps, with `own t` / `other t` the values the two variables took
    at step `t`, the number of accumulated rows is the number of available time origins, row 0 holds the sum of the lag-0
    terms, and row `j` holds the sum over the origins of `Π(ξ_i(t - (offset + j)·stride), ξ_j(t))` -/
theorem acf_textbook (p : Params) (hs : 0 < p.stride) (own other : Nat → List ℝ) (n : Nat) :
    let s := run p ((List.range n).map fun i => (own (i + 1), other (i + 1)))
    s.nframes = (origins p n).length ∧
    s.acf.getD 0 0 = ((origins p n).map fun t => lagZero p (own t) (other t)).sum ∧
    ∀ j, 1 ≤ j → j ≤ p.length →
      s.acf.getD j 0 = ((origins p n).map fun t => pairValue p (own (t - (p.offset + j) * p.stride)) (other t)).sum := by
  intro s
  have h := inv_run p hs own other n
  exact ⟨h.nfr, h.acf0, h.acfj⟩

/-- what is written: each row is the accumulated sum divided by the number of rows accumulated, labelled with
    `stride * (offset + j)`; nothing is written before the first complete row -/
theorem acf_rows_average (p : Params) (s : State ℝ) (hn : p.normalize = false) (h0 : 0 < s.nframes) (j : Nat)
    (hj : j < s.acf.length) :
    (rows p s)[j]? = some (p.stride * (p.offset + j), s.acf.getD j 0 / (s.nframes : ℝ)) := by
  have h0' : s.nframes ≠ 0 := by omega
  simp [rows, h0', hn, hj]

theorem acf_rows_empty (p : Params) (s : State ℝ) (h0 : s.nframes = 0) : rows p s = [] := by
  simp [rows, h0]

/-- normalised output: every row divided by row 0, so that the first row is 1 -/
theorem acf_rows_normalised (p : Params) (s : State ℝ) (hn : p.normalize = true) (h0 : 0 < s.nframes) (j : Nat)
    (hj : j < s.acf.length) (hz : s.acf.headD 0 ≠ 0) :
    (rows p s)[j]? = some (p.stride * (p.offset + j), s.acf.getD j 0 / s.acf.headD 0) := by
  have _ := hz
  have h0' : s.nframes ≠ 0 := by omega
  have hc : (s.nframes : ℝ) ≠ 0 := by exact_mod_cast h0'
  simp only [rows, h0', hn, if_true, if_false, zero_lit, List.getElem?_map, List.getElem?_zipIdx,
    List.getElem?_eq_getElem hj, Option.map_some, zero_add, List.getD_eq_getElem?_getD, Option.getD_some,
    div_mul_cancel₀ _ hc]

/-- the premises are satisfiable and the statement is not vacuous: length 1, stride 2, offset 0, five steps of a scalar
    variable 1, 2, 3, 4, 5: origins 3, 4, 5; row 1 pairs each with the value two steps earlier -/
example : origins { kind := .coor, vtype := .scalar, length := 1, stride := 2, offset := 0, normalize := false } 5 = [3, 4, 5] := by
  decide

end ACF

/-! ## non-vacuity -/

example : (cvLabels { value := true, velocity := true, extended := true }).map (·.1) = ["", "r_", "v_", "vr_"] := by
  rfl

end Cv.C19
