import CvModel.Walkers
import CvProps.C14bLemmas
import Mathlib.Data.List.Basic
import Mathlib.Tactic
/-!
# C14 (second half) — the file protocol of multiple-walker metadynamics

Property theorems about `CvModel/Walkers.lean`: one writer and one reader under an arbitrary schedule of the writer's
steps, flushes and state writes (whose two halves may be separated, or the second may never come) and of the reader's
exchanges and own state writes.

`hills_increasing` and `mirror_sublist` hold under every schedule (invariant `Cv.C14bL.Inv`).  The two theorems saying
that the writer loses nothing carry the hypothesis `paired true evs = true` (`Cv.C14b.paired`, in `C14bLemmas.lean`):
every `restart` comes after a `publish` with no deposit in between.  The event machine also allows a bare `restart`,
which removes hills that are in no state file; see `restart_without_publish_loses_hills`.
-/
open Cv.Walkers Cv.C14bL

namespace Cv.C14b

/-- the writer's hills are stamped with strictly increasing steps, none later than its clock -/
theorem hills_increasing (evs : List Ev) :
    (run evs).w.hills.Pairwise (· < ·) ∧ ∀ h ∈ (run evs).w.hills, h ≤ (run evs).clock :=
  ⟨(Inv.run evs).hillsSorted, (Inv.run evs).hillsLe⟩

/-- **each hill at most once, in order, nothing invented**: under every schedule the reader's mirror is a sublist of
    the hills the writer has deposited, without repetition -/
theorem mirror_sublist (evs : List Ev) :
    (run evs).r.mirror.Sublist (run evs).w.hills ∧ (run evs).r.mirror.Nodup := by
  have I := Inv.run evs
  exact ⟨sublist_of_increasing_of_subset _ _ I.mirrorSorted I.hillsSorted I.mirrorMem,
    I.mirrorSorted.imp (fun h => Nat.ne_of_lt h)⟩

/-- the statement of `nothing_lost_by_the_writer` without `hp` is false: a `restart` that is not the second half of a
    state write removes a hill that is in no state file -/
theorem restart_without_publish_loses_hills :
    let p := run [.step true, .restart]
    p.w.hills = [1] ∧ p.w.state = some (0, []) ∧ p.w.file = [] ∧ p.w.pending = [] ∧ paired true [.step true, .restart] = false := by
  decide

/-- everything the writer has deposited is in its published state, in its hills file, or still in its stream -/
theorem nothing_lost_by_the_writer (evs : List Ev)
    -- ADDED HYPOTHESIS (false without it, see `restart_without_publish_loses_hills`): every `restart` follows a
    -- `publish` with no deposit in between
    (hp : paired true evs = true) :
    ∃ st hs, (run evs).w.state = some (st, hs) ∧
      hs ++ ((run evs).w.file ++ (run evs).w.pending).filter (fun h => decide (h > st)) = (run evs).w.hills := by
  obtain ⟨_, I⟩ := WInv.run evs hp
  obtain ⟨st, hs, hw, _, heq, _⟩ := I.eq
  exact ⟨st, hs, hw, heq⟩

/-- **an exchange that re-reads the state is complete**: when the reader's flag is down (first exchange, a shorter hills
    file noticed, or its own state write), the exchange leaves it with exactly what the writer has made visible -/
theorem sync_after_reread_complete (p : Pair) (h : p.r.inSync = false ∨ p.r.hasData = false)
    -- ADDED HYPOTHESIS (false without it, see `sync_without_state_keeps_old_mirror`): there is a state file; every
    -- reachable pair has one (`reachable_has_state`)
    (hs : p.w.state.isSome) :
    (p.apply Ev.sync).r.mirror = p.w.visible := by
  obtain ⟨⟨st, l⟩, hw⟩ := Option.isSome_iff_exists.1 hs
  have e := sync_reread p.r p.w st l hw (h.elim (fun h => Or.inr (Or.inr h)) (fun h => Or.inr (Or.inl h)))
  simp only [Pair.apply, e, Writer.visible, hw]

/-- the statement of `sync_after_reread_complete` without `hs` is false: with no state file the reader keeps its old
    mirror and reads the hills file from the start -/
theorem sync_without_state_keeps_old_mirror :
    let p : Pair := { w := { state := none }, r := { mirror := [5] } }
    p.r.inSync = false ∧ (p.apply Ev.sync).r.mirror = [5] ∧ p.w.visible = [] := by
  decide

/-- every reachable pair has a state file -/
theorem reachable_has_state (evs : List Ev) : (run evs).w.state.isSome := by
  obtain ⟨st, l, hw, _⟩ := (Inv.run evs).state
  simp [hw]

/-- hence, for reachable states: after such an exchange the reader lacks only what the writer has not flushed yet -/
theorem sync_after_reread_lacks_only_pending (evs : List Ev)
    (h : (run evs).r.inSync = false ∨ (run evs).r.hasData = false)
    -- ADDED HYPOTHESIS (false without it: after `[.step true, .restart]` the exchange yields `[]`, the stream is empty,
    -- the hills are `[1]`): every `restart` follows a `publish` with no deposit in between
    (hp : paired true evs = true) :
    ∃ st, ((run evs).w.state.map (·.1)) = some st ∧
      ((run evs).apply Ev.sync).r.mirror ++ (run evs).w.pending.filter (fun h => decide (h > st)) = (run evs).w.hills := by
  obtain ⟨st, l, hw, heq⟩ := nothing_lost_by_the_writer evs hp
  refine ⟨st, by simp [hw], ?_⟩
  rw [sync_after_reread_complete _ h (by simp [hw])]
  simp only [Writer.visible, hw]
  rw [List.append_assoc, ← List.filter_append, heq]

/-- a reader whose flag is up and whose position is within the current file only appends: nothing is removed by an
    ordinary exchange -/
theorem sync_monotone (p : Pair) (h1 : p.r.inSync = true) (h2 : p.r.hasData = true) (h3 : p.r.pos ≤ p.w.file.length) :
    ∃ extra, (p.apply Ev.sync).r.mirror = p.r.mirror ++ extra := by
  have e := sync_noreread p.r p.w h1 h2 (by omega)
  refine ⟨(p.w.file.drop p.r.pos).filter (fun h => decide (h > p.r.stateStep)), ?_⟩
  simp only [Pair.apply, e]

/-! ## the listed finding, as machine-checked witnesses

The writer restarts its hills file at every state write; a reader notices this only when the new file is shorter than
its read position.  Both schedules below end with an exchange after which the mirror lacks hills that are in the
writer's published state. -/

/-- read position 0: the reader had seen an empty hills file; hill 1 goes into the state, hill 2 into the new file; the
    exchange reads hill 2 and never learns of hill 1 -/
theorem finding_cursor_at_zero :
    let p := run [.sync, .step true, .flush, .publish, .restart, .step true, .flush, .sync]
    p.r.mirror = [2] ∧ p.w.visible = [1, 2] := by
  decide

/-- read position 1 in the old file, one hill in the new file: the position is not beyond the end, the first hill of the
    new file is skipped together with the one that went into the state -/
theorem finding_stale_cursor :
    let p := run [.step true, .flush, .sync, .step true, .flush, .publish, .restart, .step true, .flush, .sync]
    p.r.mirror = [1] ∧ p.w.visible = [1, 2, 3] := by
  decide

/-- the next exchange after the reader's own state write repairs both -/
theorem finding_repaired_by_reread :
    (run [.sync, .step true, .flush, .publish, .restart, .step true, .flush, .sync, .ownWrite, .sync]).r.mirror = [1, 2] ∧
    (run [.step true, .flush, .sync, .step true, .flush, .publish, .restart, .step true, .flush, .sync, .ownWrite, .sync]).r.mirror
      = [1, 2, 3] := by
  decide

/-- a writer killed between the two halves of its state write leaves a state file and a hills file that overlap; the reader
    counts the overlap once -/
theorem killed_between_halves_counted_once :
    let p := run [.step true, .flush, .sync, .step true, .flush, .publish, .ownWrite, .sync]
    p.r.mirror = [1, 2] := by
  decide

end Cv.C14b
