import CvProps.C15Lemmas
/-!
# Helper lemmas for C04 (ABF: per-bin mean force, ramped biasing force)
-/
open Cv

namespace Cv.C04

/-! ## literals and sums -/

theorem zero_lit : (0.0 : ℝ) = 0 := by norm_num
theorem one_lit : (1.0 : ℝ) = 1 := by norm_num

theorem foldl_add_eq (l : List ℝ) : ∀ a : ℝ, l.foldl (· + ·) a = a + l.sum := by
  induction l with
  | nil => intro a; simp
  | cons x xs ih => intro a; rw [List.foldl_cons, ih, List.sum_cons]; ring

theorem sumL_eq (l : List ℝ) : sumL l = l.sum := by
  unfold sumL
  rw [foldl_add_eq, zero_lit, zero_add]

theorem sum_range_getD (l : List ℝ) :
    ((List.range l.length).map (fun b => l.getD b 0)).sum = l.sum := by
  induction l with
  | nil => simp
  | cons x xs ih =>
    rw [List.length_cons, List.range_succ_eq_map, List.map_cons, List.map_map, List.sum_cons,
      List.sum_cons]
    simp only [Function.comp_def, List.getD_cons_zero, List.getD_cons_succ]
    rw [ih]

theorem sum_map_sub_const (l : List Nat) (f : Nat → ℝ) (c : ℝ) :
    (l.map fun b => f b - c).sum = (l.map f).sum - l.length * c := by
  induction l with
  | nil => simp
  | cons x xs ih => simp only [List.map_cons, List.sum_cons, ih, List.length_cons]; push_cast; ring

/-! ## `List.modify` / `subAt` -/

theorem getD_modify_of_lt {β : Type} (f : β → β) (d : List β) (k a : Nat) (dflt : β)
    (ha : a < d.length) :
    (d.modify k f).getD a dflt = if k = a then f (d.getD a dflt) else d.getD a dflt := by
  simp only [List.getD_eq_getElem?_getD, List.getElem?_modify, List.getElem?_eq_getElem ha]
  by_cases h : k = a <;> simp [h]

theorem subAt_nil (data : List ℝ) (base : Nat) : subAt data base [] = data := rfl
theorem subAt_cons (data : List ℝ) (base : Nat) (f : ℝ) (fs : List ℝ) :
    subAt data base (f :: fs) = subAt (data.modify base (· - f)) (base + 1) fs := rfl

theorem subAt_length : ∀ (fs : List ℝ) (data : List ℝ) (base : Nat),
    (subAt data base fs).length = data.length
  | [], _, _ => rfl
  | f :: fs, data, base => by
    rw [subAt_cons, subAt_length fs, List.length_modify]

theorem subAt_getD : ∀ (fs data : List ℝ) (base k : Nat), k < data.length →
    (subAt data base fs).getD k 0 =
      data.getD k 0 - (if base ≤ k ∧ k < base + fs.length then fs.getD (k - base) 0 else 0)
  | [], data, base, k, _ => by simp [subAt_nil]
  | f :: fs, data, base, k, hk => by
    rw [subAt_cons, subAt_getD fs _ (base + 1) k (by rw [List.length_modify]; exact hk),
      getD_modify_of_lt _ _ _ _ _ hk]
    by_cases h1 : base = k
    · subst h1
      rw [if_pos rfl, if_neg (by omega), if_pos (by simp), Nat.sub_self, List.getD_cons_zero]
      ring
    · rw [if_neg h1]
      by_cases h2 : base + 1 ≤ k ∧ k < base + 1 + fs.length
      · have hk' : k - base = (k - (base + 1)) + 1 := by omega
        rw [if_pos h2, if_pos (by simp only [List.length_cons]; omega), hk', List.getD_cons_succ]
      · rw [if_neg h2, if_neg (by simp only [List.length_cons]; omega)]

/-- the window of bin `a'` (of `len ≤ nd` entries) contains entry `j` of bin `a` iff it is the same bin -/
theorem bin_window (a a' nd j len : Nat) (hj : j < nd) (hl : len ≤ nd) :
    (a' * nd ≤ a * nd + j ∧ a * nd + j < a' * nd + len) ↔ (a' = a ∧ j < len) := by
  constructor
  · rintro ⟨h1, h2⟩
    rcases Nat.lt_trichotomy a a' with h | h | h
    · exfalso
      have : (a + 1) * nd ≤ a' * nd := Nat.mul_le_mul_right nd h
      rw [Nat.add_mul, Nat.one_mul] at this
      omega
    · subst h; exact ⟨rfl, by omega⟩
    · exfalso
      have : (a' + 1) * nd ≤ a * nd := Nat.mul_le_mul_right nd h
      rw [Nat.add_mul, Nat.one_mul] at this
      omega
  · rintro ⟨rfl, h⟩
    omega

theorem entry_lt (a n nd j : Nat) (ha : a < n) (hj : j < nd) : a * nd + j < n * nd := by
  have : (a + 1) * nd ≤ n * nd := Nat.mul_le_mul_right nd ha
  rw [Nat.add_mul, Nat.one_mul] at this
  omega

/-! ## `accForce` -/

theorem accForce_samples (p : AbfParams ℝ) (s : AbfState ℝ) (ix : List Int) (fs : List ℝ) :
    (accForce p s ix fs).samples = s.samples.modify (address 1 p.g.nx ix).toNat (· + 1) := rfl
theorem accForce_grad (p : AbfParams ℝ) (s : AbfState ℝ) (ix : List Int) (fs : List ℝ) :
    (accForce p s ix fs).grad = subAt s.grad ((address 1 p.g.nx ix).toNat * nvars p) fs := rfl
theorem accForce_forceBin (p : AbfParams ℝ) (s : AbfState ℝ) (ix : List Int) (fs : List ℝ) :
    (accForce p s ix fs).forceBin = s.forceBin := rfl
theorem accForce_lastForce (p : AbfParams ℝ) (s : AbfState ℝ) (ix : List Int) (fs : List ℝ) :
    (accForce p s ix fs).lastForce = s.lastForce := rfl

theorem accForce_grad_getD (p : AbfParams ℝ) (s : AbfState ℝ) (ix : List Int) (fs : List ℝ)
    (a j : Nat) (hg : s.grad.length = s.samples.length * nvars p) (ha : a < s.samples.length)
    (hj : j < nvars p) (hl : fs.length ≤ nvars p) :
    (accForce p s ix fs).grad.getD (a * nvars p + j) 0 =
      s.grad.getD (a * nvars p + j) 0 -
        if (address 1 p.g.nx ix).toNat = a then fs.getD j 0 else 0 := by
  rw [accForce_grad, subAt_getD _ _ _ _ (by rw [hg]; exact entry_lt _ _ _ _ ha hj)]
  congr 1
  by_cases h : (address 1 p.g.nx ix).toNat = a
  · rw [if_pos h, h]
    by_cases h2 : j < fs.length
    · rw [if_pos (by omega)]
      congr 1; omega
    · rw [if_neg (by omega), List.getD_eq_getElem?_getD, List.getElem?_eq_none (by omega)]
      rfl
  · rw [if_neg h, if_neg]
    intro hw
    exact h ((bin_window _ _ _ _ _ hj hl).1 hw).1

/-! ## events -/

/-- accumulate an optional event -/
noncomputable def accEv (p : AbfParams ℝ) (s : AbfState ℝ) : Option (List Int × List ℝ) → AbfState ℝ
  | some e => accForce p s e.1 e.2
  | none => s

theorem systemForce_length_le (p : AbfParams ℝ) (s : AbfState ℝ) (ft : List ℝ) :
    (systemForce p s ft).length ≤ p.subtract.length := by
  unfold systemForce
  rw [List.length_map, List.length_zip]
  exact Nat.min_le_right _ _

theorem abfEvent_eq (p : AbfParams ℝ) (s : AbfState ℝ) (i : AbfIn ℝ) :
    abfEvent p s i =
      if (i.elig && p.updateBias && i.timingOk &&
          indexOk p.g.nx (if p.tfCurrent then binsOf p.g i.xs else s.forceBin)) = true
      then some (if p.tfCurrent then binsOf p.g i.xs else s.forceBin, systemForce p s i.ft)
      else none := rfl

theorem abfEvent_some (p : AbfParams ℝ) (s : AbfState ℝ) (i : AbfIn ℝ) (e : List Int × List ℝ)
    (h : abfEvent p s i = some e) : e.2 = systemForce p s i.ft ∧ indexOk p.g.nx e.1 = true := by
  rw [abfEvent_eq] at h
  by_cases hc : (i.elig && p.updateBias && i.timingOk &&
      indexOk p.g.nx (if p.tfCurrent then binsOf p.g i.xs else s.forceBin)) = true
  · rw [if_pos hc] at h
    cases h
    simp only [Bool.and_eq_true] at hc
    exact ⟨rfl, hc.2⟩
  · rw [if_neg hc] at h
    cases h

theorem abfEvent_congr (p : AbfParams ℝ) (s s' : AbfState ℝ) (i : AbfIn ℝ)
    (h1 : s.forceBin = s'.forceBin) (h2 : s.lastForce = s'.lastForce) :
    abfEvent p s i = abfEvent p s' i := by
  rw [abfEvent_eq, abfEvent_eq, h1]
  unfold systemForce
  rw [h2]

/-! ## `abfStep` -/

theorem abfStep_snd (p : AbfParams ℝ) (s : AbfState ℝ) (i : AbfIn ℝ) :
    (abfStep p s i).2 =
      if (p.applyBias && indexOk p.g.nx (binsOf p.g i.xs)) = true
      then biasingForce p (accEv p s (abfEvent p s i)) (binsOf p.g i.xs)
      else List.replicate (nvars p) 0.0 := by
  unfold abfStep accEv
  cases abfEvent p s i <;> rfl

theorem abfStep_samples (p : AbfParams ℝ) (s : AbfState ℝ) (i : AbfIn ℝ) :
    (abfStep p s i).1.samples = (accEv p s (abfEvent p s i)).samples := by
  unfold abfStep accEv
  cases abfEvent p s i <;> rfl

theorem abfStep_grad (p : AbfParams ℝ) (s : AbfState ℝ) (i : AbfIn ℝ) :
    (abfStep p s i).1.grad = (accEv p s (abfEvent p s i)).grad := by
  unfold abfStep accEv
  cases abfEvent p s i <;> rfl

theorem abfStep_forceBin (p : AbfParams ℝ) (s : AbfState ℝ) (i : AbfIn ℝ) :
    (abfStep p s i).1.forceBin = binsOf p.g i.xs := rfl

theorem abfStep_lastForce (p : AbfParams ℝ) (s : AbfState ℝ) (i : AbfIn ℝ) :
    (abfStep p s i).1.lastForce = (abfStep p s i).2 := rfl

theorem accEv_samples_length (p : AbfParams ℝ) (s : AbfState ℝ) (ev : Option (List Int × List ℝ)) :
    (accEv p s ev).samples.length = s.samples.length := by
  cases ev with
  | none => rfl
  | some e => show (List.modify _ _ _).length = _; rw [List.length_modify]

theorem accEv_grad_length (p : AbfParams ℝ) (s : AbfState ℝ) (ev : Option (List Int × List ℝ)) :
    (accEv p s ev).grad.length = s.grad.length := by
  cases ev with
  | none => rfl
  | some e => show (subAt _ _ _).length = _; rw [subAt_length]

theorem abfStep_samples_length (p : AbfParams ℝ) (s : AbfState ℝ) (i : AbfIn ℝ) :
    (abfStep p s i).1.samples.length = s.samples.length := by
  rw [abfStep_samples, accEv_samples_length]

theorem abfStep_grad_length (p : AbfParams ℝ) (s : AbfState ℝ) (i : AbfIn ℝ) :
    (abfStep p s i).1.grad.length = s.grad.length := by
  rw [abfStep_grad, accEv_grad_length]

theorem accEv_samples_getD (p : AbfParams ℝ) (s : AbfState ℝ) (ev : Option (List Int × List ℝ))
    (a : Nat) (ha : a < s.samples.length) :
    (accEv p s ev).samples.getD a 0 = s.samples.getD a 0 +
      ((ev.toList.filter fun e => decide ((address 1 p.g.nx e.1).toNat = a)).length : Int) := by
  cases ev with
  | none => simp [accEv]
  | some e =>
    show (s.samples.modify (address 1 p.g.nx e.1).toNat (· + 1)).getD a 0 = _
    rw [getD_modify_of_lt _ _ _ _ _ ha]
    by_cases h : (address 1 p.g.nx e.1).toNat = a <;> simp [h]

theorem accEv_grad_getD (p : AbfParams ℝ) (s : AbfState ℝ) (ev : Option (List Int × List ℝ))
    (a j : Nat) (hg : s.grad.length = s.samples.length * nvars p) (ha : a < s.samples.length)
    (hj : j < nvars p) (hl : ∀ e, ev = some e → e.2.length ≤ nvars p) :
    (accEv p s ev).grad.getD (a * nvars p + j) 0 = s.grad.getD (a * nvars p + j) 0 -
      ((ev.toList.filter fun e => decide ((address 1 p.g.nx e.1).toNat = a)).map
        fun e => e.2.getD j 0).sum := by
  cases ev with
  | none => simp [accEv]
  | some e =>
    show (accForce p s e.1 e.2).grad.getD _ 0 = _
    rw [accForce_grad_getD p s e.1 e.2 a j hg ha hj (hl e rfl)]
    by_cases h : (address 1 p.g.nx e.1).toNat = a <;> simp [h]

/-! ## histories -/

theorem abfRun_nil (p : AbfParams ℝ) (s : AbfState ℝ) : abfRun p s [] = (s, []) := rfl
theorem abfRun_cons_fst (p : AbfParams ℝ) (s : AbfState ℝ) (i : AbfIn ℝ) (is : List (AbfIn ℝ)) :
    (abfRun p s (i :: is)).1 = (abfRun p (abfStep p s i).1 is).1 := rfl

theorem abfEvents_nil (p : AbfParams ℝ) (s : AbfState ℝ) : abfEvents p s [] = [] := rfl
theorem abfEvents_cons (p : AbfParams ℝ) (s : AbfState ℝ) (i : AbfIn ℝ) (is : List (AbfIn ℝ)) :
    abfEvents p s (i :: is) = (abfEvent p s i).toList ++ abfEvents p (abfStep p s i).1 is := by
  rw [abfEvents]
  cases abfEvent p s i <;> rfl

theorem count_eq_aux (p : AbfParams ℝ) (h : List (AbfIn ℝ)) :
    ∀ (s : AbfState ℝ) (a : Nat), a < s.samples.length →
      (abfRun p s h).1.samples.getD a 0 = s.samples.getD a 0 +
        (((abfEvents p s h).filter fun e => decide ((address 1 p.g.nx e.1).toNat = a)).length : Int) := by
  induction h with
  | nil => intro s a _; simp [abfRun_nil, abfEvents_nil]
  | cons i is ih =>
    intro s a ha
    rw [abfRun_cons_fst, abfEvents_cons, ih _ a (by rw [abfStep_samples_length]; exact ha),
      abfStep_samples, accEv_samples_getD p s _ a ha, List.filter_append, List.length_append]
    push_cast
    ring

theorem grad_eq_aux (p : AbfParams ℝ) (hsub : p.subtract.length ≤ nvars p) (h : List (AbfIn ℝ)) :
    ∀ (s : AbfState ℝ) (a j : Nat), s.grad.length = s.samples.length * nvars p →
      a < s.samples.length → j < nvars p →
      (abfRun p s h).1.grad.getD (a * nvars p + j) 0 = s.grad.getD (a * nvars p + j) 0 -
        (((abfEvents p s h).filter fun e => decide ((address 1 p.g.nx e.1).toNat = a)).map
          fun e => e.2.getD j 0).sum := by
  induction h with
  | nil => intro s a j _ _ _; simp [abfRun_nil, abfEvents_nil]
  | cons i is ih =>
    intro s a j hg ha hj
    rw [abfRun_cons_fst, abfEvents_cons,
      ih _ a j (by rw [abfStep_grad_length, abfStep_samples_length]; exact hg)
        (by rw [abfStep_samples_length]; exact ha) hj,
      abfStep_grad, accEv_grad_getD p s _ a j hg ha hj, List.filter_append, List.map_append,
      List.sum_append]
    · ring
    · intro e he
      rw [(abfEvent_some p s i e he).1]
      exact le_trans (systemForce_length_le p s _) hsub

/-! ## system force -/

theorem map_zip_zip_fst : ∀ (a b : List ℝ) (c : List Bool), a.length ≤ b.length →
    a.length ≤ c.length → (List.zip (List.zip a b) c).map (fun x => x.1.1) = a
  | [], _, _, _, _ => by simp
  | x :: a, [], _, h, _ => by simp at h
  | x :: a, _ :: _, [], _, h => by simp at h
  | x :: a, y :: b, z :: c, h1, h2 => by
    simp only [List.zip_cons_cons, List.map_cons, List.cons.injEq, true_and]
    exact map_zip_zip_fst a b c (by simpa using h1) (by simpa using h2)

theorem systemForce_current (p : AbfParams ℝ) (s : AbfState ℝ) (ft : List ℝ)
    (hl : p.tfCurrent = true) (h1 : ft.length ≤ s.lastForce.length)
    (h2 : ft.length ≤ p.subtract.length) : systemForce p s ft = ft := by
  calc systemForce p s ft
      = (List.zip (List.zip ft s.lastForce) p.subtract).map (fun x => x.1.1) := by
        unfold systemForce
        apply List.map_congr_left
        rintro ⟨⟨f, l⟩, sub⟩ _
        simp [hl]
    _ = ft := map_zip_zip_fst ft s.lastForce p.subtract h1 h2

/-! ## cap -/

theorem getD_of_lt {β : Type} (l : List β) (j : Nat) (d : β) (h : j < l.length) : l.getD j d = l[j] := by
  simp [List.getD_eq_getElem?_getD, h]

theorem getD_zipWith {β γ : Type} (g : β → γ → ℝ) (l : List β) (m : List γ) (j : Nat) (db : β) (dc : γ)
    (hl : j < l.length) (hm : j < m.length) :
    (List.zipWith g l m).getD j 0 = g (l.getD j db) (m.getD j dc) := by
  rw [getD_of_lt _ _ _ (by rw [List.length_zipWith]; omega), getD_of_lt _ _ _ hl,
    getD_of_lt _ _ _ hm, List.getElem_zipWith]

theorem capForce_none (f : List ℝ) : capForce none f = f := rfl

theorem capForce_some (m f : List ℝ) : capForce (some m) f =
    List.zipWith (fun fi mi => if fi * fi > mi * mi then (if fi > 0.0 then mi else -1.0 * mi) else fi) f m := rfl

theorem capForce_some_length (m f : List ℝ) :
    (capForce (some m) f).length = min f.length m.length := by
  rw [capForce_some, List.length_zipWith]

theorem force_capped_aux (mf f : List ℝ) (hl : mf.length = f.length) (hpos : ∀ m ∈ mf, 0 ≤ m)
    (j : Nat) (hj : j < f.length) : |(capForce (some mf) f).getD j 0| ≤ mf.getD j 0 := by
  have hjm : j < mf.length := by omega
  rw [capForce_some, getD_zipWith _ _ _ _ 0 0 hj hjm]
  have hm : 0 ≤ mf.getD j 0 := by
    rw [getD_of_lt _ _ _ hjm]; exact hpos _ (List.getElem_mem _)
  generalize mf.getD j 0 = m at hm ⊢
  generalize f.getD j 0 = x
  split_ifs with h1 h2
  · rw [abs_of_nonneg hm]
  · rw [show (-1.0 : ℝ) * m = -m by norm_num, abs_neg, abs_of_nonneg hm]
  · have h1' : x * x ≤ m * m := not_lt.1 h1
    exact abs_le.2 ⟨by nlinarith, by nlinarith⟩

/-! ## ramp and smoothing weight -/

theorem smooth_is_ramp_aux (p : AbfParams ℝ) (n : Int) (hn : 0 < n) (_hm : 0 ≤ p.minSamples)
    (hf : p.minSamples < p.fullSamples) : smoothInvWeight p n = ramp p n / (n : ℝ) := by
  have hn' : (n : ℝ) ≠ 0 := by exact_mod_cast hn.ne'
  have hd : ((p.fullSamples - p.minSamples : Int) : ℝ) ≠ 0 := by
    have : p.fullSamples - p.minSamples ≠ 0 := by omega
    exact_mod_cast this
  unfold smoothInvWeight ramp
  split_ifs with h1 h2 h3 h4 h5
  · norm_num
  · have h0 : n - p.minSamples = 0 := by omega
    rw [h0]; norm_num
  · omega
  · omega
  · rw [div_div, mul_comm]
  · rfl

theorem ramp_zero (p : AbfParams ℝ) (hf : p.minSamples < p.fullSamples) (n : Int)
    (h : n ≤ p.minSamples) : ramp p n = 0 := by
  unfold ramp
  rw [if_pos (by omega)]
  split_ifs with h1
  · norm_num
  · have h0 : n - p.minSamples = 0 := by omega
    rw [h0]; norm_num

theorem ramp_one (p : AbfParams ℝ) (n : Int) (h : p.fullSamples ≤ n) : ramp p n = 1 := by
  unfold ramp
  rw [if_neg (by omega)]
  norm_num

theorem ramp_mid (p : AbfParams ℝ) (n : Int) (h1 : p.minSamples ≤ n) (h2 : n < p.fullSamples) :
    ramp p n = ((n : ℝ) - p.minSamples) / ((p.fullSamples : ℝ) - p.minSamples) := by
  unfold ramp
  rw [if_pos h2, if_neg (by omega)]
  push_cast
  rfl

theorem ramp_bounds (p : AbfParams ℝ) (hf : p.minSamples < p.fullSamples) (n : Int) :
    0 ≤ ramp p n ∧ ramp p n ≤ 1 := by
  have hd : (0 : ℝ) < (p.fullSamples : ℝ) - p.minSamples := by
    have : (p.minSamples : ℝ) < p.fullSamples := by exact_mod_cast hf
    linarith
  by_cases h1 : n ≤ p.minSamples
  · rw [ramp_zero p hf n h1]; norm_num
  · by_cases h2 : p.fullSamples ≤ n
    · rw [ramp_one p n h2]; norm_num
    · rw [ramp_mid p n (by omega) (by omega)]
      have a1 : (p.minSamples : ℝ) ≤ n := by exact_mod_cast (by omega : p.minSamples ≤ n)
      have a2 : (n : ℝ) ≤ p.fullSamples := by exact_mod_cast (by omega : n ≤ p.fullSamples)
      constructor
      · exact div_nonneg (by linarith) hd.le
      · rw [div_le_one hd]; linarith

theorem ramp_mono (p : AbfParams ℝ) (hf : p.minSamples < p.fullSamples) (n m : Int) (h : n ≤ m) :
    ramp p n ≤ ramp p m := by
  have hd : (0 : ℝ) < (p.fullSamples : ℝ) - p.minSamples := by
    have : (p.minSamples : ℝ) < p.fullSamples := by exact_mod_cast hf
    linarith
  by_cases h1 : n ≤ p.minSamples
  · rw [ramp_zero p hf n h1]; exact (ramp_bounds p hf m).1
  · by_cases h2 : p.fullSamples ≤ m
    · rw [ramp_one p m h2]; exact (ramp_bounds p hf n).2
    · rw [ramp_mid p n (by omega) (by omega), ramp_mid p m (by omega) (by omega)]
      have a1 : (n : ℝ) ≤ m := by exact_mod_cast h
      exact div_le_div_of_nonneg_right (by linarith) hd.le

/-! ## biasing force -/

theorem biasingForce_eq (p : AbfParams ℝ) (s : AbfState ℝ) (bin : List Int) :
    biasingForce p s bin = capForce p.maxForce
      (if p.periodic1D = true then
        ((List.range (nvars p)).map fun i =>
          smoothInvWeight p (s.samples.getD (address 1 p.g.nx bin).toNat 0) *
            s.grad.getD ((address 1 p.g.nx bin).toNat * nvars p + i) 0.0).map
          (· - gridAverage s (p.g.nx.getD 0 1))
       else (List.range (nvars p)).map fun i =>
          smoothInvWeight p (s.samples.getD (address 1 p.g.nx bin).toNat 0) *
            s.grad.getD ((address 1 p.g.nx bin).toNat * nvars p + i) 0.0) := rfl

theorem biasingForce_length (p : AbfParams ℝ) (s : AbfState ℝ) (bin : List Int)
    (hmf : ∀ m, p.maxForce = some m → nvars p ≤ m.length) :
    (biasingForce p s bin).length = nvars p := by
  rw [biasingForce_eq]
  cases hm : p.maxForce with
  | none => rw [capForce_none]; split_ifs <;> simp
  | some m =>
    have := hmf m hm
    rw [capForce_some_length]
    split_ifs <;> simp <;> omega

theorem biasingForce_length_le (p : AbfParams ℝ) (s : AbfState ℝ) (bin : List Int) :
    (biasingForce p s bin).length ≤ nvars p := by
  rw [biasingForce_eq]
  cases p.maxForce with
  | none => rw [capForce_none]; split_ifs <;> simp
  | some m =>
    rw [capForce_some_length]
    split_ifs <;> simp

theorem force_is_ramped_mean_aux (p : AbfParams ℝ) (s : AbfState ℝ) (bin : List Int) (j : Nat)
    (hj : j < nvars p) (hp : p.periodic1D = false) (hc : p.maxForce = none) (hm : 0 ≤ p.minSamples)
    (hf : p.minSamples < p.fullSamples)
    (hn : 0 < s.samples.getD (address 1 p.g.nx bin).toNat 0) :
    (biasingForce p s bin).getD j 0 =
      ramp p (s.samples.getD (address 1 p.g.nx bin).toNat 0) *
        (s.grad.getD ((address 1 p.g.nx bin).toNat * nvars p + j) 0 /
          ((s.samples.getD (address 1 p.g.nx bin).toNat 0 : Int) : ℝ)) := by
  rw [biasingForce_eq, hc, hp, capForce_none, if_neg (by simp),
    getD_of_lt _ _ _ (by simpa using hj), List.getElem_map, List.getElem_range,
    smooth_is_ramp_aux p _ hn hm hf, zero_lit]
  ring

/-! ## periodic 1-D grid -/

theorem address_single (n b : Int) : address 1 [n] [b] = b := by
  simp [C15.address_cons, C15.ntOf_nil]

theorem smooth_full (p : AbfParams ℝ) (c : Int) (hf : p.minSamples < p.fullSamples)
    (hc : p.fullSamples ≤ c) : smoothInvWeight p c = 1 / (c : ℝ) := by
  unfold smoothInvWeight
  rw [if_neg (by omega), if_neg (by omega), one_lit]

theorem periodic_zero_mean_aux (p : AbfParams ℝ) (s : AbfState ℝ) (n : Nat) (hn : 0 < n)
    (hnx : p.g.nx = [(n : Int)]) (hp : p.periodic1D = true) (hc : p.maxForce = none)
    (hm : 0 ≤ p.minSamples) (hf : p.minSamples < p.fullSamples)
    (hs : s.samples.length = n) (hg : s.grad.length = n) (hfull : ∀ c ∈ s.samples, p.fullSamples ≤ c) :
    ((List.range n).map fun b : Nat => (biasingForce p s [(b : Int)]).getD 0 0).sum = 0 := by
  have hnv : nvars p = 1 := by simp [nvars, hnx]
  set W : List ℝ := List.zipWith
    (fun (d : ℝ) (c : Int) => if c > 0 then (1.0 / (c : ℝ)) * d else 0.0 * d) s.grad s.samples with hW
  have hWl : W.length = n := by rw [hW, List.length_zipWith, hs, hg, Nat.min_self]
  have havg : gridAverage s (p.g.nx.getD 0 1) = W.sum / (n : ℝ) := by
    unfold gridAverage
    rw [hnx]
    simp only [List.getD_cons_zero]
    rw [sumL_eq]
    rfl
  have key : ∀ b ∈ List.range n, (biasingForce p s [(b : Int)]).getD 0 0 =
      W.getD b 0 - W.sum / (n : ℝ) := by
    intro b hb
    have hb' : b < n := List.mem_range.1 hb
    have hcb : p.fullSamples ≤ s.samples.getD b 0 := by
      rw [getD_of_lt _ _ _ (by omega)]; exact hfull _ (List.getElem_mem _)
    rw [biasingForce_eq, hc, hp, capForce_none, if_pos rfl, havg, hnx, address_single, hnv, hW,
      getD_zipWith _ _ _ _ (0 : ℝ) (0 : Int) (by omega) (by omega), if_pos (by omega)]
    simp only [Int.toNat_natCast, List.range_one, List.map_cons, List.map_nil, List.getD_cons_zero,
      mul_one, add_zero]
    rw [smooth_full p _ hf hcb, zero_lit, one_lit]
  rw [List.map_congr_left key, sum_map_sub_const, List.length_range]
  have := sum_range_getD W
  rw [hWl] at this
  rw [this]
  have hn' : (n : ℝ) ≠ 0 := by exact_mod_cast hn.ne'
  field_simp
  ring

/-! ## misc -/

theorem getD_replicate_self {β : Type} (n i : Nat) (x : β) : (List.replicate n x).getD i x = x := by
  simp only [List.getD_eq_getElem?_getD, List.getElem?_replicate]
  split_ifs <;> rfl

theorem systemForce_late (p : AbfParams ℝ) (s : AbfState ℝ) (ft : List ℝ) (hl : p.tfCurrent = false) :
    systemForce p s ft =
      (List.zip (List.zip ft s.lastForce) p.subtract).map
        fun ((f, l), sub) => if sub then f else f - l := by
  unfold systemForce
  apply List.map_congr_left
  rintro ⟨⟨f, l⟩, sub⟩ _
  simp [hl]

theorem flatMap_singleton_cast (l : List Nat) :
    l.flatMap (fun a : Nat => [(a : Int)]) = l.map fun a : Nat => (a : Int) := by
  induction l with
  | nil => rfl
  | cons x xs ih => simp [List.flatMap_cons, ih]

theorem bind_pure_cast (n : Nat) :
    (do let a ← List.range n; pure (a : Int) : List Int) = (List.range n).map fun a : Nat => (a : Int) := by
  simp only [List.bind_eq_flatMap, List.pure_def]
  exact flatMap_singleton_cast _

end Cv.C04
