import CvProps.RealInst
import CvProps.C15Lemmas
import CvProps.C18Lemmas
/-!
# C15 — every sample lands in exactly one grid bin; grid index arithmetic

Property theorems about `CvModel/Grid.lean`.  Scalars at `ℝ`; indices are `Int`.
-/
open Cv

namespace Cv.C15

/-! ## bins partition the line -/

/-- the bin assigned to `x` is the unique `i` with `lo + i·w ≤ x < lo + (i+1)·w` -/
theorem bin_iff (lo w x : ℝ) (hw : 0 < w) (i : ℤ) :
    valueToBin lo w x = i ↔ lo + i * w ≤ x ∧ x < lo + (i + 1) * w := by
  unfold valueToBin
  rw [prim_floorI, Int.floor_eq_iff, le_div_iff₀ hw, div_lt_iff₀ hw]
  constructor
  · rintro ⟨h1, h2⟩; constructor <;> linarith
  · rintro ⟨h1, h2⟩; constructor <;> linarith

theorem bin_unique (lo w x : ℝ) (hw : 0 < w) (i j : ℤ)
    (hi : lo + i * w ≤ x ∧ x < lo + (i + 1) * w) (hj : lo + j * w ≤ x ∧ x < lo + (j + 1) * w) : i = j := by
  rw [← bin_iff lo w x hw i] at hi
  rw [← bin_iff lo w x hw j] at hj
  rw [← hi, ← hj]

/-- the value reported for a bin (its centre) lies in that bin -/
theorem bin_center (lo w : ℝ) (hw : 0 < w) (i : ℤ) : valueToBin lo w (binToValue lo w i) = i := by
  rw [bin_iff lo w _ hw i]
  have h : binToValue lo w i = lo + w * (1 / 2 + (i : ℝ)) := by
    unfold binToValue; norm_num
  rw [h]
  constructor <;> nlinarith

/-- the bounded variant always returns a valid bin -/
theorem bin_bound_range (lo w x : ℝ) (nx : ℤ) (hn : 0 < nx) (per : Bool) :
    0 ≤ valueToBinBound lo w nx per x ∧ valueToBinBound lo w nx per x < nx := by
  unfold valueToBinBound
  simp only
  generalize (if per = true then Int.tmod (Prim.floorI ((x - lo) / w)) nx
    else Prim.floorI ((x - lo) / w)) = b
  split_ifs <;> omega

/-! ## index vectors and addresses -/

theorem index_ok_iff (nx ix : List Int) :
    indexOk nx ix = true ↔ ix.length = nx.length ∧ ∀ k (h : k < nx.length) (h' : k < ix.length), 0 ≤ ix[k] ∧ ix[k] < nx[k] := by
  exact indexOk_iff nx ix

/-- a valid index addresses `mult` consecutive cells inside the allocated array -/
theorem address_range (mult : Int) (hm : 0 < mult) (nx ix : List Int) (h : indexOk nx ix = true) :
    0 ≤ address mult nx ix ∧ address mult nx ix + mult ≤ ntOf mult nx := by
  exact address_range' mult hm nx ix h

/-- addresses are multiples of the multiplicity -/
theorem address_mult (mult : Int) (nx ix : List Int) : address mult nx ix = mult * address 1 nx ix := by
  exact address_mult' mult nx ix

theorem address_inj (mult : Int) (hm : 0 < mult) (nx ix jx : List Int)
    (hi : indexOk nx ix = true) (hj : indexOk nx jx = true)
    (h : address mult nx ix = address mult nx jx) : ix = jx := by
  exact address_inj' mult hm nx ix jx hi hj h

/-- every cell of the array is addressed by some valid index -/
theorem address_surj (nx : List Int) (hpos : ∀ n ∈ nx, 0 < n) (a : Int) (h0 : 0 ≤ a) (h1 : a < ntOf 1 nx) :
    ∃ ix, indexOk nx ix = true ∧ address 1 nx ix = a := by
  exact address_surj' nx hpos a h0 h1

/-- `incr` moves to the next address, or leaves the grid exactly at the last one -/
theorem incr_address (nx ix : List Int) (hne : nx ≠ []) (h : indexOk nx ix = true) :
    (indexOk nx (incr nx ix) = true ∧ address 1 nx (incr nx ix) = address 1 nx ix + 1) ∨
    (indexOk nx (incr nx ix) = false ∧ address 1 nx ix + 1 = ntOf 1 nx) := by
  exact incr_address' nx ix hne h

/-- looping with `incr` from the zero index while `index_ok` visits every address exactly once, in order -/
theorem enumerate_all (nx : List Int) (hne : nx ≠ []) (hpos : ∀ n ∈ nx, 0 < n) (fuel : Nat)
    (hf : (ntOf 1 nx).toNat < fuel) :
    (enumerate nx fuel (nx.map (fun _ => 0))).map (address 1 nx) = (List.range (ntOf 1 nx).toNat).map (fun k => (k : Int)) := by
  have hp := ntOf_pos nx hpos
  have hN : ntOf 1 nx = ((ntOf 1 nx).toNat : Int) := by omega
  have := enumerate_from nx hne (ntOf 1 nx).toNat hN fuel (nx.map (fun _ => 0)) 0 (ntOf 1 nx).toNat
    (indexOk_zeros nx hpos) (by rw [address_zeros]; rfl) (by omega) (by omega)
  rw [this, List.range_eq_range']

/-- periodic wrap lands in range and is congruent to the input modulo the size -/
theorem wrap_periodic (n i : Int) (hn : 0 < n) (hi : -n ≤ i) :
    0 ≤ Int.tmod (i + n) n ∧ Int.tmod (i + n) n < n ∧ (Int.tmod (i + n) n - i) % n = 0 := by
  rw [Int.tmod_eq_emod_of_nonneg (by omega), Int.add_emod_right]
  refine ⟨Int.emod_nonneg _ (by omega), Int.emod_lt_of_pos _ hn, ?_⟩
  apply Int.emod_eq_zero_of_dvd
  have := Int.emod_add_mul_ediv i n
  exact ⟨-(i / n), by rw [Int.mul_neg]; omega⟩

/-! ## grid sizes from boundaries -/

/-- `nx = ⌊(hi - lo)/w + 1/2⌋` for boundaries in the right order -/
theorem sizes_round (lo hi w : ℝ) (hw : 0 < w) (h : lo ≤ hi) :
    nbinsRound lo hi w = ⌊(hi - lo) / w + 1 / 2⌋ := by
  unfold nbinsRound
  simp only
  have h0 : 0 ≤ (hi - lo) / w := div_nonneg (by linarith) hw.le
  have hy : ¬ ((hi - lo) / w + 0.5 < (0.0 : ℝ)) := by norm_num; linarith
  rw [if_neg hy, prim_floorI]
  norm_num

/-- after adjustment the upper boundary is within 1e-10 bins of `lo + nx·w` -/
theorem sizes_upper (lo hi w : ℝ) (hw : 0 < w) :
    |adjustedUpper lo hi w - (lo + (nbinsRound lo hi w : ℝ) * w)| ≤ 1.0E-10 * w := by
  have hpos : (0 : ℝ) ≤ 1.0E-10 * w := by norm_num; exact hw.le
  unfold adjustedUpper
  simp only
  split_ifs with hc
  · simpa using hpos
  · rw [absS_real, not_lt] at hc
    have e : hi - (lo + (nbinsRound lo hi w : ℝ) * w) = ((hi - lo) / w - (nbinsRound lo hi w : ℝ)) * w := by
      field_simp
      ring
    rw [e, abs_mul, abs_of_pos hw]
    exact mul_le_mul_of_nonneg_right hc hw.le

/-! ## histogram counts -/

/-- total weight of a data array -/
def total (d : List ℝ) : ℝ := d.sum

/-- the samples of a scalar history that are counted: eligible and inside the grid -/
noncomputable def counted (g : GridDef ℝ) (s : Bool × List ℝ) : Bool := s.1 && indexOk g.nx (binsOf g s.2)

noncomputable def runScalar (g : GridDef ℝ) (d : List ℝ) (h : List (Bool × List ℝ)) : List ℝ :=
  h.foldl (fun d s => histStepScalar g d s.1 s.2) d

/-- after any history the sum of all counts is the number of eligible in-range samples -/
theorem hist_total (g : GridDef ℝ) (d : List ℝ) (h : List (Bool × List ℝ))
    (hlen : (d.length : Int) = ntOf 1 g.nx) :
    total (runScalar g d h) = total d + ((h.filter (counted g)).length : ℝ) := by
  induction h generalizing d with
  | nil => simp [runScalar]
  | cons s h ih =>
    have e : runScalar g d (s :: h) = runScalar g (histStepScalar g d s.1 s.2) h := rfl
    rw [e, ih _ (by rw [histStepScalar_length]; exact hlen)]
    unfold total
    rw [histStepScalar_sum g d s.1 s.2 hlen, List.filter_cons]
    unfold counted
    split_ifs with hc
    · simp; ring
    · simp

/-- each bin's count is the number of counted samples whose bin vector addresses it -/
theorem hist_bin (g : GridDef ℝ) (d : List ℝ) (h : List (Bool × List ℝ)) (a : Nat)
    (hlen : (d.length : Int) = ntOf 1 g.nx) (ha : a < d.length) :
    (runScalar g d h).getD a 0 = d.getD a 0 +
      (((h.filter (counted g)).filter (fun s => address 1 g.nx (binsOf g s.2) = (a : Int))).length : ℝ) := by
  induction h generalizing d with
  | nil => simp [runScalar]
  | cons s h ih =>
    have e : runScalar g d (s :: h) = runScalar g (histStepScalar g d s.1 s.2) h := rfl
    have hl := histStepScalar_length g d s.1 s.2
    rw [e, ih _ (by rw [hl]; exact hlen) (by rw [hl]; exact ha),
      histStepScalar_getD g d s.1 s.2 a hlen, List.filter_cons]
    by_cases hc : counted g s = true
    · rw [if_pos hc, List.filter_cons]
      have hc' : (s.1 && indexOk g.nx (binsOf g s.2)) = true := hc
      by_cases hd : address 1 g.nx (binsOf g s.2) = (a : Int)
      · rw [if_pos ⟨hc', hd⟩, if_pos (by simpa using hd)]
        simp; ring
      · rw [if_neg (fun x => hd x.2), if_neg (by simpa using hd)]
        simp
    · have hc' : ¬ (s.1 && indexOk g.nx (binsOf g s.2)) = true := hc
      rw [if_neg hc, if_neg (fun x => hc' x.1)]
      simp

/-- vector variables: the total is the sum of the weights of the in-range elements of eligible steps -/
theorem hist_vector_total (g : GridDef ℝ) (d : List ℝ) (elig : Bool) (elems : List (List ℝ × ℝ))
    (hlen : (d.length : Int) = ntOf 1 g.nx) :
    total (histStepVector g d elig elems) = total d +
      (if elig then ((elems.filter (fun e => indexOk g.nx (binsOf g e.1))).map (·.2)).sum else 0) := by
  unfold histStepVector total
  cases elig with
  | false => simp
  | true =>
    simp only [if_true]
    exact foldl_histAcc_sum g elems d hlen

/-! ## non-vacuity -/

example : indexOk [2, 3] [1, 2] = true ∧ address 1 [2, 3] [1, 2] = 5 ∧ ntOf 1 [2, 3] = 6 := by
  decide

example : valueToBin (0:ℝ) 0.5 1.0 = 2 := by
  rw [bin_iff _ _ _ (by norm_num)]
  norm_num


/-! ## grid files read back (CvModel/GridIO.lean) -/

namespace IO
open Cv.GridIO

/-- a well-formed grid: one lower boundary, width and periodicity flag per dimension, positive sizes, `mult` values
    per grid point -/
structure WF (g : GridFile ℝ) : Prop where
  lo : g.lo.length = g.nx.length
  w : g.w.length = g.nx.length
  per : g.per.length = g.nx.length
  pos : ∀ n ∈ g.nx, 0 < n
  data : g.data.length = npoints g.nx * g.mult

/-- the enumeration of a grid with positive sizes visits at least `npoints` index vectors (exactly `npoints` when
    there is at least one dimension; two copies of the empty index for the zero-dimensional grid) -/
private theorem indices_length (nx : List Int) (hpos : ∀ n ∈ nx, 0 < n) : npoints nx ≤ (indices nx).length := by
  by_cases hne : nx = []
  · subst hne; decide
  · have h3 := enumerate_all nx hne hpos (npoints nx + 1) (by unfold npoints; omega)
    have : (enumerate nx (npoints nx + 1) (nx.map fun _ => 0)).length = (ntOf 1 nx).toNat := by
      have := congrArg List.length h3
      simpa using this
    unfold indices
    rw [this]
    exact Nat.le_refl _

/-- **multicolumn round trip**: a grid written in multicolumn form and read back has the same sizes, boundaries,
    widths, periodicity flags and data -/
theorem multicol_roundtrip (g : GridFile ℝ) (h : WF g) :
    decodeMulticol g.mult (encodeMulticol g) = some g := by
  obtain ⟨nx, lo, w, per, mult, data⟩ := g
  obtain ⟨hlo, hw, hper, hpos, hdata⟩ := h
  simp only at hlo hw hper hpos hdata
  show decodeMulticol mult (Tok.hash :: Tok.int (nx.length : Nat) ::
    ((List.range nx.length).flatMap (fun i =>
      [Tok.hash, Tok.real (lo.getD i 0.0), Tok.real (w.getD i 1.0), Tok.int (nx.getD i 0),
       Tok.int (if per.getD i false then 1 else 0)]) ++
     ((indices nx).zipIdx 0).flatMap (fun p =>
        (List.range nx.length).map (fun i => Tok.real (binToValue (lo.getD i 0.0) (w.getD i 1.0) (p.1.getD i 0))) ++
        (List.range mult).map (fun m => Tok.real (data.getD (p.2 * mult + m) 0.0))))) = _
  rw [decodeMulticol, Int.toNat_natCast]
  rw [readDims_enc _ _ _ _ _ nx.length (by simp)]
  simp only
  have hn := indices_length nx hpos
  have e1 : List.map (fun d : ℝ × ℝ × Int × Bool => d.2.2.1)
            (List.map
              (fun i => (lo.getD i 0.0, w.getD i 1.0, nx.getD i 0, (if per.getD i false = true then (1:Int) else 0) != 0))
              (List.range nx.length)) = nx := by
    rw [List.map_map]; exact getD_range nx 0 _ rfl
  have e2 : List.map (fun d : ℝ × ℝ × Int × Bool => d.1)
            (List.map
              (fun i => (lo.getD i 0.0, w.getD i 1.0, nx.getD i 0, (if per.getD i false = true then (1:Int) else 0) != 0))
              (List.range nx.length)) = lo := by
    rw [List.map_map]; exact getD_range lo _ _ hlo
  have e3 : List.map (fun d : ℝ × ℝ × Int × Bool => d.2.1)
            (List.map
              (fun i => (lo.getD i 0.0, w.getD i 1.0, nx.getD i 0, (if per.getD i false = true then (1:Int) else 0) != 0))
              (List.range nx.length)) = w := by
    rw [List.map_map]; exact getD_range w _ _ hw
  have e4 : List.map (fun d : ℝ × ℝ × Int × Bool => d.2.2.2)
            (List.map
              (fun i => (lo.getD i 0.0, w.getD i 1.0, nx.getD i 0, (if per.getD i false = true then (1:Int) else 0) != 0))
              (List.range nx.length)) = per := by
    rw [List.map_map]
    refine Eq.trans ?_ (getD_range per false _ hper)
    apply List.map_congr_left
    intro i _
    show ((if per.getD i false = true then (1:Int) else 0) != 0) = per.getD i false
    generalize per.getD i false = b
    cases b <;> rfl
  rw [e1, e2, e3, e4]
  rw [readBody_enc nx.length mult (fun ix i => binToValue (lo.getD i 0.0) (w.getD i 1.0) (ix.getD i 0))
    (fun j => data.getD j 0.0) (npoints nx) (indices nx) 0 hn]
  simp only
  rw [blocks_eq data _ mult (npoints nx) 0 (by rw [Nat.zero_add]; omega)]
  simp [hdata]

/-- **raw round trip** on a grid of the same shape -/
theorem raw_roundtrip (g : GridFile ℝ) (h : WF g) (shape : GridFile ℝ) (hs : shape = { g with data := shape.data }) :
    decodeRaw shape (encodeRaw g) = some g := by
  have h1 : shape.nx = g.nx := by rw [hs]
  have h2 : shape.mult = g.mult := by rw [hs]
  unfold decodeRaw encodeRaw
  rw [h1, h2, List.take_of_length_le (Nat.le_of_eq h.data)]
  have := takeReals_map g.data _ h.data []
  rw [List.append_nil] at this
  rw [this, hs]
  rfl

/-- **restart round trip**: the parameter block re-creates sizes, boundaries and widths; periodicity and multiplicity
    come from the reader's configuration -/
theorem restart_roundtrip (g : GridFile ℝ) (h : WF g) :
    decodeRestart g.per g.mult (encodeRestart g) = some g := by
  have hz : List.zipWith (fun (lw : ℝ × ℝ) (n : Int) => Tok.real (lw.1 + lw.2 * (n : ℝ))) (g.lo.zip g.w) g.nx
      = (List.zipWith (fun (lw : ℝ × ℝ) (n : Int) => lw.1 + lw.2 * (n : ℝ)) (g.lo.zip g.w) g.nx).map Tok.real := by
    rw [List.map_zipWith]
  have hzl : (List.zipWith (fun (lw : ℝ × ℝ) (n : Int) => lw.1 + lw.2 * (n : ℝ)) (g.lo.zip g.w) g.nx).length
      = g.nx.length := by
    simp [h.lo, h.w]
  unfold encodeRestart
  rw [hz]
  simp only [List.append_assoc, List.cons_append, List.nil_append]
  rw [decodeRestart, Int.toNat_natCast]
  rw [takeReals_map _ _ h.lo]
  simp only
  rw [takeReals_map _ _ hzl]
  simp only
  rw [takeReals_map _ _ h.w]
  simp only
  rw [takeInts_map _ _ rfl]
  simp only
  exact raw_roundtrip g h _ rfl

/-- **restart block read by a grid of another shape**: a grid on variables with periods `periods` that reads the block takes
    over sizes, boundaries, widths and data *and* re-derives its periodicity flags from the boundaries in the block — so it
    ends up with the flags of the grid written, whatever flags (or boundaries) it had before: they do not enter at all -/
theorem restart_takes_over_periodicity (g : GridFile ℝ) (h : WF g) (periods : List (Option ℝ)) (cvw : List ℝ)
    (hper : g.per = flagsOf periods cvw g.lo (uppers g)) :
    decodeRestartOn periods cvw g.mult (encodeRestart g) = some g := by
  have hz : List.zipWith (fun (lw : ℝ × ℝ) (n : Int) => Tok.real (lw.1 + lw.2 * (n : ℝ))) (g.lo.zip g.w) g.nx
      = (List.zipWith (fun (lw : ℝ × ℝ) (n : Int) => lw.1 + lw.2 * (n : ℝ)) (g.lo.zip g.w) g.nx).map Tok.real := by
    rw [List.map_zipWith]
  have hzl : (List.zipWith (fun (lw : ℝ × ℝ) (n : Int) => lw.1 + lw.2 * (n : ℝ)) (g.lo.zip g.w) g.nx).length
      = g.nx.length := by
    simp [h.lo, h.w]
  unfold encodeRestart
  rw [hz]
  simp only [List.append_assoc, List.cons_append, List.nil_append]
  rw [decodeRestartOn, Int.toNat_natCast]
  rw [takeReals_map _ _ h.lo]
  simp only
  rw [takeReals_map _ _ hzl]
  simp only
  rw [takeReals_map _ _ h.w]
  simp only
  rw [takeInts_map _ _ rfl]
  simp only
  have hu : flagsOf periods cvw g.lo
      (List.zipWith (fun (lw : ℝ × ℝ) (n : Int) => lw.1 + lw.2 * (n : ℝ)) (g.lo.zip g.w) g.nx) = g.per := by
    rw [hper]; rfl
  rw [hu]
  exact raw_roundtrip g h _ rfl

/-- the flag of a dimension is "the variable is periodic and the interval is a whole number of periods" (to the tolerance
    `1e-10` of the variable's width): a grid over exactly one period is periodic, a grid over a proper part of it is not -/
theorem periodicFlag_whole_period (P cvw lo : ℝ) (hP : 0 < P) (hw : 0 < cvw) :
    periodicFlag (some P) cvw lo (lo + P) = true := by
  unfold periodicFlag
  simp only [decide_eq_true_eq, prim_sqrt]
  have hd : dist2S (some P) lo (lo + P) = 0 := by
    unfold dist2S pdiff
    simp only [sq_real]
    have h1 : (lo - (lo + P)) / P = -1 := by field_simp; ring
    have h2 : ⌊(-1 : ℝ) + 1 / 2⌋ = -1 := by
      rw [Int.floor_eq_iff]; constructor <;> norm_num
    rw [Cv.C18.pshift_eq, h1, h2]
    push_cast
    ring
  rw [hd, Real.sqrt_zero, zero_div]
  norm_num

theorem periodicFlag_part_of_period (P cvw lo hi : ℝ) (hP : 0 < P) (hw : 0 < cvw) (hlo : lo < hi) (hhi : hi - lo ≤ P / 2)
    (hbig : cvw * 1.0e-10 ≤ hi - lo) :
    periodicFlag (some P) cvw lo hi = false := by
  unfold periodicFlag
  simp only [decide_eq_false_iff_not, prim_sqrt, not_lt]
  have hd : dist2S (some P) lo hi = (hi - lo) * (hi - lo) := by
    unfold dist2S pdiff
    simp only [sq_real]
    have h2 : ⌊(lo - hi) / P + 1 / 2⌋ = 0 := by
      rw [Int.floor_eq_iff]
      constructor
      · have : -(1/2 : ℝ) ≤ (lo - hi) / P := by
          rw [le_div_iff₀ hP]; linarith
        norm_num; linarith
      · have : (lo - hi) / P < 0 := div_neg_of_neg_of_pos (by linarith) hP
        norm_num; linarith
    rw [Cv.C18.pshift_eq, h2]
    push_cast
    ring
  rw [hd, Real.sqrt_mul_self (by linarith), le_div_iff₀ hw]
  linarith

/-- a non-periodic variable never gives a periodic grid dimension -/
theorem periodicFlag_nonperiodic (cvw lo hi : ℝ) : periodicFlag (none : Option ℝ) cvw lo hi = false := rfl

/-- a truncated raw stream is rejected, not padded -/
theorem raw_truncated_rejected (g : GridFile ℝ) (h : WF g) (k : Nat) (hk : k < npoints g.nx * g.mult) :
    decodeRaw g ((encodeRaw g).take k) = none := by
  unfold decodeRaw
  rw [takeReals_short _ _ (by
    have := h.data
    simp [encodeRaw]
    omega)]
  rfl

/-! ### gradient grids linked to a count grid -/

/-- the state ABF keeps: no accumulated force where there is no sample -/
def GradConsistent (mult : Nat) (data : List ℝ) (cnt : List Nat) : Prop :=
  ∀ a, a < data.length → pointCount mult cnt a = 0 → data.getD a 0 = 0

private theorem gradOut_length (mult : Nat) (data : List ℝ) (cnt : List Nat) :
    (gradOut mult data cnt).length = data.length := by
  simp [gradOut]

private theorem gradIn_length (mult : Nat) (vals : List ℝ) (cnt : List Nat) :
    (gradIn mult vals cnt).length = vals.length := by
  simp [gradIn]

/-- replacing the data by a list of the same length keeps the grid well formed -/
theorem WF_with_data (g : GridFile ℝ) (h : WF g) (out : List ℝ) (hl : out.length = g.data.length) :
    WF { g with data := out } :=
  ⟨h.lo, h.w, h.per, h.pos, by show out.length = _; rw [hl]; exact h.data⟩

/-- writing the average and multiplying by the count again gives back the stored sums -/
theorem grad_out_in (mult : Nat) (data : List ℝ) (cnt : List Nat) (h : GradConsistent mult data cnt) :
    gradIn mult (gradOut mult data cnt) cnt = data := by
  apply List.ext_getElem
  · rw [gradIn_length, gradOut_length]
  · intro a h1 h2
    have hd : data.getD a 0 = data[a] := by simp [List.getD_eq_getElem?_getD, h2]
    simp only [gradIn, gradOut, List.getElem_map, List.getElem_zipIdx, Nat.zero_add]
    by_cases hp : pointCount mult cnt a > 0
    · rw [if_pos hp]
      have : ((pointCount mult cnt a : Nat) : ℝ) ≠ 0 := Nat.cast_ne_zero.mpr (by omega)
      exact div_mul_cancel₀ _ this
    · rw [if_neg hp]
      have h0 : pointCount mult cnt a = 0 := by omega
      have := h a h2 h0
      rw [hd] at this
      rw [this]
      norm_num

/-- **gradient grid, multicolumn round trip** (plain read): data and counts of the reading grids equal those written -/
theorem grad_multicol_roundtrip (g : GridFile ℝ) (h : WF g) (cnt : List Nat)
    (hc : GradConsistent g.mult g.data cnt) :
    gradMulticolRoundTrip g (some cnt) false = some (g.data, cnt) := by
  have hw := WF_with_data g h (gradOut g.mult g.data cnt) (gradOut_length _ _ _)
  have hr := multicol_roundtrip _ hw
  simp only [gradMulticolRoundTrip]
  simp only at hr
  rw [hr]
  simp [grad_out_in _ _ _ hc]

/-- **reading with `add`** (the `inputPrefix` path): grids that already hold the same data end up with exactly twice the
    sums and twice the counts — every component of every point, not only the first -/
theorem grad_multicol_add (g : GridFile ℝ) (h : WF g) (cnt : List Nat)
    (hc : GradConsistent g.mult g.data cnt) :
    gradMulticolRoundTrip g (some cnt) true
      = some (List.zipWith (· + ·) g.data g.data, List.zipWith (· + ·) cnt cnt) := by
  have hw := WF_with_data g h (gradOut g.mult g.data cnt) (gradOut_length _ _ _)
  have hr := multicol_roundtrip _ hw
  simp only [gradMulticolRoundTrip]
  simp only at hr
  rw [hr]
  simp [gradInAdd, countInAdd, grad_out_in _ _ _ hc]

/-- without a count grid the file carries the data itself -/
theorem grad_multicol_nocount (g : GridFile ℝ) (h : WF g) (add : Bool) :
    gradMulticolRoundTrip g none add
      = some (if add then List.zipWith (· + ·) g.data g.data else g.data, []) := by
  have hr := multicol_roundtrip g h
  simp only [gradMulticolRoundTrip]
  rw [hr]
  cases add <;> simp

/-- raw and restart forms of a gradient grid linked to its count grid -/
theorem grad_raw_roundtrip (g : GridFile ℝ) (h : WF g) (cnt : List Nat) (hc : GradConsistent g.mult g.data cnt)
    (restart : Bool) :
    gradRawRoundTrip g (some cnt) restart = some (g.data, cnt) := by
  have hw := WF_with_data g h (gradOut g.mult g.data cnt) (gradOut_length _ _ _)
  cases restart with
  | false =>
    have hr := raw_roundtrip _ hw { g with data := [] } rfl
    simp only [gradRawRoundTrip]
    simp only [Bool.false_eq_true, if_false]
    rw [hr]
    simp only [grad_out_in _ _ _ hc]
  | true =>
    have hw' : WF { g with per := g.per.map (fun _ => false), data := gradOut g.mult g.data cnt } :=
      ⟨hw.lo, hw.w, by simpa using h.per, hw.pos, hw.data⟩
    have hr := restart_roundtrip _ hw'
    have he : encodeRestart { g with per := g.per.map (fun _ => false), data := gradOut g.mult g.data cnt }
        = encodeRestart { g with data := gradOut g.mult g.data cnt } := rfl
    rw [he] at hr
    simp only [gradRawRoundTrip]
    simp only [if_true]
    rw [hr]
    simp only [grad_out_in _ _ _ hc]

/-- the premises are satisfiable: a 2 x 1 grid of two variables, one point without samples -/
example : GradConsistent 2 [3, -1, 0, 0] [2, 0] := by
  intro a ha h0
  have : a < 4 := by simpa using ha
  interval_cases a <;> simp_all [pointCount]

end IO

end Cv.C15
