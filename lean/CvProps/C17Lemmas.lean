import CvProps.RealInst
/-!
# Helper lemmas for C17 (extended-Lagrangian coordinate), all over `ℝ`.
-/
open Cv

namespace Cv.C17

theorem dist2S_none (a b : ℝ) : dist2S (none : Option ℝ) a b = (a - b) * (a - b) := rfl
theorem dist2SGrad_none (a b : ℝ) : dist2SGrad (none : Option ℝ) a b = 2.0 * (a - b) := rfl

theorem lit05 : (0.5 : ℝ) = 1 / 2 := by norm_num
theorem lit10 : (1.0 : ℝ) = 1 := by norm_num
theorem lit20 : (2.0 : ℝ) = 2 := by norm_num
theorem lit00 : (0.0 : ℝ) = 0 := by norm_num
theorem lit025 : (0.25 : ℝ) = 1 / 4 := by norm_num

/-- closed form of one update in the frictionless, unbounded, non-periodic case, for any time-step factor `n` of the
    variable: the integrator runs with the slow time step `h = dt·n` in every term and with the bias force scaled back
    to its instantaneous value `fb / n` -/
theorem extIntegrate_plain (p : ExtParams ℝ) (hl : p.langevin = false) (hlo : p.reflLower = none)
    (hup : p.reflUpper = none) (hper : p.per = none)
    (s : ExtState ℝ) (x fb fa rnd : ℝ) :
    (extIntegrate p s x fb fa rnd).prevX = s.xExt ∧
    (extIntegrate p s x fb fa rnd).prevV = s.vExt ∧
    (extIntegrate p s x fb fa rnd).vExt =
      s.vExt + (p.dt * (p.tsf : ℝ)) * (fb / (p.tsf : ℝ) - p.k * (s.xExt - x)) / p.mass ∧
    (extIntegrate p s x fb fa rnd).xExt =
      s.xExt + (p.dt * (p.tsf : ℝ)) *
        (s.vExt + (p.dt * (p.tsf : ℝ)) * (fb / (p.tsf : ℝ) - p.k * (s.xExt - x)) / p.mass) ∧
    (extIntegrate p s x fb fa rnd).ek =
      1 / 2 * p.mass *
        (s.vExt + 1 / 2 * (p.dt * (p.tsf : ℝ)) * (fb / (p.tsf : ℝ) - p.k * (s.xExt - x)) / p.mass) ^ 2 ∧
    (extIntegrate p s x fb fa rnd).ep = 1 / 2 * p.k * (s.xExt - x) ^ 2 := by
  unfold extIntegrate
  simp only [hl, hlo, hup, hper, dist2S_none, dist2SGrad_none, Option.bind_none]
  simp only [lit05, lit20, lit10, Bool.false_eq_true, if_false]
  refine ⟨trivial, trivial, ?_, ?_, ?_, ?_⟩ <;> ring

/-- the shadow-energy identity of the integrator, as a rational identity -/
theorem shadow_algebra {X V x fb k m h V1 X1 : ℝ} (hm : m ≠ 0) (hk : k ≠ 0)
    (hV1 : V1 = V + h * (fb - k * (X - x)) / m) (hX1 : X1 = X + h * V1) :
    1 / 2 * m * (V1 + 1 / 2 * h * (fb - k * (X1 - x)) / m) ^ 2 + 1 / 2 * k * (X1 - x) ^ 2 - fb * (X1 - x)
        - h * h * k * k / (8 * m) * (X1 - x - fb / k) ^ 2 =
    1 / 2 * m * (V + 1 / 2 * h * (fb - k * (X - x)) / m) ^ 2 + 1 / 2 * k * (X - x) ^ 2 - fb * (X - x)
        - h * h * k * k / (8 * m) * (X - x - fb / k) ^ 2 := by
  subst hX1
  subst hV1
  field_simp
  ring

/-! ## the pieces of `extIntegrate`, named (generic, so that they unfold to the very same terms) -/

section generic
variable {α : Type} [Sc α]

/-- velocity after the two half kicks and the friction/noise step -/
def extV3 (p : ExtParams α) (s : ExtState α) (x fb rnd : α) : α :=
  let n : α := (p.tsf : α)
  let dt := p.dt * n
  let fExt0 := fb / n
  let fSystem := (-0.5 * p.k) * dist2SGrad p.per s.xExt x
  let fExt := fExt0 + fSystem
  let v1 := s.vExt + 0.5 * dt * fExt / p.mass
  let v2 := v1 + 0.5 * dt * fExt / p.mass
  if p.langevin then Prim.exp (-1.0 * dt * p.gamma) * v2 + p.sigma * rnd / p.mass else v2

/-- position after the two half drifts, before reflection and wrapping -/
def extX2 (p : ExtParams α) (s : ExtState α) (x fb rnd : α) : α :=
  let n : α := (p.tsf : α)
  let dt := p.dt * n
  let fExt0 := fb / n
  let fSystem := (-0.5 * p.k) * dist2SGrad p.per s.xExt x
  let fExt := fExt0 + fSystem
  let v1 := s.vExt + 0.5 * dt * fExt / p.mass
  let v2 := v1 + 0.5 * dt * fExt / p.mass
  let x1 := s.xExt + dt * v2 / 2.0
  let v3 := if p.langevin then Prim.exp (-1.0 * dt * p.gamma) * v2 + p.sigma * rnd / p.mass else v2
  x1 + dt * v3 / 2.0

/-- the reflecting-boundary block -/
def reflectS (lo up : Option α) (v0 x2 v3 : α) : α × α × Bool :=
  let dl : Option α := lo.bind fun lb => if x2 - lb < 0.0 then some (x2 - lb) else none
  let du : Option α := up.bind fun ub => if x2 - ub > 0.0 then some (x2 - ub) else none
  let delta : Option α := match dl with | some d => some d | none => du
  match delta with
    | none => (x2, v3, false)
    | some d =>
      let xr := x2 - 2.0 * d
      let vr := -0.5 * (v0 + v3)
      let bad := (match lo with | some lb => decide (xr - lb < 0.0) | none => false) ||
                 (match up with | some ub => decide (xr - ub > 0.0) | none => false)
      (xr, vr, bad)

theorem extIntegrate_reflect (p : ExtParams α) (s : ExtState α) (x fb fa rnd : α) :
    (extIntegrate p s x fb fa rnd).xExt =
      (match p.per with
        | none => (reflectS p.reflLower p.reflUpper s.vExt (extX2 p s x fb rnd) (extV3 p s x fb rnd)).1
        | some P => wrapS P p.wrapC
            (reflectS p.reflLower p.reflUpper s.vExt (extX2 p s x fb rnd) (extV3 p s x fb rnd)).1) ∧
    (extIntegrate p s x fb fa rnd).vExt =
      (reflectS p.reflLower p.reflUpper s.vExt (extX2 p s x fb rnd) (extV3 p s x fb rnd)).2.1 ∧
    (extIntegrate p s x fb fa rnd).err =
      (s.err || (reflectS p.reflLower p.reflUpper s.vExt (extX2 p s x fb rnd) (extV3 p s x fb rnd)).2.2) :=
  ⟨rfl, rfl, rfl⟩

/-- the update reads only the coordinate, the velocity and the error flag of the state -/
theorem extIntegrate_congr (p : ExtParams α) (s t : ExtState α) (x fb fa rnd : α)
    (hx : t.xExt = s.xExt) (hv : t.vExt = s.vExt) :
    extIntegrate p t x fb fa rnd =
      { t with
        prevX := s.xExt, prevV := s.vExt,
        xExt := (extIntegrate p s x fb fa rnd).xExt, vExt := (extIntegrate p s x fb fa rnd).vExt,
        ek := (extIntegrate p s x fb fa rnd).ek, ep := (extIntegrate p s x fb fa rnd).ep,
        fr := (extIntegrate p s x fb fa rnd).fr, ftReported := (extIntegrate p s x fb fa rnd).ftReported,
        fAtoms := (extIntegrate p s x fb fa rnd).fAtoms,
        err := (t.err ||
          (reflectS p.reflLower p.reflUpper s.vExt (extX2 p s x fb rnd) (extV3 p s x fb rnd)).2.2) } := by
  cases s
  cases t
  simp only at hx hv
  subst hx hv
  rfl

omit [Sc α] in
/-- two states that agree up to the error flag and have the same error flag are equal -/
theorem eq_of_err {a b : ExtState α} (h : a = { b with err := a.err }) (he : a.err = b.err) : a = b := by
  rw [h, he]

end generic

local macro "fin_reflect" : tactic =>
  `(tactic| (simp only [lit00, lit20] at *; first | linarith | exact ⟨by linarith, by linarith⟩))

/-- if the block does not flag an error, its position is inside the boundaries -/
theorem reflectS_inside (lo up : Option ℝ) (v0 x2 v3 : ℝ) (h : (reflectS lo up v0 x2 v3).2.2 = false) :
    (∀ lb, lo = some lb → lb ≤ (reflectS lo up v0 x2 v3).1) ∧
    (∀ ub, up = some ub → (reflectS lo up v0 x2 v3).1 ≤ ub) := by
  unfold reflectS at h ⊢
  rcases lo with _ | lb <;> rcases up with _ | ub <;>
    simp only [Option.bind_none, Option.bind_some] at h ⊢
  · simp
  · by_cases hc : x2 - ub > 0.0
    · simp [hc] at h ⊢
      fin_reflect
    · simp [hc] at h ⊢
      fin_reflect
  · by_cases hc : x2 - lb < 0.0
    · simp [hc] at h ⊢
      fin_reflect
    · simp [hc] at h ⊢
      fin_reflect
  · by_cases hc : x2 - lb < 0.0
    · simp [hc] at h ⊢
      fin_reflect
    · by_cases hd : x2 - ub > 0.0
      · simp [hc, hd] at h ⊢
        fin_reflect
      · simp [hc, hd] at h ⊢
        fin_reflect

theorem reflectS_lower (lb v0 x2 v3 : ℝ) (h : x2 < lb) :
    (reflectS (some lb) none v0 x2 v3).1 = 2 * lb - x2 ∧
    (reflectS (some lb) none v0 x2 v3).2.1 = -0.5 * (v0 + v3) := by
  have hc : x2 - lb < 0.0 := by rw [lit00]; linarith
  unfold reflectS
  simp only [Option.bind_some, hc, if_true]
  refine ⟨?_, trivial⟩
  rw [lit20]; ring

/-- without friction and periodicity the two half kicks and half drifts combine -/
theorem extV3_X2_nolangevin (p : ExtParams ℝ) (hl : p.langevin = false) (hper : p.per = none)
    (s : ExtState ℝ) (x fb rnd : ℝ) :
    extV3 p s x fb rnd =
      s.vExt + p.dt * (p.tsf : ℝ) * (fb / (p.tsf : ℝ) + (-0.5 * p.k) * (2 * (s.xExt - x))) / p.mass ∧
    extX2 p s x fb rnd =
      s.xExt + p.dt * (p.tsf : ℝ) *
        (s.vExt + p.dt * (p.tsf : ℝ) * (fb / (p.tsf : ℝ) + (-0.5 * p.k) * (2 * (s.xExt - x))) / p.mass) := by
  unfold extV3 extX2
  simp only [hl, hper, dist2SGrad_none, Bool.false_eq_true, if_false, lit05, lit20]
  constructor <;> ring

/-! ## `extPrepare` -/

/-- an ordinary step: nothing but the restart flag changes -/
theorem extPrepare_ordinary (p : ExtParams ℝ) (c : Clock) (s : ExtState ℝ) (x : ℝ)
    (hset : s.set = true) (hnz : c.stepRelative ≠ 0 ∨ s.afterRestart = true)
    (hnrep : c.stepRelative ≠ s.prevTimestep) :
    extPrepare p c true s x = { s with afterRestart := false } := by
  unfold extPrepare
  have h1 : ((decide (c.stepRelative = 0) && !s.afterRestart) || !s.set || !true) = false := by
    rcases hnz with h | h
    · simp [h, hset]
    · simp [h, hset]
  simp only [h1, Bool.false_eq_true, if_false, Bool.true_and, decide_eq_true_eq, hnrep]

/-- a repeated step without a jump of the variable -/
theorem extPrepare_repeat (p : ExtParams ℝ) (c : Clock) (s : ExtState ℝ) (x : ℝ)
    (hset : s.set = true) (hnz : c.stepRelative ≠ 0 ∨ s.afterRestart = true)
    (hrep : c.stepRelative = s.prevTimestep)
    (hjump : ¬ dist2S p.per x s.xOld / (p.width * p.width) > 0.25) :
    extPrepare p c true s x = { s with xExt := s.prevX, vExt := s.prevV, afterRestart := false } := by
  unfold extPrepare
  have h1 : ((decide (c.stepRelative = 0) && !s.afterRestart) || !s.set || !true) = false := by
    rcases hnz with h | h
    · simp [h, hset]
    · simp [h, hset]
  simp only [h1, Bool.false_eq_true, if_false]
  simp only [Bool.true_and, decide_eq_true_eq, hrep, if_true, hjump, if_false]

/-- first step of a fresh run without reflecting boundaries -/
theorem extPrepare_init (p : ExtParams ℝ) (c : Clock) (s : ExtState ℝ) (x : ℝ) (h0 : c.stepRelative = 0)
    (hr : s.afterRestart = false) (hnrep : s.prevTimestep ≠ 0) (hlo : p.reflLower = none)
    (hup : p.reflUpper = none) :
    extPrepare p c true s x = { s with set := true, xExt := x, vExt := 0, afterRestart := false } := by
  unfold extPrepare
  have h1 : ((decide (c.stepRelative = 0) && !s.afterRestart) || !s.set || !true) = true := by
    simp [h0, hr]
  have h2 : (0 : Int) ≠ s.prevTimestep := fun h => hnrep h.symm
  simp only [h1, if_true]
  simp only [hlo, hup, Bool.true_and, decide_eq_true_eq, h0, h2, if_false, lit00]

end Cv.C17
