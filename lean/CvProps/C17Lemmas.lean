import CvProps.RealInst
/-!
# Helper lemmas for C17 (extended-Lagrangian coordinate), all over `ℝ`.
-/
open Cv

namespace Cv.C17

theorem dist2S_none (a b : ℝ) : dist2S (none : Option ℝ) a b = (a - b) * (a - b) := rfl
theorem dist2SGrad_none (a b : ℝ) : dist2SGrad (none : Option ℝ) a b = 2.0 * (a - b) := rfl

/-- closed form of one update in the frictionless, unbounded, non-periodic case with time-step factor 1 -/
theorem extIntegrate_plain (p : ExtParams ℝ) (hl : p.langevin = false) (hlo : p.reflLower = none)
    (hup : p.reflUpper = none) (hper : p.per = none) (ht : p.tsf = 1)
    (s : ExtState ℝ) (x fb fa rnd : ℝ) :
    (extIntegrate p s x fb fa rnd).prevX = s.xExt ∧
    (extIntegrate p s x fb fa rnd).prevV = s.vExt ∧
    (extIntegrate p s x fb fa rnd).vExt = s.vExt + p.dt * (fb - p.k * (s.xExt - x)) / p.mass ∧
    (extIntegrate p s x fb fa rnd).xExt =
      s.xExt + p.dt * (s.vExt + p.dt * (fb - p.k * (s.xExt - x)) / p.mass) ∧
    (extIntegrate p s x fb fa rnd).ek =
      1 / 2 * p.mass * (s.vExt + 1 / 2 * p.dt * (fb - p.k * (s.xExt - x)) / p.mass) ^ 2 ∧
    (extIntegrate p s x fb fa rnd).ep = 1 / 2 * p.k * (s.xExt - x) ^ 2 := by
  unfold extIntegrate
  simp only [hl, hlo, hup, hper, ht, dist2S_none, dist2SGrad_none, Option.bind_none, Int.cast_one]
  have e05 : (0.5 : ℝ) = 1 / 2 := by norm_num
  have e20 : (2.0 : ℝ) = 2 := by norm_num
  have e10 : (-1.0 : ℝ) = -1 := by norm_num
  simp only [e05, e20, e10, Bool.false_eq_true, if_false]
  refine ⟨trivial, trivial, ?_, ?_, ?_, ?_⟩ <;> ring

end Cv.C17
