import CvProps.RealInst
import CvProps.C06Lemmas
/-!
# C06 — restraints: documented potentials, schedules as functions of the step alone, work, staged TI

Property theorems about `CvModel/Restraint.lean` and `CvModel/RestraintRun.lean` at `α := ℝ`.
-/
open Cv

namespace Cv.C06
open Cv.C18

/-! ## closed forms of the potentials and force = minus derivative -/

/-- harmonic: `½ k/w² d²` with `d` the shortest-image difference; never negative for `k ≥ 0` -/
theorem harmonic_energy (p : RParams ℝ) (hk : p.kind = .harmonic) (k : ℝ) (cs : List ℝ) (i : Nat) (x : ℝ) :
    rPotential p k cs i x =
      0.5 * k / (p.widths.getD i 1 * p.widths.getD i 1) * (pdiff (p.per.getD i none) x (cs.getD i 0)) ^ 2 := by
  unfold rPotential dist2S
  simp only [hk, sq_real, lit_one, lit_zero]
  ring

/-- harmonic, non-periodic variable: the force is minus the derivative of the energy -/
theorem harmonic_force_deriv (p : RParams ℝ) (hk : p.kind = .harmonic) (k : ℝ) (cs : List ℝ) (i : Nat) (x : ℝ)
    (hp : p.per.getD i none = none) :
    HasDerivAt (fun y => rPotential p k cs i y) (- rForce p k cs i x) x := by
  unfold rPotential rForce
  simp only [hk, hp]
  refine ((hasDerivAt_dist2S_none x (cs.getD i 0.0)).const_mul _).congr_deriv ?_
  ring

/-- harmonic, periodic variable, away from the point diametrically opposite to the centre -/
theorem harmonic_force_deriv_periodic (p : RParams ℝ) (hk : p.kind = .harmonic) (k : ℝ) (cs : List ℝ) (i : Nat) (x P : ℝ)
    (hp : p.per.getD i none = some P) (hP : 0 < P) (hcut : ∀ n : ℤ, (x - cs.getD i 0) / P + 0.5 ≠ n) :
    HasDerivAt (fun y => rPotential p k cs i y) (- rForce p k cs i x) x := by
  unfold rPotential rForce
  simp only [hk, hp]
  have hcut' : ∀ n : ℤ, (x - cs.getD i 0.0) / P + 0.5 ≠ n := by simpa only [lit_zero] using hcut
  refine ((hasDerivAt_dist2S_periodic P hP x (cs.getD i 0.0) hcut').const_mul _).congr_deriv ?_
  ring

/-- linear: `k/w (x - c)` and constant force `-k/w` -/
theorem linear_energy_force (p : RParams ℝ) (hk : p.kind = .linear) (k : ℝ) (cs : List ℝ) (i : Nat) (x : ℝ) :
    rPotential p k cs i x = k / p.widths.getD i 1 * (x - cs.getD i 0) ∧
    rForce p k cs i x = - (k / p.widths.getD i 1) ∧
    HasDerivAt (fun y => rPotential p k cs i y) (- rForce p k cs i x) x := by
  unfold rPotential rForce
  simp only [hk, lit_one, lit_zero]
  refine ⟨trivial, by ring, ?_⟩
  refine (((hasDerivAt_id x).sub_const (cs.getD i 0)).const_mul _).congr_deriv ?_
  ring

/-- non-periodic walls: zero between the walls, harmonic in the excess beyond the violated wall -/
theorem walls_energy (p : RParams ℝ) (hk : p.kind = .walls) (k : ℝ) (cs : List ℝ) (i : Nat) (x l u : ℝ)
    (hp : p.per.getD i none = none) (hl : p.lowerWalls.map (·.getD i 0.0) = some l)
    (hu : p.upperWalls.map (·.getD i 0.0) = some u) (hlu : l < u) :
    let w := p.widths.getD i 1
    (l ≤ x ∧ x ≤ u → rPotential p k cs i x = 0 ∧ rForce p k cs i x = 0) ∧
    (x < l → rPotential p k cs i x = 0.5 * k * p.lowerK / (w * w) * (x - l) ^ 2 ∧
             rForce p k cs i x = - (k * p.lowerK / (w * w) * (x - l))) ∧
    (u < x → rPotential p k cs i x = 0.5 * k * p.upperK / (w * w) * (x - u) ^ 2 ∧
             rForce p k cs i x = - (k * p.upperK / (w * w) * (x - u))) := by
  intro w
  have hd : wallDistance p i x = if x < l then x - l else if u < x then x - u else 0 := by
    unfold wallDistance
    simp only [hp, hl, hu]
    simp only [Option.map_some, dist2SGrad, pdiff, lit_zero, lit_two]
    by_cases h1 : x < l
    · rw [if_pos (by linarith), if_pos h1]; ring
    · rw [if_neg (by linarith), if_neg h1]
      by_cases h2 : u < x
      · rw [if_pos (by linarith), if_pos h2]; ring
      · rw [if_neg (by linarith), if_neg h2]
  unfold rPotential rForce
  simp only [hk, lit_one, lit_zero]
  refine ⟨?_, ?_, ?_⟩
  · rintro ⟨h1, h2⟩
    have hd' : wallDistance p i x = 0 := by
      rw [hd, if_neg (by linarith), if_neg (by linarith)]
    rw [hd']
    simp
  · intro h1
    have hd' : wallDistance p i x = x - l := by rw [hd, if_pos h1]
    rw [hd', if_neg (by linarith)]
    constructor <;> ring
  · intro h2
    have hd' : wallDistance p i x = x - u := by
      rw [hd, if_neg (by linarith), if_pos h2]
    rw [hd', if_pos (by linarith)]
    constructor <;> ring

/-- one-sided wall -/
theorem walls_energy_upper_only (p : RParams ℝ) (hk : p.kind = .walls) (k : ℝ) (cs : List ℝ) (i : Nat) (x u : ℝ)
    (hp : p.per.getD i none = none) (hl : p.lowerWalls = none) (hu : p.upperWalls.map (·.getD i 0.0) = some u) :
    let w := p.widths.getD i 1
    (x ≤ u → rPotential p k cs i x = 0) ∧
    (u < x → rPotential p k cs i x = 0.5 * k * p.upperK / (w * w) * (x - u) ^ 2) := by
  intro w
  have hd : wallDistance p i x = if u < x then x - u else 0 := by
    unfold wallDistance
    simp only [hp, hl, hu]
    simp only [Option.map_some, Option.map_none, dist2SGrad, pdiff, lit_zero, lit_two]
    by_cases h2 : u < x
    · rw [if_pos (by linarith), if_pos h2]; ring
    · rw [if_neg (by linarith), if_neg h2]
  unfold rPotential
  simp only [hk, lit_one, lit_zero]
  refine ⟨?_, ?_⟩
  · intro h1
    have hd' : wallDistance p i x = 0 := by rw [hd, if_neg (by linarith)]
    rw [hd']
    simp
  · intro h2
    have hd' : wallDistance p i x = x - u := by rw [hd, if_pos h2]
    rw [hd', if_pos (by linarith)]
    ring

/-- periodic variable with both walls: only the closer wall (shortest-image distance) can act, and only
    when the value is on its outer side -/
theorem walls_periodic_closest (p : RParams ℝ) (i : Nat) (x l u P : ℝ)
    (hp : p.per.getD i none = some P) (hl : p.lowerWalls.map (·.getD i 0.0) = some l)
    (hu : p.upperWalls.map (·.getD i 0.0) = some u) :
    wallDistance p i x =
      if dist2S (some P) x l < dist2S (some P) x u then min (pdiff (some P) x l) 0
      else max (pdiff (some P) x u) 0 := by
  unfold wallDistance
  simp only [hp, hl, hu]
  simp only [Option.getD_some, dist2SGrad, lit_zero, lit_two]
  split_ifs with h1 h2 h3
  · rw [min_eq_left (by linarith)]; ring
  · rw [min_eq_right (by linarith)]
  · rw [max_eq_left (by linarith)]; ring
  · rw [max_eq_right (by linarith)]

/-- `dU/dk` is the potential per unit force constant -/
theorem dUdk_is_potential_per_k (p : RParams ℝ) (k : ℝ) (cs : List ℝ) (i : Nat) (x : ℝ) :
    rPotential p k cs i x = k * rDUdk p cs i x := by
  unfold rPotential rDUdk
  cases p.kind <;> simp only [lit_half, lit_one, lit_zero] <;> ring

/-! ## schedules are functions of the step number alone, whatever the segmentation -/

/-- number of operations that advance the step counter (the first call of the first run does not) -/
def advances : List (ROp ℝ) → Nat
  | [] => 0
  | ROp.step _ :: r => 1 + advances r
  | _ :: r => advances r

lemma advances_eq (ops : List (ROp ℝ)) : advances ops = advN ops := by
  induction ops with
  | nil => rfl
  | cons op ops ih => cases op <;> simp [advances, advN, opAdv, ih]

/-- the absolute step reached after a history that starts with an ordinary step -/
theorem step_number (p : RParams ℝ) (k0 : ℝ) (x0 : List ℝ) (ops : List (ROp ℝ)) :
    (rRun p (rInit p k0) (ROp.step x0 :: ops)).clock.it = p.firstStep + (advances ops : Int) := by
  rw [rRun_cons, advances_eq]
  have h := rRun_induct p (fun r T => ClockOK p r.clock T)
    (fun r T op _ h => by rw [rApply_clock]; exact clockOK_op h op)
    ops (rApply p (rInit p k0) (.step x0)) 0 le_rfl
    (by rw [rApply_clock]; exact clockOK_init p k0 x0)
  simpa using h.it

/-- continuous moving centres: at every step inside the schedule the centre is the interpolation at
    `λ = (step - firstStep)/targetNumSteps` (then wrapped), independently of the state it is computed from —
    hence of any earlier segmentation -/
theorem centers_continuous (p : RParams ℝ) (c : Clock) (s : RState ℝ) (tgt : List ℝ)
    (ht : p.targetCenters = some tgt) (hst : p.nstages = 0) (hin : c.it - p.firstStep ≤ p.nsteps) :
    (centersMovingUpdate p c s).centers =
      List.zipWith (fun (pc : Option ℝ × ℝ) x => wrapVar pc.1 pc.2 x) (p.per.zip p.wrapC)
        (List.zipWith (fun c0 c1 => lerpS c0 c1 (((c.it - p.firstStep : Int) : ℝ) / (p.nsteps : ℝ))) p.centers0 tgt) := by
  unfold centersMovingUpdate
  simp only [ht, hst, ne_eq, not_true_eq_false, if_false, if_pos hin]
  split_ifs <;> rfl

/-- continuous force-constant change: `k = k(λ)` with `λ = (step - firstStep)/targetNumSteps` (reversed for decoupling) -/
theorem k_continuous (p : RParams ℝ) (c : Clock) (s : RState ℝ) (xs : List ℝ)
    (hc : p.chgK = true) (hst : p.nstages = 0) (hin : c.it - p.firstStep ≤ p.nsteps) :
    (kMovingUpdate p c s xs).k =
      kOfLambda p (if p.decoupling then 1.0 - ((c.it - p.firstStep : Int) : ℝ) / (p.nsteps : ℝ)
                   else ((c.it - p.firstStep : Int) : ℝ) / (p.nsteps : ℝ)) := by
  unfold kMovingUpdate
  simp only [hc, hst, ne_eq, not_true_eq_false, if_false, if_pos hin, Bool.not_true, Bool.false_eq_true]

/-- staged force-constant schedule: after any history (ordinary steps, repeated steps of new runs, restarts
    from saved states, in any order) that has reached absolute step `firstStep + T`, the stage is
    `min (T / targetNumSteps) targetNumStages` and the force constant is the one prescribed for that stage -/
theorem k_staged_schedule (p : RParams ℝ) (k0 : ℝ) (x0 : List ℝ) (ops : List (ROp ℝ))
    (hc : p.chgK = true) (hn : 0 < p.nsteps) (hs : 0 < p.nstages) (htc : p.targetCenters = none) :
    let r := rRun p (rInit p k0) (ROp.step x0 :: ops)
    let T : Int := advances ops
    r.s.stage = min (T / p.nsteps) p.nstages ∧ r.s.k = kOfLambda p (stageLambda p r.s.stage) := by
  intro r T
  have h := kStaged_run p k0 x0 ops hc hn hs htc
  rw [← advances_eq] at h
  exact ⟨h.stage, h.k⟩

/-- staged moving centres: once the first step after `firstStep` has been taken, the number of centre
    updates done is `min ((T - 1) / n + 1) (stages + 1)` whatever the segmentation -/
theorem centers_staged_schedule (p : RParams ℝ) (k0 : ℝ) (x0 : List ℝ) (ops : List (ROp ℝ)) (tgt : List ℝ)
    (ht : p.targetCenters = some tgt) (hk : p.kind ≠ .walls) (hck : p.chgK = false)
    (hn : 1 < p.nsteps) (hs : 0 < p.nstages) (hT : 0 < advances ops) :
    let r := rRun p (rInit p k0) (ROp.step x0 :: ops)
    let T : Int := advances ops
    r.s.stage = min ((T - 1) / p.nsteps + 1) (p.nstages + 1) := by
  intro r T
  have _ := hT  -- not needed: with floor division the formula also gives stage 0 at `T = 0`
  have h := cStaged_run p k0 x0 ops tgt ht hk hck hn hs
  rw [← advances_eq] at h
  have := h.stage
  rwa [ceil_eq (by omega)] at this

/-- ... and the centres are those of the last update: the interpolation at `(stage - 1)/stages` -/
theorem centers_staged_value (p : RParams ℝ) (k0 : ℝ) (x0 : List ℝ) (ops : List (ROp ℝ)) (tgt : List ℝ)
    (ht : p.targetCenters = some tgt) (hk : p.kind ≠ .walls) (hck : p.chgK = false)
    (hn : 1 < p.nsteps) (hs : 0 < p.nstages) (hT : 0 < advances ops) :
    let r := rRun p (rInit p k0) (ROp.step x0 :: ops)
    r.s.centers =
      List.zipWith (fun (pc : Option ℝ × ℝ) x => wrapVar pc.1 pc.2 x) (p.per.zip p.wrapC)
        (List.zipWith (fun c0 c1 => lerpS c0 c1 (((r.s.stage - 1 : Int) : ℝ) / (p.nstages : ℝ))) p.centers0 tgt) := by
  intro r
  have h := cStaged_run p k0 x0 ops tgt ht hk hck hn hs
  rw [← advances_eq] at h
  have hst := centers_staged_schedule p k0 x0 ops tgt ht hk hck hn hs hT
  have hq : 0 ≤ ((advances ops : Int) - 1) / p.nsteps := Int.ediv_nonneg (by omega) (by omega)
  have h1 : 1 ≤ r.s.stage := by
    have : r.s.stage = min (((advances ops : Int) - 1) / p.nsteps + 1) (p.nstages + 1) := hst
    omega
  exact h.centers h1

/-! ## accumulated work -/

/-- one update adds `Σ force·centre increment` (moving centres, inside the schedule, not at step 0 of a run)
    plus `Σ dU/dk · Δk` (changing force constant, not at step 0 of a run), and nothing otherwise -/
theorem work_increment (p : RParams ℝ) (c : Clock) (s : RState ℝ) (xs : List ℝ) :
    let r := restraintStep p c s xs
    let s2 := kMovingUpdate p c (if p.kind = .walls then s else centersMovingUpdate p c s) xs
    r.1.accWork = s.accWork
      + (if p.targetCenters.isSome ∧ p.kind ≠ .walls ∧ p.outputWork ∧ c.stepRelative > 0 ∧ c.it - p.firstStep ≤ p.nsteps
         then (List.zipWith (· * ·) r.2.forces s2.centersIncr).sum else 0)
      + (if p.chgK ∧ p.outputWork ∧ c.stepRelative > 0 then sumDUdk p s2.centers xs * s2.kIncr else 0) := by
  intro r s2
  have hacc : s2.accWork = s.accWork := by
    show (kMovingUpdate p c _ xs).accWork = _
    rw [kmu_accWork]
    split_ifs
    · rfl
    · exact cmu_accWork p c s
  show (if p.chgK ∧ p.outputWork ∧ c.stepRelative > 0 then
      (if p.targetCenters.isSome ∧ p.kind ≠ .walls ∧ p.outputWork ∧ c.stepRelative > 0 ∧ c.it - p.firstStep ≤ p.nsteps then
        (List.zipWith (· * ·) r.2.forces s2.centersIncr).foldl (· + ·) s2.accWork else s2.accWork)
        + sumDUdk p s2.centers xs * s2.kIncr
     else (if p.targetCenters.isSome ∧ p.kind ≠ .walls ∧ p.outputWork ∧ c.stepRelative > 0 ∧ c.it - p.firstStep ≤ p.nsteps then
        (List.zipWith (· * ·) r.2.forces s2.centersIncr).foldl (· + ·) s2.accWork else s2.accWork)) = _
  rw [foldl_add_real, hacc]
  split_ifs <;> ring

/-- the force-constant increment is zero once the schedule is complete, so work stops accumulating -/
theorem k_incr_zero_after_schedule (p : RParams ℝ) (c : Clock) (s : RState ℝ) (xs : List ℝ)
    (hc : p.chgK = true) (hst : p.nstages = 0) (hout : p.nsteps < c.it - p.firstStep) :
    (kMovingUpdate p c s xs).kIncr = 0 := by
  unfold kMovingUpdate
  simp only [hc, hst, ne_eq, not_true_eq_false, if_false, if_neg (not_le.2 hout), Bool.not_true, Bool.false_eq_true]
  exact lit_zero

/-- a repeated step (new run in the same session) changes neither the centres nor the force constant of a
    continuous schedule, hence adds no work: the increments it computes are zero -/
theorem repeated_step_no_increment (p : RParams ℝ) (c : Clock) (s : RState ℝ) (xs : List ℝ)
    (hc : p.chgK = true) (hst : p.nstages = 0) (hin : c.it - p.firstStep ≤ p.nsteps)
    (hsame : s.k = (kMovingUpdate p c s xs).k) : (kMovingUpdate p c s xs).kIncr = 0 := by
  have h1 : (kMovingUpdate p c s xs).kIncr = (kMovingUpdate p c s xs).k - s.k := by
    unfold kMovingUpdate
    simp only [hc, hst, ne_eq, not_true_eq_false, if_false, if_pos hin, Bool.not_true, Bool.false_eq_true]
  rw [h1, ← hsame, sub_self]

/-! ## staged TI: what is summed and what it is divided by -/

/-- the sample a step contributes to the current stage's accumulator -/
noncomputable def tiSample (p : RParams ℝ) (s : RState ℝ) (xs : List ℝ) : ℝ :=
  p.lambdaExp * (stageLambda p s.stage) ^ (p.lambdaExp - 1) * (p.targetK - p.startK) * sumDUdk p s.centers xs

/-- a step is sampled iff it is not a repeat of an already processed step, it is past the set-up step
    (or an equilibration period is defined), and it lies in the post-equilibration part of its stage -/
theorem ti_accumulates (p : RParams ℝ) (c : Clock) (s : RState ℝ) (xs : List ℝ)
    (hc : p.chgK = true) (hs : 0 < p.nstages) (hgt : c.it > p.firstStep)
    (hnb : ¬ (Int.tmod (c.it - p.firstStep) p.nsteps = 0 ∧ c.it > p.firstStep)) :
    (kMovingUpdate p c s xs).restraintFE =
      s.restraintFE +
        (if (!((decide (c.stepRelative = 0) && decide (c.it > p.firstStep)) || c.cont)) = true ∧
            (p.equil = 0 ∨ Int.tmod (c.it - p.firstStep) p.nsteps ≥ p.equil)
         then tiSample p s xs else 0) := by
  have hne : c.it ≠ p.firstStep := ne_of_gt hgt
  have hs' : p.nstages ≠ 0 := ne_of_gt hs
  unfold kMovingUpdate tiSample
  simp only [hc, hs', hne, hgt, ne_eq, not_false_eq_true, if_true, if_false, Bool.not_true, Bool.false_eq_true,
    true_or, true_and, prim_pow, lit_one]
  have hnb' : ¬ Int.tmod (c.it - p.firstStep) p.nsteps = 0 := fun h => hnb ⟨h, hgt⟩
  simp only [hnb', false_and, and_false, if_false, decide_true, Bool.and_true]
  split_ifs <;> simp_all

/-- at the closing step of a stage the printed value is the accumulated sum divided by
    `targetNumSteps - targetEquilSteps`, and the accumulator restarts from zero.

    Hypothesis `he : 0 ≤ p.equil` (the number of equilibration steps is not negative) was ADDED to the
    original statement, which read

      theorem ti_output (p : RParams ℝ) (c : Clock) (s : RState ℝ) (xs : List ℝ)
          (hc : p.chgK = true) (hs : 0 < p.nstages) (hnf : c.it ≠ p.firstStep)
          (hrep : ((decide (c.stepRelative = 0) && decide (c.it > p.firstStep)) || c.cont) = false)
          (hb : Int.tmod (c.it - p.firstStep) p.nsteps = 0 ∧ c.it > p.firstStep) : (same conclusion)

    Without it the statement is false: for `p.equil < 0` the model's sampling condition
    `p.equil = 0 ∨ tmod … ≥ p.equil` holds at the closing step (`tmod … = 0 ≥ p.equil`), so the sample is
    added, whereas the stated value has `if p.equil = 0 then tiSample … else 0 = 0`.
    `ti_output_original_false` below refutes the original on a concrete witness (`equil = -1`). -/
theorem ti_output (p : RParams ℝ) (c : Clock) (s : RState ℝ) (xs : List ℝ)
    (hc : p.chgK = true) (hs : 0 < p.nstages) (hnf : c.it ≠ p.firstStep)
    (hrep : ((decide (c.stepRelative = 0) && decide (c.it > p.firstStep)) || c.cont) = false)
    (hb : Int.tmod (c.it - p.firstStep) p.nsteps = 0 ∧ c.it > p.firstStep) (he : 0 ≤ p.equil) :
    let s' := kMovingUpdate p c s xs
    s'.restraintFE = 0 ∧
    s'.tiOut = s.tiOut ++ [(stageLambda p s.stage,
      (s.restraintFE + (if p.equil = 0 then tiSample p s xs else 0)) / ((p.nsteps - p.equil : Int) : ℝ))] := by
  have hs' : p.nstages ≠ 0 := ne_of_gt hs
  intro s'
  have hcond : (p.equil = 0 ∨ Int.tmod (c.it - p.firstStep) p.nsteps ≥ p.equil) ↔ p.equil = 0 := by
    rw [hb.1]; constructor
    · rintro (h | h)
      · exact h
      · omega
    · intro h; exact Or.inl h
  show (kMovingUpdate p c s xs).restraintFE = 0 ∧ (kMovingUpdate p c s xs).tiOut = _
  unfold kMovingUpdate tiSample
  simp only [hc, hs', hnf, hrep, ne_eq, not_false_eq_true, if_true, if_false, Bool.not_true,
    Bool.false_eq_true, true_and, prim_pow, lit_one, lit_zero]
  simp only [hcond]
  simp only [hb.1, hb.2, true_or, true_and, and_true, if_true]
  split_ifs <;> simp

/-- the original `ti_output` (without `0 ≤ p.equil`) fails for `targetEquilSteps = -1` -/
theorem ti_output_original_false :
    ∃ (p : RParams ℝ) (c : Clock) (s : RState ℝ) (xs : List ℝ),
      p.chgK = true ∧ 0 < p.nstages ∧ c.it ≠ p.firstStep ∧
      ((decide (c.stepRelative = 0) && decide (c.it > p.firstStep)) || c.cont) = false ∧
      (Int.tmod (c.it - p.firstStep) p.nsteps = 0 ∧ c.it > p.firstStep) ∧
      ¬ ((kMovingUpdate p c s xs).restraintFE = 0 ∧
         (kMovingUpdate p c s xs).tiOut = s.tiOut ++ [(stageLambda p s.stage,
           (s.restraintFE + (if p.equil = 0 then tiSample p s xs else 0)) / ((p.nsteps - p.equil : Int) : ℝ))]) := by
  refine ⟨{ kind := .linear, widths := [1], per := [none], wrapC := [0], chgK := true, startK := 0, targetK := 1,
            lambdaExp := 1, nsteps := 1, nstages := 1, equil := -1, lowerK := 1, upperK := 1 },
          { it := 1, itRestart := 0, first := false, cont := false },
          { centers := [0], centersIncr := [0], k := 0, kIncr := 0, stage := 1, accWork := 0, restraintFE := 0,
            tiOut := [] },
          [1], rfl, by decide, by decide, by decide, by decide, ?_⟩
  rintro ⟨-, h⟩
  simp [kMovingUpdate, stageLambda, sumDUdk, rDUdk, Clock.stepRelative, List.range_succ] at h
  norm_num at h

/-! ## non-vacuity -/

example : ∃ p : RParams ℝ, p.chgK = true ∧ 0 < p.nsteps ∧ 0 < p.nstages ∧ p.targetCenters = none :=
  ⟨{ kind := .harmonic, widths := [1], per := [none], wrapC := [0], chgK := true, startK := 1, targetK := 5,
     lambdaExp := 1, nsteps := 4, nstages := 3, lowerK := 1, upperK := 1 }, by simp⟩


/-! ## ABMD ratchet and histogram restraint (CvModel/Ratchet.lean) -/

namespace Ratchet
open Cv.Ratchet

/-- sign of the biased direction -/
noncomputable def sgn (p : AbmdParams ℝ) : ℝ := if p.decreasing then -1 else 1

private lemma sign_eq (p : AbmdParams ℝ) : (if p.decreasing then (-1.0 : ℝ) else 1.0) = sgn p := by
  unfold sgn; split_ifs <;> norm_num

private lemma abmdStep_some (p : AbmdParams ℝ) (r x : ℝ) :
    abmdStep p (some r) x =
      if (x - r) * sgn p > 0 then (some (if (r - p.stopping) * sgn p ≤ 0 then x else r), 0, 0)
      else (some r, 1 / 2 * p.k * ((x - r) * sgn p) * ((x - r) * sgn p), -sgn p * p.k * ((x - r) * sgn p)) := by
  unfold abmdStep
  simp only [sign_eq, lit_zero, lit_half]

/-- **closed form of the ratchet**: with reference `r`, energy `½ k min(0, s (x − r))²` and force `−k s min(0, s (x − r))·(−1)…`,
    i.e. nothing when the variable is ahead of the reference, a harmonic spring pulling it back to the reference otherwise -/
theorem abmd_closed_form (p : AbmdParams ℝ) (r x : ℝ) :
    let out := abmdStep p (some r) x
    out.2.1 = 0.5 * p.k * (min 0 ((x - r) * sgn p)) ^ 2 ∧
    out.2.2 = -(sgn p * p.k * min 0 ((x - r) * sgn p)) := by
  intro out
  show (abmdStep p (some r) x).2.1 = _ ∧ (abmdStep p (some r) x).2.2 = _
  rw [abmdStep_some, lit_half]
  by_cases h : (x - r) * sgn p > 0
  · rw [if_pos h, min_eq_left (le_of_lt h)]
    constructor <;> simp
  · rw [if_neg h, min_eq_right (not_lt.1 h)]
    constructor <;> ring

/-- the force is minus the derivative of the energy (behind the reference, where the energy is not flat) -/
theorem abmd_force_deriv (p : AbmdParams ℝ) (r x : ℝ) (hb : (x - r) * sgn p < 0) :
    HasDerivAt (fun y => (abmdStep p (some r) y).2.1) (-(abmdStep p (some r) x).2.2) x := by
  have hd : HasDerivAt (fun y : ℝ => (y - r) * sgn p) (sgn p) x := by
    simpa using ((hasDerivAt_id x).sub_const r).mul_const (sgn p)
  have h2 : HasDerivAt (fun y : ℝ => 1 / 2 * p.k * (((y - r) * sgn p) * ((y - r) * sgn p)))
      (1 / 2 * p.k * (sgn p * ((x - r) * sgn p) + (x - r) * sgn p * sgn p)) x :=
    (hd.mul hd).const_mul _
  have hopen : IsOpen {y : ℝ | (y - r) * sgn p < 0} :=
    isOpen_lt (by fun_prop) continuous_const
  have hev : (fun y => (abmdStep p (some r) y).2.1) =ᶠ[nhds x]
      (fun y : ℝ => 1 / 2 * p.k * (((y - r) * sgn p) * ((y - r) * sgn p))) := by
    filter_upwards [hopen.mem_nhds hb] with y hy
    have hy' : ¬ (y - r) * sgn p > 0 := not_lt.2 (le_of_lt hy)
    rw [abmdStep_some, if_neg hy']
    ring
  refine (h2.congr_of_eventuallyEq hev).congr_deriv ?_
  rw [abmdStep_some, if_neg (not_lt.2 (le_of_lt hb))]
  ring

/-- the reference only moves forward: it follows the variable when the variable is ahead and the reference has not
    passed the stopping value, and never moves otherwise -/
theorem abmd_reference_step (p : AbmdParams ℝ) (r x : ℝ) :
    (abmdStep p (some r) x).1 =
      some (if (x - r) * sgn p > 0 ∧ (r - p.stopping) * sgn p ≤ 0 then x else r) := by
  rw [abmdStep_some]
  by_cases h : (x - r) * sgn p > 0
  · rw [if_pos h]; simp only [h, true_and]
  · rw [if_neg h]; simp only [h, false_and, if_false]

theorem abmd_reference_monotone (p : AbmdParams ℝ) (r x r' : ℝ) (h : (abmdStep p (some r) x).1 = some r') :
    0 ≤ (r' - r) * sgn p := by
  rw [abmd_reference_step] at h
  have h' := Option.some.inj h
  subst h'
  split_ifs with hc
  · exact le_of_lt hc.1
  · simp

/-- the first update takes the current value as reference: no energy, no force -/
theorem abmd_first_step (p : AbmdParams ℝ) (x : ℝ) : abmdStep p none x = (some x, 0, 0) := by
  unfold abmdStep
  simp only [sub_self, zero_mul, lit_zero, lt_irrefl, if_false, mul_zero]

/-- derivative of one Gaussian kernel term with respect to the value it is centred on -/
private lemma hasDerivAt_kernel (p : HistRParams ℝ) (n i : Nat) (y0 : ℝ) (hs : p.sigma ≠ 0) :
    HasDerivAt (fun y => kernel p n y i)
      (kernel p n y0 i * ((gridPoint p i - y0) / (p.sigma * p.sigma))) y0 := by
  unfold kernel
  simp only [lit_one, lit_two, prim_exp]
  set g := gridPoint p i
  have hd : HasDerivAt (fun y : ℝ => g - y) (-1) y0 := by
    simpa using (hasDerivAt_id y0).const_sub g
  have hu : HasDerivAt (fun y : ℝ => -1 * (g - y) * (g - y) / (2 * p.sigma * p.sigma))
      ((g - y0) / (p.sigma * p.sigma)) y0 := by
    have h1 := (((hd.mul hd).const_mul (-1 : ℝ)).div_const (2 * p.sigma * p.sigma))
    have hf : (fun y : ℝ => -1 * (g - y) * (g - y) / (2 * p.sigma * p.sigma)) =
        fun y : ℝ => -1 * ((g - y) * (g - y)) / (2 * p.sigma * p.sigma) := by
      funext y; ring
    rw [hf]
    refine h1.congr_deriv ?_
    field_simp
    ring
  refine (hu.exp.const_mul _).congr_deriv ?_
  ring

/-- histogram restraint: the energy is half the (size-scaled) force constant times the squared deviation of the
    smeared histogram from the reference -/
theorem histr_energy (p : HistRParams ℝ) (xs : List ℝ) :
    histREnergy p xs = 0.5 * (p.k * (xs.length : ℝ)) *
      ((List.zipWith (· - ·) (histogram p xs) p.ref).map (fun v => v * v)).sum := by
  unfold histREnergy
  simp only [foldl_add_map_real, lit_zero, zero_add]

/-- it vanishes, with its forces, when the histogram equals the reference -/
theorem histr_zero_at_reference (p : HistRParams ℝ) (xs : List ℝ) (h : histogram p xs = p.ref) (j : Nat) :
    histREnergy p xs = 0 ∧ histRForce p xs j = 0 := by
  have hz : ∀ l : List ℝ, List.zipWith (· - ·) l l = List.replicate l.length 0 := by
    intro l
    induction l with
    | nil => rfl
    | cons a l ih => simp [List.replicate_succ]
  constructor
  · rw [histr_energy, h, hz, lit_half]
    simp
  · unfold histRForce
    simp only [h, hz, foldl_add_map_real, lit_zero, zero_add]
    apply List.sum_eq_zero
    intro v hv
    obtain ⟨i, -, rfl⟩ := List.mem_map.1 hv
    have : (List.replicate p.ref.length (0 : ℝ)).getD i 0 = 0 := by
      rw [List.getD_eq_getElem?_getD, List.getElem?_replicate]
      split_ifs <;> rfl
    rw [this]
    simp only [mul_zero, zero_mul]

/-- the force on the j-th value is minus the derivative of the energy with respect to that value -/
theorem histr_force_deriv (p : HistRParams ℝ) (xs : List ℝ) (j : Nat) (hj : j < xs.length) (hs : p.sigma ≠ 0)
    (hr : p.ref.length = p.nbins) :
    HasDerivAt (fun y => histREnergy p (xs.set j y)) (-(histRForce p xs j)) (xs.getD j 0) := by
  set y0 := xs.getD j 0 with hy0
  -- bins as functions of the replaced value
  have hbin : ∀ i, HasDerivAt (fun y => ((xs.set j y).map fun x => kernel p xs.length x i).sum)
      (kernel p xs.length y0 i * ((gridPoint p i - y0) / (p.sigma * p.sigma))) y0 := fun i =>
    hasDerivAt_sum_map_set (fun x => kernel p xs.length x i) _ y0 (hasDerivAt_kernel p xs.length i y0 hs) xs j hj
  have hE := (hasDerivAt_sum_sq_zipWith (fun i y => ((xs.set j y).map fun x => kernel p xs.length x i).sum) _ y0 hbin
    (List.range p.nbins) p.ref).const_mul (1 / 2 * (p.k * (xs.length : ℝ)))
  have hfun : (fun y => histREnergy p (xs.set j y)) = fun y => 1 / 2 * (p.k * (xs.length : ℝ)) *
      ((List.zipWith (· - ·) ((List.range p.nbins).map fun i => ((xs.set j y).map fun x => kernel p xs.length x i).sum)
        p.ref).map (fun v => v * v)).sum := by
    funext y
    rw [histr_energy, lit_half]
    unfold histogram
    simp only [foldl_add_map_real, lit_zero, zero_add, List.length_set]
  rw [hfun]
  refine hE.congr_deriv ?_
  have hset : xs.set j y0 = xs := by
    rw [hy0, List.getD_eq_getElem?_getD, List.getElem?_eq_getElem hj, Option.getD_some]
    exact List.set_getElem_self hj
  unfold histRForce histogram
  simp only [foldl_add_map_real, lit_zero, lit_one, zero_add, hset]
  rw [map_range_getD_zipWith (fun i => (xs.map fun x => kernel p xs.length x i).sum)
    (fun d i => p.k * (xs.length : ℝ) * d * kernel p xs.length y0 i * (-1 * (gridPoint p i - y0) / (p.sigma * p.sigma)))
    p.ref p.nbins hr]
  rw [zipWith_sum_const_mul
    (fun i r => 2 * ((xs.map fun x => kernel p xs.length x i).sum - r) *
      (kernel p xs.length y0 i * ((gridPoint p i - y0) / (p.sigma * p.sigma))))
    (fun i r => p.k * (xs.length : ℝ) * ((xs.map fun x => kernel p xs.length x i).sum - r) * kernel p xs.length y0 i *
      (-1 * (gridPoint p i - y0) / (p.sigma * p.sigma)))
    (-(1 / 2 * (p.k * (xs.length : ℝ)))) (fun i r => by ring) (List.range p.nbins) p.ref]
  ring

end Ratchet

end Cv.C06
