import CvProps.RealInst
import CvProps.C08Lemmas
import CvProps.C08b
/-!
# C08 — bias contributions superpose; multiple-time-step scaling conserves impulse

Property theorems about the step machine `CvModel/Module.lean` (`modStep`) at `α := ℝ`.
-/
open Cv

namespace Cv.C08

/-- the same system with another list of biases -/
def withBiases (m : Sys ℝ) (bs : List (String × Bias ℝ)) : Sys ℝ := { m with biases := bs }

/-- run a history of engine inputs, collecting the outputs -/
noncomputable def runSys (m : Sys ℝ) : List (StepIn ℝ) → Sys ℝ × List (StepOut ℝ)
  | [] => (m, [])
  | i :: is =>
    let (m1, o) := modStep m i
    let (m2, os) := runSys m1 is
    (m2, o :: os)

/-- a bias that never looks at total forces -/
def ignoresTotalForce : Bias ℝ → Bool
  | .abf _ _ _ => false
  | _ => true

theorem runSys_eq_runL (h : List (StepIn ℝ)) : ∀ m : Sys ℝ, runSys m h = runL m h := by
  induction h with
  | nil => intro m; rfl
  | cons i is ih => intro m; simp only [runSys, runL, ih]

theorem ignoresTotalForce_eq (b : Bias ℝ) : ignoresTotalForce b = noTF b := by
  cases b <;> rfl

/-! ## awake / asleep -/

theorem awake_iff (c : Clock) (n : Int) : awake c n = true ↔ (n ≤ 1 ∨ Int.tmod c.it n = 0) := by
  simp [awake]

/-- a sleeping bias is not updated and contributes neither energy nor force -/
theorem asleep_contributes_nothing (m : Sys ℝ) (i : StepIn ℝ) (name : String) (b : Bias ℝ)
    (hb : m.biases = [(name, b)]) (hs : awake (m.clock.tick i.cont) (tsfOf m name) = false) :
    (modStep m i).1.biases = [(name, b)] ∧ (modStep m i).2.energy = 0 ∧
    ∀ a, lookupF (modStep m i).2.atomF a = 0 := by
  have hU : updAt m i = [(name, (b, 0.0, []))] := by
    simp only [updAt, hb, List.map_cons, List.map_nil, updOne, hs]
    rfl
  refine ⟨?_, ?_, ?_⟩
  · rw [modStep_biases, hU]; rfl
  · rw [modStep_energy, hU]; simp only [List.map_cons, List.map_nil, List.sum_cons, List.sum_nil, add_zero, zero_lit, ite_self]
  · intro a
    rw [modStep_atomF, lookupF_atomFOf, hU]
    exact atomSum_zero _ _ _ _ (fun k => lookupF_nil k)

/-- a histogram never applies a force nor adds energy -/
theorem histogram_contributes_nothing (m : Sys ℝ) (i : StepIn ℝ) (name : String) (idx : List Nat) (g : GridDef ℝ)
    (sz : Bool) (d : List ℝ) (hb : m.biases = [(name, .hist idx g sz d)]) :
    (modStep m i).2.energy = 0 ∧ ∀ a, lookupF (modStep m i).2.atomF a = 0 := by
  obtain ⟨b', hU⟩ : ∃ b', updAt m i = [(name, (b', 0.0, []))] := by
    by_cases hs : awake (m.clock.tick i.cont) (tsfOf m name) = true
    · exact ⟨_, by simp only [updAt, hb, List.map_cons, List.map_nil, updOne, hs, biasUpdate]; rfl⟩
    · exact ⟨_, by simp only [updAt, hb, List.map_cons, List.map_nil, updOne, hs]; rfl⟩
  refine ⟨?_, ?_⟩
  · rw [modStep_energy, hU]; simp only [List.map_cons, List.map_nil, List.sum_cons, List.sum_nil, add_zero, zero_lit, ite_self]
  · intro a
    rw [modStep_atomF, lookupF_atomFOf, hU]
    exact atomSum_zero _ _ _ _ (fun k => lookupF_nil k)

/-- an ABF bias with `applyBias off` (declared non-biasing) keeps collecting samples but contributes neither energy
    nor force to what the engine receives -/
theorem applyBias_off_contributes_nothing (m : Sys ℝ) (i : StepIn ℝ) (name : String) (idx : List Nat) (p : AbfParams ℝ)
    (s : AbfState ℝ) (hb : m.biases = [(name, .abf idx p s)]) (hoff : p.applyBias = false) :
    (modStep m i).2.energy = 0 ∧ ∀ a, lookupF (modStep m i).2.atomF a = 0 := by
  obtain ⟨s', e, kvs, hU, hk⟩ := abf_off_updAt m i name idx p s hb hoff
  refine ⟨?_, ?_⟩
  · rw [modStep_energy, hU]
    simp [Bias.applies, hoff]
  · intro a
    apply atomF_zero_of_kvSum
    intro x hx k
    rw [hU, List.mem_singleton] at hx
    subst hx
    exact hk k

/-! ## superposition -/

/-- one step: energy and the force on every atom for the bias list `A ++ B` are the sums of those for `A` and for `B`
    evaluated from the same state, and each bias evolves exactly as it does in its own subset -/
theorem superpose_step (m : Sys ℝ) (A B : List (String × Bias ℝ)) (i : StepIn ℝ) :
    let rAB := modStep (withBiases m (A ++ B)) i
    let rA := modStep (withBiases m A) i
    let rB := modStep (withBiases m B) i
    rAB.2.energy = rA.2.energy + rB.2.energy ∧
    (∀ a, lookupF rAB.2.atomF a = lookupF rA.2.atomF a + lookupF rB.2.atomF a) ∧
    rAB.1.biases = rA.1.biases ++ rB.1.biases := by
  exact step_add (withBiases m (A ++ B)) (withBiases m A) (withBiases m B) i rfl rfl rfl
    (fun _ _ => rfl) (fun _ _ => rfl)

/-- whole histories: when no bias reads total forces, running `A ++ B` gives at every step the sum of running `A`
    and running `B` separately on the same trajectory -/
theorem superpose_run (m : Sys ℝ) (A B : List (String × Bias ℝ)) (h : List (StepIn ℝ))
    (hA : ∀ nb ∈ A, ignoresTotalForce nb.2 = true) (hB : ∀ nb ∈ B, ignoresTotalForce nb.2 = true) :
    let oAB := (runSys (withBiases m (A ++ B)) h).2
    let oA := (runSys (withBiases m A) h).2
    let oB := (runSys (withBiases m B) h).2
    oAB.length = h.length ∧ oA.length = h.length ∧ oB.length = h.length ∧
    ∀ t (ht : t < h.length),
      (oAB.getD t ⟨0, []⟩).energy = (oA.getD t ⟨0, []⟩).energy + (oB.getD t ⟨0, []⟩).energy ∧
      ∀ a, lookupF (oAB.getD t ⟨0, []⟩).atomF a =
           lookupF (oA.getD t ⟨0, []⟩).atomF a + lookupF (oB.getD t ⟨0, []⟩).atomF a := by
  simp only [runSys_eq_runL, runL_length, true_and]
  exact run_add h (withBiases m (A ++ B)) (withBiases m A) (withBiases m B) rfl ⟨rfl, rfl, rfl⟩ ⟨rfl, rfl, rfl⟩
    (fun nb hnb => by rw [← ignoresTotalForce_eq]; exact hA nb hnb)
    (fun nb hnb => by rw [← ignoresTotalForce_eq]; exact hB nb hnb)

/-! ## time-step factor: n times the instantaneous force on awake steps -/

/-- an awake bias with factor `n` applies `n` times the force it computes (a fixed harmonic restraint on one variable
    carried by atom `v.atom`) -/
theorem awake_scales_force (m : Sys ℝ) (i : StepIn ℝ) (name : String) (k c : ℝ) (v : CvSt ℝ)
    (hcv : m.cvs = [v]) (hb : m.biases = [(name, .harm [0] k [c])])
    (ha : awake (m.clock.tick i.cont) (tsfOf m name) = true) :
    let v' := cvUpdate m (m.clock.tick i.cont) i v
    lookupF (modStep m i).2.atomF v.atom =
      ((tsfOf m name : Int) : ℝ) * (-0.5 * k / (v.width * v.width) * dist2SGrad v.per v'.x c) := by
  intro v'
  rw [(harm_step m i name k c v hcv hb).1, if_pos ha]
  simp only [hF, v', cvUpdate_x]

/-- impulse conservation: over `n` consecutive ordinary steps starting at a multiple of `n`, with the variable held
    at the same value, a bias with factor `n` delivers the same total impulse as the same bias with factor 1 -/
theorem impulse_conserved (m : Sys ℝ) (name : String) (k c : ℝ) (v : CvSt ℝ) (n : Nat) (hn : 1 ≤ n)
    (z tfz : Nat → ℝ) (hcv : m.cvs = [v]) (hb : m.biases = [(name, .harm [0] k [c])])
    (hclock : m.clock.first = false ∧ Int.tmod (m.clock.it + 1) n = 0)
    (htsf : m.tsf = [(name, (n : Int))]) :
    let steps : List (StepIn ℝ) := List.replicate n { z := z, tfz := tfz, cont := false }
    let oN := (runSys m steps).2
    let o1 := (runSys { m with tsf := [] } steps).2
    (oN.map fun o => lookupF o.atomF v.atom).sum = (o1.map fun o => lookupF o.atomF v.atom).sum := by
  intro steps oN o1
  simp only [oN, o1, steps, runSys_eq_runL]
  have hN : tsfOf m name = n := by simp [tsfOf, htsf]
  rw [harm_run name k c v _ rfl n n m v hcv rfl hb hclock.1 hN,
    harm_run name k c v _ rfl 1 n { m with tsf := [] } v hcv rfl hb hclock.1 rfl]
  exact impulse_sums n hn m.clock.it hclock.2 _

/-! ## non-vacuity -/

example : awake { it := 6, itRestart := 0, first := false, cont := false } 3 = true ∧
          awake { it := 7, itRestart := 0, first := false, cont := false } 3 = false := by
  constructor <;> decide

end Cv.C08
