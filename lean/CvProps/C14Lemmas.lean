import CvProps.RealInst
/-! Helper lemmas for C14: lists of a fixed length as functions, the invariant of the shared-ABF event machine
(common grid, pending and local grids per walker), commuting samples, mirror reads. -/
open Cv Cv.Shared

namespace Cv.C14L

/-! ## lists of a fixed length seen as functions -/

def gv {X : Type} [Zero X] (l : List X) : Nat → X := fun i => l.getD i 0

theorem gv_ext {X : Type} [Zero X] {a b : List X} (hl : a.length = b.length) (h : gv a = gv b) : a = b := by
  apply List.ext_getElem hl
  intro i h1 h2
  have := congrFun h i
  simpa [gv, List.getD_eq_getElem?_getD, h1, h2] using this

theorem gv_replicate {X : Type} [Zero X] (n : Nat) : gv (List.replicate n (0 : X)) = 0 := by
  funext i
  simp [gv, List.getD_eq_getElem?_getD, List.getElem?_replicate]
  split <;> rfl

theorem gv_add {X : Type} [AddCommGroup X] {a b : List X} (hl : a.length = b.length) :
    gv (List.zipWith (· + ·) a b) = gv a + gv b := by
  funext i
  simp only [gv, List.getD_eq_getElem?_getD, Pi.add_apply, List.getElem?_zipWith]
  by_cases hi : i < a.length
  · have hi' : i < b.length := hl ▸ hi
    simp [List.getElem?_eq_getElem hi, List.getElem?_eq_getElem hi']
  · have hi' : ¬ i < b.length := hl ▸ hi
    simp [List.getElem?_eq_none (Nat.le_of_not_lt hi), List.getElem?_eq_none (Nat.le_of_not_lt hi')]

theorem gv_sub {X : Type} [AddCommGroup X] {a b : List X} (hl : a.length = b.length) :
    gv (List.zipWith (· - ·) a b) = gv a - gv b := by
  funext i
  simp only [gv, List.getD_eq_getElem?_getD, Pi.sub_apply, List.getElem?_zipWith]
  by_cases hi : i < a.length
  · have hi' : i < b.length := hl ▸ hi
    simp [List.getElem?_eq_getElem hi, List.getElem?_eq_getElem hi']
  · have hi' : ¬ i < b.length := hl ▸ hi
    simp [List.getElem?_eq_none (Nat.le_of_not_lt hi), List.getElem?_eq_none (Nat.le_of_not_lt hi')]

theorem gv_modify {X : Type} [AddCommGroup X] {a : List X} {b : Nat} (hb : b < a.length) (d : X) :
    gv (a.modify b (· + d)) = gv a + Pi.single b d := by
  funext i
  simp only [gv, List.getD_eq_getElem?_getD, Pi.add_apply, List.getElem?_modify]
  by_cases hi : b = i
  · subst hi
    simp [List.getElem?_eq_getElem hb]
  · simp [hi]


/-! ## grids: (counts, gradients) as a pair of functions -/

abbrev G := (Nat → Int) × (Nat → ℝ)

/-- the contribution of one sample -/
noncomputable def sg (bf : Nat × ℝ) : G := (Pi.single bf.1 1, Pi.single bf.1 (-bf.2))

/-- the sum of the contributions of a list of samples -/
noncomputable def GS (l : List (Nat × ℝ)) : G := (l.map sg).sum

noncomputable def view (s : List Int) (g : List ℝ) : G := (gv s, gv g)

theorem view_ext {s s' : List Int} {g g' : List ℝ} (hs : s.length = s'.length) (hg : g.length = g'.length)
    (h : view s g = view s' g') : (s, g) = (s', g') := by
  have h1 := congrArg Prod.fst h
  have h2 := congrArg Prod.snd h
  simp only [view] at h1 h2
  rw [gv_ext hs h1, gv_ext hg h2]

theorem view_zero (nb : Nat) : view (List.replicate nb 0) (List.replicate nb 0.0) = 0 := by
  have h0 : (0.0 : ℝ) = 0 := by norm_num
  rw [h0]
  simp only [view, gv_replicate]
  rfl

theorem view_sample {s : List Int} {g : List ℝ} {b : Nat} (hs : b < s.length) (hg : b < g.length) (f : ℝ) :
    view (s.modify b (· + 1)) (g.modify b (· - f)) = view s g + sg (b, f) := by
  have : (fun x : ℝ => x - f) = (· + (-f)) := by funext x; ring
  simp only [view, sg]
  rw [this, gv_modify hs, gv_modify hg]
  rfl

theorem view_vadd {s s' : List Int} {g g' : List ℝ} (hs : s.length = s'.length) (hg : g.length = g'.length) :
    view (vaddI s s') (Shared.vadd g g') = view s g + view s' g' := by
  simp only [view, vaddI, Shared.vadd]
  rw [gv_add hs]
  have := gv_add hg
  rw [this]
  rfl

theorem view_vsub {s s' : List Int} {g g' : List ℝ} (hs : s.length = s'.length) (hg : g.length = g'.length) :
    view (vsubI s s') (Shared.vsub g g') = view s g - view s' g' := by
  simp only [view, vsubI, Shared.vsub]
  rw [gv_sub hs]
  have := gv_sub hg
  rw [this]
  rfl

theorem GS_nil : GS [] = 0 := rfl
theorem GS_append (a b : List (Nat × ℝ)) : GS (a ++ b) = GS a + GS b := by simp [GS]
theorem GS_cons (x : Nat × ℝ) (a : List (Nat × ℝ)) : GS (x :: a) = sg x + GS a := by simp [GS]
theorem GS_perm {a b : List (Nat × ℝ)} (h : a.Perm b) : GS a = GS b := (h.map sg).sum_eq

theorem tally_foldl (nb : Nat) (l : List (Nat × ℝ)) (hl : ∀ bf ∈ l, bf.1 < nb) (s : List Int) (g : List ℝ)
    (hs : s.length = nb) (hg : g.length = nb) :
    let r := l.foldl (fun (t : List Int × List ℝ) bf => (t.1.modify bf.1 (· + 1), t.2.modify bf.1 (· - bf.2))) (s, g)
    r.1.length = nb ∧ r.2.length = nb ∧ view r.1 r.2 = view s g + GS l := by
  induction l generalizing s g with
  | nil => simp [GS_nil, hs, hg]
  | cons x l ih =>
    have hx : x.1 < nb := hl x (by simp)
    have := ih (fun bf h => hl bf (by simp [h])) (s.modify x.1 (· + 1)) (g.modify x.1 (· - x.2))
      (by simp [hs]) (by simp [hg])
    simp only [List.foldl_cons]
    refine ⟨this.1, this.2.1, ?_⟩
    rw [this.2.2, view_sample (hs ▸ hx) (hg ▸ hx), GS_cons, add_assoc]

theorem tally_spec (nb : Nat) (l : List (Nat × ℝ)) (hl : ∀ bf ∈ l, bf.1 < nb) :
    (tally nb l).1.length = nb ∧ (tally nb l).2.length = nb ∧ view (tally nb l).1 (tally nb l).2 = GS l := by
  have := tally_foldl nb l hl (List.replicate nb 0) (List.replicate nb 0.0) (by simp) (by simp)
  rw [view_zero, zero_add] at this
  exact this


/-! ## walkers -/

structure WF (nb : Nat) (w : Walker ℝ) : Prop where
  h1 : w.samples.length = nb
  h2 : w.grad.length = nb
  h3 : w.lastS.length = nb
  h4 : w.lastG.length = nb
  h5 : w.locS.length = nb
  h6 : w.locG.length = nb

noncomputable def cur (w : Walker ℝ) : G := view w.samples w.grad
noncomputable def lst (w : Walker ℝ) : G := view w.lastS w.lastG
noncomputable def loc (w : Walker ℝ) : G := view w.locS w.locG

/-- every walker's snapshot is the common grid `C`, its grids in use are `C` plus its pending samples `P k`, its local
    grids are `L k` -/
structure ShInv (n nb : Nat) (ws : List (Walker ℝ)) (C : G) (P L : Nat → G) : Prop where
  len : ws.length = n
  wf : ∀ (k : Nat) (w : Walker ℝ), ws[k]? = some w → WF nb w
  hcur : ∀ (k : Nat) (w : Walker ℝ), ws[k]? = some w → cur w = C + P k
  hlst : ∀ (k : Nat) (w : Walker ℝ), ws[k]? = some w → lst w = C
  hloc : ∀ (k : Nat) (w : Walker ℝ), ws[k]? = some w → loc w = L k

theorem inv_init (n nb : Nat) : ShInv n nb (initAll n nb) 0 0 0 := by
  have key : ∀ (k : Nat) (w : Walker ℝ), (initAll n nb : List (Walker ℝ))[k]? = some w → w = Walker.init nb := by
    intro k w h
    simp only [initAll, List.getElem?_replicate] at h
    split at h
    · exact (Option.some.inj h).symm
    · cases h
  refine ⟨by simp [initAll], ?_, ?_, ?_, ?_⟩
  · intro k w h; rw [key k w h]; constructor <;> simp [Walker.init]
  · intro k w h; rw [key k w h]; simp [cur, Walker.init, view_zero]
  · intro k w h; rw [key k w h]; simp [lst, Walker.init, view_zero]
  · intro k w h; rw [key k w h]; simp [loc, Walker.init, view_zero]

theorem inv_sample {n nb : Nat} {ws : List (Walker ℝ)} {C : G} {P L : Nat → G} (h : ShInv n nb ws C P L)
    (v b : Nat) (f : ℝ) (hb : b < nb) :
    ShInv n nb (apply ws (.sample v b f)) C (Function.update P v (P v + sg (b, f))) L := by
  have key : ∀ (k : Nat) (w' : Walker ℝ), (apply ws (.sample v b f))[k]? = some w' →
      (k ≠ v ∧ ws[k]? = some w') ∨ (k = v ∧ ∃ w, ws[k]? = some w ∧ w' = w.sample b f) := by
    intro k w' hk
    simp only [apply, List.getElem?_modify] at hk
    cases hw : ws[k]? with
    | none => rw [hw] at hk; cases hk
    | some w =>
      rw [hw] at hk
      have hk' := Option.some.inj hk
      dsimp only at hk'
      by_cases hv : v = k
      · right
        rw [if_pos hv] at hk'
        exact ⟨hv.symm, w, rfl, hk'.symm⟩
      · left
        rw [if_neg hv] at hk'
        exact ⟨fun h => hv h.symm, by rw [hk']⟩
  refine ⟨by simp [apply, h.len], ?_, ?_, ?_, ?_⟩
  · intro k w' hk
    rcases key k w' hk with ⟨_, hk'⟩ | ⟨_, w, hw, rfl⟩
    · exact h.wf k w' hk'
    · have := h.wf k w hw
      constructor <;> simp [Walker.sample, this.h1, this.h2, this.h3, this.h4, this.h5, this.h6]
  · intro k w' hk
    rcases key k w' hk with ⟨hne, hk'⟩ | ⟨rfl, w, hw, rfl⟩
    · rw [Function.update_of_ne hne]; exact h.hcur k w' hk'
    · have wf := h.wf k w hw
      rw [Function.update_self, ← add_assoc, ← h.hcur k w hw]
      simp only [cur, Walker.sample]
      exact view_sample (wf.h1 ▸ hb) (wf.h2 ▸ hb) f
  · intro k w' hk
    rcases key k w' hk with ⟨_, hk'⟩ | ⟨_, w, hw, rfl⟩
    · exact h.hlst k w' hk'
    · exact h.hlst k w hw
  · intro k w' hk
    rcases key k w' hk with ⟨_, hk'⟩ | ⟨_, w, hw, rfl⟩
    · exact h.hloc k w' hk'
    · exact h.hloc k w hw

theorem list_sum_eq_range {W M : Type} [AddCommMonoid M] (l : List W) (f : W → M) (g : ℕ → M)
    (h : ∀ i w, l[i]? = some w → f w = g i) : (l.map f).sum = ∑ i ∈ Finset.range l.length, g i := by
  induction l generalizing g with
  | nil => simp
  | cons x l ih =>
    rw [List.map_cons, List.sum_cons, List.length_cons, Finset.sum_range_succ', add_comm]
    rw [ih (fun i => g (i + 1)) (fun i w hw => h (i + 1) w (by simpa using hw))]
    rw [h 0 x (by simp)]

theorem tot_spec (nb : Nat) (rest : List (Walker ℝ)) (hwf : ∀ w ∈ rest, WF nb w) (s : List Int) (g : List ℝ)
    (hs : s.length = nb) (hg : g.length = nb) :
    (rest.foldl (fun t w => vaddI t w.deltaS) s).length = nb ∧
    (rest.foldl (fun t w => Shared.vadd t w.deltaG) g).length = nb ∧
    view (rest.foldl (fun t w => vaddI t w.deltaS) s) (rest.foldl (fun t w => Shared.vadd t w.deltaG) g)
      = view s g + (rest.map (fun w => cur w - lst w)).sum := by
  induction rest generalizing s g with
  | nil => simp [hs, hg]
  | cons w r ih =>
    have wf := hwf w (by simp)
    have hdS : w.deltaS.length = nb := by simp [Walker.deltaS, vsubI, wf.h1, wf.h3]
    have hdG : w.deltaG.length = nb := by simp [Walker.deltaG, Shared.vsub, wf.h2, wf.h4]
    have := ih (fun w' h => hwf w' (by simp [h])) (vaddI s w.deltaS) (Shared.vadd g w.deltaG)
      (by simp [vaddI, hs, hdS]) (by simp [Shared.vadd, hg, hdG])
    simp only [List.foldl_cons]
    refine ⟨this.1, this.2.1, ?_⟩
    rw [this.2.2, view_vadd (hs.trans hdS.symm) (hg.trans hdG.symm), List.map_cons, List.sum_cons, add_assoc]
    congr 2
    simp only [Walker.deltaS, Walker.deltaG, cur, lst]
    exact view_vsub (wf.h1.trans wf.h3.symm) (wf.h2.trans wf.h4.symm)

theorem inv_exchange {n nb : Nat} {ws : List (Walker ℝ)} {C : G} {P L : Nat → G} (h : ShInv n nb ws C P L) :
    ShInv n nb (exchange ws) (C + ∑ k ∈ Finset.range n, P k) 0 (fun k => L k + P k) := by
  cases ws with
  | nil =>
    have hn : n = 0 := by simpa using h.len.symm
    refine ⟨by simp [exchange, hn], ?_, ?_, ?_, ?_⟩ <;> intro k w hk <;> simp [exchange] at hk
  | cons w0 rest =>
    have hw0 := h.wf 0 w0 (by simp)
    have tot := tot_spec nb rest (fun w hw => by
      obtain ⟨i, hi⟩ := List.mem_iff_getElem?.1 hw
      exact h.wf (i + 1) w (by simpa using hi)) w0.samples w0.grad hw0.h1 hw0.h2
    have hsum : (rest.map (fun w => cur w - lst w)).sum = ∑ i ∈ Finset.range rest.length, P (i + 1) := by
      apply list_sum_eq_range
      intro i w hw
      have hw' : (w0 :: rest)[i + 1]? = some w := by simpa using hw
      rw [h.hcur _ _ hw', h.hlst _ _ hw']; abel
    have htot : view (rest.foldl (fun t w => vaddI t w.deltaS) w0.samples)
        (rest.foldl (fun t w => Shared.vadd t w.deltaG) w0.grad) = C + ∑ k ∈ Finset.range n, P k := by
      rw [tot.2.2, hsum, ← h.len, List.length_cons, Finset.sum_range_succ']
      have : view w0.samples w0.grad = C + P 0 := h.hcur 0 w0 (by simp)
      rw [this]; abel
    have key : ∀ (k : Nat) (w' : Walker ℝ), (exchange (w0 :: rest))[k]? = some w' → ∃ w, (w0 :: rest)[k]? = some w ∧
        w' = Walker.mk (rest.foldl (fun t w => vaddI t w.deltaS) w0.samples)
               (rest.foldl (fun t w => Shared.vadd t w.deltaG) w0.grad)
               (rest.foldl (fun t w => vaddI t w.deltaS) w0.samples)
               (rest.foldl (fun t w => Shared.vadd t w.deltaG) w0.grad)
               (vaddI w.locS w.deltaS) (Shared.vadd w.locG w.deltaG) := by
      intro k w' hk
      simp only [exchange, List.getElem?_map] at hk
      cases hw : (w0 :: rest)[k]? with
      | none => rw [hw] at hk; cases hk
      | some w => rw [hw] at hk; exact ⟨w, rfl, (Option.some.inj hk).symm⟩
    refine ⟨by simp [exchange, ← h.len], ?_, ?_, ?_, ?_⟩
    · intro k w' hk
      obtain ⟨w, hw, rfl⟩ := key k w' hk
      have wf := h.wf k w hw
      exact ⟨tot.1, tot.2.1, tot.1, tot.2.1,
        by simp [vaddI, Walker.deltaS, vsubI, wf.h1, wf.h3, wf.h5],
        by simp [Shared.vadd, Walker.deltaG, Shared.vsub, wf.h2, wf.h4, wf.h6]⟩
    · intro k w' hk
      obtain ⟨w, hw, rfl⟩ := key k w' hk
      simp only [cur, Pi.zero_apply, add_zero]
      exact htot
    · intro k w' hk
      obtain ⟨w, hw, rfl⟩ := key k w' hk
      simp only [lst]
      exact htot
    · intro k w' hk
      obtain ⟨w, hw, rfl⟩ := key k w' hk
      have wf := h.wf k w hw
      simp only [loc]
      rw [view_vadd, ← h.hloc k w hw]
      · congr 1
        have : view w.deltaS w.deltaG = cur w - lst w := by
          simp only [Walker.deltaS, Walker.deltaG, cur, lst]
          exact view_vsub (wf.h1.trans wf.h3.symm) (wf.h2.trans wf.h4.symm)
        rw [this, h.hcur k w hw, h.hlst k w hw]; abel
      · simp [Walker.deltaS, vsubI, wf.h1, wf.h3, wf.h5]
      · simp [Walker.deltaG, Shared.vsub, wf.h2, wf.h4, wf.h6]


/-! ## histories -/

theorem run_append (ws : List (Walker ℝ)) (a b : List (Ev ℝ)) : run ws (a ++ b) = run (run ws a) b := by
  simp [run, List.foldl_append]

theorem run_snoc (ws : List (Walker ℝ)) (a : List (Ev ℝ)) (e : Ev ℝ) : run ws (a ++ [e]) = apply (run ws a) e := by
  simp [run, List.foldl_append]

theorem samplesOf_append (w : Option Nat) (a b : List (Ev ℝ)) :
    samplesOf w (a ++ b) = samplesOf w a ++ samplesOf w b := by
  induction a with
  | nil => simp [samplesOf]
  | cons e a ih =>
    cases e with
    | sample v bin f =>
      simp only [List.cons_append, samplesOf]
      split <;> simp [ih]
    | exchange => simpa [samplesOf] using ih
    | restart v => simpa [samplesOf] using ih

theorem samplesOf_bins (n nb : Nat) (w : Option Nat) (evs : List (Ev ℝ))
    (hok : ∀ v b f, Ev.sample v b f ∈ evs → v < n ∧ b < nb) : ∀ bf ∈ samplesOf w evs, bf.1 < nb := by
  induction evs with
  | nil => simp [samplesOf]
  | cons e evs ih =>
    have ih' := ih (fun v b f h => hok v b f (by simp [h]))
    cases e with
    | sample v bin f =>
      have := (hok v bin f (by simp)).2
      simp only [samplesOf]
      split
      · intro bf hbf
        rcases List.mem_cons.1 hbf with rfl | h
        · exact this
        · exact ih' bf h
      · exact ih'
    | exchange => simpa [samplesOf] using ih'
    | restart v => simpa [samplesOf] using ih'

/-- the samples of all walkers are the samples of each walker, each once -/
theorem sum_own (n nb : Nat) (evs : List (Ev ℝ)) (hok : ∀ v b f, Ev.sample v b f ∈ evs → v < n ∧ b < nb) :
    ∑ k ∈ Finset.range n, GS (samplesOf (some k) evs) = GS (samplesOf none evs) := by
  induction evs with
  | nil => simp [samplesOf, GS_nil]
  | cons e evs ih =>
    have ih' := ih (fun v b f h => hok v b f (by simp [h]))
    cases e with
    | sample v bin f =>
      have hv := (hok v bin f (by simp)).1
      have : ∀ k, GS (samplesOf (some k) (Ev.sample v bin f :: evs))
          = (if k = v then sg (bin, f) else 0) + GS (samplesOf (some k) evs) := by
        intro k
        simp only [samplesOf]
        by_cases hk : k = v
        · simp [hk, GS_cons]
        · simp [hk]
      simp only [this, Finset.sum_add_distrib, ih']
      simp [samplesOf, GS_cons, Finset.sum_ite_eq', hv]
    | exchange => simpa [samplesOf] using ih'
    | restart v => simpa [samplesOf] using ih'

/-- the state after a history without restarts -/
theorem main_inv (n nb : Nat) (evs : List (Ev ℝ)) (hok : ∀ v b f, Ev.sample v b f ∈ evs → v < n ∧ b < nb)
    (hnr : ∀ v, Ev.restart v ∉ evs) :
    ∃ (C : G) (P L : Nat → G), ShInv n nb (run (initAll n nb) evs) C P L ∧
      (∀ k, L k + P k = GS (samplesOf (some k) evs)) ∧ C = ∑ k ∈ Finset.range n, L k := by
  induction evs using List.reverseRecOn with
  | nil => exact ⟨0, 0, 0, inv_init n nb, by simp [samplesOf, GS_nil], by simp⟩
  | append_singleton evs e ih =>
    obtain ⟨C, P, L, hinv, hown, hC⟩ := ih (fun v b f h => hok v b f (by simp [h])) (fun v h => hnr v (by simp [h]))
    rw [run_snoc]
    cases e with
    | sample v bin f =>
      have hb := (hok v bin f (by simp)).2
      refine ⟨C, _, L, inv_sample hinv v bin f hb, ?_, hC⟩
      intro k
      rw [samplesOf_append, GS_append, ← hown k]
      by_cases hk : k = v
      · subst hk; simp [samplesOf, GS_cons, GS_nil, add_assoc]
      · simp [samplesOf, GS_nil, hk]
    | exchange =>
      refine ⟨_, _, _, inv_exchange hinv, ?_, ?_⟩
      · intro k
        rw [samplesOf_append, GS_append, ← hown k]
        simp [samplesOf, GS_nil]
      · rw [hC, Finset.sum_add_distrib]
    | restart v => exact absurd (by simp) (hnr v)

/-- after samples only, the common grid and the local grids are unchanged and the pending grids grow by the own samples -/
theorem samples_inv (n nb : Nat) (ws : List (Walker ℝ)) (C : G) (P L : Nat → G) (h : ShInv n nb ws C P L)
    (evs : List (Ev ℝ)) (hok : ∀ v b f, Ev.sample v b f ∈ evs → v < n ∧ b < nb)
    (hs : ∀ e ∈ evs, ∃ v b f, e = Ev.sample v b f) :
    ShInv n nb (run ws evs) C (fun k => P k + GS (samplesOf (some k) evs)) L := by
  induction evs using List.reverseRecOn with
  | nil => simpa [run, samplesOf, GS_nil] using h
  | append_singleton evs e ih =>
    have ih' := ih (fun v b f h => hok v b f (by simp [h])) (fun e h => hs e (by simp [h]))
    obtain ⟨v, bin, f, rfl⟩ := hs e (by simp)
    have hb := (hok v bin f (by simp)).2
    rw [run_snoc]
    have := inv_sample ih' v bin f hb
    convert this using 1
    funext k
    rw [samplesOf_append, GS_append]
    by_cases hk : k = v
    · subst hk; simp [samplesOf, GS_cons, GS_nil, add_assoc]
    · simp [samplesOf, GS_nil, hk]

/-! ## commuting samples, restarts at the boundary -/

theorem modify_comm_I (s : List Int) (b b' : Nat) :
    (s.modify b (· + 1)).modify b' (· + 1) = (s.modify b' (· + 1)).modify b (· + 1) := by
  apply List.ext_getElem? ; intro i
  simp only [List.getElem?_modify]
  cases s[i]? with
  | none => rfl
  | some x => by_cases h1 : b = i <;> by_cases h2 : b' = i <;> simp [h1, h2]

theorem modify_comm_R (s : List ℝ) (b b' : Nat) (f f' : ℝ) :
    (s.modify b (· - f)).modify b' (· - f') = (s.modify b' (· - f')).modify b (· - f) := by
  apply List.ext_getElem? ; intro i
  simp only [List.getElem?_modify]
  cases s[i]? with
  | none => rfl
  | some x => by_cases h1 : b = i <;> by_cases h2 : b' = i <;> simp [h1, h2] ; ring

theorem sample_comm (w : Walker ℝ) (b b' : Nat) (f f' : ℝ) :
    (w.sample b f).sample b' f' = (w.sample b' f').sample b f := by
  simp only [Walker.sample]
  rw [modify_comm_I, modify_comm_R]

theorem apply_sample_comm (ws : List (Walker ℝ)) (v b : Nat) (f : ℝ) (v' b' : Nat) (f' : ℝ) :
    apply (apply ws (.sample v b f)) (.sample v' b' f') = apply (apply ws (.sample v' b' f')) (.sample v b f) := by
  simp only [apply]
  apply List.ext_getElem? ; intro i
  simp only [List.getElem?_modify]
  cases ws[i]? with
  | none => rfl
  | some x => by_cases h1 : v = i <;> by_cases h2 : v' = i <;> simp [h1, h2, sample_comm]

theorem run_perm (ws : List (Walker ℝ)) (evs evs' : List (Ev ℝ)) (hp : evs.Perm evs')
    (hs : ∀ e ∈ evs, ∃ v b f, e = Ev.sample v b f) : run ws evs = run ws evs' := by
  unfold run
  apply hp.foldl_eq'
  intro x hx y hy z
  obtain ⟨v, b, f, rfl⟩ := hs x hx
  obtain ⟨v', b', f', rfl⟩ := hs y hy
  exact apply_sample_comm z v b f v' b' f'

theorem exchange_restart (ws : List (Walker ℝ)) (k : Nat) : apply (exchange ws) (.restart k) = exchange ws := by
  cases ws with
  | nil => simp [exchange, apply]
  | cons w0 rest =>
    simp only [apply, exchange]
    apply List.ext_getElem? ; intro i
    simp only [List.getElem?_modify, List.getElem?_map]
    cases (w0 :: rest)[i]? with
    | none => rfl
    | some x => by_cases h1 : k = i <;> simp [h1, Walker.restart]

/-! ## mirrors -/

theorem read_inv {H : Type} (m : Mirror H) (f f' : List H) (c : Nat)
    (hh : m.hills = f.take m.pos) (hp : m.pos ≤ f.length) (hpre : f <+: f') :
    (m.read f' c).hills = f'.take (m.read f' c).pos ∧ (m.read f' c).pos ≤ f'.length := by
  obtain ⟨t, rfl⟩ := hpre
  unfold Mirror.read
  simp only
  split
  · refine ⟨?_, ?_⟩
    · rw [hh, List.take_append_of_le_length hp]
    · simp; omega
  · rename_i hlt
    simp only
    refine ⟨?_, by omega⟩
    have hle : m.pos ≤ min c (f ++ t).length := by omega
    rw [hh]
    conv_rhs => rw [← Nat.add_sub_cancel' hle, List.take_add]
    rw [List.take_append_of_le_length hp]

theorem read_pos_ge {H : Type} (m : Mirror H) (f : List H) (c : Nat) :
    min c f.length ≤ (m.read f c).pos := by
  unfold Mirror.read
  simp only
  split
  · simp; omega
  · simp

theorem read_partial {H : Type} (m : Mirror H) (file : List H) (complete : Nat) :
    (m.read file complete).pos ≤ max m.pos (min complete file.length) ∧
    (m.read file complete).hills.length = m.hills.length + ((m.read file complete).pos - m.pos) := by
  unfold Mirror.read
  simp only
  split
  · simp
  · simp; omega

end Cv.C14L
