import CvProps.RealInst
/-! Helper lemmas for C14 (filled by the proofs). -/
