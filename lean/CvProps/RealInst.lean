import CvModel
import Mathlib.Analysis.SpecialFunctions.Sqrt
import Mathlib.Analysis.SpecialFunctions.Exp
import Mathlib.Analysis.SpecialFunctions.Log.Basic
import Mathlib.Analysis.SpecialFunctions.Pow.Real
import Mathlib.Analysis.SpecialFunctions.Trigonometric.Inverse
import Mathlib.Analysis.SpecialFunctions.Trigonometric.Arctan
import Mathlib.Analysis.SpecialFunctions.Complex.Arg
import Mathlib.Tactic

/-! The real-number instance of the scalar class: every field is Mathlib's own instance, so that after
unfolding the model definitions the goals are ordinary Mathlib goals. -/
namespace Cv

noncomputable instance : Prim ℝ where
  sqrt := Real.sqrt
  exp := Real.exp
  log := Real.log
  acos := Real.arccos
  sin := Real.sin
  cos := Real.cos
  atan2 := fun y x => Complex.arg ⟨x, y⟩
  pow := fun x y => x ^ y
  floorI := fun x => ⌊x⌋

noncomputable instance : Sc ℝ :=
  { decLt := fun _ _ => Classical.propDecidable _, decLe := fun _ _ => Classical.propDecidable _ }

@[simp] theorem prim_sqrt (x : ℝ) : Prim.sqrt x = Real.sqrt x := rfl
@[simp] theorem prim_exp (x : ℝ) : Prim.exp x = Real.exp x := rfl
@[simp] theorem prim_log (x : ℝ) : Prim.log x = Real.log x := rfl
@[simp] theorem prim_acos (x : ℝ) : Prim.acos x = Real.arccos x := rfl
@[simp] theorem prim_sin (x : ℝ) : Prim.sin x = Real.sin x := rfl
@[simp] theorem prim_cos (x : ℝ) : Prim.cos x = Real.cos x := rfl
@[simp] theorem prim_pow (x y : ℝ) : Prim.pow x y = x ^ y := rfl
@[simp] theorem prim_floorI (x : ℝ) : Prim.floorI x = ⌊x⌋ := rfl
@[simp] theorem floorS_real (x : ℝ) : floorS x = (⌊x⌋ : ℝ) := rfl
@[simp] theorem sq_real (x : ℝ) : sq x = x * x := rfl

end Cv
