import CvProps.RealInst
import CvProps.C08Lemmas
/-!
# C08, second file — a *variable* with a time-step factor (model `CvModel/VarForce.lean`)

"A bias or **variable** with time-step factor n is evaluated only on steps that are multiples of n and then applies n times
its instantaneous force, so that the impulse delivered over n steps equals that of applying the force at every step."
The variable's own force is the Jacobian compensation `-fj` it applies when an ABF bias hides the Jacobian term.
-/
open Cv

namespace Cv.C08

/-- asleep: the variable hands nothing to its atoms -/
theorem variable_asleep_nothing (p : VarP ℝ) (c : Clock) (fbInst fj : ℝ) (h : awake c p.tsf = false) :
    varStepForce p c fbInst fj = 0 := by
  unfold varStepForce
  rw [h]
  norm_num

/-- awake: `n` times the instantaneous force, the variable's own part (the hidden Jacobian force) included -/
theorem variable_awake_scales (p : VarP ℝ) (c : Clock) (fbInst fj : ℝ) (h : awake c p.tsf = true)
    (hj : p.jacobian = true) (hh : p.hide = true) :
    varStepForce p c fbInst fj = (p.tsf : ℝ) * (fbInst - fj) := by
  unfold varStepForce varApplied
  rw [h, hj, hh]
  simp only [Bool.and_self, if_true]
  ring

/-- without the hidden-Jacobian mode the variable adds nothing of its own -/
theorem variable_awake_plain (p : VarP ℝ) (c : Clock) (fbInst fj : ℝ) (h : awake c p.tsf = true)
    (hh : p.hide = false) :
    varStepForce p c fbInst fj = (p.tsf : ℝ) * fbInst := by
  unfold varStepForce varApplied
  rw [h, hh]
  simp

/-- clock after `t` further ordinary steps -/
def clockAt (it : Int) (t : Nat) : Clock := { it := it + 1 + (t : Int), itRestart := 0, first := false, cont := false }

/-- impulse conservation for the variable: over `n` consecutive steps starting at a multiple of `n`, at fixed geometry
    (same instantaneous bias force, same Jacobian force), a variable with factor `n` delivers exactly the impulse of the
    same variable with factor 1 — `n·(fbInst − fj)` in the hidden-Jacobian mode -/
theorem variable_impulse_conserved (p : VarP ℝ) (n : Nat) (hn : 1 ≤ n) (hp : p.tsf = (n : Int))
    (hj : p.jacobian = true) (hh : p.hide = true) (it : Int) (hit : Int.tmod (it + 1) n = 0) (fbInst fj : ℝ) :
    ((List.range n).map fun t => varStepForce p (clockAt it t) fbInst fj).sum =
    ((List.range n).map fun t => varStepForce { p with tsf := 1 } (clockAt it t) fbInst fj).sum := by
  have h := impulse_sums n hn it hit (fbInst - fj)
  have e1 : ∀ t : Nat, varStepForce p (clockAt it t) fbInst fj =
      (if (decide ((n : Int) ≤ 1) || decide (Int.tmod (it + 1 + (t : Int)) (n : Int) = 0)) = true
        then (((n : Int) : ℝ)) * (fbInst - fj) else 0) := by
    intro t
    unfold varStepForce varApplied
    rw [hj, hh, hp, awake_it]
    simp only [clockAt, Bool.and_self, if_true]
    split_ifs <;> first | contradiction | ring1 | norm_num
  have e2 : ∀ t : Nat, varStepForce { p with tsf := 1 } (clockAt it t) fbInst fj =
      (if (decide ((1 : Int) ≤ 1) || decide (Int.tmod (it + 1 + (t : Int)) (1 : Int) = 0)) = true
        then (((1 : Int) : ℝ)) * (fbInst - fj) else 0) := by
    intro t
    unfold varStepForce varApplied
    rw [awake_it]
    simp only [hj, hh, clockAt, Bool.and_self, if_true]
    split_ifs <;> first | contradiction | ring1 | norm_num
  simp only [e1, e2]
  exact h

/-- and its value: `n·(fbInst − fj)` -/
theorem variable_impulse_value (p : VarP ℝ) (n : Nat) (hn : 1 ≤ n) (hp : p.tsf = (n : Int))
    (hj : p.jacobian = true) (hh : p.hide = true) (it : Int) (hit : Int.tmod (it + 1) n = 0) (fbInst fj : ℝ) :
    ((List.range n).map fun t => varStepForce p (clockAt it t) fbInst fj).sum = (n : ℝ) * (fbInst - fj) := by
  rw [variable_impulse_conserved p n hn hp hj hh it hit]
  have : ∀ t : Nat, varStepForce { p with tsf := 1 } (clockAt it t) fbInst fj = fbInst - fj := by
    intro t
    unfold varStepForce varApplied
    rw [awake_it]
    simp only [hj, hh, Bool.and_self, if_true]
    simp
  simp [this]

/-- what the biases are told: the Jacobian force is part of the reported total force unless it is hidden *and* the applied
    force is subtracted (then the compensation the variable applied is not counted either) -/
theorem variable_total_force (p : VarP ℝ) (ftCvc fj : ℝ) :
    varTotalForce p ftCvc fj = if p.hide = true ∧ p.subtract = true then ftCvc else ftCvc + fj := by
  unfold varTotalForce
  cases p.hide <;> cases p.subtract <;> simp

/-- the Jacobian force of a distance is `2 kT / d` -/
theorem distance_jacobian_force (p : VarP ℝ) (hj : p.jacobian = true) (d : ℝ) (hd : 0 < d) :
    jacForce p (jdDistance d) = 2 * p.kT / d := by
  unfold jacForce jdDistance
  rw [hj]
  have : (d > 0.0 ∨ d < 0.0) := Or.inl (by norm_num; exact hd)
  simp only [if_true, decide_eq_true_eq, Bool.or_eq_true]
  rw [if_pos this]
  norm_num
  ring

/-! non-vacuity: a variable with factor 3 in the hidden-Jacobian mode, window starting at absolute step 6 -/
example : ∃ p : VarP ℝ, p.tsf = ((3 : Nat) : Int) ∧ p.jacobian = true ∧ p.hide = true ∧ Int.tmod ((5 : Int) + 1) (3 : Nat) = 0 :=
  ⟨{ tsf := 3, jacobian := true, hide := true, kT := 0.6 }, rfl, rfl, rfl, by decide⟩

end Cv.C08
