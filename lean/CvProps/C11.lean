import CvProps.C11Lemmas
/-!
# C11 — binary stream round-trips and bounds; crash-consistent file replacement

Property theorems about `CvModel/MemStream.lean` and `CvModel/FileSys.lean` (core Lean, no Mathlib needed).
Helper lemmas live in `CvProps/C11Lemmas.lean`.
-/
open Cv Cv.MS

namespace Cv.C11

/-! ## exact round trip for every element size and length -/

/-- a fresh writer with enough room -/
def fresh (maxLen : Nat) : St := { maxLen := maxLen }

/-- writing then reading a trivially-copyable object returns its bytes, consumes exactly them, state good -/
theorem roundtrip_obj (bytes : List UInt8) (maxLen : Nat) (h : bytes.length ≤ maxLen) (h64 : maxLen < two64) :
    readObj (ofBytes (written (writeObj (fresh maxLen) bytes))) bytes.length =
      .ok { (ofBytes bytes) with rpos := bytes.length } bytes := by
  have hw : written (writeObj (fresh maxLen) bytes) = bytes := by
    rw [writeObj_eq _ _ rfl rfl (by simpa [fresh] using h)]
    simp [written, fresh]
  rw [hw, readObj_spec _ _ (by simp [ofBytes]) (by simp [ofBytes]) (by simp only [ofBytes]; omega)]
  simp [ofBytes]

/-- a vector of `n` elements of size `esz` (any size ≥ 1, any length) is read back exactly -/
theorem roundtrip_vec (esz n : Nat) (bytes : List UInt8) (maxLen : Nat) (he : 0 < esz)
    (hb : bytes.length = n * esz) (h : 8 + bytes.length ≤ maxLen) (h64 : maxLen < two64) :
    readVec (ofBytes (written (writeVec (fresh maxLen) n bytes))) esz =
      .ok { (ofBytes (le64 n ++ bytes)) with rpos := 8 + bytes.length } (n, bytes) := by
  have hw : written (writeVec (fresh maxLen) n bytes) = le64 n ++ bytes := by
    rw [writeVec_eq _ _ _ rfl rfl (by simpa [fresh] using h)]
    simp only [written, fresh, List.nil_append, List.length_nil, Nat.zero_add]
    exact List.take_of_length_le (by simp [le64_length])
  rw [hw]
  have := readVec_serialised [] bytes esz n he hb (by simp only [List.length_nil]; omega)
  simp only [List.nil_append, List.length_nil, Nat.zero_add] at this
  exact this

/-- the same after any sequence of earlier writes: objects written one after the other are read back one after the other -/
theorem roundtrip_seq_vec (s : St) (esz n : Nat) (bytes : List UInt8) (he : 0 < esz)
    (hgood : s.state = 0) (hlen : s.len = s.buf.length) (hb : bytes.length = n * esz)
    (h : s.buf.length + 8 + bytes.length ≤ s.maxLen) (h64 : s.maxLen < two64) :
    let w := writeVec s n bytes
    w.len = w.buf.length ∧ w.state = 0 ∧ written w = written s ++ le64 n ++ bytes ∧
    readVec { (ofBytes (written w)) with rpos := s.len } esz =
      .ok { (ofBytes (written w)) with rpos := w.len } (n, bytes) := by
  intro w
  have hw : w = { s with buf := s.buf ++ le64 n ++ bytes, len := s.buf.length + 8 + bytes.length } :=
    writeVec_eq s n bytes hgood hlen h
  have hwr : written w = s.buf ++ le64 n ++ bytes := by
    rw [hw]
    exact List.take_of_length_le (by simp [le64_length]; omega)
  have hws : written s = s.buf := by simp [written, hlen]
  refine ⟨by rw [hw]; simp [le64_length]; omega, by rw [hw]; exact hgood, by rw [hwr, hws], ?_⟩
  rw [hwr, hlen, readVec_serialised s.buf bytes esz n he hb (by omega)]
  rw [hw]

/-- the defect that was repaired: advancing by the element size instead of 8 loses the vector
    (concrete witness: `std::vector<int>{1, 2}`) -/
theorem write_vec_adv_esz_breaks :
    readVec (ofBytes (written (writeVecAdv 4 (fresh 1000) 2 [1,0,0,0, 2,0,0,0]))) 4 ≠
      .ok { (ofBytes (le64 2 ++ [1,0,0,0, 2,0,0,0])) with rpos := 16 } (2, [1,0,0,0, 2,0,0,0]) := by
  -- the element bytes overwrite the upper half of the length prefix: the reader sees n = 2 + 2^32
  have hw : written (writeVecAdv 4 (fresh 1000) 2 [1,0,0,0, 2,0,0,0]) = [2,0,0,0, 1,0,0,0, 2,0,0,0] := by
    decide
  have hn : ¬ (fromLe [2,0,0,0, 1,0,0,0] * 4 ≤ 4) := by decide
  rw [hw, readVec_spec _ _ (by omega) (by simp [ofBytes]) (by simp [ofBytes]) (by simp [ofBytes, two64])]
  simp only [ofBytes, List.length_cons, List.length_nil, List.drop_zero, List.take_succ_cons,
    List.take_zero, Nat.zero_add, Nat.sub_zero, Nat.reduceAdd, Nat.reduceSub, Nat.reduceLeDiff, if_true]
  rw [if_neg hn]
  intro h
  cases h

/-! ## no read touches memory outside the buffer -/

/-- for every buffer, cursor inside the data and element size, `read_vector` never goes out of bounds,
    including length prefixes whose byte size wraps around 2^64 -/
theorem read_vec_in_bounds (s : St) (esz : Nat) (he : 0 < esz) (hlen : s.len ≤ s.buf.length)
    (hr : s.rpos ≤ s.len) (h64 : s.len < two64) : ∀ t, readVec s esz ≠ .oob t := by
  intro t
  rw [readVec_spec s esz he hlen hr h64]
  split
  · split <;> simp
  · simp

theorem read_obj_in_bounds (s : St) (size : Nat) (hlen : s.len ≤ s.buf.length)
    (hr : s.rpos ≤ s.len) (h64 : s.len < two64) : ∀ t, readObj s size ≠ .oob t := by
  intro t
  rw [readObj_spec s size hlen hr h64]
  split <;> simp

/-- a successful read leaves the cursor inside the data (so the hypotheses above are preserved) -/
theorem read_vec_cursor (s : St) (esz : Nat) (he : 0 < esz) (hlen : s.len ≤ s.buf.length)
    (hr : s.rpos ≤ s.len) (h64 : s.len < two64) (t : St) (v : Nat × List UInt8)
    (h : readVec s esz = .ok t v) : t.rpos ≤ t.len ∧ t.len = s.len ∧ t.buf = s.buf ∧ v.2.length = v.1 * esz := by
  rw [readVec_spec s esz he hlen hr h64] at h
  split at h
  · split at h
    · injection h with h1 h2
      subst h1 h2
      refine ⟨?_, rfl, rfl, ?_⟩
      · show s.rpos + 8 + _ ≤ s.len
        omega
      · simp only [List.length_take, List.length_drop]
        omega
    · cases h
  · cases h

/-- what the guard is for: without it a wrapped length (2^61 doubles) is accepted and goes out of bounds -/
theorem unguarded_wraps :
    ∃ t, readVecUnguarded (ofBytes (le64 (2 ^ 61) ++ [0xaa, 0xbb, 0xcc, 0xdd])) 8 = .oob t := by
  have hL : (le64 (2 ^ 61) ++ [0xaa, 0xbb, 0xcc, 0xdd]).length = 12 := by simp [le64_length]
  have ht : ((le64 (2 ^ 61) ++ [0xaa, 0xbb, 0xcc, 0xdd]).drop 0).take 8 = le64 (2 ^ 61) :=
    List.take_left' (le64_length _)
  have hf : fromLe (le64 (2 ^ 61)) = 2 ^ 61 := fromLe_le64 _ (by unfold two64; omega)
  simp only [readVecUnguarded, hasRemaining, remaining, ofBytes, slice, hL, ht, hf, two64]
  simp

/-! ## truncation is an error, never a value -/

/-- reading a vector from any strict prefix of its serialisation fails -/
theorem trunc_vec_fails (esz n k : Nat) (bytes : List UInt8) (he : 0 < esz) (hb : bytes.length = n * esz)
    (hk : k < 8 + bytes.length) (h64 : 8 + bytes.length < two64) :
    ∃ t, readVec (ofBytes ((le64 n ++ bytes).take k)) esz = .fail t := by
  have hn : n < two64 := by
    have : n * 1 ≤ n * esz := Nat.mul_le_mul_left n he
    omega
  have hL : ((le64 n ++ bytes).take k).length = k := by
    simp [le64_length]; omega
  rw [readVec_spec _ _ he (by simp [ofBytes]) (by simp [ofBytes]) (by simp only [ofBytes, hL]; omega)]
  simp only [ofBytes, hL, Nat.sub_zero, List.drop_zero, Nat.zero_add]
  by_cases h8 : 8 ≤ k
  · rw [if_pos h8, take8_take n k bytes h8, fromLe_le64 n hn, if_neg (by omega)]
    exact ⟨_, rfl⟩
  · rw [if_neg h8]
    exact ⟨_, rfl⟩

theorem trunc_obj_fails (bytes : List UInt8) (k : Nat) (hk : k < bytes.length) (h64 : bytes.length < two64) :
    ∃ t, readObj (ofBytes (bytes.take k)) bytes.length = .fail t := by
  have hL : (bytes.take k).length = k := by simp; omega
  rw [readObj_spec _ _ (by simp [ofBytes]) (by simp [ofBytes]) (by simp only [ofBytes, hL]; omega)]
  simp only [ofBytes, hL, Nat.sub_zero]
  rw [if_neg (by omega)]
  exact ⟨_, rfl⟩

/-! ## crash-consistent replacement of the state file -/
open Cv.FS

/-- If the state file held a complete state when its replacement began, then whatever the chunking of the
    new state and wherever the process dies (between operations or inside a write), the file or its
    `.old` backup holds a complete state. -/
theorem crash_invariant (complete : Bytes → Prop) (d : Disk) (chunks : List Bytes)
    (hf : holds complete d.f) (hnew : complete chunks.flatten) (k j : Nat) :
    let d' := crashAt d (replaceOps chunks) k j
    holds complete d'.f ∨ holds complete d'.old := by
  intro d'
  have _ := hnew  -- not needed: the backup alone carries the invariant
  obtain ⟨b, hb, hc⟩ := hf
  cases k with
  | zero =>
    left
    have : d' = d := by simp [d', crashAt, replaceOps, run]
    rw [this]
    exact ⟨b, hb, hc⟩
  | succ k =>
    right
    exact ⟨b, crashAt_replace_old d b chunks hb k j, hc⟩

/-- after the replacement ran to completion the file holds the new state and `.old` the previous one -/
theorem replace_done (d : Disk) (b : Bytes) (chunks : List Bytes) (hf : d.f = some b) :
    run d (replaceOps chunks) = { f := some chunks.flatten, old := some b } := by
  have e : replaceOps chunks = [.backup, .openTrunc] ++ (chunks.map .write ++ [.close]) := by
    simp [replaceOps]
  rw [e, run_append, run_append]
  have h1 : run d [.backup, .openTrunc] = { f := some [], old := some b } := by
    simp [run, step, hf]
  rw [h1, run_writes]
  simp [run, step]

/-- the very first state (no file yet): once it is completely written it is on disk -/
theorem first_state (d : Disk) (chunks : List Bytes) (hf : d.f = none) :
    (run d (replaceOps chunks)).f = some chunks.flatten ∧ (run d (replaceOps chunks)).old = d.old := by
  have e : replaceOps chunks = [.backup, .openTrunc] ++ (chunks.map .write ++ [.close]) := by
    simp [replaceOps]
  rw [e, run_append, run_append]
  have h1 : run d [.backup, .openTrunc] = { f := some [], old := d.old } := by
    simp [run, step, hf]
  rw [h1, run_writes]
  simp [run, step]

/-- The hypothesis `holds complete d.f` of `crash_invariant` cannot be dropped: a crash during one
    replacement followed by a crash during the next one leaves no complete state (the partial file is
    renamed over the good backup).  Concrete history; see known_findings.json. -/
theorem double_crash_loses_state :
    let complete : Bytes → Prop := fun b => b = [1, 2, 3, 4]
    let d0 : Disk := { f := some [1, 2, 3, 4], old := none }
    let d1 := crashAt d0 (replaceOps [[1, 2, 3, 4]]) 2 2     -- dies after writing 2 of 4 bytes
    let d2 := crashAt d1 (replaceOps [[1, 2, 3, 4]]) 2 1     -- next run, dies after writing 1 byte
    ¬ (holds complete d2.f ∨ holds complete d2.old) := by
  intro complete d0 d1 d2
  have h2 : d2 = { f := some [1], old := some [1, 2] } := by
    simp [d2, d1, d0, crashAt, replaceOps, run, step]
  rw [h2]
  rintro (⟨b, hb, hc⟩ | ⟨b, hb, hc⟩)
  · simp only [Option.some.injEq] at hb
    subst hb
    simp [complete] at hc
  · simp only [Option.some.injEq] at hb
    subst hb
    simp [complete] at hc

/-! ## non-vacuity -/

example : (fresh 100).state = 0 ∧ (fresh 100).len = (fresh 100).buf.length ∧ 8 + 8 ≤ (100:Nat) := by
  simp [fresh]

example : holds (fun b => b = [1,2,3,4]) ({ f := some [1,2,3,4], old := none } : Disk).f := by
  exact ⟨_, rfl, rfl⟩

/-! ## the published state file of a multiple-walker bias (temporary file + rename, no backup) -/

theorem prun_append (d : PDisk) (a b : List POp) : prun d (a ++ b) = prun (prun d a) b := by
  simp [prun, List.foldl_append]

/-- writes to the temporary file never touch the published file -/
theorem pub_writes (d : PDisk) (chunks : List Bytes) : (prun d (chunks.map .writeTmp)).pub = d.pub := by
  induction chunks generalizing d with
  | nil => rfl
  | cons c cs ih =>
    simp only [List.map_cons, prun, List.foldl_cons]
    have := ih (pstep d (.writeTmp c))
    simp only [prun] at this
    rw [this]; rfl

theorem tmp_writes (d : PDisk) (chunks : List Bytes) :
    (prun d (chunks.map .writeTmp)).tmp = some ((d.tmp.getD []) ++ chunks.flatten) ∨ (chunks = [] ∧ (prun d (chunks.map .writeTmp)).tmp = d.tmp) := by
  induction chunks generalizing d with
  | nil => right; exact ⟨rfl, rfl⟩
  | cons c cs ih =>
    left
    simp only [List.map_cons, prun, List.foldl_cons]
    have h := ih (pstep d (.writeTmp c))
    simp only [prun] at h
    rcases h with h | ⟨hn, h⟩
    · rw [h]; simp [pstep, List.append_assoc]
    · rw [h, hn]; simp [pstep]

/-- every prefix of the operations before the final rename leaves the published file as it was -/
theorem pub_untouched_before_publish (d : PDisk) (chunks : List Bytes) (k : Nat)
    (hk : k ≤ chunks.length + 3) :
    (prun d ((publishOps chunks).take k)).pub = d.pub := by
  have e : publishOps chunks = ([POp.removeTmp, .openTmp] ++ chunks.map .writeTmp ++ [.closeTmp]) ++ [.publish] := by
    simp [publishOps]
  have hl : ([POp.removeTmp, POp.openTmp] ++ chunks.map POp.writeTmp ++ [POp.closeTmp]).length = chunks.length + 3 := by simp
  rw [e, List.take_append_of_le_length (by rw [hl]; exact hk)]
  -- no operation of the prefix is a publish: induction on the list of operations actually run
  have key : ∀ (ops : List POp) (d : PDisk), (∀ o ∈ ops, o ≠ POp.publish) → (prun d ops).pub = d.pub := by
    intro ops
    induction ops with
    | nil => intro d _; rfl
    | cons o os ih =>
      intro d h
      simp only [prun, List.foldl_cons]
      have h1 := ih (pstep d o) (fun o' ho' => h o' (List.mem_cons_of_mem _ ho'))
      simp only [prun] at h1
      rw [h1]
      have ho := h o (List.mem_cons_self ..)
      cases o <;> simp_all [pstep]
  apply key
  intro o ho
  have := List.mem_of_mem_take ho
  simp at this
  rcases this with h | h | ⟨c, _, h⟩ | h <;> simp [h] <;> rw [← h] <;> simp

/-- **crash invariant of the published file**: if it held a complete state when the replacement began and the new state is
    complete, then wherever the process dies — between any two operations or inside any write — the published file holds
    a complete state (the previous one, or after the rename the new one) -/
theorem publish_crash_invariant (complete : Bytes → Prop) (d : PDisk) (chunks : List Bytes)
    (hf : holds complete d.pub) (hnew : complete chunks.flatten) (k j : Nat) :
    holds complete (pcrashAt d (publishOps chunks) k j).pub := by
  have hlen : (publishOps chunks).length = chunks.length + 4 := by simp [publishOps]
  by_cases hk : k ≤ chunks.length + 3
  · -- the rename has not happened; a partial write goes to the temporary file
    have hp := pub_untouched_before_publish d chunks k hk
    unfold pcrashAt
    simp only
    split
    · simp only [pstep]; rw [hp]; exact hf
    · rw [hp]; exact hf
  · -- everything ran
    have hk' : chunks.length + 4 ≤ k := by omega
    have htake : (publishOps chunks).take k = publishOps chunks := List.take_of_length_le (by rw [hlen]; exact hk')
    have hnone : (publishOps chunks)[k]? = none := by
      rw [List.getElem?_eq_none_iff]; rw [hlen]; exact hk'
    unfold pcrashAt
    simp only [htake, hnone]
    have e : publishOps chunks = [POp.removeTmp, .openTmp] ++ (chunks.map .writeTmp ++ [.closeTmp, .publish]) := by
      simp [publishOps]
    rw [e, prun_append, prun_append]
    have h1 : prun d [POp.removeTmp, .openTmp] = { pub := d.pub, tmp := some [] } := by simp [prun, pstep]
    rw [h1]
    have ht := tmp_writes { pub := d.pub, tmp := some [] } chunks
    have hpb := pub_writes { pub := d.pub, tmp := some [] } chunks
    rcases ht with ht | ⟨hn, ht⟩
    · refine ⟨chunks.flatten, ?_, hnew⟩
      simp only [prun, List.foldl_cons, List.foldl_nil, pstep]
      simp only [prun] at ht
      rw [ht]; simp
    · subst hn
      refine ⟨[], ?_, by simpa using hnew⟩
      simp [prun, pstep]

/-- The order of close and rename matters: with the rename moved before the bytes have left the stream's buffer, a death
    right after the rename leaves an empty published file although both the previous and the new state were complete. -/
theorem publish_early_loses_state :
    let complete : Bytes → Prop := fun b => b = [1, 2, 3, 4]
    let d0 : PDisk := { pub := some [1, 2, 3, 4], tmp := none }
    ¬ holds complete (pcrashAt d0 (publishEarlyOps [[1, 2, 3, 4]]) 3 0).pub := by
  intro complete d0 h
  obtain ⟨b, hb, hc⟩ := h
  simp [pcrashAt, publishEarlyOps, prun, pstep, d0] at hb
  subst hb
  simp [complete] at hc

/-- premises of `publish_crash_invariant` are satisfiable, and a mid-write death indeed leaves the old state published -/
example : (pcrashAt { pub := some [9], tmp := none } (publishOps [[1, 2], [3]]) 2 1).pub = some [9] := by decide

end Cv.C11
