import CvModel.Parse
import CvProps.C09Lemmas
/-!
# C09 — the parser core is total, case-insensitive in keywords, and only finds isolated keywords outside blocks

Property theorems about `CvModel/Parse.lean` (core Lean; strings are lists of characters).
-/
open Cv Cv.Parse

namespace Cv.C09

/-! ## totality -/

/-- the search loop of `key_lookup` terminates: the fuel `|conf| + 2` is never exhausted (for a non-empty keyword) -/
theorem lookup_terminates (conf key : Str) (start : Nat) (hk : key ≠ []) :
    keyLookup conf key start ≠ .outOfFuel := by
  unfold keyLookup
  simp only
  have hk' : lower key ≠ [] := by
    intro h; apply hk; have := congrArg List.length h; rw [lower_length'] at this
    exact List.eq_nil_of_length_eq_zero this
  cases hf : findFrom (lower conf) (lower key) start with
  | none => simp [searchKey]
  | some q =>
    obtain ⟨_, b, _⟩ := findFrom_spec hf
    have hne := searchKey_ne_none conf (lower conf) (lower key) hk' (conf.length + 2) q
      (by omega) (by rw [lower_length']; omega)
    split
    · rename_i h; exact absurd h hne
    · simp
    · rcases extractData_cases conf (lower key) _ (conf.length + 2) with he | ⟨d, s, he⟩ <;>
        rw [he] <;> simp

/-- every string has an outcome: found, not found, or the parse error of an unterminated brace -/
theorem lookup_total (conf key : Str) (start : Nat) (hk : key ≠ []) :
    keyLookup conf key start = .notFound ∨ keyLookup conf key start = .parseError ∨
    ∃ p d s, keyLookup conf key start = .found p d s := by
  have hT := lookup_terminates conf key start hk
  revert hT
  unfold keyLookup
  simp only
  split
  · intro h; exact absurd rfl h
  · intro _; exact Or.inl rfl
  · intro _
    rcases extractData_cases conf (lower key) _ (conf.length + 2) with he | ⟨d, s, he⟩
    · exact Or.inr (Or.inl he)
    · exact Or.inr (Or.inr ⟨_, d, s, he⟩)

/-! ## letter case of keywords is free -/

theorem lower_idem (s : Str) : lower (lower s) = lower s := by
  exact lower_idem' s

theorem lower_length (s : Str) : (lower s).length = s.length := by
  exact lower_length' s

/-- the keyword may be written in any letter case in the query -/
theorem key_case_free (conf k1 k2 : Str) (start : Nat) (h : lower k1 = lower k2) :
    keyLookup conf k1 start = keyLookup conf k2 start := by
  unfold keyLookup
  rw [h]

/-! ## what "found" means -/

/-- a keyword is only found where it occurs (case-insensitively), is not inside an unbalanced brace context
    (i.e. not within a sub-block), and is isolated -/
theorem found_is_isolated_occurrence (conf key : Str) (p : Nat) (d : Str) (s : Nat)
    (h : keyLookup conf key 0 = .found p d s) :
    ((lower conf).drop p).take key.length = lower key ∧ checkBraces conf p = true ∧
    isolated conf (lower conf) (lower key) p = true := by
  obtain ⟨hi, _, ho⟩ := keyLookup_found h
  rw [lower_length'] at ho
  exact ⟨ho, isolated_checkBraces hi, hi⟩

/-- the text before the keyword on its line consists of delimiters only -/
theorem found_left_clean (conf key : Str) (p : Nat) (d : Str) (s : Nat) (hp : 0 < p)
    (h : keyLookup conf key 0 = .found p d s) :
    ∃ c, conf[p - 1]? = some c ∧ delimLeft.contains c = true := by
  obtain ⟨hi, ho, _⟩ := keyLookup_found h
  rw [lower_length' conf] at ho
  exact isolated_left hp (by omega) hi

/-! ## braces and comments -/

def countC (c : Char) (s : Str) : Nat := (s.filter (· = c)).length

/-- `check_braces` accepts exactly the suffixes with as many opening as closing braces -/
theorem check_braces_iff (conf : Str) (start : Nat) :
    checkBraces conf start = true ↔ countC '{' (conf.drop start) = countC '}' (conf.drop start) := by
  exact checkBraces_iff' conf start

/-- an unmatched opening brace at top level is rejected -/
theorem unmatched_open_rejected (a b : Str) (ha : checkBraces a 0 = true) (hb : checkBraces b 0 = true) :
    checkBraces (a ++ ['{'] ++ b) 0 = false := by
  rw [checkBraces_iff', List.drop_zero] at ha hb
  rw [Bool.eq_false_iff]
  intro h
  rw [checkBraces_iff', List.drop_zero, countC'_append, countC'_append, countC'_append,
    countC'_append] at h
  have h1 : countC' '{' ['{'] = 1 := by decide
  have h2 : countC' '}' ['{'] = 0 := by decide
  omega

theorem strip_comment_no_hash (line : Str) : '#' ∉ stripComment line := by
  exact stripComment_no_hash' line

theorem strip_comment_idem (line : Str) : stripComment (stripComment line) = stripComment line := by
  exact stripComment_of_no_hash _ (stripComment_no_hash' line)

/-- text after a `#` never reaches the parser, whatever it contains -/
theorem strip_comment_ignores_tail (a t1 t2 : Str) (ha : '#' ∉ a) :
    stripComment (a ++ '#' :: t1) = stripComment (a ++ '#' :: t2) := by
  rw [stripComment_append_hash a t1 ha, stripComment_append_hash a t2 ha]

/-! ## non-vacuity -/

example : keyLookup "width 0.5\nname d\n".toList "NAME".toList 0 = .found 10 "d".toList 16 := by
  decide

end Cv.C09
