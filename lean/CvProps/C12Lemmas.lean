import CvModel.Sched
/-! Helper lemmas for C12 (core Lean only): commutation of independent actions, moving an action in front of a
    block, splitting a schedule at the first action of an item, and the effect of a block of actions with distinct
    write slots. -/
open Cv.Sched

namespace Cv.C12L

variable {V : Type}

theorem exec_nil (m : Mem V) : exec m [] = m := rfl

theorem exec_cons (m : Mem V) (a : Act V) (t : List (Act V)) : exec m (a :: t) = exec (a.run m) t := rfl

theorem exec_append (m : Mem V) (s t : List (Act V)) : exec m (s ++ t) = exec (exec m s) t := by
  simp [exec, List.foldl_append]

theorem run_swap (a b : Act V) (ha : a.Honest) (hb : b.Honest) (hi : Independent a b) (m : Mem V) :
    b.run (a.run m) = a.run (b.run m) := by
  obtain ⟨hw, hab, hba⟩ := hi
  have h1 : b.f (a.run m) = b.f m := by
    apply hb
    intro l hl
    have : l ≠ a.write := fun h => hab (h ▸ hl)
    simp [Act.run, this]
  have h2 : a.f (b.run m) = a.f m := by
    apply ha
    intro l hl
    have : l ≠ b.write := fun h => hba (h ▸ hl)
    simp [Act.run, this]
  funext l
  simp only [Act.run, h1, h2]
  by_cases hlb : l = b.write
  · have : l ≠ a.write := fun h => hw (h.symm.trans hlb)
    simp [hlb, Ne.symm hw]
  · simp [hlb]

/-- move an action in front of a block of actions it is independent of -/
theorem exec_move_front (a : Act V) (ha : a.Honest) (pre post : List (Act V))
    (hpre : ∀ b ∈ pre, b.Honest ∧ Independent a b) (m : Mem V) :
    exec m (pre ++ a :: post) = exec m (a :: (pre ++ post)) := by
  induction pre generalizing m with
  | nil => rfl
  | cons b p ih =>
    have hb := hpre b (List.mem_cons_self)
    have ih' := ih (fun c hc => hpre c (List.mem_cons_of_mem _ hc)) (b.run m)
    simp only [List.cons_append, exec_cons] at ih' ⊢
    rw [ih', run_swap a b ha hb.1 hb.2]

/-- split a list at the first element satisfying `p` -/
theorem split_first (p : Act V → Bool) (l : List (Act V)) (h : ∃ a ∈ l, p a = true) :
    ∃ pre a post, l = pre ++ a :: post ∧ p a = true ∧ ∀ b ∈ pre, p b = false := by
  induction l with
  | nil => obtain ⟨a, ha, _⟩ := h; cases ha
  | cons x t ih =>
    by_cases hx : p x = true
    · exact ⟨[], x, t, rfl, hx, by intro b hb; cases hb⟩
    · have : ∃ a ∈ t, p a = true := by
        obtain ⟨a, ha, hpa⟩ := h
        rcases List.mem_cons.1 ha with rfl | ha
        · exact absurd hpa hx
        · exact ⟨a, ha, hpa⟩
      obtain ⟨pre, a, post, rfl, hpa, hpre⟩ := ih this
      refine ⟨x :: pre, a, post, rfl, hpa, ?_⟩
      intro b hb
      rcases List.mem_cons.1 hb with rfl | hb
      · simpa using hx
      · exact hpre b hb

theorem schedule_independent (l₁ l₂ : List (Act V)) (m : Mem V)
    (hperm : l₁.Perm l₂)
    (horder : ∀ i, ofItem i l₁ = ofItem i l₂)
    (hh : ∀ a ∈ l₁, a.Honest)
    (hind : ∀ a ∈ l₁, ∀ b ∈ l₁, a.item ≠ b.item → Independent a b) :
    exec m l₁ = exec m l₂ := by
  induction l₁ generalizing l₂ m with
  | nil => rw [hperm.symm.eq_nil]
  | cons a t ih =>
    have hal₂ : a ∈ l₂ := hperm.subset List.mem_cons_self
    obtain ⟨pre, a', post, rfl, hpa', hpre⟩ :=
      split_first (fun x => x.item == a.item) l₂ ⟨a, hal₂, by simp⟩
    have hfpre : ofItem a.item pre = [] := by
      simp only [ofItem, List.filter_eq_nil_iff]
      intro b hb; simpa using hpre b hb
    have ho := horder a.item
    simp only [ofItem, List.filter_cons, List.filter_append, beq_self_eq_true, if_true] at ho
    have hfpre' : pre.filter (fun x => x.item == a.item) = [] := hfpre
    rw [hfpre'] at ho
    simp only [hpa', if_true, List.nil_append] at ho
    have haa' : a = a' := (List.cons.inj ho).1
    subst haa'
    have hpt : t.Perm (pre ++ post) :=
      (hperm.trans List.perm_middle).cons_inv
    have hpre' : ∀ b ∈ pre, b.Honest ∧ Independent a b := by
      intro b hb
      have hbl₂ : b ∈ pre ++ a :: post := List.mem_append_left _ hb
      have hbl₁ : b ∈ a :: t := hperm.symm.subset hbl₂
      refine ⟨hh b hbl₁, hind a List.mem_cons_self b hbl₁ ?_⟩
      have := hpre b hb
      intro h
      simp [h] at this
    rw [exec_move_front a (hh a List.mem_cons_self) pre post hpre' m, exec_cons, exec_cons]
    apply ih
    · exact hpt
    · intro i
      have hi := horder i
      simp only [ofItem, List.filter_cons, List.filter_append] at hi ⊢
      by_cases hia : (a.item == i) = true
      · have : i = a.item := by simpa using Eq.symm (by simpa using hia)
        subst this
        rw [hfpre'] at hi ⊢
        simp only [beq_self_eq_true, if_true, List.nil_append] at hi ⊢
        exact (List.cons.inj hi).2
      · simp only [hia] at hi
        simpa [List.filter_append] using hi
    · intro b hb; exact hh b (List.mem_cons_of_mem _ hb)
    · intro b hb c hc; exact hind b (List.mem_cons_of_mem _ hb) c (List.mem_cons_of_mem _ hc)

/-- a block of actions with pairwise distinct write slots, each of which computes the same from every memory that
    agrees with `m` outside the set `W` of slots: every slot gets its action's value on `m`, nothing else changes -/
theorem exec_distinct (W : Nat → Prop) (m : Mem V) (s : List (Act V))
    (hW : ∀ a ∈ s, W a.write)
    (hf : ∀ a ∈ s, ∀ m' : Mem V, (∀ l, ¬ W l → m' l = m l) → a.f m' = a.f m)
    (hpw : s.Pairwise (fun a b => a.write ≠ b.write))
    (m' : Mem V) (hm' : ∀ l, ¬ W l → m' l = m l) :
    (∀ a ∈ s, exec m' s a.write = a.f m) ∧ (∀ l, (∀ a ∈ s, a.write ≠ l) → exec m' s l = m' l) := by
  induction s generalizing m' with
  | nil => exact ⟨fun a ha => (nomatch ha), fun l _ => rfl⟩
  | cons a t ih =>
    have hpw' := List.pairwise_cons.1 hpw
    have hrun : ∀ l, ¬ W l → a.run m' l = m l := by
      intro l hl
      have : l ≠ a.write := fun h => hl (h ▸ hW a List.mem_cons_self)
      simp [Act.run, this, hm' l hl]
    obtain ⟨ih1, ih2⟩ := ih (fun b hb => hW b (List.mem_cons_of_mem _ hb))
      (fun b hb => hf b (List.mem_cons_of_mem _ hb)) hpw'.2 (a.run m') hrun
    refine ⟨?_, ?_⟩
    · intro b hb
      rw [exec_cons]
      rcases List.mem_cons.1 hb with rfl | hb
      · rw [ih2 _ (fun c hc => Ne.symm (hpw'.1 c hc))]
        simp [Act.run, hf b List.mem_cons_self m' hm']
      · exact ih1 b hb
    · intro l hl
      rw [exec_cons, ih2 l (fun c hc => hl c (List.mem_cons_of_mem _ hc))]
      have : l ≠ a.write := Ne.symm (hl a List.mem_cons_self)
      simp [Act.run, this]

theorem loopActs_pairwise (n : Nat) (g : Nat → Mem V → V) (inputs : List Nat) (base : Nat) :
    (loopActs n g inputs base).Pairwise (fun a b => a.write ≠ b.write) := by
  unfold loopActs
  rw [List.pairwise_map]
  refine List.Pairwise.imp ?_ (List.pairwise_lt_range (n := n))
  intro i j hij
  simp only [ne_eq]
  omega

theorem mem_loopActs {n : Nat} {g : Nat → Mem V → V} {inputs : List Nat} {base : Nat} {a : Act V} :
    a ∈ loopActs n g inputs base ↔ ∃ i, i < n ∧ a = { item := i, reads := inputs, write := base + i, f := g i } := by
  unfold loopActs
  simp only [List.mem_map, List.mem_range]
  constructor
  · rintro ⟨i, hi, rfl⟩; exact ⟨i, hi, rfl⟩
  · rintro ⟨i, hi, rfl⟩; exact ⟨i, hi, rfl⟩

theorem loop_any_order (n : Nat) (g : Nat → Mem V → V) (inputs : List Nat) (base : Nat) (m : Mem V)
    (hg : ∀ i m m', (∀ l ∈ inputs, m l = m' l) → g i m = g i m')
    (hin : ∀ l ∈ inputs, l < base ∨ base + n ≤ l)
    (sched : List (Act V)) (hs : sched.Perm (loopActs n g inputs base)) :
    ∀ l, exec m sched l = if base ≤ l ∧ l < base + n then g (l - base) m else m l := by
  have hmem : ∀ a, a ∈ sched ↔ ∃ i, i < n ∧ a = { item := i, reads := inputs, write := base + i, f := g i } :=
    fun a => (hs.mem_iff).trans mem_loopActs
  have hpw : sched.Pairwise (fun a b => a.write ≠ b.write) :=
    (hs.pairwise_iff (fun {a b} (h : a.write ≠ b.write) => Ne.symm h)).2 (loopActs_pairwise n g inputs base)
  obtain ⟨h1, h2⟩ := exec_distinct (fun l => base ≤ l ∧ l < base + n) m sched
    (by
      intro a ha
      obtain ⟨i, hi, rfl⟩ := (hmem a).1 ha
      simp only []
      omega)
    (by
      intro a ha m' hm'
      obtain ⟨i, hi, rfl⟩ := (hmem a).1 ha
      apply hg
      intro l hl
      apply hm'
      have := hin l hl
      omega)
    hpw m (fun _ _ => rfl)
  intro l
  by_cases hl : base ≤ l ∧ l < base + n
  · rw [if_pos hl]
    have ha : ({ item := l - base, reads := inputs, write := base + (l - base), f := g (l - base) } : Act V) ∈ sched :=
      (hmem _).2 ⟨l - base, by omega, rfl⟩
    have := h1 _ ha
    have e : base + (l - base) = l := by omega
    simpa [e] using this
  · rw [if_neg hl]
    apply h2
    intro a ha
    obtain ⟨i, hi, rfl⟩ := (hmem a).1 ha
    simp only [ne_eq]
    omega

end Cv.C12L
