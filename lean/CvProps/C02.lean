import CvProps.C02Lemmas
/-!
# C02 — variable values equal their mathematical definition and respect its symmetries

Property theorems about `CvModel/Geom.lean` at `α := ℝ`: the centre of mass is the mass-weighted mean; the modelled
components are unchanged by a rigid translation of all atoms, by a linear isometry (rotation or reflection) applied to
all atoms (and to the axis, for the projected distances), by reordering the atoms of a group, and by rescaling all
masses of a group.  (Minimum-image translations, duplicate atoms and the optimal-rotation fit are compared with
independent implementations on the real code only.)
-/
open Cv Cv.Geom Cv.C02L

namespace Cv.C02

def MassOk (g : AGroup ℝ) : Prop := g ≠ [] ∧ ∀ a ∈ g, 0 < a.m

noncomputable def translate (g : AGroup ℝ) (v : V3 ℝ) : AGroup ℝ := g.map fun a => { a with r := V3.add a.r v }
noncomputable def transform (R : V3 ℝ → V3 ℝ) (g : AGroup ℝ) : AGroup ℝ := g.map fun a => { a with r := R a.r }
noncomputable def scaleMass (g : AGroup ℝ) (k : ℝ) : AGroup ℝ := g.map fun a => { a with m := k * a.m }

/-- a linear map of 3-space that preserves the scalar product -/
structure Isometry (R : V3 ℝ → V3 ℝ) : Prop where
  add : ∀ a b, R (V3.add a b) = V3.add (R a) (R b)
  smul : ∀ k a, R (V3.smul k a) = V3.smul k (R a)
  dot : ∀ a b, V3.dot (R a) (R b) = V3.dot a b

/-! ## the definition -/

/-- the centre of mass is the mass-weighted mean of the positions, coordinate by coordinate -/
theorem com_is_weighted_mean (g : AGroup ℝ) :
    com g = ⟨(g.map fun a => a.m * a.r.x).sum / (g.map (·.m)).sum,
             (g.map fun a => a.m * a.r.y).sum / (g.map (·.m)).sum,
             (g.map fun a => a.m * a.r.z).sum / (g.map (·.m)).sum⟩ := by
  exact com_eq g

/-- the distance is the Euclidean length of the vector between the two centres of mass -/
theorem distance_is_euclidean (g1 g2 : AGroup ℝ) :
    distance g1 g2 = Real.sqrt (((com g2).x - (com g1).x) ^ 2 + ((com g2).y - (com g1).y) ^ 2 + ((com g2).z - (com g1).z) ^ 2) := by
  unfold distance distVec
  rw [norm_def, dot_def]
  congr 1
  simp only [sub_x, sub_y, sub_z]
  ring

/-- the radius of gyration is the root mean square distance of the atoms from their centre of geometry -/
theorem gyration_is_rms (g : AGroup ℝ) :
    gyration g = Real.sqrt ((g.map fun a => V3.norm2 (V3.sub a.r (cog g))).sum / (g.length : ℝ)) := by
  exact gyration_eq g

/-! ## rigid translation -/

theorem com_translate (g : AGroup ℝ) (v : V3 ℝ) (h : MassOk g) : com (translate g v) = V3.add (com g) v := by
  have hM : (g.map (·.m)).sum ≠ 0 := (mass_pos g h.1 h.2).ne'
  rw [com_eq, com_eq]
  unfold translate
  simp only [List.map_map, Function.comp_def, add_x, add_y, add_z]
  rw [sum_map_mul_add g (fun a => a.r.x), sum_map_mul_add g (fun a => a.r.y), sum_map_mul_add g (fun a => a.r.z)]
  apply V3.ext <;> simp only [add_x, add_y, add_z] <;> field_simp

theorem distance_translation (g1 g2 : AGroup ℝ) (v : V3 ℝ) (h1 : MassOk g1) (h2 : MassOk g2) :
    distance (translate g1 v) (translate g2 v) = distance g1 g2 := by
  unfold distance distVec
  rw [com_translate g1 v h1, com_translate g2 v h2, sub_add_add]

theorem distanceZ_translation (main ref : AGroup ℝ) (axis v : V3 ℝ) (hm : MassOk main) (hr : MassOk ref) :
    distanceZ (translate main v) (translate ref v) axis = distanceZ main ref axis := by
  unfold distanceZ
  rw [com_translate main v hm, com_translate ref v hr, sub_add_add]

theorem distanceXY_translation (main ref : AGroup ℝ) (axis v : V3 ℝ) (hm : MassOk main) (hr : MassOk ref) :
    distanceXY (translate main v) (translate ref v) axis = distanceXY main ref axis := by
  unfold distanceXY orthoPart
  simp only [com_translate main v hm, com_translate ref v hr, sub_add_add]

theorem gyration_translation (g : AGroup ℝ) (v : V3 ℝ) (hg : g ≠ []) : gyration (translate g v) = gyration g := by
  have hn : (g.length : ℝ) ≠ 0 := by
    have : g.length ≠ 0 := by simpa using hg
    exact_mod_cast this
  have hc : cog (translate g v) = V3.add (cog g) v := by
    rw [cog_eq, cog_eq]
    unfold translate
    simp only [List.map_map, Function.comp_def, add_x, add_y, add_z, List.length_map]
    rw [sum_map_add_const g (fun a => a.r.x), sum_map_add_const g (fun a => a.r.y),
      sum_map_add_const g (fun a => a.r.z)]
    apply V3.ext <;> simp only [add_x, add_y, add_z] <;> field_simp
  rw [gyration_eq, gyration_eq, hc]
  unfold translate
  simp only [List.map_map, Function.comp_def, sub_add_add, List.length_map]

theorem angle_translation (g1 g2 g3 : AGroup ℝ) (v : V3 ℝ) (h1 : MassOk g1) (h2 : MassOk g2) (h3 : MassOk g3) :
    angle (translate g1 v) (translate g2 v) (translate g3 v) = angle g1 g2 g3 := by
  unfold angle angleCos
  simp only [com_translate g1 v h1, com_translate g2 v h2, com_translate g3 v h3, sub_add_add]

/-! ## rotations and reflections -/

theorem com_transform (R : V3 ℝ → V3 ℝ) (hR : Isometry R) (g : AGroup ℝ) : com (transform R g) = R (com g) := by
  exact com_map_R R hR.add hR.smul g

theorem distance_rotation (R : V3 ℝ → V3 ℝ) (hR : Isometry R) (g1 g2 : AGroup ℝ) :
    distance (transform R g1) (transform R g2) = distance g1 g2 := by
  unfold distance distVec
  rw [com_transform R hR, com_transform R hR, ← R_sub R hR.add hR.smul, R_norm R hR.dot]

theorem distanceZ_rotation (R : V3 ℝ → V3 ℝ) (hR : Isometry R) (main ref : AGroup ℝ) (axis : V3 ℝ) :
    distanceZ (transform R main) (transform R ref) (R axis) = distanceZ main ref axis := by
  unfold distanceZ
  rw [com_transform R hR, com_transform R hR, ← R_sub R hR.add hR.smul, R_unit R hR.smul hR.dot, hR.dot]

theorem distanceXY_rotation (R : V3 ℝ → V3 ℝ) (hR : Isometry R) (main ref : AGroup ℝ) (axis : V3 ℝ) :
    distanceXY (transform R main) (transform R ref) (R axis) = distanceXY main ref axis := by
  unfold distanceXY orthoPart
  simp only [com_transform R hR, ← R_sub R hR.add hR.smul, R_unit R hR.smul hR.dot, hR.dot, ← hR.smul,
    R_norm R hR.dot]

theorem gyration_rotation (R : V3 ℝ → V3 ℝ) (hR : Isometry R) (g : AGroup ℝ) :
    gyration (transform R g) = gyration g := by
  have hc : cog (transform R g) = R (cog g) := cog_map_R R hR.add hR.smul g
  rw [gyration_eq, gyration_eq, hc]
  unfold transform
  simp only [List.map_map, Function.comp_def, List.length_map, ← R_sub R hR.add hR.smul, R_norm2 R hR.dot]

theorem angle_rotation (R : V3 ℝ → V3 ℝ) (hR : Isometry R) (g1 g2 g3 : AGroup ℝ) :
    angle (transform R g1) (transform R g2) (transform R g3) = angle g1 g2 g3 := by
  unfold angle angleCos
  simp only [com_transform R hR, ← R_sub R hR.add hR.smul, hR.dot, R_norm R hR.dot]

/-! ## order of the atoms in a group, and the unit of mass -/

theorem com_perm (g g' : AGroup ℝ) (h : g.Perm g') : com g = com g' := by
  rw [com_eq, com_eq, (h.map (fun a => a.m)).sum_eq, (h.map (fun a => a.m * a.r.x)).sum_eq,
    (h.map (fun a => a.m * a.r.y)).sum_eq, (h.map (fun a => a.m * a.r.z)).sum_eq]

theorem distance_perm (g1 g1' g2 g2' : AGroup ℝ) (h1 : g1.Perm g1') (h2 : g2.Perm g2') :
    distance g1 g2 = distance g1' g2' := by
  unfold distance distVec
  rw [com_perm g1 g1' h1, com_perm g2 g2' h2]

theorem gyration_perm (g g' : AGroup ℝ) (h : g.Perm g') : gyration g = gyration g' := by
  have hc : cog g = cog g' := by
    rw [cog_eq, cog_eq, h.length_eq, (h.map (fun a => a.r.x)).sum_eq, (h.map (fun a => a.r.y)).sum_eq,
      (h.map (fun a => a.r.z)).sum_eq]
  rw [gyration_eq, gyration_eq, hc, h.length_eq, (h.map _).sum_eq]

theorem com_mass_scale (g : AGroup ℝ) (k : ℝ) (hk : k ≠ 0) (h : MassOk g) : com (scaleMass g k) = com g := by
  have _ := h  -- positivity of the masses is not needed: `k ≠ 0` suffices
  rw [com_eq, com_eq]
  unfold scaleMass
  simp only [List.map_map, Function.comp_def, mul_assoc]
  rw [sum_map_mul_left g (fun a => a.m * a.r.x), sum_map_mul_left g (fun a => a.m * a.r.y),
    sum_map_mul_left g (fun a => a.m * a.r.z), sum_map_mul_left g (fun a => a.m)]
  simp only [mul_div_mul_left _ _ hk]

/-! ## non-vacuity: a rotation about z by a right angle is an isometry -/
example : Isometry (fun v : V3 ℝ => (⟨-v.y, v.x, v.z⟩ : V3 ℝ)) := by
  refine ⟨?_, ?_, ?_⟩
  · intro a b; simp [V3.add]; ring
  · intro k a; simp [V3.smul]
  · intro a b; simp [V3.dot]; ring

/-! ## inertia, inertiaZ, distanceInv, coordNum: the same symmetries -/

private theorem cog_translate (g : AGroup ℝ) (v : V3 ℝ) (hg : g ≠ []) : cog (translate g v) = V3.add (cog g) v := by
  have hn : (g.length : ℝ) ≠ 0 := by
    have : g.length ≠ 0 := by simpa using hg
    exact_mod_cast this
  rw [cog_eq, cog_eq]
  unfold translate
  simp only [List.map_map, Function.comp_def, add_x, add_y, add_z, List.length_map]
  rw [sum_map_add_const g (fun a => a.r.x), sum_map_add_const g (fun a => a.r.y),
    sum_map_add_const g (fun a => a.r.z)]
  apply V3.ext <;> simp only [add_x, add_y, add_z] <;> field_simp

private theorem cog_perm (g g' : AGroup ℝ) (h : g.Perm g') : cog g = cog g' := by
  rw [cog_eq, cog_eq, h.length_eq, (h.map (fun a => a.r.x)).sum_eq, (h.map (fun a => a.r.y)).sum_eq,
    (h.map (fun a => a.r.z)).sum_eq]

theorem inertia_is_sum (g : AGroup ℝ) : inertia g = (g.map fun a => V3.norm2 (V3.sub a.r (cog g))).sum := by
  exact inertia_eq g

theorem inertia_translation (g : AGroup ℝ) (v : V3 ℝ) (hg : g ≠ []) : inertia (translate g v) = inertia g := by
  rw [inertia_eq, inertia_eq, cog_translate g v hg]
  unfold translate
  simp only [List.map_map, Function.comp_def, sub_add_add]

theorem inertia_rotation (R : V3 ℝ → V3 ℝ) (hR : Isometry R) (g : AGroup ℝ) : inertia (transform R g) = inertia g := by
  have hc : cog (transform R g) = R (cog g) := cog_map_R R hR.add hR.smul g
  rw [inertia_eq, inertia_eq, hc]
  unfold transform
  simp only [List.map_map, Function.comp_def, ← R_sub R hR.add hR.smul, R_norm2 R hR.dot]

theorem inertia_perm (g g' : AGroup ℝ) (h : g.Perm g') : inertia g = inertia g' := by
  rw [inertia_eq, inertia_eq, cog_perm g g' h, (h.map _).sum_eq]

theorem inertiaZ_translation (g : AGroup ℝ) (axis v : V3 ℝ) (hg : g ≠ []) :
    inertiaZ (translate g v) axis = inertiaZ g axis := by
  rw [inertiaZ_eq, inertiaZ_eq, cog_translate g v hg]
  unfold translate
  simp only [List.map_map, Function.comp_def, sub_add_add]

theorem inertiaZ_rotation (R : V3 ℝ → V3 ℝ) (hR : Isometry R) (g : AGroup ℝ) (axis : V3 ℝ) :
    inertiaZ (transform R g) (R axis) = inertiaZ g axis := by
  have hc : cog (transform R g) = R (cog g) := cog_map_R R hR.add hR.smul g
  rw [inertiaZ_eq, inertiaZ_eq, hc]
  unfold transform
  simp only [List.map_map, Function.comp_def, ← R_sub R hR.add hR.smul, R_unit R hR.smul hR.dot, hR.dot]

private theorem reducedDist2_translate (p : SwParams ℝ) (a b : Atom ℝ) (v : V3 ℝ) :
    reducedDist2 p { a with r := V3.add a.r v } { b with r := V3.add b.r v } = reducedDist2 p a b := by
  unfold reducedDist2
  simp only [sub_add_add]

/-- the coordination number depends on the pair distances only -/
theorem coordNum_translation (g1 g2 : AGroup ℝ) (p : SwParams ℝ) (v : V3 ℝ) :
    coordNum (translate g1 v) (translate g2 v) p = coordNum g1 g2 p := by
  rw [coordNum_eq, coordNum_eq]
  unfold translate
  simp only [List.map_map, Function.comp_def, reducedDist2_translate]

theorem coordNum_rotation (R : V3 ℝ → V3 ℝ) (hR : Isometry R) (g1 g2 : AGroup ℝ) (p : SwParams ℝ) (hr0 : p.r0 ≠ 0) :
    coordNum (transform R g1) (transform R g2) p = coordNum g1 g2 p := by
  have _ := hr0  -- not needed at ℝ: `x / 0 = 0`, and `(d/r0)·(d/r0) = d·d/(r0·r0)` holds for every `r0`
  rw [coordNum_eq, coordNum_eq]
  unfold transform
  simp only [List.map_map, Function.comp_def, reducedDist2_eq, ← R_sub R hR.add hR.smul, R_norm2 R hR.dot]

theorem coordNum_perm (g1 g1' g2 g2' : AGroup ℝ) (p : SwParams ℝ) (h1 : g1.Perm g1') (h2 : g2.Perm g2') :
    coordNum g1 g2 p = coordNum g1' g2' p := by
  rw [coordNum_eq, coordNum_eq]
  exact sum_sum_perm _ g1 g1' g2 g2' h1 h2

theorem distanceInv_translation (g1 g2 : AGroup ℝ) (n : Nat) (v : V3 ℝ) :
    distanceInv (translate g1 v) (translate g2 v) n = distanceInv g1 g2 n := by
  rw [distanceInv_eq, distanceInv_eq]
  unfold translate
  simp only [List.map_map, Function.comp_def, sub_add_add, List.length_map]

theorem distanceInv_rotation (R : V3 ℝ → V3 ℝ) (hR : Isometry R) (g1 g2 : AGroup ℝ) (n : Nat) :
    distanceInv (transform R g1) (transform R g2) n = distanceInv g1 g2 n := by
  rw [distanceInv_eq, distanceInv_eq]
  unfold transform
  simp only [List.map_map, Function.comp_def, List.length_map, ← R_sub R hR.add hR.smul, R_norm2 R hR.dot]

theorem distanceInv_perm (g1 g1' g2 g2' : AGroup ℝ) (n : Nat) (h1 : g1.Perm g1') (h2 : g2.Perm g2') :
    distanceInv g1 g2 n = distanceInv g1' g2' n := by
  rw [distanceInv_eq, distanceInv_eq, h1.length_eq, h2.length_eq,
    sum_sum_perm (fun a b => invPow (V3.norm2 (V3.sub b.r a.r)) (n / 2)) g1 g1' g2 g2' h1 h2]

end Cv.C02
