import CvProps.RealInst
import CvProps.C15Lemmas
/-! Helper lemmas for C16 (PMF integration: divergence bookkeeping, 1-D integration, Laplacian, conjugate gradients). -/
open Cv Cv.Integ

namespace Cv.Integ.L
open Cv.C15

/-! ## sums, the Laplacian -/

theorem foldl_add {β : Type} (f : β → ℝ) (l : List β) (a : ℝ) :
    l.foldl (fun acc d => acc + f d) a = a + (l.map f).sum := by
  induction l generalizing a with
  | nil => simp
  | cons x xs ih => simp [ih, add_assoc]

theorem stencil_const (pnx : List Int) (per : List Bool) (c : ℝ) (p : Idx) (d : Nat) :
    stencil pnx per (fun _ => c) p d = 0 := by
  unfold stencil
  simp only
  split_ifs <;> norm_num <;> ring

theorem stencil_linear (pnx : List Int) (per : List Bool) (A B : Idx → ℝ) (a : ℝ) (p : Idx) (d : Nat) :
    stencil pnx per (fun q => A q + a * B q) p d = stencil pnx per A p d + a * stencil pnx per B p d := by
  unfold stencil
  simp only
  split_ifs <;> norm_num <;> ring

theorem lapAt_eq_sum (pnx : List Int) (per : List Bool) (w : List ℝ) (A : Idx → ℝ) (p : Idx) :
    lapAt pnx per w A p = ((List.range pnx.length).map fun d =>
      lapFact pnx per p d * (1.0 / (w.getD d 1.0 * w.getD d 1.0)) * stencil pnx per A p d).sum := by
  unfold lapAt
  rw [foldl_add]
  norm_num

theorem lapAt_const (pnx : List Int) (per : List Bool) (w : List ℝ) (c : ℝ) (p : Idx) :
    lapAt pnx per w (fun _ => c) p = 0 := by
  rw [lapAt_eq_sum]
  simp [stencil_const]

theorem lapAt_linear (pnx : List Int) (per : List Bool) (w : List ℝ) (A B : Idx → ℝ) (a : ℝ) (p : Idx) :
    lapAt pnx per w (fun q => A q + a * B q) p = lapAt pnx per w A p + a * lapAt pnx per w B p := by
  simp only [lapAt_eq_sum, stencil_linear]
  norm_num
  generalize List.range pnx.length = l
  induction l with
  | nil => simp
  | cons x xs ih => simp only [List.map_cons, List.sum_cons, ih]; ring

/-! ## `atimes`, conjugate gradients -/

theorem axpy_length (a : ℝ) (p x : List ℝ) : (axpy a p x).length = min x.length p.length := by
  simp [axpy]

theorem axpy_getD (a : ℝ) (p x : List ℝ) (h : x.length = p.length) (k : Nat) :
    (axpy a p x).getD k 0.0 = x.getD k 0.0 + a * p.getD k 0.0 := by
  unfold axpy
  simp only [List.getD_eq_getElem?_getD, List.getElem?_zipWith]
  by_cases hk : k < x.length
  · have hk' : k < p.length := h ▸ hk
    simp [List.getElem?_eq_getElem hk, List.getElem?_eq_getElem hk']
  · have hk' : ¬ k < p.length := h ▸ hk
    rw [List.getElem?_eq_none (by omega), List.getElem?_eq_none (by omega)]
    norm_num

theorem vget_axpy (a : ℝ) (p x : List ℝ) (h : x.length = p.length) (i : Int) :
    vget (axpy a p x) i = vget x i + a * vget p i := by
  unfold vget
  split_ifs
  · norm_num
  · exact axpy_getD a p x h _

theorem atimes_axpy (pnx : List Int) (per : List Bool) (w : List ℝ) (a : ℝ) (x p : List ℝ)
    (h : x.length = p.length) :
    atimes pnx per w (axpy a p x) = axpy a (atimes pnx per w p) (atimes pnx per w x) := by
  unfold atimes
  simp only [vget_axpy a p x h, lapAt_linear]
  simp [axpy, List.zipWith_map_left, List.zipWith_map_right]

theorem atimes_length (pnx : List Int) (per : List Bool) (w : List ℝ) (x : List ℝ) :
    (atimes pnx per w x).length = (points pnx).length := by
  simp [atimes]

/-! CG -/

theorem zipWith_sub_axpy (ak : ℝ) : ∀ (b u z : List ℝ),
    axpy (-ak) z (List.zipWith (· - ·) b u) = List.zipWith (· - ·) b (axpy ak z u)
  | [], _, _ => by simp [axpy]
  | _ :: _, [], _ => by simp [axpy]
  | _ :: _, _ :: _, [] => by simp [axpy]
  | b :: bs, u :: us, z :: zs => by
    have := zipWith_sub_axpy ak bs us zs
    simp only [axpy] at this ⊢
    simp only [List.zipWith_cons_cons, this]
    congr 1
    ring

/-- the loop invariant of the solver -/
def CgInv (L : List ℝ → List ℝ) (n : Nat) (b : List ℝ) (bnrm tol : ℝ) (s : Cg ℝ) : Prop :=
  s.x.length = n ∧ s.r.length = n ∧ s.p.length = n ∧ s.r = List.zipWith (· - ·) b (L s.x) ∧
  (s.stop = true → l2norm s.r / bnrm ≤ tol)

theorem cgIter_inv (L : List ℝ → List ℝ) (n : Nat)
    (hlen : ∀ x, x.length = n → (L x).length = n)
    (hlin : ∀ a x p, x.length = n → p.length = n → L (axpy a p x) = axpy a (L p) (L x))
    (b : List ℝ) (bnrm tol : ℝ) (s : Cg ℝ) (h : CgInv L n b bnrm tol s) :
    CgInv L n b bnrm tol (cgIter L bnrm tol s) := by
  obtain ⟨hx, hr, hp, hres, _⟩ := h
  have hp' : (if (s.iter + 1 == 1) = true then s.r else axpy (dotL s.r s.r / s.bkden) s.p s.r).length = n := by
    split_ifs
    · exact hr
    · rw [axpy_length, hr, hp]; simp
  unfold cgIter
  refine ⟨?_, ?_, hp', ?_, ?_⟩
  · simp only [axpy_length, hx, hp']; simp
  · simp only [axpy_length, hr, hlen _ hp']; simp
  · simp only
    rw [hlin _ _ _ hx hp', ← zipWith_sub_axpy, ← hres]
  · simp only [decide_eq_true_eq]
    exact id

theorem cgLoop_inv (L : List ℝ → List ℝ) (n : Nat)
    (hlen : ∀ x, x.length = n → (L x).length = n)
    (hlin : ∀ a x p, x.length = n → p.length = n → L (axpy a p x) = axpy a (L p) (L x))
    (b : List ℝ) (bnrm tol : ℝ) : ∀ (fuel : Nat) (s : Cg ℝ), CgInv L n b bnrm tol s →
    CgInv L n b bnrm tol (cgLoop L bnrm tol fuel s)
  | 0, s, h => h
  | fuel + 1, s, h => by
    unfold cgLoop
    split_ifs
    · exact h
    · exact cgLoop_inv L n hlen hlin b bnrm tol fuel _ (cgIter_inv L n hlen hlin b bnrm tol s h)

theorem cgSolve_inv (L : List ℝ → List ℝ) (n : Nat)
    (hlen : ∀ x, x.length = n → (L x).length = n)
    (hlin : ∀ a x p, x.length = n → p.length = n → L (axpy a p x) = axpy a (L p) (L x))
    (b x0 : List ℝ) (tol : ℝ) (itmax : Nat) (hb : b.length = n) (hx : x0.length = n) :
    CgInv L n b (l2norm b) tol (cgSolve L b x0 tol itmax) := by
  have h0 : CgInv L n b (l2norm b) tol
      { x := x0, r := List.zipWith (· - ·) b (L x0), p := List.zipWith (· - ·) b (L x0),
        bkden := 1.0, iter := 0, err := 0.0, stop := false } := by
    refine ⟨hx, ?_, ?_, rfl, by simp⟩ <;> simp [hb, hlen _ hx]
  unfold cgSolve
  simp only
  split_ifs
  · exact h0
  · exact cgLoop_inv L n hlen hlin b _ tol itmax _ h0

theorem cgSolve_stop_pos (L : List ℝ → List ℝ) (b x0 : List ℝ) (tol : ℝ) (itmax : Nat)
    (h : (cgSolve L b x0 tol itmax).stop = true) : 0 < l2norm b := by
  unfold cgSolve at h
  by_cases hlt : l2norm b < 1.0e-14
  · simp [hlt] at h
  · have : (1.0e-14 : ℝ) ≤ l2norm b := not_lt.1 hlt
    have h2 : (0:ℝ) < 1.0e-14 := by norm_num
    exact lt_of_lt_of_le h2 this

/-! ## one dimension -/

theorem average1D_eq (g : GGrid ℝ) (sm : Bool) (n : Nat) :
    average1D g sm n = ((List.range n).map (valOut g sm)).sum / (n : ℝ) := by
  unfold average1D
  rw [foldl_add]
  norm_num

theorem prefixSums_length : ∀ (acc : ℝ) (vs : List ℝ), (prefixSums acc vs).length = vs.length + 1
  | _, [] => rfl
  | acc, v :: vs => by simp [prefixSums, prefixSums_length (acc + v) vs]

theorem prefixSums_getD : ∀ (acc : ℝ) (vs : List ℝ) (i : Nat), i ≤ vs.length →
    (prefixSums acc vs).getD i 0 = acc + (vs.take i).sum
  | acc, [], i, h => by
    have : i = 0 := by simpa using h
    subst this; simp [prefixSums]
  | acc, v :: vs, 0, _ => by simp [prefixSums]
  | acc, v :: vs, i + 1, h => by
    have := prefixSums_getD (acc + v) vs i (by simpa using h)
    simp only [prefixSums, List.getD_cons_succ, this, List.take_succ_cons, List.sum_cons]
    ring

theorem take_map_range {β : Type} (f : Nat → β) (n i : Nat) (h : i ≤ n) :
    ((List.range n).map f).take i = (List.range i).map f := by
  rw [← List.map_take, List.take_range, Nat.min_eq_left h]

theorem sum_map_sub_mul (f : Nat → ℝ) (a w : ℝ) (l : List Nat) :
    (l.map fun i => (f i - a) * w).sum = ((l.map f).sum - (l.length : ℝ) * a) * w := by
  induction l with
  | nil => simp
  | cons x xs ih => simp only [List.map_cons, List.sum_cons, ih, List.length_cons]; push_cast; ring

/-- the list `integrate1D` computes, with the shape plugged in -/
theorem integrate1D_eq (g : GGrid ℝ) (sm csm : Bool) (n : Nat) (w : ℝ) (per : Bool)
    (hnx : g.shape.nx = [(n : Int)]) (hper : g.shape.per = [per]) (hw : g.w = [w]) :
    integrate1D g sm csm =
      (if per then
        (prefixSums 0 ((List.range n).map fun i => (valOut g sm i - average1D g csm n) * w)).take n
      else prefixSums 0 ((List.range n).map fun i => (valOut g sm i - 0) * w)) := by
  unfold integrate1D
  simp only [hnx, hper, hw, List.getD_cons_zero, Int.toNat_natCast]
  cases per <;> norm_num

/-! ## corners, `wrap_detect_edge`, touched points -/


/-! corners -/
theorem mem_cornersDown_succ (n : Nat) (c : Idx) :
    c ∈ cornersDown (n + 1) ↔ ∃ c' ∈ cornersDown n, c = (-1) :: c' ∨ c = 0 :: c' := by
  simp [cornersDown]

theorem mem_cornersUp_succ (n : Nat) (c : Idx) :
    c ∈ cornersUp (n + 1) ↔ ∃ c' ∈ cornersUp n, c = 0 :: c' ∨ c = 1 :: c' := by
  simp [cornersUp]

@[simp] theorem mem_cornersDown_zero (c : Idx) : c ∈ cornersDown 0 ↔ c = [] := by simp [cornersDown]
@[simp] theorem mem_cornersUp_zero (c : Idx) : c ∈ cornersUp 0 ↔ c = [] := by simp [cornersUp]

theorem wrapEdge_cons (n : Int) (ns : List Int) (p : Bool) (ps : List Bool) (i : Int) (is : Idx) :
    wrapEdge (n :: ns) (p :: ps) (i :: is) =
      match wrapEdge ns ps is with
      | none => none
      | some r =>
        if p then some (Int.tmod (i + n) n :: r)
        else if i < 0 ∨ i ≥ n then none else some (i :: r) := rfl

theorem wrapIdx_cons (n : Int) (ns : List Int) (p : Bool) (ps : List Bool) (i : Int) (is : Idx) :
    wrapIdx (n :: ns) (p :: ps) (i :: is) = (if p then Int.tmod (i + n) n else i) :: wrapIdx ns ps is := rfl

theorem addIdx_cons (a b : Int) (as bs : Idx) : addIdx (a :: as) (b :: bs) = (a + b) :: addIdx as bs := rfl

theorem tmod_add_self (a n : Int) (h0 : 0 ≤ a) (h1 : a < n) : Int.tmod (a + n) n = a := by
  rw [Int.tmod_eq_emod_of_nonneg (by omega), Int.add_emod_right, Int.emod_eq_of_lt h0 h1]

theorem touched_aux : ∀ (nx : List Int) (per : List Bool) (q c b : Idx),
    per.length = nx.length → (∀ n ∈ nx, 1 ≤ n) →
    indexOk (List.zipWith (fun n p => if p then n else n + 1) nx per) q = true →
    c ∈ cornersDown nx.length → wrapEdge nx per (addIdx q c) = some b →
    ∃ e ∈ cornersUp nx.length,
      q = wrapIdx (List.zipWith (fun n p => if p then n else n + 1) nx per) per (addIdx b e)
  | [], per, q, c, b, hl, _, hq, hc, hb => by
    cases per with
    | cons _ _ => simp at hl
    | nil =>
      cases q with
      | cons _ _ => simp at hq
      | nil =>
        refine ⟨[], by simp, ?_⟩
        cases b <;> rfl
  | n :: ns, per, q, c, b, hl, hpos, hq, hc, hb => by
    cases per with
    | nil => simp at hl
    | cons p ps =>
      cases q with
      | nil => simp at hq
      | cons qi qs =>
        simp only [List.zipWith_cons_cons] at hq ⊢
        rw [indexOk_cons] at hq
        obtain ⟨hq0, hq1, hqs⟩ := hq
        simp only [List.length_cons] at hc ⊢
        rw [mem_cornersDown_succ] at hc
        obtain ⟨c', hc', hcc⟩ := hc
        have hn : 1 ≤ n := hpos n (by simp)
        have hpos' : ∀ m ∈ ns, 1 ≤ m := fun m hm => hpos m (List.mem_cons_of_mem _ hm)
        have hl' : ps.length = ns.length := by simpa using hl
        -- split the wrapEdge equation
        have key : ∃ ci : Int, (ci = -1 ∨ ci = 0) ∧ c = ci :: c' := by
          rcases hcc with h | h
          · exact ⟨-1, Or.inl rfl, h⟩
          · exact ⟨0, Or.inr rfl, h⟩
        obtain ⟨ci, hci, rfl⟩ := key
        rw [addIdx_cons, wrapEdge_cons] at hb
        cases hr : wrapEdge ns ps (addIdx qs c') with
        | none => rw [hr] at hb; simp at hb
        | some r =>
          rw [hr] at hb
          simp only at hb
          obtain ⟨e', he', hqe⟩ := touched_aux ns ps qs c' r hl' hpos' hqs hc' hr
          cases p with
          | true =>
            simp only [if_true, Option.some.injEq] at hb hq1
            subst hb
            refine ⟨(-ci) :: e', ?_, ?_⟩
            · rw [mem_cornersUp_succ]
              refine ⟨e', he', ?_⟩
              rcases hci with rfl | rfl
              · right; rfl
              · left; rfl
            · rw [addIdx_cons, wrapIdx_cons, ← hqe]
              simp only [if_true]
              congr 1
              rcases hci with rfl | rfl
              · by_cases h0 : qi = 0
                · subst h0
                  have e0 : (0 : Int) + -1 + n = n - 1 := by ring
                  have e1 : Int.tmod (n - 1) n = n - 1 := by
                    rw [Int.tmod_eq_emod_of_nonneg (by omega)]
                    exact Int.emod_eq_of_lt (a := n - 1) (b := n) (by omega) (by omega)
                  rw [e0, e1]
                  have e2 : n - 1 + - -1 + n = n + n := by ring
                  rw [e2, Int.tmod_eq_emod_of_nonneg (by omega), Int.add_emod_right, Int.emod_self]
                · have e1 : qi + -1 + n = (qi - 1) + n := by ring
                  rw [e1, tmod_add_self (qi - 1) n (by omega) (by omega)]
                  have e2 : qi - 1 + - -1 + n = qi + n := by ring
                  rw [e2, tmod_add_self qi n hq0 hq1]
              · simp only [add_zero, neg_zero]
                rw [tmod_add_self qi n hq0 hq1, tmod_add_self qi n hq0 hq1]
          | false =>
            simp only [Bool.false_eq_true, if_false] at hb hq1
            split_ifs at hb with hout
            simp only [Option.some.injEq] at hb
            subst hb
            refine ⟨(-ci) :: e', ?_, ?_⟩
            · rw [mem_cornersUp_succ]
              refine ⟨e', he', ?_⟩
              rcases hci with rfl | rfl
              · right; rfl
              · left; rfl
            · rw [addIdx_cons, wrapIdx_cons, ← hqe]
              simp

/-! ## divergence bookkeeping -/


theorem divLocal_congr (g g' : GGrid ℝ) (sm : Bool) (q : Idx)
    (hs : g'.shape = g.shape) (hw : g'.w = g.w)
    (h : ∀ c ∈ cornersDown g.shape.nd, gradAt g' sm (addIdx q c) = gradAt g sm (addIdx q c)) :
    divLocal g' sm q = divLocal g sm q := by
  have ht : ∀ d, divTerm g' sm q d = divTerm g sm q d := by
    intro d
    unfold divTerm
    rw [hs, hw]
    congr 1
    apply List.foldl_ext
    intro a c hc
    simp only [h c hc]
  unfold divLocal
  simp only [ht, hs]

/-- folding `updateDivLocal` over a list of points: the listed points hold the fresh value, the others are untouched -/
theorem foldl_updateDivLocal (g : GGrid ℝ) (sm : Bool) : ∀ (pts : List Idx) (dv : DivF ℝ) (q : Idx),
    (pts.foldl (fun d p => updateDivLocal g sm d p) dv) q = if q ∈ pts then divLocal g sm q else dv q
  | [], dv, q => by simp
  | p :: ps, dv, q => by
    rw [List.foldl_cons, foldl_updateDivLocal g sm ps]
    by_cases h1 : q ∈ ps
    · simp [h1]
    · by_cases h2 : q = p
      · subst h2; simp [updateDivLocal]
      · simp [h1, h2, updateDivLocal]

theorem updateDivNeighbors_eq (g : GGrid ℝ) (sm : Bool) (dv : DivF ℝ) (b q : Idx) :
    updateDivNeighbors g sm dv b q =
      if (∃ e ∈ cornersUp g.shape.nd, q = wrapIdx g.shape.pmfNx g.shape.per (addIdx b e))
      then divLocal g sm q else dv q := by
  unfold updateDivNeighbors
  have := foldl_updateDivLocal g sm
    ((cornersUp g.shape.nd).map fun e => wrapIdx g.shape.pmfNx g.shape.per (addIdx b e)) dv q
  rw [List.foldl_map] at this
  rw [this]
  simp only [List.mem_map, eq_comm]

/-- `get_grad` after `acc_force(b)` at an index that does not wrap to `b` -/
theorem gradAt_accForce_of_ne (g : GGrid ℝ) (sm : Bool) (b : Idx) (f : List ℝ) (ix : Idx)
    (h : wrapEdge g.shape.nx g.shape.per ix ≠ some b) :
    gradAt (accForce g b f) sm ix = gradAt g sm ix := by
  unfold gradAt
  show (match wrapEdge g.shape.nx g.shape.per ix with
    | none => _
    | some j => _) = _
  cases hj : wrapEdge g.shape.nx g.shape.per ix with
  | none => rfl
  | some j =>
    have hne : j ≠ b := by
      intro e; apply h; rw [hj, e]
    simp [accForce, hne]

theorem zipWith_sub_comm : ∀ (s a b : List ℝ),
    List.zipWith (· - ·) (List.zipWith (· - ·) s a) b = List.zipWith (· - ·) (List.zipWith (· - ·) s b) a
  | [], _, _ => by simp
  | _ :: _, [], [] => by simp
  | _ :: _, [], _ :: _ => by simp
  | _ :: _, _ :: _, [] => by simp
  | s :: ss, a :: as, b :: bs => by
    simp only [List.zipWith_cons_cons, zipWith_sub_comm ss as bs]
    congr 1; ring

theorem accForce_comm (g : GGrid ℝ) (b1 b2 : Idx) (f1 f2 : List ℝ) :
    accForce (accForce g b1 f1) b2 f2 = accForce (accForce g b2 f2) b1 f1 := by
  unfold accForce
  simp only [GGrid.mk.injEq, true_and]
  constructor
  · funext j
    by_cases hb : b1 = b2
    · subst hb; by_cases h1 : j = b1 <;> simp [h1, zipWith_sub_comm]
    · by_cases h1 : j = b1
      · subst h1; simp [hb]
      · by_cases h2 : j = b2
        · subst h2; simp [h1]
        · simp [h1, h2]
  · funext j
    by_cases hb : b1 = b2
    · subst hb; by_cases h1 : j = b1 <;> simp [h1]
    · by_cases h1 : j = b1
      · subst h1; simp [hb]
      · by_cases h2 : j = b2
        · subst h2; simp [h1]
        · simp [h1, h2]

theorem samples_fst (sm : Bool) : ∀ (l : List (Idx × List ℝ)) (st : GGrid ℝ × DivF ℝ),
    (samples sm st l).1 = l.foldl (fun g bf => accForce g bf.1 bf.2) st.1
  | [], st => rfl
  | bf :: l, st => by
    unfold samples
    rw [List.foldl_cons, List.foldl_cons]
    exact samples_fst sm l (sample sm st bf)

theorem samples_fst_perm (sm : Bool) (l₁ l₂ : List (Idx × List ℝ)) (hp : l₁.Perm l₂)
    (st : GGrid ℝ × DivF ℝ) : (samples sm st l₁).1 = (samples sm st l₂).1 := by
  rw [samples_fst, samples_fst]
  apply List.Perm.foldl_eq' hp
  intro x _ y _ z
  exact accForce_comm z x.1 y.1 x.2 y.2

theorem foldl_accForce_shape : ∀ (l : List (Idx × List ℝ)) (g : GGrid ℝ),
    (l.foldl (fun g bf => accForce g bf.1 bf.2) g).shape = g.shape ∧
    (l.foldl (fun g bf => accForce g bf.1 bf.2) g).w = g.w
  | [], g => ⟨rfl, rfl⟩
  | bf :: l, g => by
    rw [List.foldl_cons]
    exact foldl_accForce_shape l _

end Cv.Integ.L
