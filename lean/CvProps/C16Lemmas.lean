import CvProps.RealInst
import CvProps.C15Lemmas
/-! Helper lemmas for C16 (filled by the proofs). -/
