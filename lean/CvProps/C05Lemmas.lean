import CvProps.RealInst
import CvProps.C15Lemmas
import CvProps.C18Lemmas
/-!
# Helper lemmas for C05 (metadynamics: hills, grids, deposition schedule), all over `ℝ`.
-/
open Cv

namespace Cv.C05

/-! ## literals, folds -/

theorem zero_lit : (0.0 : ℝ) = 0 := by norm_num
theorem one_lit : (1.0 : ℝ) = 1 := by norm_num

theorem foldl_add_map {β : Type} (f : β → ℝ) (l : List β) (b : ℝ) :
    l.foldl (fun e h => e + f h) b = b + (l.map f).sum := by
  induction l generalizing b with
  | nil => simp
  | cons x l ih => simp [ih, add_assoc]

theorem hillsEnergy_sum' (p : MetaParams ℝ) (hs : List (Hill ℝ)) (xs : List ℝ) :
    hillsEnergy p hs xs = (hs.map fun h => h.w * hillValue p h xs).sum := by
  unfold hillsEnergy
  rw [foldl_add_map (fun h => h.w * hillValue p h xs), zero_lit, zero_add]

theorem hillsEnergy_foldl (p : MetaParams ℝ) (hs : List (Hill ℝ)) (xs : List ℝ) (b : ℝ) :
    hs.foldl (fun e h => e + h.w * hillValue p h xs) b = b + hillsEnergy p hs xs := by
  rw [hillsEnergy_sum', foldl_add_map (fun h => h.w * hillValue p h xs)]

theorem hillsEnergy_append (p : MetaParams ℝ) (a b : List (Hill ℝ)) (xs : List ℝ) :
    hillsEnergy p (a ++ b) xs = hillsEnergy p a xs + hillsEnergy p b xs := by
  simp [hillsEnergy_sum']

theorem hillsEnergy_nil (p : MetaParams ℝ) (xs : List ℝ) : hillsEnergy p [] xs = 0 := by
  simp [hillsEnergy_sum']

theorem hillsForce_sum' (p : MetaParams ℝ) (hs : List (Hill ℝ)) (xs : List ℝ) (i : Nat) :
    hillsForce p hs xs i = (hs.map fun h => h.w * hillValue p h xs * (0.5 / (h.sigmas.getD i 1 * h.sigmas.getD i 1)) *
      dist2SGrad (p.per.getD i none) (xs.getD i 0) (h.centers.getD i 0)).sum := by
  unfold hillsForce
  simp only [zero_lit, one_lit]
  rw [foldl_add_map (fun h => h.w * hillValue p h xs * (0.5 / (h.sigmas.getD i 1 * h.sigmas.getD i 1)) *
      dist2SGrad (p.per.getD i none) (xs.getD i 0) (h.centers.getD i 0)), zero_add]

/-! ## the truncated Gaussian -/

/-- the exponent sum of `hillValue` -/
noncomputable def sqSum (p : MetaParams ℝ) (h : Hill ℝ) (xs : List ℝ) : ℝ :=
  (List.zipWith (fun (pc : Option ℝ × ℝ) (cs : ℝ × ℝ) =>
      dist2S pc.1 pc.2 cs.1 / (cs.2 * cs.2)) (p.per.zip xs) (h.centers.zip h.sigmas)).foldl (· + ·) 0.0

theorem hillValue_eq (p : MetaParams ℝ) (h : Hill ℝ) (xs : List ℝ) :
    hillValue p h xs = if sqSum p h xs > 23.0 then 0.0 else Real.exp (-0.5 * sqSum p h xs) := rfl

theorem zipWith_terms_nonneg : ∀ (l1 : List (Option ℝ × ℝ)) (l2 : List (ℝ × ℝ)),
    ∀ x ∈ List.zipWith (fun (pc : Option ℝ × ℝ) (cs : ℝ × ℝ) =>
      dist2S pc.1 pc.2 cs.1 / (cs.2 * cs.2)) l1 l2, 0 ≤ x
  | [], _, x, hx => by simp at hx
  | _ :: _, [], x, hx => by simp at hx
  | a :: l1, b :: l2, x, hx => by
    rw [List.zipWith_cons_cons, List.mem_cons] at hx
    rcases hx with rfl | hx
    · exact div_nonneg (mul_self_nonneg _) (mul_self_nonneg _)
    · exact zipWith_terms_nonneg l1 l2 x hx

theorem sqSum_nonneg (p : MetaParams ℝ) (h : Hill ℝ) (xs : List ℝ) : 0 ≤ sqSum p h xs := by
  unfold sqSum
  rw [C18.foldl_add_real, zero_lit, zero_add]
  exact List.sum_nonneg (zipWith_terms_nonneg _ _)

theorem hillValue_bounds (p : MetaParams ℝ) (h : Hill ℝ) (xs : List ℝ) :
    0 ≤ hillValue p h xs ∧ hillValue p h xs ≤ 1 := by
  rw [hillValue_eq]
  have h0 := sqSum_nonneg p h xs
  split_ifs
  · norm_num
  · refine ⟨(Real.exp_pos _).le, Real.exp_le_one_iff.2 ?_⟩
    norm_num
    linarith

end Cv.C05
