import CvProps.RealInst
import CvProps.C15Lemmas
import CvProps.C18Lemmas
/-!
# Helper lemmas for C05 (metadynamics: hills, grids, deposition schedule), all over `ℝ`.
-/
open Cv

namespace Cv.C05

/-! ## literals, folds -/

theorem zero_lit : (0.0 : ℝ) = 0 := by norm_num
theorem one_lit : (1.0 : ℝ) = 1 := by norm_num

theorem foldl_add_map {β : Type} (f : β → ℝ) (l : List β) (b : ℝ) :
    l.foldl (fun e h => e + f h) b = b + (l.map f).sum := by
  induction l generalizing b with
  | nil => simp
  | cons x l ih => simp [ih, add_assoc]

theorem hillsEnergy_sum' (p : MetaParams ℝ) (hs : List (Hill ℝ)) (xs : List ℝ) :
    hillsEnergy p hs xs = (hs.map fun h => h.w * hillValue p h xs).sum := by
  unfold hillsEnergy
  rw [foldl_add_map (fun h => h.w * hillValue p h xs), zero_lit, zero_add]

theorem hillsEnergy_foldl (p : MetaParams ℝ) (hs : List (Hill ℝ)) (xs : List ℝ) (b : ℝ) :
    hs.foldl (fun e h => e + h.w * hillValue p h xs) b = b + hillsEnergy p hs xs := by
  rw [hillsEnergy_sum', foldl_add_map (fun h => h.w * hillValue p h xs)]

theorem hillsEnergy_append (p : MetaParams ℝ) (a b : List (Hill ℝ)) (xs : List ℝ) :
    hillsEnergy p (a ++ b) xs = hillsEnergy p a xs + hillsEnergy p b xs := by
  simp [hillsEnergy_sum']

theorem hillsEnergy_nil (p : MetaParams ℝ) (xs : List ℝ) : hillsEnergy p [] xs = 0 := by
  simp [hillsEnergy_sum']

theorem hillsForce_sum' (p : MetaParams ℝ) (hs : List (Hill ℝ)) (xs : List ℝ) (i : Nat) :
    hillsForce p hs xs i = (hs.map fun h => h.w * hillValue p h xs * (0.5 / (h.sigmas.getD i 1 * h.sigmas.getD i 1)) *
      dist2SGrad (p.per.getD i none) (xs.getD i 0) (h.centers.getD i 0)).sum := by
  unfold hillsForce
  simp only [zero_lit, one_lit]
  rw [foldl_add_map (fun h => h.w * hillValue p h xs * (0.5 / (h.sigmas.getD i 1 * h.sigmas.getD i 1)) *
      dist2SGrad (p.per.getD i none) (xs.getD i 0) (h.centers.getD i 0)), zero_add]

/-! ## the truncated Gaussian -/

/-- the exponent sum of `hillValue` -/
noncomputable def sqSum (p : MetaParams ℝ) (h : Hill ℝ) (xs : List ℝ) : ℝ :=
  (List.zipWith (fun (pc : Option ℝ × ℝ) (cs : ℝ × ℝ) =>
      dist2S pc.1 pc.2 cs.1 / (cs.2 * cs.2)) (p.per.zip xs) (h.centers.zip h.sigmas)).foldl (· + ·) 0.0

theorem hillValue_eq (p : MetaParams ℝ) (h : Hill ℝ) (xs : List ℝ) :
    hillValue p h xs = if sqSum p h xs > 23.0 then 0.0 else Real.exp (-0.5 * sqSum p h xs) := rfl

theorem zipWith_terms_nonneg : ∀ (l1 : List (Option ℝ × ℝ)) (l2 : List (ℝ × ℝ)),
    ∀ x ∈ List.zipWith (fun (pc : Option ℝ × ℝ) (cs : ℝ × ℝ) =>
      dist2S pc.1 pc.2 cs.1 / (cs.2 * cs.2)) l1 l2, 0 ≤ x
  | [], _, x, hx => by simp at hx
  | _ :: _, [], x, hx => by simp at hx
  | a :: l1, b :: l2, x, hx => by
    rw [List.zipWith_cons_cons, List.mem_cons] at hx
    rcases hx with rfl | hx
    · exact div_nonneg (mul_self_nonneg _) (mul_self_nonneg _)
    · exact zipWith_terms_nonneg l1 l2 x hx

theorem sqSum_nonneg (p : MetaParams ℝ) (h : Hill ℝ) (xs : List ℝ) : 0 ≤ sqSum p h xs := by
  unfold sqSum
  rw [C18.foldl_add_real, zero_lit, zero_add]
  exact List.sum_nonneg (zipWith_terms_nonneg _ _)

theorem hillValue_bounds (p : MetaParams ℝ) (h : Hill ℝ) (xs : List ℝ) :
    0 ≤ hillValue p h xs ∧ hillValue p h xs ≤ 1 := by
  rw [hillValue_eq]
  have h0 := sqSum_nonneg p h xs
  split_ifs
  · norm_num
  · refine ⟨(Real.exp_pos _).le, Real.exp_le_one_iff.2 ?_⟩
    norm_num
    linarith

/-! ## one variable: force = -dE/dx -/

theorem sqSum_one (p : MetaParams ℝ) (h : Hill ℝ) (y c σ : ℝ)
    (hp : p.per = [none]) (hc : h.centers = [c]) (hs : h.sigmas = [σ]) :
    sqSum p h [y] = (y - c) * (y - c) / (σ * σ) := by
  unfold sqSum
  rw [hp, hc, hs]
  simp [dist2S, pdiff, zero_lit]

theorem hillsForce_one (p : MetaParams ℝ) (h : Hill ℝ) (x c σ : ℝ)
    (hp : p.per = [none]) (hc : h.centers = [c]) (hs : h.sigmas = [σ]) :
    hillsForce p [h] [x] 0 = h.w * hillValue p h [x] * (0.5 / (σ * σ)) * (2 * (x - c)) := by
  rw [hillsForce_sum', hp]
  have e2 : (2.0 : ℝ) = 2 := by norm_num
  simp [hc, hs, dist2SGrad, pdiff, e2]

theorem hill_force_deriv' (p : MetaParams ℝ) (h : Hill ℝ) (x : ℝ) (c σ : ℝ)
    (hp : p.per = [none]) (hc : h.centers = [c]) (hs : h.sigmas = [σ])
    (hin : (x - c) * (x - c) / (σ * σ) < 23) :
    HasDerivAt (fun y => h.w * hillValue p h [y]) (- hillsForce p [h] [x] 0) x := by
  have hg : HasDerivAt (fun y : ℝ => (y - c) * (y - c) / (σ * σ))
      ((1 * (x - c) + (x - c) * 1) / (σ * σ)) x :=
    (((hasDerivAt_id x).sub_const c).mul ((hasDerivAt_id x).sub_const c)).div_const _
  have hcont : ContinuousAt (fun y : ℝ => (y - c) * (y - c) / (σ * σ)) x := hg.continuousAt
  have hev : ∀ᶠ y in nhds x, (y - c) * (y - c) / (σ * σ) < 23 := hcont.eventually (gt_mem_nhds hin)
  have hval : ∀ y, (y - c) * (y - c) / (σ * σ) < 23 →
      hillValue p h [y] = Real.exp (-0.5 * ((y - c) * (y - c) / (σ * σ))) := by
    intro y hy
    rw [hillValue_eq, sqSum_one p h y c σ hp hc hs, if_neg]
    norm_num
    linarith
  have hE : HasDerivAt (fun y : ℝ => h.w * Real.exp (-0.5 * ((y - c) * (y - c) / (σ * σ))))
      (h.w * (Real.exp (-0.5 * ((x - c) * (x - c) / (σ * σ))) *
        (-0.5 * ((1 * (x - c) + (x - c) * 1) / (σ * σ))))) x :=
    ((hg.const_mul (-0.5)).exp).const_mul h.w
  have hcongr : (fun y => h.w * hillValue p h [y]) =ᶠ[nhds x]
      (fun y : ℝ => h.w * Real.exp (-0.5 * ((y - c) * (y - c) / (σ * σ)))) := by
    filter_upwards [hev] with y hy
    rw [hval y hy]
  refine (hE.congr_of_eventuallyEq hcongr).congr_deriv ?_
  rw [hillsForce_one p h x c σ hp hc hs, hval x hin]
  ring

/-! ## enumeration of the grid -/
section
open Cv.C15

theorem enumerate_ok (nx : List Int) : ∀ (fuel : Nat) (ix : List Int),
    ∀ jx ∈ enumerate nx fuel ix, indexOk nx jx = true := by
  intro fuel
  induction fuel with
  | zero => intro ix jx h; simp [enumerate] at h
  | succ f ih =>
    intro ix jx h
    by_cases hok : indexOk nx ix = true
    · simp only [enumerate, hok, if_true, List.mem_cons] at h
      rcases h with rfl | h
      · exact hok
      · exact ih _ _ h
    · simp [enumerate, hok] at h

theorem flatMap_single {β γ : Type} (f : β → γ) (l : List β) :
    (l.flatMap fun x => [f x]) = l.map f := by
  induction l with
  | nil => rfl
  | cons x l ih => simp only [List.flatMap_cons, ih, List.map_cons, List.singleton_append]

theorem allIndices_map_address (nx : List Int) (hne : nx ≠ []) (hpos : ∀ n ∈ nx, 0 < n) :
    (allIndices nx).map (address 1 nx) = (List.range (ntOf 1 nx).toNat).map (fun (k : Nat) => (k : Int)) := by
  have hp := ntOf_pos nx hpos
  have hN : ntOf 1 nx = ((ntOf 1 nx).toNat : Int) := by omega
  have := enumerate_from nx hne (ntOf 1 nx).toNat hN ((ntOf 1 nx).toNat + 1) (nx.map (fun _ => 0)) 0
    (ntOf 1 nx).toNat (indexOk_zeros nx hpos) (by rw [address_zeros]; rfl) (by omega) (by omega)
  unfold allIndices
  rw [this, List.range_eq_range']
  simp [flatMap_single]

theorem allIndices_length (nx : List Int) (hne : nx ≠ []) (hpos : ∀ n ∈ nx, 0 < n) :
    (allIndices nx).length = (ntOf 1 nx).toNat := by
  have := congrArg List.length (allIndices_map_address nx hne hpos)
  simpa using this

theorem allIndices_getElem? (nx : List Int) (hne : nx ≠ []) (hpos : ∀ n ∈ nx, 0 < n) (ix : List Int)
    (hok : indexOk nx ix = true) : (allIndices nx)[(address 1 nx ix).toNat]? = some ix := by
  obtain ⟨r0, r1⟩ := address_range' 1 Int.one_pos nx ix hok
  have hlen := allIndices_length nx hne hpos
  have ha : (address 1 nx ix).toNat < (allIndices nx).length := by omega
  rw [List.getElem?_eq_getElem ha]
  congr 1
  have hmem : (allIndices nx)[(address 1 nx ix).toNat] ∈ allIndices nx := List.getElem_mem ha
  have hok' := enumerate_ok nx _ _ _ hmem
  apply address_inj' 1 Int.one_pos nx _ _ hok' hok
  have h2 : address 1 nx (allIndices nx)[(address 1 nx ix).toNat] =
      ((allIndices nx).map (address 1 nx))[(address 1 nx ix).toNat]'(by simpa using ha) := by simp
  rw [h2]
  simp only [allIndices_map_address nx hne hpos]
  simp
  omega

theorem allIndices_map_getD {β : Type} (f : List Int → β) (d : β) (nx : List Int) (hne : nx ≠ [])
    (hpos : ∀ n ∈ nx, 0 < n) (ix : List Int) (hok : indexOk nx ix = true) :
    ((allIndices nx).map f).getD (address 1 nx ix).toNat d = f ix := by
  rw [List.getD_eq_getElem?_getD, List.getElem?_map, allIndices_getElem? nx hne hpos ix hok]
  rfl

theorem zipWith_getD_add (a b : List ℝ) (k : Nat) (ha : k < a.length) (hb : k < b.length) :
    (List.zipWith (· + ·) a b).getD k 0 = a.getD k 0 + b.getD k 0 := by
  simp [List.getD_eq_getElem?_getD, List.getElem?_zipWith, List.getElem?_eq_getElem ha,
    List.getElem?_eq_getElem hb]

theorem flatMap_range_one {β γ : Type} (l : List β) (g : β → Nat → γ) :
    (l.flatMap fun x => (List.range 1).map (g x)) = l.map (fun x => g x 0) := by
  simp only [List.range_one, List.map_cons, List.map_nil]
  exact flatMap_single (fun x => g x 0) l

end

/-! ## tabulation and re-indexing -/
section
open Cv.C15

theorem projectHills_gridE (p : MetaParams ℝ) (s : MetaState ℝ) (hs : List (Hill ℝ)) :
    (projectHills p s hs).gridE = List.zipWith (· + ·) s.gridE
      ((allIndices s.g.nx).map fun ix => hillsEnergy p hs (binCenters s.g ix)) := rfl

theorem projectHills_g (p : MetaParams ℝ) (s : MetaState ℝ) (hs : List (Hill ℝ)) :
    (projectHills p s hs).g = s.g := rfl
theorem projectHills_hills (p : MetaParams ℝ) (s : MetaState ℝ) (hs : List (Hill ℝ)) :
    (projectHills p s hs).hills = s.hills := rfl

theorem projectHills_gridE_length (p : MetaParams ℝ) (s : MetaState ℝ) (hs : List (Hill ℝ))
    (hpos : ∀ n ∈ s.g.nx, 0 < n) (hne : s.g.nx ≠ []) (hlen : (s.gridE.length : Int) = ntOf 1 s.g.nx) :
    ((projectHills p s hs).gridE.length : Int) = ntOf 1 s.g.nx := by
  rw [projectHills_gridE, List.length_zipWith, List.length_map, allIndices_length _ hne hpos]
  omega

theorem project_adds' (p : MetaParams ℝ) (s : MetaState ℝ) (hs : List (Hill ℝ)) (ix : List Int)
    (hpos : ∀ n ∈ s.g.nx, 0 < n) (hne : s.g.nx ≠ []) (hlen : (s.gridE.length : Int) = ntOf 1 s.g.nx)
    (hok : indexOk s.g.nx ix = true) :
    (projectHills p s hs).gridE.getD (address 1 s.g.nx ix).toNat 0 =
      s.gridE.getD (address 1 s.g.nx ix).toNat 0 + hillsEnergy p hs (binCenters s.g ix) := by
  obtain ⟨r0, r1⟩ := address_range' 1 Int.one_pos _ ix hok
  rw [projectHills_gridE, zipWith_getD_add _ _ _ (by omega)
    (by rw [List.length_map, allIndices_length _ hne hpos]; omega),
    allIndices_map_getD _ _ _ hne hpos ix hok]

theorem remap_exact' (oldNx newNx shift : List Int) (old : List ℝ) (ix : List Int)
    (hpos : ∀ n ∈ newNx, 0 < n) (hne : newNx ≠ [])
    (hok : indexOk newNx ix = true) :
    (remapGrid 1 oldNx newNx shift old).getD (address 1 newNx ix).toNat 0 =
      (if indexOk oldNx (List.zipWith (· - ·) ix shift) = true
       then old.getD (address 1 oldNx (List.zipWith (· - ·) ix shift)).toNat 0 else 0) := by
  unfold remapGrid
  simp only []
  rw [flatMap_range_one (allIndices newNx) (fun ix im =>
      if indexOk oldNx (List.zipWith (· - ·) ix shift) then
        old.getD ((address 1 oldNx (List.zipWith (· - ·) ix shift)).toNat * 1 + im) 0.0 else 0.0),
    allIndices_map_getD _ _ _ hne hpos ix hok]
  simp only [zero_lit, Nat.mul_one, Nat.add_zero]

end

/-! ## one `update()` decomposed -/

/-- the hill deposited by a step (state `s1` after grid expansion) -/
noncomputable def newHill (p : MetaParams ℝ) (c : Clock) (s1 : MetaState ℝ) (xs : List ℝ) : Hill ℝ :=
  { it := c.it,
    w := p.hillWeight * (if p.wellTempered then 1.0 * Prim.exp (-1.0 * wtEnergyHere p s1 xs / p.biasTempKB) else 1.0),
    centers := xs, sigmas := p.sigmas }

/-- is this a step at which the new hills are tabulated? -/
def gridTime (p : MetaParams ℝ) (c : Clock) : Bool :=
  p.useGrids && decide (p.gridsFreq > 0) && decide (Int.tmod c.it p.gridsFreq = 0)

/-- `update_bias` -/
noncomputable def afterDeposit (p : MetaParams ℝ) (c : Clock) (s1 : MetaState ℝ) (xs : List ℝ) : MetaState ℝ :=
  if depositNow p c then
    { s1 with hills := s1.hills ++ [newHill p c s1 xs], nNew := s1.nNew + 1,
              offGrid := if p.useGrids && decide (binDistance p s1.g xs < ((3 * Prim.floorI p.hillWidth : Int) : ℝ) + 1.0)
                 then s1.offGrid ++ [newHill p c s1 xs] else s1.offGrid }
  else s1

/-- `update_grid_data` -/
noncomputable def afterGrid (p : MetaParams ℝ) (c : Clock) (s2 : MetaState ℝ) : MetaState ℝ :=
  if gridTime p c then
    { projectHills p s2 (newHills s2) with nNew := 0, hills := if p.keepHills then s2.hills else [] }
  else s2

theorem metaStep_fst (p : MetaParams ℝ) (c : Clock) (s : MetaState ℝ) (xs : List ℝ) :
    (metaStep p c s xs).1 = afterGrid p c (afterDeposit p c (expandGrids p s xs) xs) := rfl

theorem metaStep_snd (p : MetaParams ℝ) (c : Clock) (s : MetaState ℝ) (xs : List ℝ) :
    (metaStep p c s xs).2 = (metaEnergy p (metaStep p c s xs).1 xs,
      (List.range xs.length).map (metaForce p (metaStep p c s xs).1 xs)) := rfl

noncomputable def stepDeposited (p : MetaParams ℝ) (t : MetaTrace ℝ) (c : Clock) (xs : List ℝ) : List (Hill ℝ) :=
  if depositNow p c then t.deposited ++ [newHill p c (expandGrids p t.s xs) xs] else t.deposited

/-- one step of `metaRun` -/
noncomputable def stepTrace (p : MetaParams ℝ) (t : MetaTrace ℝ) (c : Clock) (xs : List ℝ) : MetaTrace ℝ :=
  { s := (metaStep p c t.s xs).1,
    energies := t.energies ++ [(metaStep p c t.s xs).2.1],
    forces := t.forces ++ [(metaStep p c t.s xs).2.2],
    deposited := stepDeposited p t c xs,
    projected := if gridTime p c then stepDeposited p t c xs else t.projected }

theorem metaRun_nil (p : MetaParams ℝ) (t : MetaTrace ℝ) : metaRun p t [] = t := rfl

theorem metaRun_cons (p : MetaParams ℝ) (t : MetaTrace ℝ) (c : Clock) (xs : List ℝ) (rest : MetaHist ℝ) :
    metaRun p t ((c, xs) :: rest) = metaRun p (stepTrace p t c xs) rest := rfl

theorem metaRun_induction (p : MetaParams ℝ) (P : MetaTrace ℝ → Prop)
    (hstep : ∀ t c xs, P t → P (stepTrace p t c xs)) :
    ∀ (h : MetaHist ℝ) (t : MetaTrace ℝ), P t → P (metaRun p t h)
  | [], t, ht => ht
  | (c, xs) :: rest, t, ht => by
    rw [metaRun_cons]
    exact metaRun_induction p P hstep rest _ (hstep t c xs ht)

section
open Cv.C15

theorem expandGrids_off (p : MetaParams ℝ) (s : MetaState ℝ) (xs : List ℝ)
    (h : p.useGrids = false ∨ p.expand.any id = false) : expandGrids p s xs = s := by
  unfold expandGrids
  rcases h with h | h <;> simp [h]

theorem gridTime_off (p : MetaParams ℝ) (c : Clock) (h : p.useGrids = false) : gridTime p c = false := by
  simp [gridTime, h]

theorem newHills_snoc (s s' : MetaState ℝ) (h : Hill ℝ) (hh : s'.hills = s.hills ++ [h])
    (hn : s'.nNew = s.nNew + 1) : newHills s' = newHills s ++ [h] := by
  unfold newHills
  rw [hh, hn, List.length_append, List.length_singleton,
    show s.hills.length + 1 - (s.nNew + 1) = s.hills.length - s.nNew by omega,
    List.drop_append_of_le_length (by omega)]

theorem newHills_all (s : MetaState ℝ) (h : s.nNew = s.hills.length) : newHills s = s.hills := by
  unfold newHills
  rw [h, Nat.sub_self, List.drop_zero]

theorem newHills_none (s : MetaState ℝ) (h : s.nNew = 0) : newHills s = [] := by
  unfold newHills
  rw [h, Nat.sub_zero, List.drop_length]

/-! ### afterDeposit -/

theorem afterDeposit_g (p : MetaParams ℝ) (c : Clock) (s : MetaState ℝ) (xs : List ℝ) :
    (afterDeposit p c s xs).g = s.g := by
  unfold afterDeposit; split_ifs <;> rfl

theorem afterDeposit_gridE (p : MetaParams ℝ) (c : Clock) (s : MetaState ℝ) (xs : List ℝ) :
    (afterDeposit p c s xs).gridE = s.gridE := by
  unfold afterDeposit; split_ifs <;> rfl

theorem afterDeposit_hills (p : MetaParams ℝ) (c : Clock) (s : MetaState ℝ) (xs : List ℝ) :
    (afterDeposit p c s xs).hills = if depositNow p c then s.hills ++ [newHill p c s xs] else s.hills := by
  unfold afterDeposit; split_ifs <;> rfl

theorem afterDeposit_nNew (p : MetaParams ℝ) (c : Clock) (s : MetaState ℝ) (xs : List ℝ) :
    (afterDeposit p c s xs).nNew = if depositNow p c then s.nNew + 1 else s.nNew := by
  unfold afterDeposit; split_ifs <;> rfl

theorem afterDeposit_newHills (p : MetaParams ℝ) (c : Clock) (s : MetaState ℝ) (xs : List ℝ) :
    newHills (afterDeposit p c s xs) =
      if depositNow p c then newHills s ++ [newHill p c s xs] else newHills s := by
  by_cases hd : depositNow p c = true
  · rw [if_pos hd]
    apply newHills_snoc
    · rw [afterDeposit_hills, if_pos hd]
    · rw [afterDeposit_nNew, if_pos hd]
  · rw [if_neg hd]
    unfold afterDeposit
    rw [if_neg hd]

/-! ### afterGrid -/

theorem afterGrid_off (p : MetaParams ℝ) (c : Clock) (s : MetaState ℝ) (h : gridTime p c = false) :
    afterGrid p c s = s := by
  unfold afterGrid; simp [h]

theorem afterGrid_g (p : MetaParams ℝ) (c : Clock) (s : MetaState ℝ) : (afterGrid p c s).g = s.g := by
  unfold afterGrid; split_ifs <;> rfl

theorem afterGrid_on_gridE (p : MetaParams ℝ) (c : Clock) (s : MetaState ℝ) (h : gridTime p c = true) :
    (afterGrid p c s).gridE = (projectHills p s (newHills s)).gridE := by
  unfold afterGrid; rw [if_pos h]

theorem afterGrid_on_nNew (p : MetaParams ℝ) (c : Clock) (s : MetaState ℝ) (h : gridTime p c = true) :
    (afterGrid p c s).nNew = 0 := by
  unfold afterGrid; rw [if_pos h]

theorem afterGrid_hills (p : MetaParams ℝ) (c : Clock) (s : MetaState ℝ)
    (h : p.keepHills = true ∨ p.useGrids = false) : (afterGrid p c s).hills = s.hills := by
  unfold afterGrid
  by_cases hg : gridTime p c = true
  · rw [if_pos hg]
    rcases h with h | h
    · simp [h]
    · rw [gridTime_off p c h] at hg; exact absurd hg (by simp)
  · rw [if_neg hg]

/-! ### the combined invariant -/

/-- grid contents = tabulated hills at the bin centres; untabulated hills = the tail of the deposited hills -/
structure FullInv (p : MetaParams ℝ) (s : MetaState ℝ) (dep proj : List (Hill ℝ)) : Prop where
  pos : ∀ n ∈ s.g.nx, 0 < n
  ne : s.g.nx ≠ []
  len : (s.gridE.length : Int) = ntOf 1 s.g.nx
  grid : ∀ ix, indexOk s.g.nx ix = true →
    s.gridE.getD (address 1 s.g.nx ix).toNat 0 = hillsEnergy p proj (binCenters s.g ix)
  new : newHills s = dep.drop proj.length
  le : proj.length ≤ dep.length
  pre : proj = dep.take proj.length

theorem FullInv.deposit {p : MetaParams ℝ} {s : MetaState ℝ} {dep proj : List (Hill ℝ)}
    (I : FullInv p s dep proj) (c : Clock) (xs : List ℝ) :
    FullInv p (afterDeposit p c s xs)
      (if depositNow p c then dep ++ [newHill p c s xs] else dep) proj := by
  refine ⟨?_, ?_, ?_, ?_, ?_, ?_, ?_⟩
  · rw [afterDeposit_g]; exact I.pos
  · rw [afterDeposit_g]; exact I.ne
  · rw [afterDeposit_g, afterDeposit_gridE]; exact I.len
  · rw [afterDeposit_g, afterDeposit_gridE]; exact I.grid
  · rw [afterDeposit_newHills]
    split_ifs
    · rw [List.drop_append_of_le_length I.le, I.new]
    · exact I.new
  · split_ifs
    · rw [List.length_append]; have := I.le; omega
    · exact I.le
  · split_ifs
    · rw [List.take_append_of_le_length I.le]; exact I.pre
    · exact I.pre

theorem FullInv.tabulate {p : MetaParams ℝ} {s : MetaState ℝ} {dep proj : List (Hill ℝ)}
    (I : FullInv p s dep proj) (c : Clock) :
    FullInv p (afterGrid p c s) dep (if gridTime p c then dep else proj) := by
  by_cases hg : gridTime p c = true
  · rw [if_pos hg]
    refine ⟨?_, ?_, ?_, ?_, ?_, le_refl _, ?_⟩
    · rw [afterGrid_g]; exact I.pos
    · rw [afterGrid_g]; exact I.ne
    · rw [afterGrid_g, afterGrid_on_gridE p c s hg]
      exact projectHills_gridE_length p s _ I.pos I.ne I.len
    · intro ix hok
      rw [afterGrid_g] at hok ⊢
      rw [afterGrid_on_gridE p c s hg, project_adds' p s _ ix I.pos I.ne I.len hok, I.grid ix hok,
        ← hillsEnergy_append, I.new]
      have e : proj ++ dep.drop proj.length = dep := by
        have := List.take_append_drop proj.length dep
        rwa [← I.pre] at this
      rw [e]
    · rw [newHills_none _ (afterGrid_on_nNew p c s hg), List.drop_length]
    · rw [List.take_length]
  · rw [if_neg hg, afterGrid_off p c s (by simpa using hg)]
    exact I

theorem FullInv.step {p : MetaParams ℝ} {t : MetaTrace ℝ} (hex : p.expand.any id = false)
    (I : FullInv p t.s t.deposited t.projected) (c : Clock) (xs : List ℝ) :
    FullInv p (stepTrace p t c xs).s (stepTrace p t c xs).deposited (stepTrace p t c xs).projected := by
  have := (I.deposit c xs).tabulate c
  simp only [stepTrace, stepDeposited, metaStep_fst, expandGrids_off p t.s xs (Or.inr hex)]
  exact this

theorem FullInv.run {p : MetaParams ℝ} (hex : p.expand.any id = false) (h : MetaHist ℝ) (t : MetaTrace ℝ)
    (I : FullInv p t.s t.deposited t.projected) :
    FullInv p (metaRun p t h).s (metaRun p t h).deposited (metaRun p t h).projected :=
  metaRun_induction p (fun t => FullInv p t.s t.deposited t.projected)
    (fun _ c xs I => I.step hex c xs) h t I

/-! ### schedule, no-grid bookkeeping -/

theorem schedule' (p : MetaParams ℝ) (hwt : p.wellTempered = false) : ∀ (h : MetaHist ℝ) (t : MetaTrace ℝ),
    (metaRun p t h).deposited =
      t.deposited ++ (h.filter (fun cx => depositNow p cx.1)).map
        (fun cx => ({ it := cx.1.it, w := p.hillWeight * 1.0, centers := cx.2, sigmas := p.sigmas } : Hill ℝ))
  | [], t => by simp [metaRun_nil]
  | (c, xs) :: rest, t => by
    rw [metaRun_cons, schedule' p hwt rest, List.filter_cons]
    simp only [stepTrace, stepDeposited, newHill, hwt, Bool.false_eq_true, if_false]
    split_ifs <;> simp

theorem nogrid_step (p : MetaParams ℝ) (hg : p.useGrids = false) (t : MetaTrace ℝ) (c : Clock) (xs : List ℝ)
    (h0 : t.s.hills = t.deposited ∧ t.s.nNew = t.deposited.length) :
    (stepTrace p t c xs).s.hills = (stepTrace p t c xs).deposited ∧
      (stepTrace p t c xs).s.nNew = (stepTrace p t c xs).deposited.length := by
  simp only [stepTrace, stepDeposited, metaStep_fst, expandGrids_off p t.s xs (Or.inl hg),
    afterGrid_off _ _ _ (gridTime_off p c hg), afterDeposit_hills, afterDeposit_nNew]
  split_ifs
  · simp [h0.1, h0.2]
  · exact h0

end

/-! ## energy, force, well-tempered height -/
section
open Cv.C15

theorem metaEnergy_grid (p : MetaParams ℝ) (s : MetaState ℝ) (xs : List ℝ) (hg : p.useGrids = true) :
    metaEnergy p s xs =
      if indexOk s.g.nx (binsOf s.g xs) = true then
        s.gridE.getD (address 1 s.g.nx (binsOf s.g xs)).toNat 0 + hillsEnergy p (newHills s) xs
      else hillsEnergy p s.offGrid xs := by
  unfold metaEnergy
  simp only [hg, if_true, Bool.true_and, zero_lit]
  by_cases h : indexOk s.g.nx (binsOf s.g xs) = true
  · simp only [h, if_true, Bool.not_true, Bool.false_eq_true, if_false]
    exact hillsEnergy_foldl p _ xs _
  · simp [h]

theorem metaEnergy_nogrid (p : MetaParams ℝ) (s : MetaState ℝ) (xs : List ℝ) (hg : p.useGrids = false) :
    metaEnergy p s xs = hillsEnergy p (newHills s) xs := by
  unfold metaEnergy
  simp only [hg, Bool.false_and, Bool.false_eq_true, if_false]
  rfl

theorem metaForce_nogrid (p : MetaParams ℝ) (s : MetaState ℝ) (xs : List ℝ) (i : Nat) (hg : p.useGrids = false) :
    metaForce p s xs i = hillsForce p (newHills s) xs i := by
  unfold metaForce
  simp only [hg, Bool.false_and, Bool.false_eq_true, if_false]
  rfl

theorem energy_nogrid' (p : MetaParams ℝ) (c : Clock) (s : MetaState ℝ) (xs : List ℝ) (hg : p.useGrids = false)
    (h0 : s.nNew = s.hills.length) :
    (metaStep p c s xs).2.1 = hillsEnergy p (metaStep p c s xs).1.hills xs ∧
    (metaStep p c s xs).2.2 = (List.range xs.length).map (hillsForce p (metaStep p c s xs).1.hills xs) := by
  have hall : newHills (metaStep p c s xs).1 = (metaStep p c s xs).1.hills := by
    apply newHills_all
    rw [metaStep_fst, expandGrids_off p s xs (Or.inl hg), afterGrid_off _ _ _ (gridTime_off p c hg),
      afterDeposit_hills, afterDeposit_nNew]
    split_ifs
    · rw [List.length_append, List.length_singleton, h0]
    · exact h0
  rw [metaStep_snd]
  refine ⟨?_, ?_⟩
  · show metaEnergy p (metaStep p c s xs).1 xs = _
    rw [metaEnergy_nogrid p _ xs hg, hall]
  · show (List.range xs.length).map (metaForce p (metaStep p c s xs).1 xs) = _
    apply List.map_congr_left
    intro i _
    rw [metaForce_nogrid p _ xs i hg, hall]

theorem wt_height' (p : MetaParams ℝ) (c : Clock) (s : MetaState ℝ) (xs : List ℝ) (hd : depositNow p c = true)
    (hwt : p.wellTempered = true) :
    ∃ hl : Hill ℝ, (p.keepHills = true ∨ p.useGrids = false → hl ∈ (metaStep p c s xs).1.hills) ∧
      hl.centers = xs ∧ hl.sigmas = p.sigmas ∧
      hl.w = p.hillWeight * Real.exp (- wtEnergyHere p (expandGrids p s xs) xs / p.biasTempKB) := by
  refine ⟨newHill p c (expandGrids p s xs) xs, ?_, rfl, rfl, ?_⟩
  · intro hk
    rw [metaStep_fst, afterGrid_hills p c _ hk, afterDeposit_hills, if_pos hd]
    simp
  · simp only [newHill, hwt, if_true, prim_exp, one_lit]
    rw [one_mul, neg_one_mul]

end

end Cv.C05
