import CvProps.RealInst
import CvProps.C17Lemmas
import CvProps.C18
/-!
# C17 — extended-Lagrangian coordinates follow the documented integrator

Property theorems about `CvModel/ExtLag.lean` at `α := ℝ`.
`extIntegrate` is one `update_extended_Lagrangian`; the kinetic and coupling energies it stores refer to the
coordinate *before* the position update, which the new state keeps as `prevX`.
-/
open Cv

namespace Cv.C17

/-- frictionless, no reflecting boundary, not periodic; **any** time-step factor of the variable -/
structure Plain (p : ExtParams ℝ) : Prop where
  nolangevin : p.langevin = false
  nolo : p.reflLower = none
  noup : p.reflUpper = none
  noper : p.per = none

/-- the slow time step of a variable with time-step factor `n`: every term of the integrator uses it -/
noncomputable def slowDt (p : ExtParams ℝ) : ℝ := p.dt * (p.tsf : ℝ)

/-- the instantaneous bias force: biases hand over `n` times their force, the integrator divides it back -/
noncomputable def instForce (p : ExtParams ℝ) (fb : ℝ) : ℝ := fb / (p.tsf : ℝ)

/-- reported kinetic + coupling energy of a state, with the work of a constant bias force `fb` -/
noncomputable def energyOf (x fb : ℝ) (s : ExtState ℝ) : ℝ := s.ek + s.ep - fb * (s.prevX - x)

/-- the shadow correction: `h²k²/(8m)` times the squared displacement from the equilibrium point `x + fb/k` -/
noncomputable def shadowOf (p : ExtParams ℝ) (x fb : ℝ) (s : ExtState ℝ) : ℝ :=
  energyOf x (instForce p fb) s -
    (slowDt p * slowDt p * p.k * p.k / (8 * p.mass)) * (s.prevX - x - instForce p fb / p.k) ^ 2

/-- iterate the integrator with a static variable value and a constant bias force -/
noncomputable def iter (p : ExtParams ℝ) (x fb : ℝ) : Nat → ExtState ℝ → ExtState ℝ
  | 0, s => s
  | n + 1, s => iter p x fb n (extIntegrate p s x fb 0 0)

/-- one step: the shadow energy of two consecutive updates is exactly the same, for every time step, force constant
    and mass -/
theorem shadow_step (p : ExtParams ℝ) (hp : Plain p) (hm : p.mass ≠ 0) (hk : p.k ≠ 0) (s : ExtState ℝ) (x fb : ℝ) :
    shadowOf p x fb (extIntegrate p (extIntegrate p s x fb 0 0) x fb 0 0) =
    shadowOf p x fb (extIntegrate p s x fb 0 0) := by
  obtain ⟨a1, _, a3, a4, a5, a6⟩ :=
    extIntegrate_plain p hp.nolangevin hp.nolo hp.noup hp.noper s x fb 0 0
  obtain ⟨b1, _, _, _, b5, b6⟩ :=
    extIntegrate_plain p hp.nolangevin hp.nolo hp.noup hp.noper (extIntegrate p s x fb 0 0) x fb 0 0
  unfold shadowOf energyOf slowDt instForce
  rw [b1, b5, b6, a1, a5, a6]
  exact shadow_algebra hm hk a3 (by rw [a3]; exact a4)

/-- hence exactly conserved along any number of steps: no drift -/
theorem shadow_invariant (p : ExtParams ℝ) (hp : Plain p) (hm : p.mass ≠ 0) (hk : p.k ≠ 0) (s : ExtState ℝ) (x fb : ℝ) (n : Nat) :
    shadowOf p x fb (iter p x fb (n + 1) s) = shadowOf p x fb (iter p x fb 1 s) := by
  induction n generalizing s with
  | zero => rfl
  | succ n ih =>
    have h1 : iter p x fb (n + 1 + 1) s = iter p x fb (n + 1) (extIntegrate p s x fb 0 0) := rfl
    rw [h1, ih (extIntegrate p s x fb 0 0)]
    exact shadow_step p hp hm hk s x fb

/-- so the reported energy differs from its initial value only by `h²k²/(8m)` times a difference of squared
    displacements: the fluctuation is second order in the time step and there is no secular term -/
theorem energy_fluctuation (p : ExtParams ℝ) (hp : Plain p) (hm : p.mass ≠ 0) (hk : p.k ≠ 0) (s : ExtState ℝ) (x fb : ℝ) (n : Nat) :
    let a := iter p x fb (n + 1) s
    let b := iter p x fb 1 s
    energyOf x (instForce p fb) a - energyOf x (instForce p fb) b =
      (slowDt p * slowDt p * p.k * p.k / (8 * p.mass)) *
        ((a.prevX - x - instForce p fb / p.k) ^ 2 - (b.prevX - x - instForce p fb / p.k) ^ 2) := by
  intro a b
  have h := shadow_invariant p hp hm hk s x fb n
  unfold shadowOf at h
  show energyOf x (instForce p fb) (iter p x fb (n + 1) s) - energyOf x (instForce p fb) (iter p x fb 1 s) = _
  linear_combination h

/-! ## routing of forces -/

/-- the atoms feel the coupling spring (times the variable's time-step factor) plus the biases that bypass the
    extended coordinate, and nothing else; biases on the extended coordinate act on it, scaled back by the factor -/
theorem routing (p : ExtParams ℝ) (s : ExtState ℝ) (x fb fbActual rnd : ℝ) (hper : p.per = none) :
    let s' := extIntegrate p s x fb fbActual rnd
    s'.fAtoms = p.k * (s.xExt - x) * (p.tsf : ℝ) + fbActual ∧ s'.fr = fb / (p.tsf : ℝ) := by
  intro s'
  show (extIntegrate p s x fb fbActual rnd).fAtoms = _ ∧ (extIntegrate p s x fb fbActual rnd).fr = _
  unfold extIntegrate
  simp only [hper, dist2SGrad_none]
  refine ⟨?_, trivial⟩
  simp only [lit05, lit10, lit20]
  ring

/-- the total force reported for the next step: spring only when applied forces are subtracted, spring + bias otherwise -/
theorem reported_total_force (p : ExtParams ℝ) (s : ExtState ℝ) (x fb fbActual rnd : ℝ) (hper : p.per = none) :
    (extIntegrate p s x fb fbActual rnd).ftReported =
      (if p.subtract then - p.k * (s.xExt - x) else fb / (p.tsf : ℝ) - p.k * (s.xExt - x)) := by
  unfold extIntegrate
  simp only [hper, dist2SGrad_none]
  simp only [lit05, lit20]
  cases p.subtract <;> simp only [if_true, if_false, Bool.false_eq_true] <;> ring

/-! ## reflecting boundaries -/

/-- unless the code raises its own "still outside after reflection" error, the new coordinate is inside the
    reflecting boundaries -/
theorem reflect_inside (p : ExtParams ℝ) (s : ExtState ℝ) (x fb fbActual rnd : ℝ) (hper : p.per = none)
    (herr0 : s.err = false) (herr : (extIntegrate p s x fb fbActual rnd).err = false) :
    (∀ lb, p.reflLower = some lb → lb ≤ (extIntegrate p s x fb fbActual rnd).xExt) ∧
    (∀ ub, p.reflUpper = some ub → (extIntegrate p s x fb fbActual rnd).xExt ≤ ub) := by
  obtain ⟨hx, _, he⟩ := extIntegrate_reflect p s x fb fbActual rnd
  rw [he, herr0, Bool.false_or] at herr
  rw [hx]
  simp only [hper]
  exact reflectS_inside _ _ _ _ _ herr

/-- a reflection mirrors the overshoot and reverses the mid-step velocity -/
theorem reflect_lower (p : ExtParams ℝ) (hl : p.langevin = false) (s : ExtState ℝ) (x fb fbActual rnd lb : ℝ) (hper : p.per = none)
    (hlo : p.reflLower = some lb) (hup : p.reflUpper = none) :
    let n : ℝ := (p.tsf : ℝ)
    let fExt := fb / n + (-0.5 * p.k) * (2 * (s.xExt - x))
    let v2 := s.vExt + p.dt * n * fExt / p.mass
    let x2 := s.xExt + p.dt * n * v2
    x2 < lb →
      (extIntegrate p s x fb fbActual rnd).xExt = 2 * lb - x2 ∧
      (extIntegrate p s x fb fbActual rnd).vExt = -0.5 * (s.vExt + v2) := by
  intro n fExt v2 x2 hlt
  obtain ⟨hx, hv, _⟩ := extIntegrate_reflect p s x fb fbActual rnd
  obtain ⟨e3, e2⟩ := extV3_X2_nolangevin p hl hper s x fb rnd
  rw [hx, hv]
  simp only [hper, hlo, hup]
  have h := reflectS_lower lb s.vExt (extX2 p s x fb rnd) (extV3 p s x fb rnd) (by rw [e2]; exact hlt)
  exact ⟨h.1.trans (by rw [e2]), h.2.trans (by rw [e3])⟩

/-! ## run boundaries and time origin -/

/-- a repeated step (same relative step number as the last processed one, no jump of the variable) restores the
    coordinate and velocity that were reported at that step -/
theorem repeated_step_reverts (p : ExtParams ℝ) (c : Clock) (s : ExtState ℝ) (x : ℝ)
    (hset : s.set = true) (hrep : c.stepRelative = s.prevTimestep) (hnz : c.stepRelative ≠ 0 ∨ s.afterRestart = true)
    (hjump : ¬ dist2S p.per x s.xOld / (p.width * p.width) > 0.25) :
    (extPrepare p c true s x).xExt = s.prevX ∧ (extPrepare p c true s x).vExt = s.prevV := by
  rw [extPrepare_repeat p c s x hset hnz hrep hjump]
  exact ⟨rfl, rfl⟩

/-- so repeating a step does not advance the coordinate twice: running the step again from the same inputs leaves
    exactly the state the first execution left -/
theorem repeat_is_idempotent (p : ExtParams ℝ) (c : Clock) (s : ExtState ℝ) (x : ℝ) (fbOf : ℝ → ℝ) (fbA rnd : ℝ)
    (hnz : c.stepRelative ≠ 0) (hset : s.set = true) (hnrep : c.stepRelative ≠ s.prevTimestep)
    (hjump : ¬ dist2S p.per x x / (p.width * p.width) > 0.25) :
    let s1 := extStep p c s x fbOf fbA rnd
    extStep p { c with cont := true } s1 x fbOf fbA rnd = s1 := by
  intro s1
  have hp1 : extPrepare p c true s x = { s with afterRestart := false } :=
    extPrepare_ordinary p c s x hset (Or.inl hnz) hnrep
  have hs1 : s1 = extEnd c (extIntegrate p { s with afterRestart := false } x (fbOf s.xExt) fbA rnd) x := by
    show extStep p c s x fbOf fbA rnd = _
    unfold extStep
    rw [hp1]
  clear_value s1
  subst hs1
  have hp2 : extPrepare p { c with cont := true } true
        (extEnd c (extIntegrate p { s with afterRestart := false } x (fbOf s.xExt) fbA rnd) x) x =
      { extEnd c (extIntegrate p { s with afterRestart := false } x (fbOf s.xExt) fbA rnd) x with
        xExt := s.xExt, vExt := s.vExt, afterRestart := false } :=
    extPrepare_repeat p { c with cont := true } _ x hset (Or.inl hnz) rfl hjump
  have he := (extIntegrate_reflect p { s with afterRestart := false } x (fbOf s.xExt) fbA rnd).2.2
  unfold extStep
  rw [hp2]
  simp only []
  rw [extIntegrate_congr p { s with afterRestart := false }
    { extEnd c (extIntegrate p { s with afterRestart := false } x (fbOf s.xExt) fbA rnd) x with
        xExt := s.xExt, vExt := s.vExt, afterRestart := false } x (fbOf s.xExt) fbA rnd rfl rfl]
  apply eq_of_err
  · rfl
  · show ((extIntegrate p { s with afterRestart := false } x (fbOf s.xExt) fbA rnd).err || _) =
      (extIntegrate p { s with afterRestart := false } x (fbOf s.xExt) fbA rnd).err
    rw [he, Bool.or_assoc, Bool.or_self]

/-- on an ordinary step the value and velocity reported are those left by the previous integration: value, velocity,
    energies and forces of a step all refer to the same time -/
theorem same_time_origin (p : ExtParams ℝ) (c : Clock) (s : ExtState ℝ) (x : ℝ)
    (hset : s.set = true) (hnz : c.stepRelative ≠ 0) (hnrep : c.stepRelative ≠ s.prevTimestep) :
    (extPrepare p c true s x).xExt = s.xExt ∧ (extPrepare p c true s x).vExt = s.vExt := by
  rw [extPrepare_ordinary p c s x hset (Or.inl hnz) hnrep]
  exact ⟨rfl, rfl⟩

/-- first step of a fresh run: the coordinate starts on the variable (clamped to the reflecting boundaries), at rest -/
theorem initialisation (p : ExtParams ℝ) (c : Clock) (s : ExtState ℝ) (x : ℝ) (h0 : c.stepRelative = 0)
    (hr : s.afterRestart = false) (hnrep : s.prevTimestep ≠ 0) (hlo : p.reflLower = none) (hup : p.reflUpper = none) :
    (extPrepare p c true s x).xExt = x ∧ (extPrepare p c true s x).vExt = 0 := by
  rw [extPrepare_init p c s x h0 hr hnrep hlo hup]
  exact ⟨rfl, rfl⟩

/-! ## parameters from fluctuation and time constant -/

/-- `k = k_B T / σ²` and the mass makes the free oscillation period equal to the requested time constant:
    `2π √(m/k) = τ`, i.e. `m/k = τ²/(4π²)` -/
theorem params (kB T tol tau : ℝ) (hkb : kB ≠ 0) (hT : T ≠ 0) (htol : tol ≠ 0) :
    extForceK kB T tol = kB * T / tol ^ 2 ∧
    extMass kB T tol tau Real.pi / extForceK kB T tol = tau ^ 2 / (4 * Real.pi ^ 2) := by
  unfold extForceK extMass
  have hpi := Real.pi_ne_zero
  constructor
  · rw [pow_two]
  · norm_num
    field_simp

/-! ## periodic variables: the coupling force is the gradient of the coupling energy -/

/-- for a periodic variable the coupling energy `½k·dist2(x_ext, x)` (minimum image) and the spring force the integrator uses
    (`−½k·dist2_lgrad(x_ext, x)`) belong together: away from the cut locus the force is minus the derivative of the energy with
    respect to the extended coordinate.  An energy from the minimum-image distance with a force from the plain difference (what a
    variable-level `dist2_lgrad` that does not delegate to the component gives) violates this as soon as the two are on opposite
    sides of the cut. -/
theorem periodic_spring_is_gradient (k P xExt x : ℝ) (hP : 0 < P) (hcut : ∀ n : ℤ, (xExt - x) / P + 0.5 ≠ n) :
    HasDerivAt (fun y => 0.5 * k * dist2S (some P) y x) (-((-0.5 * k) * dist2SGrad (some P) xExt x)) xExt := by
  have h := (Cv.C18.grad_periodic P hP xExt x hcut).const_mul (0.5 * k)
  refine h.congr_deriv ?_
  ring

/-- whatever the state, the forces and the random number, the extended coordinate of a periodic variable is inside the period
    interval centred on `wrapAround` after every integration, and it is the unwrapped result moved by a whole number of periods
    (so its minimum-image distance to anything is unchanged). -/
theorem periodic_coordinate_wrapped (p : ExtParams ℝ) (P : ℝ) (hper : p.per = some P) (hP : 0 < P)
    (s : ExtState ℝ) (x fb fa rnd : ℝ) :
    p.wrapC - P / 2 ≤ (extIntegrate p s x fb fa rnd).xExt ∧ (extIntegrate p s x fb fa rnd).xExt < p.wrapC + P / 2 ∧
    ∀ y, dist2S (some P) (extIntegrate p s x fb fa rnd).xExt y =
      dist2S (some P) (reflectS p.reflLower p.reflUpper s.vExt (extX2 p s x fb rnd) (extV3 p s x fb rnd)).1 y := by
  have h := (extIntegrate_reflect p s x fb fa rnd).1
  rw [hper] at h
  simp only at h
  rw [h]
  exact ⟨(Cv.C18.wrap_range P p.wrapC _ hP).1, (Cv.C18.wrap_range P p.wrapC _ hP).2,
    fun y => Cv.C18.wrap_dist P p.wrapC _ y hP⟩

/-! ## friction and noise (the [O] step), any time-step factor -/

/-- with friction on and no reflecting boundary, the velocity left by one update is the documented [O] step applied to
    the kicked velocity: damped by `exp(-γ·h)` with the **slow** time step `h = dt·n`, plus `σ·ξ/m` -/
theorem langevin_step (p : ExtParams ℝ) (hl : p.langevin = true) (hlo : p.reflLower = none) (hup : p.reflUpper = none)
    (hper : p.per = none) (s : ExtState ℝ) (x fb fa rnd : ℝ) :
    (extIntegrate p s x fb fa rnd).vExt =
      Real.exp (-(slowDt p * p.gamma)) *
        (s.vExt + slowDt p * (instForce p fb - p.k * (s.xExt - x)) / p.mass) + p.sigma * rnd / p.mass ∧
    (extIntegrate p s x fb fa rnd).xExt =
      s.xExt + slowDt p / 2 * (s.vExt + slowDt p * (instForce p fb - p.k * (s.xExt - x)) / p.mass) +
        slowDt p / 2 * (extIntegrate p s x fb fa rnd).vExt := by
  unfold extIntegrate slowDt instForce
  simp only [hl, hlo, hup, hper, dist2SGrad_none, Option.bind_none, prim_exp]
  simp only [lit05, lit20, lit10, if_true]
  constructor
  · congr 1
    congr 1
    · congr 1; ring
    · ring
  · ring

/-- fluctuation–dissipation for the slow step: the damping factor of `langevin_step` and the noise amplitude computed by
    `init_extended_Lagrangian` (`extSigma`, with the same factor `n`) leave the Maxwell variance `kB·T/m` of the velocity
    unchanged — `c²·(kB T/m) + (σ/m)² = kB T/m`.  A damping factor that forgets `n` (or a noise amplitude that does) breaks
    this identity whenever `n ≠ 1`. -/
theorem langevin_fluctuation_dissipation (gamma dt kB T mass : ℝ) (n : Int) (hm : 0 < mass) (hT : 0 ≤ kB * T)
    (hg : 0 ≤ gamma * dt * (n : ℝ)) :
    (Real.exp (-(dt * (n : ℝ) * gamma))) ^ 2 * (kB * T / mass) + (extSigma gamma dt kB T mass n / mass) ^ 2 = kB * T / mass := by
  unfold extSigma
  simp only [prim_sqrt, prim_exp, lit10, lit20]
  have he : Real.exp (-(dt * (n : ℝ) * gamma)) ^ 2 = Real.exp (-2 * gamma * dt * (n : ℝ)) := by
    rw [pow_two, ← Real.exp_add]; congr 1; ring
  have hle : Real.exp (-2 * gamma * dt * (n : ℝ)) ≤ 1 := by
    rw [Real.exp_le_one_iff]; nlinarith
  have hnn : 0 ≤ (1 - Real.exp (-2 * gamma * dt * (n : ℝ))) * mass * kB * T := by
    have h1 : 0 ≤ 1 - Real.exp (-2 * gamma * dt * (n : ℝ)) := by linarith
    have h2 : 0 ≤ (1 - Real.exp (-2 * gamma * dt * (n : ℝ))) * mass := mul_nonneg h1 hm.le
    calc (0 : ℝ) ≤ ((1 - Real.exp (-2 * gamma * dt * (n : ℝ))) * mass) * (kB * T) := mul_nonneg h2 hT
      _ = (1 - Real.exp (-2 * gamma * dt * (n : ℝ))) * mass * kB * T := by ring
  rw [he, div_pow, Real.sq_sqrt hnn]
  field_simp
  ring

/-- the two coefficients of one model step, as the model computes them, satisfy it: premise check with `n = 3` -/
example : (0 : ℝ) ≤ 0.001 * 0.5 * ((3 : Int) : ℝ) := by norm_num

/-! ## non-vacuity -/

example : ∃ p : ExtParams ℝ, Plain p ∧ p.mass ≠ 0 ∧ p.k ≠ 0 :=
  ⟨{ k := 2, mass := 3, dt := 1, gamma := 0, sigma := 0, wrapC := 0, width := 1 }, ⟨rfl, rfl, rfl, rfl⟩, by norm_num, by norm_num⟩

/-- the hypotheses are also met by a variable with a time-step factor other than 1 -/
example : ∃ p : ExtParams ℝ, Plain p ∧ p.mass ≠ 0 ∧ p.k ≠ 0 ∧ p.tsf = 3 :=
  ⟨{ k := 2, mass := 3, dt := 1, tsf := 3, gamma := 0, sigma := 0, wrapC := 0, width := 1 }, ⟨rfl, rfl, rfl, rfl⟩,
   by norm_num, by norm_num, rfl⟩

end Cv.C17
