import CvProps.RealInst
/-!
# Helper lemmas for C19 (written outputs: columns, line schedule, running average), over `ℝ` where numeric.
-/
open Cv

namespace Cv.C19

/-! ## literals, folds -/

theorem zero_lit : (0.0 : ℝ) = 0 := by norm_num
theorem one_lit : (1.0 : ℝ) = 1 := by norm_num

theorem foldl_add_map {β : Type} (f : β → ℝ) (l : List β) (b : ℝ) :
    l.foldl (fun e h => e + f h) b = b + (l.map f).sum := by
  induction l generalizing b with
  | nil => simp
  | cons x l ih => simp [ih, add_assoc]

theorem foldl_add (l : List ℝ) (b : ℝ) : l.foldl (· + ·) b = b + l.sum := by
  have := foldl_add_map (fun v : ℝ => v) l b
  simpa using this

theorem dist2S_none (a b : ℝ) : dist2S none a b = (a - b) * (a - b) := rfl

/-! ## one step of the line schedule -/

/-- the "label wanted" condition of `trajStep` -/
def labCond (freq : Int) (c : Clock) (flag : Bool) : Bool :=
  decide (c.stepRelative = 0) || flag || decide (Int.tmod c.it (freq * 1000) = 0)

theorem trajStep_fst (freq : Int) (c : Clock) (flag : Bool) :
    (trajStep freq c flag).1 =
      (if labCond freq c flag then [TrajLine.label] else []) ++
      (if decide (Int.tmod c.it freq = 0) then [TrajLine.data c.it] else []) := rfl

theorem trajStep_snd (freq : Int) (c : Clock) (flag : Bool) :
    (trajStep freq c flag).2 = (if labCond freq c flag then false else flag) := rfl

theorem labCond_of_flag (freq : Int) (c : Clock) : labCond freq c true = true := by
  simp [labCond]

theorem flag_of_not_labCond (freq : Int) (c : Clock) (flag : Bool) (h : labCond freq c flag = false) :
    flag = false := by
  cases flag
  · rfl
  · simp [labCond] at h

/-- after a step the flag is lowered unless no label was written, in which case it was already down -/
theorem trajStep_snd_false (freq : Int) (c : Clock) (flag : Bool) : (trajStep freq c flag).2 = false := by
  rw [trajStep_snd]
  cases h : labCond freq c flag
  · simpa using flag_of_not_labCond freq c flag h
  · rfl

/-! ## running average -/

theorem runAveStep_started (length : Nat) (per : Option ℝ) (s : RunAve ℝ) (x : ℝ) (hs : s.started = true) :
    runAveStep length per s x =
      ({ s with hist := (x :: s.hist).take (length - 1) },
       if s.hist.length + 1 ≥ length then
         some ((s.hist.foldl (· + ·) x) * (1.0 / (length : ℝ)),
           Prim.sqrt ((s.hist.foldl (fun a xi => a + dist2S per xi ((s.hist.foldl (· + ·) x) * (1.0 / (length : ℝ))))
             (0.0 + dist2S per x ((s.hist.foldl (· + ·) x) * (1.0 / (length : ℝ))))) *
               (1.0 / ((length - 1 : Nat) : ℝ))))
       else none) := by
  unfold runAveStep
  simp [hs]

end Cv.C19
