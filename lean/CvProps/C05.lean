import CvProps.RealInst
import CvProps.C05Lemmas
/-!
# C05 — the metadynamics bias is the sum of the hills deposited on schedule

Property theorems about `CvModel/Meta.lean` at `α := ℝ`.  A history is a list of (clock, values);
`metaRun` threads the real state together with ghost lists of every hill deposited and of those tabulated.
The hill is the code's truncated Gaussian (`hillValue`): zero when the exponent sum exceeds 23.
-/
open Cv

namespace Cv.C05

/-- the hill a step deposits when it is on schedule and plain (not well-tempered) -/
noncomputable def plainHill (p : MetaParams ℝ) (c : Clock) (xs : List ℝ) : Hill ℝ :=
  { it := c.it, w := p.hillWeight * 1.0, centers := xs, sigmas := p.sigmas }

/-! ## deposition schedule -/

/-- a hill is deposited exactly at the eligible steps that are multiples of newHillFrequency -/
theorem deposit_iff (p : MetaParams ℝ) (c : Clock) :
    depositNow p c = true ↔ (0 < p.freq ∧ Int.tmod c.it p.freq = 0 ∧ canAccumulate c p.stepZeroData = true) := by
  simp [depositNow, and_assoc]

/-- plain metadynamics: the hills in existence after any history are exactly one hill per scheduled step,
    centred at the values of that step, with the configured widths and height hillWeight -/
theorem schedule (p : MetaParams ℝ) (t : MetaTrace ℝ) (h : MetaHist ℝ) (hwt : p.wellTempered = false) :
    (metaRun p t h).deposited =
      t.deposited ++ (h.filter (fun cx => depositNow p cx.1)).map (fun cx => plainHill p cx.1 cx.2) := by
  exact schedule' p hwt h t

/-- well-tempered: the height of a new hill is `hillWeight · exp(-V/kΔT)` with `V` the bias at the deposition point -/
theorem wt_height (p : MetaParams ℝ) (c : Clock) (s : MetaState ℝ) (xs : List ℝ) (hd : depositNow p c = true)
    (hwt : p.wellTempered = true) :
    let s' := (metaStep p c s xs).1
    ∃ hl : Hill ℝ, (p.keepHills = true ∨ p.useGrids = false → hl ∈ s'.hills) ∧ hl.centers = xs ∧ hl.sigmas = p.sigmas ∧
      hl.w = p.hillWeight * Real.exp (- wtEnergyHere p (expandGrids p s xs) xs / p.biasTempKB) := by
  exact wt_height' p c s xs hd hwt

/-- without grids every deposited hill is kept, none is tabulated -/
theorem nogrid_hills (p : MetaParams ℝ) (t : MetaTrace ℝ) (h : MetaHist ℝ) (hg : p.useGrids = false)
    (h0 : t.s.hills = t.deposited ∧ t.s.nNew = t.deposited.length) :
    (metaRun p t h).s.hills = (metaRun p t h).deposited ∧ (metaRun p t h).s.nNew = (metaRun p t h).deposited.length := by
  exact metaRun_induction p (fun t => t.s.hills = t.deposited ∧ t.s.nNew = t.deposited.length)
    (fun t c xs ht => nogrid_step p hg t c xs ht) h t h0

/-! ## energy and force are those of the sum of hills -/

/-- without grids the energy at every step is the sum over all hills deposited so far -/
theorem energy_nogrid (p : MetaParams ℝ) (c : Clock) (s : MetaState ℝ) (xs : List ℝ) (hg : p.useGrids = false)
    (h0 : s.nNew = s.hills.length) :
    let r := metaStep p c s xs
    r.2.1 = hillsEnergy p r.1.hills xs ∧
    r.2.2 = (List.range xs.length).map (hillsForce p r.1.hills xs) := by
  exact energy_nogrid' p c s xs hg h0

/-- `hillsEnergy` is literally `Σ_h W_h · g_h(x)` -/
theorem hillsEnergy_sum (p : MetaParams ℝ) (hs : List (Hill ℝ)) (xs : List ℝ) :
    hillsEnergy p hs xs = (hs.map fun h => h.w * hillValue p h xs).sum := by
  exact hillsEnergy_sum' p hs xs

theorem hillsForce_sum (p : MetaParams ℝ) (hs : List (Hill ℝ)) (xs : List ℝ) (i : Nat) :
    hillsForce p hs xs i = (hs.map fun h => h.w * hillValue p h xs * (0.5 / (h.sigmas.getD i 1 * h.sigmas.getD i 1)) *
      dist2SGrad (p.per.getD i none) (xs.getD i 0) (h.centers.getD i 0)).sum := by
  exact hillsForce_sum' p hs xs i

/-- one variable, non-periodic, inside the truncation radius: the force of a hill is minus the derivative of its energy -/
theorem hill_force_deriv (p : MetaParams ℝ) (h : Hill ℝ) (x : ℝ) (c σ : ℝ) (hσ : σ ≠ 0)
    (hp : p.per = [none]) (hc : h.centers = [c]) (hs : h.sigmas = [σ])
    (hin : (x - c) * (x - c) / (σ * σ) < 23) :
    HasDerivAt (fun y => h.w * hillValue p h [y]) (- hillsForce p [h] [x] 0) x := by
  have _ := hσ
  exact hill_force_deriv' p h x c σ hp hc hs hin

/-- a hill never contributes more than its height, and nothing beyond the truncation radius -/
theorem hill_bounds (p : MetaParams ℝ) (h : Hill ℝ) (xs : List ℝ) :
    0 ≤ hillValue p h xs ∧ hillValue p h xs ≤ 1 := by
  exact hillValue_bounds p h xs

/-! ## grids: tabulated hills at the centre of the current bin, untabulated ones at the position -/

/-- tabulating hills adds, at every bin, their analytic value at the bin centre -/
theorem project_adds (p : MetaParams ℝ) (s : MetaState ℝ) (hs : List (Hill ℝ)) (ix : List Int)
    (hpos : ∀ n ∈ s.g.nx, 0 < n) (hne : s.g.nx ≠ []) (hlen : (s.gridE.length : Int) = ntOf 1 s.g.nx)
    (hok : indexOk s.g.nx ix = true) :
    (projectHills p s hs).gridE.getD (address 1 s.g.nx ix).toNat 0 =
      s.gridE.getD (address 1 s.g.nx ix).toNat 0 + hillsEnergy p hs (binCenters s.g ix) := by
  exact project_adds' p s hs ix hpos hne hlen hok

/-- grid invariant: every bin holds the sum of the tabulated hills evaluated at its centre -/
def GridInv (p : MetaParams ℝ) (t : MetaTrace ℝ) : Prop :=
  (t.s.gridE.length : Int) = ntOf 1 t.s.g.nx ∧
  ∀ ix, indexOk t.s.g.nx ix = true →
    t.s.gridE.getD (address 1 t.s.g.nx ix).toNat 0 = hillsEnergy p t.projected (binCenters t.s.g ix)

/-- without grid expansion the invariant holds after every history (keepHills on or off) -/
theorem grid_invariant (p : MetaParams ℝ) (t : MetaTrace ℝ) (h : MetaHist ℝ) (hg : p.useGrids = true)
    (hex : p.expand.any id = false) (hpos : ∀ n ∈ t.s.g.nx, 0 < n) (hne : t.s.g.nx ≠ [])
    (hdep : newHills t.s = t.deposited.drop t.projected.length ∧ t.projected.length ≤ t.deposited.length ∧
            t.projected = t.deposited.take t.projected.length)
    (h0 : GridInv p t) : GridInv p (metaRun p t h) := by
  have _ := hg
  have I : FullInv p t.s t.deposited t.projected :=
    ⟨hpos, hne, h0.1, h0.2, hdep.1, hdep.2.1, hdep.2.2⟩
  have I' := I.run hex h
  exact ⟨I'.len, I'.grid⟩

/-- inside the grid the reported energy is the tabulated value of the current bin plus the untabulated hills at the
    actual position; outside it is the analytic sum of the hills kept for off-grid evaluation -/
theorem energy_grid (p : MetaParams ℝ) (s : MetaState ℝ) (xs : List ℝ) (hg : p.useGrids = true) :
    metaEnergy p s xs =
      if indexOk s.g.nx (binsOf s.g xs) = true then
        s.gridE.getD (address 1 s.g.nx (binsOf s.g xs)).toNat 0 + hillsEnergy p (newHills s) xs
      else hillsEnergy p s.offGrid xs := by
  exact metaEnergy_grid p s xs hg

/-! ## grid expansion is an exact re-indexing -/

/-- after `remapGrid` the value at a new index is the old value at the shifted index, or zero for an added bin -/
theorem remap_exact (oldNx newNx shift : List Int) (old : List ℝ) (ix : List Int)
    (hpos : ∀ n ∈ newNx, 0 < n) (hne : newNx ≠ []) (hl : oldNx.length = newNx.length) (hs : shift.length = newNx.length)
    (hok : indexOk newNx ix = true) :
    (remapGrid 1 oldNx newNx shift old).getD (address 1 newNx ix).toNat 0 =
      (if indexOk oldNx (List.zipWith (· - ·) ix shift) = true
       then old.getD (address 1 oldNx (List.zipWith (· - ·) ix shift)).toNat 0 else 0) := by
  have _ := hl
  have _ := hs
  exact remap_exact' oldNx newNx shift old ix hpos hne hok

/-- expansion keeps the bin centres of the old bins (so tabulated values stay attached to the same points) -/
theorem expand_centers (lo w : ℝ) (e i : Int) :
    binToValue (lo - (e : ℝ) * w) w (i + e) = binToValue lo w i := by
  unfold binToValue
  push_cast
  ring

/-! ## non-vacuity -/

example : ∃ (p : MetaParams ℝ) (c : Clock), depositNow p c = true :=
  ⟨{ per := [none], cvWidth := [1], hillWeight := 0.1, freq := 2, sigmas := [1], hillWidth := 2, useGrids := false,
     gridsFreq := 2, keepHills := false, biasTempKB := 1, expand := [false], gridPeriodic := [false] },
   { it := 4, itRestart := 0, first := false, cont := false }, by
     simp [depositNow, canAccumulate, Clock.stepRelative]⟩

/-! ## rebinning from kept hills -/

/-- after a restart with `rebinGrids` every bin of the **new** grid holds the sum of all kept hills evaluated at that bin's centre,
    whatever grid the state had been written with — so inside the new grid the bias is the one the property describes -/
theorem rebin_bins (p : MetaParams ℝ) (g' : GridDef ℝ) (s : MetaState ℝ) (ix : List Int)
    (hpos : ∀ n ∈ g'.nx, 0 < n) (hne : g'.nx ≠ []) (hok : indexOk g'.nx ix = true) :
    (metaRebin p g' s).gridE.getD (address 1 g'.nx ix).toNat 0 = hillsEnergy p s.hills (binCenters g' ix) := by
  have hnt := Cv.C15.ntOf_pos g'.nx hpos
  have hlen : (((MetaState.empty g' true : MetaState ℝ).gridE.length : Nat) : Int) = ntOf 1 (MetaState.empty g' true : MetaState ℝ).g.nx := by
    simp only [MetaState.empty, if_true, List.length_replicate]
    exact Int.toNat_of_nonneg hnt.le
  have h := project_adds p (MetaState.empty g' true) s.hills ix hpos hne hlen hok
  have h0 : (MetaState.empty g' true : MetaState ℝ).gridE.getD (address 1 g'.nx ix).toNat 0 = 0 := by
    simp only [MetaState.empty, if_true]
    rw [List.getD_eq_getElem?_getD]
    by_cases hlt : (address 1 g'.nx ix).toNat < (ntOf 1 g'.nx).toNat
    · rw [List.getElem?_replicate]; simp [hlt]; norm_num
    · rw [List.getElem?_eq_none (by simpa using Nat.le_of_not_lt hlt)]; rfl
  show (projectHills p (MetaState.empty g' true) s.hills).gridE.getD (address 1 g'.nx ix).toNat 0 = _
  have hg : (MetaState.empty g' true : MetaState ℝ).g = g' := rfl
  rw [hg] at h
  rw [h, h0, zero_add]

end Cv.C05
