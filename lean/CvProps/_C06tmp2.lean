import CvProps.C06Lemmas
open Cv
namespace Cv.C06
theorem dUdk_is_potential_per_k (p : RParams ℝ) (k : ℝ) (cs : List ℝ) (i : Nat) (x : ℝ) :
    rPotential p k cs i x = k * rDUdk p cs i x := by
  unfold rPotential rDUdk
  cases p.kind <;> simp only [lit_half, lit_one, lit_zero]
  · ring
  · ring
  · ring
end Cv.C06
