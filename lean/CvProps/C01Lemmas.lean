import CvProps.RealInst
import Mathlib.Analysis.Calculus.Deriv.Add
import Mathlib.Analysis.Calculus.Deriv.Mul
import Mathlib.Analysis.Calculus.Deriv.Inv
import Mathlib.Analysis.Calculus.Deriv.Pow
import Mathlib.Analysis.SpecialFunctions.Trigonometric.InverseDeriv
import Mathlib.Analysis.SpecialFunctions.Pow.Deriv
/-! Helper lemmas for C01. -/
open Cv Cv.Geom

namespace Cv.C01

theorem lit0 : (0.0 : ℝ) = 0 := by norm_num
theorem lit1 : (1.0 : ℝ) = 1 := by norm_num
theorem lithalf : (0.5 : ℝ) = 1 / 2 := by norm_num

theorem v3_ext {a b : V3 ℝ} (hx : a.x = b.x) (hy : a.y = b.y) (hz : a.z = b.z) : a = b := by
  cases a; cases b; simp_all

/-! ### recursive descriptions of the folds -/

/-- sum of the masses -/
noncomputable def msum : AGroup ℝ → ℝ
  | [] => 0
  | a :: g => a.m + msum g

/-- sum of mass × position -/
noncomputable def wsum : AGroup ℝ → V3 ℝ
  | [] => ⟨0, 0, 0⟩
  | a :: g => V3.add (V3.smul a.m a.r) (wsum g)

/-- sum of positions -/
noncomputable def rsum : AGroup ℝ → V3 ℝ
  | [] => ⟨0, 0, 0⟩
  | a :: g => V3.add a.r (rsum g)

/-- sum of squared positions -/
noncomputable def qsum : AGroup ℝ → ℝ
  | [] => 0
  | a :: g => V3.norm2 a.r + qsum g

theorem foldl_mass (g : AGroup ℝ) (acc : ℝ) : g.foldl (fun s a => s + a.m) acc = acc + msum g := by
  induction g generalizing acc with
  | nil => simp [msum]
  | cons a g ih => simp only [List.foldl_cons, ih, msum]; ring

theorem totalMass_eq (g : AGroup ℝ) : totalMass g = msum g := by
  unfold totalMass; rw [foldl_mass, lit0]; ring

theorem foldl_wsum (g : AGroup ℝ) (acc : V3 ℝ) :
    g.foldl (fun s a => V3.add s (V3.smul a.m a.r)) acc = V3.add acc (wsum g) := by
  induction g generalizing acc with
  | nil => apply v3_ext <;> simp [wsum, V3.add]
  | cons a g ih =>
    simp only [List.foldl_cons, ih, wsum]
    apply v3_ext <;> simp only [V3.add] <;> ring

theorem foldl_rsum (g : AGroup ℝ) (acc : V3 ℝ) :
    g.foldl (fun s a => V3.add s a.r) acc = V3.add acc (rsum g) := by
  induction g generalizing acc with
  | nil => apply v3_ext <;> simp [rsum, V3.add]
  | cons a g ih =>
    simp only [List.foldl_cons, ih, rsum]
    apply v3_ext <;> simp only [V3.add] <;> ring

theorem com_eq (g : AGroup ℝ) : com g = V3.smul (1 / msum g) (wsum g) := by
  unfold com; rw [foldl_wsum, totalMass_eq, lit1]
  apply v3_ext <;> simp [V3.add, V3.smul, V3.zero, lit0]

theorem cog_eq (g : AGroup ℝ) : cog g = V3.smul (1 / (g.length : ℝ)) (rsum g) := by
  unfold cog; rw [foldl_rsum, lit1]
  apply v3_ext <;> simp [V3.add, V3.smul, V3.zero, lit0]

theorem msum_pos (g : AGroup ℝ) (hne : g ≠ []) (hpos : ∀ a ∈ g, 0 < a.m) : 0 < msum g := by
  induction g with
  | nil => exact absurd rfl hne
  | cons a g ih =>
    simp only [msum]
    have ha : 0 < a.m := hpos a (by simp)
    by_cases hg : g = []
    · subst hg; simpa [msum] using ha
    · have := ih hg (fun b hb => hpos b (by simp [hb])); linarith

/-! ### moving one atom -/

/-- the group with atom `k` moved by `v` (the `move` of `C01.lean`) -/
noncomputable def mv (g : AGroup ℝ) (k : Nat) (v : V3 ℝ) : AGroup ℝ :=
  g.modify k fun a => { a with r := V3.add a.r v }

theorem mv_length (g : AGroup ℝ) (k : Nat) (v : V3 ℝ) : (mv g k v).length = g.length := by
  simp [mv]

theorem msum_mv (g : AGroup ℝ) (k : Nat) (v : V3 ℝ) : msum (mv g k v) = msum g := by
  unfold mv
  induction g generalizing k with
  | nil => simp
  | cons a g ih =>
    cases k with
    | zero => simp [msum]
    | succ k => simp only [List.modify_succ_cons, msum, ih]

theorem wsum_mv (g : AGroup ℝ) (k : Nat) (hk : k < g.length) (v : V3 ℝ) :
    wsum (mv g k v) = V3.add (wsum g) (V3.smul (g[k]'hk).m v) := by
  unfold mv
  induction g generalizing k with
  | nil => simp at hk
  | cons a g ih =>
    cases k with
    | zero =>
      simp only [List.modify_zero_cons, wsum, List.getElem_cons_zero]
      apply v3_ext <;> simp only [V3.add, V3.smul] <;> ring
    | succ k =>
      have hk' : k < g.length := by simpa using hk
      simp only [List.modify_succ_cons, wsum, ih k hk', List.getElem_cons_succ]
      apply v3_ext <;> simp only [V3.add] <;> ring

theorem rsum_mv (g : AGroup ℝ) (k : Nat) (hk : k < g.length) (v : V3 ℝ) :
    rsum (mv g k v) = V3.add (rsum g) v := by
  unfold mv
  induction g generalizing k with
  | nil => simp at hk
  | cons a g ih =>
    cases k with
    | zero =>
      simp only [List.modify_zero_cons, rsum]
      apply v3_ext <;> simp only [V3.add] <;> ring
    | succ k =>
      have hk' : k < g.length := by simpa using hk
      simp only [List.modify_succ_cons, rsum, ih k hk']
      apply v3_ext <;> simp only [V3.add] <;> ring

theorem qsum_mv (g : AGroup ℝ) (k : Nat) (hk : k < g.length) (v : V3 ℝ) :
    qsum (mv g k v) = qsum g - V3.norm2 (g[k]'hk).r + V3.norm2 (V3.add (g[k]'hk).r v) := by
  unfold mv
  induction g generalizing k with
  | nil => simp at hk
  | cons a g ih =>
    cases k with
    | zero =>
      simp only [List.modify_zero_cons, qsum, List.getElem_cons_zero]; ring
    | succ k =>
      have hk' : k < g.length := by simpa using hk
      simp only [List.modify_succ_cons, qsum, ih k hk', List.getElem_cons_succ]; ring

theorem mv_getElem_r (g : AGroup ℝ) (k : Nat) (hk : k < g.length) (v : V3 ℝ) :
    ((mv g k v)[k]'(by rw [mv_length]; exact hk)).r = V3.add (g[k]'hk).r v := by
  simp [mv]

theorem com_mv (g : AGroup ℝ) (hM : msum g ≠ 0) (k : Nat) (hk : k < g.length) (v : V3 ℝ) :
    com (mv g k v) = V3.add (com g) (V3.smul ((g[k]'hk).m / msum g) v) := by
  rw [com_eq, com_eq, msum_mv, wsum_mv g k hk]
  apply v3_ext <;> simp only [V3.add, V3.smul] <;> field_simp

theorem cog_mv (g : AGroup ℝ) (k : Nat) (hk : k < g.length) (v : V3 ℝ) :
    cog (mv g k v) = V3.add (cog g) (V3.smul (1 / (g.length : ℝ)) v) := by
  rw [cog_eq, cog_eq, mv_length, rsum_mv g k hk]
  apply v3_ext <;> simp only [V3.add, V3.smul] <;> ring

/-! ### gradients as list entries -/

theorem weighted_getD (g : AGroup ℝ) (u : V3 ℝ) (k : Nat) (hk : k < g.length) :
    (weighted g u).getD k V3.zero = V3.smul ((g[k]'hk).m / msum g) u := by
  unfold weighted
  rw [totalMass_eq]
  simp [List.getD_eq_getElem?_getD, hk]

theorem foldl_add_weighted (g : AGroup ℝ) (M : ℝ) (u acc : V3 ℝ) :
    (g.map fun a => V3.smul (a.m / M) u).foldl V3.add acc = V3.add acc (V3.smul (msum g / M) u) := by
  induction g generalizing acc with
  | nil => apply v3_ext <;> simp [msum, V3.add, V3.smul]
  | cons a g ih =>
    simp only [List.map_cons, List.foldl_cons, ih, msum]
    apply v3_ext <;> simp only [V3.add, V3.smul] <;> ring

theorem groupForce_weighted (g : AGroup ℝ) (hM : msum g ≠ 0) (u : V3 ℝ) :
    groupForce (weighted g u) = u := by
  unfold groupForce weighted
  rw [totalMass_eq, foldl_add_weighted, div_self hM]
  apply v3_ext <;> simp [V3.add, V3.smul, V3.zero, lit0]

/-! ### calculus along a line -/


theorem hasDerivAt_affine (a b x : ℝ) : HasDerivAt (fun t : ℝ => a + t * b) b x := by
  have h := ((hasDerivAt_id x).mul_const b).const_add a
  simpa using h

/-- squared norm along a line -/
theorem hasDerivAt_norm2_line (p w : V3 ℝ) :
    HasDerivAt (fun t : ℝ => V3.norm2 (V3.add p (V3.smul t w))) (2 * V3.dot p w) 0 := by
  have hx := hasDerivAt_affine p.x w.x 0
  have hy := hasDerivAt_affine p.y w.y 0
  have hz := hasDerivAt_affine p.z w.z 0
  have h := ((hx.fun_mul hx).fun_add (hy.fun_mul hy)).fun_add (hz.fun_mul hz)
  simp only [V3.norm2, V3.dot, V3.add, V3.smul]
  exact h.congr_deriv (by ring)

theorem add_smul_zero (p w : V3 ℝ) : V3.add p (V3.smul 0 w) = p := by
  apply v3_ext <;> simp [V3.add, V3.smul]

theorem norm2_nonneg (p : V3 ℝ) : 0 ≤ V3.norm2 p := by
  simp only [V3.norm2, V3.dot]; nlinarith [mul_self_nonneg p.x, mul_self_nonneg p.y, mul_self_nonneg p.z]

theorem norm_nonneg (p : V3 ℝ) : 0 ≤ V3.norm p := by
  simp only [V3.norm, prim_sqrt]; exact Real.sqrt_nonneg _

theorem norm2_ne_zero_of_norm {p : V3 ℝ} (hp : V3.norm p ≠ 0) : V3.norm2 p ≠ 0 := by
  intro h; apply hp; simp [V3.norm, h]

theorem norm_mul_self (p : V3 ℝ) : V3.norm p * V3.norm p = V3.norm2 p := by
  simp only [V3.norm, prim_sqrt]; exact Real.mul_self_sqrt (norm2_nonneg p)

/-- norm along a line -/
theorem hasDerivAt_norm_line (p w : V3 ℝ) (hp : V3.norm p ≠ 0) :
    HasDerivAt (fun t : ℝ => V3.norm (V3.add p (V3.smul t w))) (V3.dot p w / V3.norm p) 0 := by
  have h := (hasDerivAt_norm2_line p w).sqrt (by simpa [add_smul_zero] using norm2_ne_zero_of_norm hp)
  simp only [V3.norm, prim_sqrt]
  rw [add_smul_zero] at h
  exact h.congr_deriv (by ring)

theorem unit_of_pos {p : V3 ℝ} (hp : V3.norm p ≠ 0) : V3.unit p = V3.smul (1 / V3.norm p) p := by
  have : V3.norm p > 0.0 := by
    rw [lit0]; exact lt_of_le_of_ne (norm_nonneg p) (Ne.symm hp)
  simp only [V3.unit, this, if_true, lit1]

theorem dot_unit (a d : V3 ℝ) : V3.dot (V3.unit a) d = V3.dot a d / V3.norm a := by
  by_cases hn : V3.norm a = 0
  · have h2 : V3.norm2 a = 0 := by
      have := norm_mul_self a; rw [hn] at this; simpa using this.symm
    have hx : a.x = 0 := by
      simp only [V3.norm2, V3.dot] at h2; nlinarith [mul_self_nonneg a.x, mul_self_nonneg a.y, mul_self_nonneg a.z]
    have hy : a.y = 0 := by
      simp only [V3.norm2, V3.dot] at h2; nlinarith [mul_self_nonneg a.x, mul_self_nonneg a.y, mul_self_nonneg a.z]
    have hz : a.z = 0 := by
      simp only [V3.norm2, V3.dot] at h2; nlinarith [mul_self_nonneg a.x, mul_self_nonneg a.y, mul_self_nonneg a.z]
    have : ¬ (V3.norm a > 0.0) := by rw [hn, lit0]; exact lt_irrefl 0
    simp [V3.unit, this, V3.dot, hx, hy, hz]
  · rw [unit_of_pos hn]; simp only [V3.dot, V3.smul]; field_simp

theorem dot_unit_unit {a : V3 ℝ} (hn : V3.norm a ≠ 0) : V3.dot (V3.unit a) (V3.unit a) = 1 := by
  rw [unit_of_pos hn]
  have h := norm_mul_self a
  simp only [V3.norm2, V3.dot] at h
  simp only [V3.dot, V3.smul]
  field_simp
  nlinarith [h]

/-- a bilinear form along two lines -/
theorem hasDerivAt_dot_lines (a w b w' : V3 ℝ) :
    HasDerivAt (fun t : ℝ => V3.dot (V3.add a (V3.smul t w)) (V3.add b (V3.smul t w')))
      (V3.dot w b + V3.dot a w') 0 := by
  have hx := (hasDerivAt_affine a.x w.x 0).fun_mul (hasDerivAt_affine b.x w'.x 0)
  have hy := (hasDerivAt_affine a.y w.y 0).fun_mul (hasDerivAt_affine b.y w'.y 0)
  have hz := (hasDerivAt_affine a.z w.z 0).fun_mul (hasDerivAt_affine b.z w'.z 0)
  have h := (hx.fun_add hy).fun_add hz
  simp only [V3.dot, V3.add, V3.smul]
  exact h.congr_deriv (by ring)

/-- projection on a moving unit vector -/
theorem hasDerivAt_dot_unit_lines (a w b w' : V3 ℝ) (ha : V3.norm a ≠ 0) :
    HasDerivAt (fun t : ℝ => V3.dot (V3.unit (V3.add a (V3.smul t w))) (V3.add b (V3.smul t w')))
      (((V3.dot w b + V3.dot a w') * V3.norm a - V3.dot a b * (V3.dot a w / V3.norm a)) / V3.norm a ^ 2) 0 := by
  simp only [dot_unit]
  have h := (hasDerivAt_dot_lines a w b w').fun_div (hasDerivAt_norm_line a w ha) (by simpa [add_smul_zero] using ha)
  simp only [add_smul_zero] at h
  exact h


/-! ### component gradients, stated with `mv` and `msum ≠ 0` -/

theorem distance_grad2 (g1 g2 : AGroup ℝ) (hM : msum g2 ≠ 0) (hne : distance g1 g2 ≠ 0)
    (k : Nat) (hk : k < g2.length) (d : V3 ℝ) :
    HasDerivAt (fun t : ℝ => distance g1 (mv g2 k (V3.smul t d)))
      (V3.dot ((distanceGrad g1 g2).2.getD k V3.zero) d) 0 := by
  have hn : V3.norm (distVec g1 g2) ≠ 0 := hne
  have hfun : ∀ t : ℝ, distance g1 (mv g2 k (V3.smul t d))
      = V3.norm (V3.add (distVec g1 g2) (V3.smul t (V3.smul ((g2[k]'hk).m / msum g2) d))) := by
    intro t
    unfold distance distVec
    rw [com_mv g2 hM k hk]
    congr 1
    apply v3_ext <;> simp only [V3.add, V3.sub, V3.smul] <;> ring
  simp only [hfun]
  have h := hasDerivAt_norm_line (distVec g1 g2) (V3.smul ((g2[k]'hk).m / msum g2) d) hn
  simp only [distanceGrad]
  rw [weighted_getD _ _ k hk, unit_of_pos hn]
  refine h.congr_deriv ?_
  simp only [V3.dot, V3.smul]
  field_simp

theorem distance_grad1 (g1 g2 : AGroup ℝ) (hM : msum g1 ≠ 0) (hne : distance g1 g2 ≠ 0)
    (k : Nat) (hk : k < g1.length) (d : V3 ℝ) :
    HasDerivAt (fun t : ℝ => distance (mv g1 k (V3.smul t d)) g2)
      (V3.dot ((distanceGrad g1 g2).1.getD k V3.zero) d) 0 := by
  have hn : V3.norm (distVec g1 g2) ≠ 0 := hne
  have hfun : ∀ t : ℝ, distance (mv g1 k (V3.smul t d)) g2
      = V3.norm (V3.add (distVec g1 g2) (V3.smul t (V3.smul (-((g1[k]'hk).m / msum g1)) d))) := by
    intro t
    unfold distance distVec
    rw [com_mv g1 hM k hk]
    congr 1
    apply v3_ext <;> simp only [V3.add, V3.sub, V3.smul] <;> ring
  simp only [hfun]
  have h := hasDerivAt_norm_line (distVec g1 g2) (V3.smul (-((g1[k]'hk).m / msum g1)) d) hn
  simp only [distanceGrad]
  rw [weighted_getD _ _ k hk, unit_of_pos hn]
  refine h.congr_deriv ?_
  simp only [V3.dot, V3.smul, lit1]
  field_simp

theorem distanceZ_grad_m (main ref : AGroup ℝ) (axis : V3 ℝ) (hM : msum main ≠ 0)
    (k : Nat) (hk : k < main.length) (d : V3 ℝ) :
    HasDerivAt (fun t : ℝ => distanceZ (mv main k (V3.smul t d)) ref axis)
      (V3.dot ((distanceZGrad main ref axis).1.getD k V3.zero) d) 0 := by
  have hfun : ∀ t : ℝ, distanceZ (mv main k (V3.smul t d)) ref axis
      = distanceZ main ref axis + t * (((main[k]'hk).m / msum main) * V3.dot (V3.unit axis) d) := by
    intro t
    unfold distanceZ
    rw [com_mv main hM k hk]
    simp only [V3.dot, V3.add, V3.sub, V3.smul]; ring
  simp only [hfun]
  have h := hasDerivAt_affine (distanceZ main ref axis) (((main[k]'hk).m / msum main) * V3.dot (V3.unit axis) d) 0
  simp only [distanceZGrad]
  rw [weighted_getD _ _ k hk]
  refine h.congr_deriv ?_
  simp only [V3.dot, V3.smul]; ring

theorem distanceZ_grad_r (main ref : AGroup ℝ) (axis : V3 ℝ) (hM : msum ref ≠ 0)
    (k : Nat) (hk : k < ref.length) (d : V3 ℝ) :
    HasDerivAt (fun t : ℝ => distanceZ main (mv ref k (V3.smul t d)) axis)
      (V3.dot ((distanceZGrad main ref axis).2.getD k V3.zero) d) 0 := by
  have hfun : ∀ t : ℝ, distanceZ main (mv ref k (V3.smul t d)) axis
      = distanceZ main ref axis + t * (-((ref[k]'hk).m / msum ref) * V3.dot (V3.unit axis) d) := by
    intro t
    unfold distanceZ
    rw [com_mv ref hM k hk]
    simp only [V3.dot, V3.add, V3.sub, V3.smul]; ring
  simp only [hfun]
  have h := hasDerivAt_affine (distanceZ main ref axis) (-((ref[k]'hk).m / msum ref) * V3.dot (V3.unit axis) d) 0
  simp only [distanceZGrad]
  rw [weighted_getD _ _ k hk]
  refine h.congr_deriv ?_
  simp only [V3.dot, V3.smul, lit1]; ring

theorem distanceZ2_grad_m (main r1 r2 : AGroup ℝ) (hM : msum main ≠ 0)
    (k : Nat) (hk : k < main.length) (d : V3 ℝ) :
    HasDerivAt (fun t : ℝ => distanceZ2 (mv main k (V3.smul t d)) r1 r2)
      (V3.dot ((distanceZ2Grad main r1 r2).1.getD k V3.zero) d) 0 := by
  have hfun : ∀ t : ℝ, distanceZ2 (mv main k (V3.smul t d)) r1 r2
      = distanceZ2 main r1 r2
        + t * (((main[k]'hk).m / msum main) * V3.dot (V3.unit (V3.sub (com r2) (com r1))) d) := by
    intro t
    unfold distanceZ2
    rw [com_mv main hM k hk]
    simp only [V3.dot, V3.add, V3.sub, V3.smul]; ring
  simp only [hfun]
  have h := hasDerivAt_affine (distanceZ2 main r1 r2)
    (((main[k]'hk).m / msum main) * V3.dot (V3.unit (V3.sub (com r2) (com r1))) d) 0
  simp only [distanceZ2Grad]
  rw [weighted_getD _ _ k hk]
  refine h.congr_deriv ?_
  simp only [V3.dot, V3.smul]; ring

/-- the algebra behind the two reference-group gradients of `distanceZ2`, on bare vectors -/
theorem z2_alg1 (c1 c2 cm d : V3 ℝ) (μ : ℝ) (hn : V3.norm (V3.sub c2 c1) ≠ 0) :
    let a := V3.sub c2 c1
    let b := V3.sub cm (V3.smul 0.5 (V3.add c1 c2))
    let w := V3.smul (-μ) d
    let w' := V3.smul (-(μ / 2)) d
    ((V3.dot w b + V3.dot a w') * V3.norm a - V3.dot a b * (V3.dot a w / V3.norm a)) / V3.norm a ^ 2
      = V3.dot (V3.smul μ (V3.smul (1.0 / V3.norm a)
          (V3.add (V3.sub c1 cm) (V3.smul (V3.dot (V3.unit a) b) (V3.unit a))))) d := by
  intro a b w w'
  rw [dot_unit, unit_of_pos hn]
  have hn' : V3.norm a ≠ 0 := hn
  generalize V3.norm a = n at *
  simp only [a, b, w, w', V3.dot, V3.add, V3.sub, V3.smul, lit1, lithalf]
  field_simp
  ring

theorem z2_alg2 (c1 c2 cm d : V3 ℝ) (μ : ℝ) (hn : V3.norm (V3.sub c2 c1) ≠ 0) :
    let a := V3.sub c2 c1
    let b := V3.sub cm (V3.smul 0.5 (V3.add c1 c2))
    let w := V3.smul μ d
    let w' := V3.smul (-(μ / 2)) d
    ((V3.dot w b + V3.dot a w') * V3.norm a - V3.dot a b * (V3.dot a w / V3.norm a)) / V3.norm a ^ 2
      = V3.dot (V3.smul μ (V3.smul (1.0 / V3.norm a)
          (V3.sub (V3.sub cm c2) (V3.smul (V3.dot (V3.unit a) b) (V3.unit a))))) d := by
  intro a b w w'
  rw [dot_unit, unit_of_pos hn]
  have hn' : V3.norm a ≠ 0 := hn
  generalize V3.norm a = n at *
  simp only [a, b, w, w', V3.dot, V3.add, V3.sub, V3.smul, lit1, lithalf]
  field_simp
  ring

theorem distanceZ2_grad_r1 (main r1 r2 : AGroup ℝ) (hM : msum r1 ≠ 0)
    (hax : V3.norm (V3.sub (com r2) (com r1)) ≠ 0) (k : Nat) (hk : k < r1.length) (d : V3 ℝ) :
    HasDerivAt (fun t : ℝ => distanceZ2 main (mv r1 k (V3.smul t d)) r2)
      (V3.dot ((distanceZ2Grad main r1 r2).2.1.getD k V3.zero) d) 0 := by
  have hfun : ∀ t : ℝ, distanceZ2 main (mv r1 k (V3.smul t d)) r2
      = V3.dot (V3.unit (V3.add (V3.sub (com r2) (com r1)) (V3.smul t (V3.smul (-((r1[k]'hk).m / msum r1)) d))))
          (V3.add (V3.sub (com main) (V3.smul 0.5 (V3.add (com r1) (com r2))))
            (V3.smul t (V3.smul (-(((r1[k]'hk).m / msum r1) / 2)) d))) := by
    intro t
    unfold distanceZ2
    rw [com_mv r1 hM k hk]
    dsimp only
    congr 1
    · congr 1
      apply v3_ext <;> simp only [V3.add, V3.sub, V3.smul] <;> ring
    · apply v3_ext <;> simp only [V3.add, V3.sub, V3.smul, lithalf] <;> ring
  simp only [hfun]
  have h := hasDerivAt_dot_unit_lines (V3.sub (com r2) (com r1)) (V3.smul (-((r1[k]'hk).m / msum r1)) d)
    (V3.sub (com main) (V3.smul 0.5 (V3.add (com r1) (com r2))))
    (V3.smul (-(((r1[k]'hk).m / msum r1) / 2)) d) hax
  simp only [distanceZ2Grad]
  rw [weighted_getD _ _ k hk]
  refine h.congr_deriv ?_
  exact z2_alg1 (com r1) (com r2) (com main) d _ hax

theorem distanceZ2_grad_r2 (main r1 r2 : AGroup ℝ) (hM : msum r2 ≠ 0)
    (hax : V3.norm (V3.sub (com r2) (com r1)) ≠ 0) (k : Nat) (hk : k < r2.length) (d : V3 ℝ) :
    HasDerivAt (fun t : ℝ => distanceZ2 main r1 (mv r2 k (V3.smul t d)))
      (V3.dot ((distanceZ2Grad main r1 r2).2.2.getD k V3.zero) d) 0 := by
  have hfun : ∀ t : ℝ, distanceZ2 main r1 (mv r2 k (V3.smul t d))
      = V3.dot (V3.unit (V3.add (V3.sub (com r2) (com r1)) (V3.smul t (V3.smul ((r2[k]'hk).m / msum r2) d))))
          (V3.add (V3.sub (com main) (V3.smul 0.5 (V3.add (com r1) (com r2))))
            (V3.smul t (V3.smul (-(((r2[k]'hk).m / msum r2) / 2)) d))) := by
    intro t
    unfold distanceZ2
    rw [com_mv r2 hM k hk]
    dsimp only
    congr 1
    · congr 1
      apply v3_ext <;> simp only [V3.add, V3.sub, V3.smul] <;> ring
    · apply v3_ext <;> simp only [V3.add, V3.sub, V3.smul, lithalf] <;> ring
  simp only [hfun]
  have h := hasDerivAt_dot_unit_lines (V3.sub (com r2) (com r1)) (V3.smul ((r2[k]'hk).m / msum r2) d)
    (V3.sub (com main) (V3.smul 0.5 (V3.add (com r1) (com r2))))
    (V3.smul (-(((r2[k]'hk).m / msum r2) / 2)) d) hax
  simp only [distanceZ2Grad]
  rw [weighted_getD _ _ k hk]
  refine h.congr_deriv ?_
  exact z2_alg2 (com r1) (com r2) (com main) d _ hax

theorem orthoPart_dot_axis (main ref : AGroup ℝ) (axis : V3 ℝ) (hax : V3.norm axis ≠ 0) :
    V3.dot (orthoPart main ref axis) (V3.unit axis) = 0 := by
  have h1 := dot_unit_unit hax
  unfold orthoPart
  generalize V3.unit axis = e at *
  generalize V3.sub (com main) (com ref) = D
  simp only [V3.dot, V3.sub, V3.smul] at *
  linear_combination (-(D.x * e.x + D.y * e.y + D.z * e.z)) * h1

theorem distanceXY_grad_m (main ref : AGroup ℝ) (axis : V3 ℝ) (hM : msum main ≠ 0)
    (hax : V3.norm axis ≠ 0) (hne : distanceXY main ref axis ≠ 0) (k : Nat) (hk : k < main.length) (d : V3 ℝ) :
    HasDerivAt (fun t : ℝ => distanceXY (mv main k (V3.smul t d)) ref axis)
      (V3.dot ((distanceXYGrad main ref axis).1.getD k V3.zero) d) 0 := by
  have hn : V3.norm (orthoPart main ref axis) ≠ 0 := hne
  have h0 := orthoPart_dot_axis main ref axis hax
  have hfun : ∀ t : ℝ, distanceXY (mv main k (V3.smul t d)) ref axis
      = V3.norm (V3.add (orthoPart main ref axis)
          (V3.smul t (V3.smul ((main[k]'hk).m / msum main)
            (V3.sub d (V3.smul (V3.dot d (V3.unit axis)) (V3.unit axis)))))) := by
    intro t
    unfold distanceXY orthoPart
    rw [com_mv main hM k hk]
    congr 1
    apply v3_ext <;> simp only [V3.dot, V3.add, V3.sub, V3.smul] <;> ring
  simp only [hfun]
  have h := hasDerivAt_norm_line (orthoPart main ref axis) (V3.smul ((main[k]'hk).m / msum main)
            (V3.sub d (V3.smul (V3.dot d (V3.unit axis)) (V3.unit axis)))) hn
  simp only [distanceXYGrad]
  rw [weighted_getD _ _ k hk]
  refine h.congr_deriv ?_
  generalize orthoPart main ref axis = o at *
  generalize V3.unit axis = e at *
  generalize V3.norm o = n at *
  simp only [V3.dot, V3.sub, V3.smul, lit1] at *
  field_simp
  linear_combination (-(main[k].m * (d.x * e.x + d.y * e.y + d.z * e.z))) * h0


/-! ### gyration -/

theorem foldl_centered (g : AGroup ℝ) (c : V3 ℝ) (acc : ℝ) :
    (g.map fun a => V3.sub a.r c).foldl (fun s p => s + V3.norm2 p) acc
      = acc + qsum g - 2 * V3.dot (rsum g) c + (g.length : ℝ) * V3.norm2 c := by
  induction g generalizing acc with
  | nil => simp [qsum, rsum, V3.dot]
  | cons a g ih =>
    simp only [List.map_cons, List.foldl_cons, ih, qsum, rsum, List.length_cons]
    push_cast
    simp only [V3.norm2, V3.dot, V3.sub, V3.add]
    ring

theorem gyration_eq (g : AGroup ℝ) (hg : g ≠ []) :
    gyration g = Real.sqrt ((qsum g - V3.norm2 (rsum g) / (g.length : ℝ)) / (g.length : ℝ)) := by
  have hN : (g.length : ℝ) ≠ 0 := by
    have : g.length ≠ 0 := by simpa using hg
    exact_mod_cast this
  unfold gyration centered
  rw [foldl_centered, cog_eq, prim_sqrt, lit0]
  congr 2
  simp only [V3.norm2, V3.dot, V3.smul]
  field_simp
  ring

theorem gyration_grad_mv (g : AGroup ℝ) (hg : g ≠ []) (hne : gyration g ≠ 0) (k : Nat) (hk : k < g.length)
    (d : V3 ℝ) :
    HasDerivAt (fun t : ℝ => gyration (mv g k (V3.smul t d)))
      (V3.dot ((gyrationGrad g).getD k V3.zero) d) 0 := by
  have hN : (g.length : ℝ) ≠ 0 := by
    have : g.length ≠ 0 := by simpa using hg
    exact_mod_cast this
  have hmvne : ∀ t : ℝ, mv g k (V3.smul t d) ≠ [] := by
    intro t h
    have := mv_length g k (V3.smul t d)
    rw [h] at this
    exact hg (List.length_eq_zero_iff.mp this.symm)
  have hfun : ∀ t : ℝ, gyration (mv g k (V3.smul t d))
      = Real.sqrt (((qsum g - V3.norm2 (g[k]'hk).r + V3.norm2 (V3.add (g[k]'hk).r (V3.smul t d)))
          - V3.norm2 (V3.add (rsum g) (V3.smul t d)) / (g.length : ℝ)) / (g.length : ℝ)) := by
    intro t
    rw [gyration_eq _ (hmvne t), mv_length, qsum_mv g k hk, rsum_mv g k hk]
  simp only [hfun]
  have h1 := (hasDerivAt_norm2_line (g[k]'hk).r d).const_add (qsum g - V3.norm2 (g[k]'hk).r)
  have h2 := (hasDerivAt_norm2_line (rsum g) d).div_const (g.length : ℝ)
  have h3 := (h1.fun_sub h2).div_const (g.length : ℝ)
  have hG := gyration_eq g hg
  have hrad0 : ((qsum g - V3.norm2 (g[k]'hk).r + V3.norm2 (V3.add (g[k]'hk).r (V3.smul 0 d)))
          - V3.norm2 (V3.add (rsum g) (V3.smul 0 d)) / (g.length : ℝ)) / (g.length : ℝ)
        = (qsum g - V3.norm2 (rsum g) / (g.length : ℝ)) / (g.length : ℝ) := by
    simp only [add_smul_zero]; ring
  have hrad : (qsum g - V3.norm2 (rsum g) / (g.length : ℝ)) / (g.length : ℝ) ≠ 0 := by
    intro h0; apply hne; rw [hG, h0, Real.sqrt_zero]
  have h := h3.sqrt (by rw [hrad0]; exact hrad)
  rw [hrad0, ← hG] at h
  refine h.congr_deriv ?_
  have hgetD : (gyrationGrad g).getD k V3.zero
      = V3.smul (1 / ((g.length : ℝ) * gyration g)) (V3.sub (g[k]'hk).r (cog g)) := by
    unfold gyrationGrad centered
    simp [List.getD_eq_getElem?_getD, hk, lit1]
  rw [hgetD, cog_eq]
  generalize gyration g = G at *
  simp only [V3.dot, V3.sub, V3.smul]
  field_simp
  ring

/-! ### polynomial combination -/

theorem ipow_eq (x : ℝ) (n : Nat) : ipow x n = x ^ n := by
  induction n with
  | zero => simp [ipow, lit1]
  | succ n ih => simp only [ipow, ih]; ring

theorem foldl_combine (ts : List (Term ℝ)) (acc : ℝ) :
    ts.foldl (fun s t => s + t.c * ipow t.q t.n) acc = acc + (ts.map fun t => t.c * t.q ^ t.n).sum := by
  induction ts generalizing acc with
  | nil => simp
  | cons t ts ih => rw [List.foldl_cons, ih, List.map_cons, List.sum_cons, ipow_eq]; ring

theorem combine_eq (ts : List (Term ℝ)) : combine ts = (ts.map fun t => t.c * t.q ^ t.n).sum := by
  unfold combine; rw [foldl_combine, lit0]; ring

theorem hasDerivAt_list_sum {ι : Type} (l : List ι) (f : ι → ℝ → ℝ) (f' : ι → ℝ) (x : ℝ)
    (h : ∀ i ∈ l, HasDerivAt (f i) (f' i) x) :
    HasDerivAt (fun t : ℝ => (l.map fun i => f i t).sum) ((l.map f').sum) x := by
  induction l with
  | nil => simpa using hasDerivAt_const x (0 : ℝ)
  | cons i l ih =>
    simp only [List.map_cons, List.sum_cons]
    exact (h i (by simp)).fun_add (ih fun j hj => h j (by simp [hj]))

theorem hasDerivAt_term (c : ℝ) (n : Nat) (q : ℝ → ℝ) (q' x : ℝ) (hq : HasDerivAt q q' x) :
    HasDerivAt (fun t : ℝ => c * q t ^ n) (termFactor ({ c := c, n := n, q := q x } : Term ℝ) * q') x := by
  have h := (hq.fun_pow n).const_mul c
  refine h.congr_deriv ?_
  by_cases hn : n = 0
  · subst hn; simp [termFactor, lit0]
  · simp only [termFactor, hn, if_false, ipow_eq]; ring

theorem combine_chain_gen (is : List Nat) (c : Nat → ℝ) (n : Nat → Nat) (q : Nat → ℝ → ℝ) (q' : Nat → ℝ)
    (hq : ∀ i ∈ is, HasDerivAt (q i) (q' i) 0) :
    HasDerivAt (fun t : ℝ => combine (is.map fun i => ({ c := c i, n := n i, q := q i t } : Term ℝ)))
      ((is.map fun i => termFactor ({ c := c i, n := n i, q := q i 0 } : Term ℝ) * q' i).sum) 0 := by
  simp only [combine_eq, List.map_map, Function.comp_def]
  exact hasDerivAt_list_sum is (fun i t => c i * q i t ^ n i)
    (fun i => termFactor ({ c := c i, n := n i, q := q i 0 } : Term ℝ) * q' i) 0
    (fun i hi => hasDerivAt_term (c i) (n i) (q i) (q' i) 0 (hq i hi))

/-- harmonic restraint energy along a path of the component value -/
theorem harmonic_energy_deriv (c : ℝ) (n : Nat) (kf x₀ w : ℝ) (hw : w ≠ 0) (q : ℝ → ℝ) (q' : ℝ)
    (hq : HasDerivAt q q' 0) :
    HasDerivAt (fun t : ℝ => 0.5 * kf * ((combine [({ c := c, n := n, q := q t } : Term ℝ)] - x₀) / w) ^ 2)
      (kf * (combine [({ c := c, n := n, q := q 0 } : Term ℝ)] - x₀) / (w * w)
        * termFactor ({ c := c, n := n, q := q 0 } : Term ℝ) * q') 0 := by
  have hx : HasDerivAt (fun t : ℝ => combine [({ c := c, n := n, q := q t } : Term ℝ)])
      (termFactor ({ c := c, n := n, q := q 0 } : Term ℝ) * q') 0 := by
    have := combine_chain_gen [0] (fun _ => c) (fun _ => n) (fun _ => q) (fun _ => q') (by simpa using hq)
    simpa using this
  have h := ((((hx.sub_const x₀).div_const w).fun_pow 2).const_mul (0.5 * kf))
  refine h.congr_deriv ?_
  rw [lithalf]
  generalize combine [({ c := c, n := n, q := q 0 } : Term ℝ)] = X
  generalize termFactor ({ c := c, n := n, q := q 0 } : Term ℝ) = T
  norm_num
  field_simp

theorem distance_grad_sum (g1 g2 : AGroup ℝ) (hM1 : msum g1 ≠ 0) (hM2 : msum g2 ≠ 0) :
    V3.add (groupForce (distanceGrad g1 g2).1) (groupForce (distanceGrad g1 g2).2) = V3.zero := by
  simp only [distanceGrad]
  rw [groupForce_weighted g1 hM1, groupForce_weighted g2 hM2]
  apply v3_ext <;> simp [V3.add, V3.smul, V3.zero, lit0, lit1]

/-! ### angle (degrees) -/

/-- cosine of the angle between two vectors that move along lines -/
theorem hasDerivAt_cos_lines (a w b w' : V3 ℝ) (ha : V3.norm a ≠ 0) (hb : V3.norm b ≠ 0) :
    HasDerivAt (fun t : ℝ => V3.dot (V3.add a (V3.smul t w)) (V3.add b (V3.smul t w'))
        / (V3.norm (V3.add a (V3.smul t w)) * V3.norm (V3.add b (V3.smul t w'))))
      (((V3.dot w b + V3.dot a w') * (V3.norm a * V3.norm b)
        - V3.dot a b * (V3.dot a w / V3.norm a * V3.norm b + V3.norm a * (V3.dot b w' / V3.norm b)))
        / (V3.norm a * V3.norm b) ^ 2) 0 := by
  have hn := (hasDerivAt_norm_line a w ha).fun_mul (hasDerivAt_norm_line b w' hb)
  have h := (hasDerivAt_dot_lines a w b w').fun_div hn
    (by simpa [add_smul_zero] using mul_ne_zero ha hb)
  simp only [add_smul_zero] at h
  exact h

/-- the angle (in degrees) between two vectors that move along lines -/
theorem hasDerivAt_angle_lines (a w b w' : V3 ℝ) (ha : V3.norm a ≠ 0) (hb : V3.norm b ≠ 0)
    (hc1 : -1 < V3.dot a b / (V3.norm a * V3.norm b)) (hc2 : V3.dot a b / (V3.norm a * V3.norm b) < 1) :
    HasDerivAt (fun t : ℝ => (radToDeg : ℝ) * Real.arccos
        (V3.dot (V3.add a (V3.smul t w)) (V3.add b (V3.smul t w'))
          / (V3.norm (V3.add a (V3.smul t w)) * V3.norm (V3.add b (V3.smul t w')))))
      ((radToDeg : ℝ) * (-(1 / Real.sqrt (1 - (V3.dot a b / (V3.norm a * V3.norm b)) ^ 2))
        * (((V3.dot w b + V3.dot a w') * (V3.norm a * V3.norm b)
        - V3.dot a b * (V3.dot a w / V3.norm a * V3.norm b + V3.norm a * (V3.dot b w' / V3.norm b)))
        / (V3.norm a * V3.norm b) ^ 2))) 0 := by
  have hc := hasDerivAt_cos_lines a w b w' ha hb
  have hacos : HasDerivAt Real.arccos (-(1 / Real.sqrt (1 - (V3.dot a b / (V3.norm a * V3.norm b)) ^ 2)))
      ((fun t : ℝ => V3.dot (V3.add a (V3.smul t w)) (V3.add b (V3.smul t w'))
        / (V3.norm (V3.add a (V3.smul t w)) * V3.norm (V3.add b (V3.smul t w')))) 0) := by
    simp only [add_smul_zero]
    exact Real.hasDerivAt_arccos hc1.ne' hc2.ne
  exact (hacos.comp 0 hc).const_mul _

/-- the two arm gradients of the model, on bare vectors (`c` the cosine) -/
noncomputable def armGrads (a b : V3 ℝ) : V3 ℝ × V3 ℝ :=
  let l21 := V3.norm a
  let l23 := V3.norm b
  let c := V3.dot a b / (l21 * l23)
  let s := Prim.sqrt (1.0 - c * c)
  let k := (radToDeg : ℝ) * (-1.0 / s)
  (V3.smul (k / l21) (V3.sub (V3.smul (1.0 / l23) b) (V3.smul (c / l21) a)),
   V3.smul (k / l23) (V3.sub (V3.smul (1.0 / l21) a) (V3.smul (c / l23) b)))

theorem angleGrad_eq (g1 g2 g3 : AGroup ℝ) :
    angleGrad g1 g2 g3 =
      (weighted g1 (armGrads (V3.sub (com g1) (com g2)) (V3.sub (com g3) (com g2))).1,
       weighted g2 (V3.smul (-1.0) (V3.add (armGrads (V3.sub (com g1) (com g2)) (V3.sub (com g3) (com g2))).1
          (armGrads (V3.sub (com g1) (com g2)) (V3.sub (com g3) (com g2))).2)),
       weighted g3 (armGrads (V3.sub (com g1) (com g2)) (V3.sub (com g3) (com g2))).2) := rfl

theorem angle_alg (a b d : V3 ℝ) (μ ν : ℝ) (ha : V3.norm a ≠ 0) (hb : V3.norm b ≠ 0)
    (hc1 : -1 < V3.dot a b / (V3.norm a * V3.norm b)) (hc2 : V3.dot a b / (V3.norm a * V3.norm b) < 1) :
    (radToDeg : ℝ) * (-(1 / Real.sqrt (1 - (V3.dot a b / (V3.norm a * V3.norm b)) ^ 2))
        * (((V3.dot (V3.smul μ d) b + V3.dot a (V3.smul ν d)) * (V3.norm a * V3.norm b)
        - V3.dot a b * (V3.dot a (V3.smul μ d) / V3.norm a * V3.norm b
            + V3.norm a * (V3.dot b (V3.smul ν d) / V3.norm b)))
        / (V3.norm a * V3.norm b) ^ 2))
      = μ * V3.dot (armGrads a b).1 d + ν * V3.dot (armGrads a b).2 d := by
  have hs : Real.sqrt (1 - (V3.dot a b / (V3.norm a * V3.norm b)) ^ 2) ≠ 0 := by
    apply Real.sqrt_ne_zero'.mpr
    nlinarith
  have e : (1.0 : ℝ) - V3.dot a b / (V3.norm a * V3.norm b) * (V3.dot a b / (V3.norm a * V3.norm b))
      = 1 - (V3.dot a b / (V3.norm a * V3.norm b)) ^ 2 := by rw [lit1]; ring
  simp only [armGrads, prim_sqrt, e]
  generalize Real.sqrt (1 - (V3.dot a b / (V3.norm a * V3.norm b)) ^ 2) = s at *
  generalize (radToDeg : ℝ) = R
  generalize V3.norm a = na at *
  generalize V3.norm b = nb at *
  simp only [V3.dot, V3.sub, V3.smul, lit1]
  field_simp
  ring

theorem angle_grad1 (g1 g2 g3 : AGroup ℝ) (hM : msum g1 ≠ 0)
    (ha : V3.norm (V3.sub (com g1) (com g2)) ≠ 0) (hb : V3.norm (V3.sub (com g3) (com g2)) ≠ 0)
    (hc1 : -1 < angleCos g1 g2 g3) (hc2 : angleCos g1 g2 g3 < 1)
    (k : Nat) (hk : k < g1.length) (d : V3 ℝ) :
    HasDerivAt (fun t : ℝ => angle (mv g1 k (V3.smul t d)) g2 g3)
      (V3.dot ((angleGrad g1 g2 g3).1.getD k V3.zero) d) 0 := by
  have hfun : ∀ t : ℝ, angle (mv g1 k (V3.smul t d)) g2 g3
      = (radToDeg : ℝ) * Real.arccos
        (V3.dot (V3.add (V3.sub (com g1) (com g2)) (V3.smul t (V3.smul ((g1[k]'hk).m / msum g1) d)))
            (V3.add (V3.sub (com g3) (com g2)) (V3.smul t (V3.smul 0 d)))
          / (V3.norm (V3.add (V3.sub (com g1) (com g2)) (V3.smul t (V3.smul ((g1[k]'hk).m / msum g1) d)))
            * V3.norm (V3.add (V3.sub (com g3) (com g2)) (V3.smul t (V3.smul 0 d))))) := by
    intro t
    have e1 : V3.sub (com (mv g1 k (V3.smul t d))) (com g2)
        = V3.add (V3.sub (com g1) (com g2)) (V3.smul t (V3.smul ((g1[k]'hk).m / msum g1) d)) := by
      rw [com_mv g1 hM k hk]
      apply v3_ext <;> simp only [V3.add, V3.sub, V3.smul] <;> ring
    have e3 : V3.sub (com g3) (com g2)
        = V3.add (V3.sub (com g3) (com g2)) (V3.smul t (V3.smul 0 d)) := by
      apply v3_ext <;> simp only [V3.add, V3.sub, V3.smul] <;> ring
    simp only [angle, angleCos, prim_acos]
    rw [e1, ← e3]
  simp only [hfun]
  have h := hasDerivAt_angle_lines (V3.sub (com g1) (com g2)) (V3.smul ((g1[k]'hk).m / msum g1) d)
    (V3.sub (com g3) (com g2)) (V3.smul 0 d) ha hb hc1 hc2
  rw [angleGrad_eq, weighted_getD _ _ k hk]
  refine h.congr_deriv ?_
  rw [angle_alg _ _ d _ 0 ha hb hc1 hc2]
  simp only [V3.dot, V3.smul]; ring

theorem angle_grad3 (g1 g2 g3 : AGroup ℝ) (hM : msum g3 ≠ 0)
    (ha : V3.norm (V3.sub (com g1) (com g2)) ≠ 0) (hb : V3.norm (V3.sub (com g3) (com g2)) ≠ 0)
    (hc1 : -1 < angleCos g1 g2 g3) (hc2 : angleCos g1 g2 g3 < 1)
    (k : Nat) (hk : k < g3.length) (d : V3 ℝ) :
    HasDerivAt (fun t : ℝ => angle g1 g2 (mv g3 k (V3.smul t d)))
      (V3.dot ((angleGrad g1 g2 g3).2.2.getD k V3.zero) d) 0 := by
  have hfun : ∀ t : ℝ, angle g1 g2 (mv g3 k (V3.smul t d))
      = (radToDeg : ℝ) * Real.arccos
        (V3.dot (V3.add (V3.sub (com g1) (com g2)) (V3.smul t (V3.smul 0 d)))
            (V3.add (V3.sub (com g3) (com g2)) (V3.smul t (V3.smul ((g3[k]'hk).m / msum g3) d)))
          / (V3.norm (V3.add (V3.sub (com g1) (com g2)) (V3.smul t (V3.smul 0 d)))
            * V3.norm (V3.add (V3.sub (com g3) (com g2)) (V3.smul t (V3.smul ((g3[k]'hk).m / msum g3) d))))) := by
    intro t
    have e3 : V3.sub (com (mv g3 k (V3.smul t d))) (com g2)
        = V3.add (V3.sub (com g3) (com g2)) (V3.smul t (V3.smul ((g3[k]'hk).m / msum g3) d)) := by
      rw [com_mv g3 hM k hk]
      apply v3_ext <;> simp only [V3.add, V3.sub, V3.smul] <;> ring
    have e1 : V3.sub (com g1) (com g2)
        = V3.add (V3.sub (com g1) (com g2)) (V3.smul t (V3.smul 0 d)) := by
      apply v3_ext <;> simp only [V3.add, V3.sub, V3.smul] <;> ring
    simp only [angle, angleCos, prim_acos]
    rw [e3, ← e1]
  simp only [hfun]
  have h := hasDerivAt_angle_lines (V3.sub (com g1) (com g2)) (V3.smul 0 d)
    (V3.sub (com g3) (com g2)) (V3.smul ((g3[k]'hk).m / msum g3) d) ha hb hc1 hc2
  rw [angleGrad_eq, weighted_getD _ _ k hk]
  refine h.congr_deriv ?_
  rw [angle_alg _ _ d 0 _ ha hb hc1 hc2]
  simp only [V3.dot, V3.smul]; ring

theorem angle_grad2 (g1 g2 g3 : AGroup ℝ) (hM : msum g2 ≠ 0)
    (ha : V3.norm (V3.sub (com g1) (com g2)) ≠ 0) (hb : V3.norm (V3.sub (com g3) (com g2)) ≠ 0)
    (hc1 : -1 < angleCos g1 g2 g3) (hc2 : angleCos g1 g2 g3 < 1)
    (k : Nat) (hk : k < g2.length) (d : V3 ℝ) :
    HasDerivAt (fun t : ℝ => angle g1 (mv g2 k (V3.smul t d)) g3)
      (V3.dot ((angleGrad g1 g2 g3).2.1.getD k V3.zero) d) 0 := by
  have hfun : ∀ t : ℝ, angle g1 (mv g2 k (V3.smul t d)) g3
      = (radToDeg : ℝ) * Real.arccos
        (V3.dot (V3.add (V3.sub (com g1) (com g2)) (V3.smul t (V3.smul (-((g2[k]'hk).m / msum g2)) d)))
            (V3.add (V3.sub (com g3) (com g2)) (V3.smul t (V3.smul (-((g2[k]'hk).m / msum g2)) d)))
          / (V3.norm (V3.add (V3.sub (com g1) (com g2)) (V3.smul t (V3.smul (-((g2[k]'hk).m / msum g2)) d)))
            * V3.norm (V3.add (V3.sub (com g3) (com g2)) (V3.smul t (V3.smul (-((g2[k]'hk).m / msum g2)) d))))) := by
    intro t
    have e (c : V3 ℝ) : V3.sub c (com (mv g2 k (V3.smul t d)))
        = V3.add (V3.sub c (com g2)) (V3.smul t (V3.smul (-((g2[k]'hk).m / msum g2)) d)) := by
      rw [com_mv g2 hM k hk]
      apply v3_ext <;> simp only [V3.add, V3.sub, V3.smul] <;> ring
    simp only [angle, angleCos, prim_acos]
    rw [e, e]
  simp only [hfun]
  have h := hasDerivAt_angle_lines (V3.sub (com g1) (com g2)) (V3.smul (-((g2[k]'hk).m / msum g2)) d)
    (V3.sub (com g3) (com g2)) (V3.smul (-((g2[k]'hk).m / msum g2)) d) ha hb hc1 hc2
  rw [angleGrad_eq, weighted_getD _ _ k hk]
  refine h.congr_deriv ?_
  rw [angle_alg _ _ d _ _ ha hb hc1 hc2]
  simp only [V3.dot, V3.smul, V3.add, lit1]; ring


/-! ## inertia, inertiaZ, coordNum, distanceInv -/

/-! ### inertia, inertiaZ -/

theorem lit2 : (2.0 : ℝ) = 2 := by norm_num

theorem length_ne_zero_real (g : AGroup ℝ) (hg : g ≠ []) : (g.length : ℝ) ≠ 0 := by
  have : g.length ≠ 0 := by simpa using hg
  exact_mod_cast this

theorem mv_ne_nil (g : AGroup ℝ) (hg : g ≠ []) (k : Nat) (v : V3 ℝ) : mv g k v ≠ [] := by
  intro h
  have := mv_length g k v
  rw [h] at this
  exact hg (List.length_eq_zero_iff.mp this.symm)

theorem inertia_eq (g : AGroup ℝ) (hg : g ≠ []) :
    inertia g = qsum g - V3.norm2 (rsum g) / (g.length : ℝ) := by
  have hN := length_ne_zero_real g hg
  unfold inertia centered
  rw [foldl_centered, cog_eq, lit0]
  simp only [V3.norm2, V3.dot, V3.smul]
  field_simp
  ring

theorem inertia_grad_mv (g : AGroup ℝ) (hg : g ≠ []) (k : Nat) (hk : k < g.length) (d : V3 ℝ) :
    HasDerivAt (fun t : ℝ => inertia (mv g k (V3.smul t d))) (V3.dot ((inertiaGrad g).getD k V3.zero) d) 0 := by
  have hN := length_ne_zero_real g hg
  have hfun : ∀ t : ℝ, inertia (mv g k (V3.smul t d))
      = (qsum g - V3.norm2 (g[k]'hk).r + V3.norm2 (V3.add (g[k]'hk).r (V3.smul t d)))
          - V3.norm2 (V3.add (rsum g) (V3.smul t d)) / (g.length : ℝ) := by
    intro t
    rw [inertia_eq _ (mv_ne_nil g hg k _), mv_length, qsum_mv g k hk, rsum_mv g k hk]
  simp only [hfun]
  have h1 := (hasDerivAt_norm2_line (g[k]'hk).r d).const_add (qsum g - V3.norm2 (g[k]'hk).r)
  have h2 := (hasDerivAt_norm2_line (rsum g) d).div_const (g.length : ℝ)
  have h := h1.fun_sub h2
  refine h.congr_deriv ?_
  have hgetD : (inertiaGrad g).getD k V3.zero = V3.smul 2 (V3.sub (g[k]'hk).r (cog g)) := by
    unfold inertiaGrad centered
    simp [List.getD_eq_getElem?_getD, hk, lit2]
  rw [hgetD, cog_eq]
  simp only [V3.dot, V3.sub, V3.smul]
  field_simp
  ring

/-- sum of squared projections on `u` -/
noncomputable def zsum (u : V3 ℝ) : AGroup ℝ → ℝ
  | [] => 0
  | a :: g => V3.dot a.r u * V3.dot a.r u + zsum u g

theorem zsum_mv (u : V3 ℝ) (g : AGroup ℝ) (k : Nat) (hk : k < g.length) (v : V3 ℝ) :
    zsum u (mv g k v) = zsum u g - V3.dot (g[k]'hk).r u * V3.dot (g[k]'hk).r u
      + V3.dot (V3.add (g[k]'hk).r v) u * V3.dot (V3.add (g[k]'hk).r v) u := by
  unfold mv
  induction g generalizing k with
  | nil => simp at hk
  | cons a g ih =>
    cases k with
    | zero =>
      simp only [List.modify_zero_cons, zsum, List.getElem_cons_zero]; ring
    | succ k =>
      have hk' : k < g.length := by simpa using hk
      simp only [List.modify_succ_cons, zsum, ih k hk', List.getElem_cons_succ]; ring

theorem foldl_centeredZ (g : AGroup ℝ) (c u : V3 ℝ) (acc : ℝ) :
    (g.map fun a => V3.sub a.r c).foldl (fun s p => s + V3.dot p u * V3.dot p u) acc
      = acc + zsum u g - 2 * V3.dot (rsum g) u * V3.dot c u + (g.length : ℝ) * (V3.dot c u * V3.dot c u) := by
  induction g generalizing acc with
  | nil => simp [zsum, rsum, V3.dot]
  | cons a g ih =>
    simp only [List.map_cons, List.foldl_cons, ih, zsum, rsum, List.length_cons]
    push_cast
    simp only [V3.dot, V3.sub, V3.add]
    ring

theorem inertiaZ_eq (g : AGroup ℝ) (axis : V3 ℝ) (hg : g ≠ []) :
    inertiaZ g axis = zsum (V3.unit axis) g
      - V3.dot (rsum g) (V3.unit axis) * V3.dot (rsum g) (V3.unit axis) / (g.length : ℝ) := by
  have hN := length_ne_zero_real g hg
  unfold inertiaZ centered
  simp only []
  rw [foldl_centeredZ, cog_eq, lit0]
  simp only [V3.dot, V3.smul]
  field_simp
  ring

theorem inertiaZ_grad_mv (g : AGroup ℝ) (axis : V3 ℝ) (hg : g ≠ []) (k : Nat) (hk : k < g.length) (d : V3 ℝ) :
    HasDerivAt (fun t : ℝ => inertiaZ (mv g k (V3.smul t d)) axis)
      (V3.dot ((inertiaZGrad g axis).getD k V3.zero) d) 0 := by
  have hN := length_ne_zero_real g hg
  have hfun : ∀ t : ℝ, inertiaZ (mv g k (V3.smul t d)) axis
      = (zsum (V3.unit axis) g - V3.dot (g[k]'hk).r (V3.unit axis) * V3.dot (g[k]'hk).r (V3.unit axis)
          + (V3.dot (g[k]'hk).r (V3.unit axis) + t * V3.dot d (V3.unit axis))
            * (V3.dot (g[k]'hk).r (V3.unit axis) + t * V3.dot d (V3.unit axis)))
        - (V3.dot (rsum g) (V3.unit axis) + t * V3.dot d (V3.unit axis))
            * (V3.dot (rsum g) (V3.unit axis) + t * V3.dot d (V3.unit axis)) / (g.length : ℝ) := by
    intro t
    rw [inertiaZ_eq _ _ (mv_ne_nil g hg k _), mv_length, zsum_mv _ g k hk, rsum_mv g k hk]
    simp only [V3.dot, V3.add, V3.smul]
    ring
  simp only [hfun]
  have hgetD : (inertiaZGrad g axis).getD k V3.zero
      = V3.smul (2 * V3.dot (V3.sub (g[k]'hk).r (cog g)) (V3.unit axis)) (V3.unit axis) := by
    unfold inertiaZGrad centered
    simp [List.getD_eq_getElem?_getD, hk, lit2]
  rw [hgetD, cog_eq]
  generalize V3.unit axis = u at *
  have ha := hasDerivAt_affine (V3.dot (g[k]'hk).r u) (V3.dot d u) 0
  have hb := hasDerivAt_affine (V3.dot (rsum g) u) (V3.dot d u) 0
  have h1 := (ha.fun_mul ha).const_add (zsum u g - V3.dot (g[k]'hk).r u * V3.dot (g[k]'hk).r u)
  have h2 := (hb.fun_mul hb).div_const (g.length : ℝ)
  have h := h1.fun_sub h2
  refine h.congr_deriv ?_
  simp only [V3.dot, V3.sub, V3.smul]
  field_simp
  ring

/-! ### switching function -/


theorem swRaw_eq (p : SwParams ℝ) (x : ℝ) : swRaw p x = (1 - x ^ (p.en / 2)) / (1 - x ^ (p.ed / 2)) := by
  simp only [swRaw, ipow_eq, lit1]

theorem pow_ne_one_of {l : ℝ} (hl : 0 < l) (h1 : l ≠ 1) {m : Nat} (hm : m ≠ 0) : 1 - l ^ m ≠ 0 := by
  intro h
  have : l ^ m = 1 := by linarith
  exact h1 ((pow_eq_one_iff_of_nonneg hl.le hm).mp this)

/-- derivative of the unshifted quotient, exponents written `a + 1`, `b + 1` -/
theorem hasDerivAt_swq (a b : Nat) (l : ℝ) (hl : 0 < l) (h1 : l ≠ 1) :
    HasDerivAt (fun x : ℝ => (1 - x ^ (a + 1)) / (1 - x ^ (b + 1)))
      ((1 - l ^ (a + 1)) / (1 - l ^ (b + 1)) *
        (((b + 1 : Nat) : ℝ) * l ^ (b + 1) / ((1 - l ^ (b + 1)) * l)
          - ((a + 1 : Nat) : ℝ) * l ^ (a + 1) / ((1 - l ^ (a + 1)) * l))) l := by
  have hb : 1 - l ^ (b + 1) ≠ 0 := pow_ne_one_of hl h1 (Nat.succ_ne_zero b)
  have ha : 1 - l ^ (a + 1) ≠ 0 := pow_ne_one_of hl h1 (Nat.succ_ne_zero a)
  have hn := ((hasDerivAt_id l).fun_pow (a + 1)).const_sub 1
  have hd := ((hasDerivAt_id l).fun_pow (b + 1)).const_sub 1
  have h := hn.fun_div hd hb
  simp only [id] at h
  refine h.congr_deriv ?_
  have hl' : l ≠ 0 := hl.ne'
  simp only [Nat.add_sub_cancel, pow_succ] at *
  push_cast
  field_simp
  ring

theorem sw_deriv_aux (p : SwParams ℝ) (l : ℝ) (hl : 0 < l) (h1 : l ≠ 1) (hen : 2 ≤ p.en) (hed : 2 ≤ p.ed)
    (hpos : 0 < (swRaw p l - p.tol) / (1 - p.tol)) :
    HasDerivAt (swValue p) (swDeriv p l) l := by
  obtain ⟨a, ha⟩ : ∃ a, p.en / 2 = a + 1 := ⟨p.en / 2 - 1, by omega⟩
  obtain ⟨b, hb⟩ : ∃ b, p.ed / 2 = b + 1 := ⟨p.ed / 2 - 1, by omega⟩
  have hq := hasDerivAt_swq a b l hl h1
  have hf := (hq.sub_const p.tol).div_const (1 - p.tol)
  have hraw : ∀ x, swRaw p x = (1 - x ^ (a + 1)) / (1 - x ^ (b + 1)) := by
    intro x; rw [swRaw_eq, ha, hb]
  have hpos' : 0 < ((1 - l ^ (a + 1)) / (1 - l ^ (b + 1)) - p.tol) / (1 - p.tol) := by
    rw [← hraw]; exact hpos
  have hev : ∀ᶠ x in nhds l, 0 < ((1 - x ^ (a + 1)) / (1 - x ^ (b + 1)) - p.tol) / (1 - p.tol) :=
    hf.continuousAt.eventually (lt_mem_nhds hpos')
  have heq : swValue p =ᶠ[nhds l] fun x => ((1 - x ^ (a + 1)) / (1 - x ^ (b + 1)) - p.tol) / (1 - p.tol) := by
    filter_upwards [hev] with x hx
    simp only [swValue, hraw, lit0, lit1]
    rw [if_neg (not_lt.mpr hx.le)]
  refine (hf.congr_of_eventuallyEq heq).congr_deriv ?_
  simp only [swDeriv, hraw, lit0, lit1, ipow_eq, ha, hb]
  rw [if_neg (not_lt.mpr hpos'.le)]
  ring

/-! ### one pair of coordNum -/

theorem hasDerivAt_reducedDist2 (p : SwParams ℝ) (a b : Atom ℝ) (d : V3 ℝ) :
    HasDerivAt (fun t : ℝ => reducedDist2 p a { b with r := V3.add b.r (V3.smul t d) })
      (2 / (p.r0 * p.r0) * V3.dot (V3.sub b.r a.r) d) 0 := by
  have hx := (hasDerivAt_affine (b.r.x - a.r.x) d.x 0).div_const p.r0
  have hy := (hasDerivAt_affine (b.r.y - a.r.y) d.y 0).div_const p.r0
  have hz := (hasDerivAt_affine (b.r.z - a.r.z) d.z 0).div_const p.r0
  have h := ((hx.fun_mul hx).fun_add (hy.fun_mul hy)).fun_add (hz.fun_mul hz)
  have hfun : ∀ t : ℝ, reducedDist2 p a { b with r := V3.add b.r (V3.smul t d) }
      = (b.r.x - a.r.x + t * d.x) / p.r0 * ((b.r.x - a.r.x + t * d.x) / p.r0)
        + (b.r.y - a.r.y + t * d.y) / p.r0 * ((b.r.y - a.r.y + t * d.y) / p.r0)
        + (b.r.z - a.r.z + t * d.z) / p.r0 * ((b.r.z - a.r.z + t * d.z) / p.r0) := by
    intro t
    simp only [reducedDist2, V3.sub, V3.add, V3.smul]
    ring
  simp only [hfun]
  refine h.congr_deriv ?_
  simp only [V3.dot, V3.sub]
  by_cases hr : p.r0 = 0
  · simp [hr]
  · field_simp
    ring

theorem atom_move_zero (b : Atom ℝ) (d : V3 ℝ) : ({ b with r := V3.add b.r (V3.smul 0 d) } : Atom ℝ) = b := by
  cases b with
  | mk m r => simp [add_smul_zero]

theorem coordNum_pair_grad_aux (p : SwParams ℝ) (a b : Atom ℝ) (d : V3 ℝ)
    (hl : 0 < reducedDist2 p a b) (h1 : reducedDist2 p a b ≠ 1) (hen : 2 ≤ p.en) (hed : 2 ≤ p.ed)
    (hpos : 0 < (swRaw p (reducedDist2 p a b) - p.tol) / (1 - p.tol)) :
    HasDerivAt (fun t : ℝ => swValue p (reducedDist2 p a { b with r := V3.add b.r (V3.smul t d) }))
      (V3.dot (coordNumPair p a b) d) 0 := by
  have hin := hasDerivAt_reducedDist2 p a b d
  have hout : HasDerivAt (swValue p) (swDeriv p (reducedDist2 p a b))
      ((fun t : ℝ => reducedDist2 p a { b with r := V3.add b.r (V3.smul t d) }) 0) := by
    simp only [atom_move_zero]
    exact sw_deriv_aux p _ hl h1 hen hed hpos
  have h := hout.comp 0 hin
  refine h.congr_deriv ?_
  simp only [coordNumPair, V3.dot, V3.smul, V3.sub, lit2]
  ring

/-! ### sums over the pairs of two groups -/

theorem foldl_add_sum {ι : Type} (l : List ι) (f : ι → ℝ) (acc : ℝ) :
    l.foldl (fun s x => s + f x) acc = acc + (l.map f).sum := by
  induction l generalizing acc with
  | nil => simp
  | cons x l ih => rw [List.foldl_cons, ih, List.map_cons, List.sum_cons]; ring

theorem pairs_sum (g1 g2 : AGroup ℝ) (f : Atom ℝ × Atom ℝ → ℝ) :
    ((pairs g1 g2).map f).sum = (g1.map fun a => (g2.map fun b => f (a, b)).sum).sum := by
  unfold pairs
  induction g1 with
  | nil => simp
  | cons a g1 ih =>
    rw [List.flatMap_cons, List.map_append, List.sum_append, ih, List.map_cons, List.sum_cons, List.map_map]
    rfl

theorem foldl_pairs (g1 g2 : AGroup ℝ) (F : Atom ℝ → Atom ℝ → ℝ) :
    (pairs g1 g2).foldl (fun s ab => s + F ab.1 ab.2) 0.0
      = (g1.map fun a => (g2.map fun b => F a b).sum).sum := by
  rw [foldl_add_sum (pairs g1 g2) (fun ab => F ab.1 ab.2), pairs_sum, lit0]; ring

theorem sum_map_mv (h : Atom ℝ → ℝ) (g : AGroup ℝ) (k : Nat) (hk : k < g.length) (v : V3 ℝ) :
    ((mv g k v).map h).sum
      = (g.map h).sum - h (g[k]'hk) + h { (g[k]'hk) with r := V3.add (g[k]'hk).r v } := by
  unfold mv
  induction g generalizing k with
  | nil => simp at hk
  | cons a g ih =>
    cases k with
    | zero =>
      simp only [List.modify_zero_cons, List.map_cons, List.sum_cons, List.getElem_cons_zero]; ring
    | succ k =>
      have hk' : k < g.length := by simpa using hk
      simp only [List.modify_succ_cons, List.map_cons, List.sum_cons, ih k hk', List.getElem_cons_succ]; ring

theorem mv_zero (g : AGroup ℝ) (k : Nat) (d : V3 ℝ) : mv g k (V3.smul 0 d) = g := by
  unfold mv
  conv_rhs => rw [← List.modify_id (l := g) (i := k)]
  congr 1
  funext a
  cases a with
  | mk m r => simp [add_smul_zero]

/-- a sum over the pairs when one atom of group 2 moves: only the pairs of that atom change -/
theorem hasDerivAt_pairs_sum (g1 g2 : AGroup ℝ) (F : Atom ℝ → Atom ℝ → ℝ) (k : Nat) (hk : k < g2.length)
    (d : V3 ℝ) (F' : Atom ℝ → ℝ)
    (h : ∀ a ∈ g1, HasDerivAt
      (fun t : ℝ => F a { (g2[k]'hk) with r := V3.add (g2[k]'hk).r (V3.smul t d) }) (F' a) 0) :
    HasDerivAt (fun t : ℝ => (pairs g1 (mv g2 k (V3.smul t d))).foldl (fun s ab => s + F ab.1 ab.2) 0.0)
      ((g1.map F').sum) 0 := by
  have hfun : ∀ t : ℝ, (pairs g1 (mv g2 k (V3.smul t d))).foldl (fun s ab => s + F ab.1 ab.2) 0.0
      = (g1.map fun a => ((g2.map fun b => F a b).sum - F a (g2[k]'hk))
          + F a { (g2[k]'hk) with r := V3.add (g2[k]'hk).r (V3.smul t d) }).sum := by
    intro t
    rw [foldl_pairs]
    congr 1
    apply List.map_congr_left
    intro a _
    exact sum_map_mv (fun b => F a b) g2 k hk _
  simp only [hfun]
  exact hasDerivAt_list_sum g1
    (fun a t => ((g2.map fun b => F a b).sum - F a (g2[k]'hk))
          + F a { (g2[k]'hk) with r := V3.add (g2[k]'hk).r (V3.smul t d) }) F' 0
    (fun a ha => (h a ha).const_add _)

theorem dot_foldl_add (g : AGroup ℝ) (F : Atom ℝ → V3 ℝ) (acc d : V3 ℝ) :
    V3.dot (g.foldl (fun acc a => V3.add acc (F a)) acc) d
      = V3.dot acc d + (g.map fun a => V3.dot (F a) d).sum := by
  induction g generalizing acc with
  | nil => simp
  | cons a g ih =>
    rw [List.foldl_cons, ih, List.map_cons, List.sum_cons]
    simp only [V3.dot, V3.add]; ring

theorem dot_zero (d : V3 ℝ) : V3.dot V3.zero d = 0 := by
  simp [V3.dot, V3.zero, lit0]

theorem coordNum_grad2 (g1 g2 : AGroup ℝ) (p : SwParams ℝ) (hen : 2 ≤ p.en) (hed : 2 ≤ p.ed)
    (k : Nat) (hk : k < g2.length) (d : V3 ℝ)
    (hsmooth : ∀ a ∈ g1, 0 < reducedDist2 p a (g2.getD k ⟨0, V3.zero⟩) ∧ reducedDist2 p a (g2.getD k ⟨0, V3.zero⟩) ≠ 1 ∧
      0 < (swRaw p (reducedDist2 p a (g2.getD k ⟨0, V3.zero⟩)) - p.tol) / (1 - p.tol)) :
    HasDerivAt (fun t : ℝ => coordNum g1 (mv g2 k (V3.smul t d)) p)
      (V3.dot ((coordNumGrad g1 g2 p).2.getD k V3.zero) d) 0 := by
  have hget : g2.getD k ⟨0, V3.zero⟩ = g2[k]'hk := by simp [List.getD_eq_getElem?_getD, hk]
  rw [hget] at hsmooth
  have h := hasDerivAt_pairs_sum g1 g2 (fun a b => swValue p (reducedDist2 p a b)) k hk d
    (fun a => V3.dot (coordNumPair p a (g2[k]'hk)) d)
    (fun a ha => coordNum_pair_grad_aux p a (g2[k]'hk) d (hsmooth a ha).1 (hsmooth a ha).2.1 hen hed (hsmooth a ha).2.2)
  refine h.congr_deriv ?_
  have hgetD : (coordNumGrad g1 g2 p).2.getD k V3.zero
      = g1.foldl (fun acc a => V3.add acc (coordNumPair p a (g2[k]'hk))) V3.zero := by
    unfold coordNumGrad
    simp [List.getD_eq_getElem?_getD, hk]
  rw [hgetD, dot_foldl_add, dot_zero]; ring

/-! ### distanceInv -/

theorem hasDerivAt_invPow_pair (m : Nat) (a b : Atom ℝ) (d : V3 ℝ) (hne : V3.norm2 (V3.sub b.r a.r) ≠ 0) :
    HasDerivAt (fun t : ℝ => invPow (V3.norm2 (V3.sub ({ b with r := V3.add b.r (V3.smul t d) } : Atom ℝ).r a.r)) m)
      (-(m : ℝ) * invPow (V3.norm2 (V3.sub b.r a.r)) m / V3.norm2 (V3.sub b.r a.r) * 2
        * V3.dot (V3.sub b.r a.r) d) 0 := by
  have hfun : ∀ t : ℝ, invPow (V3.norm2 (V3.sub ({ b with r := V3.add b.r (V3.smul t d) } : Atom ℝ).r a.r)) m
      = (V3.norm2 (V3.add (V3.sub b.r a.r) (V3.smul t d)) ^ m)⁻¹ := by
    intro t
    have : V3.sub (V3.add b.r (V3.smul t d)) a.r = V3.add (V3.sub b.r a.r) (V3.smul t d) := by
      apply v3_ext <;> simp only [V3.add, V3.sub, V3.smul] <;> ring
    simp only [invPow, ipow_eq, lit1, this, one_div]
  simp only [hfun]
  have hp := (hasDerivAt_norm2_line (V3.sub b.r a.r) d).fun_pow m
  have h := hp.fun_inv (by simpa [add_smul_zero] using pow_ne_zero m hne)
  simp only [add_smul_zero] at h
  refine h.congr_deriv ?_
  simp only [invPow, ipow_eq, lit1]
  generalize V3.norm2 (V3.sub b.r a.r) = D at *
  generalize V3.dot (V3.sub b.r a.r) d = E
  cases m with
  | zero => simp
  | succ m =>
    simp only [Nat.add_sub_cancel, pow_succ]
    push_cast
    field_simp

/-- the sum of the inverse powers over the pairs -/
noncomputable def invSum (g1 g2 : AGroup ℝ) (m : Nat) : ℝ :=
  (pairs g1 g2).foldl (fun acc ab => acc + invPow (V3.norm2 (V3.sub ab.2.r ab.1.r)) m) 0.0

theorem invSum_pos (g1 g2 : AGroup ℝ) (m : Nat) (h1 : g1 ≠ []) (h2 : g2 ≠ [])
    (hne : ∀ a ∈ g1, ∀ b ∈ g2, V3.norm2 (V3.sub b.r a.r) ≠ 0) : 0 < invSum g1 g2 m := by
  unfold invSum
  rw [foldl_pairs g1 g2 (fun a b => invPow (V3.norm2 (V3.sub b.r a.r)) m)]
  apply List.sum_pos
  · intro x hx
    obtain ⟨a, ha, rfl⟩ := List.mem_map.mp hx
    apply List.sum_pos
    · intro y hy
      obtain ⟨b, hb, rfl⟩ := List.mem_map.mp hy
      have hD : 0 < V3.norm2 (V3.sub b.r a.r) := lt_of_le_of_ne (norm2_nonneg _) (Ne.symm (hne a ha b hb))
      simp only [invPow, ipow_eq, lit1]
      positivity
    · simpa using h2
  · simpa using h1

theorem distanceInv_eq (g1 g2 : AGroup ℝ) (n : Nat) :
    distanceInv g1 g2 n = (invSum g1 g2 (n / 2) * (1 / ((g1.length * g2.length : Nat) : ℝ))) ^ (-1 / (n : ℝ)) := by
  simp only [distanceInv, invSum, prim_pow, lit1]

theorem distanceInv_grad2 (g1 g2 : AGroup ℝ) (n : Nat) (hn : 2 ≤ n) (h1 : g1 ≠ [])
    (hne : ∀ a ∈ g1, ∀ b ∈ g2, V3.norm2 (V3.sub b.r a.r) ≠ 0) (k : Nat) (hk : k < g2.length) (d : V3 ℝ) :
    HasDerivAt (fun t : ℝ => distanceInv g1 (mv g2 k (V3.smul t d)) n)
      (V3.dot ((distanceInvGrad g1 g2 n).2.getD k V3.zero) d) 0 := by
  have h2 : g2 ≠ [] := by
    intro h; rw [h] at hk; simp at hk
  have hN1 := length_ne_zero_real g1 h1
  have hN2 := length_ne_zero_real g2 h2
  have hnR : (n : ℝ) ≠ 0 := by
    have : n ≠ 0 := by omega
    exact_mod_cast this
  have hmem : g2[k]'hk ∈ g2 := List.getElem_mem hk
  have hS := hasDerivAt_pairs_sum g1 g2 (fun a b => invPow (V3.norm2 (V3.sub b.r a.r)) (n / 2)) k hk d
    (fun a => -((n / 2 : Nat) : ℝ) * invPow (V3.norm2 (V3.sub (g2[k]'hk).r a.r)) (n / 2)
        / V3.norm2 (V3.sub (g2[k]'hk).r a.r) * 2 * V3.dot (V3.sub (g2[k]'hk).r a.r) d)
    (fun a ha => hasDerivAt_invPow_pair (n / 2) a (g2[k]'hk) d (hne a ha _ hmem))
  have hS' : HasDerivAt (fun t : ℝ => invSum g1 (mv g2 k (V3.smul t d)) (n / 2)) _ 0 := hS
  have hpos := invSum_pos g1 g2 (n / 2) h1 h2 hne
  have hc : 0 < 1 / ((g1.length * g2.length : Nat) : ℝ) := by
    have : 0 < g1.length * g2.length := Nat.mul_pos (by
      rcases Nat.eq_zero_or_pos g1.length with h | h
      · exact absurd (List.length_eq_zero_iff.mp h) h1
      · exact h) (by omega)
    have : (0 : ℝ) < ((g1.length * g2.length : Nat) : ℝ) := by exact_mod_cast this
    positivity
  have hY : 0 < invSum g1 g2 (n / 2) * (1 / ((g1.length * g2.length : Nat) : ℝ)) := mul_pos hpos hc
  have hY0 : invSum g1 (mv g2 k (V3.smul 0 d)) (n / 2) * (1 / ((g1.length * g2.length : Nat) : ℝ)) ≠ 0 := by
    rw [mv_zero]; exact hY.ne'
  have h := (hS'.mul_const (1 / ((g1.length * g2.length : Nat) : ℝ))).rpow_const (p := -1 / (n : ℝ)) (Or.inl hY0)
  rw [mv_zero] at h
  have hfun : ∀ t : ℝ, distanceInv g1 (mv g2 k (V3.smul t d)) n
      = (invSum g1 (mv g2 k (V3.smul t d)) (n / 2) * (1 / ((g1.length * g2.length : Nat) : ℝ))) ^ (-1 / (n : ℝ)) := by
    intro t; rw [distanceInv_eq, mv_length]
  simp only [hfun]
  refine h.congr_deriv ?_
  have hgetD : (distanceInvGrad g1 g2 n).2.getD k V3.zero
      = V3.smul ((-1 / (n : ℝ)) * (distanceInv g1 g2 n) ^ (n + 1) / ((g1.length * g2.length : Nat) : ℝ))
          (g1.foldl (fun acc a => V3.add acc (distanceInvPair n a (g2[k]'hk))) V3.zero) := by
    unfold distanceInvGrad
    simp [List.getD_eq_getElem?_getD, hk, ipow_eq, lit1]
  have hx : (distanceInv g1 g2 n) ^ (n + 1)
      = (invSum g1 g2 (n / 2) * (1 / ((g1.length * g2.length : Nat) : ℝ))) ^ (-1 / (n : ℝ) - 1) := by
    rw [distanceInv_eq, ← Real.rpow_natCast, ← Real.rpow_mul hY.le]
    congr 1
    push_cast
    field_simp
    ring
  have hdot : ∀ v w : V3 ℝ, ∀ c : ℝ, V3.dot (V3.smul c v) w = c * V3.dot v w := by
    intro v w c; simp only [V3.dot, V3.smul]; ring
  rw [hgetD, hx, hdot, dot_foldl_add, dot_zero]
  generalize (invSum g1 g2 (n / 2) * (1 / ((g1.length * g2.length : Nat) : ℝ))) ^ (-1 / (n : ℝ) - 1) = P
  have hterm : (g1.map fun a => V3.dot (distanceInvPair n a (g2[k]'hk)) d)
      = g1.map fun a => -((n / 2 : Nat) : ℝ) * invPow (V3.norm2 (V3.sub (g2[k]'hk).r a.r)) (n / 2)
        / V3.norm2 (V3.sub (g2[k]'hk).r a.r) * 2 * V3.dot (V3.sub (g2[k]'hk).r a.r) d := by
    apply List.map_congr_left
    intro a _
    simp only [distanceInvPair, hdot, lit1, lit2]
    ring
  rw [hterm]
  ring

end Cv.C01
