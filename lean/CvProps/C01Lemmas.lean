import CvProps.RealInst
import Mathlib.Analysis.Calculus.Deriv.Add
import Mathlib.Analysis.Calculus.Deriv.Mul
import Mathlib.Analysis.Calculus.Deriv.Inv
import Mathlib.Analysis.Calculus.Deriv.Pow
/-! Helper lemmas for C01. -/
open Cv Cv.Geom

namespace Cv.C01

theorem lit0 : (0.0 : ℝ) = 0 := by norm_num
theorem lit1 : (1.0 : ℝ) = 1 := by norm_num
theorem lithalf : (0.5 : ℝ) = 1 / 2 := by norm_num

theorem v3_ext {a b : V3 ℝ} (hx : a.x = b.x) (hy : a.y = b.y) (hz : a.z = b.z) : a = b := by
  cases a; cases b; simp_all

/-! ### recursive descriptions of the folds -/

/-- sum of the masses -/
noncomputable def msum : AGroup ℝ → ℝ
  | [] => 0
  | a :: g => a.m + msum g

/-- sum of mass × position -/
noncomputable def wsum : AGroup ℝ → V3 ℝ
  | [] => ⟨0, 0, 0⟩
  | a :: g => V3.add (V3.smul a.m a.r) (wsum g)

/-- sum of positions -/
noncomputable def rsum : AGroup ℝ → V3 ℝ
  | [] => ⟨0, 0, 0⟩
  | a :: g => V3.add a.r (rsum g)

/-- sum of squared positions -/
noncomputable def qsum : AGroup ℝ → ℝ
  | [] => 0
  | a :: g => V3.norm2 a.r + qsum g

theorem foldl_mass (g : AGroup ℝ) (acc : ℝ) : g.foldl (fun s a => s + a.m) acc = acc + msum g := by
  induction g generalizing acc with
  | nil => simp [msum]
  | cons a g ih => simp only [List.foldl_cons, ih, msum]; ring

theorem totalMass_eq (g : AGroup ℝ) : totalMass g = msum g := by
  unfold totalMass; rw [foldl_mass, lit0]; ring

theorem foldl_wsum (g : AGroup ℝ) (acc : V3 ℝ) :
    g.foldl (fun s a => V3.add s (V3.smul a.m a.r)) acc = V3.add acc (wsum g) := by
  induction g generalizing acc with
  | nil => apply v3_ext <;> simp [wsum, V3.add]
  | cons a g ih =>
    simp only [List.foldl_cons, ih, wsum]
    apply v3_ext <;> simp only [V3.add] <;> ring

theorem foldl_rsum (g : AGroup ℝ) (acc : V3 ℝ) :
    g.foldl (fun s a => V3.add s a.r) acc = V3.add acc (rsum g) := by
  induction g generalizing acc with
  | nil => apply v3_ext <;> simp [rsum, V3.add]
  | cons a g ih =>
    simp only [List.foldl_cons, ih, rsum]
    apply v3_ext <;> simp only [V3.add] <;> ring

theorem com_eq (g : AGroup ℝ) : com g = V3.smul (1 / msum g) (wsum g) := by
  unfold com; rw [foldl_wsum, totalMass_eq, lit1]
  apply v3_ext <;> simp [V3.add, V3.smul, V3.zero, lit0]

theorem cog_eq (g : AGroup ℝ) : cog g = V3.smul (1 / (g.length : ℝ)) (rsum g) := by
  unfold cog; rw [foldl_rsum, lit1]
  apply v3_ext <;> simp [V3.add, V3.smul, V3.zero, lit0]

theorem msum_pos (g : AGroup ℝ) (hne : g ≠ []) (hpos : ∀ a ∈ g, 0 < a.m) : 0 < msum g := by
  induction g with
  | nil => exact absurd rfl hne
  | cons a g ih =>
    simp only [msum]
    have ha : 0 < a.m := hpos a (by simp)
    by_cases hg : g = []
    · subst hg; simpa [msum] using ha
    · have := ih hg (fun b hb => hpos b (by simp [hb])); linarith

/-! ### moving one atom -/

/-- the group with atom `k` moved by `v` (the `move` of `C01.lean`) -/
noncomputable def mv (g : AGroup ℝ) (k : Nat) (v : V3 ℝ) : AGroup ℝ :=
  g.modify k fun a => { a with r := V3.add a.r v }

theorem mv_length (g : AGroup ℝ) (k : Nat) (v : V3 ℝ) : (mv g k v).length = g.length := by
  simp [mv]

theorem msum_mv (g : AGroup ℝ) (k : Nat) (v : V3 ℝ) : msum (mv g k v) = msum g := by
  unfold mv
  induction g generalizing k with
  | nil => simp
  | cons a g ih =>
    cases k with
    | zero => simp [msum]
    | succ k => simp only [List.modify_succ_cons, msum, ih]

theorem wsum_mv (g : AGroup ℝ) (k : Nat) (hk : k < g.length) (v : V3 ℝ) :
    wsum (mv g k v) = V3.add (wsum g) (V3.smul (g[k]'hk).m v) := by
  unfold mv
  induction g generalizing k with
  | nil => simp at hk
  | cons a g ih =>
    cases k with
    | zero =>
      simp only [List.modify_zero_cons, wsum, List.getElem_cons_zero]
      apply v3_ext <;> simp only [V3.add, V3.smul] <;> ring
    | succ k =>
      have hk' : k < g.length := by simpa using hk
      simp only [List.modify_succ_cons, wsum, ih k hk', List.getElem_cons_succ]
      apply v3_ext <;> simp only [V3.add] <;> ring

theorem rsum_mv (g : AGroup ℝ) (k : Nat) (hk : k < g.length) (v : V3 ℝ) :
    rsum (mv g k v) = V3.add (rsum g) v := by
  unfold mv
  induction g generalizing k with
  | nil => simp at hk
  | cons a g ih =>
    cases k with
    | zero =>
      simp only [List.modify_zero_cons, rsum]
      apply v3_ext <;> simp only [V3.add] <;> ring
    | succ k =>
      have hk' : k < g.length := by simpa using hk
      simp only [List.modify_succ_cons, rsum, ih k hk']
      apply v3_ext <;> simp only [V3.add] <;> ring

theorem qsum_mv (g : AGroup ℝ) (k : Nat) (hk : k < g.length) (v : V3 ℝ) :
    qsum (mv g k v) = qsum g - V3.norm2 (g[k]'hk).r + V3.norm2 (V3.add (g[k]'hk).r v) := by
  unfold mv
  induction g generalizing k with
  | nil => simp at hk
  | cons a g ih =>
    cases k with
    | zero =>
      simp only [List.modify_zero_cons, qsum, List.getElem_cons_zero]; ring
    | succ k =>
      have hk' : k < g.length := by simpa using hk
      simp only [List.modify_succ_cons, qsum, ih k hk', List.getElem_cons_succ]; ring

theorem mv_getElem_r (g : AGroup ℝ) (k : Nat) (hk : k < g.length) (v : V3 ℝ) :
    ((mv g k v)[k]'(by rw [mv_length]; exact hk)).r = V3.add (g[k]'hk).r v := by
  simp [mv]

theorem com_mv (g : AGroup ℝ) (hM : msum g ≠ 0) (k : Nat) (hk : k < g.length) (v : V3 ℝ) :
    com (mv g k v) = V3.add (com g) (V3.smul ((g[k]'hk).m / msum g) v) := by
  rw [com_eq, com_eq, msum_mv, wsum_mv g k hk]
  apply v3_ext <;> simp only [V3.add, V3.smul] <;> field_simp

theorem cog_mv (g : AGroup ℝ) (k : Nat) (hk : k < g.length) (v : V3 ℝ) :
    cog (mv g k v) = V3.add (cog g) (V3.smul (1 / (g.length : ℝ)) v) := by
  rw [cog_eq, cog_eq, mv_length, rsum_mv g k hk]
  apply v3_ext <;> simp only [V3.add, V3.smul] <;> ring

/-! ### gradients as list entries -/

theorem weighted_getD (g : AGroup ℝ) (u : V3 ℝ) (k : Nat) (hk : k < g.length) :
    (weighted g u).getD k V3.zero = V3.smul ((g[k]'hk).m / msum g) u := by
  unfold weighted
  rw [totalMass_eq]
  simp [List.getD_eq_getElem?_getD, hk]

theorem foldl_add_weighted (g : AGroup ℝ) (M : ℝ) (u acc : V3 ℝ) :
    (g.map fun a => V3.smul (a.m / M) u).foldl V3.add acc = V3.add acc (V3.smul (msum g / M) u) := by
  induction g generalizing acc with
  | nil => apply v3_ext <;> simp [msum, V3.add, V3.smul]
  | cons a g ih =>
    simp only [List.map_cons, List.foldl_cons, ih, msum]
    apply v3_ext <;> simp only [V3.add, V3.smul] <;> ring

theorem groupForce_weighted (g : AGroup ℝ) (hM : msum g ≠ 0) (u : V3 ℝ) :
    groupForce (weighted g u) = u := by
  unfold groupForce weighted
  rw [totalMass_eq, foldl_add_weighted, div_self hM]
  apply v3_ext <;> simp [V3.add, V3.smul, V3.zero, lit0]

end Cv.C01
