import CvProps.RealInst
/-! Helper lemmas for C02: component-wise description of the folds in `CvModel/Geom.lean` at `α := ℝ`, and the
behaviour of the vector operations under a linear map that preserves the scalar product. -/
open Cv Cv.Geom

namespace Cv.C02L

theorem lit0 : (0.0 : ℝ) = 0 := by norm_num
theorem lit1 : (1.0 : ℝ) = 1 := by norm_num
theorem litm1 : (-1.0 : ℝ) = -1 := by norm_num

/-! ## vectors -/

theorem V3.ext {a b : V3 ℝ} (hx : a.x = b.x) (hy : a.y = b.y) (hz : a.z = b.z) : a = b := by
  cases a; cases b; simp_all

@[simp] theorem add_x (a b : V3 ℝ) : (V3.add a b).x = a.x + b.x := rfl
@[simp] theorem add_y (a b : V3 ℝ) : (V3.add a b).y = a.y + b.y := rfl
@[simp] theorem add_z (a b : V3 ℝ) : (V3.add a b).z = a.z + b.z := rfl
@[simp] theorem sub_x (a b : V3 ℝ) : (V3.sub a b).x = a.x - b.x := rfl
@[simp] theorem sub_y (a b : V3 ℝ) : (V3.sub a b).y = a.y - b.y := rfl
@[simp] theorem sub_z (a b : V3 ℝ) : (V3.sub a b).z = a.z - b.z := rfl
@[simp] theorem smul_x (k : ℝ) (a : V3 ℝ) : (V3.smul k a).x = k * a.x := rfl
@[simp] theorem smul_y (k : ℝ) (a : V3 ℝ) : (V3.smul k a).y = k * a.y := rfl
@[simp] theorem smul_z (k : ℝ) (a : V3 ℝ) : (V3.smul k a).z = k * a.z := rfl
@[simp] theorem zero_x : (V3.zero : V3 ℝ).x = 0 := lit0
@[simp] theorem zero_y : (V3.zero : V3 ℝ).y = 0 := lit0
@[simp] theorem zero_z : (V3.zero : V3 ℝ).z = 0 := lit0

theorem dot_def (a b : V3 ℝ) : V3.dot a b = a.x * b.x + a.y * b.y + a.z * b.z := rfl
theorem norm2_def (a : V3 ℝ) : V3.norm2 a = V3.dot a a := rfl
theorem norm_def (a : V3 ℝ) : V3.norm a = Real.sqrt (V3.dot a a) := rfl
theorem unit_def (a : V3 ℝ) : V3.unit a = if V3.norm a > 0 then V3.smul (1 / V3.norm a) a else a := by
  show (if V3.norm a > (0.0 : ℝ) then V3.smul ((1.0 : ℝ) / V3.norm a) a else a) = _
  rw [lit0, lit1]

theorem sub_eq_add_smul (a b : V3 ℝ) : V3.sub a b = V3.add a (V3.smul (-1) b) := by
  apply V3.ext <;> simp <;> ring

theorem sub_add_add (a b v : V3 ℝ) : V3.sub (V3.add a v) (V3.add b v) = V3.sub a b := by
  apply V3.ext <;> simp

/-! ## folds as sums -/

theorem foldl_add_eq (f : Atom ℝ → ℝ) (g : AGroup ℝ) (acc : ℝ) :
    g.foldl (fun s a => s + f a) acc = acc + (g.map f).sum := by
  induction g generalizing acc with
  | nil => simp
  | cons a t ih => simp [ih, add_assoc]

theorem foldlV_add_eq (f : V3 ℝ → ℝ) (l : List (V3 ℝ)) (acc : ℝ) :
    l.foldl (fun s a => s + f a) acc = acc + (l.map f).sum := by
  induction l generalizing acc with
  | nil => simp
  | cons a t ih => simp [ih, add_assoc]

theorem foldl_vadd_eq (f : Atom ℝ → V3 ℝ) (g : AGroup ℝ) (acc : V3 ℝ) :
    g.foldl (fun s a => V3.add s (f a)) acc =
      ⟨acc.x + (g.map fun a => (f a).x).sum, acc.y + (g.map fun a => (f a).y).sum,
       acc.z + (g.map fun a => (f a).z).sum⟩ := by
  induction g generalizing acc with
  | nil => simp
  | cons a t ih => simp [ih, add_assoc]

theorem totalMass_eq (g : AGroup ℝ) : totalMass g = (g.map (·.m)).sum := by
  unfold totalMass
  rw [foldl_add_eq (fun a => a.m), lit0, zero_add]

theorem com_eq (g : AGroup ℝ) :
    com g = ⟨(g.map fun a => a.m * a.r.x).sum / (g.map (·.m)).sum,
             (g.map fun a => a.m * a.r.y).sum / (g.map (·.m)).sum,
             (g.map fun a => a.m * a.r.z).sum / (g.map (·.m)).sum⟩ := by
  unfold com
  rw [foldl_vadd_eq (fun a => V3.smul a.m a.r), totalMass_eq, lit1]
  apply V3.ext <;> simp <;> ring

theorem cog_eq (g : AGroup ℝ) :
    cog g = ⟨(g.map fun a => a.r.x).sum / (g.length : ℝ),
             (g.map fun a => a.r.y).sum / (g.length : ℝ),
             (g.map fun a => a.r.z).sum / (g.length : ℝ)⟩ := by
  unfold cog
  rw [foldl_vadd_eq (fun a => a.r), lit1]
  apply V3.ext <;> simp <;> ring

theorem gyration_eq (g : AGroup ℝ) :
    gyration g = Real.sqrt ((g.map fun a => V3.norm2 (V3.sub a.r (cog g))).sum / (g.length : ℝ)) := by
  unfold gyration centered
  rw [foldlV_add_eq V3.norm2, lit0, zero_add, List.map_map]
  rfl

theorem sum_map_mul_add (g : AGroup ℝ) (p : Atom ℝ → ℝ) (c : ℝ) :
    (g.map fun a => a.m * (p a + c)).sum = (g.map fun a => a.m * p a).sum + c * (g.map (·.m)).sum := by
  induction g with
  | nil => simp
  | cons a t ih => simp [ih]; ring

theorem sum_map_add_const (g : AGroup ℝ) (p : Atom ℝ → ℝ) (c : ℝ) :
    (g.map fun a => p a + c).sum = (g.map p).sum + (g.length : ℝ) * c := by
  induction g with
  | nil => simp
  | cons a t ih => simp [ih]; ring

theorem sum_map_mul_left (g : AGroup ℝ) (p : Atom ℝ → ℝ) (k : ℝ) :
    (g.map fun a => k * p a).sum = k * (g.map p).sum := by
  induction g with
  | nil => simp
  | cons a t ih => simp [ih]; ring

theorem mass_pos (g : AGroup ℝ) (hne : g ≠ []) (h : ∀ a ∈ g, 0 < a.m) : 0 < (g.map (·.m)).sum := by
  induction g with
  | nil => exact absurd rfl hne
  | cons a t ih =>
    simp only [List.map_cons, List.sum_cons]
    by_cases ht : t = []
    · subst ht; simpa using h a (by simp)
    · have := ih ht (fun b hb => h b (by simp [hb]))
      have := h a (by simp)
      linarith

/-! ## linear maps preserving the scalar product -/

section iso
variable (R : V3 ℝ → V3 ℝ)
  (hadd : ∀ a b, R (V3.add a b) = V3.add (R a) (R b))
  (hsmul : ∀ k a, R (V3.smul k a) = V3.smul k (R a))
  (hdot : ∀ a b, V3.dot (R a) (R b) = V3.dot a b)

include hsmul in
theorem R_zero : R V3.zero = V3.zero := by
  have h : (V3.zero : V3 ℝ) = V3.smul 0 V3.zero := by apply V3.ext <;> simp
  rw [h, hsmul]
  apply V3.ext <;> simp

include hadd hsmul in
theorem R_sub (a b : V3 ℝ) : R (V3.sub a b) = V3.sub (R a) (R b) := by
  rw [sub_eq_add_smul, hadd, hsmul, ← sub_eq_add_smul]

include hdot in
theorem R_norm2 (a : V3 ℝ) : V3.norm2 (R a) = V3.norm2 a := by
  rw [norm2_def, norm2_def, hdot]

include hdot in
theorem R_norm (a : V3 ℝ) : V3.norm (R a) = V3.norm a := by
  rw [norm_def, norm_def, hdot]

include hsmul hdot in
theorem R_unit (a : V3 ℝ) : V3.unit (R a) = R (V3.unit a) := by
  rw [unit_def, unit_def, R_norm R hdot]
  split_ifs
  · rw [hsmul]
  · rfl

include hadd in
theorem R_foldl (f : Atom ℝ → V3 ℝ) (g : AGroup ℝ) (acc : V3 ℝ) :
    R (g.foldl (fun s a => V3.add s (f a)) acc) = g.foldl (fun s a => V3.add s (R (f a))) (R acc) := by
  induction g generalizing acc with
  | nil => rfl
  | cons a t ih => simp only [List.foldl_cons, ih, hadd]

include hadd hsmul in
theorem com_map_R (g : AGroup ℝ) :
    com (g.map fun a => { a with r := R a.r }) = R (com g) := by
  unfold com
  have hm : totalMass (g.map fun a => ({ a with r := R a.r } : Atom ℝ)) = totalMass g := by
    unfold totalMass; rw [List.foldl_map]
  rw [hm, hsmul, R_foldl R hadd, R_zero R hsmul, List.foldl_map]
  simp only [hsmul]

include hadd hsmul in
theorem cog_map_R (g : AGroup ℝ) :
    cog (g.map fun a => { a with r := R a.r }) = R (cog g) := by
  unfold cog
  rw [hsmul, R_foldl R hadd, R_zero R hsmul, List.foldl_map, List.length_map]

end iso

/-! ## inertia, inertiaZ; sums over the pairs of two groups -/

theorem foldlG_add_eq {β : Type} (f : β → ℝ) (l : List β) (acc : ℝ) :
    l.foldl (fun s a => s + f a) acc = acc + (l.map f).sum := by
  induction l generalizing acc with
  | nil => simp
  | cons a t ih => simp [ih, add_assoc]

theorem inertia_eq (g : AGroup ℝ) : inertia g = (g.map fun a => V3.norm2 (V3.sub a.r (cog g))).sum := by
  unfold inertia centered
  rw [foldlV_add_eq V3.norm2, lit0, zero_add, List.map_map]
  rfl

theorem inertiaZ_eq (g : AGroup ℝ) (axis : V3 ℝ) :
    inertiaZ g axis = (g.map fun a => V3.dot (V3.sub a.r (cog g)) (V3.unit axis) *
      V3.dot (V3.sub a.r (cog g)) (V3.unit axis)).sum := by
  unfold inertiaZ centered
  simp only []
  rw [foldlV_add_eq (fun p => V3.dot p (V3.unit axis) * V3.dot p (V3.unit axis)), lit0, zero_add, List.map_map]
  rfl

theorem pairs_cons (a : Atom ℝ) (t g2 : AGroup ℝ) :
    pairs (a :: t) g2 = (g2.map fun b => (a, b)) ++ pairs t g2 := by
  simp [pairs]

theorem foldl_pairs_eq (f : Atom ℝ → Atom ℝ → ℝ) (g1 g2 : AGroup ℝ) :
    (pairs g1 g2).foldl (fun acc ab => acc + f ab.1 ab.2) (0.0 : ℝ) =
      (g1.map fun a => (g2.map fun b => f a b).sum).sum := by
  rw [foldlG_add_eq (fun ab : Atom ℝ × Atom ℝ => f ab.1 ab.2), lit0, zero_add]
  induction g1 with
  | nil => simp [pairs]
  | cons a t ih =>
    rw [pairs_cons, List.map_append, List.sum_append, ih, List.map_map]
    simp [Function.comp_def]

/-- a double sum does not depend on the order of either list -/
theorem sum_sum_perm (f : Atom ℝ → Atom ℝ → ℝ) (g1 g1' g2 g2' : AGroup ℝ) (h1 : g1.Perm g1') (h2 : g2.Perm g2') :
    (g1.map fun a => (g2.map fun b => f a b).sum).sum = (g1'.map fun a => (g2'.map fun b => f a b).sum).sum := by
  have hin : (fun a => (g2.map fun b => f a b).sum) = fun a => (g2'.map fun b => f a b).sum := by
    funext a; exact (h2.map _).sum_eq
  rw [hin, (h1.map _).sum_eq]

theorem coordNum_eq (g1 g2 : AGroup ℝ) (p : SwParams ℝ) :
    coordNum g1 g2 p = (g1.map fun a => (g2.map fun b => swValue p (reducedDist2 p a b)).sum).sum := by
  unfold coordNum
  exact foldl_pairs_eq (fun a b => swValue p (reducedDist2 p a b)) g1 g2

theorem distanceInv_eq (g1 g2 : AGroup ℝ) (n : Nat) :
    distanceInv g1 g2 n =
      ((g1.map fun a => (g2.map fun b => invPow (V3.norm2 (V3.sub b.r a.r)) (n / 2)).sum).sum *
        (1 / ((g1.length * g2.length : Nat) : ℝ))) ^ (-1 / (n : ℝ)) := by
  unfold distanceInv
  simp only []
  rw [foldl_pairs_eq (fun a b => invPow (V3.norm2 (V3.sub b.r a.r)) (n / 2)) g1 g2, prim_pow, lit1]

theorem reducedDist2_eq (p : SwParams ℝ) (a b : Atom ℝ) :
    reducedDist2 p a b = V3.norm2 (V3.sub b.r a.r) / (p.r0 * p.r0) := by
  unfold reducedDist2
  simp only [norm2_def, dot_def, div_mul_div_comm, add_div]

end Cv.C02L
