import CvProps.RealInst
/-!
# C20, second file — components switched off and on by script (`cv colvar <name> cvcflags`), model `CvModel/Combine.lean`

"Script-driven actions have the same effect as the equivalent configuration": a variable whose flags leave a subset of its
components on reports the value and the total force of a variable configured with only those components.
-/
open Cv Cv.Combine

namespace Cv.C20

theorem lit0 : (0.0 : ℝ) = 0 := by norm_num

theorem sumActive_eq (cs : Comps ℝ) (xs : List ℝ) (f : ℝ → ℝ → ℝ) :
    sumActive cs xs f = (List.zipWith (fun (cb : ℝ × Bool) x => if cb.2 then f cb.1 x else 0) cs xs).sum := by
  unfold sumActive
  rw [lit0, List.sum_eq_foldl]

theorem activeNorm_eq (cs : Comps ℝ) : activeNorm cs = (cs.map fun cb => if cb.2 then cb.1 * cb.1 else 0).sum := by
  unfold activeNorm
  rw [lit0, List.sum_eq_foldl]

/-- all components of a list switched on -/
def allOn (cs : Comps ℝ) : Comps ℝ := cs.map fun cb => (cb.1, true)

theorem sum_only_active (cs : Comps ℝ) (f : ℝ → ℝ → ℝ) : ∀ xs : List ℝ,
    sumActive cs xs f = sumActive (allOn (onlyActive cs xs).1) (onlyActive cs xs).2 f := by
  induction cs with
  | nil => intro xs; simp [sumActive_eq, onlyActive, allOn]
  | cons c cs ih =>
    intro xs
    cases xs with
    | nil => simp [sumActive_eq, onlyActive, allOn]
    | cons x xs =>
      have h := ih xs
      rw [sumActive_eq, sumActive_eq] at h ⊢
      obtain ⟨cc, cb⟩ := c
      cases cb with
      | false =>
        simp only [List.zipWith_cons_cons, List.sum_cons, Bool.false_eq_true, if_false, zero_add]
        rw [h]
        simp [onlyActive, allOn]
      | true =>
        simp only [List.zipWith_cons_cons, List.sum_cons, if_true]
        rw [h]
        simp [onlyActive, allOn]

theorem norm_only_active (cs : Comps ℝ) : ∀ xs : List ℝ, cs.length = xs.length →
    activeNorm cs = activeNorm (allOn (onlyActive cs xs).1) := by
  induction cs with
  | nil => intro xs _; simp [activeNorm_eq, onlyActive, allOn]
  | cons c cs ih =>
    intro xs hl
    cases xs with
    | nil => simp at hl
    | cons x xs =>
      have h := ih xs (by simpa using hl)
      rw [activeNorm_eq, activeNorm_eq] at h ⊢
      obtain ⟨cc, cb⟩ := c
      cases cb with
      | false =>
        simp only [List.map_cons, List.sum_cons, Bool.false_eq_true, if_false, zero_add]
        rw [h]
        simp [onlyActive, allOn]
      | true =>
        simp only [List.map_cons, List.sum_cons, if_true]
        rw [h]
        simp [onlyActive, allOn]

/-- **flags ≡ configuration**: with any pattern of flags, the value, the norm `Σ c²` and the total force the variable reports are
    those of a variable that was configured with only the components that are on -/
theorem flags_equal_configuration (cs : Comps ℝ) (qs fs : List ℝ) (hq : cs.length = qs.length) (hf : cs.length = fs.length) :
    value cs qs = value (allOn (onlyActive cs qs).1) (onlyActive cs qs).2 ∧
    totalForce cs fs = totalForce (allOn (onlyActive cs fs).1) (onlyActive cs fs).2 := by
  refine ⟨sum_only_active cs _ qs, ?_⟩
  unfold totalForce
  rw [sum_only_active cs _ fs, norm_only_active cs fs hf]

/-- the norm depends on *which* components are on, not on how many: exchanging the active component of a two-component variable
    with coefficients 1 and 3 changes it from 1 to 9 (a norm recomputed only when the count changes stays at 1) -/
theorem norm_depends_on_membership :
    activeNorm ([(1, true), (3, false)] : Comps ℝ) = 1 ∧ activeNorm ([(1, false), (3, true)] : Comps ℝ) = 9 := by
  constructor <;> (rw [activeNorm_eq]; norm_num)

/-- inverse property under flags: when every active component carries the force `F·c_i` that applying `F` to the variable gives it,
    the reported total force is `F` -/
theorem flags_total_force_inverse (cs : Comps ℝ) (F : ℝ) (hn : activeNorm cs ≠ 0) :
    totalForce cs (cs.map fun cb => F * cb.1) = F := by
  unfold totalForce
  rw [div_eq_iff hn]
  have key : ∀ l : Comps ℝ, sumActive l (l.map fun cb => F * cb.1) (fun c f => c * f) = F * activeNorm l := by
    intro l
    rw [sumActive_eq, activeNorm_eq]
    induction l with
    | nil => simp
    | cons c l ih =>
      simp only [List.map_cons, List.zipWith_cons_cons, List.sum_cons]
      rw [ih]
      obtain ⟨cc, cb⟩ := c
      cases cb <;> simp <;> ring
  exact key cs

end Cv.C20
