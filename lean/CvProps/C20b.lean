import CvProps.RealInst
import CvModel.Objects
/-!
# C20, second file — components switched off and on by script (`cv colvar <name> cvcflags`), model `CvModel/Combine.lean`

"Script-driven actions have the same effect as the equivalent configuration": a variable whose flags leave a subset of its
components on reports the value and the total force of a variable configured with only those components.
-/
open Cv Cv.Combine

namespace Cv.C20

theorem lit0 : (0.0 : ℝ) = 0 := by norm_num

theorem sumActive_eq (cs : Comps ℝ) (xs : List ℝ) (f : ℝ → ℝ → ℝ) :
    sumActive cs xs f = (List.zipWith (fun (cb : ℝ × Bool) x => if cb.2 then f cb.1 x else 0) cs xs).sum := by
  unfold sumActive
  rw [lit0, List.sum_eq_foldl]

theorem activeNorm_eq (cs : Comps ℝ) : activeNorm cs = (cs.map fun cb => if cb.2 then cb.1 * cb.1 else 0).sum := by
  unfold activeNorm
  rw [lit0, List.sum_eq_foldl]

/-- all components of a list switched on -/
def allOn (cs : Comps ℝ) : Comps ℝ := cs.map fun cb => (cb.1, true)

theorem sum_only_active (cs : Comps ℝ) (f : ℝ → ℝ → ℝ) : ∀ xs : List ℝ,
    sumActive cs xs f = sumActive (allOn (onlyActive cs xs).1) (onlyActive cs xs).2 f := by
  induction cs with
  | nil => intro xs; simp [sumActive_eq, onlyActive, allOn]
  | cons c cs ih =>
    intro xs
    cases xs with
    | nil => simp [sumActive_eq, onlyActive, allOn]
    | cons x xs =>
      have h := ih xs
      rw [sumActive_eq, sumActive_eq] at h ⊢
      obtain ⟨cc, cb⟩ := c
      cases cb with
      | false =>
        simp only [List.zipWith_cons_cons, List.sum_cons, Bool.false_eq_true, if_false, zero_add]
        rw [h]
        simp [onlyActive, allOn]
      | true =>
        simp only [List.zipWith_cons_cons, List.sum_cons, if_true]
        rw [h]
        simp [onlyActive, allOn]

theorem norm_only_active (cs : Comps ℝ) : ∀ xs : List ℝ, cs.length = xs.length →
    activeNorm cs = activeNorm (allOn (onlyActive cs xs).1) := by
  induction cs with
  | nil => intro xs _; simp [activeNorm_eq, onlyActive, allOn]
  | cons c cs ih =>
    intro xs hl
    cases xs with
    | nil => simp at hl
    | cons x xs =>
      have h := ih xs (by simpa using hl)
      rw [activeNorm_eq, activeNorm_eq] at h ⊢
      obtain ⟨cc, cb⟩ := c
      cases cb with
      | false =>
        simp only [List.map_cons, List.sum_cons, Bool.false_eq_true, if_false, zero_add]
        rw [h]
        simp [onlyActive, allOn]
      | true =>
        simp only [List.map_cons, List.sum_cons, if_true]
        rw [h]
        simp [onlyActive, allOn]

/-- **flags ≡ configuration**: with any pattern of flags, the value, the norm `Σ c²` and the total force the variable reports are
    those of a variable that was configured with only the components that are on -/
theorem flags_equal_configuration (cs : Comps ℝ) (qs fs : List ℝ) (hq : cs.length = qs.length) (hf : cs.length = fs.length) :
    value cs qs = value (allOn (onlyActive cs qs).1) (onlyActive cs qs).2 ∧
    totalForce cs fs = totalForce (allOn (onlyActive cs fs).1) (onlyActive cs fs).2 := by
  refine ⟨sum_only_active cs _ qs, ?_⟩
  unfold totalForce
  rw [sum_only_active cs _ fs, norm_only_active cs fs hf]

/-- the norm depends on *which* components are on, not on how many: exchanging the active component of a two-component variable
    with coefficients 1 and 3 changes it from 1 to 9 (a norm recomputed only when the count changes stays at 1) -/
theorem norm_depends_on_membership :
    activeNorm ([(1, true), (3, false)] : Comps ℝ) = 1 ∧ activeNorm ([(1, false), (3, true)] : Comps ℝ) = 9 := by
  constructor <;> (rw [activeNorm_eq]; norm_num)

/-- inverse property under flags: when every active component carries the force `F·c_i` that applying `F` to the variable gives it,
    the reported total force is `F` -/
theorem flags_total_force_inverse (cs : Comps ℝ) (F : ℝ) (hn : activeNorm cs ≠ 0) :
    totalForce cs (cs.map fun cb => F * cb.1) = F := by
  unfold totalForce
  rw [div_eq_iff hn]
  have key : ∀ l : Comps ℝ, sumActive l (l.map fun cb => F * cb.1) (fun c f => c * f) = F * activeNorm l := by
    intro l
    rw [sumActive_eq, activeNorm_eq]
    induction l with
    | nil => simp
    | cons c l ih =>
      simp only [List.map_cons, List.zipWith_cons_cons, List.sum_cons]
      rw [ih]
      obtain ⟨cc, cb⟩ := c
      cases cb <;> simp <;> ring
  exact key cs


/-! ## objects deleted by script (`cv colvar <name> delete`, `cv bias <name> delete`), model `CvModel/Objects.lean` -/
section objects
open Cv.Objects


theorem deleteBias_refs_lt (o : Objs) (v b : String) (hb : b ∈ o.refs v) :
    ((deleteBias o b).refs v).length < (o.refs v).length := by
  show ((o.refs v).filter (· != b)).length < (o.refs v).length
  apply List.length_filter_lt_length_iff_exists.mpr
  exact ⟨b, hb, by simp⟩

/-- the destructor's loop ends: with as many rounds as there are registered biases the back-reference list is empty -/
theorem delLoop_clears : ∀ (n : Nat) (o : Objs) (v : String), (o.refs v).length ≤ n → (delLoop n o v).refs v = []
  | 0, o, v, h => by
    have : (o.refs v).length = 0 := by omega
    simpa [delLoop] using List.length_eq_zero_iff.mp this
  | n + 1, o, v, h => by
    unfold delLoop
    cases hl : (o.refs v).getLast? with
    | none => simpa using List.getLast?_eq_none_iff.mp hl
    | some b =>
      have hb : b ∈ o.refs v := List.mem_of_getLast? hl
      have := deleteBias_refs_lt o v b hb
      exact delLoop_clears n (deleteBias o b) v (by omega)

theorem deleteBias_registered (o : Objs) (v b : String) (h : Registered o v) : Registered (deleteBias o b) v := by
  intro p hp hv
  have hp' := List.mem_filter.mp hp
  exact List.mem_filter.mpr ⟨h p hp'.1 hv, hp'.2⟩

theorem delLoop_registered : ∀ (n : Nat) (o : Objs) (v : String), Registered o v → Registered (delLoop n o v) v
  | 0, _, _, h => h
  | n + 1, o, v, h => by
    unfold delLoop
    cases (o.refs v).getLast? with
    | none => exact h
    | some b => exact delLoop_registered n _ v (deleteBias_registered o v b h)

/-- a bias not registered with the variable survives the loop, with its configuration -/
theorem delLoop_keeps : ∀ (n : Nat) (o : Objs) (v : String) (p : String × List String),
    p ∈ o.biases → p.1 ∉ o.refs v → p ∈ (delLoop n o v).biases
  | 0, _, _, _, hp, _ => hp
  | n + 1, o, v, p, hp, hn => by
    unfold delLoop
    cases hl : (o.refs v).getLast? with
    | none => exact hp
    | some b =>
      have hb : b ∈ o.refs v := List.mem_of_getLast? hl
      have hne : p.1 ≠ b := fun e => hn (e ▸ hb)
      apply delLoop_keeps n (deleteBias o b) v p
      · exact List.mem_filter.mpr ⟨hp, by simpa using hne⟩
      · intro hm; exact hn (List.mem_filter.mp hm).1

/-- nothing is created: what is left after the loop was there before -/
theorem delLoop_subset : ∀ (n : Nat) (o : Objs) (v : String) (p : String × List String),
    p ∈ (delLoop n o v).biases → p ∈ o.biases
  | 0, _, _, _, hp => hp
  | n + 1, o, v, p, hp => by
    unfold delLoop at hp
    cases hl : (o.refs v).getLast? with
    | none => simpa [hl] using hp
    | some b =>
      rw [hl] at hp
      exact (List.mem_filter.mp (delLoop_subset n (deleteBias o b) v p hp)).1

theorem ofConfig_registered (vars : List String) (biases : List (String × List String)) (v : String) :
    Registered (ofConfig vars biases) v := by
  intro p hp hv
  show p.1 ∈ (biases.filter (fun p => p.2.contains v)).map (·.1)
  exact List.mem_map.mpr ⟨p, List.mem_filter.mpr ⟨hp, by simpa using hv⟩, rfl⟩

/-- **deleting a variable** (any number of dependent biases): the variable is gone, no remaining bias depends on it, every bias
    that was not registered with it is still there unchanged, nothing new appears, and the other variables are untouched. -/
theorem delete_variable (o : Objs) (v : String) (h : Registered o v) :
    v ∉ (deleteVar o v).vars ∧
    (∀ p ∈ (deleteVar o v).biases, v ∉ p.2) ∧
    (∀ p ∈ o.biases, p.1 ∉ o.refs v → p ∈ (deleteVar o v).biases) ∧
    (∀ p ∈ (deleteVar o v).biases, p ∈ o.biases) ∧
    (∀ w, w ≠ v → (w ∈ (deleteVar o v).vars ↔ w ∈ (delLoop (o.refs v).length o v).vars)) := by
  refine ⟨?_, ?_, ?_, ?_, ?_⟩
  · intro hm
    have := (List.mem_filter.mp hm).2
    simp at this
  · intro p hp hv
    have hr := delLoop_registered (o.refs v).length o v h p hp hv
    rw [delLoop_clears (o.refs v).length o v (Nat.le_refl _)] at hr
    simp at hr
  · intro p hp hn
    exact delLoop_keeps _ o v p hp hn
  · intro p hp
    exact delLoop_subset _ o v p hp
  · intro w hw
    show w ∈ List.filter (· != v) _ ↔ _
    rw [List.mem_filter]
    simp [hw]

theorem deleteBias_vars (o : Objs) (b : String) : (deleteBias o b).vars = o.vars := rfl

theorem delLoop_vars : ∀ (n : Nat) (o : Objs) (v : String), (delLoop n o v).vars = o.vars
  | 0, _, _ => rfl
  | n + 1, o, v => by
    unfold delLoop
    cases (o.refs v).getLast? with
    | none => rfl
    | some b => exact delLoop_vars n (deleteBias o b) v

/-- the list of variables after deleting one is the old list without it, in the same order -/
theorem delete_variable_vars (o : Objs) (v : String) : (deleteVar o v).vars = o.vars.filter (· != v) := by
  show List.filter _ (delLoop _ o v).vars = _
  rw [delLoop_vars]

example : ((deleteVar (ofConfig ["d", "z", "v"] [("h", ["d", "z"]), ("hs", ["z"]), ("k", ["d"])]) "z").vars,
    (deleteVar (ofConfig ["d", "z", "v"] [("h", ["d", "z"]), ("hs", ["z"]), ("k", ["d"])]) "z").biases) =
    (["d", "v"], [("k", ["d"])]) := by decide


/-- what the loop leaves, in closed form: the biases not registered with the variable, in their original order -/
theorem delLoop_biases : ∀ (n : Nat) (o : Objs) (v : String), (o.refs v).length ≤ n →
    (delLoop n o v).biases = o.biases.filter (fun p => !(o.refs v).contains p.1)
  | 0, o, v, h => by
    have : o.refs v = [] := List.length_eq_zero_iff.mp (by omega)
    simp [delLoop, this]
  | n + 1, o, v, h => by
    unfold delLoop
    cases hl : (o.refs v).getLast? with
    | none =>
      have : o.refs v = [] := List.getLast?_eq_none_iff.mp hl
      simp [this]
    | some b =>
      have hb : b ∈ o.refs v := List.mem_of_getLast? hl
      have hlt := deleteBias_refs_lt o v b hb
      show (delLoop n (deleteBias o b) v).biases = _
      rw [delLoop_biases n (deleteBias o b) v (by omega)]
      show List.filter _ (List.filter (fun p => p.1 != b) o.biases) = _
      rw [List.filter_filter]
      apply List.filter_congr
      intro p _
      show (!((o.refs v).filter (· != b)).contains p.1 && (p.1 != b)) = !(o.refs v).contains p.1
      by_cases hpb : p.1 = b
      · have : (o.refs v).contains p.1 = true := by simpa [hpb] using hb
        simp [hpb, hb]
      · have e : ((o.refs v).filter (· != b)).contains p.1 = (o.refs v).contains p.1 := by
          rw [Bool.eq_iff_iff]
          simp [List.mem_filter, hpb]
        simp [hpb]

/-- `cv colvar v delete` in closed form -/
theorem deleteVar_closed (o : Objs) (v : String) :
    (deleteVar o v).vars = o.vars.filter (· != v) ∧
    (deleteVar o v).biases = o.biases.filter (fun p => !(o.refs v).contains p.1) :=
  ⟨delete_variable_vars o v, delLoop_biases _ o v (Nat.le_refl _)⟩

/-- the back-reference lists after the loop, in closed form -/
theorem delLoop_refs : ∀ (n : Nat) (o : Objs) (v w : String), (o.refs v).length ≤ n →
    (delLoop n o v).refs w = (o.refs w).filter (fun b => !(o.refs v).contains b)
  | 0, o, v, w, h => by
    have : o.refs v = [] := List.length_eq_zero_iff.mp (by omega)
    simp [delLoop, this]
  | n + 1, o, v, w, h => by
    unfold delLoop
    cases hl : (o.refs v).getLast? with
    | none =>
      have : o.refs v = [] := List.getLast?_eq_none_iff.mp hl
      simp [this]
    | some b =>
      have hb : b ∈ o.refs v := List.mem_of_getLast? hl
      have hlt := deleteBias_refs_lt o v b hb
      show (delLoop n (deleteBias o b) v).refs w = _
      rw [delLoop_refs n (deleteBias o b) v w (by omega)]
      show List.filter _ (List.filter (· != b) (o.refs w)) = _
      rw [List.filter_filter]
      apply List.filter_congr
      intro x _
      show (!((o.refs v).filter (· != b)).contains x && (x != b)) = !(o.refs v).contains x
      by_cases hxb : x = b
      · simp [hxb, hb]
      · simp [hxb]

/-- **the order of deletions does not matter**: deleting two variables one after the other leaves the same variables and the same
    biases (same order, same configuration) whichever goes first. -/
theorem delete_variables_commute (o : Objs) (v w : String) :
    (deleteVar (deleteVar o v) w).vars = (deleteVar (deleteVar o w) v).vars ∧
    (deleteVar (deleteVar o v) w).biases = (deleteVar (deleteVar o w) v).biases := by
  have rv : (deleteVar o v).refs w = (o.refs w).filter (fun b => !(o.refs v).contains b) :=
    delLoop_refs _ o v w (Nat.le_refl _)
  have rw' : (deleteVar o w).refs v = (o.refs v).filter (fun b => !(o.refs w).contains b) :=
    delLoop_refs _ o w v (Nat.le_refl _)
  refine ⟨?_, ?_⟩
  · rw [(deleteVar_closed _ w).1, (deleteVar_closed o v).1, (deleteVar_closed _ v).1, (deleteVar_closed o w).1,
      List.filter_filter, List.filter_filter]
    apply List.filter_congr
    intro x _
    exact Bool.and_comm _ _
  · rw [(deleteVar_closed _ w).2, (deleteVar_closed o v).2, (deleteVar_closed _ v).2, (deleteVar_closed o w).2, rv, rw',
      List.filter_filter, List.filter_filter]
    apply List.filter_congr
    intro p _
    by_cases h1 : (o.refs v).contains p.1 <;> by_cases h2 : (o.refs w).contains p.1 <;>
      simp_all [List.mem_filter]


theorem deleteVar_registered (o : Objs) (v w : String) (h : Registered o w) : Registered (deleteVar o v) w := by
  intro p hp hw
  rw [(deleteVar_closed o v).2] at hp
  have hp' := List.mem_filter.mp hp
  show p.1 ∈ (deleteVar o v).refs w
  have : (deleteVar o v).refs w = (o.refs w).filter (fun b => !(o.refs v).contains b) := delLoop_refs _ o v w (Nat.le_refl _)
  rw [this]
  exact List.mem_filter.mpr ⟨h p hp'.1 hw, hp'.2⟩

theorem applyDel_registered (o : Objs) (op : DelOp) (h : ∀ w, Registered o w) : ∀ w, Registered (applyDel o op) w := by
  intro w
  cases op with
  | var v => exact deleteVar_registered o v w (h w)
  | bias b => exact deleteBias_registered o w b (h w)

theorem applyDel_subset (o : Objs) (op : DelOp) : ∀ p ∈ (applyDel o op).biases, p ∈ o.biases := by
  intro p hp
  cases op with
  | var v => exact delLoop_subset _ o v p hp
  | bias b => exact (List.mem_filter.mp hp).1

theorem runDel_subset (ops : List DelOp) : ∀ (o : Objs), ∀ p ∈ (ops.foldl applyDel o).biases, p ∈ o.biases := by
  induction ops with
  | nil => intro o p hp; exact hp
  | cons op ops ih => intro o p hp; exact applyDel_subset o op p (ih _ p hp)

/-- **any sequence of deletions**, starting from any configuration: once a variable has been deleted no bias that depends on it is
    left, then or at any later point of the sequence (a bias never outlives a variable it reads). -/
theorem deletions_leave_no_dangling_bias (vars : List String) (biases : List (String × List String)) (pre post : List DelOp) (v : String) :
    ∀ p ∈ ((pre ++ DelOp.var v :: post).foldl applyDel (ofConfig vars biases)).biases, v ∉ p.2 := by
  intro p hp
  rw [List.foldl_append, List.foldl_cons] at hp
  have hreg : ∀ (ops : List DelOp) (o : Objs), (∀ w, Registered o w) → ∀ w, Registered (ops.foldl applyDel o) w := by
    intro ops
    induction ops with
    | nil => intro o h; exact h
    | cons op ops ih => intro o h; exact ih _ (applyDel_registered o op h)
  have h1 := hreg pre (ofConfig vars biases) (fun w => ofConfig_registered vars biases w)
  have h2 := runDel_subset post _ p hp
  exact (delete_variable _ v (h1 v)).2.1 p h2


end objects

end Cv.C20
