import CvProps.C14Lemmas
/-!
# C14 — multiple-walker sharing combines every walker's data exactly once

Property theorems about `CvModel/Shared.lean` at `α := ℝ`: the shared-ABF exchange (`replica_share`) as an event
machine over `n` walkers, and the mirror a metadynamics walker keeps of a peer's hills file.
-/
open Cv Cv.Shared

namespace Cv.C14

/-- event refers to an existing walker and bin -/
def EvOk (n nb : Nat) : Ev ℝ → Prop
  | .sample w b _ => w < n ∧ b < nb
  | .exchange => True
  | .restart w => w < n

def isSample : Ev ℝ → Bool
  | .sample _ _ _ => true
  | _ => false

def isRestart : Ev ℝ → Bool
  | .restart _ => true
  | _ => false

/-- pointwise sum of two tallies -/
noncomputable def tadd (a b : List Int × List ℝ) : List Int × List ℝ := (vaddI a.1 b.1, vadd a.2 b.2)

/-! ## shared ABF -/

/-- **union, each once**: after any history without restarts that ends with an exchange, the grids every walker uses
    hold exactly the samples recorded by all walkers, each counted once -/
theorem exchange_union (n nb : Nat) (evs : List (Ev ℝ)) (hok : ∀ e ∈ evs, EvOk n nb e)
    (hnr : ∀ e ∈ evs, isRestart e = false) :
    ∀ w ∈ run (initAll n nb) (evs ++ [.exchange]), (w.samples, w.grad) = tally nb (samplesOf none evs) := by
  sorry

/-- **each walker's own contribution stays recoverable**: after the same histories the local grids of walker `k` hold
    exactly what walker `k` sampled itself -/
theorem own_contribution (n nb : Nat) (evs : List (Ev ℝ)) (hok : ∀ e ∈ evs, EvOk n nb e)
    (hnr : ∀ e ∈ evs, isRestart e = false) (k : Nat) (hk : k < n) :
    ∀ w, (run (initAll n nb) (evs ++ [.exchange]))[k]? = some w →
      (w.locS, w.locG) = tally nb (samplesOf (some k) evs) := by
  sorry

/-- between exchanges a walker uses the union as of the last exchange plus what it has sampled itself since -/
theorem between_exchanges (n nb : Nat) (evs₁ evs₂ : List (Ev ℝ)) (hok₁ : ∀ e ∈ evs₁, EvOk n nb e)
    (hok₂ : ∀ e ∈ evs₂, EvOk n nb e) (hnr : ∀ e ∈ evs₁, isRestart e = false)
    (hs₂ : ∀ e ∈ evs₂, isSample e = true) (k : Nat) (hk : k < n) :
    ∀ w, (run (initAll n nb) (evs₁ ++ [.exchange] ++ evs₂))[k]? = some w →
      (w.samples, w.grad) = tadd (tally nb (samplesOf none evs₁)) (tally nb (samplesOf (some k) evs₂)) := by
  sorry

/-- the order in which the walkers' steps are interleaved between two exchanges does not matter -/
theorem interleaving_irrelevant (n nb : Nat) (pre evs evs' : List (Ev ℝ)) (hp : evs.Perm evs')
    (hokp : ∀ e ∈ pre, EvOk n nb e) (hok : ∀ e ∈ evs, EvOk n nb e)
    (hnrp : ∀ e ∈ pre, isRestart e = false) (hs : ∀ e ∈ evs, isSample e = true) :
    run (initAll n nb) (pre ++ evs ++ [.exchange]) = run (initAll n nb) (pre ++ evs' ++ [.exchange]) := by
  sorry

/-- a walker resumed with nothing pending (its grids equal the snapshot of the last exchange) is unchanged -/
theorem restart_nothing_pending (w : Walker ℝ) (hS : w.lastS = w.samples) (hG : w.lastG = w.grad) : w.restart = w := by
  sorry

/-- hence a stop / resume immediately after an exchange changes nothing, whatever follows -/
theorem restart_at_boundary_harmless (ws : List (Walker ℝ)) (k : Nat) (rest : List (Ev ℝ)) :
    run ws ([.exchange, .restart k] ++ rest) = run ws ([.exchange] ++ rest) := by
  sorry

/-- the boundary is sharp: with a sample pending at the stop, the resumed walker's own contribution misses it
    (the behaviour of the code, recorded as a known finding) -/
theorem restart_pending_loses :
    ∃ (evs : List (Ev ℝ)) (w : Walker ℝ),
      (run (initAll 2 1) evs)[0]? = some w ∧ (w.locS, w.locG) ≠ tally 1 (samplesOf (some 0) evs) := by
  sorry

/-! ## multiple-walker metadynamics: the mirror of a peer's hills file -/

/-- successive reads of a growing file: at each read the file and the number of complete records in it -/
def reads {H : Type} (m : Mirror H) (l : List (List H × Nat)) : Mirror H :=
  l.foldl (fun m fc => m.read fc.1 fc.2) m

/-- the file only grows: each version is a prefix of the next -/
def Growing {H : Type} : List (List H × Nat) → Prop
  | [] => True
  | [_] => True
  | a :: b :: r => a.1 <+: b.1 ∧ Growing (b :: r)

/-- **each hill once, in order, nothing invented**: whatever the read schedule and however many records were complete
    at each read, the mirror holds exactly the first `pos` hills of the peer's file -/
theorem mirror_is_prefix {H : Type} (l : List (List H × Nat)) (last : List H × Nat) (hg : Growing (l ++ [last])) :
    let m := reads { pos := 0, hills := [] } (l ++ [last])
    m.hills = last.1.take m.pos ∧ m.pos ≤ last.1.length := by
  sorry

/-- after a read that finds the file complete the mirror holds the whole file -/
theorem mirror_complete {H : Type} (l : List (List H × Nat)) (file : List H) (hg : Growing (l ++ [(file, file.length)])) :
    (reads { pos := 0, hills := [] } (l ++ [(file, file.length)])).hills = file := by
  sorry

/-- a partially written record is never consumed: nothing beyond the complete records enters the mirror -/
theorem mirror_ignores_partial {H : Type} (m : Mirror H) (file : List H) (complete : Nat) :
    (m.read file complete).pos ≤ max m.pos (min complete file.length) ∧
    (m.read file complete).hills.length = m.hills.length + ((m.read file complete).pos - m.pos) := by
  sorry

/-! ## non-vacuity -/
example : EvOk 2 3 (.sample 1 2 0.5) := by unfold EvOk; omega

end Cv.C14
