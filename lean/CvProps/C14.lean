import CvProps.C14Lemmas
import CvProps.C14b
/-!
# C14 — multiple-walker sharing combines every walker's data exactly once

Property theorems about `CvModel/Shared.lean` at `α := ℝ`: the shared-ABF exchange (`replica_share`) as an event
machine over `n` walkers, and the mirror a metadynamics walker keeps of a peer's hills file.
-/
open Cv Cv.Shared

namespace Cv.C14

/-- event refers to an existing walker and bin -/
def EvOk (n nb : Nat) : Ev ℝ → Prop
  | .sample w b _ => w < n ∧ b < nb
  | .exchange => True
  | .restart w => w < n

def isSample : Ev ℝ → Bool
  | .sample _ _ _ => true
  | _ => false

def isRestart : Ev ℝ → Bool
  | .restart _ => true
  | _ => false

/-- pointwise sum of two tallies -/
noncomputable def tadd (a b : List Int × List ℝ) : List Int × List ℝ := (vaddI a.1 b.1, vadd a.2 b.2)

/-! bridges from the hypotheses in the statements to the raw forms used by the lemmas -/
private theorem ok_raw {n nb : Nat} {evs : List (Ev ℝ)} (hok : ∀ e ∈ evs, EvOk n nb e) :
    ∀ v b f, Ev.sample v b f ∈ evs → v < n ∧ b < nb := fun _ _ _ h => hok _ h

private theorem nr_raw {evs : List (Ev ℝ)} (hnr : ∀ e ∈ evs, isRestart e = false) : ∀ v, Ev.restart v ∉ evs :=
  fun v h => by simpa [isRestart] using hnr _ h

private theorem smp_raw {evs : List (Ev ℝ)} (hs : ∀ e ∈ evs, isSample e = true) :
    ∀ e ∈ evs, ∃ v b f, e = Ev.sample v b f := by
  intro e he
  have := hs e he
  cases e with
  | sample v b f => exact ⟨v, b, f, rfl⟩
  | exchange => simp [isSample] at this
  | restart v => simp [isSample] at this

/-- the state after a history without restarts followed by an exchange -/
private theorem after_exchange (n nb : Nat) (evs : List (Ev ℝ)) (hok : ∀ e ∈ evs, EvOk n nb e)
    (hnr : ∀ e ∈ evs, isRestart e = false) :
    ∃ L : Nat → C14L.G, C14L.ShInv n nb (run (initAll n nb) (evs ++ [.exchange]))
      (C14L.GS (samplesOf none evs)) 0 L ∧ ∀ k, L k = C14L.GS (samplesOf (some k) evs) := by
  obtain ⟨C, P, L, hinv, hown, hC⟩ := C14L.main_inv n nb evs (ok_raw hok) (nr_raw hnr)
  have h : C14L.ShInv n nb (run (initAll n nb) (evs ++ [.exchange])) (C + ∑ k ∈ Finset.range n, P k) 0
      (fun k => L k + P k) := by
    rw [C14L.run_snoc]; exact C14L.inv_exchange hinv
  refine ⟨_, ?_, hown⟩
  convert h using 1
  rw [hC, ← Finset.sum_add_distrib, ← C14L.sum_own n nb evs (ok_raw hok)]
  exact (Finset.sum_congr rfl fun k _ => hown k).symm

/-! ## shared ABF -/

/-- **union, each once**: after any history without restarts that ends with an exchange, the grids every walker uses
    hold exactly the samples recorded by all walkers, each counted once -/
theorem exchange_union (n nb : Nat) (evs : List (Ev ℝ)) (hok : ∀ e ∈ evs, EvOk n nb e)
    (hnr : ∀ e ∈ evs, isRestart e = false) :
    ∀ w ∈ run (initAll n nb) (evs ++ [.exchange]), (w.samples, w.grad) = tally nb (samplesOf none evs) := by
  obtain ⟨L, hinv, _⟩ := after_exchange n nb evs hok hnr
  intro w hw
  obtain ⟨k, hk⟩ := List.mem_iff_getElem?.1 hw
  have wf := hinv.wf k w hk
  have hc := hinv.hcur k w hk
  have ht := C14L.tally_spec nb (samplesOf none evs) (C14L.samplesOf_bins n nb none evs (ok_raw hok))
  apply C14L.view_ext (wf.h1.trans ht.1.symm) (wf.h2.trans ht.2.1.symm)
  rw [ht.2.2]
  simpa [C14L.cur] using hc

/-- **each walker's own contribution stays recoverable**: after the same histories the local grids of walker `k` hold
    exactly what walker `k` sampled itself -/
theorem own_contribution (n nb : Nat) (evs : List (Ev ℝ)) (hok : ∀ e ∈ evs, EvOk n nb e)
    (hnr : ∀ e ∈ evs, isRestart e = false) (k : Nat) (hk : k < n) :
    ∀ w, (run (initAll n nb) (evs ++ [.exchange]))[k]? = some w →
      (w.locS, w.locG) = tally nb (samplesOf (some k) evs) := by
  have _ := hk  -- not needed: for `k ≥ n` there is no such walker
  obtain ⟨L, hinv, hL⟩ := after_exchange n nb evs hok hnr
  intro w hw
  have wf := hinv.wf k w hw
  have hc := hinv.hloc k w hw
  have ht := C14L.tally_spec nb (samplesOf (some k) evs) (C14L.samplesOf_bins n nb (some k) evs (ok_raw hok))
  apply C14L.view_ext (wf.h5.trans ht.1.symm) (wf.h6.trans ht.2.1.symm)
  rw [ht.2.2, ← hL k]
  exact hc

/-- between exchanges a walker uses the union as of the last exchange plus what it has sampled itself since -/
theorem between_exchanges (n nb : Nat) (evs₁ evs₂ : List (Ev ℝ)) (hok₁ : ∀ e ∈ evs₁, EvOk n nb e)
    (hok₂ : ∀ e ∈ evs₂, EvOk n nb e) (hnr : ∀ e ∈ evs₁, isRestart e = false)
    (hs₂ : ∀ e ∈ evs₂, isSample e = true) (k : Nat) (hk : k < n) :
    ∀ w, (run (initAll n nb) (evs₁ ++ [.exchange] ++ evs₂))[k]? = some w →
      (w.samples, w.grad) = tadd (tally nb (samplesOf none evs₁)) (tally nb (samplesOf (some k) evs₂)) := by
  have _ := hk  -- not needed: for `k ≥ n` there is no such walker
  obtain ⟨L, hinv, _⟩ := after_exchange n nb evs₁ hok₁ hnr
  have hinv₂ := C14L.samples_inv n nb _ _ _ _ hinv evs₂ (ok_raw hok₂) (smp_raw hs₂)
  rw [← C14L.run_append] at hinv₂
  intro w hw
  have wf := hinv₂.wf k w hw
  have hc := hinv₂.hcur k w hw
  have ht₁ := C14L.tally_spec nb (samplesOf none evs₁) (C14L.samplesOf_bins n nb none evs₁ (ok_raw hok₁))
  have ht₂ := C14L.tally_spec nb (samplesOf (some k) evs₂) (C14L.samplesOf_bins n nb (some k) evs₂ (ok_raw hok₂))
  -- `tadd` is written with `Cv.vadd` (CvModel/Value.lean), the same `zipWith` as `Cv.Shared.vadd`
  show (w.samples, w.grad) = (vaddI (tally nb (samplesOf none evs₁)).1 (tally nb (samplesOf (some k) evs₂)).1,
    Shared.vadd (tally nb (samplesOf none evs₁)).2 (tally nb (samplesOf (some k) evs₂)).2)
  apply C14L.view_ext
  · simp [vaddI, wf.h1, ht₁.1, ht₂.1]
  · simp [Shared.vadd, wf.h2, ht₁.2.1, ht₂.2.1]
  · rw [C14L.view_vadd (ht₁.1.trans ht₂.1.symm) (ht₁.2.1.trans ht₂.2.1.symm), ht₁.2.2, ht₂.2.2]
    simpa [C14L.cur] using hc

/-- the order in which the walkers' steps are interleaved between two exchanges does not matter -/
theorem interleaving_irrelevant (n nb : Nat) (pre evs evs' : List (Ev ℝ)) (hp : evs.Perm evs')
    (hokp : ∀ e ∈ pre, EvOk n nb e) (hok : ∀ e ∈ evs, EvOk n nb e)
    (hnrp : ∀ e ∈ pre, isRestart e = false) (hs : ∀ e ∈ evs, isSample e = true) :
    run (initAll n nb) (pre ++ evs ++ [.exchange]) = run (initAll n nb) (pre ++ evs' ++ [.exchange]) := by
  -- sample events commute as state transformers, whatever the state: the other hypotheses are not needed
  have _ := hokp; have _ := hok; have _ := hnrp
  rw [List.append_assoc, List.append_assoc, C14L.run_append, C14L.run_append _ pre, C14L.run_append,
    C14L.run_append _ evs', C14L.run_perm _ evs evs' hp (smp_raw hs)]

/-- a walker resumed with nothing pending (its grids equal the snapshot of the last exchange) is unchanged -/
theorem restart_nothing_pending (w : Walker ℝ) (hS : w.lastS = w.samples) (hG : w.lastG = w.grad) : w.restart = w := by
  cases w
  simp only [Walker.restart] at *
  subst hS hG
  rfl

/-- hence a stop / resume immediately after an exchange changes nothing, whatever follows -/
theorem restart_at_boundary_harmless (ws : List (Walker ℝ)) (k : Nat) (rest : List (Ev ℝ)) :
    run ws ([.exchange, .restart k] ++ rest) = run ws ([.exchange] ++ rest) := by
  rw [C14L.run_append, C14L.run_append ws [.exchange]]
  congr 1
  show apply (apply ws .exchange) (.restart k) = apply ws .exchange
  exact C14L.exchange_restart ws k

/-- the boundary is sharp: with a sample pending at the stop, the resumed walker's own contribution misses it
    (the behaviour of the code, recorded as a known finding) -/
theorem restart_pending_loses :
    ∃ (evs : List (Ev ℝ)) (w : Walker ℝ),
      (run (initAll 2 1) evs)[0]? = some w ∧ (w.locS, w.locG) ≠ tally 1 (samplesOf (some 0) evs) := by
  refine ⟨[.sample 0 0 1, .restart 0, .exchange], _, rfl, ?_⟩
  intro h
  have := congrArg Prod.fst h
  simp [Walker.init, Walker.sample, Walker.restart, Walker.deltaS, vaddI, vsubI, tally, samplesOf] at this

/-! ## multiple-walker metadynamics: the mirror of a peer's hills file -/

/-- successive reads of a growing file: at each read the file and the number of complete records in it -/
def reads {H : Type} (m : Mirror H) (l : List (List H × Nat)) : Mirror H :=
  l.foldl (fun m fc => m.read fc.1 fc.2) m

/-- the file only grows: each version is a prefix of the next -/
def Growing {H : Type} : List (List H × Nat) → Prop
  | [] => True
  | [_] => True
  | a :: b :: r => a.1 <+: b.1 ∧ Growing (b :: r)

private theorem reads_snoc {H : Type} (m : Mirror H) (l : List (List H × Nat)) (x : List H × Nat) :
    reads m (l ++ [x]) = (reads m l).read x.1 x.2 := by
  simp [reads, List.foldl_append]

private theorem growing_snoc {H : Type} (l : List (List H × Nat)) (a b : List H × Nat)
    (hg : Growing (l ++ [a] ++ [b])) : Growing (l ++ [a]) ∧ a.1 <+: b.1 := by
  induction l with
  | nil => exact ⟨trivial, hg.1⟩
  | cons x l ih =>
    cases l with
    | nil => exact ⟨⟨hg.1, trivial⟩, hg.2.1⟩
    | cons y l =>
      have := ih hg.2
      exact ⟨⟨hg.1, this.1⟩, this.2⟩

private theorem mirror_inv {H : Type} (l : List (List H × Nat)) (last : List H × Nat) (hg : Growing (l ++ [last])) :
    (reads { pos := 0, hills := [] } (l ++ [last])).hills
      = last.1.take (reads { pos := 0, hills := [] } (l ++ [last])).pos ∧
    (reads { pos := 0, hills := [] } (l ++ [last])).pos ≤ last.1.length := by
  induction l using List.reverseRecOn generalizing last with
  | nil =>
    rw [reads_snoc]
    exact C14L.read_inv _ [] last.1 last.2 (by simp [reads]) (by simp [reads]) List.nil_prefix
  | append_singleton l prev ih =>
    have hg' := growing_snoc l prev last hg
    have := ih prev hg'.1
    rw [reads_snoc]
    exact C14L.read_inv _ prev.1 last.1 last.2 this.1 this.2 hg'.2

/-- **each hill once, in order, nothing invented**: whatever the read schedule and however many records were complete
    at each read, the mirror holds exactly the first `pos` hills of the peer's file -/
theorem mirror_is_prefix {H : Type} (l : List (List H × Nat)) (last : List H × Nat) (hg : Growing (l ++ [last])) :
    let m := reads { pos := 0, hills := [] } (l ++ [last])
    m.hills = last.1.take m.pos ∧ m.pos ≤ last.1.length := by
  exact mirror_inv l last hg

/-- after a read that finds the file complete the mirror holds the whole file -/
theorem mirror_complete {H : Type} (l : List (List H × Nat)) (file : List H) (hg : Growing (l ++ [(file, file.length)])) :
    (reads { pos := 0, hills := [] } (l ++ [(file, file.length)])).hills = file := by
  have h := mirror_inv l (file, file.length) hg
  have hge : file.length ≤ (reads { pos := 0, hills := [] } (l ++ [(file, file.length)])).pos := by
    rw [reads_snoc]
    simpa using C14L.read_pos_ge (reads { pos := 0, hills := [] } l) file file.length
  rw [h.1, List.take_of_length_le hge]

/-- a partially written record is never consumed: nothing beyond the complete records enters the mirror -/
theorem mirror_ignores_partial {H : Type} (m : Mirror H) (file : List H) (complete : Nat) :
    (m.read file complete).pos ≤ max m.pos (min complete file.length) ∧
    (m.read file complete).hills.length = m.hills.length + ((m.read file complete).pos - m.pos) := by
  exact C14L.read_partial m file complete

/-! ## non-vacuity -/
example : EvOk 2 3 (.sample 1 2 0.5) := by unfold EvOk; omega

end Cv.C14
