import CvProps.C01Lemmas
/-!
# C01 — applied atomic forces are the exact negative gradient of the reported energy

Property theorems about `CvModel/Geom.lean` at `α := ℝ`: for the modelled components the gradient Colvars assigns to
every atom is the derivative of the component's value with respect to that atom's position (stated along an arbitrary
direction `d`: the derivative at `t = 0` of the value with atom `k` moved by `t • d`), the polynomial combination
multiplies it by `c n qⁿ⁻¹`, and for a harmonic restraint the force handed to the engine is minus the derivative of
the reported energy.
-/
open Cv Cv.Geom

namespace Cv.C01

/-- the group with atom `k` moved by `v` -/
noncomputable def move (g : AGroup ℝ) (k : Nat) (v : V3 ℝ) : AGroup ℝ := g.modify k fun a => { a with r := V3.add a.r v }

/-- positive masses -/
def MassOk (g : AGroup ℝ) : Prop := g ≠ [] ∧ ∀ a ∈ g, 0 < a.m

/-! ## component gradients -/

theorem distance_grad_group2 (g1 g2 : AGroup ℝ) (h1 : MassOk g1) (h2 : MassOk g2) (hne : distance g1 g2 ≠ 0)
    (k : Nat) (hk : k < g2.length) (d : V3 ℝ) :
    HasDerivAt (fun t : ℝ => distance g1 (move g2 k (V3.smul t d)))
      (V3.dot ((distanceGrad g1 g2).2.getD k V3.zero) d) 0 := by
  sorry

theorem distance_grad_group1 (g1 g2 : AGroup ℝ) (h1 : MassOk g1) (h2 : MassOk g2) (hne : distance g1 g2 ≠ 0)
    (k : Nat) (hk : k < g1.length) (d : V3 ℝ) :
    HasDerivAt (fun t : ℝ => distance (move g1 k (V3.smul t d)) g2)
      (V3.dot ((distanceGrad g1 g2).1.getD k V3.zero) d) 0 := by
  sorry

theorem distanceZ_grad_main (main ref : AGroup ℝ) (axis : V3 ℝ) (hm : MassOk main) (hr : MassOk ref)
    (k : Nat) (hk : k < main.length) (d : V3 ℝ) :
    HasDerivAt (fun t : ℝ => distanceZ (move main k (V3.smul t d)) ref axis)
      (V3.dot ((distanceZGrad main ref axis).1.getD k V3.zero) d) 0 := by
  sorry

theorem distanceZ_grad_ref (main ref : AGroup ℝ) (axis : V3 ℝ) (hm : MassOk main) (hr : MassOk ref)
    (k : Nat) (hk : k < ref.length) (d : V3 ℝ) :
    HasDerivAt (fun t : ℝ => distanceZ main (move ref k (V3.smul t d)) axis)
      (V3.dot ((distanceZGrad main ref axis).2.getD k V3.zero) d) 0 := by
  sorry

/-- the axis through ref and ref2 moves with them: the gradients on the two reference groups (as repaired) -/
theorem distanceZ2_grad_ref1 (main r1 r2 : AGroup ℝ) (hm : MassOk main) (h1 : MassOk r1) (h2 : MassOk r2)
    (hax : V3.norm (V3.sub (com r2) (com r1)) ≠ 0) (k : Nat) (hk : k < r1.length) (d : V3 ℝ) :
    HasDerivAt (fun t : ℝ => distanceZ2 main (move r1 k (V3.smul t d)) r2)
      (V3.dot ((distanceZ2Grad main r1 r2).2.1.getD k V3.zero) d) 0 := by
  sorry

theorem distanceZ2_grad_ref2 (main r1 r2 : AGroup ℝ) (hm : MassOk main) (h1 : MassOk r1) (h2 : MassOk r2)
    (hax : V3.norm (V3.sub (com r2) (com r1)) ≠ 0) (k : Nat) (hk : k < r2.length) (d : V3 ℝ) :
    HasDerivAt (fun t : ℝ => distanceZ2 main r1 (move r2 k (V3.smul t d)))
      (V3.dot ((distanceZ2Grad main r1 r2).2.2.getD k V3.zero) d) 0 := by
  sorry

theorem distanceZ2_grad_main (main r1 r2 : AGroup ℝ) (hm : MassOk main) (h1 : MassOk r1) (h2 : MassOk r2)
    (k : Nat) (hk : k < main.length) (d : V3 ℝ) :
    HasDerivAt (fun t : ℝ => distanceZ2 (move main k (V3.smul t d)) r1 r2)
      (V3.dot ((distanceZ2Grad main r1 r2).1.getD k V3.zero) d) 0 := by
  sorry

theorem distanceXY_grad_main (main ref : AGroup ℝ) (axis : V3 ℝ) (hm : MassOk main) (hr : MassOk ref)
    (hax : V3.norm axis ≠ 0) (hne : distanceXY main ref axis ≠ 0) (k : Nat) (hk : k < main.length) (d : V3 ℝ) :
    HasDerivAt (fun t : ℝ => distanceXY (move main k (V3.smul t d)) ref axis)
      (V3.dot ((distanceXYGrad main ref axis).1.getD k V3.zero) d) 0 := by
  sorry

theorem gyration_grad (g : AGroup ℝ) (hg : g ≠ []) (hne : gyration g ≠ 0) (k : Nat) (hk : k < g.length) (d : V3 ℝ) :
    HasDerivAt (fun t : ℝ => gyration (move g k (V3.smul t d)))
      (V3.dot ((gyrationGrad g).getD k V3.zero) d) 0 := by
  sorry

/-! ## combination of components and the bias force -/

/-- the polynomial combination: if every component value `q i t` has derivative `q' i` at 0, the variable has
    derivative `Σ c n qⁿ⁻¹ q'` — the factor `communicate_forces` applies to the force on the variable -/
theorem combine_chain (cs : List (ℝ × Nat)) (q : Nat → ℝ → ℝ) (q' : Nat → ℝ)
    (hq : ∀ i, i < cs.length → HasDerivAt (q i) (q' i) 0) :
    HasDerivAt (fun t : ℝ => combine ((List.range cs.length).map fun i => ({ c := (cs.getD i (0, 0)).1, n := (cs.getD i (0, 0)).2, q := q i t } : Term ℝ)))
      (((List.range cs.length).map fun i =>
          termFactor ({ c := (cs.getD i (0, 0)).1, n := (cs.getD i (0, 0)).2, q := q i 0 } : Term ℝ) * q' i).sum) 0 := by
  sorry

/-- **force = −∇E** for a harmonic restraint on a variable `x = c · distance(g1, g2)ⁿ`: the energy reported is
    `½ k ((x − x₀)/w)²`, the force on the variable is `−k (x − x₀)/w²`, and the force handed to the engine for atom
    `j` of group2 is that force times `c n qⁿ⁻¹` times the atom's gradient; its projection on any direction is minus
    the derivative of the energy along that direction -/
theorem harmonic_force_is_minus_gradient (g1 g2 : AGroup ℝ) (h1 : MassOk g1) (h2 : MassOk g2) (hne : distance g1 g2 ≠ 0)
    (c : ℝ) (n : Nat) (kf x₀ w : ℝ) (hw : w ≠ 0) (j : Nat) (hj : j < g2.length) (d : V3 ℝ) :
    let x := fun (g : AGroup ℝ) => combine [({ c := c, n := n, q := distance g1 g } : Term ℝ)]
    let energy := fun (g : AGroup ℝ) => 0.5 * kf * ((x g - x₀) / w) ^ 2
    let fvar := -(kf * (x g2 - x₀) / (w * w))
    let fatom := V3.smul (fvar * termFactor ({ c := c, n := n, q := distance g1 g2 } : Term ℝ))
                   ((distanceGrad g1 g2).2.getD j V3.zero)
    HasDerivAt (fun t : ℝ => energy (move g2 j (V3.smul t d))) (-(V3.dot fatom d)) 0 := by
  sorry

/-- no net force and no force on atoms that are not in the groups: the gradients of a distance sum to zero over all
    its atoms (translation invariance seen from the forces) -/
theorem distance_grad_sum_zero (g1 g2 : AGroup ℝ) (h1 : MassOk g1) (h2 : MassOk g2) :
    V3.add (groupForce (distanceGrad g1 g2).1) (groupForce (distanceGrad g1 g2).2) = V3.zero := by
  sorry

/-! ## non-vacuity -/
example : MassOk [({ m := 12, r := ⟨0, 0, 0⟩ } : Atom ℝ), { m := 1, r := ⟨1, 0, 0⟩ }] := by
  refine ⟨by simp, ?_⟩
  intro a ha; simp at ha; rcases ha with rfl | rfl <;> norm_num

end Cv.C01
