import CvProps.C01Lemmas
/-!
# C01 — applied atomic forces are the exact negative gradient of the reported energy

Property theorems about `CvModel/Geom.lean` at `α := ℝ`: for the modelled components the gradient Colvars assigns to
every atom is the derivative of the component's value with respect to that atom's position (stated along an arbitrary
direction `d`: the derivative at `t = 0` of the value with atom `k` moved by `t • d`), the polynomial combination
multiplies it by `c n qⁿ⁻¹`, and for a harmonic restraint the force handed to the engine is minus the derivative of
the reported energy.
-/
open Cv Cv.Geom

namespace Cv.C01

/-- the group with atom `k` moved by `v` -/
noncomputable def move (g : AGroup ℝ) (k : Nat) (v : V3 ℝ) : AGroup ℝ := g.modify k fun a => { a with r := V3.add a.r v }

/-- positive masses -/
def MassOk (g : AGroup ℝ) : Prop := g ≠ [] ∧ ∀ a ∈ g, 0 < a.m

/-! ## component gradients -/

theorem distance_grad_group2 (g1 g2 : AGroup ℝ) (h1 : MassOk g1) (h2 : MassOk g2) (hne : distance g1 g2 ≠ 0)
    (k : Nat) (hk : k < g2.length) (d : V3 ℝ) :
    HasDerivAt (fun t : ℝ => distance g1 (move g2 k (V3.smul t d)))
      (V3.dot ((distanceGrad g1 g2).2.getD k V3.zero) d) 0 := by
  exact distance_grad2 g1 g2 (msum_pos _ h2.1 h2.2).ne' hne k hk d

theorem distance_grad_group1 (g1 g2 : AGroup ℝ) (h1 : MassOk g1) (h2 : MassOk g2) (hne : distance g1 g2 ≠ 0)
    (k : Nat) (hk : k < g1.length) (d : V3 ℝ) :
    HasDerivAt (fun t : ℝ => distance (move g1 k (V3.smul t d)) g2)
      (V3.dot ((distanceGrad g1 g2).1.getD k V3.zero) d) 0 := by
  exact distance_grad1 g1 g2 (msum_pos _ h1.1 h1.2).ne' hne k hk d

theorem distanceZ_grad_main (main ref : AGroup ℝ) (axis : V3 ℝ) (hm : MassOk main) (hr : MassOk ref)
    (k : Nat) (hk : k < main.length) (d : V3 ℝ) :
    HasDerivAt (fun t : ℝ => distanceZ (move main k (V3.smul t d)) ref axis)
      (V3.dot ((distanceZGrad main ref axis).1.getD k V3.zero) d) 0 := by
  exact distanceZ_grad_m main ref axis (msum_pos _ hm.1 hm.2).ne' k hk d

theorem distanceZ_grad_ref (main ref : AGroup ℝ) (axis : V3 ℝ) (hm : MassOk main) (hr : MassOk ref)
    (k : Nat) (hk : k < ref.length) (d : V3 ℝ) :
    HasDerivAt (fun t : ℝ => distanceZ main (move ref k (V3.smul t d)) axis)
      (V3.dot ((distanceZGrad main ref axis).2.getD k V3.zero) d) 0 := by
  exact distanceZ_grad_r main ref axis (msum_pos _ hr.1 hr.2).ne' k hk d

/-- the axis through ref and ref2 moves with them: the gradients on the two reference groups (as repaired) -/
theorem distanceZ2_grad_ref1 (main r1 r2 : AGroup ℝ) (hm : MassOk main) (h1 : MassOk r1) (h2 : MassOk r2)
    (hax : V3.norm (V3.sub (com r2) (com r1)) ≠ 0) (k : Nat) (hk : k < r1.length) (d : V3 ℝ) :
    HasDerivAt (fun t : ℝ => distanceZ2 main (move r1 k (V3.smul t d)) r2)
      (V3.dot ((distanceZ2Grad main r1 r2).2.1.getD k V3.zero) d) 0 := by
  exact distanceZ2_grad_r1 main r1 r2 (msum_pos _ h1.1 h1.2).ne' hax k hk d

theorem distanceZ2_grad_ref2 (main r1 r2 : AGroup ℝ) (hm : MassOk main) (h1 : MassOk r1) (h2 : MassOk r2)
    (hax : V3.norm (V3.sub (com r2) (com r1)) ≠ 0) (k : Nat) (hk : k < r2.length) (d : V3 ℝ) :
    HasDerivAt (fun t : ℝ => distanceZ2 main r1 (move r2 k (V3.smul t d)))
      (V3.dot ((distanceZ2Grad main r1 r2).2.2.getD k V3.zero) d) 0 := by
  exact distanceZ2_grad_r2 main r1 r2 (msum_pos _ h2.1 h2.2).ne' hax k hk d

theorem distanceZ2_grad_main (main r1 r2 : AGroup ℝ) (hm : MassOk main) (h1 : MassOk r1) (h2 : MassOk r2)
    (k : Nat) (hk : k < main.length) (d : V3 ℝ) :
    HasDerivAt (fun t : ℝ => distanceZ2 (move main k (V3.smul t d)) r1 r2)
      (V3.dot ((distanceZ2Grad main r1 r2).1.getD k V3.zero) d) 0 := by
  exact distanceZ2_grad_m main r1 r2 (msum_pos _ hm.1 hm.2).ne' k hk d

theorem distanceXY_grad_main (main ref : AGroup ℝ) (axis : V3 ℝ) (hm : MassOk main) (hr : MassOk ref)
    (hax : V3.norm axis ≠ 0) (hne : distanceXY main ref axis ≠ 0) (k : Nat) (hk : k < main.length) (d : V3 ℝ) :
    HasDerivAt (fun t : ℝ => distanceXY (move main k (V3.smul t d)) ref axis)
      (V3.dot ((distanceXYGrad main ref axis).1.getD k V3.zero) d) 0 := by
  exact distanceXY_grad_m main ref axis (msum_pos _ hm.1 hm.2).ne' hax hne k hk d

theorem gyration_grad (g : AGroup ℝ) (hg : g ≠ []) (hne : gyration g ≠ 0) (k : Nat) (hk : k < g.length) (d : V3 ℝ) :
    HasDerivAt (fun t : ℝ => gyration (move g k (V3.smul t d)))
      (V3.dot ((gyrationGrad g).getD k V3.zero) d) 0 := by
  exact gyration_grad_mv g hg hne k hk d

/-! ## combination of components and the bias force -/

/-- the polynomial combination: if every component value `q i t` has derivative `q' i` at 0, the variable has
    derivative `Σ c n qⁿ⁻¹ q'` — the factor `communicate_forces` applies to the force on the variable -/
theorem combine_chain (cs : List (ℝ × Nat)) (q : Nat → ℝ → ℝ) (q' : Nat → ℝ)
    (hq : ∀ i, i < cs.length → HasDerivAt (q i) (q' i) 0) :
    HasDerivAt (fun t : ℝ => combine ((List.range cs.length).map fun i => ({ c := (cs.getD i (0, 0)).1, n := (cs.getD i (0, 0)).2, q := q i t } : Term ℝ)))
      (((List.range cs.length).map fun i =>
          termFactor ({ c := (cs.getD i (0, 0)).1, n := (cs.getD i (0, 0)).2, q := q i 0 } : Term ℝ) * q' i).sum) 0 := by
  exact combine_chain_gen (List.range cs.length) (fun i => (cs.getD i (0, 0)).1) (fun i => (cs.getD i (0, 0)).2) q q'
    (fun i hi => hq i (List.mem_range.mp hi))

/-- **force = −∇E** for a harmonic restraint on a variable `x = c · distance(g1, g2)ⁿ`: the energy reported is
    `½ k ((x − x₀)/w)²`, the force on the variable is `−k (x − x₀)/w²`, and the force handed to the engine for atom
    `j` of group2 is that force times `c n qⁿ⁻¹` times the atom's gradient; its projection on any direction is minus
    the derivative of the energy along that direction -/
theorem harmonic_force_is_minus_gradient (g1 g2 : AGroup ℝ) (h1 : MassOk g1) (h2 : MassOk g2) (hne : distance g1 g2 ≠ 0)
    (c : ℝ) (n : Nat) (kf x₀ w : ℝ) (hw : w ≠ 0) (j : Nat) (hj : j < g2.length) (d : V3 ℝ) :
    let x := fun (g : AGroup ℝ) => combine [({ c := c, n := n, q := distance g1 g } : Term ℝ)]
    let energy := fun (g : AGroup ℝ) => 0.5 * kf * ((x g - x₀) / w) ^ 2
    let fvar := -(kf * (x g2 - x₀) / (w * w))
    let fatom := V3.smul (fvar * termFactor ({ c := c, n := n, q := distance g1 g2 } : Term ℝ))
                   ((distanceGrad g1 g2).2.getD j V3.zero)
    HasDerivAt (fun t : ℝ => energy (move g2 j (V3.smul t d))) (-(V3.dot fatom d)) 0 := by
  intro x energy fvar fatom
  have hq := distance_grad2 g1 g2 (msum_pos _ h2.1 h2.2).ne' hne j hj d
  have h := harmonic_energy_deriv c n kf x₀ w hw (fun t => distance g1 (mv g2 j (V3.smul t d))) _ hq
  have h0 : distance g1 (mv g2 j (V3.smul 0 d)) = distance g1 g2 := by
    have : mv g2 j (V3.smul 0 d) = g2 := by
      unfold mv
      have hz : V3.smul 0 d = ⟨0, 0, 0⟩ := by apply v3_ext <;> simp [V3.smul]
      rw [hz]
      conv_rhs => rw [← List.modify_id (l := g2) (i := j)]
      congr 1
      funext a
      cases a with
      | mk m r => cases r; simp [V3.add]
    rw [this]
  simp only [h0] at h
  refine h.congr_deriv ?_
  simp only [fatom, fvar, x, V3.dot, V3.smul]
  ring

/-- no net force and no force on atoms that are not in the groups: the gradients of a distance sum to zero over all
    its atoms (translation invariance seen from the forces) -/
theorem distance_grad_sum_zero (g1 g2 : AGroup ℝ) (h1 : MassOk g1) (h2 : MassOk g2) :
    V3.add (groupForce (distanceGrad g1 g2).1) (groupForce (distanceGrad g1 g2).2) = V3.zero := by
  exact distance_grad_sum g1 g2 (msum_pos _ h1.1 h1.2).ne' (msum_pos _ h2.1 h2.2).ne'


/-! ## angle (degrees) -/

/-- non-degenerate angle: both arms have non-zero length and are not collinear -/
def AngleOk (g1 g2 g3 : AGroup ℝ) : Prop :=
  V3.norm (V3.sub (com g1) (com g2)) ≠ 0 ∧ V3.norm (V3.sub (com g3) (com g2)) ≠ 0 ∧
  -1 < angleCos g1 g2 g3 ∧ angleCos g1 g2 g3 < 1

theorem angle_grad_group1 (g1 g2 g3 : AGroup ℝ) (h1 : MassOk g1) (h2 : MassOk g2) (h3 : MassOk g3)
    (hok : AngleOk g1 g2 g3) (k : Nat) (hk : k < g1.length) (d : V3 ℝ) :
    HasDerivAt (fun t : ℝ => angle (move g1 k (V3.smul t d)) g2 g3)
      (V3.dot ((angleGrad g1 g2 g3).1.getD k V3.zero) d) 0 := by
  exact angle_grad1 g1 g2 g3 (msum_pos _ h1.1 h1.2).ne' hok.1 hok.2.1 hok.2.2.1 hok.2.2.2 k hk d

theorem angle_grad_group3 (g1 g2 g3 : AGroup ℝ) (h1 : MassOk g1) (h2 : MassOk g2) (h3 : MassOk g3)
    (hok : AngleOk g1 g2 g3) (k : Nat) (hk : k < g3.length) (d : V3 ℝ) :
    HasDerivAt (fun t : ℝ => angle g1 g2 (move g3 k (V3.smul t d)))
      (V3.dot ((angleGrad g1 g2 g3).2.2.getD k V3.zero) d) 0 := by
  exact angle_grad3 g1 g2 g3 (msum_pos _ h3.1 h3.2).ne' hok.1 hok.2.1 hok.2.2.1 hok.2.2.2 k hk d

/-- the vertex group: its gradient is minus the sum of the gradients of the two arms (per unit of mass share) -/
theorem angle_grad_group2 (g1 g2 g3 : AGroup ℝ) (h1 : MassOk g1) (h2 : MassOk g2) (h3 : MassOk g3)
    (hok : AngleOk g1 g2 g3) (k : Nat) (hk : k < g2.length) (d : V3 ℝ) :
    HasDerivAt (fun t : ℝ => angle g1 (move g2 k (V3.smul t d)) g3)
      (V3.dot ((angleGrad g1 g2 g3).2.1.getD k V3.zero) d) 0 := by
  exact angle_grad2 g1 g2 g3 (msum_pos _ h2.1 h2.2).ne' hok.1 hok.2.1 hok.2.2.1 hok.2.2.2 k hk d

/-! ## non-vacuity -/
example : MassOk [({ m := 12, r := ⟨0, 0, 0⟩ } : Atom ℝ), { m := 1, r := ⟨1, 0, 0⟩ }] := by
  refine ⟨by simp, ?_⟩
  intro a ha; simp at ha; rcases ha with rfl | rfl <;> norm_num

/-! ## inertia, inertiaZ, distanceInv, coordNum -/

theorem inertia_grad (g : AGroup ℝ) (hg : g ≠ []) (k : Nat) (hk : k < g.length) (d : V3 ℝ) :
    HasDerivAt (fun t : ℝ => inertia (move g k (V3.smul t d))) (V3.dot ((inertiaGrad g).getD k V3.zero) d) 0 := by
  exact inertia_grad_mv g hg k hk d

theorem inertiaZ_grad (g : AGroup ℝ) (axis : V3 ℝ) (hg : g ≠ []) (k : Nat) (hk : k < g.length) (d : V3 ℝ) :
    HasDerivAt (fun t : ℝ => inertiaZ (move g k (V3.smul t d)) axis)
      (V3.dot ((inertiaZGrad g axis).getD k V3.zero) d) 0 := by
  exact inertiaZ_grad_mv g axis hg k hk d

/-- the switching function of coordNum, with a pair-list tolerance: away from `l = 1` (where it is `0/0`) and from the
    point where the shifted function crosses zero (a kink), `swDeriv` is its derivative (as repaired) -/
theorem sw_deriv (p : SwParams ℝ) (l : ℝ) (hl : 0 < l) (h1 : l ≠ 1) (hen : 2 ≤ p.en) (hed : 2 ≤ p.ed) (htol : p.tol < 1)
    (hpos : 0 < (swRaw p l - p.tol) / (1 - p.tol)) :
    HasDerivAt (swValue p) (swDeriv p l) l := by
  exact sw_deriv_aux p l hl h1 hen hed hpos

/-- one pair of atoms: moving the atom of group 2 along `d` changes the pair's contribution at the rate given by the
    pair gradient -/
theorem coordNum_pair_grad (p : SwParams ℝ) (a b : Atom ℝ) (d : V3 ℝ) (hr0 : p.r0 ≠ 0)
    (hl : 0 < reducedDist2 p a b) (h1 : reducedDist2 p a b ≠ 1) (hen : 2 ≤ p.en) (hed : 2 ≤ p.ed) (htol : p.tol < 1)
    (hpos : 0 < (swRaw p (reducedDist2 p a b) - p.tol) / (1 - p.tol)) :
    HasDerivAt (fun t : ℝ => swValue p (reducedDist2 p a { b with r := V3.add b.r (V3.smul t d) }))
      (V3.dot (coordNumPair p a b) d) 0 := by
  exact coordNum_pair_grad_aux p a b d hl h1 hen hed hpos

/-- the whole variable: the gradient assigned to atom `k` of group 2 is the derivative of the coordination number with
    respect to its position, when every pair it takes part in is away from the two non-smooth points -/
theorem coordNum_grad_group2 (g1 g2 : AGroup ℝ) (p : SwParams ℝ) (hr0 : p.r0 ≠ 0) (hen : 2 ≤ p.en) (hed : 2 ≤ p.ed)
    (htol : p.tol < 1) (k : Nat) (hk : k < g2.length) (d : V3 ℝ)
    (hsmooth : ∀ a ∈ g1, 0 < reducedDist2 p a (g2.getD k ⟨0, V3.zero⟩) ∧ reducedDist2 p a (g2.getD k ⟨0, V3.zero⟩) ≠ 1 ∧
      0 < (swRaw p (reducedDist2 p a (g2.getD k ⟨0, V3.zero⟩)) - p.tol) / (1 - p.tol)) :
    HasDerivAt (fun t : ℝ => coordNum g1 (move g2 k (V3.smul t d)) p)
      (V3.dot ((coordNumGrad g1 g2 p).2.getD k V3.zero) d) 0 := by
  exact coordNum_grad2 g1 g2 p hen hed k hk d hsmooth

/-- distanceInv: the gradient assigned to atom `k` of group 2 is the derivative of the generalised mean of the inverse
    distances -/
theorem distanceInv_grad_group2 (g1 g2 : AGroup ℝ) (n : Nat) (hn : 2 ≤ n) (heven : n % 2 = 0) (h1 : g1 ≠ [])
    (hne : ∀ a ∈ g1, ∀ b ∈ g2, V3.norm2 (V3.sub b.r a.r) ≠ 0) (k : Nat) (hk : k < g2.length) (d : V3 ℝ) :
    HasDerivAt (fun t : ℝ => distanceInv g1 (move g2 k (V3.smul t d)) n)
      (V3.dot ((distanceInvGrad g1 g2 n).2.getD k V3.zero) d) 0 := by
  exact distanceInv_grad2 g1 g2 n hn h1 hne k hk d

end Cv.C01
