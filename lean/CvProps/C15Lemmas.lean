import CvProps.RealInst
/-!
# Helper lemmas for C15 (grid index arithmetic, histogram accumulation)
-/
open Cv

namespace Cv.C15

/-! ## unfolding lemmas -/

@[simp] theorem nxcOf_nil (m : Int) : nxcOf m [] = [] := rfl
@[simp] theorem ntOf_nil (m : Int) : ntOf m [] = m := rfl
@[simp] theorem nxcOf_cons (m n : Int) (ns : List Int) : nxcOf m (n :: ns) = ntOf m ns :: nxcOf m ns := rfl
@[simp] theorem ntOf_cons (m n : Int) (ns : List Int) : ntOf m (n :: ns) = ntOf m ns * n := rfl

@[simp] theorem address_nil_left (m : Int) (ix : List Int) : address m [] ix = 0 := by
  cases ix <;> rfl
@[simp] theorem address_nil_right (m : Int) (nx : List Int) : address m nx [] = 0 := by
  cases nx <;> rfl
@[simp] theorem address_cons (m n i : Int) (ns is : List Int) :
    address m (n :: ns) (i :: is) = i * ntOf m ns + address m ns is := rfl

theorem indexOk_cons (n i : Int) (ns is : List Int) :
    indexOk (n :: ns) (i :: is) = true ↔ 0 ≤ i ∧ i < n ∧ indexOk ns is = true := by
  simp [indexOk, and_assoc]

@[simp] theorem indexOk_nil_nil : indexOk [] [] = true := rfl
@[simp] theorem indexOk_nil_cons (i : Int) (is : List Int) : indexOk [] (i :: is) = false := rfl
@[simp] theorem indexOk_cons_nil (n : Int) (ns : List Int) : indexOk (n :: ns) [] = false := rfl

theorem incrAux_cons (n i : Int) (ns is : List Int) :
    incrAux (n :: ns) (i :: is) =
      if (incrAux ns is).2 then
        (if i + 1 ≥ n then (0 :: (incrAux ns is).1, true) else ((i + 1) :: (incrAux ns is).1, false))
      else (i :: (incrAux ns is).1, false) := rfl

theorem incr_cons (n i : Int) (ns is : List Int) :
    incr (n :: ns) (i :: is) =
      if (incrAux ns is).2 then
        (if i + 1 ≥ n then (n :: (incrAux ns is).1) else ((i + 1) :: (incrAux ns is).1))
      else (i :: (incrAux ns is).1) := rfl

/-! ## indexOk -/

theorem indexOk_length : ∀ (nx ix : List Int), indexOk nx ix = true → ix.length = nx.length
  | [], [], _ => rfl
  | [], _ :: _, h => by simp at h
  | _ :: _, [], h => by simp at h
  | n :: ns, i :: is, h => by
    rw [indexOk_cons] at h
    simp [indexOk_length ns is h.2.2]

theorem indexOk_pos : ∀ (nx ix : List Int), indexOk nx ix = true → ∀ n ∈ nx, 0 < n
  | [], _, _ => by simp
  | _ :: _, [], h => by simp at h
  | n :: ns, i :: is, h => by
    rw [indexOk_cons] at h
    intro m hm
    rcases List.mem_cons.1 hm with rfl | hm
    · omega
    · exact indexOk_pos ns is h.2.2 m hm

theorem indexOk_iff (nx : List Int) : ∀ ix : List Int,
    indexOk nx ix = true ↔ ix.length = nx.length ∧
      ∀ k (h : k < nx.length) (h' : k < ix.length), 0 ≤ ix[k] ∧ ix[k] < nx[k] := by
  induction nx with
  | nil =>
    intro ix
    cases ix with
    | nil => simp
    | cons i is => simp
  | cons n ns ih =>
    intro ix
    cases ix with
    | nil => simp
    | cons i is =>
      rw [indexOk_cons, ih]
      constructor
      · rintro ⟨h0, h1, hl, hk⟩
        refine ⟨by simp [hl], ?_⟩
        intro k h h'
        cases k with
        | zero => exact ⟨h0, h1⟩
        | succ k =>
          simp only [List.getElem_cons_succ]
          exact hk k (by simpa using h) (by simpa using h')
      · rintro ⟨hl, hk⟩
        refine ⟨(hk 0 (by simp) (by simp)).1, (hk 0 (by simp) (by simp)).2, by simpa using hl, ?_⟩
        intro k h h'
        have := hk (k + 1) (by simpa using h) (by simpa using h')
        simpa using this

/-! ## addresses -/

theorem ntOf_mult (m : Int) (nx : List Int) : ntOf m nx = m * ntOf 1 nx := by
  induction nx with
  | nil => simp
  | cons n ns ih => simp [ih, Int.mul_assoc]

theorem address_mult' (m : Int) (nx : List Int) : ∀ ix, address m nx ix = m * address 1 nx ix := by
  induction nx with
  | nil => intro ix; simp
  | cons n ns ih =>
    intro ix
    cases ix with
    | nil => simp
    | cons i is =>
      simp only [address_cons, ih is, ntOf_mult m ns]
      ring

theorem address_range' (m : Int) (hm : 0 < m) (nx : List Int) : ∀ ix, indexOk nx ix = true →
    0 ≤ address m nx ix ∧ address m nx ix + m ≤ ntOf m nx := by
  induction nx with
  | nil =>
    intro ix h
    cases ix with
    | nil => simp
    | cons i is => simp at h
  | cons n ns ih =>
    intro ix h
    cases ix with
    | nil => simp at h
    | cons i is =>
      rw [indexOk_cons] at h
      obtain ⟨h0, h1, h2⟩ := h
      obtain ⟨a0, a1⟩ := ih is h2
      simp only [address_cons, ntOf_cons]
      have ht : 0 ≤ ntOf m ns := by omega
      have h3 : 0 ≤ i * ntOf m ns := Int.mul_nonneg h0 ht
      have h4 : (i + 1) * ntOf m ns ≤ n * ntOf m ns :=
        Int.mul_le_mul_of_nonneg_right (by omega) ht
      constructor
      · omega
      · have : (i + 1) * ntOf m ns = i * ntOf m ns + ntOf m ns := by ring
        have : n * ntOf m ns = ntOf m ns * n := by ring
        omega

theorem address_inj' (m : Int) (hm : 0 < m) (nx : List Int) : ∀ ix jx, indexOk nx ix = true →
    indexOk nx jx = true → address m nx ix = address m nx jx → ix = jx := by
  induction nx with
  | nil =>
    intro ix jx hi hj _
    cases ix with
    | nil =>
      cases jx with
      | nil => rfl
      | cons j js => simp at hj
    | cons i is => simp at hi
  | cons n ns ih =>
    intro ix jx hi hj h
    cases ix with
    | nil => simp at hi
    | cons i is =>
      cases jx with
      | nil => simp at hj
      | cons j js =>
        rw [indexOk_cons] at hi hj
        obtain ⟨-, -, hi2⟩ := hi
        obtain ⟨-, -, hj2⟩ := hj
        obtain ⟨a0, a1⟩ := address_range' m hm ns is hi2
        obtain ⟨b0, b1⟩ := address_range' m hm ns js hj2
        simp only [address_cons] at h
        have ht : 0 ≤ ntOf m ns := by omega
        have hij : i = j := by
          rcases lt_trichotomy i j with hlt | heq | hgt
          · exfalso
            have h4 : (i + 1) * ntOf m ns ≤ j * ntOf m ns :=
              Int.mul_le_mul_of_nonneg_right (by omega) ht
            have : (i + 1) * ntOf m ns = i * ntOf m ns + ntOf m ns := by ring
            omega
          · exact heq
          · exfalso
            have h4 : (j + 1) * ntOf m ns ≤ i * ntOf m ns :=
              Int.mul_le_mul_of_nonneg_right (by omega) ht
            have : (j + 1) * ntOf m ns = j * ntOf m ns + ntOf m ns := by ring
            omega
        subst hij
        have : address m ns is = address m ns js := by omega
        rw [ih is js hi2 hj2 this]

theorem ntOf_pos (nx : List Int) (hpos : ∀ n ∈ nx, 0 < n) : 0 < ntOf 1 nx := by
  induction nx with
  | nil => simp
  | cons n ns ih =>
    simp only [ntOf_cons]
    exact Int.mul_pos (ih (fun k hk => hpos k (List.mem_cons_of_mem _ hk))) (hpos n (by simp))

theorem address_surj' (nx : List Int) (hpos : ∀ n ∈ nx, 0 < n) : ∀ (a : Int), 0 ≤ a → a < ntOf 1 nx →
    ∃ ix, indexOk nx ix = true ∧ address 1 nx ix = a := by
  induction nx with
  | nil =>
    intro a h0 h1
    simp only [ntOf_nil] at h1
    exact ⟨[], rfl, by simp; omega⟩
  | cons n ns ih =>
    intro a h0 h1
    have hpos' : ∀ k ∈ ns, 0 < k := fun k hk => hpos k (List.mem_cons_of_mem _ hk)
    have ht := ntOf_pos ns hpos'
    simp only [ntOf_cons] at h1
    obtain ⟨is, his, ha⟩ := ih hpos' (a % ntOf 1 ns) (Int.emod_nonneg _ (by omega))
      (Int.emod_lt_of_pos _ ht)
    refine ⟨(a / ntOf 1 ns) :: is, ?_, ?_⟩
    · rw [indexOk_cons]
      refine ⟨Int.ediv_nonneg h0 (by omega), ?_, his⟩
      apply Int.ediv_lt_of_lt_mul ht
      rw [Int.mul_comm]; exact h1
    · simp only [address_cons, ha]
      have := Int.emod_add_ediv_mul a (ntOf 1 ns)
      omega

/-! ## zero index -/

theorem indexOk_zeros (nx : List Int) (hpos : ∀ n ∈ nx, 0 < n) :
    indexOk nx (nx.map (fun _ => 0)) = true := by
  induction nx with
  | nil => rfl
  | cons n ns ih =>
    simp only [List.map_cons]
    rw [indexOk_cons]
    exact ⟨le_refl _, hpos n (by simp), ih (fun k hk => hpos k (List.mem_cons_of_mem _ hk))⟩

theorem address_zeros (m : Int) (nx : List Int) : address m nx (nx.map (fun _ => 0)) = 0 := by
  induction nx with
  | nil => simp
  | cons n ns ih => simp only [List.map_cons, address_cons, ih]; simp

/-! ## incr -/

theorem incrAux_spec (ns : List Int) : ∀ is, indexOk ns is = true →
    ((incrAux ns is).2 = false →
      indexOk ns (incrAux ns is).1 = true ∧ address 1 ns (incrAux ns is).1 = address 1 ns is + 1) ∧
    ((incrAux ns is).2 = true →
      (incrAux ns is).1 = ns.map (fun _ => 0) ∧ address 1 ns is + 1 = ntOf 1 ns) := by
  induction ns with
  | nil =>
    intro is h
    cases is with
    | nil => simp [incrAux]
    | cons i is => simp at h
  | cons n ns ih =>
    intro is h
    cases is with
    | nil => simp at h
    | cons i is =>
      have hpos := indexOk_pos _ _ h
      rw [indexOk_cons] at h
      obtain ⟨h0, h1, h2⟩ := h
      obtain ⟨ihf, iht⟩ := ih is h2
      rw [incrAux_cons]
      cases hc : (incrAux ns is).2 with
      | false =>
        obtain ⟨ok, ad⟩ := ihf hc
        simp only [Bool.false_eq_true, if_false, true_implies, false_implies, and_true]
        refine ⟨?_, ?_⟩
        · rw [indexOk_cons]; exact ⟨h0, h1, ok⟩
        · simp only [address_cons, ad]; omega
      | true =>
        obtain ⟨hz, ad⟩ := iht hc
        simp only [if_true]
        by_cases hge : i + 1 ≥ n
        · simp only [hge, if_true, true_implies, Bool.true_eq_false, false_implies, true_and]
          refine ⟨by simp [hz], ?_⟩
          simp only [address_cons, ntOf_cons]
          have hin : i + 1 = n := by omega
          rw [← hin]
          have : ntOf 1 ns * (i + 1) = i * ntOf 1 ns + ntOf 1 ns := by ring
          omega
        · simp only [hge, if_false, true_implies, Bool.false_eq_true, false_implies, and_true]
          refine ⟨?_, ?_⟩
          · rw [indexOk_cons, hz]
            exact ⟨by omega, by omega,
              indexOk_zeros ns (fun k hk => hpos k (List.mem_cons_of_mem _ hk))⟩
          · simp only [address_cons, hz, address_zeros]
            have : (i + 1) * ntOf 1 ns = i * ntOf 1 ns + ntOf 1 ns := by ring
            omega

theorem incr_address' (nx ix : List Int) (hne : nx ≠ []) (h : indexOk nx ix = true) :
    (indexOk nx (incr nx ix) = true ∧ address 1 nx (incr nx ix) = address 1 nx ix + 1) ∨
    (indexOk nx (incr nx ix) = false ∧ address 1 nx ix + 1 = ntOf 1 nx) := by
  cases nx with
  | nil => exact absurd rfl hne
  | cons n ns =>
    cases ix with
    | nil => simp at h
    | cons i is =>
      have hpos := indexOk_pos _ _ h
      rw [indexOk_cons] at h
      obtain ⟨h0, h1, h2⟩ := h
      obtain ⟨ihf, iht⟩ := incrAux_spec ns is h2
      rw [incr_cons]
      cases hc : (incrAux ns is).2 with
      | false =>
        obtain ⟨ok, ad⟩ := ihf hc
        left
        simp only [Bool.false_eq_true, if_false]
        refine ⟨?_, ?_⟩
        · rw [indexOk_cons]; exact ⟨h0, h1, ok⟩
        · simp only [address_cons, ad]; omega
      | true =>
        obtain ⟨hz, ad⟩ := iht hc
        simp only [if_true]
        by_cases hge : i + 1 ≥ n
        · right
          simp only [hge, if_true]
          refine ⟨?_, ?_⟩
          · cases hb : indexOk (n :: ns) (n :: (incrAux ns is).1) with
            | false => rfl
            | true => rw [indexOk_cons] at hb; omega
          · simp only [address_cons, ntOf_cons]
            have hin : i + 1 = n := by omega
            rw [← hin]
            have : ntOf 1 ns * (i + 1) = i * ntOf 1 ns + ntOf 1 ns := by ring
            omega
        · left
          simp only [hge, if_false]
          refine ⟨?_, ?_⟩
          · rw [indexOk_cons, hz]
            exact ⟨by omega, by omega,
              indexOk_zeros ns (fun k hk => hpos k (List.mem_cons_of_mem _ hk))⟩
          · simp only [address_cons, hz, address_zeros]
            have : (i + 1) * ntOf 1 ns = i * ntOf 1 ns + ntOf 1 ns := by ring
            omega

/-! ## enumerate -/

theorem enumerate_invalid (nx : List Int) (fuel : Nat) (ix : List Int) (h : indexOk nx ix = false) :
    enumerate nx fuel ix = [] := by
  cases fuel with
  | zero => rfl
  | succ f => simp [enumerate, h]

theorem enumerate_from (nx : List Int) (hne : nx ≠ []) (N : Nat) (hN : ntOf 1 nx = (N : Int)) :
    ∀ (fuel : Nat) (ix : List Int) (a k : Nat), indexOk nx ix = true → address 1 nx ix = (a : Int) →
      a + k = N → k ≤ fuel →
      (enumerate nx fuel ix).map (address 1 nx) = (List.range' a k).map (fun j => (j : Int)) := by
  intro fuel
  induction fuel with
  | zero =>
    intro ix a k _ _ _ hk
    have : k = 0 := by omega
    subst this
    simp [enumerate]
  | succ f ih =>
    intro ix a k hok had hak hk
    obtain ⟨_, r1⟩ := address_range' 1 Int.one_pos nx ix hok
    have hk1 : 1 ≤ k := by omega
    obtain ⟨k', rfl⟩ : ∃ k', k = k' + 1 := ⟨k - 1, by omega⟩
    simp only [enumerate, hok, if_true, List.map_cons, List.range'_succ, had]
    congr 1
    rcases incr_address' nx ix hne hok with ⟨ok', ad'⟩ | ⟨bad, ad'⟩
    · exact ih (incr nx ix) (a + 1) k' ok' (by rw [ad', had]; push_cast; rfl) (by omega) (by omega)
    · have : k' = 0 := by omega
      subst this
      simp [enumerate_invalid nx f _ bad]

end Cv.C15

namespace Cv.C15

/-! ## scalar helpers -/

theorem absS_real (x : ℝ) : absS x = |x| := by
  unfold absS
  split_ifs with h
  · have h' : x < 0 := by norm_num at h; exact h
    exact (abs_of_neg h').symm
  · have h' : 0 ≤ x := by norm_num at h; exact h
    exact (abs_of_nonneg h').symm

theorem one_lit_real : (1.0 : ℝ) = 1 := by norm_num

/-! ## modify / accAt -/

theorem sum_modify_add (wt : ℝ) : ∀ (d : List ℝ) (k : Nat), k < d.length →
    (d.modify k (· + wt)).sum = d.sum + wt
  | [], k, h => by simp at h
  | x :: d, 0, _ => by simp; ring
  | x :: d, k + 1, h => by
    have := sum_modify_add wt d k (by simpa using h)
    simp [this]; ring

theorem getD_modify_add (wt : ℝ) (d : List ℝ) (k a : Nat) (hk : k < d.length) :
    (d.modify k (· + wt)).getD a 0 = d.getD a 0 + if k = a then wt else 0 := by
  simp only [List.getD_eq_getElem?_getD, List.getElem?_modify]
  by_cases ha : a < d.length
  · rw [List.getElem?_eq_getElem ha]
    by_cases hka : k = a <;> simp [hka]
  · have hka : k ≠ a := by omega
    rw [List.getElem?_eq_none (by omega)]
    simp [hka]

theorem accAt_length (d : List ℝ) (addr : Int) (wt : ℝ) : (accAt d addr wt).length = d.length := by
  unfold accAt
  split_ifs
  · rfl
  · exact List.length_modify _ _ _

theorem accAt_sum (d : List ℝ) (addr : Int) (wt : ℝ) (h0 : 0 ≤ addr) (h1 : addr < d.length) :
    (accAt d addr wt).sum = d.sum + wt := by
  unfold accAt
  rw [if_neg (by omega)]
  exact sum_modify_add wt d addr.toNat (by omega)

theorem accAt_getD (d : List ℝ) (addr : Int) (wt : ℝ) (a : Nat) (h0 : 0 ≤ addr)
    (h1 : addr < d.length) :
    (accAt d addr wt).getD a 0 = d.getD a 0 + if addr = (a : Int) then wt else 0 := by
  unfold accAt
  rw [if_neg (by omega)]
  have := getD_modify_add wt d addr.toNat a (by omega)
  by_cases h : addr = (a : Int)
  · have h' : addr.toNat = a := by omega
    rw [if_pos h]; rw [if_pos h'] at this; exact this
  · have h' : addr.toNat ≠ a := by omega
    rw [if_neg h]; rw [if_neg h'] at this; exact this

/-! ## histAcc -/

theorem histAcc_length (g : GridDef ℝ) (d xs : List ℝ) (wt : ℝ) :
    (histAcc g d xs wt).length = d.length := by
  unfold histAcc
  simp only
  split_ifs
  · exact accAt_length _ _ _
  · rfl

theorem histAcc_sum (g : GridDef ℝ) (d xs : List ℝ) (wt : ℝ)
    (hlen : (d.length : Int) = ntOf 1 g.nx) :
    (histAcc g d xs wt).sum = d.sum + if indexOk g.nx (binsOf g xs) = true then wt else 0 := by
  unfold histAcc
  simp only
  split_ifs with h
  · obtain ⟨r0, r1⟩ := address_range' 1 Int.one_pos g.nx _ h
    exact accAt_sum _ _ _ r0 (by omega)
  · simp

theorem histAcc_getD (g : GridDef ℝ) (d xs : List ℝ) (wt : ℝ) (a : Nat)
    (hlen : (d.length : Int) = ntOf 1 g.nx) :
    (histAcc g d xs wt).getD a 0 = d.getD a 0 +
      if indexOk g.nx (binsOf g xs) = true ∧ address 1 g.nx (binsOf g xs) = (a : Int)
      then wt else 0 := by
  unfold histAcc
  simp only
  split_ifs with h h2 h3
  · obtain ⟨r0, r1⟩ := address_range' 1 Int.one_pos g.nx _ h
    rw [accAt_getD _ _ _ _ r0 (by omega), if_pos h2.2]
  · obtain ⟨r0, r1⟩ := address_range' 1 Int.one_pos g.nx _ h
    rw [accAt_getD _ _ _ _ r0 (by omega), if_neg (fun e => h2 ⟨h, e⟩)]
  · exact absurd h3.1 h
  · simp

theorem histStepScalar_length (g : GridDef ℝ) (d : List ℝ) (e : Bool) (xs : List ℝ) :
    (histStepScalar g d e xs).length = d.length := by
  unfold histStepScalar
  split_ifs
  · exact histAcc_length _ _ _ _
  · rfl

theorem histStepScalar_sum (g : GridDef ℝ) (d : List ℝ) (e : Bool) (xs : List ℝ)
    (hlen : (d.length : Int) = ntOf 1 g.nx) :
    (histStepScalar g d e xs).sum =
      d.sum + if (e && indexOk g.nx (binsOf g xs)) = true then 1 else 0 := by
  unfold histStepScalar
  cases e with
  | false => simp
  | true =>
    simp only [if_true, Bool.true_and]
    rw [histAcc_sum g d xs _ hlen, one_lit_real]

theorem histStepScalar_getD (g : GridDef ℝ) (d : List ℝ) (e : Bool) (xs : List ℝ) (a : Nat)
    (hlen : (d.length : Int) = ntOf 1 g.nx) :
    (histStepScalar g d e xs).getD a 0 = d.getD a 0 +
      if (e && indexOk g.nx (binsOf g xs)) = true ∧ address 1 g.nx (binsOf g xs) = (a : Int)
      then 1 else 0 := by
  unfold histStepScalar
  cases e with
  | false => simp
  | true =>
    simp only [if_true, Bool.true_and]
    rw [histAcc_getD g d xs _ a hlen, one_lit_real]

theorem foldl_histAcc_length (g : GridDef ℝ) (elems : List (List ℝ × ℝ)) : ∀ (d : List ℝ),
    (elems.foldl (fun d e => histAcc g d e.1 e.2) d).length = d.length := by
  induction elems with
  | nil => intro d; rfl
  | cons e es ih => intro d; rw [List.foldl_cons, ih, histAcc_length]

theorem foldl_histAcc_sum (g : GridDef ℝ) (elems : List (List ℝ × ℝ)) : ∀ (d : List ℝ),
    (d.length : Int) = ntOf 1 g.nx →
    (elems.foldl (fun d e => histAcc g d e.1 e.2) d).sum =
      d.sum + ((elems.filter (fun e => indexOk g.nx (binsOf g e.1))).map (·.2)).sum := by
  induction elems with
  | nil => intro d _; simp
  | cons e es ih =>
    intro d hlen
    rw [List.foldl_cons, ih _ (by rw [histAcc_length]; exact hlen), histAcc_sum g d _ _ hlen,
      List.filter_cons]
    split_ifs with h
    · simp; ring
    · simp

end Cv.C15

/-! ## grid files (CvModel/GridIO.lean): token readers over encoded streams -/
namespace Cv.C15.IO
open Cv.GridIO

theorem takeReals_mapf {β : Type} (f : β → ℝ) (l : List β) (n : Nat) (hn : l.length = n) (rest : List (Tok ℝ)) :
    takeReals n (l.map (fun i => Tok.real (f i)) ++ rest) = some (l.map f, rest) := by
  subst hn
  induction l with
  | nil => simp [takeReals]
  | cons x l ih => simp [takeReals, ih]

theorem takeReals_map (l : List ℝ) (n : Nat) (hn : l.length = n) (rest : List (Tok ℝ)) :
    takeReals n (l.map Tok.real ++ rest) = some (l, rest) := by
  have := takeReals_mapf (fun x => x) l n hn rest
  simpa using this

theorem takeInts_map (l : List Int) (n : Nat) (hn : l.length = n) (rest : List (Tok ℝ)) :
    takeInts n (l.map Tok.int ++ rest) = some (l, rest) := by
  subst hn
  induction l with
  | nil => simp [takeInts]
  | cons x l ih => simp [takeInts, ih]

theorem takeReals_short : ∀ (n : Nat) (ts : List (Tok ℝ)), ts.length < n → takeReals n ts = none := by
  intro n
  induction n with
  | zero => intro ts h; omega
  | succ n ih =>
    intro ts h
    cases ts with
    | nil => simp [takeReals]
    | cons t ts =>
      cases t with
      | hash => simp [takeReals]
      | int k => simp [takeReals]
      | real x =>
        simp only [takeReals]
        rw [ih ts (by simpa using h)]
        rfl

theorem readDims_enc (a b : Nat → ℝ) (c d : Nat → Int) (l : List Nat) (n : Nat) (hn : l.length = n)
    (rest : List (Tok ℝ)) :
    readDims n (l.flatMap (fun i => [Tok.hash, Tok.real (a i), Tok.real (b i), Tok.int (c i), Tok.int (d i)]) ++ rest)
      = some (l.map (fun i => (a i, b i, c i, d i != 0)), rest) := by
  subst hn
  induction l with
  | nil => simp [readDims]
  | cons x l ih => simp [readDims, readDim, ih]

theorem block_eq (l : List ℝ) (d : ℝ) (a m : Nat) (h : a + m ≤ l.length) :
    (List.range m).map (fun i => l.getD (a + i) d) = (l.drop a).take m := by
  apply List.ext_getElem
  · simp; omega
  · intro i h1 h2
    simp at h1
    simp [List.getD_eq_getElem?_getD, List.getElem?_eq_getElem (show a + i < l.length by omega)]

theorem blocks_eq (l : List ℝ) (d : ℝ) (mult : Nat) : ∀ (n k : Nat), (k + n) * mult ≤ l.length →
    (List.range' k n).flatMap (fun j => (List.range mult).map (fun m => l.getD (j * mult + m) d))
      = (l.drop (k * mult)).take (n * mult) := by
  intro n
  induction n with
  | zero => intro k _; simp
  | succ n ih =>
    intro k h
    have e1 : (k + 1 + n) * mult = (k + (n + 1)) * mult := by ring
    have e2 : (k + (n + 1)) * mult = k * mult + mult + n * mult := by ring
    rw [List.range'_succ, List.flatMap_cons, ih (k + 1) (by omega), block_eq l d (k * mult) mult (by omega)]
    have e3 : (n + 1) * mult = mult + n * mult := by ring
    rw [e3, List.take_add, List.drop_drop]
    congr 3
    ring

theorem readBody_enc (nd mult : Nat) (coords : List Int → Nat → ℝ) (val : Nat → ℝ) :
    ∀ (n : Nat) (pts : List (List Int)) (k : Nat), n ≤ pts.length →
      readBody nd mult n ((pts.zipIdx k).flatMap (fun p =>
        (List.range nd).map (fun i => Tok.real (coords p.1 i)) ++
        (List.range mult).map (fun m => Tok.real (val (p.2 * mult + m)))))
      = some ((List.range' k n).flatMap (fun j => (List.range mult).map (fun m => val (j * mult + m)))) := by
  intro n
  induction n with
  | zero => intro pts k _; simp [readBody]
  | succ n ih =>
    intro pts k h
    cases pts with
    | nil => simp at h
    | cons p pts =>
      rw [List.zipIdx_cons, List.flatMap_cons, List.append_assoc, readBody]
      rw [takeReals_mapf _ _ nd (by simp)]
      simp only
      rw [takeReals_mapf _ _ mult (by simp)]
      simp only
      rw [ih pts (k + 1) (by simpa using h)]
      simp [List.range'_succ]

theorem getD_range {β : Type} (l : List β) (d : β) (n : Nat) (h : l.length = n) :
    (List.range n).map (fun i => l.getD i d) = l := by
  subst h
  apply List.ext_getElem
  · simp
  · intro i h1 h2
    simp at h1
    simp [List.getD_eq_getElem?_getD, List.getElem?_eq_getElem h1]

end Cv.C15.IO
