import CvProps.RealInst
/-! Helper lemmas for C03 (filled by the proofs). -/
open Cv
namespace Cv.C03L

/-! ### list helpers -/

theorem map_eq_map_of_zip {α β γ : Type} (f : α → γ) (g : β → γ) :
    ∀ (l1 : List α) (l2 : List β), l1.length = l2.length → (∀ pr ∈ l1.zip l2, f pr.1 = g pr.2) →
      l1.map f = l2.map g
  | [], [], _, _ => rfl
  | [], _ :: _, h, _ => by simp at h
  | _ :: _, [], h, _ => by simp at h
  | a :: l1, b :: l2, h, hz => by
    have h1 : f a = g b := hz (a, b) (by simp)
    have h2 := map_eq_map_of_zip f g l1 l2 (by simpa using h) (fun pr hpr => hz pr (by simp [hpr]))
    simp [h1, h2]

theorem zip_fst_eq {β γ : Type} :
    ∀ (l1 : List (String × β)) (l2 : List (String × γ)), l1.map (·.1) = l2.map (·.1) →
      ∀ pr ∈ l1.zip l2, pr.1.1 = pr.2.1
  | [], _, _, pr, h => by simp at h
  | _ :: _, [], _, pr, h => by simp at h
  | a :: l1, b :: l2, hm, pr, h => by
    simp only [List.map_cons, List.cons.injEq] at hm
    simp only [List.zip_cons_cons, List.mem_cons] at h
    rcases h with rfl | h
    · exact hm.1
    · exact zip_fst_eq l1 l2 hm.2 pr h

theorem find_of_mem_nodup {β : Type} :
    ∀ (l : List (String × β)), (l.map (·.1)).Nodup → ∀ x ∈ l, l.find? (·.1 == x.1) = some x
  | [], _, x, hx => by simp at hx
  | a :: l, hnd, x, hx => by
    simp only [List.map_cons, List.nodup_cons] at hnd
    simp only [List.mem_cons] at hx
    rcases hx with rfl | hx
    · simp
    · have hne : a.1 ≠ x.1 := by
        intro he
        exact hnd.1 (he ▸ List.mem_map_of_mem hx)
      rw [List.find?_cons_of_neg (by simpa using hne)]
      exact find_of_mem_nodup l hnd.2 x hx

theorem length_eq_of_map_fst {β γ : Type} (l1 : List (String × β)) (l2 : List (String × γ))
    (h : l1.map (·.1) = l2.map (·.1)) : l1.length = l2.length := by
  simpa using congrArg List.length h

/-! ### `modStep` in pieces -/

/-- the result of one bias at one step: new bias, energy, scaled forces -/
noncomputable def updOne (m : Sys ℝ) (c : Clock) (cvs : List (CvSt ℝ)) (nb : String × Bias ℝ) :
    String × Bias ℝ × ℝ × List (Nat × ℝ) :=
  let n := tsfOf m nb.1
  if awake c n then
    let r := biasUpdate m c cvs nb.2
    (nb.1, (r.1, r.2.1, r.2.2.map fun (kv : Nat × ℝ) => (kv.1, (n : ℝ) * kv.2)))
  else (nb.1, (nb.2, 0.0, []))

/-- the per-bias results of one step -/
noncomputable def updOf (m : Sys ℝ) (c : Clock) (cvs : List (CvSt ℝ)) : List (String × Bias ℝ × ℝ × List (Nat × ℝ)) :=
  m.biases.map (updOne m c cvs)

noncomputable def fbOf (upd : List (String × Bias ℝ × ℝ × List (Nat × ℝ))) : List (Nat × ℝ) :=
  upd.foldl (fun acc x => x.2.2.2.foldl (fun a (kv : Nat × ℝ) => addAssoc a kv.1 kv.2) acc) []

noncomputable def midCvs (cvs : List (CvSt ℝ)) (fb : List (Nat × ℝ)) : List (CvSt ℝ) :=
  (List.range cvs.length).zip cvs |>.map fun (iv : Nat × CvSt ℝ) => { iv.2 with f := lookupF fb iv.1 }

noncomputable def atomFOf (cvs : List (CvSt ℝ)) (fb : List (Nat × ℝ)) : List (Nat × ℝ) :=
  (midCvs cvs fb).foldl (fun acc v => addAssoc acc v.atom v.f) []

def endCv (v : CvSt ℝ) : CvSt ℝ := if v.subtract then { v with fOld := v.f } else v

noncomputable def finCvs (cvs : List (CvSt ℝ)) (fb : List (Nat × ℝ)) : List (CvSt ℝ) := (midCvs cvs fb).map endCv

noncomputable def finish (m : Sys ℝ) (c : Clock) (cvs : List (CvSt ℝ)) (upd : List (String × Bias ℝ × ℝ × List (Nat × ℝ))) :
    Sys ℝ × StepOut ℝ :=
  ({ m with clock := c, cvs := finCvs cvs (fbOf upd), biases := upd.map fun x => (x.1, x.2.1),
            lastApplied := atomFOf cvs (fbOf upd) },
   { energy := sumL (upd.map fun x => if x.2.1.applies then x.2.2.1 else 0.0), atomF := atomFOf cvs (fbOf upd) })

theorem modStep_eq (m : Sys ℝ) (i : StepIn ℝ) :
    modStep m i = finish m (m.clock.tick i.cont) (m.cvs.map (cvUpdate m (m.clock.tick i.cont) i))
      (updOf m (m.clock.tick i.cont) (m.cvs.map (cvUpdate m (m.clock.tick i.cont) i))) := rfl

/-! ### two clocks that every consumer sees alike -/

structure ClockEq (c c' : Clock) : Prop where
  it : c.it = c'.it
  cont : c.cont = c'.cont
  pos : 0 < c.stepRelative
  pos' : 0 < c'.stepRelative

theorem ClockEq.gt {c c' : Clock} (h : ClockEq c c') : (c.stepRelative > 0) = (c'.stepRelative > 0) := by
  simp [h.pos, h.pos']
theorem ClockEq.eq0 {c c' : Clock} (h : ClockEq c c') : (c.stepRelative = 0) = (c'.stepRelative = 0) := by
  have := h.pos; have := h.pos'
  simp only [eq_iff_iff]; constructor <;> intro <;> omega

theorem canAccumulate_congr {c c' : Clock} (h : ClockEq c c') (z : Bool) : canAccumulate c z = canAccumulate c' z := by
  simp only [canAccumulate, h.gt, h.cont]

theorem awake_congr {c c' : Clock} (h : ClockEq c c') (n : Int) : awake c n = awake c' n := by
  simp only [awake, h.it]

theorem centersMovingUpdate_congr {c c' : Clock} (h : ClockEq c c') (p : RParams ℝ) (s : RState ℝ) :
    centersMovingUpdate p c s = centersMovingUpdate p c' s := by
  simp only [centersMovingUpdate, h.gt, h.eq0, h.cont, h.it]

theorem kMovingUpdate_congr {c c' : Clock} (h : ClockEq c c') (p : RParams ℝ) (s : RState ℝ) (xs : List ℝ) :
    kMovingUpdate p c s xs = kMovingUpdate p c' s xs := by
  simp only [kMovingUpdate, h.eq0, h.cont, h.it]

theorem restraintStep_congr {c c' : Clock} (h : ClockEq c c') (p : RParams ℝ) (s : RState ℝ) (xs : List ℝ) :
    restraintStep p c s xs = restraintStep p c' s xs := by
  simp only [restraintStep, centersMovingUpdate_congr h, kMovingUpdate_congr h, h.gt, h.it]

theorem metaStep_congr {c c' : Clock} (h : ClockEq c c') (p : MetaParams ℝ) (s : MetaState ℝ) (xs : List ℝ) :
    metaStep p c s xs = metaStep p c' s xs := by
  have hd : depositNow p c = depositNow p c' := by simp only [depositNow, canAccumulate_congr h, h.it]
  unfold metaStep
  rw [hd, h.it]

theorem biasUpdate_congr {c c' : Clock} (h : ClockEq c c') (m m' : Sys ℝ) (htf : m.tfSame = m'.tfSame)
    (cvs : List (CvSt ℝ)) (b : Bias ℝ) : biasUpdate m c cvs b = biasUpdate m' c' cvs b := by
  cases b <;> simp only [biasUpdate, canAccumulate_congr h, h.gt, htf, restraintStep_congr h, metaStep_congr h]

theorem updOf_congr {c c' : Clock} (h : ClockEq c c') (m m' : Sys ℝ) (htf : m.tfSame = m'.tfSame)
    (htsf : m.tsf = m'.tsf) (hb : m.biases = m'.biases) (cvs : List (CvSt ℝ)) :
    updOf m c cvs = updOf m' c' cvs := by
  unfold updOf updOne tsfOf
  rw [hb, htsf]
  refine List.map_congr_left fun nb _ => ?_
  simp only [awake_congr h, biasUpdate_congr h m m' htf]

theorem cvUpdate_congr {c c' : Clock} (h : ClockEq c c') (a b : Sys ℝ) (i : StepIn ℝ)
    (htf : a.tfSame = b.tfSame) (hl : a.tfLoop = b.tfLoop) (hap : a.lastApplied = b.lastApplied)
    (va vb : CvSt ℝ) (hv : va = { vb with ft := va.ft }) (hft : va.tfCalc = true ∨ va.ft = vb.ft) :
    cvUpdate a c i va = cvUpdate b c' i vb := by
  obtain ⟨atom, per, wrapC, width, subtract, tfCalc, x, ft, fOld, f⟩ := va
  obtain ⟨atom', per', wrapC', width', subtract', tfCalc', x', ft', fOld', f'⟩ := vb
  simp only [CvSt.mk.injEq] at hv
  obtain ⟨rfl, rfl, rfl, rfl, rfl, rfl, rfl, -, rfl, rfl⟩ := hv
  simp only at hft
  have hp := h.pos; have hp' := h.pos'
  rcases hft with rfl | rfl
  · simp [cvUpdate, htf, hl, hap, hp, hp']
  · simp [cvUpdate, htf, hl, hap, hp, hp']

theorem cvs_map_congr {c c' : Clock} (h : ClockEq c c') (a b : Sys ℝ) (i : StepIn ℝ)
    (htf : a.tfSame = b.tfSame) (hl : a.tfLoop = b.tfLoop) (hap : a.lastApplied = b.lastApplied)
    (hlen : a.cvs.length = b.cvs.length)
    (hcvs : ∀ (k : Nat) (va vb : CvSt ℝ), a.cvs[k]? = some va → b.cvs[k]? = some vb →
        va = { vb with ft := va.ft } ∧ (va.tfCalc = true ∨ va.ft = vb.ft)) :
    a.cvs.map (cvUpdate a c i) = b.cvs.map (cvUpdate b c' i) := by
  apply List.ext_getElem?
  intro k
  simp only [List.getElem?_map]
  by_cases hk : k < a.cvs.length
  · have hk' : k < b.cvs.length := hlen ▸ hk
    have ha : a.cvs[k]? = some a.cvs[k] := List.getElem?_eq_getElem hk
    have hb : b.cvs[k]? = some b.cvs[k] := List.getElem?_eq_getElem hk'
    obtain ⟨h1, h2⟩ := hcvs k _ _ ha hb
    rw [ha, hb]
    simp only [Option.map_some]
    rw [cvUpdate_congr h a b i htf hl hap _ _ h1 h2]
  · have hk' : ¬ k < b.cvs.length := hlen ▸ hk
    rw [List.getElem?_eq_none (by omega), List.getElem?_eq_none (by omega)]; rfl

theorem tick_running (c : Clock) (h : c.first = false) :
    c.tick false = { c with it := c.it + 1, cont := false } := by
  simp [Clock.tick, h]

theorem clockEq_tick (c c' : Clock) (hf : c.first = false) (hf' : c'.first = false) (hit : c.it = c'.it)
    (hr : 0 ≤ c.stepRelative) (hr' : 0 ≤ c'.stepRelative) : ClockEq (c.tick false) (c'.tick false) := by
  rw [tick_running c hf, tick_running c' hf']
  simp only [Clock.stepRelative] at hr hr'
  constructor <;> simp only [Clock.stepRelative] <;> omega

/-! ### re-evaluating a step from the loaded state: one bias -/

theorem biasingForce_congr (p : AbfParams ℝ) (s s' : AbfState ℝ) (h1 : s'.samples = s.samples) (h2 : s'.grad = s.grad)
    (bin : List Int) : biasingForce p s' bin = biasingForce p s bin := by
  simp only [biasingForce, gridAverage, h1, h2]

theorem abfEnergy1D_congr (p : AbfParams ℝ) (s s' : AbfState ℝ) (h1 : s'.samples = s.samples) (h2 : s'.grad = s.grad)
    (x : ℝ) : abfEnergy1D p s' x = abfEnergy1D p s x := by
  simp only [abfEnergy1D, h1, h2]

/-- the part of `abfStep` after the sample has been recorded -/
noncomputable def abfFrom (p : AbfParams ℝ) (s1 : AbfState ℝ) (xs : List ℝ) : AbfState ℝ × List ℝ :=
  let bin := binsOf p.g xs
  let force := if p.applyBias && indexOk p.g.nx bin then biasingForce p s1 bin
               else List.replicate (nvars p) 0.0
  ({ s1 with forceBin := bin, lastForce := force }, force)

theorem abfStep_eq (p : AbfParams ℝ) (s : AbfState ℝ) (inp : AbfIn ℝ) :
    ∃ s1, abfStep p s inp = abfFrom p s1 inp.xs := ⟨_, rfl⟩

theorem abfStep_none (p : AbfParams ℝ) (s : AbfState ℝ) (inp : AbfIn ℝ) (h : abfEvent p s inp = none) :
    abfStep p s inp = abfFrom p s inp.xs := by
  simp only [abfStep, abfFrom, h]

theorem abfFrom_loaded (p : AbfParams ℝ) (s1 s0 : AbfState ℝ) (xs : List ℝ) :
    abfFrom p { s0 with samples := (abfFrom p s1 xs).1.samples, grad := (abfFrom p s1 xs).1.grad } xs =
      abfFrom p s1 xs := by
  have h := biasingForce_congr p s1 { s0 with samples := s1.samples, grad := s1.grad } rfl rfl (binsOf p.g xs)
  simp only [abfFrom, h]

/-- an ABF state restored from the counts and gradient sums written after a step, evaluated again at the same
    position on a step that records nothing, is the state after that step, with the same force -/
theorem abfStep_loaded (p : AbfParams ℝ) (s s0 : AbfState ℝ) (inp inp' : AbfIn ℝ)
    (hx : inp'.xs = inp.xs) (he : inp'.elig = false) :
    abfStep p { s0 with samples := (abfStep p s inp).1.samples, grad := (abfStep p s inp).1.grad } inp' =
      abfStep p s inp := by
  have hev : ∀ t, abfEvent p t inp' = none := by intro t; simp [abfEvent, he]
  obtain ⟨s1, h1⟩ := abfStep_eq p s inp
  rw [abfStep_none p _ inp' (hev _), hx, h1]
  exact abfFrom_loaded p _ s0 inp.xs

/-- a variable without the force fields -/
def core (v : CvSt ℝ) : CvSt ℝ := { v with ft := 0, fOld := 0, f := 0 }

theorem getCvs_map_core (cvs : List (CvSt ℝ)) (idx : List Nat) :
    (getCvs cvs idx).map core = getCvs (cvs.map core) idx := by
  unfold getCvs
  induction idx with
  | nil => rfl
  | cons k r ih =>
    simp only [List.filterMap_cons, List.getElem?_map]
    cases cvs[k]? <;> simp [ih]

theorem map_x_core (vs : List (CvSt ℝ)) : vs.map (·.x) = (vs.map core).map (·.x) := by
  simp [core, Function.comp_def]

theorem harmEnergy_core (vs : List (CvSt ℝ)) (k : ℝ) (cs : List ℝ) :
    harmEnergy vs k cs = harmEnergy (vs.map core) k cs := by
  simp only [harmEnergy, List.zipWith_map_left, core]

theorem harmForces_core (vs : List (CvSt ℝ)) (k : ℝ) (cs : List ℝ) :
    harmForces vs k cs = harmForces (vs.map core) k cs := by
  simp only [harmForces, List.zipWith_map_left, core]

section
variable (P L : Sys ℝ) (cP cL : Clock) (cvsP cvsL : List (CvSt ℝ))

theorem getCvs_x_eq (hcore : cvsL.map core = cvsP.map core) (idx : List Nat) :
    (getCvs cvsL idx).map (·.x) = (getCvs cvsP idx).map (·.x) := by
  rw [map_x_core, map_x_core (getCvs cvsP idx), getCvs_map_core, getCvs_map_core, hcore]

theorem getCvs_len_eq (hcore : cvsL.map core = cvsP.map core) (idx : List Nat) :
    (getCvs cvsL idx).length = (getCvs cvsP idx).length := by
  simpa using congrArg List.length (getCvs_x_eq cvsP cvsL hcore idx)

theorem reload_hist (idx : List Nat) (g : GridDef ℝ) (data d0 : List ℝ) (hrel : cL.stepRelative = 0) :
    biasUpdate L cL cvsL (loadBias (.hist idx g false d0) (biasUpdate P cP cvsP (.hist idx g false data)).1) =
      biasUpdate P cP cvsP (.hist idx g false data) := by
  simp [biasUpdate, loadBias, histStepScalar, canAccumulate, hrel]

theorem reload_harm (hcore : cvsL.map core = cvsP.map core) (idx : List Nat) (k : ℝ) (cs : List ℝ) :
    biasUpdate L cL cvsL (loadBias (.harm idx k cs) (biasUpdate P cP cvsP (.harm idx k cs)).1) =
      biasUpdate P cP cvsP (.harm idx k cs) := by
  simp only [biasUpdate, loadBias]
  rw [harmEnergy_core, harmForces_core, harmEnergy_core (getCvs cvsP idx), harmForces_core (getCvs cvsP idx),
    getCvs_map_core, getCvs_map_core, hcore]

theorem reload_abf (hcore : cvsL.map core = cvsP.map core) (idx : List Nat) (p : AbfParams ℝ) (s s0 : AbfState ℝ)
    (hrel : cL.stepRelative = 0) (hz : p.stepZeroData = false) :
    biasUpdate L cL cvsL (loadBias (.abf idx p s0) (biasUpdate P cP cvsP (.abf idx p s)).1) =
      biasUpdate P cP cvsP (.abf idx p s) := by
  simp only [biasUpdate, loadBias]
  rw [getCvs_x_eq cvsP cvsL hcore idx, getCvs_len_eq cvsP cvsL hcore idx]
  have he : canAccumulate cL p.stepZeroData = false := by simp [canAccumulate, hrel, hz]
  rw [abfStep_loaded p s s0
    ⟨(getCvs cvsP idx).map (·.x), (getCvs cvsP idx).map (·.ft), canAccumulate cP p.stepZeroData,
      decide (cP.stepRelative > 0) || P.tfSame⟩
    ⟨(getCvs cvsP idx).map (·.x), (getCvs cvsL idx).map (·.ft), canAccumulate cL p.stepZeroData,
      decide (cL.stepRelative > 0) || L.tfSame⟩ rfl he]
end

/-- copy of `C03.Compatible` (stated here so that the lemmas below can use it) -/
def Compat : Bias ℝ → Bias ℝ → Prop
  | .hist i g z _, .hist i' g' z' _ => i = i' ∧ g = g' ∧ z = z'
  | .abf i p _, .abf i' p' _ => i = i' ∧ p = p'
  | .harm i k c, .harm i' k' c' => i = i' ∧ k = k' ∧ c = c'
  | .restr i p _, .restr i' p' _ => i = i' ∧ p' = { p with firstStep := p'.firstStep }
  | _, _ => False

/-- histogram, harmonic or ABF, not asking for step-0 data -/
def SimpleBias (b : Bias ℝ) : Prop :=
  ((∃ i g z d, b = .hist i g z d) ∨ (∃ i k c, b = .harm i k c) ∨ (∃ i p st, b = .abf i p st)) ∧
  (∀ i g z d, b = .hist i g z d → z = false) ∧
  (∀ i p st, b = .abf i p st → p.stepZeroData = false)

theorem reload_bias (P L : Sys ℝ) (cP cL : Clock) (cvsP cvsL : List (CvSt ℝ))
    (hcore : cvsL.map core = cvsP.map core) (hrel : cL.stepRelative = 0) (bp bf : Bias ℝ)
    (hs : SimpleBias bp) (hcompat : Compat bf (biasUpdate P cP cvsP bp).1) :
    biasUpdate L cL cvsL (loadBias bf (biasUpdate P cP cvsP bp).1) = biasUpdate P cP cvsP bp := by
  obtain ⟨hk, hz1, hz2⟩ := hs
  rcases hk with ⟨i, g, z, d, rfl⟩ | ⟨i, k, c, rfl⟩ | ⟨i, p, st, rfl⟩
  · obtain rfl := hz1 _ _ _ _ rfl
    cases bf <;> simp only [biasUpdate, Compat] at hcompat
    obtain ⟨rfl, rfl, rfl⟩ := hcompat
    exact reload_hist P L cP cL cvsP cvsL _ _ _ _ hrel
  · cases bf <;> simp only [biasUpdate, Compat] at hcompat
    obtain ⟨rfl, rfl, rfl⟩ := hcompat
    exact reload_harm P L cP cL cvsP cvsL hcore _ _ _
  · have hz := hz2 _ _ _ rfl
    cases bf <;> simp only [biasUpdate, Compat] at hcompat
    obtain ⟨rfl, rfl⟩ := hcompat
    exact reload_abf P L cP cL cvsP cvsL hcore _ _ _ _ hrel hz

theorem awake_one (c : Clock) : awake c 1 = true := by simp [awake]

theorem updOne_awake (m : Sys ℝ) (c : Clock) (cvs : List (CvSt ℝ)) (nb : String × Bias ℝ) (h : tsfOf m nb.1 = 1) :
    updOne m c cvs nb = (nb.1, ((biasUpdate m c cvs nb.2).1, (biasUpdate m c cvs nb.2).2.1,
      (biasUpdate m c cvs nb.2).2.2.map fun (kv : Nat × ℝ) => (kv.1, ((1 : Int) : ℝ) * kv.2))) := by
  simp only [updOne, h, awake_one, if_true]

theorem updOne_fst (m : Sys ℝ) (c : Clock) (cvs : List (CvSt ℝ)) (nb : String × Bias ℝ) :
    (updOne m c cvs nb).1 = nb.1 := by
  simp only [updOne]; split <;> rfl

/-- every bias of the loaded instance, updated at the repeated step, gives what the saved run had -/
theorem upd_reload (P fresh S : Sys ℝ) (cP cL : Clock) (cvsP cvsL : List (CvSt ℝ))
    (hSb : S.biases = (updOf P cP cvsP).map fun x => (x.1, x.2.1))
    (htsf : fresh.tsf = P.tsf)
    (hcore : cvsL.map core = cvsP.map core) (hrel : cL.stepRelative = 0)
    (hkind : ∀ nb ∈ P.biases, SimpleBias nb.2) (htsf1 : ∀ nb ∈ P.biases, tsfOf P nb.1 = 1)
    (hnames : fresh.biases.map (·.1) = S.biases.map (·.1)) (hnd : (S.biases.map (·.1)).Nodup)
    (hcompat : ∀ pr ∈ fresh.biases.zip S.biases, Compat pr.1.2 pr.2.2) :
    updOf (sysLoad fresh S) cL cvsL = updOf P cP cvsP := by
  let h : String × Bias ℝ → String × Bias ℝ := fun nb => ((updOne P cP cvsP nb).1, (updOne P cP cvsP nb).2.1)
  have hS : S.biases = P.biases.map h := by rw [hSb]; simp only [updOf, List.map_map]; rfl
  have hnames' : fresh.biases.map (·.1) = P.biases.map (·.1) := by
    rw [hnames, hS, List.map_map]
    refine List.map_congr_left fun nb _ => ?_
    simp only [Function.comp, h, updOne_fst]
  have hlen : fresh.biases.length = P.biases.length := length_eq_of_map_fst _ _ hnames'
  obtain ⟨F, hF, hLb⟩ : ∃ F : String × Bias ℝ → String × Bias ℝ,
      (∀ nb sb, S.biases.find? (·.1 == nb.1) = some sb → F nb = (nb.1, loadBias nb.2 sb.2)) ∧
      (sysLoad fresh S).biases = fresh.biases.map F :=
    ⟨_, fun nb sb h => by simp only [h], rfl⟩
  have hLt : (sysLoad fresh S).tsf = fresh.tsf := rfl
  generalize sysLoad fresh S = L at hLb hLt ⊢
  simp only [updOf, hLb, List.map_map]
  refine map_eq_map_of_zip _ _ _ _ hlen ?_
  intro pr hpr
  have hname : pr.1.1 = pr.2.1 := zip_fst_eq _ _ hnames' pr hpr
  have hmemP : pr.2 ∈ P.biases := (List.of_mem_zip hpr).2
  have h1 := htsf1 pr.2 hmemP
  have hu := updOne_awake P cP cvsP pr.2 h1
  have hh : h pr.2 = (pr.2.1, (biasUpdate P cP cvsP pr.2.2).1) := by simp only [h, hu]
  have hmemS : h pr.2 ∈ S.biases := by rw [hS]; exact List.mem_map_of_mem hmemP
  have hzip : (pr.1, h pr.2) ∈ fresh.biases.zip S.biases := by
    rw [hS, List.zip_map_right]
    exact List.mem_map.2 ⟨pr, hpr, rfl⟩
  have hfind : S.biases.find? (·.1 == pr.1.1) = some (h pr.2) := by
    have := find_of_mem_nodup S.biases hnd (h pr.2) hmemS
    rw [hh] at this ⊢
    rw [hname]; exact this
  have hc := hcompat _ hzip
  simp only [hh] at hc
  simp only [Function.comp, hF _ _ hfind, hh]
  have ht : tsfOf L pr.1.1 = 1 := by
    rw [← h1, hname]; simp only [tsfOf, hLt, htsf]
  rw [hu, updOne_awake L cL cvsL (pr.1.1, loadBias pr.1.2 (biasUpdate P cP cvsP pr.2.2).1) ht]
  simp only [hname]
  rw [reload_bias P L cP cL cvsP cvsL hcore hrel pr.2.2 pr.1.2 (hkind _ hmemP) hc]

/-! ### the variables at the end of a step -/

theorem midCvs_getElem? (cvs : List (CvSt ℝ)) (fb : List (Nat × ℝ)) (k : Nat) :
    (midCvs cvs fb)[k]? = cvs[k]?.map fun v => { v with f := lookupF fb k } := by
  unfold midCvs
  rw [List.getElem?_map]
  by_cases hk : k < cvs.length
  · have h1 : ((List.range cvs.length).zip cvs)[k]? = some (k, cvs[k]) := by
      rw [List.getElem?_eq_getElem (by simp [hk])]
      simp
    rw [h1, List.getElem?_eq_getElem hk]; rfl
  · rw [List.getElem?_eq_none (by simp; omega), List.getElem?_eq_none (by omega)]; rfl

theorem finCvs_getElem? (cvs : List (CvSt ℝ)) (fb : List (Nat × ℝ)) (k : Nat) :
    (finCvs cvs fb)[k]? = cvs[k]?.map fun v => endCv { v with f := lookupF fb k } := by
  unfold finCvs
  rw [List.getElem?_map, midCvs_getElem?, Option.map_map]; rfl

theorem midCvs_length (cvs : List (CvSt ℝ)) (fb : List (Nat × ℝ)) : (midCvs cvs fb).length = cvs.length := by
  simp [midCvs]

theorem finCvs_length (cvs : List (CvSt ℝ)) (fb : List (Nat × ℝ)) : (finCvs cvs fb).length = cvs.length := by
  simp [finCvs, midCvs_length]

theorem atomFOf_core (cvs cvs' : List (CvSt ℝ)) (h : cvs'.map core = cvs.map core) (fb : List (Nat × ℝ)) :
    atomFOf cvs' fb = atomFOf cvs fb := by
  have key : ∀ cs : List (CvSt ℝ), atomFOf cs fb =
      (((List.range (cs.map core).length).zip ((cs.map core).map (·.atom))).map
        fun (ia : Nat × Nat) => (ia.2, lookupF fb ia.1)).foldl (fun acc (q : Nat × ℝ) => addAssoc acc q.1 q.2) [] := by
    intro cs
    unfold atomFOf midCvs
    rw [List.map_map, List.zip_map_right, List.foldl_map, List.foldl_map, List.foldl_map, List.length_map]
    rfl
  rw [key, key, h]

/-- same configuration of a variable -/
def StaticEq (v w : CvSt ℝ) : Prop :=
  v.atom = w.atom ∧ v.per = w.per ∧ v.wrapC = w.wrapC ∧ v.width = w.width ∧ v.subtract = w.subtract ∧
    v.tfCalc = w.tfCalc

theorem fresh_static (P : Sys ℝ) (cP : Clock) (i : StepIn ℝ) (vp vf : CvSt ℝ) (F : ℝ)
    (h : vf = { endCv { cvUpdate P cP i vp with f := F } with x := vf.x, ft := 0, fOld := 0, f := 0 }) :
    StaticEq vf vp ∧ vf.ft = 0 ∧ vf.fOld = 0 := by
  rw [h]
  unfold StaticEq endCv
  split <;> simp [cvUpdate]

theorem core_cvUpdate_eq (P L : Sys ℝ) (cP cL : Clock) (i : StepIn ℝ) (vp vf : CvSt ℝ) (h : StaticEq vf vp) :
    core (cvUpdate L cL i vf) = core (cvUpdate P cP i vp) := by
  obtain ⟨atom, per, wrapC, width, subtract, tfCalc, x, ft, fOld, f⟩ := vp
  obtain ⟨atom', per', wrapC', width', subtract', tfCalc', x', ft', fOld', f'⟩ := vf
  obtain ⟨h1, h2, h3, h4, h5, h6⟩ := h
  simp only at h1 h2 h3 h4 h5 h6
  subst h1 h2 h3 h4 h5 h6
  simp [core, cvUpdate]

theorem cv_reload (P L : Sys ℝ) (cP cL : Clock) (i : StepIn ℝ) (vp vf : CvSt ℝ) (F : ℝ)
    (hposP : 0 < cP.stepRelative) (hrelL : cL.stepRelative = 0)
    (htfS : L.tfSame = P.tfSame) (htfL : L.tfLoop = P.tfLoop) (hLap : L.lastApplied = [])
    (htidy1 : vp.tfCalc = false → vp.ft = 0) (htidy2 : vp.subtract = false → vp.fOld = 0)
    (hst : StaticEq vf vp) (hft : vf.ft = 0) (hfo : vf.fOld = 0) :
    endCv { cvUpdate P cP i vp with f := F } =
        { endCv { cvUpdate L cL i vf with f := F } with ft := (endCv { cvUpdate P cP i vp with f := F }).ft } ∧
      ((endCv { cvUpdate P cP i vp with f := F }).tfCalc = true ∨
        (endCv { cvUpdate P cP i vp with f := F }).ft = (endCv { cvUpdate L cL i vf with f := F }).ft) := by
  obtain ⟨atom, per, wrapC, width, subtract, tfCalc, x, ft, fOld, f⟩ := vp
  obtain ⟨atom', per', wrapC', width', subtract', tfCalc', x', ft', fOld', f'⟩ := vf
  obtain ⟨h1, h2, h3, h4, h5, h6⟩ := hst
  simp only at h1 h2 h3 h4 h5 h6 hft hfo htidy1 htidy2
  subst h1 h2 h3 h4 h5 h6 hft hfo
  cases subtract' <;> cases tfCalc' <;> simp [endCv, cvUpdate, htfS, htfL, hLap, hposP, hrelL] at htidy1 htidy2 ⊢
  · exact ⟨htidy2, htidy1⟩
  · exact htidy2
  · subst htidy1; norm_num

/-! ### the stop step, re-evaluated from the loaded state -/

/-- `modStep` with the clock of the step given -/
noncomputable def stepAt (m : Sys ℝ) (c : Clock) (i : StepIn ℝ) : Sys ℝ × StepOut ℝ :=
  finish m c (m.cvs.map (cvUpdate m c i)) (updOf m c (m.cvs.map (cvUpdate m c i)))

theorem modStep_stepAt (m : Sys ℝ) (i : StepIn ℝ) : modStep m i = stepAt m (m.clock.tick i.cont) i := rfl

theorem stepAt_reload (P fresh : Sys ℝ) (i : StepIn ℝ) (cP cL : Clock)
    (hposP : 0 < cP.stepRelative) (hrelL : cL.stepRelative = 0)
    (hkind : ∀ nb ∈ P.biases, SimpleBias nb.2) (htsf1 : ∀ nb ∈ P.biases, tsfOf P nb.1 = 1)
    (htidy : ∀ v ∈ P.cvs, (v.tfCalc = false → v.ft = 0) ∧ (v.subtract = false → v.fOld = 0))
    (hftfSame : fresh.tfSame = P.tfSame) (hftfLoop : fresh.tfLoop = P.tfLoop) (hftsf : fresh.tsf = P.tsf)
    (hfap : fresh.lastApplied = []) (hlen : fresh.cvs.length = P.cvs.length)
    (hfcvs : ∀ (k : Nat) (vf vs : CvSt ℝ), fresh.cvs[k]? = some vf → (stepAt P cP i).1.cvs[k]? = some vs →
        vf = { vs with x := vf.x, ft := 0, fOld := 0, f := 0 })
    (hnames : fresh.biases.map (·.1) = (stepAt P cP i).1.biases.map (·.1))
    (hnd : ((stepAt P cP i).1.biases.map (·.1)).Nodup)
    (hcompat : ∀ pr ∈ fresh.biases.zip (stepAt P cP i).1.biases, Compat pr.1.2 pr.2.2) :
    (stepAt (sysLoad fresh (stepAt P cP i).1) cL i).2 = (stepAt P cP i).2 ∧
    (stepAt (sysLoad fresh (stepAt P cP i).1) cL i).1.biases = (stepAt P cP i).1.biases ∧
    (stepAt (sysLoad fresh (stepAt P cP i).1) cL i).1.lastApplied = (stepAt P cP i).1.lastApplied ∧
    (stepAt (sysLoad fresh (stepAt P cP i).1) cL i).1.cvs.length = (stepAt P cP i).1.cvs.length ∧
    (∀ (k : Nat) (va vb : CvSt ℝ), (stepAt P cP i).1.cvs[k]? = some va →
        (stepAt (sysLoad fresh (stepAt P cP i).1) cL i).1.cvs[k]? = some vb →
        va = { vb with ft := va.ft } ∧ (va.tfCalc = true ∨ va.ft = vb.ft)) := by
  -- per variable: the fresh one is configured like the running one and has zero force fields
  have hidx : ∀ k (hk : k < P.cvs.length), ∃ vf, fresh.cvs[k]? = some vf ∧
      StaticEq vf P.cvs[k] ∧ vf.ft = 0 ∧ vf.fOld = 0 := by
    intro k hk
    have hkf : k < fresh.cvs.length := hlen ▸ hk
    refine ⟨fresh.cvs[k], List.getElem?_eq_getElem hkf, ?_⟩
    have hS : (stepAt P cP i).1.cvs[k]? = some (endCv { cvUpdate P cP i P.cvs[k] with
        f := lookupF (fbOf (updOf P cP (P.cvs.map (cvUpdate P cP i)))) k }) := by
      show (finCvs _ _)[k]? = _
      rw [finCvs_getElem?, List.getElem?_map, List.getElem?_eq_getElem hk]; rfl
    exact fresh_static P cP i _ _ _ (hfcvs k _ _ (List.getElem?_eq_getElem hkf) hS)
  generalize hL : sysLoad fresh (stepAt P cP i).1 = L
  have hLcvs : L.cvs = fresh.cvs := by rw [← hL]; rfl
  have hLtfS : L.tfSame = P.tfSame := by rw [← hL]; exact hftfSame
  have hLtfL : L.tfLoop = P.tfLoop := by rw [← hL]; exact hftfLoop
  have hLap : L.lastApplied = [] := by rw [← hL]; exact hfap
  have hcore : (L.cvs.map (cvUpdate L cL i)).map core = (P.cvs.map (cvUpdate P cP i)).map core := by
    apply List.ext_getElem?
    intro k
    simp only [List.getElem?_map, hLcvs]
    by_cases hk : k < P.cvs.length
    · obtain ⟨vf, h1, h2, -, -⟩ := hidx k hk
      rw [h1, List.getElem?_eq_getElem hk]
      simp only [Option.map_some]
      rw [core_cvUpdate_eq P L cP cL i _ _ h2]
    · rw [List.getElem?_eq_none (by omega), List.getElem?_eq_none (by omega)]; rfl
  have hupd : updOf L cL (L.cvs.map (cvUpdate L cL i)) = updOf P cP (P.cvs.map (cvUpdate P cP i)) := by
    rw [← hL] at hcore ⊢
    exact upd_reload P fresh (stepAt P cP i).1 cP cL _ _ rfl hftsf hcore hrelL hkind htsf1 hnames hnd hcompat
  have hat := atomFOf_core _ _ hcore
  refine ⟨?_, ?_, ?_, ?_, ?_⟩
  · simp only [stepAt, finish, hupd, hat]
  · simp only [stepAt, finish, hupd]
  · simp only [stepAt, finish, hupd, hat]
  · simp only [stepAt, finish, finCvs_length, List.length_map, hLcvs, hlen]
  · intro k va vb h1 h2
    have h1' : (finCvs (P.cvs.map (cvUpdate P cP i)) (fbOf (updOf P cP (P.cvs.map (cvUpdate P cP i)))))[k]? = some va := h1
    have h2' : (finCvs (L.cvs.map (cvUpdate L cL i)) (fbOf (updOf L cL (L.cvs.map (cvUpdate L cL i)))))[k]? = some vb := h2
    rw [hupd, hLcvs] at h2'
    rw [finCvs_getElem?, List.getElem?_map] at h1' h2'
    have hk : k < P.cvs.length := by
      by_contra hk
      rw [List.getElem?_eq_none (by omega)] at h1'
      simp at h1'
    obtain ⟨vf, hf1, hf2, hf3, hf4⟩ := hidx k hk
    rw [List.getElem?_eq_getElem hk] at h1'
    rw [hf1] at h2'
    simp only [Option.map_some, Option.some.injEq] at h1' h2'
    subst h1' h2'
    obtain ⟨ht1, ht2⟩ := htidy _ (List.getElem_mem hk)
    exact cv_reload P L cP cL i _ _ _ hposP hrelL hLtfS hLtfL hLap ht1 ht2 hf2 hf3 hf4

end Cv.C03L
