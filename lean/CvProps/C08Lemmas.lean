import CvProps.RealInst
/-!
# Helper lemmas for C08 (superposition of biases, time-step factor)
-/
open Cv

namespace Cv.C08

/-! ## literals, sums, association lists -/

theorem zero_lit : (0.0 : ℝ) = 0 := by norm_num

theorem foldl_add_eq (l : List ℝ) : ∀ a : ℝ, l.foldl (· + ·) a = a + l.sum := by
  induction l with
  | nil => intro a; simp
  | cons x xs ih => intro a; rw [List.foldl_cons, ih, List.sum_cons]; ring

theorem sumL_eq (l : List ℝ) : sumL l = l.sum := by
  unfold sumL
  rw [foldl_add_eq, zero_lit, zero_add]

theorem lookupF_nil (a : Nat) : lookupF ([] : List (Nat × ℝ)) a = 0 := by
  simp only [lookupF, List.lookup_nil, Option.getD_none]
  exact zero_lit

theorem lookupF_cons (k : Nat) (v : ℝ) (l : List (Nat × ℝ)) (a : Nat) :
    lookupF ((k, v) :: l) a = if k = a then v else lookupF l a := by
  unfold lookupF
  rw [List.lookup_cons]
  by_cases h : k = a
  · subst h; simp
  · have : (a == k) = false := by simp [beq_eq_false_iff_ne, Ne.symm h]
    simp [this, h]

theorem lookupF_addAssoc (l : List (Nat × ℝ)) (k : Nat) (v : ℝ) (a : Nat) :
    lookupF (addAssoc l k v) a = lookupF l a + (if k = a then v else 0) := by
  induction l with
  | nil => simp [addAssoc, lookupF_cons, lookupF_nil]
  | cons kv r ih =>
    obtain ⟨k', v'⟩ := kv
    unfold addAssoc
    by_cases h : k' = k
    · subst h
      simp only [if_true, lookupF_cons]
      by_cases h2 : k' = a <;> simp [h2]
    · simp only [h, if_false, lookupF_cons, ih]
      by_cases h2 : k' = a
      · have : ¬ k = a := fun hk => h (h2.trans hk.symm)
        simp [h2, this]
      · simp [h2]

/-- lookup in a fold of `addAssoc` over key/value pairs -/
theorem lookupF_foldl_kv (kvs : List (Nat × ℝ)) : ∀ (acc : List (Nat × ℝ)) (a : Nat),
    lookupF (kvs.foldl (fun a (kv : Nat × ℝ) => addAssoc a kv.1 kv.2) acc) a =
      lookupF acc a + (kvs.map fun kv => if kv.1 = a then kv.2 else 0).sum := by
  induction kvs with
  | nil => intro acc a; simp
  | cons kv r ih =>
    intro acc a
    rw [List.foldl_cons, ih, lookupF_addAssoc, List.map_cons, List.sum_cons]; ring

/-! ## the pieces of `modStep` -/

abbrev Upd := String × Bias ℝ × ℝ × List (Nat × ℝ)

/-- what `modStep` computes for one bias -/
noncomputable def updOne (m : Sys ℝ) (c : Clock) (cvs : List (CvSt ℝ)) (nb : String × Bias ℝ) : Upd :=
  let n := tsfOf m nb.1
  if awake c n then
    let r := biasUpdate m c cvs nb.2
    (nb.1, (r.1, r.2.1, r.2.2.map fun (kv : Nat × ℝ) => (kv.1, (n : ℝ) * kv.2)))
  else (nb.1, (nb.2, 0.0, []))

noncomputable def fbOf (upd : List Upd) : List (Nat × ℝ) :=
  upd.foldl (fun acc x => x.2.2.2.foldl (fun a (kv : Nat × ℝ) => addAssoc a kv.1 kv.2) acc) []

noncomputable def setF (fb : List (Nat × ℝ)) (cvs : List (CvSt ℝ)) : List (CvSt ℝ) :=
  (List.range cvs.length).zip cvs |>.map fun (iv : Nat × CvSt ℝ) => { iv.2 with f := lookupF fb iv.1 }

noncomputable def atomFOf (cvs : List (CvSt ℝ)) : List (Nat × ℝ) :=
  cvs.foldl (fun acc v => addAssoc acc v.atom v.f) []

def endStep (cvs : List (CvSt ℝ)) : List (CvSt ℝ) :=
  cvs.map fun v => if v.subtract then { v with fOld := v.f } else v

theorem modStep_eq (m : Sys ℝ) (i : StepIn ℝ) :
    modStep m i =
      (let c := m.clock.tick i.cont
       let cvs := m.cvs.map (cvUpdate m c i)
       let upd := m.biases.map (updOne m c cvs)
       let cvs' := setF (fbOf upd) cvs
       ({ m with clock := c, cvs := endStep cvs', biases := upd.map fun x => (x.1, x.2.1),
                 lastApplied := atomFOf cvs' },
        { energy := sumL (upd.map fun x => if x.2.1.applies then x.2.2.1 else 0.0), atomF := atomFOf cvs' })) := rfl

/-- the variables as the biases see them at this step -/
noncomputable def cvsAt (m : Sys ℝ) (i : StepIn ℝ) : List (CvSt ℝ) :=
  m.cvs.map (cvUpdate m (m.clock.tick i.cont) i)

/-- the per-bias results at this step -/
noncomputable def updAt (m : Sys ℝ) (i : StepIn ℝ) : List Upd :=
  m.biases.map (updOne m (m.clock.tick i.cont) (cvsAt m i))

theorem modStep_energy (m : Sys ℝ) (i : StepIn ℝ) :
    (modStep m i).2.energy = ((updAt m i).map fun x => if x.2.1.applies then x.2.2.1 else 0).sum := by
  rw [← zero_lit, ← sumL_eq]; rfl

theorem modStep_atomF (m : Sys ℝ) (i : StepIn ℝ) :
    (modStep m i).2.atomF = atomFOf (setF (fbOf (updAt m i)) (cvsAt m i)) := rfl

theorem modStep_biases (m : Sys ℝ) (i : StepIn ℝ) :
    (modStep m i).1.biases = (updAt m i).map fun x => (x.1, x.2.1) := rfl

theorem modStep_cvs (m : Sys ℝ) (i : StepIn ℝ) :
    (modStep m i).1.cvs = endStep (setF (fbOf (updAt m i)) (cvsAt m i)) := rfl

theorem modStep_clock (m : Sys ℝ) (i : StepIn ℝ) : (modStep m i).1.clock = m.clock.tick i.cont := rfl
theorem modStep_tsf (m : Sys ℝ) (i : StepIn ℝ) : (modStep m i).1.tsf = m.tsf := rfl

/-! ## lookups in the accumulated forces -/

/-- sum of the values under key `a` -/
noncomputable def kvSum (kvs : List (Nat × ℝ)) (a : Nat) : ℝ := (kvs.map fun kv => if kv.1 = a then kv.2 else 0).sum

theorem lookupF_fold_upd (upd : List Upd) : ∀ (acc : List (Nat × ℝ)) (a : Nat),
    lookupF (upd.foldl (fun acc x => x.2.2.2.foldl (fun a (kv : Nat × ℝ) => addAssoc a kv.1 kv.2) acc) acc) a =
      lookupF acc a + (upd.map fun x => kvSum x.2.2.2 a).sum := by
  induction upd with
  | nil => intro acc a; simp
  | cons x r ih =>
    intro acc a
    rw [List.foldl_cons, ih, lookupF_foldl_kv, List.map_cons, List.sum_cons]; unfold kvSum; ring

theorem lookupF_fbOf (upd : List Upd) (a : Nat) :
    lookupF (fbOf upd) a = (upd.map fun x => kvSum x.2.2.2 a).sum := by
  unfold fbOf; rw [lookupF_fold_upd, lookupF_nil, zero_add]

theorem lookupF_fbOf_append (U V : List Upd) (a : Nat) :
    lookupF (fbOf (U ++ V)) a = lookupF (fbOf U) a + lookupF (fbOf V) a := by
  simp only [lookupF_fbOf, List.map_append, List.sum_append]

/-- force on atom `a` from the per-variable forces `φ` -/
noncomputable def atomSum (idx : List Nat) (cvs : List (CvSt ℝ)) (φ : Nat → ℝ) (a : Nat) : ℝ :=
  ((idx.zip cvs).map fun (iv : Nat × CvSt ℝ) => if iv.2.atom = a then φ iv.1 else 0).sum

theorem lookupF_atomFOf_aux (cvs : List (CvSt ℝ)) : ∀ (acc : List (Nat × ℝ)) (a : Nat),
    lookupF (cvs.foldl (fun acc v => addAssoc acc v.atom v.f) acc) a =
      lookupF acc a + (cvs.map fun v => if v.atom = a then v.f else 0).sum := by
  induction cvs with
  | nil => intro acc a; simp
  | cons v r ih =>
    intro acc a
    rw [List.foldl_cons, ih, lookupF_addAssoc, List.map_cons, List.sum_cons]; ring

theorem lookupF_atomFOf (fb : List (Nat × ℝ)) (cvs : List (CvSt ℝ)) (a : Nat) :
    lookupF (atomFOf (setF fb cvs)) a = atomSum (List.range cvs.length) cvs (lookupF fb) a := by
  unfold atomFOf setF atomSum
  rw [lookupF_atomFOf_aux, lookupF_nil, zero_add, List.map_map]
  rfl

theorem atomSum_add (idx : List Nat) (cvs : List (CvSt ℝ)) (φ ψ χ : Nat → ℝ) (a : Nat)
    (h : ∀ k, φ k = ψ k + χ k) : atomSum idx cvs φ a = atomSum idx cvs ψ a + atomSum idx cvs χ a := by
  unfold atomSum
  rw [← List.sum_map_add]
  congr 1
  apply List.map_congr_left
  intro iv _
  by_cases h2 : iv.2.atom = a <;> simp [h2, h]

theorem atomSum_zero (idx : List Nat) (cvs : List (CvSt ℝ)) (φ : Nat → ℝ) (a : Nat)
    (h : ∀ k, φ k = 0) : atomSum idx cvs φ a = 0 := by
  unfold atomSum
  apply List.sum_eq_zero
  intro x hx
  obtain ⟨iv, _, rfl⟩ := List.mem_map.mp hx
  simp [h]

/-- forces that are all zero, zipped with variable indices and scaled, add nothing under any key -/
theorem kvSum_zip_zeros (idx : List Nat) (n : Nat) (c : ℝ) (a : Nat) :
    kvSum ((idx.zip (List.replicate n (0.0 : ℝ))).map fun (kv : Nat × ℝ) => (kv.1, c * kv.2)) a = 0 := by
  unfold kvSum
  apply List.sum_eq_zero
  intro x hx
  obtain ⟨kv', hkv', rfl⟩ := List.mem_map.mp hx
  obtain ⟨kv, hkv, rfl⟩ := List.mem_map.mp hkv'
  have h0 : kv.2 = 0 := by
    have := List.eq_of_mem_replicate (List.of_mem_zip hkv).2
    rw [this, zero_lit]
  simp [h0]

theorem kvSum_nil (a : Nat) : kvSum [] a = 0 := by simp [kvSum]

/-- per-bias forces that sum to zero under every key give no force on any atom -/
theorem atomF_zero_of_kvSum (m : Sys ℝ) (i : StepIn ℝ) (h : ∀ x ∈ updAt m i, ∀ k, kvSum x.2.2.2 k = 0) (a : Nat) :
    lookupF (modStep m i).2.atomF a = 0 := by
  rw [modStep_atomF, lookupF_atomFOf]
  apply atomSum_zero
  intro k
  rw [lookupF_fbOf]
  apply List.sum_eq_zero
  intro y hy
  obtain ⟨x, hx, rfl⟩ := List.mem_map.mp hy
  exact h x hx k

/-- the force of an ABF that does not apply its bias -/
theorem abfStep_off (p : AbfParams ℝ) (s : AbfState ℝ) (inp : AbfIn ℝ) (hoff : p.applyBias = false) :
    (abfStep p s inp).2 = List.replicate (nvars p) 0.0 := by
  simp [abfStep, hoff]

/-- what the step computes for an ABF with `applyBias off`: still an ABF with the same parameters, and forces that
    sum to zero under every key -/
theorem abf_off_updAt (m : Sys ℝ) (i : StepIn ℝ) (name : String) (idx : List Nat) (p : AbfParams ℝ) (s : AbfState ℝ)
    (hb : m.biases = [(name, .abf idx p s)]) (hoff : p.applyBias = false) :
    ∃ s' e kvs, updAt m i = [(name, (.abf idx p s', e, kvs))] ∧ ∀ k, kvSum kvs k = 0 := by
  by_cases hs : awake (m.clock.tick i.cont) (tsfOf m name) = true
  · refine ⟨_, _, _, by simp only [updAt, hb, List.map_cons, List.map_nil, updOne, hs, biasUpdate]; rfl, ?_⟩
    intro k
    simp only [abfStep_off _ _ _ hoff]
    exact kvSum_zip_zeros _ _ _ _
  · exact ⟨s, 0.0, [], by simp only [updAt, hb, List.map_cons, List.map_nil, updOne, hs]; rfl, kvSum_nil⟩

/-! ## variables up to the force fields -/

/-- forget `ft`, `fOld`, `f` -/
def norm (v : CvSt ℝ) : CvSt ℝ := { v with ft := 0, fOld := 0, f := 0 }

/-- the value of a variable at this step -/
noncomputable def xOf (i : StepIn ℝ) (v : CvSt ℝ) : ℝ :=
  match v.per with
  | none => i.z v.atom
  | some p => wrapS p v.wrapC (i.z v.atom)

noncomputable def normX (i : StepIn ℝ) (w : CvSt ℝ) : CvSt ℝ := { w with x := xOf i w }

theorem cvUpdate_x (m : Sys ℝ) (c : Clock) (i : StepIn ℝ) (v : CvSt ℝ) : (cvUpdate m c i v).x = xOf i v := by
  obtain ⟨_, per, _, _, _, _, _, _, _, _⟩ := v
  cases per <;> rfl
theorem cvUpdate_atom (m : Sys ℝ) (c : Clock) (i : StepIn ℝ) (v : CvSt ℝ) : (cvUpdate m c i v).atom = v.atom := rfl
theorem cvUpdate_per (m : Sys ℝ) (c : Clock) (i : StepIn ℝ) (v : CvSt ℝ) : (cvUpdate m c i v).per = v.per := rfl
theorem cvUpdate_width (m : Sys ℝ) (c : Clock) (i : StepIn ℝ) (v : CvSt ℝ) : (cvUpdate m c i v).width = v.width := rfl
theorem cvUpdate_wrapC (m : Sys ℝ) (c : Clock) (i : StepIn ℝ) (v : CvSt ℝ) : (cvUpdate m c i v).wrapC = v.wrapC := rfl

theorem norm_cvUpdate (m : Sys ℝ) (c : Clock) (i : StepIn ℝ) (v : CvSt ℝ) :
    norm (cvUpdate m c i v) = normX i (norm v) := by
  obtain ⟨_, per, _, _, _, _, _, _, _, _⟩ := v
  cases per <;> rfl

theorem cvsAt_norm (m : Sys ℝ) (i : StepIn ℝ) : (cvsAt m i).map norm = (m.cvs.map norm).map (normX i) := by
  unfold cvsAt
  simp only [List.map_map]
  apply List.map_congr_left
  intro v _
  exact norm_cvUpdate _ _ _ _

theorem cvsAt_length (m : Sys ℝ) (i : StepIn ℝ) : (cvsAt m i).length = m.cvs.length := by
  simp [cvsAt]

theorem setF_norm (fb : List (Nat × ℝ)) (cvs : List (CvSt ℝ)) : (setF fb cvs).map norm = cvs.map norm := by
  unfold setF
  rw [List.map_map]
  have : (norm ∘ fun (iv : Nat × CvSt ℝ) => ({ iv.2 with f := lookupF fb iv.1 } : CvSt ℝ)) = norm ∘ Prod.snd := by
    funext iv; rfl
  rw [this, ← List.map_map, List.map_snd_zip]
  simp

theorem endStep_norm (cvs : List (CvSt ℝ)) : (endStep cvs).map norm = cvs.map norm := by
  unfold endStep
  rw [List.map_map]
  apply List.map_congr_left
  intro v _
  simp only [Function.comp]
  split_ifs <;> rfl

theorem modStep_cvs_norm (m : Sys ℝ) (i : StepIn ℝ) :
    (modStep m i).1.cvs.map norm = (m.cvs.map norm).map (normX i) := by
  rw [modStep_cvs, endStep_norm, setF_norm, cvsAt_norm]

theorem atomSum_norm (idx : List Nat) (cvs : List (CvSt ℝ)) (φ : Nat → ℝ) (a : Nat) :
    atomSum idx (cvs.map norm) φ a = atomSum idx cvs φ a := by
  unfold atomSum
  rw [List.zip_map_right, List.map_map]
  rfl

theorem atomSum_congr (cvs cvs' : List (CvSt ℝ)) (φ : Nat → ℝ) (a : Nat) (h : cvs.map norm = cvs'.map norm) :
    atomSum (List.range cvs.length) cvs φ a = atomSum (List.range cvs'.length) cvs' φ a := by
  have hl : cvs.length = cvs'.length := by
    have := congrArg List.length h
    simpa using this
  rw [← atomSum_norm _ cvs, ← atomSum_norm _ cvs', h, hl]

/-! ## biases that do not read total forces see only the normalised variables -/

/-- a bias that never looks at total forces (same as `C08.ignoresTotalForce`) -/
def noTF : Bias ℝ → Bool
  | .abf _ _ _ => false
  | _ => true

theorem getCvs_map (f : CvSt ℝ → CvSt ℝ) (cvs : List (CvSt ℝ)) (idx : List Nat) :
    getCvs (cvs.map f) idx = (getCvs cvs idx).map f := by
  unfold getCvs
  rw [List.map_filterMap]
  simp [List.getElem?_map]

theorem map_x_norm (l : List (CvSt ℝ)) : (l.map norm).map (·.x) = l.map (·.x) := by
  rw [List.map_map]; rfl

theorem harmEnergy_norm (vs : List (CvSt ℝ)) (k : ℝ) (cs : List ℝ) :
    harmEnergy (vs.map norm) k cs = harmEnergy vs k cs := by
  unfold harmEnergy
  rw [List.zipWith_map_left]
  rfl

theorem harmForces_norm (vs : List (CvSt ℝ)) (k : ℝ) (cs : List ℝ) :
    harmForces (vs.map norm) k cs = harmForces vs k cs := by
  unfold harmForces
  rw [List.zipWith_map_left]
  rfl

theorem biasUpdate_norm (m m' : Sys ℝ) (c : Clock) (cvs : List (CvSt ℝ)) (b : Bias ℝ) (h : noTF b = true) :
    biasUpdate m c cvs b = biasUpdate m' c (cvs.map norm) b := by
  cases b with
  | abf idx p s => simp [noTF] at h
  | hist idx g sz d => simp only [biasUpdate, getCvs_map, map_x_norm]
  | harm idx k cs => simp only [biasUpdate, getCvs_map, harmEnergy_norm, harmForces_norm]
  | restr idx p s => simp only [biasUpdate, getCvs_map, map_x_norm]
  | mtd idx p s => simp only [biasUpdate, getCvs_map, map_x_norm]

theorem biasUpdate_congr (m m' : Sys ℝ) (c : Clock) (cvs cvs' : List (CvSt ℝ)) (b : Bias ℝ) (h : noTF b = true)
    (hc : cvs.map norm = cvs'.map norm) : biasUpdate m c cvs b = biasUpdate m' c cvs' b := by
  rw [biasUpdate_norm m m' c cvs b h, hc, ← biasUpdate_norm m' m' c cvs' b h]

theorem noTF_biasUpdate (m : Sys ℝ) (c : Clock) (cvs : List (CvSt ℝ)) (b : Bias ℝ) :
    noTF (biasUpdate m c cvs b).1 = noTF b := by
  cases b <;> rfl

theorem updOne_congr (m m' : Sys ℝ) (c : Clock) (cvs cvs' : List (CvSt ℝ)) (nb : String × Bias ℝ)
    (h : noTF nb.2 = true) (ht : m.tsf = m'.tsf) (hc : cvs.map norm = cvs'.map norm) :
    updOne m c cvs nb = updOne m' c cvs' nb := by
  unfold updOne tsfOf
  rw [ht, biasUpdate_congr m m' c cvs cvs' nb.2 h hc]

theorem noTF_updOne (m : Sys ℝ) (c : Clock) (cvs : List (CvSt ℝ)) (nb : String × Bias ℝ) :
    noTF (updOne m c cvs nb).2.1 = noTF nb.2 := by
  unfold updOne
  simp only
  split_ifs
  · exact noTF_biasUpdate _ _ _ _
  · rfl

/-! ## one step of three systems whose bias lists are `A`, `B`, `A ++ B` -/

theorem step_add (mAB mA mB : Sys ℝ) (i : StepIn ℝ)
    (hb : mAB.biases = mA.biases ++ mB.biases)
    (hcA : mAB.cvs.map norm = mA.cvs.map norm) (hcB : mAB.cvs.map norm = mB.cvs.map norm)
    (hA : ∀ nb ∈ mA.biases, updOne mAB (mAB.clock.tick i.cont) (cvsAt mAB i) nb =
                            updOne mA (mA.clock.tick i.cont) (cvsAt mA i) nb)
    (hB : ∀ nb ∈ mB.biases, updOne mAB (mAB.clock.tick i.cont) (cvsAt mAB i) nb =
                            updOne mB (mB.clock.tick i.cont) (cvsAt mB i) nb) :
    (modStep mAB i).2.energy = (modStep mA i).2.energy + (modStep mB i).2.energy ∧
    (∀ a, lookupF (modStep mAB i).2.atomF a = lookupF (modStep mA i).2.atomF a + lookupF (modStep mB i).2.atomF a) ∧
    (modStep mAB i).1.biases = (modStep mA i).1.biases ++ (modStep mB i).1.biases := by
  have hU : updAt mAB i = updAt mA i ++ updAt mB i := by
    unfold updAt
    rw [hb, List.map_append, List.map_congr_left hA, List.map_congr_left hB]
  refine ⟨?_, ?_, ?_⟩
  · simp only [modStep_energy, hU, List.map_append, List.sum_append]
  · intro a
    simp only [modStep_atomF, lookupF_atomFOf, hU]
    have h1 : (cvsAt mAB i).map norm = (cvsAt mA i).map norm := by rw [cvsAt_norm, cvsAt_norm, hcA]
    have h2 : (cvsAt mAB i).map norm = (cvsAt mB i).map norm := by rw [cvsAt_norm, cvsAt_norm, hcB]
    rw [← atomSum_congr _ _ _ a h1, ← atomSum_congr _ _ _ a h2]
    exact atomSum_add _ _ _ _ _ a (lookupF_fbOf_append _ _)
  · simp only [modStep_biases, hU, List.map_append]

/-- related systems: same step counter and time-step factors, same variables up to the force fields -/
structure Rel (m m' : Sys ℝ) : Prop where
  clock : m.clock = m'.clock
  tsf : m.tsf = m'.tsf
  cvs : m.cvs.map norm = m'.cvs.map norm

theorem Rel.step {m m' : Sys ℝ} (h : Rel m m') (i : StepIn ℝ) : Rel (modStep m i).1 (modStep m' i).1 where
  clock := by rw [modStep_clock, modStep_clock, h.clock]
  tsf := by rw [modStep_tsf, modStep_tsf, h.tsf]
  cvs := by rw [modStep_cvs_norm, modStep_cvs_norm, h.cvs]

theorem Rel.updOne {m m' : Sys ℝ} (h : Rel m m') (i : StepIn ℝ) (nb : String × Bias ℝ) (hn : noTF nb.2 = true) :
    updOne m (m.clock.tick i.cont) (cvsAt m i) nb = updOne m' (m'.clock.tick i.cont) (cvsAt m' i) nb := by
  rw [h.clock]
  apply updOne_congr _ _ _ _ _ _ hn h.tsf
  rw [cvsAt_norm, cvsAt_norm, h.cvs]

theorem noTF_step (m : Sys ℝ) (i : StepIn ℝ) (h : ∀ nb ∈ m.biases, noTF nb.2 = true) :
    ∀ nb ∈ (modStep m i).1.biases, noTF nb.2 = true := by
  intro nb hnb
  rw [modStep_biases, updAt, List.map_map] at hnb
  obtain ⟨nb0, h0, rfl⟩ := List.mem_map.mp hnb
  simp only [Function.comp]
  rw [noTF_updOne]
  exact h nb0 h0

/-- run a history (same as `C08.runSys`) -/
noncomputable def runL (m : Sys ℝ) : List (StepIn ℝ) → Sys ℝ × List (StepOut ℝ)
  | [] => (m, [])
  | i :: is =>
    let (m1, o) := modStep m i
    let (m2, os) := runL m1 is
    (m2, o :: os)

theorem runL_nil (m : Sys ℝ) : (runL m []).2 = [] := rfl
theorem runL_cons (m : Sys ℝ) (i : StepIn ℝ) (is : List (StepIn ℝ)) :
    (runL m (i :: is)).2 = (modStep m i).2 :: (runL (modStep m i).1 is).2 := rfl

theorem runL_length (h : List (StepIn ℝ)) : ∀ m : Sys ℝ, (runL m h).2.length = h.length := by
  induction h with
  | nil => intro m; rfl
  | cons i is ih => intro m; rw [runL_cons, List.length_cons, ih, List.length_cons]

theorem run_add (h : List (StepIn ℝ)) : ∀ (mAB mA mB : Sys ℝ),
    mAB.biases = mA.biases ++ mB.biases → Rel mAB mA → Rel mAB mB →
    (∀ nb ∈ mA.biases, noTF nb.2 = true) → (∀ nb ∈ mB.biases, noTF nb.2 = true) →
    ∀ t, t < h.length →
      ((runL mAB h).2.getD t ⟨0, []⟩).energy =
        ((runL mA h).2.getD t ⟨0, []⟩).energy + ((runL mB h).2.getD t ⟨0, []⟩).energy ∧
      ∀ a, lookupF ((runL mAB h).2.getD t ⟨0, []⟩).atomF a =
           lookupF ((runL mA h).2.getD t ⟨0, []⟩).atomF a + lookupF ((runL mB h).2.getD t ⟨0, []⟩).atomF a := by
  induction h with
  | nil => intro _ _ _ _ _ _ _ _ t ht; simp at ht
  | cons i is ih =>
    intro mAB mA mB hb rA rB nA nB t ht
    have hs := step_add mAB mA mB i hb rA.cvs rB.cvs
      (fun nb hnb => rA.updOne i nb (nA nb hnb)) (fun nb hnb => rB.updOne i nb (nB nb hnb))
    simp only [runL_cons]
    cases t with
    | zero =>
      simp only [List.getD_cons_zero]
      exact ⟨hs.1, hs.2.1⟩
    | succ t =>
      simp only [List.getD_cons_succ]
      exact ih _ _ _ hs.2.2 (rA.step i) (rB.step i) (noTF_step _ i nA) (noTF_step _ i nB) t
        (by simpa using ht)

/-! ## a fixed harmonic restraint on the single variable of the system -/

/-- instantaneous force of the harmonic restraint on variable `v` at input `i` -/
noncomputable def hF (v : CvSt ℝ) (i : StepIn ℝ) (k c : ℝ) : ℝ :=
  -0.5 * k / (v.width * v.width) * dist2SGrad v.per (xOf i v) c

theorem harm_updAt (m : Sys ℝ) (i : StepIn ℝ) (name : String) (k c : ℝ) (v : CvSt ℝ)
    (hcv : m.cvs = [v]) (hb : m.biases = [(name, .harm [0] k [c])]) :
    ∃ e, updAt m i = [(name, (.harm [0] k [c], e,
      if awake (m.clock.tick i.cont) (tsfOf m name) then [(0, ((tsfOf m name : Int) : ℝ) * hF v i k c)] else []))] := by
  by_cases ha : awake (m.clock.tick i.cont) (tsfOf m name) = true
  · refine ⟨harmEnergy [cvUpdate m (m.clock.tick i.cont) i v] k [c], ?_⟩
    simp only [updAt, cvsAt, hcv, hb, List.map_cons, List.map_nil, updOne, ha, if_true, biasUpdate, getCvs,
      harmForces, hF]
    simp [cvUpdate_x, cvUpdate_width, cvUpdate_per]
  · refine ⟨0.0, ?_⟩
    simp only [updAt, cvsAt, hcv, hb, List.map_cons, List.map_nil, updOne, ha]
    rfl

theorem harm_step (m : Sys ℝ) (i : StepIn ℝ) (name : String) (k c : ℝ) (v : CvSt ℝ)
    (hcv : m.cvs = [v]) (hb : m.biases = [(name, .harm [0] k [c])]) :
    lookupF (modStep m i).2.atomF v.atom =
      (if awake (m.clock.tick i.cont) (tsfOf m name) then ((tsfOf m name : Int) : ℝ) * hF v i k c else 0) ∧
    (modStep m i).1.biases = [(name, .harm [0] k [c])] := by
  obtain ⟨e, hU⟩ := harm_updAt m i name k c v hcv hb
  constructor
  · rw [modStep_atomF, lookupF_atomFOf, hU]
    simp only [cvsAt, hcv, List.map_cons, List.map_nil, List.length_singleton, atomSum, lookupF_fbOf, kvSum]
    split_ifs <;> simp [cvUpdate_atom]
  · rw [modStep_biases, hU]; rfl

/-! ## the same input repeated: impulse of a harmonic restraint with a time-step factor -/

theorem normX_idem (i : StepIn ℝ) (w : CvSt ℝ) : normX i (normX i w) = normX i w := by
  obtain ⟨_, per, _, _, _, _, _, _, _, _⟩ := w
  cases per <;> rfl

theorem norm_norm (w : CvSt ℝ) : norm (norm w) = norm w := rfl

theorem norm_normX (i : StepIn ℝ) (w : CvSt ℝ) : norm (normX i (norm w)) = normX i (norm w) := rfl

theorem xOf_norm (i : StepIn ℝ) (v : CvSt ℝ) : xOf i (norm v) = xOf i v := by
  obtain ⟨_, per, _, _, _, _, _, _, _, _⟩ := v
  cases per <;> rfl

theorem hF_stat (i : StepIn ℝ) (k c : ℝ) (v0 v : CvSt ℝ) (h : normX i (norm v0) = normX i (norm v)) :
    hF v0 i k c = hF v i k c := by
  have hw : v0.width = v.width := by have := congrArg CvSt.width h; exact this
  have hp : v0.per = v.per := by have := congrArg CvSt.per h; exact this
  have hx : xOf i (norm v0) = xOf i (norm v) := by have := congrArg CvSt.x h; exact this
  rw [xOf_norm, xOf_norm] at hx
  unfold hF
  rw [hw, hp, hx]

theorem awake_it (c : Clock) (n : Int) : awake c n = (decide (n ≤ 1) || decide (Int.tmod c.it n = 0)) := rfl

theorem harm_run (name : String) (k c : ℝ) (v : CvSt ℝ) (i : StepIn ℝ) (hi : i.cont = false) (N : Int) :
    ∀ (j : Nat) (m : Sys ℝ) (v0 : CvSt ℝ), m.cvs = [v0] → normX i (norm v0) = normX i (norm v) →
      m.biases = [(name, .harm [0] k [c])] → m.clock.first = false → tsfOf m name = N →
      (runL m (List.replicate j i)).2.map (fun o => lookupF o.atomF v.atom) =
        (List.range j).map fun (t : Nat) =>
          if (decide (N ≤ 1) || decide (Int.tmod (m.clock.it + 1 + (t : Int)) N = 0)) = true
          then (N : ℝ) * hF v i k c else 0 := by
  intro j
  induction j with
  | zero => intro m v0 _ _ _ _ _; rfl
  | succ j ih =>
    intro m v0 hcv hst hb hf hN
    have hs := harm_step m i name k c v0 hcv hb
    have hat : v0.atom = v.atom := by have := congrArg CvSt.atom hst; exact this
    have htick : (m.clock.tick i.cont).it = m.clock.it + 1 := by simp [Clock.tick, hf, hi]
    have htickf : (m.clock.tick i.cont).first = false := by simp [Clock.tick, hf, hi]
    -- the next state
    have hcv' : ∃ v1, (modStep m i).1.cvs = [v1] ∧ norm v1 = normX i (norm v0) := by
      have := modStep_cvs_norm m i
      rw [hcv] at this
      exact List.map_eq_singleton_iff.mp this
    obtain ⟨v1, hcv1, hn1⟩ := hcv'
    have hst1 : normX i (norm v1) = normX i (norm v) := by rw [hn1, normX_idem, hst]
    have hf1 : (modStep m i).1.clock.first = false := by rw [modStep_clock, htickf]
    have hit1 : (modStep m i).1.clock.it = m.clock.it + 1 := by rw [modStep_clock, htick]
    have hN1 : tsfOf (modStep m i).1 name = N := hN
    rw [List.replicate_succ, runL_cons, List.map_cons, ih _ v1 hcv1 hst1 hs.2 hf1 hN1,
      List.range_succ_eq_map, List.map_cons, List.map_map]
    congr 1
    · rw [← hat, hs.1, hN, awake_it, htick, hF_stat i k c v0 v hst]
      simp
    · apply List.map_congr_left
      intro t _
      simp only [Function.comp, hit1, Nat.succ_eq_add_one, Nat.cast_add, Nat.cast_one]
      have : m.clock.it + 1 + 1 + (t : Int) = m.clock.it + 1 + ((t : Int) + 1) := by ring
      rw [this]

theorem sum_first (n : Nat) (hn : 1 ≤ n) (f : Nat → ℝ) (h : ∀ t, 0 < t → t < n → f t = 0) :
    ((List.range n).map f).sum = f 0 := by
  obtain ⟨k, rfl⟩ : ∃ k, n = k + 1 := ⟨n - 1, by omega⟩
  rw [List.range_succ_eq_map, List.map_cons, List.sum_cons, List.map_map]
  have : ((List.range k).map (f ∘ Nat.succ)).sum = 0 := by
    apply List.sum_eq_zero
    intro x hx
    obtain ⟨t, ht, rfl⟩ := List.mem_map.mp hx
    exact h (t + 1) (by omega) (by have := List.mem_range.mp ht; omega)
  rw [this, add_zero]

theorem tmod_shift_ne (a n t : Int) (h : Int.tmod a n = 0) (h0 : 0 < t) (h1 : t < n) : Int.tmod (a + t) n ≠ 0 := by
  intro h2
  have d1 := Int.dvd_of_tmod_eq_zero h
  have d2 := Int.dvd_of_tmod_eq_zero h2
  have d3 : n ∣ t := (Int.dvd_add_right d1).mp d2
  have := Int.le_of_dvd h0 d3
  omega

theorem impulse_sums (n : Nat) (hn : 1 ≤ n) (it : Int) (hit : Int.tmod (it + 1) n = 0) (F : ℝ) :
    ((List.range n).map fun t : Nat =>
        if (decide ((n : Int) ≤ 1) || decide (Int.tmod (it + 1 + (t : Int)) (n : Int) = 0)) = true
        then (((n : Int) : ℝ)) * F else 0).sum =
    ((List.range n).map fun t : Nat =>
        if (decide ((1 : Int) ≤ 1) || decide (Int.tmod (it + 1 + (t : Int)) (1 : Int) = 0)) = true
        then (((1 : Int) : ℝ)) * F else 0).sum := by
  have hR : ((List.range n).map fun t : Nat =>
        if (decide ((1 : Int) ≤ 1) || decide (Int.tmod (it + 1 + (t : Int)) (1 : Int) = 0)) = true
        then (((1 : Int) : ℝ)) * F else 0).sum = n * F := by
    simp
  rw [hR, sum_first n hn]
  · simp [hit]
  · intro t h0 h1
    have hn2 : ¬ ((n : Int) ≤ 1) := by omega
    have := tmod_shift_ne (it + 1) n t hit (by omega) (by omega)
    simp [hn2, this]

end Cv.C08
