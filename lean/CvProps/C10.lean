import CvModel.Validate
/-!
# C10 — accepted parameter values never lead to a trapping division, and rejected objects leave the module as it was

Property theorems about `CvModel/Validate.lean` (core Lean).  A `none` stands for a division or remainder by zero,
which terminates the host process.
-/
open Cv Cv.Validate

namespace Cv.C10

theorem safeMod_isSome (a b : Int) (h : b ≠ 0) : (safeMod a b).isSome = true := by
  simp [safeMod, h]

/-- metadynamics: whatever newHillFrequency and gridsUpdateFrequency are (zero and negative included), no step traps -/
theorem meta_never_traps (newHillFreq gridsFreq it : Int) (canAcc : Bool) :
    let (hd, gf) := metaInit newHillFreq gridsFreq
    (metaDeposit hd newHillFreq it canAcc).isSome = true ∧ (metaGridUpdate gf it).isSome = true := by
  simp only [metaInit, metaDeposit, metaGridUpdate, safeMod]
  constructor
  · by_cases h : newHillFreq > 0
    · have : newHillFreq ≠ 0 := by omega
      simp [h, this]
    · simp [h]
  · by_cases h1 : newHillFreq > 0 <;> by_cases h2 : gridsFreq = 0 <;> by_cases h3 : gridsFreq > 0 <;>
      simp [h1, h2, h3] <;> omega

/-- with a zero or negative newHillFrequency no hill is ever deposited -/
theorem meta_zero_freq_no_hills (newHillFreq gridsFreq it : Int) (canAcc : Bool) (h : newHillFreq ≤ 0) :
    metaDeposit (metaInit newHillFreq gridsFreq).1 newHillFreq it canAcc = some false := by
  have : ¬ newHillFreq > 0 := by omega
  simp [metaInit, metaDeposit, this]

/-- analysis: once accepted, none of the remainders by a stride traps and the deviation's divisor is positive -/
theorem analysis_accepted_safe (runAve : Bool) (ral ras : Nat) (corr : Bool) (al as_ : Nat) (restartFreq stepRel : Int)
    (h : analysisValidate runAve ral ras corr al as_ = .ok) :
    (∀ r ∈ analysisRemainders restartFreq stepRel runAve ras corr as_, r.isSome = true) ∧
    (runAve = true → 0 < runAveDivisor ral) := by
  unfold analysisValidate at h
  split at h
  · simp at h
  · rename_i h1
    split at h
    · simp at h
    · rename_i h2
      constructor
      · intro r hr
        simp only [analysisRemainders, List.mem_append] at hr
        rcases hr with hr | hr
        · cases runAve
          · simp at hr
          · simp only [Bool.true_and, Bool.or_eq_true, decide_eq_true_eq, not_or, Nat.not_lt] at h1
            have h0 : (ras : Int) ≠ 0 := by omega
            simp only [↓reduceIte, List.mem_cons, List.not_mem_nil, or_false] at hr
            rcases hr with rfl | rfl <;> simp only [safeMod, h0, ↓reduceIte, Option.isSome_some]
        · cases corr
          · simp at hr
          · simp only [Bool.true_and, Bool.or_eq_true, decide_eq_true_eq, not_or, Nat.not_lt] at h2
            have h0 : (as_ : Int) ≠ 0 := by omega
            simp only [↓reduceIte, List.mem_cons, List.not_mem_nil, or_false] at hr
            subst hr; simp only [safeMod, h0, ↓reduceIte, Option.isSome_some]
      · intro hra
        subst hra
        simp only [Bool.true_and, Bool.or_eq_true, decide_eq_true_eq, not_or, Nat.not_lt] at h1
        unfold runAveDivisor; omega

/-- the stride-zero and too-short-window configurations are rejected (they are exactly the ones that would trap) -/
theorem analysis_rejects_zero_stride (ral : Nat) (corr : Bool) (al as_ : Nat) :
    analysisValidate true ral 0 corr al as_ = .rejected := by
  simp [analysisValidate]

/-- ABF: once accepted the ramp's denominator `fullSamples - minSamples` is positive and maxForce has one entry per variable -/
theorem abf_accepted_safe (full mn : Int) (nv : Nat) (mf : Option (List Int)) (f m : Int)
    (h : abfValidate full mn nv mf = (.ok, f, m)) :
    0 < f - m ∧ (∀ l, mf = some l → l.length = nv) := by
  unfold abfValidate at h
  by_cases h1 : full ≤ 1
  · simp only [h1, ↓reduceIte] at h
    split at h
    · simp at h
    · split at h
      · split at h
        · simp at h
        · rename_i l hl hne
          simp only [Prod.mk.injEq, true_and] at h
          obtain ⟨rfl, rfl⟩ := h
          refine ⟨by omega, ?_⟩
          intro l' hl'; simp only [Option.some.injEq] at hl'; subst hl'; simpa using hne
      · simp only [Prod.mk.injEq, true_and] at h
        obtain ⟨rfl, rfl⟩ := h
        exact ⟨by omega, by intro l hl; simp at hl⟩
  · simp only [h1, ↓reduceIte] at h
    split at h
    · simp at h
    · rename_i hlt
      split at h
      · split at h
        · simp at h
        · rename_i l hl hne
          simp only [Prod.mk.injEq, true_and] at h
          obtain ⟨rfl, rfl⟩ := h
          refine ⟨by omega, ?_⟩
          intro l' hl'; simp only [Option.some.injEq] at hl'; subst hl'; simpa using hne
      · simp only [Prod.mk.injEq, true_and] at h
        obtain ⟨rfl, rfl⟩ := h
        exact ⟨by omega, by intro l hl; simp at hl⟩

/-- multiple-walker metadynamics: with an accepted `replicaUpdateFrequency` the per-step test is defined, and the number of silent
    periods is defined whatever `newHillFrequency` is — zero (no hills of one's own, only reading the others') included. -/
theorem meta_replicas_never_trap (u : Int) (f un : Nat) (it : Int) (h : metaReplicaValidate u = .ok) :
    (metaReplicaTest u it).isSome = true ∧ (metaReplicaFlush un f).isSome = true := by
  refine ⟨?_, ?_⟩
  · unfold metaReplicaValidate at h
    by_cases h0 : u = 0
    · simp [h0] at h
    · exact safeMod_isSome _ _ h0
  · unfold metaReplicaFlush
    by_cases hf : f > 0
    · have : f ≠ 0 := by omega
      simp [hf, this]
    · simp [hf]

/-- whatever `historyFreq` and `outputFreq` are (either may be zero), validating the pair evaluates no remainder by zero; an accepted
    pair is either "no history" or a history frequency that is a multiple of a non-zero output frequency; and every later
    "write the history now?" test is defined. -/
theorem abf_history_pair_safe (hf of_ : Int) :
    (∀ r ∈ (abfHistoryValidate hf of_).2, r.isSome = true) ∧
    ((abfHistoryValidate hf of_).1 = .ok → hf = 0 ∨ (of_ ≠ 0 ∧ Int.tmod hf of_ = 0)) ∧
    (∀ it, (abfHistoryWrite hf it).isSome = true) := by
  refine ⟨?_, ?_, ?_⟩
  · unfold abfHistoryValidate
    by_cases h1 : hf = 0
    · simp [h1]
    · by_cases h2 : of_ = 0
      · simp [h1, h2]
      · simp [h1, h2, safeMod]
  · unfold abfHistoryValidate
    by_cases h1 : hf = 0
    · intro _; exact Or.inl h1
    · by_cases h2 : of_ = 0
      · simp [h1, h2]
      · by_cases h3 : Int.tmod hf of_ = 0
        · intro _; exact Or.inr ⟨h2, h3⟩
        · simp [h1, h2, safeMod, h3]
  · intro it
    unfold abfHistoryWrite
    by_cases h : hf > 0
    · have : hf ≠ 0 := by omega
      simp [safeMod, this, h]
    · simp [h]

/-- a history frequency with output switched off is rejected, not divided by -/
theorem abf_history_rejects_zero_output (hf : Int) (h : hf ≠ 0) : abfHistoryValidate hf 0 = (.rejected, []) := by
  simp [abfHistoryValidate, h]

/-- the shared-ABF frequency: no remainder by zero, and an accepted non-zero one divides the output frequency -/
theorem abf_shared_pair_safe (sf of_ : Int) :
    (∀ r ∈ (abfSharedValidate sf of_).2, r.isSome = true) ∧
    ((abfSharedValidate sf of_).1 = .ok → sf = 0 ∨ Int.tmod of_ sf = 0) := by
  refine ⟨?_, ?_⟩
  · unfold abfSharedValidate
    by_cases h1 : sf = 0
    · simp [h1]
    · simp [h1, safeMod]
  · unfold abfSharedValidate
    by_cases h1 : sf = 0
    · intro _; exact Or.inl h1
    · by_cases h3 : Int.tmod of_ sf = 0
      · intro _; exact Or.inr h3
      · simp [h1, safeMod, h3]

example : (abfHistoryValidate 10 5).1 = .ok ∧ (abfHistoryValidate 5 10).1 = .rejected ∧ (abfHistoryValidate 5 0).1 = .rejected ∧
    (abfHistoryValidate 0 0).1 = .ok := by decide

/-- moving restraints: once accepted, the divisor targetNumSteps of the schedules is non-zero -/
theorem moving_accepted_safe (n it first : Int) (h : movingValidate true n = .ok) : (safeMod (it - first) n).isSome = true := by
  unfold movingValidate at h
  by_cases h0 : n = 0
  · simp [h0] at h
  · simp [safeMod, h0]

/-- output schedules: a zero restart or trajectory frequency switches the output off instead of dividing by it -/
theorem module_schedules_safe (restartFreq trajFreq it : Int) :
    ∀ r ∈ moduleSchedules restartFreq trajFreq it, r.isSome = true := by
  intro r hr
  simp only [moduleSchedules, List.mem_append] at hr
  rcases hr with hr | hr
  · by_cases h : restartFreq = 0
    · simp [h] at hr
    · simp only [ne_eq, h, not_false_eq_true, ↓reduceIte, List.mem_cons, List.mem_nil_iff, or_false] at hr
      subst hr; simp [safeMod, h]
  · by_cases h : trajFreq = 0
    · simp [h] at hr
    · have h2 : trajFreq * 1000 ≠ 0 := by omega
      simp only [ne_eq, h, not_false_eq_true, ↓reduceIte, List.mem_cons, List.mem_nil_iff, or_false] at hr
      rcases hr with rfl | rfl <;> simp [safeMod, h, h2]

/-- a grid is allocated only with positive sizes -/
theorem grid_setup_positive (nx : List Int) (mult n : Nat) (h : gridSetup nx mult = some n) : ∀ k ∈ nx, 0 < k := by
  unfold gridSetup at h
  split at h
  · rename_i hall
    intro k hk
    have := List.all_eq_true.mp hall k hk
    simpa using this
  · simp at h

/-- a rejected object leaves the list of objects exactly as it was; an accepted one is appended -/
theorem rollback {β : Type} (objs : List β) (new : β) :
    addObject objs new .rejected = objs ∧ addObject objs new .ok = objs ++ [new] := ⟨rfl, rfl⟩

/-! ## non-vacuity -/

example : analysisValidate true 4 1 true 4 1 = .ok := by decide
example : abfValidate 4 2 1 (some [10]) = (.ok, 4, 2) := by decide

end Cv.C10
