import CvProps.C16Lemmas
/-!
# C16 — PMF integration solves the stated discrete problem; incremental equals batch

Property theorems about `CvModel/Integrate.lean` at `α := ℝ`.
-/
open Cv Cv.Integ

namespace Cv.C16

/-- a gradient-grid shape: one periodic flag per dimension, at least one bin per dimension -/
def ShapeOk (s : Shape) : Prop := s.per.length = s.nx.length ∧ ∀ n ∈ s.nx, 1 ≤ n

/-- a bin of the gradient grid -/
def BinOk (s : Shape) (b : Idx) : Prop := indexOk s.nx b = true
/-- a point of the PMF grid -/
def PointOk (s : Shape) (q : Idx) : Prop := indexOk s.pmfNx q = true

/-- the divergence array is up to date with the gradient grid -/
def DivInv (sm : Bool) (st : GGrid ℝ × DivF ℝ) : Prop :=
  ∀ q, PointOk st.1.shape q → st.2 q = divLocal st.1 sm q

/-! ## the divergence kept up to date incrementally equals the one recomputed from scratch -/

/-- the divergence at a point reads the gradient grid only through the 2^nd bins around the point -/
theorem divLocal_congr (g g' : GGrid ℝ) (sm : Bool) (q : Idx)
    (hs : g'.shape = g.shape) (hw : g'.w = g.w)
    (h : ∀ c ∈ cornersDown g.shape.nd, gradAt g' sm (addIdx q c) = gradAt g sm (addIdx q c)) :
    divLocal g' sm q = divLocal g sm q := by
  sorry

/-- a point whose surrounding bins include `b` is one of the 2^nd points `update_div_neighbors(b)` refreshes -/
theorem touched_points (s : Shape) (hs : ShapeOk s) (b q c : Idx) (hq : PointOk s q)
    (hc : c ∈ cornersDown s.nd) (hb : wrapEdge s.nx s.per (addIdx q c) = some b) :
    ∃ e ∈ cornersUp s.nd, q = wrapIdx s.pmfNx s.per (addIdx b e) := by
  sorry

/-- one sample keeps the divergence up to date -/
theorem sample_keeps_inv (sm : Bool) (st : GGrid ℝ × DivF ℝ) (bf : Idx × List ℝ)
    (hs : ShapeOk st.1.shape) (hb : BinOk st.1.shape bf.1) (h : DivInv sm st) :
    DivInv sm (sample sm st bf) := by
  sorry

/-- **incremental = batch**: after any sequence of samples (any bins, any multiplicity, any order) the incrementally
    maintained divergence equals `set_div` of the final gradients at every point of the PMF grid -/
theorem incremental_eq_batch (sm : Bool) (g : GGrid ℝ) (l : List (Idx × List ℝ))
    (hs : ShapeOk g.shape) (hb : ∀ bf ∈ l, BinOk g.shape bf.1) :
    let fin := samples sm (g, setDiv g sm) l
    ∀ q, PointOk g.shape q → fin.2 q = setDiv fin.1 sm q := by
  sorry

/-- the order of arrival does not matter: two permutations of the same samples give the same gradients, counts and
    divergence -/
theorem arrival_order_irrelevant (sm : Bool) (g : GGrid ℝ) (l₁ l₂ : List (Idx × List ℝ)) (hp : l₁.Perm l₂)
    (hs : ShapeOk g.shape) (hb : ∀ bf ∈ l₁, BinOk g.shape bf.1)
    (hlen : ∀ bf ∈ l₁, bf.2.length = g.shape.nd) (hsum : ∀ j, (g.sum j).length = g.shape.nd) :
    let f₁ := samples sm (g, setDiv g sm) l₁
    let f₂ := samples sm (g, setDiv g sm) l₂
    (∀ j, f₁.1.sum j = f₂.1.sum j) ∧ (∀ j, f₁.1.cnt j = f₂.1.cnt j) ∧
    ∀ q, PointOk g.shape q → f₁.2 q = f₂.2 q := by
  sorry

/-! ## one dimension: the surface is the running sum of bin averages times the width -/

/-- non-periodic: one more point than bins, and point `i` holds the width times the sum of the first `i` bin averages -/
theorem int1d_nonperiodic (g : GGrid ℝ) (sm csm : Bool) (n : Nat) (w : ℝ)
    (hnx : g.shape.nx = [(n : Int)]) (hper : g.shape.per = [false]) (hw : g.w = [w]) :
    (integrate1D g sm csm).length = n + 1 ∧
    ∀ i, i ≤ n → (integrate1D g sm csm).getD i 0 = ((List.range i).map (valOut g sm)).sum * w := by
  sorry

/-- periodic: one point per bin, starting at 0, consecutive points differ by (bin average − mean) × width, and
    continuing over the last bin returns to 0: the surface is periodic -/
theorem int1d_periodic (g : GGrid ℝ) (sm : Bool) (n : Nat) (w : ℝ) (hn : 0 < n)
    (hnx : g.shape.nx = [(n : Int)]) (hper : g.shape.per = [true]) (hw : g.w = [w]) :
    let F := integrate1D g sm sm
    F.length = n ∧ F.getD 0 0 = 0 ∧
    (∀ i, i + 1 < n → F.getD (i + 1) 0 - F.getD i 0 = (valOut g sm i - average1D g sm n) * w) ∧
    F.getD (n - 1) 0 + (valOut g sm (n - 1) - average1D g sm n) * w = 0 := by
  sorry

/-- the mean removed is the mean of the bin averages -/
theorem average1D_eq (g : GGrid ℝ) (sm : Bool) (n : Nat) :
    average1D g sm n = ((List.range n).map (valOut g sm)).sum / (n : ℝ) := by
  sorry

/-- a constant added to every bin average does not change the surface of a periodic variable -/
theorem int1d_periodic_shift (g g' : GGrid ℝ) (sm : Bool) (n : Nat) (w c : ℝ) (hn : 0 < n)
    (hnx : g.shape.nx = [(n : Int)]) (hper : g.shape.per = [true]) (hw : g.w = [w])
    (hs' : g'.shape = g.shape) (hw' : g'.w = g.w)
    (hv : ∀ i, i < n → valOut g' sm i = valOut g sm i + c) :
    integrate1D g' sm sm = integrate1D g sm sm := by
  sorry

/-! ## the Laplacian and the solver -/

/-- the Laplacian annihilates constants: the surface is determined up to an additive constant only -/
theorem lapAt_const (pnx : List Int) (per : List Bool) (w : List ℝ) (c : ℝ) (p : Idx) :
    lapAt pnx per w (fun _ => c) p = 0 := by
  sorry

/-- the Laplacian is linear in the field -/
theorem lapAt_linear (pnx : List Int) (per : List Bool) (w : List ℝ) (A B : Idx → ℝ) (a : ℝ) (p : Idx) :
    lapAt pnx per w (fun q => A q + a * B q) p = lapAt pnx per w A p + a * lapAt pnx per w B p := by
  sorry

/-- `atimes` is a linear operator on vectors of equal length, and its result has one entry per grid point -/
theorem atimes_linear (pnx : List Int) (per : List Bool) (w : List ℝ) (a : ℝ) (x p : List ℝ) (h : x.length = p.length) :
    atimes pnx per w (axpy a p x) = axpy a (atimes pnx per w p) (atimes pnx per w x) ∧
    (atimes pnx per w x).length = (points pnx).length := by
  sorry

/-- what the solver needs from the operator -/
structure LinOp (L : List ℝ → List ℝ) (n : Nat) : Prop where
  len : ∀ x, x.length = n → (L x).length = n
  lin : ∀ a x p, x.length = n → p.length = n → L (axpy a p x) = axpy a (L p) (L x)

/-- conjugate gradients: in exact arithmetic the recursively updated residual is the true residual `b − L x`
    after any number of iterations -/
theorem cg_residual_invariant (L : List ℝ → List ℝ) (n : Nat) (hL : LinOp L n) (b x0 : List ℝ) (tol : ℝ) (itmax : Nat)
    (hb : b.length = n) (hx : x0.length = n) :
    let res := cgSolve L b x0 tol itmax
    res.x.length = n ∧ res.r = List.zipWith (· - ·) b (L res.x) := by
  sorry

/-- when the solver reports convergence, the discrete Laplacian of the result equals the right-hand side to the
    tolerance: `|b − L x| ≤ tol · |b|` -/
theorem cg_exit_bound (L : List ℝ → List ℝ) (n : Nat) (hL : LinOp L n) (b x0 : List ℝ) (tol : ℝ) (itmax : Nat)
    (hb : b.length = n) (hx : x0.length = n) :
    let res := cgSolve L b x0 tol itmax
    res.stop = true → l2norm (List.zipWith (· - ·) b (L res.x)) ≤ tol * l2norm b := by
  sorry

/-- the grid Laplacian is such an operator when the vectors have one entry per point -/
theorem atimes_linop (pnx : List Int) (per : List Bool) (w : List ℝ) :
    LinOp (atimes pnx per w) (points pnx).length := by
  sorry

/-! ## non-vacuity -/

example : ShapeOk { nx := [3, 2], per := [true, false] } := by
  refine ⟨rfl, ?_⟩; intro n hn; simp at hn; rcases hn with rfl | rfl <;> decide
example : BinOk { nx := [3, 2], per := [true, false] } [2, 1] := by unfold BinOk; decide
example : PointOk { nx := [3, 2], per := [true, false] } [2, 2] := by unfold PointOk; decide

end Cv.C16
