import CvProps.C16Lemmas
/-!
# C16 — PMF integration solves the stated discrete problem; incremental equals batch

Property theorems about `CvModel/Integrate.lean` at `α := ℝ`.
-/
open Cv Cv.Integ

namespace Cv.C16

/-- a gradient-grid shape: one periodic flag per dimension, at least one bin per dimension -/
def ShapeOk (s : Shape) : Prop := s.per.length = s.nx.length ∧ ∀ n ∈ s.nx, 1 ≤ n

/-- a bin of the gradient grid -/
def BinOk (s : Shape) (b : Idx) : Prop := indexOk s.nx b = true
/-- a point of the PMF grid -/
def PointOk (s : Shape) (q : Idx) : Prop := indexOk s.pmfNx q = true

/-- the divergence array is up to date with the gradient grid -/
def DivInv (sm : Bool) (st : GGrid ℝ × DivF ℝ) : Prop :=
  ∀ q, PointOk st.1.shape q → st.2 q = divLocal st.1 sm q

/-! ## the divergence kept up to date incrementally equals the one recomputed from scratch -/

/-- the divergence at a point reads the gradient grid only through the 2^nd bins around the point -/
theorem divLocal_congr (g g' : GGrid ℝ) (sm : Bool) (q : Idx)
    (hs : g'.shape = g.shape) (hw : g'.w = g.w)
    (h : ∀ c ∈ cornersDown g.shape.nd, gradAt g' sm (addIdx q c) = gradAt g sm (addIdx q c)) :
    divLocal g' sm q = divLocal g sm q := by
  exact Integ.L.divLocal_congr g g' sm q hs hw h

/-- a point whose surrounding bins include `b` is one of the 2^nd points `update_div_neighbors(b)` refreshes -/
theorem touched_points (s : Shape) (hs : ShapeOk s) (b q c : Idx) (hq : PointOk s q)
    (hc : c ∈ cornersDown s.nd) (hb : wrapEdge s.nx s.per (addIdx q c) = some b) :
    ∃ e ∈ cornersUp s.nd, q = wrapIdx s.pmfNx s.per (addIdx b e) := by
  exact Integ.L.touched_aux s.nx s.per q c b hs.1 hs.2 hq hc hb

/-- one sample keeps the divergence up to date -/
theorem sample_keeps_inv (sm : Bool) (st : GGrid ℝ × DivF ℝ) (bf : Idx × List ℝ)
    (hs : ShapeOk st.1.shape) (hb : BinOk st.1.shape bf.1) (h : DivInv sm st) :
    DivInv sm (sample sm st bf) := by
  have _ := hb -- not needed: the bookkeeping is right for any bin index
  intro q hq
  have hshape : (Integ.accForce st.1 bf.1 bf.2).shape = st.1.shape := rfl
  show updateDivNeighbors (Integ.accForce st.1 bf.1 bf.2) sm st.2 bf.1 q =
    divLocal (Integ.accForce st.1 bf.1 bf.2) sm q
  rw [Integ.L.updateDivNeighbors_eq]
  split_ifs with hex
  · rfl
  · have hq' : PointOk st.1.shape q := hq
    rw [h q hq']
    symm
    apply divLocal_congr _ _ sm q hshape rfl
    intro c hc
    apply Integ.L.gradAt_accForce_of_ne
    intro hwe
    exact hex (touched_points st.1.shape hs bf.1 q c hq' hc hwe)

/-- **incremental = batch**: after any sequence of samples (any bins, any multiplicity, any order) the incrementally
    maintained divergence equals `set_div` of the final gradients at every point of the PMF grid -/
theorem incremental_eq_batch (sm : Bool) (g : GGrid ℝ) (l : List (Idx × List ℝ))
    (hs : ShapeOk g.shape) (hb : ∀ bf ∈ l, BinOk g.shape bf.1) :
    let fin := samples sm (g, setDiv g sm) l
    ∀ q, PointOk g.shape q → fin.2 q = setDiv fin.1 sm q := by
  have key : ∀ (l : List (Idx × List ℝ)) (st : GGrid ℝ × DivF ℝ), st.1.shape = g.shape →
      (∀ bf ∈ l, BinOk g.shape bf.1) → DivInv sm st →
      DivInv sm (samples sm st l) ∧ (samples sm st l).1.shape = g.shape := by
    intro l
    induction l with
    | nil => intro st hsh _ hinv; exact ⟨hinv, hsh⟩
    | cons bf l ih =>
      intro st hsh hbl hinv
      have h1 : DivInv sm (sample sm st bf) :=
        sample_keeps_inv sm st bf (hsh ▸ hs) (hsh ▸ hbl bf (by simp)) hinv
      have h2 : (sample sm st bf).1.shape = g.shape := hsh
      exact ih (sample sm st bf) h2 (fun bf' hbf' => hbl bf' (List.mem_cons_of_mem _ hbf')) h1
  intro fin q hq
  obtain ⟨hinv, hsh⟩ := key l (g, setDiv g sm) rfl hb (fun q _ => rfl)
  exact hinv q (by rw [hsh]; exact hq)

/-- the order of arrival does not matter: two permutations of the same samples give the same gradients, counts and
    divergence -/
theorem arrival_order_irrelevant (sm : Bool) (g : GGrid ℝ) (l₁ l₂ : List (Idx × List ℝ)) (hp : l₁.Perm l₂)
    (hs : ShapeOk g.shape) (hb : ∀ bf ∈ l₁, BinOk g.shape bf.1)
    (hlen : ∀ bf ∈ l₁, bf.2.length = g.shape.nd) (hsum : ∀ j, (g.sum j).length = g.shape.nd) :
    let f₁ := samples sm (g, setDiv g sm) l₁
    let f₂ := samples sm (g, setDiv g sm) l₂
    (∀ j, f₁.1.sum j = f₂.1.sum j) ∧ (∀ j, f₁.1.cnt j = f₂.1.cnt j) ∧
    ∀ q, PointOk g.shape q → f₁.2 q = f₂.2 q := by
  have _ := hlen; have _ := hsum -- not needed: `zipWith` truncates both orders to the same length
  intro f₁ f₂
  have heq : f₁.1 = f₂.1 := Integ.L.samples_fst_perm sm l₁ l₂ hp _
  refine ⟨fun j => by rw [heq], fun j => by rw [heq], ?_⟩
  intro q hq
  have e1 := incremental_eq_batch sm g l₁ hs hb q hq
  have e2 := incremental_eq_batch sm g l₂ hs (fun bf hbf => hb bf (hp.mem_iff.2 hbf)) q hq
  show f₁.2 q = f₂.2 q
  rw [e1, e2]
  show setDiv f₁.1 sm q = setDiv f₂.1 sm q
  rw [heq]

/-! ## one dimension: the surface is the running sum of bin averages times the width -/

/-- non-periodic: one more point than bins, and point `i` holds the width times the sum of the first `i` bin averages -/
theorem int1d_nonperiodic (g : GGrid ℝ) (sm csm : Bool) (n : Nat) (w : ℝ)
    (hnx : g.shape.nx = [(n : Int)]) (hper : g.shape.per = [false]) (hw : g.w = [w]) :
    (integrate1D g sm csm).length = n + 1 ∧
    ∀ i, i ≤ n → (integrate1D g sm csm).getD i 0 = ((List.range i).map (valOut g sm)).sum * w := by
  rw [Integ.L.integrate1D_eq g sm csm n w false hnx hper hw]
  simp only [Bool.false_eq_true, if_false, sub_zero]
  refine ⟨by simp [Integ.L.prefixSums_length], ?_⟩
  intro i hi
  rw [Integ.L.prefixSums_getD _ _ _ (by simpa using hi), Integ.L.take_map_range _ _ _ hi, zero_add]
  have := Integ.L.sum_map_sub_mul (valOut g sm) 0 w (List.range i)
  simpa using this

/-- periodic: one point per bin, starting at 0, consecutive points differ by (bin average − mean) × width, and
    continuing over the last bin returns to 0: the surface is periodic -/
theorem int1d_periodic (g : GGrid ℝ) (sm : Bool) (n : Nat) (w : ℝ) (hn : 0 < n)
    (hnx : g.shape.nx = [(n : Int)]) (hper : g.shape.per = [true]) (hw : g.w = [w]) :
    let F := integrate1D g sm sm
    F.length = n ∧ F.getD 0 0 = 0 ∧
    (∀ i, i + 1 < n → F.getD (i + 1) 0 - F.getD i 0 = (valOut g sm i - average1D g sm n) * w) ∧
    F.getD (n - 1) 0 + (valOut g sm (n - 1) - average1D g sm n) * w = 0 := by
  intro F
  have hF : F = (prefixSums 0 ((List.range n).map fun i => (valOut g sm i - average1D g sm n) * w)).take n := by
    show integrate1D g sm sm = _
    rw [Integ.L.integrate1D_eq g sm sm n w true hnx hper hw]; simp
  have hget : ∀ i, i < n → F.getD i 0 =
      ((List.range i).map fun j => (valOut g sm j - average1D g sm n) * w).sum := by
    intro i hi
    rw [hF, List.getD_eq_getElem?_getD, List.getElem?_take_of_lt hi, ← List.getD_eq_getElem?_getD,
      Integ.L.prefixSums_getD _ _ _ (by simp; omega), Integ.L.take_map_range _ _ _ (le_of_lt hi), zero_add]
  refine ⟨?_, ?_, ?_, ?_⟩
  · rw [hF]; simp [Integ.L.prefixSums_length]
  · rw [hget 0 hn]; simp
  · intro i hi
    rw [hget (i + 1) hi, hget i (by omega), List.range_succ]
    simp
  · rw [hget (n - 1) (by omega)]
    have h1 : ((List.range (n - 1)).map fun j => (valOut g sm j - average1D g sm n) * w).sum +
        (valOut g sm (n - 1) - average1D g sm n) * w =
        ((List.range n).map fun j => (valOut g sm j - average1D g sm n) * w).sum := by
      have hr : List.range n = List.range (n - 1) ++ [n - 1] := by
        rw [← List.range_succ]; congr 1; omega
      rw [hr]; simp
    rw [h1, Integ.L.sum_map_sub_mul, Integ.L.average1D_eq]
    have hn' : (n : ℝ) ≠ 0 := by exact_mod_cast (by omega : n ≠ 0)
    simp only [List.length_range]
    field_simp
    ring

/-- the mean removed is the mean of the bin averages -/
theorem average1D_eq (g : GGrid ℝ) (sm : Bool) (n : Nat) :
    average1D g sm n = ((List.range n).map (valOut g sm)).sum / (n : ℝ) := by
  exact Integ.L.average1D_eq g sm n

/-- a constant added to every bin average does not change the surface of a periodic variable -/
theorem int1d_periodic_shift (g g' : GGrid ℝ) (sm : Bool) (n : Nat) (w c : ℝ) (hn : 0 < n)
    (hnx : g.shape.nx = [(n : Int)]) (hper : g.shape.per = [true]) (hw : g.w = [w])
    (hs' : g'.shape = g.shape) (hw' : g'.w = g.w)
    (hv : ∀ i, i < n → valOut g' sm i = valOut g sm i + c) :
    integrate1D g' sm sm = integrate1D g sm sm := by
  have hnx' : g'.shape.nx = [(n : Int)] := by rw [hs']; exact hnx
  have hper' : g'.shape.per = [true] := by rw [hs']; exact hper
  have hw'' : g'.w = [w] := by rw [hw']; exact hw
  rw [Integ.L.integrate1D_eq g sm sm n w true hnx hper hw,
    Integ.L.integrate1D_eq g' sm sm n w true hnx' hper' hw'']
  have hn' : (n : ℝ) ≠ 0 := by exact_mod_cast (by omega : n ≠ 0)
  have hsum : ∀ m, m ≤ n → ((List.range m).map (valOut g' sm)).sum =
      ((List.range m).map (valOut g sm)).sum + (m : ℝ) * c := by
    intro m
    induction m with
    | zero => intro _; simp
    | succ m ih =>
      intro hm
      rw [List.range_succ, List.map_append, List.sum_append, List.map_append, List.sum_append,
        ih (by omega)]
      simp only [List.map_cons, List.map_nil, List.sum_cons, List.sum_nil, add_zero]
      rw [hv m (by omega)]
      push_cast; ring
  have havg : average1D g' sm n = average1D g sm n + c := by
    rw [average1D_eq, average1D_eq, hsum n (le_refl _)]
    field_simp
  simp only [if_true]
  congr 2
  apply List.map_congr_left
  intro i hi
  rw [hv i (List.mem_range.1 hi), havg]
  ring

/-! ## the Laplacian and the solver -/

/-- the Laplacian annihilates constants: the surface is determined up to an additive constant only -/
theorem lapAt_const (pnx : List Int) (per : List Bool) (w : List ℝ) (c : ℝ) (p : Idx) :
    lapAt pnx per w (fun _ => c) p = 0 := by
  exact Integ.L.lapAt_const pnx per w c p

/-- the Laplacian is linear in the field -/
theorem lapAt_linear (pnx : List Int) (per : List Bool) (w : List ℝ) (A B : Idx → ℝ) (a : ℝ) (p : Idx) :
    lapAt pnx per w (fun q => A q + a * B q) p = lapAt pnx per w A p + a * lapAt pnx per w B p := by
  exact Integ.L.lapAt_linear pnx per w A B a p

/-- `atimes` is a linear operator on vectors of equal length, and its result has one entry per grid point -/
theorem atimes_linear (pnx : List Int) (per : List Bool) (w : List ℝ) (a : ℝ) (x p : List ℝ) (h : x.length = p.length) :
    atimes pnx per w (axpy a p x) = axpy a (atimes pnx per w p) (atimes pnx per w x) ∧
    (atimes pnx per w x).length = (points pnx).length := by
  exact ⟨Integ.L.atimes_axpy pnx per w a x p h, Integ.L.atimes_length pnx per w x⟩

/-- what the solver needs from the operator -/
structure LinOp (L : List ℝ → List ℝ) (n : Nat) : Prop where
  len : ∀ x, x.length = n → (L x).length = n
  lin : ∀ a x p, x.length = n → p.length = n → L (axpy a p x) = axpy a (L p) (L x)

/-- conjugate gradients: in exact arithmetic the recursively updated residual is the true residual `b − L x`
    after any number of iterations -/
theorem cg_residual_invariant (L : List ℝ → List ℝ) (n : Nat) (hL : LinOp L n) (b x0 : List ℝ) (tol : ℝ) (itmax : Nat)
    (hb : b.length = n) (hx : x0.length = n) :
    let res := cgSolve L b x0 tol itmax
    res.x.length = n ∧ res.r = List.zipWith (· - ·) b (L res.x) := by
  intro res
  obtain ⟨h1, _, _, h4, _⟩ := Integ.L.cgSolve_inv L n hL.len hL.lin b x0 tol itmax hb hx
  exact ⟨h1, h4⟩

/-- when the solver reports convergence, the discrete Laplacian of the result equals the right-hand side to the
    tolerance: `|b − L x| ≤ tol · |b|` -/
theorem cg_exit_bound (L : List ℝ → List ℝ) (n : Nat) (hL : LinOp L n) (b x0 : List ℝ) (tol : ℝ) (itmax : Nat)
    (hb : b.length = n) (hx : x0.length = n) :
    let res := cgSolve L b x0 tol itmax
    res.stop = true → l2norm (List.zipWith (· - ·) b (L res.x)) ≤ tol * l2norm b := by
  intro res hstop
  obtain ⟨_, _, _, h4, h5⟩ := Integ.L.cgSolve_inv L n hL.len hL.lin b x0 tol itmax hb hx
  have hpos := Integ.L.cgSolve_stop_pos L b x0 tol itmax hstop
  have := h5 hstop
  rw [div_le_iff₀ hpos] at this
  rw [← h4]
  exact this

/-- the grid Laplacian is such an operator when the vectors have one entry per point -/
theorem atimes_linop (pnx : List Int) (per : List Bool) (w : List ℝ) :
    LinOp (atimes pnx per w) (points pnx).length := by
  refine ⟨fun x _ => Integ.L.atimes_length pnx per w x, ?_⟩
  intro a x p hx hp
  exact Integ.L.atimes_axpy pnx per w a x p (hx.trans hp.symm)

/-! ## non-vacuity -/

example : ShapeOk { nx := [3, 2], per := [true, false] } := by
  refine ⟨rfl, ?_⟩; intro n hn; simp at hn; rcases hn with rfl | rfl <;> decide
example : BinOk { nx := [3, 2], per := [true, false] } [2, 1] := by unfold BinOk; decide
example : PointOk { nx := [3, 2], per := [true, false] } [2, 2] := by unfold PointOk; decide

/-! ## where the points of the surface sit -/

/-- the `j`-th value of the surface is reported at the **lower edge of gradient bin `j`** (`lo + j·w`), in periodic and
    non-periodic dimensions alike: the gradients are bin averages and the surface is their cumulative sum, so that is the
    point up to which `int1d` has integrated.  (A half-bin shift applied only to non-periodic dimensions moves the surface of a
    periodic one by `w/2` and turns the second-order agreement with a smooth surface into first order.) -/
theorem surface_point_at_bin_edge (lo w : ℝ) (j : Int) : pmfCoord lo w j = lo + w * (j : ℝ) := by
  unfold pmfCoord pmfLower
  norm_num
  ring

/-- consecutive points are one bin width apart -/
theorem surface_points_spacing (lo w : ℝ) (j : Int) : pmfCoord lo w (j + 1) - pmfCoord lo w j = w := by
  rw [surface_point_at_bin_edge, surface_point_at_bin_edge]
  push_cast
  ring

end Cv.C16
