import CvProps.C07Lemmas
/-!
# C07 — total-force measurement is the inverse of force application

Property theorems about `CvModel/Geom.lean` (component level) and `CvModel/Module.lean` (`cvUpdate`: timing and
subtraction of the applied force) at `α := ℝ`.  Force application gives atom `i` the force `f · ∇ᵢq`; measuring the
total force projects the atomic forces on the inverse gradients.
-/
open Cv Cv.Geom

namespace Cv.C07

def MassOk (g : AGroup ℝ) : Prop := g ≠ [] ∧ ∀ a ∈ g, 0 < a.m

/-- the atomic forces that result from applying the force `f` on a component through its gradients -/
noncomputable def applied (f : ℝ) (grads : List (V3 ℝ)) : List (V3 ℝ) := grads.map (V3.smul f)
noncomputable def addF (a b : List (V3 ℝ)) : List (V3 ℝ) := List.zipWith V3.add a b

/-! ## measurement inverts application -/

theorem distance_inverse (g1 g2 : AGroup ℝ) (h1 : MassOk g1) (h2 : MassOk g2) (hne : distance g1 g2 ≠ 0) (f : ℝ)
    (oneSite : Bool) :
    distanceTF g1 g2 (applied f (distanceGrad g1 g2).1) (applied f (distanceGrad g1 g2).2) oneSite = f := by
  have hu := unit_dot_self (distVec g1 g2) hne
  unfold distanceTF distanceGrad applied
  simp only [groupForce_applied, groupForce_weighted g1 h1.1 h1.2, groupForce_weighted g2 h2.1 h2.2]
  generalize V3.unit (distVec g1 g2) = u at hu ⊢
  cases oneSite <;>
    simp only [V3.dot, V3.smul, V3.sub, lit1, lit05, if_true, if_false, Bool.false_eq_true] at hu ⊢ <;>
    linear_combination f * hu

theorem distanceZ_inverse (main ref : AGroup ℝ) (axis : V3 ℝ) (hm : MassOk main) (hr : MassOk ref)
    (hax : V3.norm axis ≠ 0) (f : ℝ) (oneSite : Bool) :
    distanceZTF main ref axis (applied f (distanceZGrad main ref axis).1) (applied f (distanceZGrad main ref axis).2) oneSite = f := by
  have hu := unit_dot_self axis hax
  unfold distanceZTF distanceZGrad applied
  simp only [groupForce_applied, groupForce_weighted main hm.1 hm.2, groupForce_weighted ref hr.1 hr.2]
  generalize V3.unit axis = u at hu ⊢
  cases oneSite <;>
    simp only [V3.dot, V3.smul, V3.sub, lit1, lit05, if_true, if_false, Bool.false_eq_true] at hu ⊢ <;>
    linear_combination f * hu

theorem distanceXY_inverse (main ref : AGroup ℝ) (axis : V3 ℝ) (hm : MassOk main) (hr : MassOk ref)
    (hne : distanceXY main ref axis ≠ 0) (f : ℝ) (oneSite : Bool) :
    distanceXYTF main ref axis (applied f (distanceXYGrad main ref axis).1) (applied f (distanceXYGrad main ref axis).2) oneSite = f := by
  have hx : V3.norm (orthoPart main ref axis) ≠ 0 := hne
  have hsq := norm_mul_self (orthoPart main ref axis)
  unfold distanceXYTF distanceXYGrad applied
  simp only [groupForce_applied, groupForce_weighted main hm.1 hm.2, groupForce_weighted ref hr.1 hr.2]
  generalize orthoPart main ref axis = o at hx hsq ⊢
  generalize V3.norm o = x at hx hsq ⊢
  cases oneSite <;>
    simp only [V3.dot, V3.smul, V3.sub, lit1, lit05, if_true, if_false, Bool.false_eq_true] at hsq ⊢ <;>
    field_simp <;>
    first | linear_combination (-f) * hsq | linear_combination (-2 * f) * hsq

theorem gyration_inverse (g : AGroup ℝ) (hg : g ≠ []) (hne : gyration g ≠ 0) (f : ℝ) :
    gyrationTF g (applied f (gyrationGrad g)) = f := by
  have hN : (0:ℝ) < (g.length : ℝ) := by
    have : 0 < g.length := List.length_pos_of_ne_nil hg
    exact_mod_cast this
  have hS := sum_norm2_nonneg (centered g)
  have hG : gyration g * gyration g = ((centered g).map V3.norm2).sum / (g.length : ℝ) := by
    unfold gyration
    rw [foldl_add_map, lit0, zero_add, prim_sqrt]
    exact Real.mul_self_sqrt (div_nonneg hS hN.le)
  unfold gyrationTF gyrationGrad applied
  simp only []
  rw [foldl_plus, lit0, zero_add, sum_zip_self]
  generalize ((centered g).map V3.norm2).sum = S at hG hS ⊢
  generalize gyration g = G at hG hne ⊢
  have hN' := hN.ne'
  rw [lit1]
  field_simp at hG ⊢
  linear_combination (-f) * hG

/-! ## the measurement is linear in the atomic forces -/

theorem distance_linear (g1 g2 : AGroup ℝ) (a1 b1 a2 b2 : List (V3 ℝ)) (k : ℝ) (oneSite : Bool)
    (hl1 : a1.length = b1.length) (hl2 : a2.length = b2.length) :
    distanceTF g1 g2 (addF a1 (applied k b1)) (addF a2 (applied k b2)) oneSite =
      distanceTF g1 g2 a1 a2 oneSite + k * distanceTF g1 g2 b1 b2 oneSite := by
  unfold distanceTF addF applied
  have e1 : (List.map (V3.smul k) b1).length = b1.length := by simp
  have e2 : (List.map (V3.smul k) b2).length = b2.length := by simp
  simp only [groupForce_addF _ _ (hl1.trans e1.symm), groupForce_addF _ _ (hl2.trans e2.symm), groupForce_applied]
  cases oneSite <;>
    simp only [V3.dot, V3.smul, V3.sub, V3.add, lit1, lit05, if_true, if_false, Bool.false_eq_true] <;> ring

theorem distanceZ_linear (main ref : AGroup ℝ) (axis : V3 ℝ) (a1 b1 a2 b2 : List (V3 ℝ)) (k : ℝ) (oneSite : Bool)
    (hl1 : a1.length = b1.length) (hl2 : a2.length = b2.length) :
    distanceZTF main ref axis (addF a1 (applied k b1)) (addF a2 (applied k b2)) oneSite =
      distanceZTF main ref axis a1 a2 oneSite + k * distanceZTF main ref axis b1 b2 oneSite := by
  unfold distanceZTF addF applied
  have e1 : (List.map (V3.smul k) b1).length = b1.length := by simp
  have e2 : (List.map (V3.smul k) b2).length = b2.length := by simp
  simp only [groupForce_addF _ _ (hl1.trans e1.symm), groupForce_addF _ _ (hl2.trans e2.symm), groupForce_applied]
  cases oneSite <;>
    simp only [V3.dot, V3.smul, V3.sub, V3.add, lit05, if_true, if_false, Bool.false_eq_true] <;> ring

theorem gyration_linear (g : AGroup ℝ) (a b : List (V3 ℝ)) (k : ℝ) (hl : a.length = b.length) (hg : a.length = g.length) :
    gyrationTF g (addF a (applied k b)) = gyrationTF g a + k * gyrationTF g b := by
  have _ := hg
  unfold gyrationTF addF applied
  simp only [foldl_plus, lit0, zero_add]
  exact sum_zip_linear _ _ a b k hl

/-! ## combination of components with coefficients -/

/-- a force `f` on the variable is applied to component `i` as `f cᵢ`; each component measures `f cᵢ` back; the
    variable reports `Σ (f cᵢ) cᵢ / Σ cᵢ² = f` (in particular for ±1 combinations) -/
theorem combination_inverse (cs : List ℝ) (f : ℝ) (hc : (cs.map fun c => c * c).sum ≠ 0) :
    combineTF (cs.map fun c => (c, f * c)) = f := by
  unfold combineTF
  rw [foldl_add_map (fun t : ℝ × ℝ => t.2 * t.1), foldl_add_map (fun t : ℝ × ℝ => t.1 * t.1), lit0, zero_add, zero_add,
    sum_combine, sum_combine2]
  exact mul_div_cancel_right₀ f hc

/-! ## what is handed to the biases: timing and subtraction of Colvars' own force -/

/-- late total forces: at the first step of a run there is no force of a previous step, and the stored value is kept;
    afterwards the engine's force (which refers to the previous step) is taken -/
theorem timing_late (m : Sys ℝ) (c : Clock) (i : StepIn ℝ) (v : CvSt ℝ) (hcalc : v.tfCalc = true)
    (hsame : m.tfSame = false) (hsub : v.subtract = false) :
    (cvUpdate m c i v).ft =
      if c.stepRelative > 0 then (if m.tfLoop then i.tfz v.atom + lookupF m.lastApplied v.atom else i.tfz v.atom) else v.ft := by
  unfold cvUpdate
  simp only [hcalc, hsame, hsub, Bool.not_true, Bool.not_false, Bool.and_true, Bool.false_and, Bool.false_eq_true,
    if_false]

/-- same-step total forces are taken as given at every step, and nothing of Colvars is contained in them -/
theorem timing_same_step (m : Sys ℝ) (c : Clock) (i : StepIn ℝ) (v : CvSt ℝ) (hcalc : v.tfCalc = true)
    (hsame : m.tfSame = true) :
    (cvUpdate m c i v).ft = i.tfz v.atom := by
  unfold cvUpdate
  simp only [hcalc, hsame, Bool.not_true, Bool.and_false, Bool.false_and, Bool.false_eq_true, if_false, if_true]

/-- `subtractAppliedForce`: the force Colvars applied to the variable at the step the engine's force refers to is
    removed (when a force was received at all) -/
theorem subtract_applied (m : Sys ℝ) (c : Clock) (i : StepIn ℝ) (v : CvSt ℝ) (hcalc : v.tfCalc = true)
    (hsame : m.tfSame = false) (hsub : v.subtract = true) (hrel : c.stepRelative > 0)
    (hnz : (if m.tfLoop then i.tfz v.atom + lookupF m.lastApplied v.atom else i.tfz v.atom) ≠ 0) :
    (cvUpdate m c i v).ft = (if m.tfLoop then i.tfz v.atom + lookupF m.lastApplied v.atom else i.tfz v.atom) - v.fOld := by
  unfold cvUpdate
  have hpos : (if m.tfLoop then i.tfz v.atom + lookupF m.lastApplied v.atom else i.tfz v.atom) *
      (if m.tfLoop then i.tfz v.atom + lookupF m.lastApplied v.atom else i.tfz v.atom) > 0.0 := by
    rw [lit0]; exact mul_self_pos.mpr hnz
  simp only [hcalc, hsame, hsub, hrel, Bool.not_true, Bool.not_false, Bool.and_true, Bool.false_eq_true,
    if_false, if_true, hpos, decide_true]

/-- the point the hypothesis `hnz` of `subtract_applied` excludes: when the engine's total force on the variable is exactly zero the
    code takes it for "not measured" (`if (ft.norm2() > 0.0) ft -= f_old`) and reports `0` instead of `−f_old`: the property's
    clause "excludes Colvars' own applied force" fails at this one input (listed finding; replayed on the implementation by the
    directed case `zero_total` of the C07 generator) -/
theorem subtract_applied_zero_total (m : Sys ℝ) (c : Clock) (i : StepIn ℝ) (v : CvSt ℝ) (hcalc : v.tfCalc = true)
    (hsame : m.tfSame = false) (hsub : v.subtract = true) (hrel : c.stepRelative > 0) (hloop : m.tfLoop = false)
    (hz : i.tfz v.atom = 0) :
    (cvUpdate m c i v).ft = 0 := by
  unfold cvUpdate
  simp only [hcalc, hsame, hsub, hrel, hloop, hz, Bool.not_true, Bool.not_false, Bool.and_true, Bool.false_eq_true, Bool.false_and,
    if_false, if_true, decide_true]
  norm_num

end Cv.C07
