import CvModel.Deps
/-!
# C13 — helper lemmas for the dependency engine (`CvModel/Deps.lean`)
-/
open Cv Cv.Deps Cv.Gen

namespace Cv.C13

/-- a left fold whose step never moves the first component away from `F` ends with first component `F` -/
theorem foldl_fst_inv {α β γ : Type} (step : α × β → γ → α × β) (F : α)
    (h : ∀ acc x, acc.1 = F → (step acc x).1 = F) :
    ∀ (l : List γ) (acc : α × β), acc.1 = F → (l.foldl step acc).1 = F := by
  intro l
  induction l with
  | nil => intro acc h0; exact h0
  | cons x xs ih => intro acc h0; exact ih _ (h acc x h0)

/-- the control skeleton of `enable … (dry := true)`: every exit returns the initial forest as soon as the three
    requirement folds do -/
theorem dry_shape {α : Type} (F : α) (c1 c2 c3 c4 : Prop) [Decidable c1] [Decidable c2] [Decidable c3]
    [Decidable c4] (X : α) (R1 R2 R3 Z : α × Bool)
    (hX : X = F) (h1 : R1.1 = F) (h2 : R2.1 = F) (h3 : R3.1 = F) :
    (if c1 then (X, true) else if c2 then (F, false) else if c3 then (F, false) else
      if c4 then (F, false) else if (!R1.2) = true then R1 else if (!R2.2) = true then R2 else
      if (!R3.2) = true then R3 else if true = true then (R3.1, true) else Z).1 = F := by
  repeat' split
  all_goals first | assumption | rfl | skip
  all_goals simp at *

section
variable (n : Nat) (ih : ∀ (F : Forest) (o f : Nat) (tl : Bool), (enable n F o f true tl false).1 = F)
include ih

/-- `requires_self` in a dry run -/
theorem dry_self_fold (F : Forest) (o : Nat) (l : List Nat) (acc : Forest × Bool) (h : acc.1 = F) :
    (l.foldl (fun (acc : Forest × Bool) g =>
        if !acc.2 then acc else enable n acc.1 o g true false false) acc).1 = F := by
  refine foldl_fst_inv _ F ?_ l acc h
  intro acc g h
  split
  · exact h
  · rw [ih]; exact h

/-- the test of the alternatives of one `requires_alt` entry in a dry run outside an error report -/
theorem dry_tested_fold (F : Forest) (o : Nat) (l : List Nat) (t : Forest × Option Nat) (h : t.1 = F) :
    (l.foldl (fun (t : Forest × Option Nat) g =>
        match t.2 with
        | some _ => t
        | none =>
          let r := enable n t.1 o g true false false
          (r.1, if r.2 then some g else none)) t).1 = F := by
  refine foldl_fst_inv _ F ?_ l t h
  intro t g h
  split
  · exact h
  · dsimp only
    rw [ih]; exact h

/-- `requires_alt` in a dry run outside an error report: every branch taken returns the forest left by the tests -/
theorem dry_alt_fold (F : Forest) (o f : Nat) (l : List (List Nat)) (acc : Forest × Bool) (h : acc.1 = F) :
    (l.foldl (fun (acc : Forest × Bool) alts =>
        if !acc.2 then acc else
        let tested := alts.foldl (fun (t : Forest × Option Nat) g =>
            match t.2 with
            | some _ => t
            | none =>
              let r := enable n t.1 o g true false false
              (r.1, if r.2 then some g else none)) (acc.1, none)
        match tested.2 with
        | none =>
          if !true then (alts.foldl (fun F g => (enable n F o g false false true).1) tested.1, false) else (tested.1, false)
        | some g =>
          if !true || false then
            let F' := (enable n tested.1 o g false false false).1
            (setF F' o f { (getF F' o f) with altRefs := (getF F' o f).altRefs ++ [g] }, true)
          else (tested.1, true)) acc).1 = F := by
  refine foldl_fst_inv _ F ?_ l acc h
  intro acc alts h
  split
  · exact h
  · have ht := dry_tested_fold n ih F o alts (acc.1, none) h
    dsimp only
    split <;> exact ht

/-- `requires_children` in a dry run -/
theorem dry_children_fold (F : Forest) (o : Nat) (l : List Nat) (acc : Forest × Bool) (h : acc.1 = F) :
    (l.foldl (fun (acc : Forest × Bool) g =>
        (childrenOf acc.1 o).foldl (fun (acc : Forest × Bool) ch =>
          if !acc.2 then acc else enable n acc.1 ch g (true || !isActive acc.1 o) false false) acc) acc).1 = F := by
  refine foldl_fst_inv _ F ?_ l acc h
  intro acc g h
  refine foldl_fst_inv _ F ?_ _ acc h
  intro acc ch h
  split
  · exact h
  · rw [Bool.true_or, ih]; exact h

end

/-- a dry run of `enable` outside an error report (`err = false`) returns the forest it was given -/
theorem enable_dry_fst (fuel : Nat) : ∀ (F : Forest) (o f : Nat) (tl : Bool),
    (enable fuel F o f true tl false).1 = F := by
  induction fuel with
  | zero => intro F o f tl; rw [enable]
  | succ n ih =>
    intro F o f tl
    rw [enable]
    apply dry_shape
    · simp
    · exact dry_self_fold n ih F o _ _ rfl
    · exact dry_alt_fold n ih F o f _ _ (dry_self_fold n ih F o _ _ rfl)
    · exact dry_children_fold n ih F o _ _
        (dry_alt_fold n ih F o f _ _ (dry_self_fold n ih F o _ _ rfl))

end Cv.C13
