import CvModel
/-!
# Helper lemmas for C11 (binary stream model and file-replacement model)
Core Lean only.
-/
open Cv Cv.MS

namespace Cv.C11

/-! ## little-endian encoding -/

theorem le64_length (n : Nat) : (le64 n).length = 8 := by
  simp [le64]

theorem le64_eq (n : Nat) : le64 n =
    [UInt8.ofNat (n % 256), UInt8.ofNat (n / 256 % 256), UInt8.ofNat (n / 256 ^ 2 % 256),
     UInt8.ofNat (n / 256 ^ 3 % 256), UInt8.ofNat (n / 256 ^ 4 % 256), UInt8.ofNat (n / 256 ^ 5 % 256),
     UInt8.ofNat (n / 256 ^ 6 % 256), UInt8.ofNat (n / 256 ^ 7 % 256)] := by
  simp [le64, List.range, List.range.loop]

theorem toNat_ofNat_mod (x : Nat) : (UInt8.ofNat (x % 256)).toNat = x % 256 := by
  simp

theorem fromLe_le64 (n : Nat) (h : n < two64) : fromLe (le64 n) = n := by
  rw [le64_eq]
  simp only [fromLe, List.foldr, toNat_ofNat_mod]
  unfold two64 at h
  omega


/-! ## writing into the zero-filled tail -/

theorem writeAt_tail (pre bytes : List UInt8) (k p : Nat) (hp : p = pre.length) :
    writeAt (pre ++ List.replicate k 0) p bytes = pre ++ bytes ++ List.replicate (k - bytes.length) 0 := by
  subst hp
  simp [writeAt, List.drop_append]

/-- the result of `write_vector` on a good stream whose data fills its buffer -/
theorem writeVec_eq (s : St) (n : Nat) (bytes : List UInt8) (hgood : s.state = 0)
    (hlen : s.len = s.buf.length) (h : s.buf.length + 8 + bytes.length ≤ s.maxLen) :
    writeVec s n bytes =
      { s with buf := s.buf ++ le64 n ++ bytes, len := s.buf.length + 8 + bytes.length } := by
  have h' : s.buf.length + (8 + bytes.length) ≤ s.maxLen := by omega
  simp only [writeVec, writeVecAdv, expand, h', if_true, good, hgood]
  simp only [beq_self_eq_true, if_true]
  rw [writeAt_tail s.buf (le64 n) _ _ hlen, le64_length]
  rw [writeAt_tail (s.buf ++ le64 n) bytes _ _ (by simp [le64_length, hlen])]
  simp [hlen]

theorem writeObj_eq (s : St) (bytes : List UInt8) (hgood : s.state = 0)
    (hlen : s.len = s.buf.length) (h : s.buf.length + bytes.length ≤ s.maxLen) :
    writeObj s bytes = { s with buf := s.buf ++ bytes, len := s.buf.length + bytes.length } := by
  simp only [writeObj, expand, h, if_true, good, hgood]
  simp only [beq_self_eq_true, if_true]
  rw [writeAt_tail s.buf bytes _ _ hlen]
  simp [hlen]

/-! ## remaining -/

theorem remaining_eq (s : St) (hr : s.rpos ≤ s.len) (h64 : s.len < two64) :
    remaining s = s.len - s.rpos := by
  unfold remaining
  unfold two64 at *
  omega


/-! ## what the readers do on a well-formed reader state -/

theorem readObj_spec (s : St) (size : Nat) (hlen : s.len ≤ s.buf.length)
    (hr : s.rpos ≤ s.len) (h64 : s.len < two64) :
    readObj s size =
      if size ≤ s.len - s.rpos then
        .ok { s with rpos := s.rpos + size, state := 0 } ((s.buf.drop s.rpos).take size)
      else .fail { s with state := s.state ||| 2 } := by
  have r1 : remaining { s with state := s.state ||| 2 } = s.len - s.rpos := remaining_eq _ hr h64
  simp only [readObj, hasRemaining, r1, decide_eq_true_eq, slice]
  split
  · rw [if_pos (by omega)]
  · rfl

theorem readVec_spec (s : St) (esz : Nat) (he : 0 < esz) (hlen : s.len ≤ s.buf.length)
    (hr : s.rpos ≤ s.len) (h64 : s.len < two64) :
    readVec s esz =
      if 8 ≤ s.len - s.rpos then
        if fromLe ((s.buf.drop s.rpos).take 8) * esz ≤ s.len - (s.rpos + 8) then
          .ok { s with rpos := s.rpos + 8 + fromLe ((s.buf.drop s.rpos).take 8) * esz, state := 0 }
            (fromLe ((s.buf.drop s.rpos).take 8),
              (s.buf.drop (s.rpos + 8)).take (fromLe ((s.buf.drop s.rpos).take 8) * esz))
        else .fail { s with rpos := s.rpos + 8, state := (s.state ||| 2) ||| 4 }
      else .fail { s with state := s.state ||| 2 } := by
  have r1 : remaining { s with state := s.state ||| 2 } = s.len - s.rpos := remaining_eq _ hr h64
  by_cases h8 : 8 ≤ s.len - s.rpos
  · have r2 : remaining { s with state := s.state ||| 2, rpos := s.rpos + 8 } = s.len - (s.rpos + 8) :=
      remaining_eq _ (by show s.rpos + 8 ≤ s.len; omega) h64
    have hb : s.rpos + 8 ≤ s.buf.length := by omega
    simp only [readVec, hasRemaining, r1, r2, decide_eq_true_eq, slice, h8, hb, if_true,
      Nat.le_div_iff_mul_le he]
    by_cases hn : fromLe ((s.buf.drop s.rpos).take 8) * esz ≤ s.len - (s.rpos + 8)
    · have hm : fromLe ((s.buf.drop s.rpos).take 8) * esz % two64 =
          fromLe ((s.buf.drop s.rpos).take 8) * esz := Nat.mod_eq_of_lt (by omega)
      have hb2 : s.rpos + 8 + fromLe ((s.buf.drop s.rpos).take 8) * esz ≤ s.buf.length := by omega
      simp only [hm, hn, and_self, if_true, hb2]
    · simp only [hn, false_and, if_false]
  · simp only [readVec, hasRemaining, r1, decide_eq_true_eq, h8, if_false]


/-- reading a serialised vector that sits after `pre` in the buffer -/
theorem readVec_serialised (pre bytes : List UInt8) (esz n : Nat) (he : 0 < esz)
    (hb : bytes.length = n * esz) (h64 : pre.length + 8 + bytes.length < two64) :
    readVec { (ofBytes (pre ++ le64 n ++ bytes)) with rpos := pre.length } esz =
      .ok { (ofBytes (pre ++ le64 n ++ bytes)) with rpos := pre.length + 8 + bytes.length } (n, bytes) := by
  have hn : n < two64 := by
    have : n * 1 ≤ n * esz := Nat.mul_le_mul_left n he
    omega
  have hL : (pre ++ le64 n ++ bytes).length = pre.length + 8 + bytes.length := by
    simp [le64_length]; omega
  rw [readVec_spec _ _ he (by simp [ofBytes]) (by simp [ofBytes, le64_length])
    (by simp only [ofBytes, hL]; exact h64)]
  have d1 : (pre ++ le64 n ++ bytes).drop pre.length = le64 n ++ bytes := by simp
  have d2 : (pre ++ le64 n ++ bytes).drop (pre.length + 8) = bytes :=
    List.drop_left' (by simp [le64_length])
  have t1 : (le64 n ++ bytes).take 8 = le64 n := List.take_left' (le64_length n)
  simp only [ofBytes, hL, d1, d2, t1, fromLe_le64 n hn, ← hb, List.take_length]
  rw [if_pos (by omega), if_pos (by omega)]

theorem take8_take (n k : Nat) (bytes : List UInt8) (hk : 8 ≤ k) :
    ((le64 n ++ bytes).take k).take 8 = le64 n := by
  rw [List.take_take, Nat.min_eq_left hk]
  exact List.take_left' (le64_length n)

/-! ## file-replacement model -/
open Cv.FS

theorem run_append (d : Disk) (l1 l2 : List Op) : run d (l1 ++ l2) = run (run d l1) l2 := by
  simp [run, List.foldl_append]

theorem run_writes (x : Bytes) (o : Option Bytes) (chunks : List Bytes) :
    run { f := some x, old := o } (chunks.map .write) = { f := some (x ++ chunks.flatten), old := o } := by
  induction chunks generalizing x with
  | nil => simp [run]
  | cons c cs ih =>
    have := ih (x ++ c)
    simp only [run] at this
    simp [run, step, this]

/-- only `backup` touches the `.old` name -/
theorem step_old (d : Disk) (op : Op) (h : op ≠ .backup) : (step d op).old = d.old := by
  cases op <;> simp_all [step]

theorem run_old (d : Disk) (l : List Op) (h : ∀ op ∈ l, op ≠ .backup) : (run d l).old = d.old := by
  induction l generalizing d with
  | nil => rfl
  | cons a l ih =>
    show (run (step d a) l).old = d.old
    rw [ih _ (fun op hop => h op (List.mem_cons_of_mem _ hop)), step_old _ _ (h a (List.mem_cons_self ..))]

theorem crashAt_old (d : Disk) (ops : List Op) (k j : Nat) :
    (crashAt d ops k j).old = (run d (ops.take k)).old := by
  unfold crashAt
  split <;> simp [step]

theorem replaceOps_tail_noBackup (chunks : List Bytes) :
    ∀ op ∈ (Op.openTrunc :: (chunks.map Op.write ++ [Op.close])), op ≠ .backup := by
  intro op hop
  simp only [List.mem_cons, List.mem_append, List.mem_map, List.mem_nil_iff, or_false] at hop
  rcases hop with rfl | ⟨b, _, rfl⟩ | rfl <;> simp

/-- once the backup rename has happened, `.old` holds the previous state whatever happens later -/
theorem crashAt_replace_old (d : Disk) (b : Bytes) (chunks : List Bytes) (hf : d.f = some b) (k j : Nat) :
    (crashAt d (replaceOps chunks) (k + 1) j).old = some b := by
  rw [crashAt_old]
  have e : (replaceOps chunks).take (k + 1) =
      Op.backup :: (Op.openTrunc :: (chunks.map Op.write ++ [Op.close])).take k := by
    simp [replaceOps]
  rw [e]
  show (run (step d .backup) _).old = some b
  rw [run_old _ _ (fun op hop => replaceOps_tail_noBackup chunks op (List.mem_of_mem_take hop))]
  simp [step, hf]

end Cv.C11
