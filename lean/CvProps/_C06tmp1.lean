import CvProps.C06Lemmas
open Cv
namespace Cv.C06

theorem harmonic_energy (p : RParams ℝ) (hk : p.kind = .harmonic) (k : ℝ) (cs : List ℝ) (i : Nat) (x : ℝ) :
    rPotential p k cs i x =
      0.5 * k / (p.widths.getD i 1 * p.widths.getD i 1) * (pdiff (p.per.getD i none) x (cs.getD i 0)) ^ 2 := by
  unfold rPotential dist2S
  simp only [hk, sq_real, lit_one, lit_zero]
  ring

theorem harmonic_force_deriv (p : RParams ℝ) (hk : p.kind = .harmonic) (k : ℝ) (cs : List ℝ) (i : Nat) (x : ℝ)
    (hp : p.per.getD i none = none) :
    HasDerivAt (fun y => rPotential p k cs i y) (- rForce p k cs i x) x := by
  unfold rPotential rForce
  simp only [hk, hp]
  refine ((hasDerivAt_dist2S_none x (cs.getD i 0.0)).const_mul _).congr_deriv ?_
  ring

theorem harmonic_force_deriv_periodic (p : RParams ℝ) (hk : p.kind = .harmonic) (k : ℝ) (cs : List ℝ) (i : Nat) (x P : ℝ)
    (hp : p.per.getD i none = some P) (hP : 0 < P) (hcut : ∀ n : ℤ, (x - cs.getD i 0) / P + 0.5 ≠ n) :
    HasDerivAt (fun y => rPotential p k cs i y) (- rForce p k cs i x) x := by
  unfold rPotential rForce
  simp only [hk, hp]
  have hcut' : ∀ n : ℤ, (x - cs.getD i 0.0) / P + 0.5 ≠ n := by simpa only [lit_zero] using hcut
  refine ((hasDerivAt_dist2S_periodic P hP x (cs.getD i 0.0) hcut').const_mul _).congr_deriv ?_
  ring

theorem linear_energy_force (p : RParams ℝ) (hk : p.kind = .linear) (k : ℝ) (cs : List ℝ) (i : Nat) (x : ℝ) :
    rPotential p k cs i x = k / p.widths.getD i 1 * (x - cs.getD i 0) ∧
    rForce p k cs i x = - (k / p.widths.getD i 1) ∧
    HasDerivAt (fun y => rPotential p k cs i y) (- rForce p k cs i x) x := by
  unfold rPotential rForce
  simp only [hk, lit_one, lit_zero]
  refine ⟨trivial, by ring, ?_⟩
  refine (((hasDerivAt_id x).sub_const (cs.getD i 0)).const_mul _).congr_deriv ?_
  ring

theorem walls_energy (p : RParams ℝ) (hk : p.kind = .walls) (k : ℝ) (cs : List ℝ) (i : Nat) (x l u : ℝ)
    (hp : p.per.getD i none = none) (hl : p.lowerWalls.map (·.getD i 0.0) = some l)
    (hu : p.upperWalls.map (·.getD i 0.0) = some u) (hlu : l < u) :
    let w := p.widths.getD i 1
    (l ≤ x ∧ x ≤ u → rPotential p k cs i x = 0 ∧ rForce p k cs i x = 0) ∧
    (x < l → rPotential p k cs i x = 0.5 * k * p.lowerK / (w * w) * (x - l) ^ 2 ∧
             rForce p k cs i x = - (k * p.lowerK / (w * w) * (x - l))) ∧
    (u < x → rPotential p k cs i x = 0.5 * k * p.upperK / (w * w) * (x - u) ^ 2 ∧
             rForce p k cs i x = - (k * p.upperK / (w * w) * (x - u))) := by
  intro w
  have hd : wallDistance p i x = if x < l then x - l else if u < x then x - u else 0 := by
    unfold wallDistance
    simp only [hp, hl, hu]
    simp only [Option.map_some, dist2SGrad, pdiff, lit_zero, lit_two]
    by_cases h1 : x < l
    · rw [if_pos (by linarith), if_pos h1]; ring
    · rw [if_neg (by linarith), if_neg h1]
      by_cases h2 : u < x
      · rw [if_pos (by linarith), if_pos h2]; ring
      · rw [if_neg (by linarith), if_neg h2]
  unfold rPotential rForce
  simp only [hk, lit_one, lit_zero]
  refine ⟨?_, ?_, ?_⟩
  · rintro ⟨h1, h2⟩
    have hd' : wallDistance p i x = 0 := by
      rw [hd, if_neg (by linarith), if_neg (by linarith)]
    rw [hd']
    simp
  · intro h1
    have hd' : wallDistance p i x = x - l := by rw [hd, if_pos h1]
    rw [hd', if_neg (by linarith)]
    constructor <;> ring
  · intro h2
    have hd' : wallDistance p i x = x - u := by
      rw [hd, if_neg (by linarith), if_pos h2]
    rw [hd', if_pos (by linarith)]
    constructor <;> ring

theorem walls_energy_upper_only (p : RParams ℝ) (hk : p.kind = .walls) (k : ℝ) (cs : List ℝ) (i : Nat) (x u : ℝ)
    (hp : p.per.getD i none = none) (hl : p.lowerWalls = none) (hu : p.upperWalls.map (·.getD i 0.0) = some u) :
    let w := p.widths.getD i 1
    (x ≤ u → rPotential p k cs i x = 0) ∧
    (u < x → rPotential p k cs i x = 0.5 * k * p.upperK / (w * w) * (x - u) ^ 2) := by
  intro w
  have hd : wallDistance p i x = if u < x then x - u else 0 := by
    unfold wallDistance
    simp only [hp, hl, hu]
    simp only [Option.map_some, Option.map_none, dist2SGrad, pdiff, lit_zero, lit_two]
    by_cases h2 : u < x
    · rw [if_pos (by linarith), if_pos h2]; ring
    · rw [if_neg (by linarith), if_neg h2]
  unfold rPotential
  simp only [hk, lit_one, lit_zero]
  refine ⟨?_, ?_⟩
  · intro h1
    have hd' : wallDistance p i x = 0 := by rw [hd, if_neg (by linarith)]
    rw [hd']
    simp
  · intro h2
    have hd' : wallDistance p i x = x - u := by rw [hd, if_pos h2]
    rw [hd', if_pos (by linarith)]
    ring

theorem walls_periodic_closest (p : RParams ℝ) (i : Nat) (x l u P : ℝ)
    (hp : p.per.getD i none = some P) (hl : p.lowerWalls.map (·.getD i 0.0) = some l)
    (hu : p.upperWalls.map (·.getD i 0.0) = some u) :
    wallDistance p i x =
      if dist2S (some P) x l < dist2S (some P) x u then min (pdiff (some P) x l) 0
      else max (pdiff (some P) x u) 0 := by
  unfold wallDistance
  simp only [hp, hl, hu]
  simp only [Option.getD_some, dist2SGrad, lit_zero, lit_two]
  split_ifs with h1 h2 h3
  · rw [min_eq_left (by linarith)]; ring
  · rw [min_eq_right (by linarith)]
  · rw [max_eq_left (by linarith)]; ring
  · rw [max_eq_right (by linarith)]

theorem dUdk_is_potential_per_k (p : RParams ℝ) (k : ℝ) (cs : List ℝ) (i : Nat) (x : ℝ) :
    rPotential p k cs i x = k * rDUdk p cs i x := by
  unfold rPotential rDUdk
  cases p.kind <;> simp only [lit_half, lit_one, lit_zero] <;> ring

end Cv.C06
