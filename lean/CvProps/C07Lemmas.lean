import CvProps.RealInst
/-! Helper lemmas for C07. -/
open Cv Cv.Geom

namespace Cv.C07

theorem lit0 : (0.0 : ℝ) = 0 := by norm_num
theorem lit1 : (1.0 : ℝ) = 1 := by norm_num
theorem lit05 : (0.5 : ℝ) = 1 / 2 := by norm_num

theorem v3_ext {a b : V3 ℝ} (hx : a.x = b.x) (hy : a.y = b.y) (hz : a.z = b.z) : a = b := by
  cases a; cases b; simp_all

/-- sum of a list of vectors, component-wise -/
noncomputable def vsum (l : List (V3 ℝ)) : V3 ℝ :=
  ⟨(l.map (·.x)).sum, (l.map (·.y)).sum, (l.map (·.z)).sum⟩

theorem foldl_vadd (l : List (V3 ℝ)) (acc : V3 ℝ) :
    l.foldl V3.add acc = V3.add acc (vsum l) := by
  induction l generalizing acc with
  | nil => simp [vsum, V3.add]
  | cons a l ih =>
    rw [List.foldl_cons, ih]
    simp [vsum, V3.add, add_assoc]

theorem groupForce_eq (l : List (V3 ℝ)) : groupForce l = vsum l := by
  unfold groupForce
  rw [foldl_vadd]
  apply v3_ext <;> simp [V3.add, V3.zero, lit0]

theorem vsum_nil : vsum [] = ⟨0, 0, 0⟩ := by simp [vsum]
theorem vsum_cons (a : V3 ℝ) (l : List (V3 ℝ)) : vsum (a :: l) = V3.add a (vsum l) := by
  simp [vsum, V3.add]

theorem vsum_applied (f : ℝ) (l : List (V3 ℝ)) : vsum (l.map (V3.smul f)) = V3.smul f (vsum l) := by
  induction l with
  | nil => simp [vsum, V3.smul]
  | cons a l ih =>
    rw [List.map_cons, vsum_cons, vsum_cons, ih]
    apply v3_ext <;> simp [V3.add, V3.smul] <;> ring

theorem vsum_zipWith_add (a b : List (V3 ℝ)) (h : a.length = b.length) :
    vsum (List.zipWith V3.add a b) = V3.add (vsum a) (vsum b) := by
  induction a generalizing b with
  | nil =>
    cases b with
    | nil => simp [vsum, V3.add]
    | cons _ _ => simp at h
  | cons x a ih =>
    cases b with
    | nil => simp at h
    | cons y b =>
      simp only [List.length_cons, add_left_inj] at h
      rw [List.zipWith_cons_cons, vsum_cons, vsum_cons, vsum_cons, ih b h]
      apply v3_ext <;> simp [V3.add] <;> ring

theorem foldl_mass (g : AGroup ℝ) (acc : ℝ) :
    g.foldl (fun s a => s + a.m) acc = acc + (g.map (·.m)).sum := by
  induction g generalizing acc with
  | nil => simp
  | cons a g ih => rw [List.foldl_cons, ih]; simp [add_assoc]

theorem totalMass_eq (g : AGroup ℝ) : totalMass g = (g.map (·.m)).sum := by
  unfold totalMass; rw [foldl_mass]; simp [lit0]

theorem mass_sum_pos (g : AGroup ℝ) (hne : g ≠ []) (h : ∀ a ∈ g, 0 < a.m) : 0 < (g.map (·.m)).sum := by
  induction g with
  | nil => exact absurd rfl hne
  | cons a g ih =>
    simp only [List.map_cons, List.sum_cons]
    have ha : 0 < a.m := h a (by simp)
    by_cases hg : g = []
    · subst hg; simpa using ha
    · have := ih hg (fun b hb => h b (by simp [hb]))
      linarith

theorem vsum_weighted_aux (g : AGroup ℝ) (M : ℝ) (v : V3 ℝ) :
    vsum (g.map fun a => V3.smul (a.m / M) v) = V3.smul ((g.map (·.m)).sum / M) v := by
  induction g with
  | nil => simp [vsum, V3.smul]
  | cons a g ih =>
    rw [List.map_cons, vsum_cons, ih]
    apply v3_ext <;> simp [V3.add, V3.smul] <;> ring

theorem groupForce_weighted (g : AGroup ℝ) (hne : g ≠ []) (h : ∀ a ∈ g, 0 < a.m) (v : V3 ℝ) :
    groupForce (weighted g v) = v := by
  rw [groupForce_eq]; unfold weighted
  rw [vsum_weighted_aux, totalMass_eq]
  have := (mass_sum_pos g hne h).ne'
  apply v3_ext <;> simp [V3.smul, div_self this]

theorem groupForce_applied (f : ℝ) (l : List (V3 ℝ)) :
    groupForce (l.map (V3.smul f)) = V3.smul f (groupForce l) := by
  rw [groupForce_eq, groupForce_eq, vsum_applied]

theorem groupForce_addF (a b : List (V3 ℝ)) (h : a.length = b.length) :
    groupForce (List.zipWith V3.add a b) = V3.add (groupForce a) (groupForce b) := by
  rw [groupForce_eq, groupForce_eq, groupForce_eq, vsum_zipWith_add a b h]

/-- the unit vector of a vector with non-vanishing norm has unit square -/
theorem unit_dot_self (a : V3 ℝ) (h : V3.norm a ≠ 0) : V3.dot (V3.unit a) (V3.unit a) = 1 := by
  have hnn : 0 ≤ V3.norm a := by unfold V3.norm; simp [Real.sqrt_nonneg]
  have hpos : V3.norm a > 0.0 := by rw [lit0]; exact lt_of_le_of_ne hnn (Ne.symm h)
  have hsq : V3.norm a * V3.norm a = V3.dot a a := by
    unfold V3.norm V3.norm2
    simp only [prim_sqrt]
    apply Real.mul_self_sqrt
    unfold V3.dot; nlinarith [mul_self_nonneg a.x, mul_self_nonneg a.y, mul_self_nonneg a.z]
  unfold V3.unit
  simp only [hpos, if_true]
  simp only [V3.dot, V3.smul, lit1] at hsq ⊢
  field_simp
  linarith

theorem norm_mul_self (a : V3 ℝ) : V3.norm a * V3.norm a = V3.dot a a := by
  unfold V3.norm V3.norm2
  simp only [prim_sqrt]
  apply Real.mul_self_sqrt
  unfold V3.dot; nlinarith [mul_self_nonneg a.x, mul_self_nonneg a.y, mul_self_nonneg a.z]


theorem foldl_add_map {β : Type} (h : β → ℝ) (l : List β) (acc : ℝ) :
    l.foldl (fun s t => s + h t) acc = acc + (l.map h).sum := by
  induction l generalizing acc with
  | nil => simp
  | cons a l ih => rw [List.foldl_cons, ih]; simp [add_assoc]

theorem foldl_plus (l : List ℝ) (acc : ℝ) : l.foldl (· + ·) acc = acc + l.sum := by
  have := foldl_add_map (fun x : ℝ => x) l acc
  simpa using this

theorem sum_zip_self (C : List (V3 ℝ)) (k' f k : ℝ) :
    (List.zipWith (fun p fi => k' * V3.dot p fi) C (C.map (V3.smul k) |>.map (V3.smul f))).sum
      = k' * f * k * (C.map V3.norm2).sum := by
  induction C with
  | nil => simp
  | cons p C ih =>
    simp only [List.map_cons, List.zipWith_cons_cons, List.sum_cons, ih]
    simp only [V3.dot, V3.smul, V3.norm2]
    ring

theorem sum_zip_linear (F : ℝ) (C a b : List (V3 ℝ)) (k : ℝ) (h : a.length = b.length) :
    (List.zipWith (fun p fi => F * V3.dot p fi) C (List.zipWith V3.add a (b.map (V3.smul k)))).sum
      = (List.zipWith (fun p fi => F * V3.dot p fi) C a).sum
        + k * (List.zipWith (fun p fi => F * V3.dot p fi) C b).sum := by
  induction C generalizing a b with
  | nil => simp
  | cons p C ih =>
    cases a with
    | nil =>
      cases b with
      | nil => simp
      | cons _ _ => simp at h
    | cons x a =>
      cases b with
      | nil => simp at h
      | cons y b =>
        simp only [List.length_cons, add_left_inj] at h
        simp only [List.map_cons, List.zipWith_cons_cons, List.sum_cons, ih a b h]
        simp only [V3.dot, V3.smul, V3.add]
        ring

theorem sum_norm2_nonneg (C : List (V3 ℝ)) : 0 ≤ (C.map V3.norm2).sum := by
  apply List.sum_nonneg
  intro x hx
  simp only [List.mem_map] at hx
  obtain ⟨p, _, rfl⟩ := hx
  unfold V3.norm2 V3.dot
  nlinarith [mul_self_nonneg p.x, mul_self_nonneg p.y, mul_self_nonneg p.z]

theorem sum_combine (cs : List ℝ) (f : ℝ) :
    ((cs.map fun c => (c, f * c)).map fun t : ℝ × ℝ => t.2 * t.1).sum = f * (cs.map fun c => c * c).sum := by
  induction cs with
  | nil => simp
  | cons c cs ih => simp only [List.map_cons, List.sum_cons, ih]; ring

theorem sum_combine2 (cs : List ℝ) (f : ℝ) :
    ((cs.map fun c => (c, f * c)).map fun t : ℝ × ℝ => t.1 * t.1).sum = (cs.map fun c => c * c).sum := by
  induction cs with
  | nil => simp
  | cons c cs ih => simp only [List.map_cons, List.sum_cons, ih]

end Cv.C07
