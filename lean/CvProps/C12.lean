import CvProps.C12Lemmas
import CvModel.Combine
/-!
# C12 — results do not depend on threading or on the order of evaluation

Property theorems about `CvModel/Sched.lean` (core Lean only).  Hypothesis of all of them: work items that may run
concurrently do not conflict (no item writes a location another one reads or writes) — on the real code this is what
ThreadSanitizer observes on the schedules that are run; the theorems say that under it the result of a step is the
same for every schedule.
-/
open Cv.Sched

namespace Cv.C12

variable {V : Type}

/-- two non-conflicting honest actions commute -/
theorem swap (a b : Act V) (ha : a.Honest) (hb : b.Honest) (hi : Independent a b) (m : Mem V) :
    b.run (a.run m) = a.run (b.run m) :=
  Cv.C12L.run_swap a b ha hb hi m

/-- **any interleaving**: two schedules of the same actions that keep every item's own order (whatever the assignment
    of items to threads and the relative speed of the threads) end in the same memory, provided actions of different
    items do not conflict -/
theorem schedule_independent (l₁ l₂ : List (Act V)) (m : Mem V)
    (hperm : l₁.Perm l₂)
    (horder : ∀ i, ofItem i l₁ = ofItem i l₂)
    (hh : ∀ a ∈ l₁, a.Honest)
    (hind : ∀ a ∈ l₁, ∀ b ∈ l₁, a.item ≠ b.item → Independent a b) :
    exec m l₁ = exec m l₂ :=
  Cv.C12L.schedule_independent l₁ l₂ m hperm horder hh hind

/-- **the parallel loop**: however the items are ordered, slot `i` ends up holding `g i` of the memory before the
    loop and nothing else changes, provided no slot is among the inputs and the `g i` read only the inputs -/
theorem loop_any_order (n : Nat) (g : Nat → Mem V → V) (inputs : List Nat) (base : Nat) (m : Mem V)
    (hg : ∀ i m m', (∀ l ∈ inputs, m l = m' l) → g i m = g i m')
    (hin : ∀ l ∈ inputs, l < base ∨ base + n ≤ l)
    (sched : List (Act V)) (hs : sched.Perm (loopActs n g inputs base)) :
    ∀ l, exec m sched l = if base ≤ l ∧ l < base + n then g (l - base) m else m l :=
  Cv.C12L.loop_any_order n g inputs base m hg hin sched hs

/-- **two phases with a barrier** (components, then biases): any order inside each phase gives the memory of the
    serial evaluation -/
theorem two_phase (n₁ n₂ : Nat) (g₁ g₂ : Nat → Mem V → V) (in₁ in₂ : List Nat) (b₁ b₂ : Nat) (m : Mem V)
    (hg₁ : ∀ i m m', (∀ l ∈ in₁, m l = m' l) → g₁ i m = g₁ i m')
    (hg₂ : ∀ i m m', (∀ l ∈ in₂, m l = m' l) → g₂ i m = g₂ i m')
    (hin₁ : ∀ l ∈ in₁, l < b₁ ∨ b₁ + n₁ ≤ l) (hin₂ : ∀ l ∈ in₂, l < b₂ ∨ b₂ + n₂ ≤ l)
    (s₁ s₂ : List (Act V)) (hs₁ : s₁.Perm (loopActs n₁ g₁ in₁ b₁)) (hs₂ : s₂.Perm (loopActs n₂ g₂ in₂ b₂)) :
    exec m (s₁ ++ s₂) = exec m (loopActs n₁ g₁ in₁ b₁ ++ loopActs n₂ g₂ in₂ b₂) := by
  have e₁ : exec m s₁ = exec m (loopActs n₁ g₁ in₁ b₁) := by
    funext l
    rw [loop_any_order n₁ g₁ in₁ b₁ m hg₁ hin₁ s₁ hs₁ l,
      loop_any_order n₁ g₁ in₁ b₁ m hg₁ hin₁ _ (List.Perm.refl _) l]
  rw [Cv.C12L.exec_append, Cv.C12L.exec_append, e₁]
  funext l
  rw [loop_any_order n₂ g₂ in₂ b₂ _ hg₂ hin₂ s₂ hs₂ l,
    loop_any_order n₂ g₂ in₂ b₂ _ hg₂ hin₂ _ (List.Perm.refl _) l]

/-- the hypothesis is needed: two items writing the same location give schedule-dependent results -/
theorem conflict_is_visible :
    ∃ (a b : Act Nat) (m : Mem Nat), a.Honest ∧ b.Honest ∧ a.item ≠ b.item ∧ exec m [a, b] ≠ exec m [b, a] := by
  refine ⟨{ item := 0, reads := [], write := 0, f := fun _ => 0 },
    { item := 1, reads := [], write := 0, f := fun _ => 1 }, fun _ => 0,
    fun _ _ _ => rfl, fun _ _ _ => rfl, by decide, ?_⟩
  intro h
  have h0 := congrFun h 0
  simp [exec, Act.run] at h0

/-! ## non-vacuity -/
example : Independent ({ item := 0, reads := [0], write := 5, f := fun m => m 0 } : Act Nat)
                      { item := 1, reads := [0], write := 6, f := fun m => m 0 + 1 } := by
  refine ⟨by decide, by decide, by decide⟩

/-! ## work items of the component-parallel loop (model `CvModel/Combine.lean`) -/

open Cv.Combine in
theorem head_filter_range (n i : Nat) (p : Nat → Bool) (hi : i < n) (hp : p i = true) :
    ((List.range n).filter fun j => decide (i ≤ j) && p j).head? = some i := by
  rw [List.head?_filter]
  rw [List.find?_eq_some_iff_append]
  refine ⟨by simp [hp], List.range i, List.range' (i + 1) (n - i - 1), ?_, ?_⟩
  · rw [List.range_eq_range', List.range_eq_range']
    have h1 : List.range' 0 n = List.range' 0 i ++ List.range' (0 + i) (n - i) := by
      rw [List.range'_append_1]; congr 1; omega
    rw [h1]
    congr 1
    have : n - i = (n - i - 1) + 1 := by omega
    rw [this, List.range'_succ]
    simp
  · intro x hx
    have := List.mem_range.mp hx
    simp; omega

open Cv.Combine in
/-- every work item computes the component whose index it carries: with one item per enabled component, each enabled
    component is computed exactly once and no disabled one is touched, whatever the pattern of flags -/
theorem work_items_compute_each_enabled_once (flags : List Bool) :
    (workItems flags).map (computedBy flags) = (workItems flags).map some := by
  apply List.map_congr_left
  intro i hi
  unfold workItems at hi
  obtain ⟨hr, hf⟩ := List.mem_filter.mp hi
  exact head_filter_range flags.length i (fun j => flags.getD j false) (List.mem_range.mp hr) hf

open Cv.Combine in
/-- the items are exactly the enabled indices, in increasing order, without repetition -/
theorem work_items_are_the_enabled (flags : List Bool) (i : Nat) :
    i ∈ workItems flags ↔ (i < flags.length ∧ flags.getD i false = true) := by
  unfold workItems
  rw [List.mem_filter, List.mem_range]

open Cv.Combine in
/-- numbering the items by their rank among the enabled components (the code before repair 99e8a6f9) does not have this
    property: with the first of three components switched off, component 1 is computed twice and component 2 never -/
theorem rank_numbering_recomputes :
    (workItemsByRank [false, true, true]).map (computedBy [false, true, true]) = [some 1, some 1] := by
  decide

end Cv.C12
