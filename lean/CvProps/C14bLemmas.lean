import CvModel.Walkers
import Mathlib.Data.List.Basic
import Mathlib.Tactic
/-! Helper lemmas for C14 (second half): the two outcomes of `Reader.sync`, the invariant of the writer/reader pair that
holds under *every* schedule (`Inv`), the schedules in which the second half of a state write follows its first half
(`paired`) and the writer invariant that needs them (`WInv`). -/
open Cv.Walkers

namespace Cv.C14b

/-- **schedules in which `restart` is the second half of a state write**: a `restart` is allowed only when a `publish`
    came before it with no deposit (`step true`) in between (flushes, idle steps and the reader's events may come in
    between).  The flag says whether a `restart` is allowed now; it is `true` at the start (`setup_output` has published
    a state with all — zero — hills).  Without this condition `restart` throws away hills that are in no state file. -/
def paired : Bool → List Ev → Bool
  | _, [] => true
  | _, .publish :: es => paired true es
  | _, .step true :: es => paired false es
  | ok, .step false :: es => paired ok es
  | ok, .restart :: es => ok && paired ok es
  | ok, .flush :: es => paired ok es
  | ok, .sync :: es => paired ok es
  | ok, .ownWrite :: es => paired ok es

end Cv.C14b

namespace Cv.C14bL
open Cv.C14b

/-! ## the two outcomes of an exchange -/

/-- the state is (re)read: position beyond the end of the hills file, no data yet, or flag down -/
theorem sync_reread (r : Reader) (w : Writer) (st : Nat) (hs : List Nat) (hw : w.state = some (st, hs))
    (h : (r.pos > 0 ∧ w.file.length < r.pos) ∨ r.hasData = false ∨ r.inSync = false) :
    r.sync w = { mirror := hs ++ w.file.filter (fun h => decide (h > st)), stateStep := st, pos := w.file.length,
                 inSync := true, hasData := true } := by
  unfold Reader.sync
  rcases h with h | h | h
  · simp [hw, h]
  · by_cases h' : (r.pos > 0 ∧ w.file.length < r.pos) <;> simp [hw, h, h']
  · by_cases h' : (r.pos > 0 ∧ w.file.length < r.pos) <;> simp [hw, h, h']

/-- the state is not read again: the hills file is read on from the position -/
theorem sync_noreread (r : Reader) (w : Writer) (h1 : r.inSync = true) (h2 : r.hasData = true)
    (h3 : ¬ (r.pos > 0 ∧ w.file.length < r.pos)) :
    r.sync w = { r with mirror := r.mirror ++ (w.file.drop r.pos).filter (fun h => decide (h > r.stateStep)),
                        pos := w.file.length } := by
  unfold Reader.sync
  simp [h1, h2, h3]

/-! ## strictly increasing lists -/

theorem sublist_of_increasing_of_subset : ∀ (l₂ l₁ : List Nat), l₁.Pairwise (· < ·) → l₂.Pairwise (· < ·) →
    (∀ x ∈ l₁, x ∈ l₂) → l₁.Sublist l₂
  | [], l₁, _, _, h => by
    cases l₁ with
    | nil => exact List.Sublist.refl _
    | cons a s => exact absurd (h a List.mem_cons_self) List.not_mem_nil
  | b :: t, [], _, _, _ => List.nil_sublist _
  | b :: t, a :: s, h1, h2, h => by
    rw [List.pairwise_cons] at h1 h2
    rcases List.mem_cons.1 (h a List.mem_cons_self) with hab | hat
    · subst hab
      refine List.Sublist.cons_cons a (sublist_of_increasing_of_subset t s h1.2 h2.2 ?_)
      intro x hx
      rcases List.mem_cons.1 (h x (List.mem_cons_of_mem _ hx)) with hxa | hxt
      · exact absurd hxa (Nat.ne_of_gt (h1.1 x hx))
      · exact hxt
    · have hba : b < a := h2.1 a hat
      refine List.Sublist.cons b (sublist_of_increasing_of_subset t (a :: s) (List.pairwise_cons.2 h1) h2.2 ?_)
      intro x hx
      have hxge : a ≤ x := by
        rcases List.mem_cons.1 hx with hxa | hxs
        · exact hxa ▸ le_rfl
        · exact Nat.le_of_lt (h1.1 x hxs)
      rcases List.mem_cons.1 (h x hx) with hxb | hxt
      · omega
      · exact hxt

/-! ## the invariant that holds under every schedule -/

/-- hills deposited with increasing stamps not beyond the clock; a published state whose hills are hills of the writer
    not newer than its step; hills file and stream hold hills of the writer in order; the mirror is increasing, made of
    hills of the writer, and **every unread or future record that passes the reader's filter is newer than everything in
    the mirror** -/
structure Inv (p : Pair) : Prop where
  hillsSorted : p.w.hills.Pairwise (· < ·)
  hillsLe : ∀ h ∈ p.w.hills, h ≤ p.clock
  state : ∃ st hs, p.w.state = some (st, hs) ∧ (∀ h ∈ hs, h ≤ st) ∧ hs.Sublist p.w.hills
  fp : (p.w.file ++ p.w.pending).Sublist p.w.hills
  mirrorSorted : p.r.mirror.Pairwise (· < ·)
  mirrorMem : ∀ m ∈ p.r.mirror, m ∈ p.w.hills
  unread : ∀ m ∈ p.r.mirror, ∀ x ∈ p.w.file.drop p.r.pos ++ p.w.pending, x > p.r.stateStep → m < x

theorem Inv.init : Inv {} := by
  refine ⟨?_, ?_, ⟨0, [], rfl, ?_, ?_⟩, ?_, ?_, ?_, ?_⟩ <;> simp

theorem Inv.apply {p : Pair} (I : Inv p) (e : Ev) : Inv (p.apply e) := by
  obtain ⟨h1, h2, ⟨st, hs, hw, hle, hsub⟩, h4, h5, h6, h7⟩ := I
  cases e with
  | step d =>
    cases d
    · exact ⟨h1, fun h hh => Nat.le_succ_of_le (h2 h hh), ⟨st, hs, hw, hle, hsub⟩, h4, h5, h6, h7⟩
    · refine ⟨?_, ?_, ⟨st, hs, hw, hle, ?_⟩, ?_, h5, ?_, ?_⟩
      · simp only [Pair.apply, Writer.deposit, if_true, List.pairwise_append]
        refine ⟨h1, List.pairwise_singleton _ _, ?_⟩
        intro a ha b hb
        rw [List.mem_singleton] at hb
        have := h2 a ha
        omega
      · simp only [Pair.apply, Writer.deposit, if_true, List.mem_append, List.mem_singleton]
        rintro h (hh | rfl)
        · exact Nat.le_succ_of_le (h2 h hh)
        · exact le_rfl
      · simp only [Pair.apply, Writer.deposit, if_true]
        exact hsub.trans (List.sublist_append_left _ _)
      · simp only [Pair.apply, Writer.deposit, if_true]
        rw [← List.append_assoc]
        exact h4.append (List.Sublist.refl _)
      · simp only [Pair.apply, Writer.deposit, if_true]
        intro m hm
        exact List.mem_append_left _ (h6 m hm)
      · simp only [Pair.apply, Writer.deposit, if_true]
        intro m hm x hx hgt
        rw [← List.append_assoc, List.mem_append, List.mem_singleton] at hx
        rcases hx with hx | rfl
        · exact h7 m hm x hx hgt
        · have := h2 m (h6 m hm)
          omega
  | flush =>
    refine ⟨h1, h2, ⟨st, hs, hw, hle, hsub⟩, ?_, h5, h6, ?_⟩
    · simpa [Pair.apply, Writer.flush] using h4
    · simp only [Pair.apply, Writer.flush, List.append_nil]
      intro m hm x hx hgt
      refine h7 m hm x ?_ hgt
      rw [List.drop_append] at hx
      rcases List.mem_append.1 hx with hx | hx
      · exact List.mem_append_left _ hx
      · exact List.mem_append_right _ (List.mem_of_mem_drop hx)
  | publish =>
    exact ⟨h1, h2, ⟨p.clock, p.w.hills, rfl, h2, List.Sublist.refl _⟩, h4, h5, h6, h7⟩
  | restart =>
    refine ⟨h1, h2, ⟨st, hs, hw, hle, hsub⟩, ?_, h5, h6, ?_⟩
    · simp [Pair.apply, Writer.restart]
    · simp [Pair.apply, Writer.restart]
  | ownWrite =>
    exact ⟨h1, h2, ⟨st, hs, hw, hle, hsub⟩, h4, h5, h6, h7⟩
  | sync =>
    have hfile : p.w.file.Sublist p.w.hills := (List.sublist_append_left _ _).trans h4
    have hfileS : p.w.file.Pairwise (· < ·) := h1.sublist hfile
    have hfpS : (p.w.file ++ p.w.pending).Pairwise (· < ·) := h1.sublist h4
    by_cases hc : (p.r.pos > 0 ∧ p.w.file.length < p.r.pos) ∨ p.r.hasData = false ∨ p.r.inSync = false
    · -- the state is read: its hills are not newer than its step, what passes the filter is
      have e := sync_reread p.r p.w st hs hw hc
      refine ⟨h1, h2, ⟨st, hs, hw, hle, hsub⟩, h4, ?_, ?_, ?_⟩
      · simp only [Pair.apply, e, List.pairwise_append]
        refine ⟨h1.sublist hsub, hfileS.sublist List.filter_sublist, ?_⟩
        intro a ha b hb
        have := hle a ha
        have := (List.mem_filter.1 hb).2
        simp only [decide_eq_true_eq] at this
        omega
      · simp only [Pair.apply, e, List.mem_append]
        rintro m (hm | hm)
        · exact hsub.subset hm
        · exact hfile.subset (List.mem_filter.1 hm).1
      · simp only [Pair.apply, e, List.drop_length, List.nil_append, List.mem_append]
        rintro m (hm | hm) x hx hgt
        · have := hle m hm
          omega
        · rw [List.pairwise_append] at hfpS
          exact hfpS.2.2 m (List.mem_filter.1 hm).1 x hx
    · -- the hills file is read on (whether or not the position belongs to this file): `unread`
      simp only [not_or, Bool.not_eq_false] at hc
      obtain ⟨hc1, hc2, hc3⟩ := hc
      have e := sync_noreread p.r p.w hc3 hc2 hc1
      refine ⟨h1, h2, ⟨st, hs, hw, hle, hsub⟩, h4, ?_, ?_, ?_⟩
      · simp only [Pair.apply, e, List.pairwise_append]
        refine ⟨h5, (hfileS.sublist (List.drop_sublist _ _)).sublist List.filter_sublist, ?_⟩
        intro a ha b hb
        have hb' := List.mem_filter.1 hb
        have := hb'.2
        simp only [decide_eq_true_eq] at this
        exact h7 a ha b (List.mem_append_left _ hb'.1) this
      · simp only [Pair.apply, e, List.mem_append]
        rintro m (hm | hm)
        · exact h6 m hm
        · exact hfile.subset (List.mem_of_mem_drop (List.mem_filter.1 hm).1)
      · simp only [Pair.apply, e, List.drop_length, List.nil_append, List.mem_append]
        rintro m (hm | hm) x hx hgt
        · exact h7 m hm x (List.mem_append_right _ hx) hgt
        · rw [List.pairwise_append] at hfpS
          exact hfpS.2.2 m (List.mem_of_mem_drop (List.mem_filter.1 hm).1) x hx

theorem Inv.foldl {p : Pair} (I : Inv p) (evs : List Ev) : Inv (evs.foldl Pair.apply p) := by
  induction evs generalizing p with
  | nil => exact I
  | cons e es ih => exact ih (I.apply e)

theorem Inv.run (evs : List Ev) : Inv (run evs) := Inv.init.foldl evs

/-! ## the writer under schedules in which `restart` follows `publish` -/

/-- state, hills file and stream together hold all hills; when the flag is up the state alone does -/
structure WInv (ok : Bool) (p : Pair) : Prop where
  hillsLe : ∀ h ∈ p.w.hills, h ≤ p.clock
  eq : ∃ st hs, p.w.state = some (st, hs) ∧ st ≤ p.clock ∧
        hs ++ (p.w.file ++ p.w.pending).filter (fun h => decide (h > st)) = p.w.hills ∧ (ok = true → hs = p.w.hills)

theorem WInv.init : WInv true {} := by
  refine ⟨?_, ⟨0, [], rfl, ?_, ?_, ?_⟩⟩ <;> simp

theorem WInv.foldl (evs : List Ev) : ∀ (ok : Bool) (p : Pair), WInv ok p → paired ok evs = true →
    ∃ ok', WInv ok' (evs.foldl Pair.apply p) := by
  induction evs with
  | nil => exact fun ok p I _ => ⟨ok, I⟩
  | cons e es ih =>
    intro ok p I hp
    obtain ⟨h1, st, hs, hw, hst, heq, hok⟩ := I
    rw [List.foldl_cons]
    cases e with
    | step d =>
      cases d
      · refine ih ok _ ⟨fun h hh => Nat.le_succ_of_le (h1 h hh), st, hs, hw, Nat.le_succ_of_le hst, heq, hok⟩ ?_
        simpa [paired] using hp
      · refine ih false _ ⟨?_, st, hs, hw, Nat.le_succ_of_le hst, ?_, ?_⟩ (by simpa [paired] using hp)
        · simp only [Pair.apply, Writer.deposit, if_true, List.mem_append, List.mem_singleton]
          rintro h (hh | rfl)
          · exact Nat.le_succ_of_le (h1 h hh)
          · exact le_rfl
        · simp only [Pair.apply, Writer.deposit, if_true]
          have hgt : st < p.clock + 1 := Nat.lt_succ_of_le hst
          rw [← List.append_assoc, List.filter_append, ← List.append_assoc, heq]
          simp [hgt]
        · intro h; exact absurd h (by simp)
    | flush =>
      refine ih ok _ ⟨h1, st, hs, hw, hst, ?_, hok⟩ (by simpa [paired] using hp)
      simpa [Pair.apply, Writer.flush] using heq
    | publish =>
      refine ih true _ ⟨h1, p.clock, p.w.hills, rfl, le_rfl, ?_, fun _ => rfl⟩ (by simpa [paired] using hp)
      simp only [Pair.apply, Writer.publish]
      suffices hnil : (p.w.file ++ p.w.pending).filter (fun h => decide (h > p.clock)) = [] by
        rw [hnil, List.append_nil]
      rw [List.filter_eq_nil_iff]
      intro x hx
      simp only [decide_eq_true_eq, not_lt]
      by_cases hxs : x > st
      · apply h1
        rw [← heq]
        exact List.mem_append_right _ (List.mem_filter.2 ⟨hx, by simpa using hxs⟩)
      · omega
    | restart =>
      simp only [paired, Bool.and_eq_true] at hp
      refine ih ok _ ⟨h1, st, hs, hw, hst, ?_, hok⟩ hp.2
      simpa [Pair.apply, Writer.restart] using hok hp.1
    | sync => exact ih ok _ ⟨h1, st, hs, hw, hst, heq, hok⟩ (by simpa [paired] using hp)
    | ownWrite => exact ih ok _ ⟨h1, st, hs, hw, hst, heq, hok⟩ (by simpa [paired] using hp)

theorem WInv.run (evs : List Ev) (hp : paired true evs = true) : ∃ ok, WInv ok (run evs) :=
  WInv.foldl evs true {} WInv.init hp

end Cv.C14bL
