import CvProps.C18Lemmas
/-!
# C18 — distances, gradients and wrapping of variable values form a consistent metric

Property theorems only (helper lemmas live in `CvProps/C18Lemmas.lean` if needed).
All statements are about the model `CvModel/Value.lean` instantiated at `ℝ`.
Vectors are lists; a 3-vector has length 3, a quaternion length 4.
-/
open Cv

namespace Cv.C18

/-! ## scalar and periodic scalar -/

theorem nonneg_scalar (per : Option ℝ) (x1 x2 : ℝ) : 0 ≤ dist2S per x1 x2 := by
  unfold dist2S; rw [sq_real]; exact mul_self_nonneg _

/-- symmetric, including the tie at exactly half a period -/
theorem symm_scalar (per : Option ℝ) (hp : ∀ p, per = some p → 0 < p) (x1 x2 : ℝ) :
    dist2S per x1 x2 = dist2S per x2 x1 := by
  unfold dist2S pdiff
  rw [sq_real, sq_real]
  cases per with
  | none => simp only []; ring
  | some p =>
    simp only []
    have := pshift_neg_sq p (x2 - x1) (hp p rfl)
    rw [neg_sub] at this
    exact this

theorem zero_iff_scalar (x1 x2 : ℝ) : dist2S none x1 x2 = 0 ↔ x1 = x2 := by
  unfold dist2S pdiff
  simp only [sq_real]
  rw [mul_self_eq_zero, sub_eq_zero]

/-- zero exactly for values that differ by a whole number of periods -/
theorem zero_iff_periodic (p : ℝ) (hp : 0 < p) (x1 x2 : ℝ) :
    dist2S (some p) x1 x2 = 0 ↔ ∃ n : ℤ, x1 - x2 = n * p := by
  unfold dist2S pdiff
  simp only [sq_real]
  rw [mul_self_eq_zero]
  exact pshift_zero_iff p (x1 - x2) hp

theorem period_invariant (p : ℝ) (hp : 0 < p) (x1 x2 : ℝ) (n m : ℤ) :
    dist2S (some p) (x1 + n * p) (x2 + m * p) = dist2S (some p) x1 x2 := by
  unfold dist2S pdiff
  simp only []
  have e : x1 + n * p - (x2 + m * p) = (x1 - x2) + ((n - m : ℤ) : ℝ) * p := by
    push_cast; ring
  rw [e, pshift_add_int p _ hp]

/-- the squared periodic distance never exceeds (p/2)² -/
theorem periodic_le_half (p : ℝ) (hp : 0 < p) (x1 x2 : ℝ) :
    dist2S (some p) x1 x2 ≤ (p / 2) * (p / 2) := by
  unfold dist2S pdiff
  simp only [sq_real]
  obtain ⟨h1, h2⟩ := pshift_range p (x1 - x2) hp
  nlinarith

theorem grad_scalar (x1 x2 : ℝ) :
    HasDerivAt (fun x => dist2S none x x2) (dist2SGrad none x1 x2) x1 := by
  unfold dist2S dist2SGrad pdiff
  simp only [sq_real]
  have hd : HasDerivAt (fun x : ℝ => x - x2) 1 x1 := (hasDerivAt_id x1).sub_const x2
  have h2 : HasDerivAt (fun x : ℝ => (x - x2) * (x - x2))
      (1 * (x1 - x2) + (x1 - x2) * 1) x1 := hd.mul hd
  refine h2.congr_deriv ?_
  norm_num; ring

/-- away from the cut locus (difference of exactly half a period modulo the period) -/
theorem grad_periodic (p : ℝ) (hp : 0 < p) (x1 x2 : ℝ)
    (hcut : ∀ n : ℤ, (x1 - x2) / p + 0.5 ≠ n) :
    HasDerivAt (fun x => dist2S (some p) x x2) (dist2SGrad (some p) x1 x2) x1 := by
  unfold dist2S dist2SGrad pdiff
  simp only [sq_real]
  have hne : p ≠ 0 := ne_of_gt hp
  have hcont : ContinuousAt (fun x : ℝ => (x - x2) / p + 1 / 2) x1 := by fun_prop
  have hev := floor_eventually_const (fun x : ℝ => (x - x2) / p + 1 / 2) x1 hcont
    (by intro n; have := hcut n; rwa [half_lit] at this)
  set k : ℤ := ⌊(x1 - x2) / p + 1 / 2⌋ with hk
  have hd : HasDerivAt (fun x : ℝ => x - x2 - (k : ℝ) * p) 1 x1 :=
    ((hasDerivAt_id x1).sub_const x2).sub_const _
  have h2 : HasDerivAt (fun x : ℝ => (x - x2 - (k : ℝ) * p) * (x - x2 - (k : ℝ) * p))
      (1 * (x1 - x2 - (k : ℝ) * p) + (x1 - x2 - (k : ℝ) * p) * 1) x1 := hd.mul hd
  have h3 : HasDerivAt (fun x : ℝ => pshift p (x - x2) * pshift p (x - x2))
      (1 * (x1 - x2 - (k : ℝ) * p) + (x1 - x2 - (k : ℝ) * p) * 1) x1 := by
    refine h2.congr_of_eventuallyEq ?_
    filter_upwards [hev] with y hy
    have hy' : ⌊(y - x2) / p + 1 / 2⌋ = k := hy
    rw [pshift_eq, hy']
  refine h3.congr_deriv ?_
  rw [pshift_eq, ← hk]
  norm_num; ring

theorem wrap_range (p c x : ℝ) (hp : 0 < p) :
    c - p / 2 ≤ wrapS p c x ∧ wrapS p c x < c + p / 2 := by
  unfold wrapS
  rw [floorS_real, half_lit]
  obtain ⟨h1, h2⟩ := resid_range ((x - c) / p)
  have e : x - (⌊(x - c) / p + 1 / 2⌋ : ℝ) * p
      = c + ((x - c) / p - (⌊(x - c) / p + 1 / 2⌋ : ℝ)) * p := by field_simp; ring
  rw [e]
  constructor <;> nlinarith

theorem wrap_equiv (p c x : ℝ) : ∃ n : ℤ, wrapS p c x = x - n * p := by
  exact ⟨⌊(x - c) / p + 0.5⌋, rfl⟩

theorem wrap_idem (p c x : ℝ) (hp : 0 < p) : wrapS p c (wrapS p c x) = wrapS p c x := by
  obtain ⟨h1, h2⟩ := wrap_range p c x hp
  set w := wrapS p c x with hw
  unfold wrapS
  rw [floorS_real, half_lit]
  have : ⌊(w - c) / p + 1 / 2⌋ = 0 := by
    rw [Int.floor_eq_iff]
    constructor
    · have : -(1/2) ≤ (w - c) / p := by rw [le_div_iff₀ hp]; linarith
      push_cast; linarith
    · have : (w - c) / p < 1/2 := by rw [div_lt_iff₀ hp]; linarith
      push_cast; linarith
  rw [this]; simp

/-- wrapping does not change any periodic distance -/
theorem wrap_dist (p c x y : ℝ) (hp : 0 < p) :
    dist2S (some p) (wrapS p c x) y = dist2S (some p) x y := by
  have e : wrapS p c x = x + ((-⌊(x - c) / p + 0.5⌋ : ℤ) : ℝ) * p := by
    unfold wrapS; rw [floorS_real]; push_cast; ring
  have := period_invariant p hp x y (-⌊(x - c) / p + 0.5⌋) 0
  rw [e]
  simpa using this

/-! ## 3-vectors and generic vectors -/

theorem nonneg_vec (a b : List ℝ) : 0 ≤ dist2V a b := by
  exact norm2_nonneg _

theorem symm_vec (a b : List ℝ) : dist2V a b = dist2V b a := by
  exact dist2V_comm a b

theorem zero_iff_vec (a b : List ℝ) (h : a.length = b.length) : dist2V a b = 0 ↔ a = b := by
  exact dist2V_eq_zero a b h

/-- derivative along any direction `v` equals the reported gradient dotted with `v` -/
theorem grad_vec (a b v : List ℝ) (h : a.length = b.length) (hv : v.length = a.length) :
    HasDerivAt (fun t : ℝ => dist2V (vadd a (vscale t v)) b) (dot (dist2VGrad a b) v) 0 := by
  exact hasDerivAt_dist2V a b v h hv

/-! ## unit vectors -/

theorem nonneg_unit (a b : List ℝ) : 0 ≤ dist2U a b := by
  unfold dist2U; rw [sq_real]; exact mul_self_nonneg _

theorem symm_unit (a b : List ℝ) : dist2U a b = dist2U b a := by
  unfold dist2U; rw [dot_comm]

theorem zero_iff_unit (a b : List ℝ) (ha : a.length = 3) (hb : b.length = 3)
    (na : norm2 a = 1) (nb : norm2 b = 1) : dist2U a b = 0 ↔ a = b := by
  rw [dist2U_eq, mul_self_eq_zero, Real.arccos_eq_zero]
  exact one_le_dot_iff a b (by rw [ha, hb]) na nb

/-- away from coincident / antipodal pairs the reported gradient is the derivative along any direction -/
theorem grad_unit (a b v : List ℝ) (ha : a.length = 3) (hb : b.length = 3) (hv : v.length = 3)
    (hc : -1 < dot a b ∧ dot a b < 1) :
    HasDerivAt (fun t : ℝ => dist2U (vadd a (vscale t v)) b) (dot (dist2UGrad a b) v) 0 := by
  obtain ⟨hc1, hc2⟩ := hc
  -- the guard `1 - c² ≤ 0` is false, and `Real.arccos` absorbs the clamp (`dist2U_eq`)
  rw [dist2UGrad_of_lt a b (by nlinarith)]
  simp only [dist2U_eq]
  rw [dot_vscale_left]
  set c := dot a b with hcdef
  set d := dot v b with hd
  have hfun : (fun t : ℝ => Real.arccos (dot (vadd a (vscale t v)) b) *
      Real.arccos (dot (vadd a (vscale t v)) b))
      = fun t : ℝ => Real.arccos (c + t * d) * Real.arccos (c + t * d) := by
    funext t; rw [dot_vadd_vscale a v b (by rw [hv, ha]) t]
  rw [hfun]
  have hx : c + 0 * d = c := by ring
  have hlin : HasDerivAt (fun t : ℝ => c + t * d) d 0 := by
    simpa using ((hasDerivAt_id (0:ℝ)).mul_const d).const_add c
  have hacos : HasDerivAt Real.arccos (-(1 / √(1 - c ^ 2))) (c + 0 * d) := by
    rw [hx]; exact Real.hasDerivAt_arccos (ne_of_gt hc1) (ne_of_lt hc2)
  have hcomp : HasDerivAt (fun t : ℝ => Real.arccos (c + t * d)) (-(1 / √(1 - c ^ 2)) * d) 0 :=
    HasDerivAt.comp (h₂ := Real.arccos) (h := fun t : ℝ => c + t * d) 0 hacos hlin
  have h2 : HasDerivAt (fun t : ℝ => Real.arccos (c + t * d) * Real.arccos (c + t * d))
      (-(1 / √(1 - c ^ 2)) * d * Real.arccos (c + 0 * d)
        + Real.arccos (c + 0 * d) * (-(1 / √(1 - c ^ 2)) * d)) 0 := hcomp.mul hcomp
  refine h2.congr_deriv ?_
  rw [hx, dot_comm b v, ← hd, pow_two]
  norm_num; ring

/-- at coincident unit vectors the reported gradient is the null vector, which is the derivative of the squared
    distance along every tangent direction (as repaired: the quotient `acos c / sqrt (1 - c²)` is `0/0` there) -/
theorem grad_unit_same (a v : List ℝ) (ha : a.length = 3) (hv : v.length = 3) (na : norm2 a = 1)
    (hperp : dot v a = 0) :
    dist2UGrad a a = [0.0, 0.0, 0.0] ∧
    HasDerivAt (fun t : ℝ => dist2U (vadd a (vscale t v)) a) (dot (dist2UGrad a a) v) 0 := by
  have haa : dot a a = 1 := na
  have hg : dist2UGrad a a = [0.0, 0.0, 0.0] :=
    dist2UGrad_of_guard a a (by rw [haa]; norm_num)
  refine ⟨hg, ?_⟩
  have hfun : (fun t : ℝ => dist2U (vadd a (vscale t v)) a) = fun _ => (0 : ℝ) := by
    funext t
    rw [dist2U_eq, dot_vadd_vscale a v a (by rw [hv, ha]) t, hperp, haa, mul_zero, add_zero,
      Real.arccos_one, mul_zero]
  have hz : dot (dist2UGrad a a) v = 0 := by
    rw [hg]
    match v, hv with
    | [x, y, z], _ => simp; norm_num
  rw [hfun, hz]
  exact hasDerivAt_const (0:ℝ) (0:ℝ)

/-- the clamp makes the distance between a unit vector and itself zero whatever the rounding of the product -/
theorem unit_self_zero (a : List ℝ) (h : 1 ≤ dot a a) : dist2U a a = 0 := by
  rw [dist2U_eq, Real.arccos_eq_zero.2 h, mul_zero]

/-! ## quaternions (the constant `PI` instantiated with `Real.pi`) -/

def vneg (a : List ℝ) : List ℝ := a.map (fun x => -x)

theorem nonneg_quat (a b : List ℝ) : 0 ≤ dist2Q Real.pi a b := by
  rw [dist2Q_eq]
  split_ifs <;> exact mul_self_nonneg _

theorem symm_quat (a b : List ℝ) : dist2Q Real.pi a b = dist2Q Real.pi b a := by
  rw [dist2Q_eq, dist2Q_eq, dot_comm]

/-- flipping the sign of either quaternion does not change the distance -/
theorem qsign_invariant (a b : List ℝ) (nb : a.length = b.length) :
    dist2Q Real.pi a (vneg b) = dist2Q Real.pi a b ∧ dist2Q Real.pi (vneg a) b = dist2Q Real.pi a b := by
  have key : ∀ c : ℝ,
      (if -c > 0 then Real.arccos (clampCos (-c)) * Real.arccos (clampCos (-c))
        else (Real.pi - Real.arccos (clampCos (-c))) * (Real.pi - Real.arccos (clampCos (-c))))
      = (if c > 0 then Real.arccos (clampCos c) * Real.arccos (clampCos c)
        else (Real.pi - Real.arccos (clampCos c)) * (Real.pi - Real.arccos (clampCos c))) := by
    intro c
    rw [clampCos_neg, Real.arccos_neg]
    rcases lt_trichotomy c 0 with h | h | h
    · rw [if_pos (by linarith : -c > 0), if_neg (by linarith : ¬ c > 0)]
    · subst h
      have : clampCos (0:ℝ) = 0 := by rw [clampCos_eq]; norm_num
      simp [this]; ring
    · rw [if_neg (by linarith : ¬ -c > 0), if_pos h]; ring
  constructor
  · rw [dist2Q_eq, dist2Q_eq]; unfold vneg; rw [dot_vneg_right]; exact key _
  · rw [dist2Q_eq, dist2Q_eq]; unfold vneg; rw [dot_vneg_left]; exact key _

theorem zero_iff_quat (a b : List ℝ) (ha : a.length = 4) (hb : b.length = 4)
    (na : norm2 a = 1) (nb : norm2 b = 1) : dist2Q Real.pi a b = 0 ↔ (a = b ∨ a = vneg b) := by
  have hl : a.length = b.length := by rw [ha, hb]
  have hle := dot_le_one a b hl na nb
  rw [dist2Q_eq]
  unfold vneg
  by_cases hc : dot a b > 0
  · rw [if_pos hc, mul_self_eq_zero, Real.arccos_eq_zero, one_le_clampCos,
      one_le_dot_iff a b hl na nb]
    constructor
    · exact Or.inl
    · rintro (h | h)
      · exact h
      · exfalso
        have := (dot_le_neg_one_iff a b hl na nb).2 h
        linarith
  · rw [if_neg hc, mul_self_eq_zero, sub_eq_zero, eq_comm, Real.arccos_eq_pi,
      clampCos_le_neg_one, dot_le_neg_one_iff a b hl na nb]
    constructor
    · exact Or.inr
    · rintro (h | h)
      · exfalso
        have := (one_le_dot_iff a b hl na nb).2 h
        linarith
      · exact h

/-- the geodesic distance between rotations never exceeds π/2 -/
theorem quat_le_half_pi (a b : List ℝ) : dist2Q Real.pi a b ≤ (Real.pi / 2) * (Real.pi / 2) := by
  rw [dist2Q_eq]
  have hpi := Real.pi_pos
  by_cases hc : dot a b > 0
  · rw [if_pos hc]
    have h1 := Real.arccos_nonneg (clampCos (dot a b))
    have h2 : Real.arccos (clampCos (dot a b)) ≤ Real.pi / 2 :=
      Real.arccos_le_pi_div_two.2 (le_of_lt (clampCos_pos hc))
    nlinarith
  · rw [if_neg hc]
    have h1 := Real.arccos_le_pi (clampCos (dot a b))
    have h2 : Real.pi / 2 ≤ Real.arccos (clampCos (dot a b)) := by
      by_contra hlt
      have := Real.arccos_lt_pi_div_two.1 (not_le.1 hlt)
      have := clampCos_nonpos (not_lt.1 hc)
      linarith
    nlinarith

/-! ## interpolation -/

theorem interp_ends_scalar (x1 x2 : ℝ) : lerpS x1 x2 0.0 = x1 ∧ lerpS x1 x2 1.0 = x2 := by
  unfold lerpS
  constructor <;> norm_num

theorem interp_ends_vec (a b : List ℝ) (h : a.length = b.length) :
    lerpV a b 0.0 = a ∧ lerpV a b 1.0 = b := by
  exact ⟨lerpV_zero a b h, lerpV_one a b h⟩

/-- whenever the code does not raise its own "undefined" error the result has unit norm -/
theorem interp_manifold (d2 : ℝ) (a b v : List ℝ) (l : ℝ) (hd : 0 < d2)
    (h : interpManifold d2 a b l = some v) : norm2 v = 1 := by
  unfold interpManifold at h
  simp only [prim_sqrt] at h
  have hs : 0 < √d2 := Real.sqrt_pos.2 hd
  have e0 : (0.0 : ℝ) = 0 := by norm_num
  rw [if_neg (by rw [e0]; exact not_le.2 hs)] at h
  by_cases hlt : √(norm2 (lerpV a b l)) / √d2 < 1.0e-6
  · rw [if_pos hlt] at h; exact absurd h (by simp)
  · rw [if_neg hlt] at h
    have hv : v = normalize (lerpV a b l) := (Option.some.inj h).symm
    rw [hv]
    apply norm2_normalize
    have hq : (0:ℝ) < √(norm2 (lerpV a b l)) / √d2 :=
      lt_of_lt_of_le (by norm_num) (not_lt.1 hlt)
    have : 0 < √(norm2 (lerpV a b l)) := by
      rcases (div_pos_iff.1 hq) with ⟨h1, _⟩ | ⟨_, h2⟩
      · exact h1
      · linarith
    exact Real.sqrt_pos.1 this

theorem interp_manifold_ends (a b : List ℝ) (h : a.length = b.length)
    (na : norm2 a = 1) (nb : norm2 b = 1) :
    normalize (lerpV a b 0.0) = a ∧ normalize (lerpV a b 1.0) = b := by
  rw [lerpV_zero a b h, lerpV_one a b h]
  exact ⟨normalize_of_unit a na, normalize_of_unit b nb⟩

/-! ## non-vacuity: concrete values meeting the hypotheses -/

example : (0:ℝ) < 360 ∧ ∀ n : ℤ, ((10:ℝ) - 350) / 360 + 0.5 ≠ n := by
  refine ⟨by norm_num, ?_⟩
  intro n hn
  have h9 : ((n * 9 : ℤ) : ℝ) = ((-4 : ℤ) : ℝ) := by
    push_cast
    have : ((10:ℝ) - 350) / 360 + 0.5 = -4 / 9 := by norm_num
    rw [this] at hn
    linarith
  have : n * 9 = -4 := by exact_mod_cast h9
  omega

example : norm2 ([1, 0, 0] : List ℝ) = 1 ∧ norm2 ([0, 1, 0] : List ℝ) = 1 ∧
    (-1 < dot ([1, 0, 0] : List ℝ) [0, 1, 0] ∧ dot ([1, 0, 0] : List ℝ) [0, 1, 0] < 1) := by
  norm_num [norm2, dot, sumL_eq_sum]

/-! ## interpolation between quaternions: `q` and `-q` are the same rotation -/

/-- interpolating between two quaternions that describe the same rotation stays at that rotation for every `λ`
    (as repaired: the 4-vectors used to be mixed as given, and the midpoint of `q` and `-q` is the null vector) -/
theorem interp_quat_same_rotation (a : List ℝ) (l : ℝ) (ha : a.length = 4) (na : norm2 a = 1) :
    interpQ Real.pi a (vneg a) l = some a ∧ interpQ Real.pi a a l = some a := by
  have hself : dist2Q Real.pi a a = 0 := (zero_iff_quat a a ha ha na na).2 (Or.inl rfl)
  have hneg : dist2Q Real.pi a (vneg a) = 0 := by rw [(qsign_invariant a a rfl).1, hself]
  have hm1 : matchSign a (vneg a) = a := by
    rw [matchSign_eq]
    unfold vneg
    have hdot : dot a (a.map (fun x => -x)) = -1 := by
      rw [dot_vneg_right]; unfold norm2 at na; rw [na]
    rw [if_pos (by rw [hdot]; norm_num), List.map_map]
    have : ((fun x : ℝ => -x) ∘ fun x => -x) = id := by funext x; simp
    rw [this, List.map_id]
  have hm2 : matchSign a a = a := by
    rw [matchSign_eq]
    have hdot : dot a a = 1 := na
    rw [if_neg (by rw [hdot]; norm_num)]
  unfold interpQ
  rw [hneg, hself, hm1, hm2, interpManifold_zero, lerpV_self, normalize_of_unit a na]
  exact ⟨rfl, rfl⟩

/-- whatever comes out of the quaternion interpolation is a unit quaternion -/
theorem interp_quat_on_manifold (a b v : List ℝ) (l : ℝ) (hab : a.length = b.length)
    (hd : 0 < dist2Q Real.pi a b) (h : interpQ Real.pi a b l = some v) : norm2 v = 1 := by
  unfold interpQ at h
  exact interp_manifold _ _ _ _ _ hd h

/-- the end points: `λ = 0` gives the first value, `λ = 1` the second one up to the sign that does not change the
    rotation -/
theorem interp_quat_ends (a b : List ℝ) (hab : a.length = b.length) (na : norm2 a = 1) (nb : norm2 b = 1)
    (hd : 0 < dist2Q Real.pi a b) :
    interpQ Real.pi a b 0.0 = some a ∧ (interpQ Real.pi a b 1.0 = some b ∨ interpQ Real.pi a b 1.0 = some (vneg b)) := by
  have hl : a.length = (matchSign a b).length := by rw [matchSign_length, hab]
  have nm : norm2 (matchSign a b) = 1 := by rw [matchSign_norm2, nb]
  have hle := quat_le_half_pi a b
  have h0 : lerpV a (matchSign a b) 0.0 = a := lerpV_zero _ _ hl
  have h1 : lerpV a (matchSign a b) 1.0 = matchSign a b := lerpV_one _ _ hl
  unfold interpQ
  rw [interpManifold_unit _ _ _ _ hd hle (by rw [h0, na]),
    interpManifold_unit _ _ _ _ hd hle (by rw [h1, nm]), h0, h1,
    normalize_of_unit a na, normalize_of_unit _ nm]
  refine ⟨rfl, ?_⟩
  rw [matchSign_eq]
  unfold vneg
  split_ifs
  · exact Or.inr rfl
  · exact Or.inl rfl

end Cv.C18
