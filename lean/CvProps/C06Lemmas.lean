import CvProps.RealInst
import CvProps.C18Lemmas
/-!
# Helper lemmas for C06 (restraints), all over `ℝ`.
-/
open Cv

namespace Cv.C06

open Cv.C18

/-! ## literals -/

theorem lit_one : (1.0 : ℝ) = 1 := by norm_num
theorem lit_zero : (0.0 : ℝ) = 0 := by norm_num
theorem lit_two : (2.0 : ℝ) = 2 := by norm_num
theorem lit_half : (0.5 : ℝ) = 1 / 2 := by norm_num

/-! ## periodic squared distance: derivative away from the cut (as in `C18.grad_periodic`) -/

theorem hasDerivAt_dist2S_periodic (p : ℝ) (_hp : 0 < p) (x1 x2 : ℝ)
    (hcut : ∀ n : ℤ, (x1 - x2) / p + 0.5 ≠ n) :
    HasDerivAt (fun x => dist2S (some p) x x2) (dist2SGrad (some p) x1 x2) x1 := by
  unfold dist2S dist2SGrad pdiff
  simp only [sq_real]
  have hcont : ContinuousAt (fun x : ℝ => (x - x2) / p + 1 / 2) x1 := by fun_prop
  have hev := floor_eventually_const (fun x : ℝ => (x - x2) / p + 1 / 2) x1 hcont
    (by intro n; have := hcut n; rwa [half_lit] at this)
  set k : ℤ := ⌊(x1 - x2) / p + 1 / 2⌋ with hk
  have hd : HasDerivAt (fun x : ℝ => x - x2 - (k : ℝ) * p) 1 x1 :=
    ((hasDerivAt_id x1).sub_const x2).sub_const _
  have h2 : HasDerivAt (fun x : ℝ => (x - x2 - (k : ℝ) * p) * (x - x2 - (k : ℝ) * p))
      (1 * (x1 - x2 - (k : ℝ) * p) + (x1 - x2 - (k : ℝ) * p) * 1) x1 := hd.mul hd
  have h3 : HasDerivAt (fun x : ℝ => pshift p (x - x2) * pshift p (x - x2))
      (1 * (x1 - x2 - (k : ℝ) * p) + (x1 - x2 - (k : ℝ) * p) * 1) x1 := by
    refine h2.congr_of_eventuallyEq ?_
    filter_upwards [hev] with y hy
    have hy' : ⌊(y - x2) / p + 1 / 2⌋ = k := hy
    rw [pshift_eq, hy']
  refine h3.congr_deriv ?_
  rw [pshift_eq, ← hk]
  norm_num; ring

theorem hasDerivAt_dist2S_none (x1 x2 : ℝ) :
    HasDerivAt (fun x => dist2S (none : Option ℝ) x x2) (dist2SGrad none x1 x2) x1 := by
  unfold dist2S dist2SGrad pdiff
  simp only [sq_real]
  have hd : HasDerivAt (fun x : ℝ => x - x2) 1 x1 := (hasDerivAt_id x1).sub_const x2
  have h2 := hd.mul hd
  refine h2.congr_deriv ?_
  norm_num; ring

/-! ## integer division facts used by the staged schedules -/

theorem ediv_succ_of_dvd {T n : Int} (hn : 0 < n) (h : (T + 1) % n = 0) :
    (T + 1) / n = T / n + 1 := by
  have h1 := Int.mul_ediv_add_emod (T + 1) n
  have h2 := Int.mul_ediv_add_emod T n
  have h3 := Int.emod_nonneg T (ne_of_gt hn)
  have h4 := Int.emod_lt_of_pos T hn
  rw [h] at h1
  have h5 : n * ((T + 1) / n - T / n - 1) = T % n + 1 - n := by linarith
  have h6 : (T + 1) / n - T / n - 1 = 0 := by
    by_contra hne
    rcases lt_or_gt_of_ne hne with hlt | hgt
    · have : (T + 1) / n - T / n - 1 ≤ -1 := by omega
      nlinarith
    · have : 1 ≤ (T + 1) / n - T / n - 1 := by omega
      nlinarith
  omega

theorem ediv_succ_of_not_dvd {T n : Int} (hn : 0 < n) (h : (T + 1) % n ≠ 0) :
    (T + 1) / n = T / n := by
  have h1 := Int.mul_ediv_add_emod (T + 1) n
  have h2 := Int.mul_ediv_add_emod T n
  have h3 := Int.emod_nonneg T (ne_of_gt hn)
  have h4 := Int.emod_lt_of_pos T hn
  have h3' := Int.emod_nonneg (T + 1) (ne_of_gt hn)
  have h4' := Int.emod_lt_of_pos (T + 1) hn
  have h7 : 1 ≤ (T + 1) % n := by omega
  have h5 : n * ((T + 1) / n - T / n) = T % n + 1 - (T + 1) % n := by linarith
  have h6 : (T + 1) / n - T / n = 0 := by
    by_contra hne
    rcases lt_or_gt_of_ne hne with hlt | hgt
    · have : (T + 1) / n - T / n ≤ -1 := by omega
      nlinarith
    · have : 1 ≤ (T + 1) / n - T / n := by omega
      nlinarith
  omega

/-! ## the updates leave the accumulated work alone -/

theorem updateCenters_accWork (p : RParams ℝ) (s : RState ℝ) (tgt : List ℝ) (lam : ℝ) :
    (updateCenters p s tgt lam).accWork = s.accWork := rfl

theorem cmu_accWork (p : RParams ℝ) (c : Clock) (s : RState ℝ) :
    (centersMovingUpdate p c s).accWork = s.accWork := by
  unfold centersMovingUpdate
  cases p.targetCenters with
  | none => rfl
  | some tgt =>
    dsimp only
    split_ifs <;> rfl

theorem kmu_accWork (p : RParams ℝ) (c : Clock) (s : RState ℝ) (xs : List ℝ) :
    (kMovingUpdate p c s xs).accWork = s.accWork := by
  unfold kMovingUpdate
  dsimp only
  split_ifs <;> rfl

/-! ## projections of one `update()` -/

/-- the state the force-constant update starts from -/
noncomputable def preK (p : RParams ℝ) (c : Clock) (s : RState ℝ) : RState ℝ :=
  if p.kind = .walls then s else centersMovingUpdate p c s

theorem restraintStep_stage (p : RParams ℝ) (c : Clock) (s : RState ℝ) (xs : List ℝ) :
    (restraintStep p c s xs).1.stage = (kMovingUpdate p c (preK p c s) xs).stage := rfl
theorem restraintStep_k (p : RParams ℝ) (c : Clock) (s : RState ℝ) (xs : List ℝ) :
    (restraintStep p c s xs).1.k = (kMovingUpdate p c (preK p c s) xs).k := rfl
theorem restraintStep_centers (p : RParams ℝ) (c : Clock) (s : RState ℝ) (xs : List ℝ) :
    (restraintStep p c s xs).1.centers = (kMovingUpdate p c (preK p c s) xs).centers := rfl

/-! ## histories -/

def opAdv : ROp ℝ → Nat
  | .step _ => 1
  | _ => 0

def advN : List (ROp ℝ) → Nat
  | [] => 0
  | op :: r => opAdv op + advN r

def opXs : ROp ℝ → List ℝ
  | .step xs => xs
  | .cont xs => xs
  | .restart xs => xs

def opClock (c : Clock) : ROp ℝ → Clock
  | .step _ => c.tick false
  | .cont _ => c.tick true
  | .restart _ => ({ it := c.it, itRestart := c.it, first := true, cont := false } : Clock).tick false

noncomputable def opPre (p : RParams ℝ) (s : RState ℝ) : ROp ℝ → RState ℝ
  | .restart _ => reloadR p s
  | _ => s

theorem rApply_clock (p : RParams ℝ) (r : RRun ℝ) (op : ROp ℝ) :
    (rApply p r op).clock = opClock r.clock op := by
  cases op <;> rfl

theorem rApply_s (p : RParams ℝ) (r : RRun ℝ) (op : ROp ℝ) :
    (rApply p r op).s = (restraintStep p (opClock r.clock op) (opPre p r.s op) (opXs op)).1 := by
  cases op <;> rfl

theorem rRun_cons (p : RParams ℝ) (r : RRun ℝ) (op : ROp ℝ) (ops : List (ROp ℝ)) :
    rRun p r (op :: ops) = rRun p (rApply p r op) ops := rfl

/-- invariants indexed by the number of advancing steps propagate along any history -/
theorem rRun_induct (p : RParams ℝ) (Inv : RRun ℝ → Int → Prop)
    (hstep : ∀ r T op, 0 ≤ T → Inv r T → Inv (rApply p r op) (T + (opAdv op : Int)))
    (ops : List (ROp ℝ)) (r : RRun ℝ) (T : Int) (hT : 0 ≤ T) (h : Inv r T) :
    Inv (rRun p r ops) (T + (advN ops : Int)) := by
  induction ops generalizing r T with
  | nil => simpa [rRun, advN] using h
  | cons op ops ih =>
    rw [rRun_cons]
    have := ih (rApply p r op) (T + (opAdv op : Int)) (by positivity) (hstep r T op hT h)
    simpa [advN, add_assoc] using this

/-! ### the clock after each kind of operation -/

structure ClockOK (p : RParams ℝ) (c : Clock) (T : Int) : Prop where
  first : c.first = false
  it : c.it = p.firstStep + T
  le : c.itRestart ≤ c.it

theorem opClock_step {c : Clock} (h : c.first = false) (xs : List ℝ) :
    opClock c (.step xs) = { c with it := c.it + 1, cont := false } := by
  simp [opClock, Clock.tick, h]

theorem opClock_cont {c : Clock} (h : c.first = false) (xs : List ℝ) :
    opClock c (.cont xs) = { c with cont := true } := by
  simp [opClock, Clock.tick, h]

theorem opClock_restart (c : Clock) (xs : List ℝ) :
    opClock c (.restart xs) = { it := c.it, itRestart := c.it, first := false, cont := false } := by
  simp [opClock, Clock.tick]

theorem clockOK_op {p : RParams ℝ} {c : Clock} {T : Int} (h : ClockOK p c T) (op : ROp ℝ) :
    ClockOK p (opClock c op) (T + (opAdv op : Int)) := by
  cases op with
  | step xs =>
    rw [opClock_step h.first]
    exact ⟨h.first, by simp [opAdv, h.it, add_assoc], by have := h.le; simp; omega⟩
  | cont xs =>
    rw [opClock_cont h.first]
    exact ⟨h.first, by simp [opAdv, h.it], h.le⟩
  | restart xs =>
    rw [opClock_restart]
    exact ⟨rfl, by simp [opAdv, h.it], le_refl _⟩

theorem clockOK_init (p : RParams ℝ) (k0 : ℝ) (x0 : List ℝ) :
    ClockOK p (opClock (rInit p k0).clock (.step x0)) 0 := by
  simp [opClock, Clock.tick, rInit]
  exact ⟨rfl, by simp, le_refl _⟩

end Cv.C06
