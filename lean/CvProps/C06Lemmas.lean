import CvProps.RealInst
import CvProps.C18Lemmas
/-!
# Helper lemmas for C06 (restraints), all over `ℝ`.
-/
open Cv

namespace Cv.C06

open Cv.C18

/-! ## literals -/

theorem lit_one : (1.0 : ℝ) = 1 := by norm_num
theorem lit_zero : (0.0 : ℝ) = 0 := by norm_num
theorem lit_two : (2.0 : ℝ) = 2 := by norm_num
theorem lit_half : (0.5 : ℝ) = 1 / 2 := by norm_num

/-! ## periodic squared distance: derivative away from the cut (as in `C18.grad_periodic`) -/

theorem hasDerivAt_dist2S_periodic (p : ℝ) (_hp : 0 < p) (x1 x2 : ℝ)
    (hcut : ∀ n : ℤ, (x1 - x2) / p + 0.5 ≠ n) :
    HasDerivAt (fun x => dist2S (some p) x x2) (dist2SGrad (some p) x1 x2) x1 := by
  unfold dist2S dist2SGrad pdiff
  simp only [sq_real]
  have hcont : ContinuousAt (fun x : ℝ => (x - x2) / p + 1 / 2) x1 := by fun_prop
  have hev := floor_eventually_const (fun x : ℝ => (x - x2) / p + 1 / 2) x1 hcont
    (by intro n; have := hcut n; rwa [half_lit] at this)
  set k : ℤ := ⌊(x1 - x2) / p + 1 / 2⌋ with hk
  have hd : HasDerivAt (fun x : ℝ => x - x2 - (k : ℝ) * p) 1 x1 :=
    ((hasDerivAt_id x1).sub_const x2).sub_const _
  have h2 : HasDerivAt (fun x : ℝ => (x - x2 - (k : ℝ) * p) * (x - x2 - (k : ℝ) * p))
      (1 * (x1 - x2 - (k : ℝ) * p) + (x1 - x2 - (k : ℝ) * p) * 1) x1 := hd.mul hd
  have h3 : HasDerivAt (fun x : ℝ => pshift p (x - x2) * pshift p (x - x2))
      (1 * (x1 - x2 - (k : ℝ) * p) + (x1 - x2 - (k : ℝ) * p) * 1) x1 := by
    refine h2.congr_of_eventuallyEq ?_
    filter_upwards [hev] with y hy
    have hy' : ⌊(y - x2) / p + 1 / 2⌋ = k := hy
    rw [pshift_eq, hy']
  refine h3.congr_deriv ?_
  rw [pshift_eq, ← hk]
  norm_num; ring

theorem hasDerivAt_dist2S_none (x1 x2 : ℝ) :
    HasDerivAt (fun x => dist2S (none : Option ℝ) x x2) (dist2SGrad none x1 x2) x1 := by
  unfold dist2S dist2SGrad pdiff
  simp only [sq_real]
  have hd : HasDerivAt (fun x : ℝ => x - x2) 1 x1 := (hasDerivAt_id x1).sub_const x2
  have h2 := hd.mul hd
  refine h2.congr_deriv ?_
  norm_num; ring

/-! ## integer division facts used by the staged schedules -/

theorem ediv_succ_of_dvd {T n : Int} (hn : 0 < n) (h : (T + 1) % n = 0) :
    (T + 1) / n = T / n + 1 := by
  have h1 := Int.mul_ediv_add_emod (T + 1) n
  have h2 := Int.mul_ediv_add_emod T n
  have h3 := Int.emod_nonneg T (ne_of_gt hn)
  have h4 := Int.emod_lt_of_pos T hn
  rw [h] at h1
  have h5 : n * ((T + 1) / n - T / n - 1) = T % n + 1 - n := by linarith
  have h6 : (T + 1) / n - T / n - 1 = 0 := by
    by_contra hne
    rcases lt_or_gt_of_ne hne with hlt | hgt
    · have : (T + 1) / n - T / n - 1 ≤ -1 := by omega
      nlinarith
    · have : 1 ≤ (T + 1) / n - T / n - 1 := by omega
      nlinarith
  omega

theorem ediv_succ_of_not_dvd {T n : Int} (hn : 0 < n) (h : (T + 1) % n ≠ 0) :
    (T + 1) / n = T / n := by
  have h1 := Int.mul_ediv_add_emod (T + 1) n
  have h2 := Int.mul_ediv_add_emod T n
  have h3 := Int.emod_nonneg T (ne_of_gt hn)
  have h4 := Int.emod_lt_of_pos T hn
  have h3' := Int.emod_nonneg (T + 1) (ne_of_gt hn)
  have h4' := Int.emod_lt_of_pos (T + 1) hn
  have h7 : 1 ≤ (T + 1) % n := by omega
  have h5 : n * ((T + 1) / n - T / n) = T % n + 1 - (T + 1) % n := by linarith
  have h6 : (T + 1) / n - T / n = 0 := by
    by_contra hne
    rcases lt_or_gt_of_ne hne with hlt | hgt
    · have : (T + 1) / n - T / n ≤ -1 := by omega
      nlinarith
    · have : 1 ≤ (T + 1) / n - T / n := by omega
      nlinarith
  omega

end Cv.C06
